// Package gen: one PRNG, value generators biased to edge cases, small formatting helpers.
package gen

import (
	"math/big"
	"math/rand"
	"os"

	"github.com/consensys/gnark/logger"
	"github.com/rs/zerolog"

	"strings"
	"worldcoin/gnark-mbu/logging"
)

var BN254 = func() *big.Int {
	n, _ := new(big.Int).SetString("21888242871839275222246405745257275088548364400416034343698204186575808495617", 10)
	return n
}()

type G struct{ R *rand.Rand }

// Out is the protocol stream (the process's original stdout).  gnark prints diagnostics such as
// "ignoring uninitialized slice" with fmt.Printf; os.Stdout is pointed at stderr so that they
// cannot interleave with protocol lines.
var Out = os.Stdout

func init() {
	logger.Disable()
	*logging.Logger() = zerolog.Nop()
	os.Stdout = os.Stderr
}

func New(seed int64) *G { return &G{R: rand.New(rand.NewSource(seed))} }

func (g *G) Intn(n int) int           { return g.R.Intn(n) }
func (g *G) Pick(n int) int           { return g.R.Intn(n) }
func (g *G) Chance(num, den int) bool { return g.R.Intn(den) < num }

// Below returns a uniform value in [0, n).
func (g *G) Below(n *big.Int) *big.Int { return new(big.Int).Rand(g.R, n) }

// Field returns a field element biased to edge values.
func (g *G) Field(p *big.Int) *big.Int {
	switch g.R.Intn(10) {
	case 0:
		return big.NewInt(0)
	case 1:
		return big.NewInt(1)
	case 2:
		return new(big.Int).Sub(p, big.NewInt(1))
	case 3:
		return new(big.Int).Mod(big.NewInt(int64(g.R.Intn(1000))), p)
	case 4:
		// value with leading zero bytes
		bl := p.BitLen()
		if bl > 40 {
			return g.Below(new(big.Int).Lsh(big.NewInt(1), uint(bl-8-8*g.R.Intn(3))))
		}
	}
	return g.Below(p)
}

func Csv(vs []*big.Int) string {
	parts := make([]string, len(vs))
	for i, v := range vs {
		parts[i] = v.String()
	}
	return strings.Join(parts, ",")
}

func Csv2(vs [][]*big.Int) string {
	parts := make([]string, len(vs))
	for i, v := range vs {
		parts[i] = Csv(v)
	}
	return strings.Join(parts, "|")
}
