module verifharness

go 1.23

require (
	github.com/consensys/gnark v0.8.0
	github.com/consensys/gnark-crypto v0.9.1
	github.com/iden3/go-iden3-crypto v0.0.13
	github.com/reilabs/gnark-lean-extractor/v2 v2.1.0
	github.com/rs/zerolog v1.29.0
	golang.org/x/crypto v0.25.0
	worldcoin/gnark-mbu v0.0.0
)

require (
	github.com/DataDog/appsec-internal-go v1.8.0 // indirect
	github.com/DataDog/datadog-agent/pkg/obfuscate v0.48.0 // indirect
	github.com/DataDog/datadog-agent/pkg/remoteconfig/state v0.57.0 // indirect
	github.com/DataDog/datadog-go/v5 v5.3.0 // indirect
	github.com/DataDog/go-libddwaf/v3 v3.4.0 // indirect
	github.com/DataDog/go-tuf v1.1.0-0.5.2 // indirect
	github.com/DataDog/sketches-go v1.4.5 // indirect
	github.com/aws/aws-sdk-go-v2 v1.33.0 // indirect
	github.com/aws/aws-sdk-go-v2/aws/protocol/eventstream v1.6.7 // indirect
	github.com/aws/aws-sdk-go-v2/config v1.29.1 // indirect
	github.com/aws/aws-sdk-go-v2/credentials v1.17.54 // indirect
	github.com/aws/aws-sdk-go-v2/feature/ec2/imds v1.16.24 // indirect
	github.com/aws/aws-sdk-go-v2/feature/s3/manager v1.17.53 // indirect
	github.com/aws/aws-sdk-go-v2/internal/configsources v1.3.28 // indirect
	github.com/aws/aws-sdk-go-v2/internal/endpoints/v2 v2.6.28 // indirect
	github.com/aws/aws-sdk-go-v2/internal/ini v1.8.1 // indirect
	github.com/aws/aws-sdk-go-v2/internal/v4a v1.3.28 // indirect
	github.com/aws/aws-sdk-go-v2/service/internal/accept-encoding v1.12.1 // indirect
	github.com/aws/aws-sdk-go-v2/service/internal/checksum v1.5.2 // indirect
	github.com/aws/aws-sdk-go-v2/service/internal/presigned-url v1.12.9 // indirect
	github.com/aws/aws-sdk-go-v2/service/internal/s3shared v1.18.9 // indirect
	github.com/aws/aws-sdk-go-v2/service/s3 v1.74.0 // indirect
	github.com/aws/aws-sdk-go-v2/service/sso v1.24.11 // indirect
	github.com/aws/aws-sdk-go-v2/service/ssooidc v1.28.10 // indirect
	github.com/aws/aws-sdk-go-v2/service/sts v1.33.9 // indirect
	github.com/aws/smithy-go v1.22.1 // indirect
	github.com/beorn7/perks v1.0.1 // indirect
	github.com/blang/semver/v4 v4.0.0 // indirect
	github.com/cespare/xxhash/v2 v2.2.0 // indirect
	github.com/consensys/bavard v0.1.13 // indirect
	github.com/davecgh/go-spew v1.1.2-0.20180830191138-d8f796af33cc // indirect
	github.com/dustin/go-humanize v1.0.1 // indirect
	github.com/eapache/queue/v2 v2.0.0-20230407133247-75960ed334e4 // indirect
	github.com/ebitengine/purego v0.6.0-alpha.5 // indirect
	github.com/fxamacker/cbor/v2 v2.4.0 // indirect
	github.com/golang/protobuf v1.5.3 // indirect
	github.com/google/pprof v0.0.0-20230817174616-7a8ec2ada47b // indirect
	github.com/google/uuid v1.5.0 // indirect
	github.com/hashicorp/go-secure-stdlib/parseutil v0.1.7 // indirect
	github.com/hashicorp/go-secure-stdlib/strutil v0.1.2 // indirect
	github.com/hashicorp/go-sockaddr v1.0.2 // indirect
	github.com/mattn/go-colorable v0.1.13 // indirect
	github.com/mattn/go-isatty v0.0.20 // indirect
	github.com/matttproud/golang_protobuf_extensions v1.0.1 // indirect
	github.com/mitchellh/copystructure v1.2.0 // indirect
	github.com/mitchellh/mapstructure v1.5.0 // indirect
	github.com/mitchellh/reflectwalk v1.0.2 // indirect
	github.com/mmcloughlin/addchain v0.4.0 // indirect
	github.com/outcaste-io/ristretto v0.2.3 // indirect
	github.com/philhofer/fwd v1.1.3-0.20240612014219-fbbf4953d986 // indirect
	github.com/pkg/errors v0.9.1 // indirect
	github.com/pmezard/go-difflib v1.0.1-0.20181226105442-5d4384ee4fb2 // indirect
	github.com/prometheus/client_golang v1.14.0 // indirect
	github.com/prometheus/client_model v0.3.0 // indirect
	github.com/prometheus/common v0.37.0 // indirect
	github.com/prometheus/procfs v0.8.0 // indirect
	github.com/ryanuber/go-glob v1.0.0 // indirect
	github.com/secure-systems-lab/go-securesystemslib v0.7.0 // indirect
	github.com/stretchr/testify v1.9.0 // indirect
	github.com/tinylib/msgp v1.2.1 // indirect
	github.com/x448/float16 v0.8.4 // indirect
	go.uber.org/atomic v1.11.0 // indirect
	golang.org/x/exp v0.0.0-20230905200255-921286631fa9 // indirect
	golang.org/x/mod v0.18.0 // indirect
	golang.org/x/sync v0.7.0 // indirect
	golang.org/x/sys v0.23.0 // indirect
	golang.org/x/time v0.3.0 // indirect
	golang.org/x/xerrors v0.0.0-20231012003039-104605ab7028 // indirect
	google.golang.org/protobuf v1.33.0 // indirect
	gopkg.in/DataDog/dd-trace-go.v1 v1.69.0 // indirect
	gopkg.in/yaml.v3 v3.0.1 // indirect
	rsc.io/tmplfunc v0.0.3 // indirect
)

replace worldcoin/gnark-mbu => /repo
