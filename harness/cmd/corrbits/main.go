// Command corrbits: C06 correspondence for ReducedModRCheck / ToReducedBigEndian /
// FromBinaryBigEndian (gnark test engine over many prime fields; compiled R1CS on BN254 with a
// forged bits.NBits hint).
package main

import (
	"flag"
	"fmt"
	"math/big"
	"os"
	"strings"

	"github.com/consensys/gnark/backend/hint"
	"github.com/consensys/gnark/constraint"
	"github.com/consensys/gnark/frontend"
	"github.com/consensys/gnark/test"

	"verifharness/circuits"
	"verifharness/gen"
	"verifharness/r1csx"
)

var stat = map[string]int{}

func digitsCsv(ds []*big.Int) string { return gen.Csv(ds) }

func vars(vs []*big.Int) []frontend.Variable {
	out := make([]frontend.Variable, len(vs))
	for i, v := range vs {
		out[i] = new(big.Int).Set(v)
	}
	return out
}

// big-endian bytes of v on n/8 bytes, each byte least-significant bit first
func beBits(v *big.Int, n int) []*big.Int {
	buf := make([]byte, n/8)
	new(big.Int).Mod(v, new(big.Int).Lsh(big.NewInt(1), uint(8*(n/8)))).FillBytes(buf)
	out := make([]*big.Int, 0, n)
	for _, b := range buf {
		for i := 0; i < 8; i++ {
			out = append(out, big.NewInt(int64((b>>uint(i))&1)))
		}
	}
	return out
}

func bitString(bs []*big.Int) string {
	var sb strings.Builder
	for _, b := range bs {
		sb.WriteString(b.String())
	}
	return sb.String()
}

func acc(err error) string {
	if err == nil {
		return "accept"
	}
	return "reject"
}

func rmc(p *big.Int, digits []*big.Int) {
	c := &circuits.ReducedCheckCircuit{In: make([]frontend.Variable, len(digits))}
	err := test.IsSolved(c, &circuits.ReducedCheckCircuit{In: vars(digits)}, p)
	stat["rmc"]++
	fmt.Fprintf(gen.Out, "rmc\t%s\t%s\t=>\t%s\n", p, digitsCsv(digits), acc(err))
}

func tre(p *big.Int, n int, v *big.Int) {
	want := beBits(v, n)
	c := &circuits.ToReducedCircuit{Out: make([]frontend.Variable, 8*(n/8)), Size: n}
	res := "unsat"
	if test.IsSolved(c, &circuits.ToReducedCircuit{V: v, Out: vars(want)}, p) == nil {
		res = "ok " + bitString(want)
		if len(want) > 0 {
			flip := vars(want)
			i := len(want) / 2
			flip[i] = new(big.Int).Xor(want[i], big.NewInt(1))
			if test.IsSolved(c, &circuits.ToReducedCircuit{V: v, Out: flip}, p) == nil {
				res = "accepts-flipped-bit"
			}
		}
	}
	stat["tre"]++
	fmt.Fprintf(gen.Out, "tre\t%s\t%d\t%s\t=>\t%s\n", p, n, v, res)
}

func fbe(p *big.Int, bits []*big.Int) {
	// expected: the integer denoted by the big-endian byte string, modulo p
	n := 8 * (len(bits) / 8)
	val := big.NewInt(0)
	off := len(bits) - n // the Go loop drops the len%8 leading… (see model); only byte-aligned inputs are generated
	_ = off
	for byteI := 0; byteI < n/8; byteI++ {
		b := 0
		for i := 0; i < 8; i++ {
			if bits[byteI*8+i].Sign() != 0 {
				b |= 1 << uint(i)
			}
		}
		val.Lsh(val, 8)
		val.Add(val, big.NewInt(int64(b)))
	}
	val.Mod(val, p)
	c := &circuits.FromBinaryBECircuit{In: make([]frontend.Variable, len(bits))}
	res := val.String()
	if test.IsSolved(c, &circuits.FromBinaryBECircuit{In: vars(bits), Out: val}, p) != nil {
		res = "gadget-rejects-expected"
	} else if test.IsSolved(c, &circuits.FromBinaryBECircuit{In: vars(bits), Out: new(big.Int).Mod(new(big.Int).Add(val, big.NewInt(1)), p)}, p) == nil {
		res = "gadget-accepts-wrong"
	}
	stat["fbe"]++
	fmt.Fprintf(gen.Out, "fbe\t%s\t%s\t=>\t%s\n", p, bitString(bits), res)
}

var ccs256 constraint.ConstraintSystem

// forge: BN254, Size 256: the prover replaces the NBits hint so that the decomposition is that of
// v + k*r (< 2^256) and claims the corresponding big-endian bits as output.
func forge(v *big.Int, k int64) {
	if ccs256 == nil {
		var err error
		ccs256, err = r1csx.Compile(&circuits.ToReducedCircuit{Out: make([]frontend.Variable, 256), Size: 256})
		if err != nil {
			panic(err)
		}
	}
	alias := new(big.Int).Add(v, new(big.Int).Mul(big.NewInt(k), gen.BN254))
	res := "reject"
	if alias.BitLen() <= 256 {
		out := beBits(alias, 256)
		h := r1csx.NBitsOf(func(n *big.Int, nb int) *big.Int { return alias })
		if r1csx.Solve(ccs256, &circuits.ToReducedCircuit{V: v, Out: vars(out)}, map[hint.ID]hint.Function{r1csx.NBitsID: h}) == nil {
			res = "accept"
		}
	}
	stat["forge"]++
	fmt.Fprintf(gen.Out, "forge\t%s\t%d\t=>\t%s\n", v, k, res)
}

func main() {
	seed := flag.Int64("seed", 1, "seed")
	n := flag.Int("n", 100, "random cases")
	exhaustive := flag.Bool("exhaustive", false, "enumerate all 8-digit boolean patterns and all values over tiny fields")
	flag.Parse()
	g := gen.New(*seed)
	r := gen.BN254
	if *exhaustive {
		for _, pi := range []int64{5, 7, 11, 13, 47, 101, 251} {
			p := big.NewInt(pi)
			for pat := 0; pat < 256; pat++ {
				ds := make([]*big.Int, 8)
				for i := range ds {
					ds[i] = big.NewInt(int64((pat >> uint(i)) & 1))
				}
				rmc(p, ds)
			}
			for v := int64(0); v < pi; v++ {
				tre(p, 8, big.NewInt(v))
				if pi < 20 {
					tre(p, 16, big.NewInt(v))
					tre(p, 0, big.NewInt(v))
				}
			}
		}
	}
	// BN254: every position of the first differing bit, both directions, equality, r-1
	for pos := 0; pos < 256 && (*exhaustive || pos%(1 + 256 / *n) == 0); pos++ {
		x := new(big.Int).Set(r)
		x.SetBit(x, pos, x.Bit(pos)^1)
		low := g.Below(new(big.Int).Lsh(big.NewInt(1), uint(pos)+1))
		if g.Chance(1, 2) {
			// randomise the bits below the differing one
			x.Rsh(x, uint(pos))
			x.Lsh(x, uint(pos))
			x.Or(x, new(big.Int).Rsh(low, 1))
		}
		ds := make([]*big.Int, 256)
		for i := range ds {
			ds[i] = big.NewInt(int64(x.Bit(i)))
		}
		rmc(r, ds)
	}
	for _, x := range []*big.Int{r, new(big.Int).Sub(r, big.NewInt(1)), big.NewInt(0), new(big.Int).Sub(new(big.Int).Lsh(big.NewInt(1), 256), big.NewInt(1))} {
		ds := make([]*big.Int, 256)
		for i := range ds {
			ds[i] = big.NewInt(int64(x.Bit(i)))
		}
		rmc(r, ds)
	}
	primes := []*big.Int{r, big.NewInt(47), big.NewInt(101), big.NewInt(251), big.NewInt(65521), new(big.Int).Sub(new(big.Int).Lsh(big.NewInt(1), 61), big.NewInt(1)), big.NewInt(5), big.NewInt(13)}
	widths := []int{8, 16, 32, 64, 248, 256, 0, 24}
	for c := 0; c < *n; c++ {
		p := primes[g.Intn(len(primes))]
		w := widths[g.Intn(len(widths))]
		switch g.Intn(6) {
		case 0: // rmc with random digits, sometimes non-boolean
			ds := make([]*big.Int, w)
			for i := range ds {
				ds[i] = big.NewInt(int64(g.Intn(2)))
			}
			if w > 0 && g.Chance(1, 3) {
				ds[g.Intn(w)] = new(big.Int).Mod(big.NewInt(int64(2+g.Intn(5))), p)
			}
			if w >= p.BitLen() && g.Chance(1, 2) {
				// near the modulus
				x := new(big.Int).Add(p, big.NewInt(int64(g.Intn(5)-2)))
				for i := range ds {
					ds[i] = big.NewInt(int64(x.Bit(i)))
				}
			}
			rmc(p, ds)
		case 1, 2:
			v := g.Field(p)
			if g.Chance(1, 3) && w > 0 && w < p.BitLen() {
				// straddle 2^w
				v = new(big.Int).Add(new(big.Int).Lsh(big.NewInt(1), uint(w)), big.NewInt(int64(g.Intn(3)-1)))
				v.Mod(v, p)
			}
			tre(p, w, v)
		case 3:
			bits := make([]*big.Int, 8*(w/8))
			for i := range bits {
				bits[i] = big.NewInt(int64(g.Intn(2)))
			}
			if g.Chance(1, 4) {
				for i := range bits {
					bits[i] = big.NewInt(1)
				}
			}
			fbe(p, bits)
		default:
			// forged decompositions on BN254 (r < 2^254: k up to 5 fits in 256 bits)
			v := g.Field(r)
			if g.Chance(1, 3) {
				v = g.Below(big.NewInt(1000))
			}
			forge(v, int64(g.Intn(6)))
		}
	}
	fmt.Fprintf(os.Stderr, "{")
	first := true
	for k, v := range stat {
		if !first {
			fmt.Fprintf(os.Stderr, ",")
		}
		first = false
		fmt.Fprintf(os.Stderr, "%q:%d", k, v)
	}
	fmt.Fprintf(os.Stderr, "}\n")
}
