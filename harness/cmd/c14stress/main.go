// Command c14stress: the "stop precedes start" timing of C14.  Repeats
//
//	Run -> RequestStop -> AwaitStop -> bind both addresses
//
// on fixed addresses.  After AwaitStop returns both listeners must be released, so the binds
// must succeed and the next cycle's server must be able to start (no panic).
// Runs as a child process because the failure mode includes a panic in a server goroutine.
package main

import (
	"flag"
	"fmt"
	"net"
	"os"
	"runtime"
	"time"

	"worldcoin/gnark-mbu/logging"
	"worldcoin/gnark-mbu/server"

	"github.com/rs/zerolog"
)

func freePort() string {
	l, err := net.Listen("tcp", "127.0.0.1:0")
	if err != nil {
		panic(err)
	}
	defer l.Close()
	return l.Addr().String()
}

func main() {
	cycles := flag.Int("cycles", 2000, "start/stop cycles")
	procs := flag.Int("procs", 0, "GOMAXPROCS (0 = default)")
	watchdog := flag.Int("watchdog", 60, "seconds after which a blocked AwaitStop counts as a deadlock")
	delayUs := flag.Int("delay-us", 0, "max random-ish delay between Run and RequestStop (microseconds, cycles through 0..delay)")
	flag.Parse()
	if *procs > 0 {
		runtime.GOMAXPROCS(*procs)
	}
	*logging.Logger() = zerolog.Nop()
	pa, ma := freePort(), freePort()
	cfg := &server.Config{ProverAddress: pa, MetricsAddress: ma, Mode: server.DeletionMode}
	for i := 0; i < *cycles; i++ {
		inst := server.Run(cfg, nil)
		if *delayUs > 0 {
			time.Sleep(time.Duration(i%(*delayUs+1)) * time.Microsecond)
		}
		inst.RequestStop()
		done := make(chan struct{})
		go func() { inst.AwaitStop(); close(done) }()
		select {
		case <-done:
		case <-time.After(time.Duration(*watchdog) * time.Second):
			fmt.Printf("DEADLOCK cycle=%d: AwaitStop did not return within %d s of RequestStop\n", i, *watchdog)
			os.Exit(4)
		}
		for _, a := range []string{pa, ma} {
			l, err := net.Listen("tcp", a)
			if err != nil {
				fmt.Printf("BIND-FAILURE cycle=%d addr=%s err=%v\n", i, a, err)
				os.Exit(3)
			}
			l.Close()
		}
	}
	// give a late starter (if any) the chance to run into the panic path before we report success
	time.Sleep(50 * time.Millisecond)
	fmt.Printf("OK cycles=%d procs=%d\n", *cycles, runtime.GOMAXPROCS(0))
}
