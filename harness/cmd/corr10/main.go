// Command corr10: differential test for property C10 (Proof.MarshalJSON / Proof.UnmarshalJSON,
// /repo/prover/marshal.go:187-253).
//
//	corr10 -seed S -n N
//
// Synthetic proofs are built from real curve points: A and C are random multiples of the G1
// generator or points with a tiny x coordinate (x = 1, 2, 3, … with x^3+3 a square; BN254 G1 has
// cofactor 1, so every curve point is a valid proof element), B is a random multiple of the G2
// generator (resampled with probability 1/4 until one of its four coordinates has a leading zero
// byte).  The raw 256 bytes are point.RawBytes() of A, B, C; the proof object is obtained through
// groth16.NewProof(ecc.BN254).ReadFrom(raw) (the concrete type lives in an internal package).
//
// Protocol lines (`<input>\t=>\t<result>`, answered by `driver corr c10`, Driver/C10Cmd.lean):
//
//	marshal   <hex raw 256 bytes>  =>  hex of json.Marshal(&prover.Proof{…}) (REAL MarshalJSON)
//	unmarshal <hex json>           =>  hex of WriteRawTo of the proof decoded by the REAL
//	                                   (*prover.Proof).UnmarshalJSON | err <class>
//	old       <hex json>           =>  the 256-byte buffer the PRE-repair UnmarshalJSON handed to
//	                                   ReadFrom | err <class> (body copied from 0168fd6^; regression
//	                                   model of the repaired defect)
//
// JSON documents: the marshalled text itself and mutations of it.  The real decoder also validates
// the points (ReadFrom), which the model does not; therefore only two families of mutations are
// generated: formatting mutations that keep all eight coordinates unchanged as numbers (both sides
// must return the original bytes) and mutations that make the codec itself fail (both sides err,
// same class).  Error classes: syntax (*json.SyntaxError), type (*json.UnmarshalTypeError),
// invalid ("invalid number: …"), toolong ("proof element … does not fit …"), point (anything else:
// never expected here).
package main

import (
	"bytes"
	"encoding/hex"
	"encoding/json"
	"errors"
	"flag"
	"fmt"
	"math/big"
	"os"
	"reflect"
	"strings"

	"github.com/consensys/gnark-crypto/ecc"
	"github.com/consensys/gnark-crypto/ecc/bn254"
	"github.com/consensys/gnark-crypto/ecc/bn254/fp"
	"github.com/consensys/gnark/backend/groth16"

	"verifharness/gen"
	"worldcoin/gnark-mbu/prover"
)

var stat = map[string]int{}

// ---------- points ----------

func tinyG1(g *gen.G) bn254.G1Affine {
	for {
		var p bn254.G1Affine
		x := uint64(1 + g.Intn(60))
		if g.Chance(1, 4) {
			x = 1 // (1, 2) and its negation (1, p-2): a coordinate just below the base-field modulus
		}
		p.X.SetUint64(x)
		var rhs, three fp.Element
		three.SetUint64(3)
		rhs.Square(&p.X).Mul(&rhs, &p.X).Add(&rhs, &three)
		if p.Y.Sqrt(&rhs) == nil {
			continue
		}
		if g.Chance(1, 2) {
			p.Y.Neg(&p.Y)
		}
		if !p.IsOnCurve() || !p.IsInSubGroup() {
			panic("tiny point invalid")
		}
		return p
	}
}

func scalar(g *gen.G) *big.Int {
	switch g.Intn(6) {
	case 0:
		return big.NewInt(int64(1 + g.Intn(20)))
	case 1:
		return new(big.Int).Sub(gen.BN254, big.NewInt(int64(1+g.Intn(20))))
	}
	s := g.Below(gen.BN254)
	if s.Sign() == 0 {
		s.SetInt64(1)
	}
	return s
}

func genG1(g *gen.G) bn254.G1Affine {
	if g.Chance(1, 4) {
		return tinyG1(g)
	}
	_, _, g1, _ := bn254.Generators()
	var p bn254.G1Affine
	p.ScalarMultiplication(&g1, scalar(g))
	return p
}

func short32(b []byte) bool { return b[0] == 0 }

func genG2(g *gen.G) bn254.G2Affine {
	_, _, _, g2 := bn254.Generators()
	want := g.Chance(1, 4)
	for try := 0; ; try++ {
		var p bn254.G2Affine
		p.ScalarMultiplication(&g2, scalar(g))
		raw := p.RawBytes()
		has := false
		for i := 0; i < 4; i++ {
			if short32(raw[32*i:]) {
				has = true
			}
		}
		if !want || has || try > 400 {
			return p
		}
	}
}

// ---------- real code ----------

func classify(err error) string {
	var se *json.SyntaxError
	var te *json.UnmarshalTypeError
	switch {
	case errors.As(err, &se):
		return "syntax"
	case errors.As(err, &te):
		return "type"
	case strings.HasPrefix(err.Error(), "invalid number"):
		return "invalid"
	case strings.Contains(err.Error(), "does not fit in"):
		return "toolong"
	}
	return "point"
}

func realUnmarshal(doc []byte) string {
	var p prover.Proof
	if err := p.UnmarshalJSON(doc); err != nil {
		return "err " + classify(err)
	}
	var buf bytes.Buffer
	if _, err := p.Proof.WriteRawTo(&buf); err != nil {
		panic(err)
	}
	return hex.EncodeToString(buf.Bytes())
}

// oldUnmarshal: body of (*Proof).UnmarshalJSON at 0168fd6^ (fromHex inlined: SetString(s, 0)),
// cut before ReadFrom; returns the buffer.
func oldUnmarshal(data []byte) string {
	var proofJson prover.ProofJSON
	err := json.Unmarshal(data, &proofJson)
	if err != nil {
		return "err " + classify(err)
	}
	proofHexNumbers := [8]string{
		proofJson.Ar[0],
		proofJson.Ar[1],
		proofJson.Bs[0][0],
		proofJson.Bs[0][1],
		proofJson.Bs[1][0],
		proofJson.Bs[1][1],
		proofJson.Krs[0],
		proofJson.Krs[1],
	}
	proofInts := [8]big.Int{}
	for i := 0; i < 8; i++ {
		if _, ok := proofInts[i].SetString(proofHexNumbers[i], 0); !ok {
			return "err invalid"
		}
	}
	const fpSize = 32
	proofBytes := make([]byte, 8*fpSize)
	for i := 0; i < 8; i++ {
		copy(proofBytes[i*fpSize:(i+1)*fpSize], proofInts[i].Bytes())
	}
	return hex.EncodeToString(proofBytes)
}

// ---------- JSON text ----------

type words [8]*big.Int

func ws(g *gen.G) string {
	if g.Chance(2, 3) {
		return ""
	}
	return []string{" ", "\n", "\t", "\r", "  \n "}[g.Intn(5)]
}

// renderNum: a string that fromHex maps to the same number (formatting only).
func renderNum(g *gen.G, v *big.Int, kind int) string {
	h := v.Text(16)
	switch kind {
	case 0:
		return "0x" + h
	case 1:
		return "0x" + strings.ToUpper(h)
	case 2:
		return "0X" + h
	case 3:
		return "0x" + strings.Repeat("0", 1+g.Intn(70)) + h
	case 4:
		return v.String()
	case 5:
		return "0b" + v.Text(2)
	case 6:
		return "0o" + v.Text(8)
	case 7:
		return "+0x" + h
	case 8:
		return "0x_" + h
	case 9:
		if len(h) > 1 {
			return "0x" + h[:1] + "_" + h[1:]
		}
		return "0x" + h
	case 10:
		// negative: Bytes() is the magnitude, so the same bytes are placed
		if v.Sign() != 0 {
			return "-0x" + h
		}
		return "-0"
	case 11:
		if v.Sign() != 0 {
			return "0" + v.Text(8) // bare octal prefix
		}
		return "0"
	}
	return "0x" + h
}

func jstr(g *gen.G, s string, esc bool) string {
	if !esc {
		return `"` + s + `"`
	}
	var b strings.Builder
	b.WriteByte('"')
	for _, c := range s {
		if g.Chance(1, 8) {
			fmt.Fprintf(&b, `\u%04x`, c)
		} else {
			b.WriteRune(c)
		}
	}
	b.WriteByte('"')
	return b.String()
}

type docOpts struct {
	kind     func(i int) int // rendering of word i
	esc      bool
	ws       bool
	elem     map[int]string // replace the JSON text of element i
	extraAr  string         // appended inside ar
	extraBs  string         // appended inside bs (outer)
	extraBs0 string         // appended inside bs[0]
	keys     [3]string
	order    []int
	pre      string // members before
	post     string // members after
	dropAr1  bool   // short arrays
	dropBs1  bool
	dropKrs  bool // missing key
	arVal    string
}

func build(g *gen.G, w words, o docOpts) string {
	sp := func() string {
		if o.ws {
			return ws(g)
		}
		return ""
	}
	el := func(i int) string {
		if t, ok := o.elem[i]; ok {
			return t
		}
		return jstr(g, renderNum(g, w[i], o.kind(i)), o.esc)
	}
	arr := func(items []string, extra string) string {
		if extra != "" {
			items = append(items, extra)
		}
		return "[" + sp() + strings.Join(items, sp()+","+sp()) + sp() + "]"
	}
	arItems := []string{el(0), el(1)}
	if o.dropAr1 {
		arItems = arItems[:1]
	}
	ar := arr(arItems, o.extraAr)
	if o.arVal != "" {
		ar = o.arVal
	}
	bsItems := []string{arr([]string{el(2), el(3)}, o.extraBs0), arr([]string{el(4), el(5)}, "")}
	if o.dropBs1 {
		bsItems = bsItems[:1]
	}
	bs := arr(bsItems, o.extraBs)
	krs := arr([]string{el(6), el(7)}, "")
	vals := []string{ar, bs, krs}
	var members []string
	if o.pre != "" {
		members = append(members, o.pre)
	}
	for _, i := range o.order {
		if i == 2 && o.dropKrs {
			continue
		}
		members = append(members, `"`+o.keys[i]+`"`+sp()+":"+sp()+vals[i])
	}
	if o.post != "" {
		members = append(members, o.post)
	}
	return sp() + "{" + sp() + strings.Join(members, sp()+","+sp()) + sp() + "}" + sp()
}

func baseOpts() docOpts {
	return docOpts{kind: func(int) int { return 0 }, keys: [3]string{"ar", "bs", "krs"}, order: []int{0, 1, 2}, elem: map[int]string{}}
}

// mutate returns a document, the expectation ("same" = must decode to the original bytes,
// "fail" = the codec must fail) and a label.
func mutate(g *gen.G, w words) (string, string, string) {
	o := baseOpts()
	two256 := new(big.Int).Lsh(big.NewInt(1), 256)
	switch k := g.Intn(30); k {
	case 0:
		o.ws = true
		return build(g, w, o), "same", "ws"
	case 1:
		kind := 1 + g.Intn(11)
		o.kind = func(int) int { return kind }
		return build(g, w, o), "same", fmt.Sprintf("render%d", kind)
	case 2:
		o.kind = func(int) int { return g.Intn(12) }
		o.ws = g.Chance(1, 2)
		return build(g, w, o), "same", "render-mix"
	case 3:
		o.esc = true
		return build(g, w, o), "same", "escapes"
	case 4:
		o.order = [][]int{{2, 1, 0}, {1, 0, 2}, {2, 0, 1}, {1, 2, 0}}[g.Intn(4)]
		return build(g, w, o), "same", "key-order"
	case 5:
		o.pre = []string{`"x":1`, `"proof":{"ar":["0x1","0x2"]}`, `"a":[[["0x1"]]]`, `"":null`}[g.Intn(4)]
		o.post = []string{"", `"krs2":["0x1","0x2"]`, `"input_hash":"0x12"`}[g.Intn(3)]
		return build(g, w, o), "same", "unknown-keys"
	case 6:
		o.keys = [][3]string{{"AR", "BS", "KRS"}, {"Ar", "bS", "Krs"}, {"ar", "bs", "krſ"}, {"ar", "bs", "Krs"}}[g.Intn(4)]
		return build(g, w, o), "same", "key-case"
	case 7:
		o.extraAr = []string{`"0x5"`, `5`, `{"a":[1,2]}`, `null, "zz"`, `[]`}[g.Intn(5)]
		o.extraBs = []string{"", `["0x1","0x2"]`, `7`, `"s"`}[g.Intn(4)]
		o.extraBs0 = []string{"", `"0x9"`, `false`}[g.Intn(3)]
		return build(g, w, o), "same", "long-arrays"
	case 8:
		// duplicate key: a bogus array first, the real one last (arrays are overwritten element-wise)
		o.pre = []string{`"ar":["0x1","0x2"]`, `"bs":[["0x1","0x2"],["0x3","0x4"]]`, `"krs":["0x7","0x8","0x9"]`}[g.Intn(3)]
		return build(g, w, o), "same", "dup-first"
	case 9:
		// duplicate key afterwards with nulls: null leaves the target unchanged
		o.post = []string{`"ar":null`, `"ar":[null,null]`, `"bs":[null,[null,null]]`, `"krs":[null,null,"zz"]`, `"bs":null`}[g.Intn(5)]
		return build(g, w, o), "same", "dup-null"
	case 10:
		// --- failing mutations from here on ---
		o.dropAr1 = true
		return build(g, w, o), "fail", "short-ar"
	case 11:
		o.dropBs1 = true
		return build(g, w, o), "fail", "short-bs"
	case 12:
		o.dropKrs = true
		return build(g, w, o), "fail", "missing-key"
	case 13:
		// a later, shorter duplicate zeroes the remainder of the Go array
		o.post = []string{`"ar":["0x1"]`, `"bs":[["0x1","0x2"]]`, `"krs":[]`, `"bs":[[],["0x1","0x2"]]`}[g.Intn(4)]
		return build(g, w, o), "fail", "dup-short"
	case 14:
		i := g.Intn(8)
		o.elem[i] = []string{`"zz"`, `""`, `"0x"`, `" 0x1"`, `"0x1 "`, `"1.5"`, `"1e3"`, `"0x1g"`, `"0b12"`, `"089"`, `"0x1__2"`, `"0x12_"`, `"--1"`, `"١٢"`}[g.Intn(14)]
		return build(g, w, o), "fail", "non-number"
	case 15:
		i := g.Intn(8)
		o.elem[i] = []string{`5`, `true`, `{}`, `["0x1"]`, `1.5`, `-0`}[g.Intn(6)]
		return build(g, w, o), "fail", "elem-kind"
	case 16:
		i := g.Intn(8)
		big1 := new(big.Int).Add(two256, g.Below(two256))
		switch g.Intn(4) {
		case 0:
			big1 = new(big.Int).Set(two256)
		case 1:
			big1 = new(big.Int).Lsh(big.NewInt(1), uint(256+g.Intn(300)))
		case 2:
			big1 = new(big.Int).Neg(two256)
		}
		o.elem[i] = `"` + renderNum(g, new(big.Int).Abs(big1), []int{0, 1, 4, 3}[g.Intn(4)]) + `"`
		if big1.Sign() < 0 {
			o.elem[i] = `"-0x` + new(big.Int).Abs(big1).Text(16) + `"`
		}
		return build(g, w, o), "fail", "too-long"
	case 17:
		o.arVal = []string{`"0x1"`, `{"0":"0x1","1":"0x2"}`, `7`, `true`}[g.Intn(4)]
		return build(g, w, o), "fail", "field-kind"
	case 18:
		d := build(g, w, o)
		switch g.Intn(5) {
		case 0:
			return d[:len(d)-1-g.Intn(len(d)-1)], "fail", "syntax"
		case 1:
			return d + []string{"x", "{}", ",", "]"}[g.Intn(4)], "fail", "syntax"
		case 2:
			return strings.Replace(d, ":", "=", 1), "fail", "syntax"
		case 3:
			return strings.Replace(d, `","`, `" "`, 1), "fail", "syntax"
		}
		return strings.Replace(d, `"0x`, `"\x`, 1), "fail", "syntax"
	case 19:
		return []string{`null`, `[]`, `"x"`, `5`, `{}`, ``, ` `, `[{"ar":[]}]`, `true`}[g.Intn(9)], "fail", "top-level"
	case 20:
		// type error and invalid number together: the json error wins
		o.elem[g.Intn(4)] = `"zz"`
		o.elem[4+g.Intn(4)] = `7`
		return build(g, w, o), "fail", "two-errors"
	case 21:
		// too long and invalid number together: the invalid number wins (all fromHex calls come first)
		o.elem[g.Intn(4)] = `"0x1` + strings.Repeat("0", 64) + `"`
		o.elem[4+g.Intn(4)] = `"zz"`
		return build(g, w, o), "fail", "toolong+invalid"
	case 22:
		// null element on first decode keeps the zero string
		o.elem[g.Intn(8)] = `null`
		return build(g, w, o), "fail", "null-elem"
	}
	o.ws = g.Chance(1, 3)
	return build(g, w, o), "same", "plain"
}

func main() {
	seed := flag.Int64("seed", 1, "seed")
	n := flag.Int("n", 100, "proofs")
	flag.Parse()
	g := gen.New(*seed)
	bad := 0
	for c := 0; c < *n; c++ {
		A, B, C := genG1(g), genG2(g), genG1(g)
		ra, rb, rc := A.RawBytes(), B.RawBytes(), C.RawBytes()
		raw := append(append(append([]byte{}, ra[:]...), rb[:]...), rc[:]...)
		proof := groth16.NewProof(ecc.BN254)
		if _, err := proof.ReadFrom(bytes.NewReader(raw)); err != nil {
			panic(err)
		}
		var chk bytes.Buffer
		proof.WriteRawTo(&chk)
		if !bytes.Equal(chk.Bytes(), raw) || len(raw) != 256 {
			panic("raw layout assumption violated")
		}
		var w words
		short := 0
		for i := 0; i < 8; i++ {
			w[i] = new(big.Int).SetBytes(raw[32*i : 32*i+32])
			if raw[32*i] == 0 {
				short++
			}
		}
		stat["proofs"]++
		if short > 0 {
			stat["proofs-with-short-coordinate"]++
		}
		stat[fmt.Sprintf("short-coords=%d", short)]++
		js, err := json.Marshal(&prover.Proof{Proof: proof})
		if err != nil {
			panic(err)
		}
		fmt.Fprintf(gen.Out, "marshal\t%s\t=>\t%s\n", hex.EncodeToString(raw), hex.EncodeToString(js))
		rawHex := hex.EncodeToString(raw)
		res := realUnmarshal(js)
		fmt.Fprintf(gen.Out, "unmarshal\t%s\t=>\t%s\n", hex.EncodeToString(js), res)
		fmt.Fprintf(gen.Out, "old\t%s\t=>\t%s\n", hex.EncodeToString(js), oldUnmarshal(js))
		if res != rawHex {
			bad++
			fmt.Fprintf(os.Stderr, "DEFECT round trip: raw=%s got=%s\n", rawHex, res)
		}
		if oldUnmarshal(js) != rawHex {
			stat["old-roundtrip-differs"]++
		}
		for m := 0; m < 4; m++ {
			doc, expect, label := mutate(g, w)
			stat["mut."+label]++
			res := realUnmarshal([]byte(doc))
			fmt.Fprintf(gen.Out, "unmarshal\t%s\t=>\t%s\n", hex.EncodeToString([]byte(doc)), res)
			fmt.Fprintf(gen.Out, "old\t%s\t=>\t%s\n", hex.EncodeToString([]byte(doc)), oldUnmarshal([]byte(doc)))
			switch {
			case expect == "same" && res != rawHex:
				bad++
				fmt.Fprintf(os.Stderr, "UNEXPECTED %s: formatting mutation changed the result: %s -> %s\n", label, doc, res)
			case expect == "fail" && (!strings.HasPrefix(res, "err ") || res == "err point"):
				bad++
				fmt.Fprintf(os.Stderr, "UNEXPECTED %s: codec did not fail: %s -> %s\n", label, doc, res)
			}
			if strings.HasPrefix(res, "err ") {
				stat["res."+res[4:]]++
			} else {
				stat["res.ok"]++
			}
		}
	}
	// encoder on coordinates at integer-width boundaries (2^31, 2^32, 2^63, 2^64, 2^128 …, each ±
	// a little): such points are not on the curve, so only the encoding direction is exercised —
	// the 256 raw bytes must come out as the same eight numbers
	for c := 0; c < 8+*n/10; c++ {
		proof := groth16.NewProof(ecc.BN254)
		coord := func() *big.Int {
			e := []uint{31, 32, 63, 64, 64, 63, 127, 128, 192, 248}[g.Intn(10)]
			v := new(big.Int).Lsh(big.NewInt(1), e)
			switch g.Intn(4) {
			case 0:
				v.Sub(v, big.NewInt(int64(1+g.Intn(3))))
			case 1:
				v.Add(v, big.NewInt(int64(g.Intn(1000))))
			case 2:
				v.Add(v, new(big.Int).Rsh(v, uint(1+g.Intn(3)))) // 1.5x, 1.25x …: inside [2^e, 2^(e+1))
			}
			return v
		}
		var a, k bn254.G1Affine
		var bb bn254.G2Affine
		a.X.SetBigInt(coord())
		a.Y.SetBigInt(coord())
		k.X.SetBigInt(coord())
		k.Y.SetBigInt(coord())
		bb.X.A0.SetBigInt(coord())
		bb.X.A1.SetBigInt(coord())
		bb.Y.A0.SetBigInt(coord())
		bb.Y.A1.SetBigInt(coord())
		pv := reflect.ValueOf(proof).Elem()
		if !pv.FieldByName("Ar").IsValid() || !pv.FieldByName("Krs").IsValid() || !pv.FieldByName("Bs").IsValid() {
			break // the proof type changed shape: the real-point cases above still run
		}
		pv.FieldByName("Ar").Set(reflect.ValueOf(a))
		pv.FieldByName("Krs").Set(reflect.ValueOf(k))
		pv.FieldByName("Bs").Set(reflect.ValueOf(bb))
		var rawb bytes.Buffer
		proof.WriteRawTo(&rawb)
		if rawb.Len() != 256 {
			break
		}
		js, err := json.Marshal(&prover.Proof{Proof: proof})
		res := hex.EncodeToString(js)
		if err != nil {
			res = "err " + err.Error()
		}
		stat["synthetic-boundary-coordinates"]++
		fmt.Fprintf(gen.Out, "marshal\t%s\t=>\t%s\n", hex.EncodeToString(rawb.Bytes()), res)
	}
	stat["unexpected"] = bad
	fmt.Fprintf(os.Stderr, "{")
	first := true
	for k, v := range stat {
		if !first {
			fmt.Fprintf(os.Stderr, ",")
		}
		first = false
		fmt.Fprintf(os.Stderr, "%q:%d", k, v)
	}
	fmt.Fprintf(os.Stderr, "}\n")
	if bad != 0 {
		os.Exit(3)
	}
}
