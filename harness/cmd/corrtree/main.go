// Command corrtree: C18 correspondence.  Random update histories on the real
// poseidon_tree.PoseidonTree; prints Root() after every step and the Update() slices.
package main

import (
	"flag"
	"fmt"
	"math/big"
	"os"
	"strings"

	"verifharness/gen"
	"worldcoin/gnark-mbu/poseidon_tree"
)

type heldValue struct {
	step int
	what string
	v    big.Int // shares its words with what the tree returned
	was  string
}

func main() {
	seed := flag.Int64("seed", 1, "seed")
	n := flag.Int("n", 50, "histories")
	maxLen := flag.Int("maxlen", 30, "max history length")
	flag.Parse()
	g := gen.New(*seed)
	stat := map[string]int{}
	for c := 0; c < *n; c++ {
		d := 1 + g.Intn(8)
		switch g.Intn(8) {
		case 0:
			d = 32
		case 1:
			d = 9 + g.Intn(23)
		}
		ln := 1 + g.Intn(*maxLen)
		tree := poseidon_tree.NewTree(d)
		size := uint64(1) << uint(d)
		var ops, outs []string
		var held []heldValue
		var used []uint64
		var pool []*big.Int
		current := map[uint64]*big.Int{}
		allProofs := d <= 8 || ln <= 6
		for i := 0; i < ln; i++ {
			var idx uint64
			kind := g.Intn(7)
			switch {
			case kind == 0:
				idx = 0
			case kind == 1:
				idx = size - 1
			case kind == 2 && len(used) > 0:
				idx = used[g.Intn(len(used))]
			case kind == 3 && len(used) > 0:
				idx = (used[len(used)-1] + 1) % size
			case kind == 4:
				// high bits beyond the depth are ignored by the implementation
				idx = uint64(g.R.Int63n(int64(size))) + size*uint64(1+g.Intn(3))
				if idx >= 1<<62 {
					idx = uint64(g.R.Int63n(int64(size)))
				}
			default:
				idx = uint64(g.R.Int63n(int64(size)))
			}
			used = append(used, idx%size)
			v := g.Field(gen.BN254)
			if g.Chance(1, 6) {
				v = big.NewInt(0)
			}
			if g.Chance(1, 5) {
				// leaf values that coincide with node hashes: the hash of an empty subtree of some
				// height (what an untouched region of the tree carries at that level), a sibling
				// hash from an earlier path, or an earlier root.  Legal values like any other.
				switch k := g.Intn(3); {
				case k == 0 || len(pool) == 0:
					et := poseidon_tree.NewTree(1 + g.Intn(d))
					er := et.Root()
					v = new(big.Int).Set(&er)
					stat["value=empty-subtree-hash"]++
				default:
					v = new(big.Int).Set(pool[g.Intn(len(pool))])
					stat["value=earlier-node-hash"]++
				}
			}
			if cur, ok := current[idx%size]; ok && g.Chance(1, 5) {
				v = new(big.Int).Set(cur) // rewrite a leaf with the value it already holds
				stat["rewrite-same"]++
			}
			current[idx%size] = v
			stat[fmt.Sprintf("kind%d", kind)]++
			proof := tree.Update(int(idx), *v)
			root := tree.Root()
			if len(pool) < 64 {
				pool = append(pool, new(big.Int).Set(&root))
				for j := range proof {
					pool = append(pool, new(big.Int).Set(&proof[j]))
				}
			}
			// what the tree hands out belongs to the caller: keep the very values (not copies) and
			// look at them again after the later updates
			held = append(held, heldValue{step: i, what: "root", v: root, was: root.String()})
			for j := range proof {
				held = append(held, heldValue{step: i, what: fmt.Sprintf("proof[%d]", j), v: proof[j], was: proof[j].String()})
			}
			ops = append(ops, fmt.Sprintf("%d:%s", idx, v))
			o := root.String()
			if allProofs || i == ln-1 {
				ps := make([]string, len(proof))
				for j := range proof {
					ps[j] = proof[j].String()
				}
				o += "[" + strings.Join(ps, ",") + "]"
			}
			outs = append(outs, o)
		}
		for _, h := range held {
			if now := h.v.String(); now != h.was {
				outs = append(outs, fmt.Sprintf("CHANGED-LATER: the %s returned at step %d was %s and reads %s after the later updates", h.what, h.step, h.was, now))
				break
			}
		}
		mode := "last"
		if allProofs {
			mode = "all"
		}
		stat[fmt.Sprintf("depth<=8:%v", d <= 8)]++
		fmt.Fprintf(gen.Out, "tree\t%d\t%s\t%s\t=>\t%s\n", d, mode, strings.Join(ops, ";"), strings.Join(outs, ";"))
	}
	fmt.Fprintf(os.Stderr, "{")
	first := true
	for k, v := range stat {
		if !first {
			fmt.Fprintf(os.Stderr, ",")
		}
		first = false
		fmt.Fprintf(os.Stderr, "%q:%d", k, v)
	}
	fmt.Fprintf(os.Stderr, "}\n")
}
