// Command corrcircuit: C03 correspondence on the FULL circuits (InsertionMbuCircuit /
// DeletionMbuCircuit): gnark test engine and compiled R1CS (BuildR1CSInsertion/Deletion), the
// latter also with a forged bits.NBits hint that decomposes one packed 256-bit value v as
// v + k*r while the public input is set to the hash of the forged bytes.
// Lines use the format of corrprove, so the same Lean driver answers them:
//
//	prove <mode> <d> <b> <canonical params>  =>  proof (satisfiable) | error (unsatisfiable) | split:…
package main

import (
	"flag"
	"fmt"
	"math/big"
	"os"
	"sort"
	"strings"
	"sync"

	"github.com/consensys/gnark/backend/hint"
	"github.com/consensys/gnark/constraint"
	"github.com/consensys/gnark/frontend"
	"github.com/consensys/gnark/test"
	"golang.org/x/crypto/sha3"

	"verifharness/batchgen"
	"verifharness/circuits"
	"verifharness/gen"
	"verifharness/r1csx"
	"worldcoin/gnark-mbu/prover"
)

var stat = map[string]int{}

func vars(vs []big.Int) []frontend.Variable {
	out := make([]frontend.Variable, len(vs))
	for i := range vs {
		out[i] = new(big.Int).Set(&vs[i])
	}
	return out
}
func vars2(vs [][]big.Int) [][]frontend.Variable {
	out := make([][]frontend.Variable, len(vs))
	for i := range vs {
		out[i] = vars(vs[i])
	}
	return out
}

func verdict(te, rc error, haveR1CS bool) string {
	a := te == nil
	if haveR1CS && (rc == nil) != a {
		return fmt.Sprintf("split:test-engine=%v,r1cs=%v", te == nil, rc == nil)
	}
	if a {
		return "proof"
	}
	return "error"
}

func keccakInt(data []byte) *big.Int {
	h := sha3.NewLegacyKeccak256()
	h.Write(data)
	return new(big.Int).SetBytes(h.Sum(nil))
}

// forgeries: NBits replacements that decompose the 256-bit value ft as al (= ft + k*r) — at every
// decomposition of that value, or only at its first, second or third one (a dishonest prover answers
// each hint call as it likes; a circuit that decomposes a value twice must compare both answers).
func forgeries(ft, al *big.Int) []map[hint.ID]hint.Function {
	var out []map[hint.ID]hint.Function
	for _, only := range []int{-1, 0, 1, 2} {
		only := only
		var mu sync.Mutex
		seen := 0
		out = append(out, map[hint.ID]hint.Function{r1csx.NBitsID: r1csx.NBitsOf(func(x *big.Int, nb int) *big.Int {
			// any wide decomposition of the value (256 bits as the code stands; a narrower one must still
			// be answered only by the canonical representative), provided the alias fits the width asked for
			if nb >= 200 && al.BitLen() <= nb && x.Cmp(ft) == 0 {
				mu.Lock()
				k := seen
				seen++
				mu.Unlock()
				if only < 0 || k == only {
					return al
				}
			}
			return x
		})})
	}
	return out
}

func main() {
	seed := flag.Int64("seed", 1, "seed")
	n := flag.Int("n", 20, "cases per mode")
	d := flag.Int("depth", 3, "depth")
	b := flag.Int("batch", 2, "batch")
	flag.Parse()
	g := gen.New(*seed)
	r := gen.BN254
	ci, err := prover.BuildR1CSInsertion(uint32(*d), uint32(*b))
	var cd constraint.ConstraintSystem
	if err == nil {
		cd, err = prover.BuildR1CSDeletion(uint32(*d), uint32(*b))
	}
	if err != nil {
		fmt.Fprintln(os.Stderr, "compile failed:", err)
		ci, cd = nil, nil
	}
	if ci != nil {
		// ONE wire + InputHash
		res := "one"
		if ci.GetNbPublicVariables() != 2 || cd.GetNbPublicVariables() != 2 {
			res = fmt.Sprintf("insertion %d, deletion %d public wires (expected 2 = ONE + InputHash)", ci.GetNbPublicVariables(), cd.GetNbPublicVariables())
		}
		fmt.Fprintf(gen.Out, "public-inputs\t%d\t%d\t=>\t%s\n", *d, *b, res)
	}
	emit := func(line, res string) { fmt.Fprintf(gen.Out, "%s\t=>\t%s\n", line, res) }
	for c := 0; c < *n; c++ {
		// ---------------- insertion
		p, mut := batchgen.Insertion(g, *d, *b)
		shapeOK := len(p.IdComms) == *b && len(p.MerkleProofs) == *b
		for _, pr := range p.MerkleProofs {
			shapeOK = shapeOK && len(pr) == *d
		}
		if shapeOK {
			pert := []string{"none", "none", "hash", "start", "pre", "post", "id", "forge-pre", "forge-post", "forge-id", "forge-honest-hash"}[g.Intn(11)]
			var forgeTarget, alias *big.Int
			k := int64(1 + g.Intn(5))
			if g.Chance(1, 2) {
				k = 1 // the smallest alias: the one that fits the narrowest decomposition
			}
			switch pert {
			case "hash":
				p.InputHash.Add(&p.InputHash, big.NewInt(int64(1+g.Intn(3))))
			case "start":
				p.StartIndex ^= 1
			case "pre":
				p.PreRoot.Add(&p.PreRoot, big.NewInt(1))
			case "post":
				p.PostRoot.Add(&p.PostRoot, big.NewInt(1))
			case "id":
				i := g.Intn(*b)
				p.IdComms[i].Add(&p.IdComms[i], big.NewInt(1))
			case "forge-pre", "forge-honest-hash":
				forgeTarget = new(big.Int).Mod(&p.PreRoot, r)
			case "forge-post":
				forgeTarget = new(big.Int).Mod(&p.PostRoot, r)
			case "forge-id":
				forgeTarget = new(big.Int).Mod(&p.IdComms[g.Intn(*b)], r)
			}
			var overrides []map[hint.ID]hint.Function
			if forgeTarget != nil {
				alias = new(big.Int).Add(forgeTarget, new(big.Int).Mul(big.NewInt(k), r))
				if alias.BitLen() > 256 {
					alias = new(big.Int).Add(forgeTarget, r)
				}
				if pert != "forge-honest-hash" {
					// public input := hash of the packing in which the target value is replaced by its alias
					var data []byte
					data = append(data, byte(p.StartIndex>>24), byte(p.StartIndex>>16), byte(p.StartIndex>>8), byte(p.StartIndex))
					enc := func(v *big.Int) []byte {
						m := new(big.Int).Mod(v, r)
						if m.Cmp(forgeTarget) == 0 {
							m = alias
						}
						return m.FillBytes(make([]byte, 32))
					}
					data = append(data, enc(&p.PreRoot)...)
					data = append(data, enc(&p.PostRoot)...)
					for i := range p.IdComms {
						data = append(data, enc(&p.IdComms[i])...)
					}
					p.InputHash = *keccakInt(data)
				}
				ft, al := forgeTarget, alias
				overrides = forgeries(ft, al)
			}
			asg := func() *prover.InsertionMbuCircuit {
				return &prover.InsertionMbuCircuit{InputHash: new(big.Int).Set(&p.InputHash), StartIndex: p.StartIndex, PreRoot: new(big.Int).Set(&p.PreRoot),
					PostRoot: new(big.Int).Set(&p.PostRoot), IdComms: vars(p.IdComms), MerkleProofs: vars2(p.MerkleProofs)}
			}
			circuit := &prover.InsertionMbuCircuit{IdComms: make([]frontend.Variable, *b), MerkleProofs: circuits.Matrix(*b, *d), BatchSize: *b, Depth: *d}
			// the test engine does not reduce assigned values; the witness builder used by the prover does
			teAsg := asg()
			teAsg.InputHash = new(big.Int).Mod(&p.InputHash, r)
			teAsg.PreRoot = new(big.Int).Mod(&p.PreRoot, r)
			teAsg.PostRoot = new(big.Int).Mod(&p.PostRoot, r)
			te := test.IsSolved(circuit, teAsg, r)
			var rc error
			res := ""
			if ci != nil {
				// satisfiability = EXISTS hints: the honest solver decides it; a forged hint may only
				// ever turn an unsatisfiable instance into an accepted one (that would be unsoundness)
				rc = r1csx.Solve(ci, asg(), nil)
				if rc != nil {
					for _, ov := range overrides {
						if r1csx.Solve(ci, asg(), ov) == nil {
							res = "unsound:accepted-with-forged-decomposition"
							break
						}
					}
				}
			}
			if res == "" {
				res = verdict(te, rc, ci != nil)
			}
			stat["ins:"+mut+"/"+pert]++
			emit(fmt.Sprintf("prove\tinsertion\t%d\t%d\t%s", *d, *b, batchgen.CanonInsertion(p)), res)
		}
		// ---------------- deletion
		q, mutd := batchgen.Deletion(g, *d, *b)
		shapeOK = len(q.IdComms) == *b && len(q.MerkleProofs) == *b && len(q.DeletionIndices) == *b
		for _, pr := range q.MerkleProofs {
			shapeOK = shapeOK && len(pr) == *d
		}
		if shapeOK {
			pert := []string{"none", "none", "hash", "index", "pre", "post", "forge-pre", "forge-post"}[g.Intn(8)]
			var forgeTarget, alias *big.Int
			switch pert {
			case "hash":
				q.InputHash.Sub(&q.InputHash, big.NewInt(1))
			case "index":
				q.DeletionIndices[g.Intn(*b)] ^= 2
			case "pre":
				q.PreRoot.Add(&q.PreRoot, big.NewInt(1))
			case "post":
				q.PostRoot.Add(&q.PostRoot, big.NewInt(1))
			case "forge-pre":
				forgeTarget = new(big.Int).Mod(&q.PreRoot, r)
			case "forge-post":
				forgeTarget = new(big.Int).Mod(&q.PostRoot, r)
			}
			var overrides []map[hint.ID]hint.Function
			if forgeTarget != nil {
				alias = new(big.Int).Add(forgeTarget, r)
				var data []byte
				for _, i := range q.DeletionIndices {
					data = append(data, byte(i>>24), byte(i>>16), byte(i>>8), byte(i))
				}
				enc := func(v *big.Int) []byte {
					m := new(big.Int).Mod(v, r)
					if m.Cmp(forgeTarget) == 0 {
						m = alias
					}
					return m.FillBytes(make([]byte, 32))
				}
				data = append(data, enc(&q.PreRoot)...)
				data = append(data, enc(&q.PostRoot)...)
				q.InputHash = *keccakInt(data)
				ft, al := forgeTarget, alias
				overrides = forgeries(ft, al)
			}
			idx := make([]frontend.Variable, *b)
			for i, v := range q.DeletionIndices {
				idx[i] = v
			}
			asg := func() *prover.DeletionMbuCircuit {
				return &prover.DeletionMbuCircuit{InputHash: new(big.Int).Set(&q.InputHash), DeletionIndices: idx, PreRoot: new(big.Int).Set(&q.PreRoot),
					PostRoot: new(big.Int).Set(&q.PostRoot), IdComms: vars(q.IdComms), MerkleProofs: vars2(q.MerkleProofs)}
			}
			circuit := &prover.DeletionMbuCircuit{DeletionIndices: make([]frontend.Variable, *b), IdComms: make([]frontend.Variable, *b), MerkleProofs: circuits.Matrix(*b, *d), BatchSize: *b, Depth: *d}
			teAsg := asg()
			teAsg.InputHash = new(big.Int).Mod(&q.InputHash, r)
			teAsg.PreRoot = new(big.Int).Mod(&q.PreRoot, r)
			teAsg.PostRoot = new(big.Int).Mod(&q.PostRoot, r)
			te := test.IsSolved(circuit, teAsg, r)
			var rc error
			res := ""
			if cd != nil {
				rc = r1csx.Solve(cd, asg(), nil)
				if rc != nil {
					for _, ov := range overrides {
						if r1csx.Solve(cd, asg(), ov) == nil {
							res = "unsound:accepted-with-forged-decomposition"
							break
						}
					}
				}
			}
			if res == "" {
				res = verdict(te, rc, cd != nil)
			}
			stat["del:"+mutd+"/"+pert]++
			emit(fmt.Sprintf("prove\tdeletion\t%d\t%d\t%s", *d, *b, batchgen.CanonDeletion(q)), res)
		}
	}
	ks := make([]string, 0, len(stat))
	for k := range stat {
		ks = append(ks, k)
	}
	sort.Strings(ks)
	var parts []string
	for _, k := range ks {
		parts = append(parts, fmt.Sprintf("%q:%d", k, stat[k]))
	}
	fmt.Fprintf(os.Stderr, "{%s}\n", strings.Join(parts, ","))
}
