// Command corrserver: C09 / C13 / C20 correspondence against a real server.Run instance.
//
//	req <mode> <d> <b> <METHOD> <hex body>   => <status> [<code field> | ok | badproof]
//	metrics <METHOD:status,…>                 => scraped totals ;inflight=<gauge>
//	scrape-during-load <open>                 => ok | <what went wrong>
//	alive                                     => ok
package main

import (
	"bufio"
	"bytes"
	"encoding/hex"
	"encoding/json"
	"flag"
	"fmt"
	"io"
	"math/big"
	"net"
	"net/http"
	"os"
	"regexp"
	"sort"
	"strings"
	"sync"
	"sync/atomic"
	"time"

	"verifharness/batchgen"
	"verifharness/gen"
	"worldcoin/gnark-mbu/prover"
	"worldcoin/gnark-mbu/server"
)

var stat = map[string]int{}
var statMu sync.Mutex

func bump(k string) { statMu.Lock(); stat[k]++; statMu.Unlock() }

func freePort() string {
	l, err := net.Listen("tcp", "127.0.0.1:0")
	if err != nil {
		panic(err)
	}
	defer l.Close()
	return l.Addr().String()
}

type request struct {
	method string
	body   []byte
	class  string
	hash   *big.Int // input hash of the request, when the body is a parameter document
}

var methods = []string{"GET", "PUT", "DELETE", "HEAD", "PATCH", "OPTIONS", "FOO", "post", "TRACE"}

func mutateJSON(g *gen.G, doc []byte) ([]byte, string) {
	s := string(doc)
	switch g.Intn(17) {
	case 0:
		return []byte(s[:g.Intn(len(s))]), "truncated"
	case 1:
		return []byte(strings.Replace(s, `"preRoot":"0x`, `"preRoot":"zz`, 1)), "non-number"
	case 2:
		return []byte(strings.Replace(s, `"preRoot":"`, `"preRoot":" `, 1)), "space-number"
	case 3:
		return []byte(strings.Replace(s, `"preRoot":"0x`, `"preRoot":"0x_`, 1)), "underscore"
	case 4:
		return []byte(strings.Replace(s, `"preRoot":`, `"PREROOT":`, 1)), "key-case"
	case 5:
		return []byte(strings.Replace(s, `"postRoot":"0x`, `"postRoot":0x`, 1)), "unquoted"
	case 6:
		return []byte(strings.Replace(s, `"inputHash":"`, `"extra":{"a":[1,2,{"b":null}]},"inputHash":"`, 1)), "extra-key"
	case 7:
		return []byte(strings.Replace(s, `"identityCommitments":[`, `"identityCommitments":[null,`, 1)), "null-element"
	case 8:
		return []byte(strings.Replace(s, `"startIndex":`, `"startIndex":4294967296,"x":`, 1)), "index-range"
	case 9:
		return []byte(strings.Replace(s, `"startIndex":`, `"startIndex":-1,"x":`, 1)), "index-negative"
	case 10:
		return []byte(strings.Replace(s, `"deletionIndices":[`, `"deletionIndices":[1.5,`, 1)), "index-float"
	case 11:
		return []byte(s + " x"), "trailing"
	case 12:
		return []byte("  " + s + "\n\t "), "whitespace"
	case 13:
		return []byte(strings.Replace(s, `"merkleProofs":[`, `"merkleProofs":"nope","m2":[`, 1)), "type-mismatch"
	case 14:
		i := g.Intn(len(s))
		return []byte(s[:i] + string(rune(32+g.Intn(90))) + s[i+1:]), "byte-flip"
	case 15:
		// a number string holding a control character (escaped, so the document is valid JSON): the
		// error text echoes it and must still arrive as well-formed JSON
		esc := []string{`\u0007`, `\u0001`, `\u000b`, `\u001b`, `\u007f`, `\ud83d\ude00`}[g.Intn(6)]
		return []byte(strings.Replace(s, `"preRoot":"0x`, `"preRoot":"0x12`+esc, 1)), "control-char-number"
	default:
		return []byte(strings.Replace(s, `"postRoot":`, `"postRoot":null,"p2":`, 1)), "null-field"
	}
}

func genRequest(g *gen.G, mode string, d, b int) request {
	var doc []byte
	var class string
	var hash *big.Int
	if mode == server.InsertionMode {
		p, m := batchgen.Insertion(g, d, b)
		doc, _ = json.Marshal(p)
		class, hash = m, new(big.Int).Set(&p.InputHash)
	} else {
		p, m := batchgen.Deletion(g, d, b)
		doc, _ = json.Marshal(p)
		class, hash = m, new(big.Int).Set(&p.InputHash)
	}
	switch g.Intn(10) {
	case 0:
		return request{methods[g.Intn(len(methods))], doc, "method", hash}
	case 1:
		raw := make([]byte, g.Intn(40))
		g.R.Read(raw)
		return request{"POST", raw, "random-bytes", nil}
	case 2:
		docs := []string{"", "null", "{}", "[]", "1", `"x"`, `{"inputHash":"0x1"}`, "{", `{"a":`, "nul", `{"inputHash":"0x1","preRoot":"0x1","postRoot":"0x1"}`}
		return request{"POST", []byte(docs[g.Intn(len(docs))]), "tiny-doc", nil}
	case 3, 4:
		m, c := mutateJSON(g, doc)
		return request{"POST", m, "json:" + c, hash}
	}
	return request{"POST", doc, "params:" + class, hash}
}

func clip(b []byte) string {
	if len(b) > 160 {
		return string(b[:160]) + "…"
	}
	return string(b)
}

// uniqueFailure: a failing request whose error text is its own.  Even slots: malformed JSON with a
// distinct offending character; odd slots: a well-formed batch with a distinct wrong number of
// identity commitments.
func uniqueFailure(g *gen.G, mode string, d, b, slot int) request {
	if slot%2 == 0 {
		ch := "abcdeghijklmopqrsuvwxyzABCDEFGHIJKLMNOPQRSTUVWXYZ"[(slot/2+g.Intn(40))%49]
		return request{"POST", []byte(fmt.Sprintf(`{"inputHash":"0x1","preRoot":%c%d}`, ch, slot)), "unique:bad-char", nil}
	}
	// exactly b + extra commitments whatever the generated batch held (its class may itself be a
	// short or long list), so the count in the error text is this request's own
	want := b + 1 + slot/2 + g.Intn(3)*8
	resize := func(xs []big.Int) []big.Int {
		for len(xs) < want {
			xs = append(xs, *big.NewInt(int64(len(xs) + 1)))
		}
		return xs[:want]
	}
	var doc []byte
	var hash *big.Int
	if mode == server.InsertionMode {
		p, _ := batchgen.Insertion(g, d, b)
		p.IdComms = resize(p.IdComms)
		doc, _ = json.Marshal(p)
		hash = new(big.Int).Set(&p.InputHash)
	} else {
		p, _ := batchgen.Deletion(g, d, b)
		p.IdComms = resize(p.IdComms)
		doc, _ = json.Marshal(p)
		hash = new(big.Int).Set(&p.InputHash)
	}
	return request{"POST", doc, "unique:wrong-count", hash}
}

func twinOf(mode string, rq request) (request, bool) {
	if mode == server.InsertionMode {
		var p prover.InsertionParameters
		if json.Unmarshal(rq.body, &p) != nil || len(p.IdComms) == 0 {
			return rq, false
		}
		p.IdComms[0] = *new(big.Int).Add(&p.IdComms[0], big.NewInt(1))
		p.InputHash = *batchgen.HashInsertion(p.StartIndex, &p.PreRoot, &p.PostRoot, p.IdComms)
		doc, _ := json.Marshal(&p)
		return request{"POST", doc, "twin:same-roots-other-commitment", new(big.Int).Set(&p.InputHash)}, true
	}
	var p prover.DeletionParameters
	if json.Unmarshal(rq.body, &p) != nil || len(p.IdComms) == 0 {
		return rq, false
	}
	p.IdComms[0] = *new(big.Int).Add(&p.IdComms[0], big.NewInt(1))
	doc, _ := json.Marshal(&p)
	return request{"POST", doc, "twin:same-roots-other-commitment", new(big.Int).Set(&p.InputHash)}, true
}

func do(client *http.Client, url string, rq request) (int, []byte, error) {
	var body io.Reader = bytes.NewReader(rq.body)
	if len(rq.body)%5 == 2 {
		// streamed body: no Content-Length, Transfer-Encoding: chunked (what a client sends when it
		// pipes the parameters through); same bytes, same answer
		body = struct{ io.Reader }{bytes.NewReader(rq.body)}
	}
	req, err := http.NewRequest(rq.method, url, body)
	if err != nil {
		return 0, nil, err
	}
	if len(rq.body)%7 == 3 {
		// legal but unusual: 16 kB of request headers (a forwarded token, tracing baggage); the
		// answer and its accounting must not depend on it
		req.Header.Set("X-Forwarded-Baggage", strings.Repeat("k=v;", 4000))
	}
	resp, err := client.Do(req)
	if err != nil {
		if ne, ok := err.(interface{ Timeout() bool }); ok && ne.Timeout() {
			atomic.AddInt32(&hangs, 1)
		}
		return 0, nil, err
	}
	defer resp.Body.Close()
	rb, err := io.ReadAll(resp.Body)
	return resp.StatusCode, rb, err
}

// hangs counts requests that got no answer within the client's time limit; after two of them the
// run stops sending (each further one would wait as long) and reports what it has.
var hangs int32

func classify(mode string, ps *prover.ProvingSystem, rq request, status int, body []byte, err error) string {
	if err != nil {
		return "transport-error:" + err.Error()
	}
	switch status {
	case 200:
		var pr prover.Proof
		if e := json.Unmarshal(body, &pr); e != nil {
			return "200 undecodable-proof"
		}
		if rq.hash == nil {
			return "200 no-hash"
		}
		var ve error
		if mode == server.InsertionMode {
			ve = ps.VerifyInsertion(*rq.hash, &pr)
		} else {
			ve = ps.VerifyDeletion(*rq.hash, &pr)
		}
		if ve != nil {
			return "200 badproof"
		}
		return "200 ok"
	case 400, 500:
		var e map[string]string
		if json.Unmarshal(body, &e) != nil {
			return fmt.Sprintf("%d unparsable-error-body", status)
		}
		return fmt.Sprintf("%d %s", status, e["code"])
	}
	return fmt.Sprint(status)
}

var totalRe = regexp.MustCompile(`^http_requests_total\{code="([^"]*)",endpoint_pattern="/prove",method="([^"]*)"\} (\d+)`)
var gaugeRe = regexp.MustCompile(`^http_requests_in_flight\{endpoint_pattern="/prove"\} (\d+)`)

func scrape(client *http.Client, url string) (map[string]int, int, error) {
	resp, err := client.Get(url)
	if err != nil {
		return nil, 0, err
	}
	defer resp.Body.Close()
	b, _ := io.ReadAll(resp.Body)
	totals, gauge := map[string]int{}, -1
	for _, l := range strings.Split(string(b), "\n") {
		if m := totalRe.FindStringSubmatch(l); m != nil {
			var n int
			fmt.Sscan(m[3], &n)
			totals[fmt.Sprintf("method=%s,code=%s", m[2], m[1])] = n
		}
		if m := gaugeRe.FindStringSubmatch(l); m != nil {
			fmt.Sscan(m[1], &gauge)
		}
	}
	return totals, gauge, nil
}

// slowRequest sends a POST /prove whose body arrives in two halves separated by pause.
func slowRequest(addr, body string, pause time.Duration) string {
	conn, err := net.Dial("tcp", addr)
	if err != nil {
		return "cannot connect: " + err.Error()
	}
	defer conn.Close()
	half := len(body) / 2
	fmt.Fprintf(conn, "POST /prove HTTP/1.1\r\nHost: x\r\nContent-Length: %d\r\n\r\n%s", len(body), body[:half])
	time.Sleep(pause)
	fmt.Fprint(conn, body[half:])
	conn.SetReadDeadline(time.Now().Add(300 * time.Second))
	resp, err := http.ReadResponse(bufio.NewReader(conn), nil)
	if err != nil {
		return "no response: " + err.Error()
	}
	io.ReadAll(resp.Body)
	return fmt.Sprintf("status %d", resp.StatusCode)
}

func main() {
	seed := flag.Int64("seed", 1, "seed")
	n := flag.Int("n", 40, "requests per mode")
	d := flag.Int("depth", 2, "tree depth")
	b := flag.Int("batch", 2, "batch size")
	conc := flag.Int("concurrent", 1, "requests in flight per round")
	modesFlag := flag.String("modes", "insertion,deletion", "modes")
	burst := flag.Bool("burst", false, "concurrent rounds start all requests at the same instant and contain mostly valid batches, each preceded by one unsatisfiable request served alone")
	slow := flag.Float64("slow", 0, "additionally send one request whose body upload pauses for this many seconds")
	flag.Parse()
	g := gen.New(*seed)
	client := &http.Client{Timeout: 90 * time.Second}
	emit := func(line, res string) { fmt.Fprintf(gen.Out, "%s\t=>\t%s\n", line, res) }
	for _, mode := range strings.Split(*modesFlag, ",") {
		var ps *prover.ProvingSystem
		var err error
		if mode == server.InsertionMode {
			ps, err = prover.SetupInsertion(uint32(*d), uint32(*b))
		} else {
			ps, err = prover.SetupDeletion(uint32(*d), uint32(*b))
		}
		if err != nil {
			fmt.Fprintln(os.Stderr, "setup failed:", err)
			os.Exit(2)
		}
		cfg := &server.Config{ProverAddress: freePort(), MetricsAddress: freePort(), Mode: mode}
		inst := server.Run(cfg, ps)
		url := "http://" + cfg.ProverAddress + "/prove"
		murl := "http://" + cfg.MetricsAddress + "/metrics"
		for i := 0; i < 3000; i++ { // wait for the listeners
			if _, _, e := scrape(client, murl); e == nil {
				if c, e2 := net.Dial("tcp", cfg.ProverAddress); e2 == nil {
					c.Close()
					break
				}
			}
			time.Sleep(20 * time.Millisecond)
		}
		var tally []string
		round := 0
		for done := 0; done < *n && atomic.LoadInt32(&hangs) < 2; {
			k := *conc
			if k > *n-done {
				k = *n - done
			}
			reqs := make([]request, k)
			round++
			errorRound := *burst && round%3 == 0
			for i := range reqs {
				reqs[i] = genRequest(g, mode, *d, *b)
				if errorRound {
					// every request of this round fails, in one of two classes, each with a message of
					// its own (a character / a count that appears in the error text)
					reqs[i] = uniqueFailure(g, mode, *d, *b, i)
					continue
				}
				if *burst && i < k-2 {
					// mostly valid batches: isolation failures show as a valid request answered with an error
					for tries := 0; tries < 50 && reqs[i].class != "params:valid"; tries++ {
						reqs[i] = genRequest(g, mode, *d, *b)
					}
				}
			}
			if *burst && !errorRound && k >= 2 && reqs[0].class == "params:valid" {
				// a twin of the first request: same start index and the same claimed root transition,
				// another commitment (input hash recomputed), hence unprovable.  Two requests that agree
				// on part of their content are still two requests.
				if tw, ok := twinOf(mode, reqs[0]); ok {
					reqs[1] = tw
				}
			}
			if *burst {
				// a request that fails inside the prover, served alone before the burst
				pre := genRequest(g, mode, *d, *b)
				for tries := 0; tries < 200 && pre.class != "params:wrongpost" && pre.class != "params:corrupt"; tries++ {
					pre = genRequest(g, mode, *d, *b)
				}
				st, body, err := do(client, url, pre)
				res := classify(mode, ps, pre, st, body, err)
				bump("class:" + pre.class)
				emit(fmt.Sprintf("req\t%s\t%d\t%d\t%s\t%s", mode, *d, *b, pre.method, hex.EncodeToString(pre.body)), res)
				if st != 0 {
					tally = append(tally, fmt.Sprintf("%s:%d", pre.method, st))
				}
			}
			results := make([]string, k)
			statuses := make([]int, k)
			bodies := make([][]byte, k)
			offsets := make([]time.Duration, k)
			for i := range offsets {
				offsets[i] = time.Duration(g.Intn(30)) * time.Millisecond
				if *burst {
					offsets[i] = 0
				}
			}
			var wg sync.WaitGroup
			for i := range reqs {
				wg.Add(1)
				go func(i int) {
					defer wg.Done()
					if k > 1 {
						time.Sleep(offsets[i])
					}
					st, body, err := do(client, url, reqs[i])
					statuses[i] = st
					bodies[i] = body
					results[i] = classify(mode, ps, reqs[i], st, body, err)
				}(i)
			}
			if k > 1 {
				// scrape while the round is running: the metrics endpoint must answer and the gauge
				// can never exceed the number of requests of this round
				time.Sleep(15 * time.Millisecond)
				_, gauge, e := scrape(client, murl)
				res := "ok"
				if e != nil {
					res = "metrics-endpoint-unavailable:" + e.Error()
				} else if gauge > k || gauge < 0 {
					res = fmt.Sprintf("gauge=%d with %d open", gauge, k)
				}
				emit(fmt.Sprintf("scrape-during-load\t%d", k), res)
			}
			wg.Wait()
			if k > 1 {
				// isolation oracle for error responses: the same request served alone, twice.  If the
				// two answers alone agree with each other (the text is a function of the request) the
				// answer given under concurrency must be that text too.
				for i := range reqs {
					if atomic.LoadInt32(&hangs) >= 2 {
						break // the server no longer answers in time: every further request would wait as long
					}
					if statuses[i] != 400 && statuses[i] != 500 {
						continue
					}
					s1, b1, e1 := do(client, url, reqs[i])
					s2, b2, e2 := do(client, url, reqs[i])
					for _, s := range []int{s1, s2} {
						if s != 0 {
							tally = append(tally, fmt.Sprintf("%s:%d", reqs[i].method, s))
						}
					}
					if e1 != nil || e2 != nil || s1 != s2 || !bytes.Equal(b1, b2) {
						bump("alone-replay:not-deterministic")
						continue
					}
					if bytes.Contains(b1, []byte("constraint #")) {
						// the solver reports whichever unsatisfied constraint its worker pool meets first:
						// not a function of the request when several fail in one level
						bump("alone-replay:solver-message-skipped")
						continue
					}
					bump("alone-replay:compared")
					if s1 != statuses[i] || !bytes.Equal(b1, bodies[i]) {
						results[i] += fmt.Sprintf(" [answer under concurrency differs from the answer the same request gets alone: %d %q vs %d %q]",
							statuses[i], clip(bodies[i]), s1, clip(b1))
					}
				}
			}
			for i := range reqs {
				bump("class:" + reqs[i].class)
				bump("result:" + strings.SplitN(results[i], ":", 2)[0])
				emit(fmt.Sprintf("req\t%s\t%d\t%d\t%s\t%s", mode, *d, *b, reqs[i].method, hex.EncodeToString(reqs[i].body)), results[i])
				if statuses[i] != 0 {
					tally = append(tally, fmt.Sprintf("%s:%d", reqs[i].method, statuses[i]))
				}
			}
			done += k
		}
		if *slow > 0 {
			// one request that stays inside the handler for a long time (paused upload)
			body := `{"inputHash":"0x1","preRoot":"zz"}`
			st := slowRequest(cfg.ProverAddress, body, time.Duration(*slow*float64(time.Second)))
			emit(fmt.Sprintf("slow-request\t%g", *slow), st)
			if strings.HasPrefix(st, "status ") {
				tally = append(tally, "POST:"+strings.TrimPrefix(st, "status "))
			}
		}
		// liveness sentinel
		st, _, err := do(client, url, request{method: "GET"})
		if err != nil || st != 405 {
			emit("alive", fmt.Sprintf("sentinel got %d %v", st, err))
		} else {
			emit("alive", "ok")
			tally = append(tally, "GET:405")
		}
		// quiescence: the deferred gauge decrement may lag behind the client's receipt
		var totals map[string]int
		gauge := -1
		for i := 0; i < 3000 && (atomic.LoadInt32(&hangs) == 0 || i < 50); i++ {
			totals, gauge, _ = scrape(client, murl)
			if gauge == 0 {
				sum := 0
				for _, v := range totals {
					sum += v
				}
				if sum == len(tally) {
					break
				}
			}
			time.Sleep(20 * time.Millisecond)
		}
		keys := make([]string, 0, len(totals))
		for k := range totals {
			keys = append(keys, k)
		}
		sort.Strings(keys)
		var parts []string
		for _, k := range keys {
			parts = append(parts, fmt.Sprintf("%s:%d", k, totals[k]))
		}
		parts = append(parts, fmt.Sprintf("inflight=%d", gauge))
		emit("metrics\t"+strings.Join(tally, ","), strings.Join(parts, ";"))
		// stop the instance; handlers that never return (requests left unanswered above) would make
		// the graceful stop wait for ever, so the wait is bounded here and the process exit ends them
		inst.RequestStop()
		stopped := make(chan struct{})
		go func() { inst.AwaitStop(); close(stopped) }()
		select {
		case <-stopped:
		case <-time.After(30 * time.Second):
			if atomic.LoadInt32(&hangs) == 0 {
				emit("alive", "server did not stop within 30 s of RequestStop although every request had been answered")
			}
		}
	}
	keys := make([]string, 0, len(stat))
	for k := range stat {
		keys = append(keys, k)
	}
	sort.Strings(keys)
	fmt.Fprintf(os.Stderr, "{")
	for i, k := range keys {
		if i > 0 {
			fmt.Fprintf(os.Stderr, ",")
		}
		fmt.Fprintf(os.Stderr, "%q:%d", k, stat[k])
	}
	fmt.Fprintf(os.Stderr, "}\n")
}
