// Command corrjob: C14 trace conformance.  Runs the REAL server.SpawnJob / server.CombineJobs
// with instrumented start/shutdown closures that imitate spawnServerJob on top of a tiny fake
// http.Server (flags inShutdown/listening/registered, counter active), fake clients, and a main
// that requests the stop at a random time.  Every step appends a label to one global event log
// under the same lock that performs the state change, so the log is a linearisation of the run.
// One line per scenario:
//
//	job\t1\t<labels>\t=>\taccepted
//
// to be fed to the Lean acceptor (`driver corr job`, label syntax in Driver/JobCmd.lean).  The
// channel operations inside SpawnJob/CombineJobs cannot be instrumented; the acceptor treats them
// as silent steps.  After AwaitStop returns the harness also checks directly: both fake listeners
// closed, both addresses free, both start functions returned, no request unfinished.
//
// -orig runs a local copy of the protocol as it was before the repair (close(closed) right after
// shutdown()); its lines are `job\t0\t…` and the direct check is only counted, not enforced.
package main

import (
	"encoding/json"
	"flag"
	"fmt"
	"os"
	"runtime"
	"strings"
	"sync"
	"time"

	"verifharness/gen"
	"worldcoin/gnark-mbu/server"
)

// ---- pre-drawn delay schedules (the one PRNG is only used by the scenario generator) ----

type delays struct {
	v []int
	i int
}

func drawDelays(g *gen.G, n int) *delays {
	d := &delays{v: make([]int, n)}
	for i := range d.v {
		switch r := g.Intn(10); {
		case r < 3:
			d.v[i] = 0
		case r < 4:
			d.v[i] = 1
		case r < 6:
			d.v[i] = 2 + g.Intn(60) // busy wait, microseconds
		default:
			d.v[i] = 100 + g.Intn(300) // sleep, microseconds
		}
	}
	return d
}

func spin(us int) {
	t := time.Now()
	for time.Since(t) < time.Duration(us)*time.Microsecond {
	}
}

func pause(k int) {
	switch {
	case k == 0:
	case k == 1:
		runtime.Gosched()
	case k < 100:
		spin(k)
	default:
		time.Sleep(time.Duration(k) * time.Microsecond)
	}
}

func (d *delays) wait() {
	k := d.v[d.i%len(d.v)]
	d.i++
	pause(k)
}

// ---- the world: one lock, one log, the two addresses ----

type world struct {
	mu         sync.Mutex
	log        []string
	addrHeld   [2]bool
	violations []string
}

func (w *world) emit(l string) { w.log = append(w.log, l) } // caller holds w.mu

const (
	phNotStarted = iota
	phChecked
	phBound
	phServing
	phReturned
)

var phaseName = []string{"notStarted", "checked", "bound", "serving", "returned"}

type fakeServer struct {
	w          *world
	j          int
	name       string
	cond       *sync.Cond
	inShutdown bool
	listening  bool
	registered bool
	active     int
	phase      int
}

// start imitates (*http.Server).ListenAndServe: check, bind, register-or-close, serve, return.
func (s *fakeServer) start(d *delays) {
	w := s.w
	d.wait()
	w.mu.Lock()
	if s.inShutdown {
		s.phase = phReturned
		w.emit(s.name + ".cs")
		w.mu.Unlock()
		return
	}
	s.phase = phChecked
	w.emit(s.name + ".ck")
	w.mu.Unlock()

	d.wait()
	w.mu.Lock()
	if w.addrHeld[s.j] {
		// the real start would panic here: "... failed: listen tcp: address already in use"
		w.violations = append(w.violations, s.name+": bind while the address is still in use")
	}
	w.addrHeld[s.j] = true
	s.listening = true
	s.phase = phBound
	w.emit(s.name + ".bd")
	w.mu.Unlock()

	d.wait()
	w.mu.Lock()
	if s.inShutdown {
		s.listening = false
		w.addrHeld[s.j] = false
		s.phase = phReturned
		w.emit(s.name + ".rs")
		w.mu.Unlock()
		return
	}
	s.registered = true
	s.phase = phServing
	w.emit(s.name + ".rk")
	s.cond.Broadcast()
	// accept loop: blocked until Shutdown closes the listener
	for !s.inShutdown {
		s.cond.Wait()
	}
	w.mu.Unlock()

	d.wait()
	w.mu.Lock()
	s.phase = phReturned
	w.emit(s.name + ".rt")
	w.mu.Unlock()
}

// shutdown imitates (*http.Server).Shutdown: set inShutdown, close registered listeners, wait
// until no request is active.
func (s *fakeServer) shutdown(d *delays) {
	w := s.w
	d.wait()
	w.mu.Lock()
	s.inShutdown = true
	if s.registered && s.listening {
		s.listening = false
		w.addrHeld[s.j] = false
	}
	w.emit(s.name + ".sb")
	s.cond.Broadcast()
	w.mu.Unlock()

	d.wait()
	w.mu.Lock()
	for s.active > 0 {
		s.cond.Wait()
	}
	w.emit(s.name + ".sr")
	w.mu.Unlock()
}

// client: up to reqs requests, one after the other; gives up when the connection is refused.
func (s *fakeServer) client(reqs int, d *delays, remaining *int) {
	w := s.w
	for r := 0; r < reqs; r++ {
		d.wait()
		w.mu.Lock()
		for !s.registered && !s.inShutdown {
			s.cond.Wait()
		}
		if s.inShutdown {
			*remaining -= reqs - r
			w.mu.Unlock()
			return
		}
		s.active++
		w.emit(s.name + ".ac")
		w.mu.Unlock()

		d.wait() // the handler computes the proof
		w.mu.Lock()
		s.active--
		*remaining--
		w.emit(s.name + ".co")
		s.cond.Broadcast()
		w.mu.Unlock()
	}
}

// ---- the protocol before the repair (for -orig) ----

type origJob struct{ stop, closed chan struct{} }

func origSpawn(start func(), shutdown func()) origJob {
	stop := make(chan struct{})
	closed := make(chan struct{})
	go func() {
		<-stop
		shutdown()
		close(closed)
	}()
	go start()
	return origJob{stop, closed}
}

func origCombine(jobs ...origJob) origJob {
	return origSpawn(func() {}, func() {
		for _, j := range jobs {
			close(j.stop)
		}
		for _, j := range jobs {
			<-j.closed
		}
	})
}

// ---- one generation: Run / RequestStop / AwaitStop ----

type stats struct {
	Scenarios   int            `json:"scenarios"`
	Cycles      int            `json:"cycles"`
	Labels      int            `json:"labels"`
	Accepted    int            `json:"requestsAccepted"`
	StopClass   map[string]int `json:"stopTimingClass"`
	JobPhase    map[string]int `json:"starterPhaseAtStop"`
	InFlight    map[string]int `json:"inFlightAtStop"`
	EarlyStop   int            `json:"stopsBeforeBothListenersUp"`
	Violations  int            `json:"directCheckViolations"`
	LateAfterEx int            `json:"labelsAfterMainExit"`
}

func cycle(g *gen.G, w *world, orig bool, st *stats) {
	names := []string{"m", "p"}
	srv := make([]*fakeServer, 2)
	for j := range srv {
		srv[j] = &fakeServer{w: w, j: j, name: names[j], cond: sync.NewCond(&w.mu)}
	}
	startD := []*delays{drawDelays(g, 8), drawDelays(g, 8)}
	shutD := []*delays{drawDelays(g, 4), drawDelays(g, 4)}
	if g.Chance(1, 3) { // starters that are slow to get going
		for j := range startD {
			startD[j].v[0] = 100 + g.Intn(400)
		}
	}
	// clients
	nClients := g.Intn(5)
	type cl struct {
		j, reqs int
		d       *delays
	}
	var clients []cl
	remaining := 0
	for c := 0; c < nClients; c++ {
		j := 1
		if g.Chance(1, 4) {
			j = 0
		}
		reqs := 1 + g.Intn(3)
		d := drawDelays(g, 2*reqs)
		if g.Chance(1, 2) { // long proofs: likely to be in flight at stop time
			for i := 1; i < len(d.v); i += 2 {
				d.v[i] = 300 + g.Intn(1200)
			}
		}
		clients = append(clients, cl{j, reqs, d})
		remaining += reqs
	}
	total := remaining
	stopMode := g.Intn(10)
	stopArg := 0
	switch {
	case stopMode < 2: // immediately
	case stopMode < 3:
		stopArg = 1 + g.Intn(3)
	case stopMode < 5:
		stopArg = 1 + g.Intn(100)
	case stopMode < 8:
		stopArg = 50 + g.Intn(1500)
		if g.Chance(2, 3) { // quick start-up, eager clients, long proofs: requests in flight at stop time
			for j := range startD {
				for i := range startD[j].v {
					startD[j].v[i] = g.Intn(2)
				}
			}
			for _, c := range clients {
				for i := range c.d.v {
					if i%2 == 0 {
						c.d.v[i] = g.Intn(30)
					} else {
						c.d.v[i] = 200 + g.Intn(2000)
					}
				}
			}
		}
	default: // after all requests have completed
		stopArg = g.Intn(200)
	}

	var wg sync.WaitGroup
	wrap := func(f func()) func() {
		wg.Add(1)
		return func() { defer wg.Done(); f() }
	}
	var requestStop, awaitStop func()
	starts := []func(){
		wrap(func() { srv[0].start(startD[0]) }),
		wrap(func() { srv[1].start(startD[1]) }),
	}
	shuts := []func(){
		func() { srv[0].shutdown(shutD[0]) },
		func() { srv[1].shutdown(shutD[1]) },
	}
	// server.Run: metrics job first, then the prover job, then CombineJobs
	if orig {
		j0 := origSpawn(starts[0], shuts[0])
		j1 := origSpawn(starts[1], shuts[1])
		c := origCombine(j0, j1)
		requestStop = func() { close(c.stop) }
		awaitStop = func() { <-c.closed }
	} else {
		j0 := server.SpawnJob(starts[0], shuts[0])
		j1 := server.SpawnJob(starts[1], shuts[1])
		c := server.CombineJobs(j0, j1)
		requestStop = c.RequestStop
		awaitStop = c.AwaitStop
	}
	var cwg sync.WaitGroup
	for _, c := range clients {
		c := c
		cwg.Add(1)
		go func() { defer cwg.Done(); srv[c.j].client(c.reqs, c.d, &remaining) }()
	}

	// main: <-sigint at a random time
	switch {
	case stopMode < 2:
	case stopMode < 3:
		for i := 0; i < stopArg; i++ {
			runtime.Gosched()
		}
	case stopMode < 5:
		spin(stopArg)
	case stopMode < 8:
		time.Sleep(time.Duration(stopArg) * time.Microsecond)
	default:
		cwg.Wait()
		pause(stopArg)
	}
	w.mu.Lock()
	// classify the timing of this stop
	ph := []int{srv[0].phase, srv[1].phase}
	inflight := srv[0].active + srv[1].active
	for j := range ph {
		st.JobPhase[names[j]+":"+phaseName[ph[j]]]++
	}
	class := ""
	switch {
	case ph[0] == phChecked || ph[1] == phChecked:
		class = "betweenCheckAndBind"
	case ph[0] == phBound || ph[1] == phBound:
		class = "betweenBindAndRegister"
	case ph[0] == phNotStarted && ph[1] == phNotStarted:
		class = "beforeAnyStartStep"
	case ph[0] == phNotStarted || ph[1] == phNotStarted:
		class = "oneServingOtherNotStarted"
	case total > 0 && remaining == 0:
		class = "servingAfterCompletion"
	case inflight == 0:
		class = "servingIdle"
	default:
		class = fmt.Sprintf("servingInFlight%d", inflight)
	}
	st.StopClass[class]++
	st.InFlight[fmt.Sprint(inflight)]++
	if ph[0] < phServing || ph[1] < phServing {
		st.EarlyStop++
	}
	w.emit("M.rq")
	requestStop() // close(stop): does not block, so it can be done under the log lock
	w.mu.Unlock()

	w.mu.Lock()
	w.emit("M.aw")
	w.mu.Unlock()
	awaited := make(chan struct{})
	go func() { awaitStop(); close(awaited) }()
	select {
	case <-awaited:
	case <-time.After(20 * time.Second):
		// the model has no run in which main stays in `awaiting` for ever once the clients have
		// finished: report the log so far with a marker the acceptor rejects
		w.mu.Lock()
		w.emit("DEADLOCK")
		w.mu.Unlock()
		fmt.Fprintf(os.Stderr, "corrjob: AwaitStop did not return within 20 s of RequestStop\n")
		return
	}
	w.mu.Lock()
	w.emit("M.ex")
	exitAt := len(w.log)
	var bad []string
	for j, s := range srv {
		if s.listening {
			bad = append(bad, names[j]+": listener still open after AwaitStop")
		}
		if w.addrHeld[j] {
			bad = append(bad, names[j]+": address still in use after AwaitStop")
		}
		if s.phase != phReturned {
			bad = append(bad, names[j]+": start has not returned after AwaitStop ("+phaseName[s.phase]+")")
		}
		if s.active != 0 {
			bad = append(bad, fmt.Sprintf("%s: %d unfinished requests after AwaitStop", names[j], s.active))
		}
	}
	w.mu.Unlock()
	if len(bad) > 0 {
		st.Violations++
		if !orig {
			w.violations = append(w.violations, bad...)
		}
	}
	// the log must be complete before it is printed: wait for whatever is still running
	wg.Wait()
	cwg.Wait()
	w.mu.Lock()
	st.LateAfterEx += len(w.log) - exitAt
	w.mu.Unlock()
	st.Accepted += total - remaining
}

func main() {
	seed := flag.Int64("seed", 1, "seed")
	n := flag.Int("n", 100, "scenarios")
	orig := flag.Bool("orig", false, "run a local copy of the protocol before the repair (lines `job\\t0\\t…`)")
	flag.Parse()
	g := gen.New(*seed)
	st := &stats{StopClass: map[string]int{}, JobPhase: map[string]int{}, InFlight: map[string]int{}}
	failed := false
	for sc := 0; sc < *n; sc++ {
		w := &world{}
		cycles := 1
		if !*orig { // a straggler of the old protocol would spill into the next generation's log
			if g.Chance(1, 4) {
				cycles++
			}
			if g.Chance(1, 10) {
				cycles++
			}
		}
		for c := 0; c < cycles; c++ {
			if c > 0 {
				w.mu.Lock()
				w.emit("R")
				w.mu.Unlock()
			}
			cycle(g, w, *orig, st)
			st.Cycles++
			if len(w.log) > 0 && w.log[len(w.log)-1] == "DEADLOCK" {
				// report this history and stop: every further scenario would block for a minute too
				fmt.Fprintf(gen.Out, "job\t1\t%s\t=>\taccepted\n", strings.Join(w.log, ","))
				fmt.Fprintf(os.Stderr, "corrjob: scenario %d (seed %d): AwaitStop never returned\n", sc, *seed)
				os.Exit(3)
			}
		}
		st.Scenarios++
		st.Labels += len(w.log)
		f := 1
		if *orig {
			f = 0
		}
		fmt.Fprintf(gen.Out, "job\t%d\t%s\t=>\taccepted\n", f, strings.Join(w.log, ","))
		if len(w.violations) > 0 {
			failed = true
			fmt.Fprintf(os.Stderr, "corrjob: scenario %d (seed %d): %s\n", sc, *seed, strings.Join(w.violations, "; "))
		}
	}
	out, _ := json.Marshal(st)
	fmt.Fprintln(os.Stderr, string(out))
	if failed {
		os.Exit(1)
	}
}
