// Command corr08: differential test for property C08 (input-hash helpers and gen-test-params).
//
//	corr08 -seed S -n N
//
// prints protocol lines `<input>\t=>\t<result>` answered on the Lean side by `driver corr c08`
// (Driver/C08Cmd.lean):
//
//	hashins   <canon>  =>  decimal InputHash left by the REAL prover.ComputeInputHashInsertion
//	                       ("panic" when the call panics: FillBytes on a root >= 2^256)
//	hashdel   <canon>  =>  likewise for the REAL prover.ComputeInputHashDeletion
//	canon-ins <canon>  =>  Keccak-256 (x/crypto) of the on-chain packing computed by an independent
//	canon-del <canon>      implementation in this file (fixed-width words, values in range only);
//	                       for values < r it is also compared here with batchgen.HashInsertion /
//	                       HashDeletion, and for all in-range values with the real helper
//	                       (disagreements are counted in the summary and make the command exit 3)
//	old-ins / old-del <canon> => the PRE-repair helpers (verbatim copy of the bodies from the
//	                       parent of commit ee23ff1; regression model of the repaired defect)
//	gentest <mode> <d> <b> => canonical text of the parameters that `gnark-mbu gen-test-params`
//	                       produces.  The binary is not available to the harness, so the ~20 lines of
//	                       the command's action (/repo/main.go:226-262) are replicated below on the
//	                       REAL poseidon_tree and prover packages.
//
// <canon> is the canonical parameter text of corr16 / Driver/C16Cmd.lean.
package main

import (
	"bytes"
	"encoding/binary"
	"flag"
	"fmt"
	"math/big"
	"os"
	"strings"

	"golang.org/x/crypto/sha3"

	"github.com/iden3/go-iden3-crypto/keccak256"
	"verifharness/batchgen"
	"verifharness/gen"
	"worldcoin/gnark-mbu/poseidon_tree"
	"worldcoin/gnark-mbu/prover"
)

var (
	one    = big.NewInt(1)
	two256 = new(big.Int).Lsh(one, 256)
	stat   = map[string]int{}
)

// ---------- canonical text (same as corr16) ----------

func canonInts(xs []big.Int) string {
	parts := make([]string, len(xs))
	for i := range xs {
		parts[i] = xs[i].String()
	}
	return strings.Join(parts, ",")
}

func canonRows(xss [][]big.Int) string {
	parts := make([]string, len(xss))
	for i := range xss {
		if len(xss[i]) == 0 {
			parts[i] = "-"
		} else {
			parts[i] = canonInts(xss[i])
		}
	}
	return strings.Join(parts, "|")
}

func canonIdx(xs []uint32) string {
	if xs == nil {
		return "nil"
	}
	if len(xs) == 0 {
		return "empty"
	}
	parts := make([]string, len(xs))
	for i := range xs {
		parts[i] = fmt.Sprint(xs[i])
	}
	return strings.Join(parts, ",")
}

func canonIns(p *prover.InsertionParameters) string {
	return fmt.Sprintf("ih=%s;si=%d;pre=%s;post=%s;ids=%s;mp=%s", p.InputHash.String(), p.StartIndex,
		p.PreRoot.String(), p.PostRoot.String(), canonInts(p.IdComms), canonRows(p.MerkleProofs))
}

func canonDel(p *prover.DeletionParameters) string {
	return fmt.Sprintf("ih=%s;idx=%s;pre=%s;post=%s;ids=%s;mp=%s", p.InputHash.String(), canonIdx(p.DeletionIndices),
		p.PreRoot.String(), p.PostRoot.String(), canonInts(p.IdComms), canonRows(p.MerkleProofs))
}

// ---------- values ----------

// genValue returns a value and its class; classes "big" (>= 2^256) and "neg" are outside the
// property's quantifier but inside the model.
func genValue(g *gen.G, allowOut bool) (*big.Int, string) {
	k := g.Intn(16)
	switch k {
	case 0:
		return big.NewInt(0), "zero"
	case 1:
		return big.NewInt(1), "one"
	case 2:
		return big.NewInt(int64(g.Intn(70000))), "small"
	case 3, 4, 5:
		// 1..5 leading zero bytes
		z := 1 + g.Intn(5)
		v := g.Below(new(big.Int).Lsh(one, uint(256-8*z)))
		v.SetBit(v, 256-8*z-1-g.Intn(8), 1)
		if v.BitLen() > 256-8*z {
			v.SetBit(v, v.BitLen()-1, 0)
		}
		return v, fmt.Sprintf("lead%d", (256-v.BitLen())/8)
	case 6:
		return new(big.Int).Sub(gen.BN254, one), "r-1"
	case 7:
		return new(big.Int).Sub(two256, one), "2^256-1"
	case 8:
		return new(big.Int).Add(gen.BN254, big.NewInt(int64(g.Intn(5)))), "r+k"
	case 9:
		// random byte length 1..32
		n := 1 + g.Intn(32)
		return g.Below(new(big.Int).Lsh(one, uint(8*n))), "anylen"
	case 10:
		if allowOut {
			if g.Chance(1, 2) {
				return new(big.Int).Add(two256, g.Below(new(big.Int).Lsh(one, uint(1+g.Intn(20))))), "big"
			}
			return new(big.Int).Neg(g.Below(new(big.Int).Lsh(one, uint(1+g.Intn(256))))), "neg"
		}
	}
	return g.Below(gen.BN254), "field"
}

func genIndex(g *gen.G) uint32 {
	switch g.Intn(6) {
	case 0:
		return 0
	case 1:
		return 0xFFFFFFFF
	case 2:
		return uint32(g.Intn(256))
	case 3:
		return uint32(1) << uint(g.Intn(32))
	}
	return g.R.Uint32()
}

func inRange(vs ...*big.Int) bool {
	for _, v := range vs {
		if v.Sign() < 0 || v.Cmp(two256) >= 0 {
			return false
		}
	}
	return true
}

func belowR(vs ...*big.Int) bool {
	for _, v := range vs {
		if v.Sign() < 0 || v.Cmp(gen.BN254) >= 0 {
			return false
		}
	}
	return true
}

// ---------- independent packing ----------

func word32(v *big.Int) []byte {
	out := make([]byte, 32)
	t := new(big.Int).Set(v)
	m := big.NewInt(256)
	for i := 31; i >= 0; i-- {
		q, r := new(big.Int).QuoRem(t, m, new(big.Int))
		out[i] = byte(r.Uint64())
		t = q
	}
	return out
}

func word4(v uint32) []byte { return []byte{byte(v >> 24), byte(v >> 16), byte(v >> 8), byte(v)} }

func keccakX(data []byte) *big.Int {
	h := sha3.NewLegacyKeccak256()
	h.Write(data)
	return new(big.Int).SetBytes(h.Sum(nil))
}

func specIns(p *prover.InsertionParameters) *big.Int {
	data := word4(p.StartIndex)
	data = append(data, word32(&p.PreRoot)...)
	data = append(data, word32(&p.PostRoot)...)
	for i := range p.IdComms {
		data = append(data, word32(&p.IdComms[i])...)
	}
	return keccakX(data)
}

func specDel(p *prover.DeletionParameters) *big.Int {
	var data []byte
	for _, i := range p.DeletionIndices {
		data = append(data, word4(i)...)
	}
	data = append(data, word32(&p.PreRoot)...)
	data = append(data, word32(&p.PostRoot)...)
	return keccakX(data)
}

// ---------- pre-repair helpers: bodies copied verbatim from ee23ff1^ ----------

func oldIns(p *prover.InsertionParameters) *big.Int {
	var data []byte
	buf := new(bytes.Buffer)
	err := binary.Write(buf, binary.BigEndian, p.StartIndex)
	if err != nil {
		panic(err)
	}
	data = append(data, buf.Bytes()...)
	data = append(data, p.PreRoot.Bytes()...)
	data = append(data, p.PostRoot.Bytes()...)
	for _, v := range p.IdComms {
		idBytes := v.Bytes()
		// extend to 32 bytes if necessary, maintaining big-endian ordering
		if len(idBytes) < 32 {
			idBytes = append(make([]byte, 32-len(idBytes)), idBytes...)
		}
		data = append(data, idBytes...)
	}
	hashBytes := keccak256.Hash(data)
	return new(big.Int).SetBytes(hashBytes)
}

func oldDel(p *prover.DeletionParameters) *big.Int {
	var data []byte
	buf := new(bytes.Buffer)
	err := binary.Write(buf, binary.BigEndian, p.DeletionIndices)
	if err != nil {
		panic(err)
	}
	data = append(data, buf.Bytes()...)
	data = append(data, p.PreRoot.Bytes()...)
	data = append(data, p.PostRoot.Bytes()...)
	hashBytes := keccak256.Hash(data)
	return new(big.Int).SetBytes(hashBytes)
}

// ---------- real helpers ----------

func realIns(p *prover.InsertionParameters) (res string) {
	defer func() {
		if r := recover(); r != nil {
			res = "panic"
		}
	}()
	// the struct keeps whatever InputHash it held before (zero, small, or a full-width value left by
	// an earlier computation): the helper must overwrite it
	q := *p
	q.InputHash = *new(big.Int).Set(&p.InputHash)
	if err := q.ComputeInputHashInsertion(); err != nil {
		return "err"
	}
	return q.InputHash.String()
}

func realDel(p *prover.DeletionParameters) (res string) {
	defer func() {
		if r := recover(); r != nil {
			res = "panic"
		}
	}()
	q := *p
	q.InputHash = *new(big.Int).Set(&p.InputHash)
	if err := q.ComputeInputHashDeletion(); err != nil {
		return "err"
	}
	return q.InputHash.String()
}

var disagreements = 0

// staleHash: the value the struct's InputHash holds before the helper runs
func staleHash(g *gen.G) *big.Int {
	switch g.Intn(3) {
	case 0:
		stat["stale.zero"]++
		return big.NewInt(0)
	case 1:
		stat["stale.small"]++
		return big.NewInt(int64(1 + g.Intn(2)))
	}
	stat["stale.fullwidth"]++
	b := make([]byte, 32)
	for i := range b {
		b[i] = byte(g.Intn(256))
	}
	b[0] &= 0x2f
	return new(big.Int).SetBytes(b)
}

func caseIns(g *gen.G) {
	b := g.Intn(17)
	p := &prover.InsertionParameters{StartIndex: genIndex(g)}
	allowOut := g.Chance(1, 4)
	pre, c1 := genValue(g, allowOut)
	post, c2 := genValue(g, allowOut)
	p.PreRoot, p.PostRoot = *pre, *post
	p.InputHash = *staleHash(g)
	stat["ins.root."+c1]++
	stat["ins.root."+c2]++
	all := []*big.Int{pre, post}
	rootsIn := inRange(pre, post)
	p.IdComms = make([]big.Int, b)
	for i := range p.IdComms {
		v, c := genValue(g, allowOut)
		p.IdComms[i] = *v
		all = append(all, v)
		stat["ins.id."+c]++
	}
	stat[fmt.Sprintf("ins.batch%d", b)]++
	c := canonIns(p)
	real := realIns(p)
	fmt.Fprintf(gen.Out, "hashins\t%s\t=>\t%s\n", c, real)
	fmt.Fprintf(gen.Out, "old-ins\t%s\t=>\t%s\n", c, oldIns(p))
	if real == "panic" {
		stat["ins.panic"]++
		if rootsIn {
			disagreements++
			fmt.Fprintf(os.Stderr, "UNEXPECTED panic for in-range roots: %s\n", c)
		}
	}
	if inRange(all...) {
		stat["ins.inrange"]++
		s := specIns(p)
		fmt.Fprintf(gen.Out, "canon-ins\t%s\t=>\t%s\n", c, s)
		if s.String() != real {
			disagreements++
			fmt.Fprintf(os.Stderr, "DEFECT helper != spec: %s helper=%s spec=%s\n", c, real, s)
		}
		if oldIns(p).Cmp(s) != 0 {
			stat["ins.old-differs"]++
		}
		if belowR(all...) {
			stat["ins.belowR"]++
			if h := batchgen.HashInsertion(p.StartIndex, &p.PreRoot, &p.PostRoot, p.IdComms); h.Cmp(s) != 0 {
				disagreements++
				fmt.Fprintf(os.Stderr, "batchgen != spec: %s\n", c)
			}
		}
	} else {
		stat["ins.outofrange"]++
	}
}

func caseDel(g *gen.G) {
	b := g.Intn(17)
	p := &prover.DeletionParameters{}
	allowOut := g.Chance(1, 4)
	pre, c1 := genValue(g, allowOut)
	post, c2 := genValue(g, allowOut)
	p.PreRoot, p.PostRoot = *pre, *post
	p.InputHash = *staleHash(g)
	stat["del.root."+c1]++
	stat["del.root."+c2]++
	p.DeletionIndices = make([]uint32, b)
	for i := range p.DeletionIndices {
		p.DeletionIndices[i] = genIndex(g)
	}
	if b == 0 && g.Chance(1, 2) {
		p.DeletionIndices = nil
	}
	stat[fmt.Sprintf("del.batch%d", b)]++
	c := canonDel(p)
	real := realDel(p)
	fmt.Fprintf(gen.Out, "hashdel\t%s\t=>\t%s\n", c, real)
	fmt.Fprintf(gen.Out, "old-del\t%s\t=>\t%s\n", c, oldDel(p))
	if real == "panic" {
		stat["del.panic"]++
		if inRange(pre, post) {
			disagreements++
			fmt.Fprintf(os.Stderr, "UNEXPECTED panic for in-range roots: %s\n", c)
		}
	}
	if inRange(pre, post) {
		stat["del.inrange"]++
		s := specDel(p)
		fmt.Fprintf(gen.Out, "canon-del\t%s\t=>\t%s\n", c, s)
		if s.String() != real {
			disagreements++
			fmt.Fprintf(os.Stderr, "DEFECT helper != spec: %s helper=%s spec=%s\n", c, real, s)
		}
		if oldDel(p).Cmp(s) != 0 {
			stat["del.old-differs"]++
		}
		if belowR(pre, post) {
			stat["del.belowR"]++
			if h := batchgen.HashDeletion(p.DeletionIndices, &p.PreRoot, &p.PostRoot); h.Cmp(s) != 0 {
				disagreements++
				fmt.Fprintf(os.Stderr, "batchgen != spec: %s\n", c)
			}
		}
	} else {
		stat["del.outofrange"]++
	}
}

// genTest replicates the action of `gen-test-params` (/repo/main.go:226-262) statement by
// statement on the real packages (the command itself lives in package main of /repo and cannot be
// imported; json.Marshal + fmt.Println at its end are replaced by the canonical text).
func genTest(mode string, treeDepth int, batchSize uint32) string {
	if mode == "insertion" {
		params := prover.InsertionParameters{}
		tree := poseidon_tree.NewTree(treeDepth)

		params.StartIndex = 0
		params.PreRoot = tree.Root()
		params.IdComms = make([]big.Int, batchSize)
		params.MerkleProofs = make([][]big.Int, batchSize)
		for i := 0; i < int(batchSize); i++ {
			params.IdComms[i] = *new(big.Int).SetUint64(uint64(i + 1))
			params.MerkleProofs[i] = tree.Update(i, params.IdComms[i])
		}
		params.PostRoot = tree.Root()
		params.ComputeInputHashInsertion()
		// beyond the command: the emitted hash is the one an independent implementation computes
		if h := batchgen.HashInsertion(params.StartIndex, &params.PreRoot, &params.PostRoot, params.IdComms); h.Cmp(&params.InputHash) != 0 {
			disagreements++
			fmt.Fprintf(os.Stderr, "DEFECT gentest insertion %d %d: hash not the canonical one\n", treeDepth, batchSize)
		}
		return canonIns(&params)
	}
	params := prover.DeletionParameters{}
	tree := poseidon_tree.NewTree(treeDepth)

	params.DeletionIndices = make([]uint32, batchSize)
	params.IdComms = make([]big.Int, batchSize)
	params.MerkleProofs = make([][]big.Int, batchSize)
	for i := 0; i < int(batchSize*2); i++ {
		tree.Update(i, *new(big.Int).SetUint64(uint64(i + 1)))
	}
	params.PreRoot = tree.Root()
	for i := 0; i < int(batchSize); i++ {
		params.DeletionIndices[i] = uint32(2 * i)
		params.IdComms[i] = *new(big.Int).SetUint64(uint64(2*i + 1))
		params.MerkleProofs[i] = tree.Update(2*i, *big.NewInt(0))
	}
	params.PostRoot = tree.Root()
	params.ComputeInputHashDeletion()
	if h := batchgen.HashDeletion(params.DeletionIndices, &params.PreRoot, &params.PostRoot); h.Cmp(&params.InputHash) != 0 {
		disagreements++
		fmt.Fprintf(os.Stderr, "DEFECT gentest deletion %d %d: hash not the canonical one\n", treeDepth, batchSize)
	}
	return canonDel(&params)
}

func main() {
	seed := flag.Int64("seed", 1, "seed")
	n := flag.Int("n", 100, "parameter sets per mode")
	flag.Parse()
	g := gen.New(*seed)
	for i := 0; i < *n; i++ {
		caseIns(g)
		caseDel(g)
	}
	for d := 1; d <= 6; d++ {
		for b := 1; b <= 6; b++ {
			if b <= 1<<uint(d) {
				fmt.Fprintf(gen.Out, "gentest\tinsertion\t%d\t%d\t=>\t%s\n", d, b, genTest("insertion", d, uint32(b)))
				stat["gentest.insertion"]++
			}
			if 2*b <= 1<<uint(d) {
				fmt.Fprintf(gen.Out, "gentest\tdeletion\t%d\t%d\t=>\t%s\n", d, b, genTest("deletion", d, uint32(b)))
				stat["gentest.deletion"]++
			}
		}
	}
	stat["disagreements"] = disagreements
	fmt.Fprintf(os.Stderr, "{")
	first := true
	for k, v := range stat {
		if !first {
			fmt.Fprintf(os.Stderr, ",")
		}
		first = false
		fmt.Fprintf(os.Stderr, "%q:%d", k, v)
	}
	fmt.Fprintf(os.Stderr, "}\n")
	if disagreements != 0 {
		os.Exit(3)
	}
}
