// Command c14cli: black-box graceful-shutdown scenarios against the real `gnark-mbu start`
// binary (built from the current tree by the caller).
//
//	c14cli -bin <gnark-mbu> -keys <file> -mode deletion -depth 2 -batch 2 -seed S -n N
//
// Each scenario prints `shutdown\t<scenario>\t=>\tok` or a description of what went wrong:
//   - every request that was in flight (confirmed through the in-flight gauge) when SIGINT was
//     sent receives its complete 200 response with a proof that verifies for its own hash,
//   - the process exits with status 0,
//   - both addresses can be bound immediately after the exit.
package main

import (
	"bytes"
	"encoding/json"
	"flag"
	"fmt"
	"io"
	"net"
	"net/http"
	"os"
	"os/exec"
	"regexp"
	"strings"
	"sync"
	"syscall"
	"time"

	"verifharness/batchgen"
	"verifharness/gen"
	"worldcoin/gnark-mbu/prover"
)

func freePort() string {
	l, err := net.Listen("tcp", "127.0.0.1:0")
	if err != nil {
		panic(err)
	}
	defer l.Close()
	return l.Addr().String()
}

var gaugeRe = regexp.MustCompile(`(?m)^http_requests_in_flight\{endpoint_pattern="/prove"\} (\d+)`)

func gauge(client *http.Client, murl string) int {
	resp, err := client.Get(murl)
	if err != nil {
		return -1
	}
	defer resp.Body.Close()
	b, _ := io.ReadAll(resp.Body)
	m := gaugeRe.FindSubmatch(b)
	if m == nil {
		return -1
	}
	var n int
	fmt.Sscan(string(m[1]), &n)
	return n
}

func main() {
	bin := flag.String("bin", "", "gnark-mbu binary")
	keys := flag.String("keys", "", "keys file")
	mode := flag.String("mode", "deletion", "mode")
	d := flag.Int("depth", 2, "depth")
	b := flag.Int("batch", 2, "batch")
	seed := flag.Int64("seed", 1, "seed")
	n := flag.Int("n", 4, "scenarios")
	flag.Parse()
	g := gen.New(*seed)
	ps, err := prover.ReadSystemFromFile(*keys)
	if err != nil {
		fmt.Fprintln(os.Stderr, "cannot read keys:", err)
		os.Exit(2)
	}
	client := &http.Client{Timeout: 600 * time.Second}
	for sc := 0; sc < *n; sc++ {
		inflight := []int{0, 1, 2, 4, 3, 6}[sc%6]
		timing := []string{"in-flight", "after-completion", "idle-just-up"}[g.Intn(3)]
		if inflight == 0 {
			timing = "idle-just-up"
		}
		if sc%6 == 1 || sc%6 == 3 {
			timing = "in-flight" // scenarios 1 and 3 of every six: requests in flight, signal repeated
		}
		if timing == "idle-just-up" {
			// a request racing the SIGINT may legitimately be refused (it was never accepted), so
			// this timing sends none
			inflight = 0
		}
		repeat := timing == "in-flight" && sc%2 == 1
		name := fmt.Sprintf("%s k=%d", timing, inflight)
		if repeat {
			name += " sigint-repeated"
		}
		pa, ma := freePort(), freePort()
		cmd := exec.Command(*bin, "start", "--mode", *mode, "--keys-file", *keys, "--prover-address", pa, "--metrics-address", ma)
		var stderr bytes.Buffer
		cmd.Stderr = &stderr
		cmd.Stdout = &stderr
		if err := cmd.Start(); err != nil {
			fmt.Fprintf(gen.Out, "shutdown\t%s\t=>\tcannot start: %v\n", name, err)
			continue
		}
		murl := "http://" + ma + "/metrics"
		up := false
		for i := 0; i < 4800; i++ {
			if gauge(client, murl) >= 0 {
				if c, e := net.Dial("tcp", pa); e == nil {
					c.Close()
					up = true
					break
				}
			}
			time.Sleep(25 * time.Millisecond)
		}
		if !up {
			cmd.Process.Kill()
			cmd.Wait()
			fmt.Fprintf(gen.Out, "shutdown\t%s\t=>\tserver did not come up: %s\n", name, strings.ReplaceAll(stderr.String(), "\n", " | "))
			continue
		}
		// main.go installs its SIGINT handler right after server.Run returns; both listeners
		// answering does not prove that those few instructions have run on a loaded machine.  The
		// property's stop request is a SIGINT that reaches the handler (DESIGN.md 11.4).
		time.Sleep(150 * time.Millisecond)
		type result struct {
			status int
			ok     bool
			err    error
		}
		results := make([]result, inflight)
		var wg sync.WaitGroup
		for i := 0; i < inflight; i++ {
			var body []byte
			var hash = new(prover.Proof)
			_ = hash
			var verify func(*prover.Proof) error
			for {
				if *mode == "insertion" {
					p, mut := batchgen.Insertion(g, *d, *b)
					if mut != "valid" {
						continue
					}
					body, _ = json.Marshal(p)
					h := p.InputHash
					verify = func(pr *prover.Proof) error { return ps.VerifyInsertion(h, pr) }
				} else {
					p, mut := batchgen.Deletion(g, *d, *b)
					if mut != "valid" {
						continue
					}
					body, _ = json.Marshal(p)
					h := p.InputHash
					verify = func(pr *prover.Proof) error { return ps.VerifyDeletion(h, pr) }
				}
				break
			}
			wg.Add(1)
			go func(i int, body []byte, verify func(*prover.Proof) error) {
				defer wg.Done()
				resp, err := client.Post("http://"+pa+"/prove", "application/json", bytes.NewReader(body))
				if err != nil {
					results[i] = result{0, false, err}
					return
				}
				defer resp.Body.Close()
				rb, err := io.ReadAll(resp.Body)
				if err != nil {
					results[i] = result{resp.StatusCode, false, err}
					return
				}
				var pr prover.Proof
				if resp.StatusCode == 200 {
					if e := json.Unmarshal(rb, &pr); e != nil {
						results[i] = result{200, false, e}
						return
					}
					results[i] = result{200, verify(&pr) == nil, nil}
					return
				}
				results[i] = result{resp.StatusCode, false, fmt.Errorf("%s", rb)}
			}(i, body, verify)
		}
		problem := ""
		switch timing {
		case "in-flight":
			// wait until the server itself reports all of them in flight
			seen := false
			for i := 0; i < 400; i++ {
				if gauge(client, murl) >= inflight {
					seen = true
					break
				}
				time.Sleep(5 * time.Millisecond)
			}
			if !seen {
				// proofs may already have completed on a fast machine; the scenario degrades to after-completion
				name += " (gauge never reached k)"
			}
		case "after-completion":
			wg.Wait()
		}
		cmd.Process.Signal(syscall.SIGINT)
		if repeat {
			// an impatient operator or a supervisor that repeats the signal: the stop has been
			// requested already, the drain must go on
			for _, pause := range []time.Duration{time.Millisecond, 10 * time.Millisecond, 40 * time.Millisecond} {
				time.Sleep(pause)
				cmd.Process.Signal(syscall.SIGINT)
			}
		}
		done := make(chan error, 1)
		go func() { done <- cmd.Wait() }()
		var werr error
		select {
		case werr = <-done:
		case <-time.After(600 * time.Second):
			cmd.Process.Kill()
			problem = "process did not exit within 600 s of SIGINT (deadlock?)"
		}
		// the addresses must be free as soon as the process has exited
		if problem == "" {
			for _, a := range []string{pa, ma} {
				l, e := net.Listen("tcp", a)
				if e != nil {
					problem = fmt.Sprintf("cannot bind %s after exit: %v", a, e)
					break
				}
				l.Close()
			}
		}
		wg.Wait()
		if problem == "" && werr != nil {
			problem = fmt.Sprintf("exit status: %v; stderr tail: %s", werr, tail(stderr.String()))
		}
		if problem == "" {
			for i, r := range results {
				if r.err != nil || r.status != 200 || !r.ok {
					problem = fmt.Sprintf("request %d overlapping the SIGINT: status=%d verified=%v err=%v", i, r.status, r.ok, r.err)
					break
				}
			}
		}
		if problem == "" {
			problem = "ok"
		}
		fmt.Fprintf(gen.Out, "shutdown\t%s\t=>\t%s\n", name, problem)
	}
}

func tail(s string) string {
	s = strings.ReplaceAll(s, "\n", " | ")
	if len(s) > 400 {
		return s[len(s)-400:]
	}
	return s
}
