// Command corrkeccak: C04 correspondence for the real gadget.  For each message the repository's
// NewKeccak256 / NewSHA3_256 runs in gnark's test engine (and, with -r1cs, as compiled R1CS for a
// few lengths) with the digest from golang.org/x/crypto/sha3 as expected output: it must accept
// it and reject a digest with one flipped bit.  Lines are in the format of corr04
//
//	spec <domain> <hex message>  =>  <hex digest>          (answered by the Lean gadget specification)
package main

import (
	"encoding/hex"
	"flag"
	"fmt"
	"os"
	"sort"
	"sync"

	"github.com/consensys/gnark/frontend"
	"github.com/consensys/gnark/test"
	"golang.org/x/crypto/sha3"

	"verifharness/circuits"
	"verifharness/gen"
	"verifharness/r1csx"
)

func digest(dom int, msg []byte) []byte {
	if dom == 6 {
		d := sha3.Sum256(msg)
		return d[:]
	}
	h := sha3.NewLegacyKeccak256()
	h.Write(msg)
	return h.Sum(nil)
}

func bits(b []byte) []frontend.Variable {
	out := make([]frontend.Variable, 0, 8*len(b))
	for _, x := range b {
		for i := 0; i < 8; i++ {
			out = append(out, int((x>>uint(i))&1))
		}
	}
	return out
}

func main() {
	seed := flag.Int64("seed", 1, "seed")
	maxLen := flag.Int("maxlen", 140, "every length 0..maxlen bytes")
	extra := flag.Int("n", 10, "random extra lengths up to 3 blocks and production lengths")
	doR1CS := flag.Bool("r1cs", false, "also solve the compiled R1CS for a few lengths")
	flag.Parse()
	g := gen.New(*seed)
	type job struct {
		dom int
		msg []byte
	}
	var jobs []job
	contents := func(n, kind int) []byte {
		b := make([]byte, n)
		switch kind {
		case 1:
			for i := range b {
				b[i] = 0xff
			}
		case 2:
			if n > 0 {
				b[g.Intn(n)] = 1 << uint(g.Intn(8))
			}
		case 3:
			g.R.Read(b)
		}
		return b
	}
	for n := 0; n <= *maxLen; n++ {
		for _, dom := range []int{1, 6} {
			jobs = append(jobs, job{dom, contents(n, (n+dom)%4)})
		}
	}
	// rate boundaries of later blocks and the production lengths 68+32b / 64+4b
	special := []int{271, 272, 273, 407, 408, 409, 68 + 32*1, 68 + 32*4, 68 + 32*10, 64 + 4*1, 64 + 4*4, 64 + 4*100}
	for i := 0; i < *extra; i++ {
		n := special[i%len(special)]
		if i >= len(special) {
			n = g.Intn(410)
		}
		jobs = append(jobs, job{[]int{1, 6}[g.Intn(2)], contents(n, 3)})
	}
	res := make([]string, len(jobs))
	var wg sync.WaitGroup
	sem := make(chan struct{}, 14)
	for i, j := range jobs {
		wg.Add(1)
		sem <- struct{}{}
		go func(i int, j job) {
			defer wg.Done()
			defer func() { <-sem }()
			defer func() {
				if x := recover(); x != nil {
					res[i] = fmt.Sprintf("gadget-panics(%v)", x)
				}
			}()
			want := digest(j.dom, j.msg)
			c := &circuits.KeccakCircuit{In: make([]frontend.Variable, 8*len(j.msg)), Out: make([]frontend.Variable, 256), Domain: j.dom}
			r := hex.EncodeToString(want)
			if err := test.IsSolved(c, &circuits.KeccakCircuit{In: bits(j.msg), Out: bits(want), Domain: j.dom}, gen.BN254); err != nil {
				r = "gadget-rejects-standard-digest(test-engine)"
			} else {
				bad := append([]byte{}, want...)
				bad[(i*7)%32] ^= 1 << uint(i%8)
				if test.IsSolved(c, &circuits.KeccakCircuit{In: bits(j.msg), Out: bits(bad), Domain: j.dom}, gen.BN254) == nil {
					r = "gadget-accepts-wrong-digest(test-engine)"
				}
			}
			res[i] = r
		}(i, j)
	}
	wg.Wait()
	stat := map[string]int{}
	for i, j := range jobs {
		stat[fmt.Sprintf("dom%d", j.dom)]++
		stat[fmt.Sprintf("blocks%d", (len(j.msg)+1+135)/136)]++
		fmt.Fprintf(gen.Out, "spec\t%d\t%s\t=>\t%s\n", j.dom, hex.EncodeToString(j.msg), res[i])
	}
	// two hashes over adjacent chunks of one buffer (total long enough that the first chunk's padded
	// size fits in the buffer): both digests must be the standard ones
	for i := 0; i < 6; i++ {
		dom := []int{1, 6}[i%2]
		total := 136 + g.Intn(137)
		split := 1 + g.Intn(total-1)
		if i < 2 {
			split = 32
		}
		msg := contents(total, 3)
		m1, m2 := msg[:split], msg[split:]
		d1, d2 := digest(dom, m1), digest(dom, m2)
		c := &circuits.KeccakPairCircuit{In: make([]frontend.Variable, 8*total), Out1: make([]frontend.Variable, 256), Out2: make([]frontend.Variable, 256), Split: 8 * split, Domain: dom}
		r1, r2 := hex.EncodeToString(d1), hex.EncodeToString(d2)
		if err := test.IsSolved(c, &circuits.KeccakPairCircuit{In: bits(msg), Out1: bits(d1), Out2: bits(d2), Split: 8 * split, Domain: dom}, gen.BN254); err != nil {
			// which of the two? try each alone
			one := func(m, d []byte) bool {
				cc := &circuits.KeccakCircuit{In: make([]frontend.Variable, 8*len(m)), Out: make([]frontend.Variable, 256), Domain: dom}
				return test.IsSolved(cc, &circuits.KeccakCircuit{In: bits(m), Out: bits(d), Domain: dom}, gen.BN254) == nil
			}
			if one(m1, d1) && one(m2, d2) {
				r2 = fmt.Sprintf("gadget-rejects-standard-digest(second of two hashes over adjacent chunks of one %d-byte buffer, split at %d; each alone is accepted)", total, split)
			} else {
				r1, r2 = "gadget-rejects-standard-digest(test-engine)", "gadget-rejects-standard-digest(test-engine)"
			}
		}
		stat["adjacent-chunks"]++
		fmt.Fprintf(gen.Out, "spec\t%d\t%s\t=>\t%s\n", dom, hex.EncodeToString(m1), r1)
		fmt.Fprintf(gen.Out, "spec\t%d\t%s\t=>\t%s\n", dom, hex.EncodeToString(m2), r2)
	}
	if *doR1CS {
		for _, n := range []int{0, 1, 135, 136, 137, 100} {
			for _, dom := range []int{1, 6} {
				msg := contents(n, 3)
				want := digest(dom, msg)
				c := &circuits.KeccakCircuit{In: make([]frontend.Variable, 8*n), Out: make([]frontend.Variable, 256), Domain: dom}
				r := hex.EncodeToString(want)
				ccs, err := r1csx.Compile(c)
				if err != nil {
					r = "compile failed: " + err.Error()
				} else if r1csx.Solve(ccs, &circuits.KeccakCircuit{In: bits(msg), Out: bits(want), Domain: dom}, nil) != nil {
					r = "gadget-rejects-standard-digest(r1cs)"
				} else {
					bad := append([]byte{}, want...)
					bad[5] ^= 4
					if r1csx.Solve(ccs, &circuits.KeccakCircuit{In: bits(msg), Out: bits(bad), Domain: dom}, nil) == nil {
						r = "gadget-accepts-wrong-digest(r1cs)"
					}
				}
				stat["r1cs"]++
				fmt.Fprintf(gen.Out, "spec\t%d\t%s\t=>\t%s\n", dom, hex.EncodeToString(msg), r)
			}
		}
	}
	ks := make([]string, 0, len(stat))
	for k := range stat {
		ks = append(ks, k)
	}
	sort.Strings(ks)
	fmt.Fprintf(os.Stderr, "{")
	for i, k := range ks {
		if i > 0 {
			fmt.Fprintf(os.Stderr, ",")
		}
		fmt.Fprintf(os.Stderr, "%q:%d", k, stat[k])
	}
	fmt.Fprintf(os.Stderr, "}\n")
}
