// Command corrmerkle: correspondence cases for C01/C02.  Runs the repository's InsertionProof /
// DeletionProof gadgets (gnark test engine over several prime fields; compiled R1CS over BN254
// solved with honest and adversarial hints) on generated batches and prints
//
//	<case line> \t=>\t <accept|reject|split:…|unsound:…>
//
// The Lean driver (`driver corr merkle`) evaluates the proved batch specification on the same line.
package main

import (
	"flag"
	"fmt"
	"math/big"
	"os"
	"strings"

	"github.com/consensys/gnark/backend/hint"
	"github.com/consensys/gnark/constraint"
	"github.com/consensys/gnark/frontend"
	"github.com/consensys/gnark/test"
	"golang.org/x/crypto/sha3"

	"worldcoin/gnark-mbu/prover"

	"verifharness/circuits"
	"verifharness/gen"
	"verifharness/r1csx"
	"verifharness/ref"
)

var fields = []*big.Int{gen.BN254, big.NewInt(101), big.NewInt(65537), new(big.Int).Sub(new(big.Int).Lsh(big.NewInt(1), 61), big.NewInt(1))}

func recoverRoot(p, leaf *big.Int, sibs []*big.Int, idx *big.Int, d int) *big.Int {
	acc := new(big.Int).Mod(leaf, p)
	for i := 0; i < d && i < len(sibs); i++ {
		if idx.Bit(i) == 1 {
			acc = ref.Hash2(p, sibs[i], acc)
		} else {
			acc = ref.Hash2(p, acc, sibs[i])
		}
	}
	return acc
}

type ccsKey struct {
	mode string
	d, b int
}

var ccsCache = map[ccsKey]constraint.ConstraintSystem{}

func getCCS(mode string, d, b int) constraint.ConstraintSystem {
	k := ccsKey{mode, d, b}
	if c, ok := ccsCache[k]; ok {
		return c
	}
	var c constraint.ConstraintSystem
	var err error
	if mode == "ins" {
		c, err = r1csx.Compile(circuits.NewInsertionProofCircuit(d, b))
	} else {
		c, err = r1csx.Compile(circuits.NewDeletionProofCircuit(d, b))
	}
	if err != nil {
		// e.g. "unconstrained input": keep going with the test engine only
		fmt.Fprintf(os.Stderr, "compile %s d=%d b=%d failed: %v\n", mode, d, b, strings.SplitN(err.Error(), "\n", 2)[0])
		c = nil
	}
	ccsCache[k] = c
	return c
}

func vars(vs []*big.Int) []frontend.Variable {
	out := make([]frontend.Variable, len(vs))
	for i, v := range vs {
		out[i] = new(big.Int).Set(v)
	}
	return out
}
func vars2(vs [][]*big.Int) [][]frontend.Variable {
	out := make([][]frontend.Variable, len(vs))
	for i, v := range vs {
		out[i] = vars(v)
	}
	return out
}

func verdict(errs map[string]error, adv map[string]error) string {
	acc, rej := 0, 0
	var parts []string
	for k, e := range errs {
		if e == nil {
			acc++
			parts = append(parts, k+"=accept")
		} else {
			rej++
			parts = append(parts, k+"=reject")
		}
	}
	if acc > 0 && rej > 0 {
		return "split:" + strings.Join(parts, ",")
	}
	if rej > 0 {
		for k, e := range adv {
			if e == nil {
				return "unsound:" + k
			}
		}
		return "reject"
	}
	return "accept"
}

var fullPct int
var full bool

func u32be(v *big.Int) []byte  { b := make([]byte, 4); return v.FillBytes(b) }
func u256be(v *big.Int) []byte { b := make([]byte, 32); return v.FillBytes(b) }

// canonical on-chain packing, computed independently of the repository's helpers
func packHash(idx []*big.Int, first bool, pre, post *big.Int, ids []*big.Int) *big.Int {
	var data []byte
	if first {
		for _, i := range idx {
			data = append(data, u32be(i)...)
		}
	}
	data = append(data, u256be(pre)...)
	data = append(data, u256be(post)...)
	for _, v := range ids {
		data = append(data, u256be(v)...)
	}
	h := sha3.NewLegacyKeccak256()
	h.Write(data)
	return new(big.Int).SetBytes(h.Sum(nil))
}

type stats struct {
	n        int
	byMode   map[string]int
	byMut    map[string]int
	byResult map[string]int
	byField  map[string]int
}

func main() {
	seed := flag.Int64("seed", 1, "seed")
	n := flag.Int("n", 100, "cases")
	maxDepth := flag.Int("maxdepth", 8, "max depth")
	flag.IntVar(&fullPct, "fullpct", 0, "percentage of cases run through the full Insertion/Deletion circuits (BN254, small dims)")
	mode := flag.String("mode", "both", "ins | del | both")
	flag.Parse()
	g := gen.New(*seed)
	st := stats{byMode: map[string]int{}, byMut: map[string]int{}, byResult: map[string]int{}, byField: map[string]int{}}
	w := gen.Out
	for c := 0; c < *n; c++ {
		p := fields[0]
		full = g.Intn(100) < fullPct
		if !full && g.Chance(1, 4) {
			p = fields[1+g.Intn(len(fields)-1)]
		}
		// keep 2^(d+1) <= p (hypothesis of the theorems)
		maxd := *maxDepth
		for maxd > 1 && new(big.Int).Lsh(big.NewInt(1), uint(maxd+1)).Cmp(p) > 0 {
			maxd--
		}
		d := 1 + g.Intn(maxd)
		if full {
			d = 1 + g.Intn(4)
		} else if g.Chance(1, 20) && p == fields[0] {
			d = []int{16, 20, 30, 31, 32}[g.Intn(5)]
		}
		b := 1 + g.Intn(4)
		if full {
			b = 1 + g.Intn(3)
		}
		size := new(big.Int).Lsh(big.NewInt(1), uint(d))
		tree := ref.NewTree(p, d)
		// history: insertions then some deletions (holes)
		nIns := g.Intn(7)
		if uint64(nIns) > size.Uint64() && d < 10 {
			nIns = int(size.Uint64())
		}
		for i := 0; i < nIns; i++ {
			v := g.Field(p)
			if v.Sign() == 0 {
				v = big.NewInt(3)
			}
			tree.Set(uint64(i)%size.Uint64(), v)
		}
		for i := 0; i < g.Intn(3) && nIns > 0; i++ {
			tree.Set(uint64(g.Intn(nIns)), big.NewInt(0))
		}
		var line, res, mut string
		if *mode == "ins" || (*mode == "both" && g.Chance(1, 2)) {
			line, res, mut = insertionCase(g, p, d, b, tree, nIns)
			st.byMode["ins"]++
		} else {
			line, res, mut = deletionCase(g, p, d, b, tree, nIns)
			st.byMode["del"]++
		}
		st.n++
		st.byMut[mut]++
		st.byResult[strings.SplitN(res, ":", 2)[0]]++
		st.byField[p.String()]++
		fmt.Fprintf(w, "%s\t=>\t%s\n", line, res)
	}
	fmt.Fprintf(os.Stderr, "{\"cases\":%d,\"mode\":%s,\"mutation\":%s,\"result\":%s,\"field\":%s}\n", st.n, js(st.byMode), js(st.byMut), js(st.byResult), js(st.byField))
}

func js(m map[string]int) string {
	var parts []string
	for k, v := range m {
		parts = append(parts, fmt.Sprintf("%q:%d", k, v))
	}
	return "{" + strings.Join(parts, ",") + "}"
}

func insertionCase(g *gen.G, p *big.Int, d, b int, tree *ref.Tree, nIns int) (string, string, string) {
	size := new(big.Int).Lsh(big.NewInt(1), uint(d))
	pre := tree.Root()
	start := big.NewInt(int64(nIns))
	if start.Cmp(size) >= 0 {
		start = big.NewInt(0)
	}
	muts := []string{"none", "none", "none", "hole", "pastend", "wrap", "big", "occupied", "stale", "corrupt", "reuse", "wrongpost", "edgeids", "lastleaf"}
	mut := muts[g.Intn(len(muts))]
	switch mut {
	case "hole":
		if nIns > 0 {
			start = big.NewInt(int64(g.Intn(nIns)))
		}
	case "pastend":
		start = new(big.Int).Sub(size, big.NewInt(int64(g.Intn(b+1))))
	case "lastleaf":
		start = new(big.Int).Sub(size, big.NewInt(int64(b)))
		if start.Sign() < 0 {
			start = big.NewInt(0)
		}
	case "wrap":
		start = new(big.Int).Sub(p, big.NewInt(int64(1+g.Intn(b+1))))
	case "big":
		start = new(big.Int).Add(new(big.Int).Lsh(big.NewInt(1), 32), big.NewInt(int64(g.Intn(5))))
		start.Mod(start, p)
	case "occupied":
		if nIns > 0 {
			start = big.NewInt(int64(g.Intn(nIns)))
		}
	}
	// the circuit sees the start index as a field element
	start.Mod(start, p)
	ids := make([]*big.Int, b)
	proofs := make([][]*big.Int, b)
	work := tree.Clone()
	for i := 0; i < b; i++ {
		ids[i] = g.Field(p)
		if mut == "edgeids" {
			ids[i] = []*big.Int{big.NewInt(0), new(big.Int).Sub(p, big.NewInt(1)), big.NewInt(1)}[g.Intn(3)]
		}
		idx := new(big.Int).Add(start, big.NewInt(int64(i)))
		idx.Mod(idx, p)
		leaf := new(big.Int).Mod(idx, size).Uint64()
		src := work
		if mut == "stale" {
			src = tree
		}
		proofs[i] = src.Path(leaf)
		work.Set(leaf, ids[i])
	}
	switch mut {
	case "corrupt":
		i, j := g.Intn(b), g.Intn(d)
		proofs[i][j] = new(big.Int).Mod(new(big.Int).Add(proofs[i][j], big.NewInt(1)), p)
	case "reuse":
		if b > 1 {
			proofs[b-1] = proofs[0]
		}
	}
	// post root: either the genuine tree root or the chained recomputation (only the
	// range/emptiness checks can then fail), or a wrong value
	post := work.Root()
	if g.Chance(1, 2) || mut == "corrupt" || mut == "reuse" || mut == "occupied" {
		if g.Chance(2, 3) {
			var acc *big.Int
			for i := 0; i < b; i++ {
				idx := new(big.Int).Add(start, big.NewInt(int64(i)))
				idx.Mod(idx, p)
				acc = recoverRoot(p, ids[i], proofs[i], idx, d)
			}
			post = acc
		}
	}
	if mut == "wrongpost" {
		post = new(big.Int).Mod(new(big.Int).Add(post, big.NewInt(1)), p)
	}
	// forged NON-BINARY decomposition (one case in eight, BN254, 2 <= depth <= 12): the path "bits" of
	// the first index are (b0+2, b1-1, b2, …) — the right weighted sum, not booleans.  The roots the
	// circuit itself computes from them are obtained by running the repository's VerifyProof on that
	// path (circuits.VerifyProofCapture); with ProofRound's booleanity assertion in place nothing is
	// captured and the ordinary case below is produced.  If something is captured, the one-element
	// batch (start, pre', post') is presented to the compiled InsertionProof with an NBits hint that
	// returns the forged vector: the gate table (ToBinary = booleans recomposing to the value) and
	// the specification say reject.
	if !full && p.Cmp(gen.BN254) == 0 && d >= 2 && d <= 12 && start.BitLen() <= d && g.Chance(1, 8) {
		forged := make([]*big.Int, d)
		for i := range forged {
			forged[i] = big.NewInt(int64(start.Bit(i)))
		}
		forged[0].Add(forged[0], big.NewInt(2))
		forged[1].Sub(forged[1], big.NewInt(1)).Mod(forged[1], p)
		capture := func(leaf *big.Int) *big.Int {
			circuits.Captured = nil
			c := &circuits.VerifyProofCapture{Sibs: make([]frontend.Variable, d), Path: make([]frontend.Variable, d)}
			a := &circuits.VerifyProofCapture{Leaf: leaf, Sibs: vars(proofs[0]), Path: vars(forged)}
			if test.IsSolved(c, a, p) != nil {
				return nil
			}
			return circuits.Captured
		}
		if fpre, fpost := capture(big.NewInt(0)), capture(ids[0]); fpre != nil && fpost != nil {
			line := fmt.Sprintf("ins\t%s\t%d\t%s\t%s\t%s\t%s\t%s", p, d, start, fpre, fpost, gen.Csv(ids[:1]), gen.Csv2(proofs[:1]))
			mk := func() *circuits.InsertionProofCircuit {
				return &circuits.InsertionProofCircuit{Start: start, Pre: fpre, Post: fpost, Ids: vars(ids[:1]), Proofs: vars2(proofs[:1])}
			}
			errs := map[string]error{"te": test.IsSolved(circuits.NewInsertionProofCircuit(d, 1), mk(), p)}
			adv := map[string]error{}
			if ccs := getCCS("ins", d, 1); ccs != nil {
				errs["r1cs"] = r1csx.Solve(ccs, mk(), nil)
				adv["nbits-nonbinary"] = r1csx.Solve(ccs, mk(), map[hint.ID]hint.Function{r1csx.NBitsID: func(_ *big.Int, inputs []*big.Int, results []*big.Int) error {
					if len(results) == d && inputs[0].Cmp(start) == 0 {
						for i := range results {
							results[i].Set(forged[i])
						}
						return nil
					}
					for i := range results {
						results[i].SetUint64(uint64(inputs[0].Bit(i)))
					}
					return nil
				}})
			}
			return line, verdict(errs, adv), "ins:forged-nonbinary"
		}
	}
	if full {
		line := fmt.Sprintf("insfull\t%s\t%d\t%s\t%s\t%s\t%s\t%s", p, d, start, pre, post, gen.Csv(ids), gen.Csv2(proofs))
		res := "reject"
		if start.BitLen() <= 32 {
			ih := packHash([]*big.Int{start}, true, pre, post, ids)
			ih.Mod(ih, p)
			circuit := &prover.InsertionMbuCircuit{IdComms: make([]frontend.Variable, b), MerkleProofs: circuits.Matrix(b, d), BatchSize: b, Depth: d}
			asg := &prover.InsertionMbuCircuit{InputHash: ih, StartIndex: start, PreRoot: pre, PostRoot: post, IdComms: vars(ids), MerkleProofs: vars2(proofs)}
			if test.IsSolved(circuit, asg, p) == nil {
				res = "accept"
			}
		} else {
			// the 32-bit decomposition of StartIndex cannot hold; run the circuit with an arbitrary hash
			circuit := &prover.InsertionMbuCircuit{IdComms: make([]frontend.Variable, b), MerkleProofs: circuits.Matrix(b, d), BatchSize: b, Depth: d}
			asg := &prover.InsertionMbuCircuit{InputHash: 0, StartIndex: start, PreRoot: pre, PostRoot: post, IdComms: vars(ids), MerkleProofs: vars2(proofs)}
			if test.IsSolved(circuit, asg, p) == nil {
				res = "accept"
			}
		}
		return line, res, "insfull:" + mut
	}
	line := fmt.Sprintf("ins\t%s\t%d\t%s\t%s\t%s\t%s\t%s", p, d, start, pre, post, gen.Csv(ids), gen.Csv2(proofs))
	mk := func() *circuits.InsertionProofCircuit {
		return &circuits.InsertionProofCircuit{Start: start, Pre: pre, Post: post, Ids: vars(ids), Proofs: vars2(proofs)}
	}
	errs := map[string]error{}
	errs["te"] = test.IsSolved(circuits.NewInsertionProofCircuit(d, b), mk(), p)
	adv := map[string]error{}
	if p == gen.BN254 && d <= 12 {
		ccs := getCCS("ins", d, b)
		if ccs == nil {
			return line, verdict(errs, adv), "ins:" + mut
		}
		errs["r1cs"] = r1csx.Solve(ccs, mk(), nil)
		adv["nbits+2^d"] = r1csx.Solve(ccs, mk(), map[hint.ID]hint.Function{r1csx.NBitsID: r1csx.NBitsOf(func(n *big.Int, nb int) *big.Int {
			return n.Mod(n, new(big.Int).Lsh(big.NewInt(1), uint(nb)))
		})})
		adv["nbits-low"] = r1csx.Solve(ccs, mk(), map[hint.ID]hint.Function{r1csx.NBitsID: r1csx.NBitsOf(func(n *big.Int, nb int) *big.Int {
			return n.Rsh(n, 1)
		})})
	}
	return line, verdict(errs, adv), "ins:" + mut
}

func deletionCase(g *gen.G, p *big.Int, d, b int, tree *ref.Tree, nIns int) (string, string, string) {
	size := new(big.Int).Lsh(big.NewInt(1), uint(d))
	pre := tree.Root()
	muts := []string{"none", "none", "none", "dup-old", "dup-zero", "empty", "allpad", "mixpad", "toolarge", "u32max", "stale", "corrupt", "wrongitem", "wrongpost", "pad-genuine", "pad-genuine", "zeroitem-badpath"}
	mut := muts[g.Intn(len(muts))]
	idxs := make([]*big.Int, b)
	ids := make([]*big.Int, b)
	proofs := make([][]*big.Int, b)
	work := tree.Clone()
	garbage := func() []*big.Int {
		o := make([]*big.Int, d)
		for i := range o {
			o[i] = g.Field(p)
		}
		return o
	}
	zslot := g.Intn(b)
	for i := 0; i < b; i++ {
		var leaf uint64
		if nIns > 0 {
			leaf = uint64(g.Intn(nIns)) % size.Uint64()
		}
		pad := false
		switch mut {
		case "dup-old", "dup-zero":
			if i > 0 {
				leaf = idxs[0].Uint64() % size.Uint64()
			}
		case "empty":
			if d < 60 {
				leaf = (uint64(nIns) + uint64(g.Intn(3))) % size.Uint64()
			}
		case "allpad":
			pad = true
		case "mixpad":
			pad = g.Chance(1, 2)
		}
		if pad {
			idxs[i] = new(big.Int).Add(size, g.Below(size))
			ids[i] = g.Field(p)
			proofs[i] = garbage()
			continue
		}
		if mut == "zeroitem-badpath" && i == zslot {
			// a real index presenting the empty value with a path that authenticates nothing, the
			// root carried on as if the slot were padding: only an index >= 2^depth makes padding
			idxs[i] = new(big.Int).SetUint64(leaf)
			ids[i] = big.NewInt(0)
			proofs[i] = garbage()
			continue
		}
		if mut == "pad-genuine" && g.Chance(2, 3) {
			// a padding index whose other fields are a genuine membership witness of leaf index-2^d:
			// still a no-op
			idxs[i] = new(big.Int).Add(size, new(big.Int).SetUint64(leaf))
			ids[i] = new(big.Int).Set(work.Get(leaf))
			proofs[i] = work.Path(leaf)
			continue
		}
		idxs[i] = new(big.Int).SetUint64(leaf)
		src := work
		if mut == "stale" {
			src = tree
		}
		ids[i] = new(big.Int).Set(src.Get(leaf))
		if mut == "dup-old" && i > 0 {
			ids[i] = new(big.Int).Set(tree.Get(leaf))
		}
		proofs[i] = src.Path(leaf)
		work.Set(leaf, big.NewInt(0))
	}
	switch mut {
	case "toolarge":
		i := g.Intn(b)
		idxs[i] = new(big.Int).Add(new(big.Int).Lsh(size, 1), big.NewInt(int64(g.Intn(4))))
		idxs[i].Mod(idxs[i], p)
	case "u32max":
		idxs[g.Intn(b)] = new(big.Int).Mod(big.NewInt(0xffffffff), p)
	case "corrupt":
		i, j := g.Intn(b), g.Intn(d)
		proofs[i][j] = new(big.Int).Mod(new(big.Int).Add(proofs[i][j], big.NewInt(1)), p)
	case "wrongitem":
		i := g.Intn(b)
		ids[i] = new(big.Int).Mod(new(big.Int).Add(ids[i], big.NewInt(1)), p)
	}
	post := work.Root()
	if g.Chance(1, 2) {
		// chained recomputation following the circuit's data flow
		acc := pre
		for i := 0; i < b; i++ {
			if idxs[i].Cmp(size) < 0 {
				acc = recoverRoot(p, big.NewInt(0), proofs[i], idxs[i], d)
			}
		}
		post = acc
	}
	if mut == "wrongpost" {
		post = new(big.Int).Mod(new(big.Int).Add(post, big.NewInt(1)), p)
	}
	if full {
		line := fmt.Sprintf("delfull\t%s\t%d\t%s\t%s\t%s\t%s\t%s", p, d, pre, post, gen.Csv(idxs), gen.Csv(ids), gen.Csv2(proofs))
		res := "reject"
		ok32 := true
		for _, i := range idxs {
			if i.BitLen() > 32 {
				ok32 = false
			}
		}
		var ih *big.Int = big.NewInt(0)
		if ok32 {
			ih = packHash(idxs, true, pre, post, nil)
			ih.Mod(ih, p)
		}
		circuit := &prover.DeletionMbuCircuit{DeletionIndices: make([]frontend.Variable, b), IdComms: make([]frontend.Variable, b), MerkleProofs: circuits.Matrix(b, d), BatchSize: b, Depth: d}
		asg := &prover.DeletionMbuCircuit{InputHash: ih, DeletionIndices: vars(idxs), PreRoot: pre, PostRoot: post, IdComms: vars(ids), MerkleProofs: vars2(proofs)}
		if test.IsSolved(circuit, asg, p) == nil {
			res = "accept"
		}
		return line, res, "delfull:" + mut
	}
	line := fmt.Sprintf("del\t%s\t%d\t%s\t%s\t%s\t%s\t%s", p, d, pre, post, gen.Csv(idxs), gen.Csv(ids), gen.Csv2(proofs))
	mk := func() *circuits.DeletionProofCircuit {
		return &circuits.DeletionProofCircuit{Pre: pre, Post: post, Idxs: vars(idxs), Ids: vars(ids), Proofs: vars2(proofs)}
	}
	errs := map[string]error{}
	errs["te"] = test.IsSolved(circuits.NewDeletionProofCircuit(d, b), mk(), p)
	adv := map[string]error{}
	if p == gen.BN254 && d <= 12 {
		ccs := getCCS("del", d, b)
		if ccs == nil {
			return line, verdict(errs, adv), "del:" + mut
		}
		errs["r1cs"] = r1csx.Solve(ccs, mk(), nil)
		adv["invzero=0"] = r1csx.Solve(ccs, mk(), map[hint.ID]hint.Function{r1csx.InvZeroID: r1csx.InvZeroConst(big.NewInt(0))})
		adv["invzero=rnd"] = r1csx.Solve(ccs, mk(), map[hint.ID]hint.Function{r1csx.InvZeroID: r1csx.InvZeroConst(g.Below(p))})
		adv["nbits>>1"] = r1csx.Solve(ccs, mk(), map[hint.ID]hint.Function{r1csx.NBitsID: r1csx.NBitsOf(func(n *big.Int, nb int) *big.Int {
			return n.Rsh(n, 1)
		})})
	}
	return line, verdict(errs, adv), "del:" + mut
}
