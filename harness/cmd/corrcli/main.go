// Command corrcli: C19 correspondence against the real gnark-mbu binary (built by the caller).
//
//	prove  <mode> <d> <b> <canonical params>   => proof | error | <description of a contract breach>
//	     proof  : exit 0 and stdout is exactly one JSON proof followed by a newline
//	     error  : non-zero exit, nothing on stdout, something on stderr
//	verify <verifier keys label> <prover keys label> <hash> <candidate> => accept (exit 0) | reject (exit != 0)
//	cli <scenario>                              => ok | what went wrong      (protocol constants)
package main

import (
	"bytes"
	"encoding/json"
	"flag"
	"fmt"
	"math/big"
	"os"
	"os/exec"
	"path/filepath"
	"sort"
	"strings"

	"verifharness/batchgen"
	"verifharness/gen"
	"worldcoin/gnark-mbu/prover"
)

var bin string
var stat = map[string]int{}

type res struct {
	code   int
	stdout string
	stderr string
}

func run(stdin []byte, args ...string) res {
	cmd := exec.Command(bin, args...)
	cmd.Stdin = bytes.NewReader(stdin)
	var o, e bytes.Buffer
	cmd.Stdout, cmd.Stderr = &o, &e
	err := cmd.Run()
	code := 0
	if err != nil {
		if ee, ok := err.(*exec.ExitError); ok {
			code = ee.ExitCode()
		} else {
			code = -1
		}
	}
	stat[fmt.Sprintf("%s:exit%d", args[0], code)]++
	return res{code, o.String(), e.String()}
}

func emit(line, r string) { fmt.Fprintf(gen.Out, "%s\t=>\t%s\n", line, r) }

func oneProof(stdout string) bool {
	if !strings.HasSuffix(stdout, "\n") || strings.Count(stdout, "\n") != 1 {
		return false
	}
	var pr prover.Proof
	return json.Unmarshal([]byte(strings.TrimSuffix(stdout, "\n")), &pr) == nil
}

func expectFail(name string, r res) {
	switch {
	case strings.Contains(r.stderr, "panic:") || strings.Contains(r.stderr, "goroutine 1 ["):
		emit("cli\t"+name, "the command panicked: "+tail(r.stderr))
	case r.code == 0:
		emit("cli\t"+name, "exit status 0")
	case r.stdout != "":
		emit("cli\t"+name, "failure but stdout not empty: "+r.stdout[:min(80, len(r.stdout))])
	case r.stderr == "":
		emit("cli\t"+name, "failure without any message on stderr")
	default:
		emit("cli\t"+name, "ok")
	}
}

func main() {
	flag.StringVar(&bin, "bin", "", "gnark-mbu binary")
	dir := flag.String("dir", "", "scratch directory")
	seed := flag.Int64("seed", 1, "seed")
	n := flag.Int("n", 6, "parameter sets per mode")
	d := flag.Int("depth", 2, "depth")
	b := flag.Int("batch", 2, "batch")
	dd := flag.Int("deldepth", 0, "depth of the deletion system (default: -depth)")
	flag.Parse()
	if *dd == 0 {
		*dd = *d
	}
	depthOf := map[string]int{"insertion": *d, "deletion": *dd}
	g := gen.New(*seed)
	keys := map[string]string{"insertion": filepath.Join(*dir, "ins.keys"), "deletion": filepath.Join(*dir, "del.keys")}
	label := map[string]string{"insertion": "I", "deletion": "D"}
	for _, mode := range []string{"insertion", "deletion"} {
		r := run(nil, "setup", "--mode", mode, "--output", keys[mode], "--tree-depth", fmt.Sprint(depthOf[mode]), "--batch-size", fmt.Sprint(*b))
		if r.code != 0 || r.stdout != "" {
			emit("cli\tsetup "+mode, fmt.Sprintf("exit %d stdout %q stderr tail %q", r.code, r.stdout, tail(r.stderr)))
			return
		}
		emit("cli\tsetup "+mode, "ok")
	}
	// convert-to-raw keeps the system usable (setup already writes raw; converting again must be harmless)
	conv := filepath.Join(*dir, "ins.raw.keys")
	r := run(nil, "convert-to-raw", "--input", keys["insertion"], "--output", conv)
	if r.code != 0 {
		emit("cli\tconvert-to-raw", fmt.Sprintf("exit %d %s", r.code, tail(r.stderr)))
	} else {
		emit("cli\tconvert-to-raw", "ok")
	}
	// converting a file onto itself must not destroy it
	inplace := filepath.Join(*dir, "del.inplace.keys")
	if b, err := os.ReadFile(keys["deletion"]); err == nil {
		os.WriteFile(inplace, b, 0o644)
		r = run(nil, "convert-to-raw", "--input", inplace, "--output", inplace)
		after, _ := os.ReadFile(inplace)
		switch {
		case r.code != 0:
			emit("cli\tconvert-to-raw in place", fmt.Sprintf("exit %d %s (file now %d bytes, was %d)", r.code, tail(r.stderr), len(after), len(b)))
		case len(after) != len(b):
			emit("cli\tconvert-to-raw in place", fmt.Sprintf("file changed size: %d -> %d", len(b), len(after)))
		default:
			emit("cli\tconvert-to-raw in place", "ok")
		}
	}
	os.Remove(inplace)
	doneTail := map[string]bool{}
	other := map[string]string{"insertion": "deletion", "deletion": "insertion"}
	for _, mode := range []string{"insertion", "deletion"} {
		// the documented pipeline: gen-test-params | prove | verify
		gp := run(nil, "gen-test-params", "--mode", mode, "--tree-depth", fmt.Sprint(depthOf[mode]), "--batch-size", fmt.Sprint(*b))
		name := "pipeline " + mode
		if gp.code != 0 {
			emit("cli\t"+name, "gen-test-params failed: "+tail(gp.stderr))
		} else {
			var probe struct {
				InputHash string `json:"inputHash"`
			}
			json.Unmarshal([]byte(gp.stdout), &probe)
			pr := run([]byte(gp.stdout), "prove", "--mode", mode, "--keys-file", keys[mode])
			if pr.code != 0 || !oneProof(pr.stdout) {
				emit("cli\t"+name, fmt.Sprintf("prove on gen-test-params output: exit %d stdout %q stderr %q", pr.code, pr.stdout[:min(60, len(pr.stdout))], tail(pr.stderr)))
			} else {
				vr := run([]byte(pr.stdout), "verify", "--mode", mode, "--keys-file", keys[mode], "--input-hash", probe.InputHash)
				if vr.code != 0 {
					emit("cli\t"+name, "verify rejected the proof of the generated parameters: "+tail(vr.stderr))
				} else {
					emit("cli\t"+name, "ok")
				}
			}
		}
		for c := 0; c < *n; c++ {
			var doc []byte
			var line string
			var h, hother *big.Int
			if mode == "insertion" {
				p, _ := batchgen.Insertion(g, *d, *b)
				doc, _ = json.Marshal(p)
				line = fmt.Sprintf("prove\tinsertion\t%d\t%d\t%s", *d, *b, batchgen.CanonInsertion(p))
				h = new(big.Int).Set(&p.InputHash)
				hother = batchgen.HashInsertion(p.StartIndex+1, &p.PreRoot, &p.PostRoot, p.IdComms)
			} else {
				p, _ := batchgen.Deletion(g, *dd, *b)
				doc, _ = json.Marshal(p)
				line = fmt.Sprintf("prove\tdeletion\t%d\t%d\t%s", *dd, *b, batchgen.CanonDeletion(p))
				h = new(big.Int).Set(&p.InputHash)
				hother = batchgen.HashDeletion(p.DeletionIndices, &p.PostRoot, &p.PreRoot)
			}
			kf := keys[mode]
			if mode == "insertion" && g.Chance(1, 3) {
				kf = conv
			}
			pr := run(doc, "prove", "--mode", mode, "--keys-file", kf)
			switch {
			case pr.code == 0 && oneProof(pr.stdout):
				emit(line, "proof")
			case pr.code != 0 && pr.stdout == "" && pr.stderr != "":
				emit(line, "error")
				continue
			default:
				emit(line, fmt.Sprintf("contract breach: exit %d, stdout %q, stderr empty=%v", pr.code, pr.stdout[:min(80, len(pr.stdout))], pr.stderr == ""))
				continue
			}
			rr := gen.BN254
			cands := []*big.Int{h, new(big.Int).Add(h, rr), new(big.Int).Add(h, big.NewInt(1)), hother}
			for _, cand := range cands {
				vr := run([]byte(pr.stdout), "verify", "--mode", mode, "--keys-file", keys[mode], "--input-hash", "0x"+cand.Text(16))
				emit(fmt.Sprintf("verify\t%s\t%s\t%s\t%s", label[mode], label[mode], h, cand), verdict(vr))
			}
			// hash given in decimal
			vr := run([]byte(pr.stdout), "verify", "--mode", mode, "--keys-file", keys[mode], "--input-hash", h.String())
			emit(fmt.Sprintf("verify\t%s\t%s\t%s\t%s", label[mode], label[mode], h, h), verdict(vr))
			// the other mode's keys (with the other mode's flag, and with this mode's flag)
			vr = run([]byte(pr.stdout), "verify", "--mode", other[mode], "--keys-file", keys[other[mode]], "--input-hash", "0x"+h.Text(16))
			emit(fmt.Sprintf("verify\t%s\t%s\t%s\t%s", label[other[mode]], label[mode], h, h), verdict(vr))
			vr = run([]byte(pr.stdout), "verify", "--mode", mode, "--keys-file", keys[other[mode]], "--input-hash", "0x"+h.Text(16))
			emit(fmt.Sprintf("verify\t%s\t%s\t%s\t%s", label[other[mode]], label[mode], h, h), verdict(vr))
			if !doneTail[mode] {
				// a keys file whose tail is cut off, with a VALID proof: the reader must still fail
				doneTail[mode] = true
				full, _ := os.ReadFile(keys[mode])
				tc := filepath.Join(*dir, "tailcut.keys")
				for _, cut := range []int{1, 100, 1 + g.Intn(60000)} {
					os.WriteFile(tc, full[:len(full)-cut], 0o644)
					expectFail(fmt.Sprintf("verify valid proof with keys cut %d bytes short %s", cut, mode),
						run([]byte(pr.stdout), "verify", "--mode", mode, "--keys-file", tc, "--input-hash", "0x"+h.Text(16)))
					expectFail(fmt.Sprintf("export-vk with keys cut %d bytes short %s", cut, mode),
						run(nil, "export-vk", "--keys-file", tc, "--output", filepath.Join(*dir, "vk.out")))
				}
				os.Remove(tc)
				os.Remove(filepath.Join(*dir, "vk.out"))
			}
			if c == 0 {
				// tampered proofs
				var pj map[string]interface{}
				json.Unmarshal([]byte(pr.stdout), &pj)
				ar := pj["ar"].([]interface{})
				pj["ar"] = []interface{}{ar[1], ar[0]}
				tam, _ := json.Marshal(pj)
				expectFail("tampered proof (swapped ar) "+mode, run(tam, "verify", "--mode", mode, "--keys-file", keys[mode], "--input-hash", "0x"+h.Text(16)))
				expectFail("garbage proof "+mode, run([]byte("{not json"), "verify", "--mode", mode, "--keys-file", keys[mode], "--input-hash", "0x"+h.Text(16)))
				expectFail("non-numeric hash "+mode, run([]byte(pr.stdout), "verify", "--mode", mode, "--keys-file", keys[mode], "--input-hash", "zz"))
				// mode flags
				expectFail("verify with garbage mode "+mode, run([]byte(pr.stdout), "verify", "--mode", "bogus", "--keys-file", keys[mode], "--input-hash", "0x"+h.Text(16)))
				expectFail("verify with absent mode "+mode, runNoEnv([]byte(pr.stdout), "verify", "--keys-file", keys[mode], "--input-hash", "0x"+h.Text(16)))
				expectFail("prove with garbage mode "+mode, run(doc, "prove", "--mode", "Insertion ", "--keys-file", keys[mode]))
				expectFail("prove with absent mode "+mode, runNoEnv(doc, "prove", "--keys-file", keys[mode]))
				// the other mode's flag with this mode's keys and parameters.  The property demands a
				// non-zero exit for an unknown or missing mode and for unprovable parameters — not for this
				// combination: at batch size 1 the two circuits have the same witness shape, a deletion
				// document read as insertion parameters has start index 0, and when the deletion index is
				// 0 as well the witness IS the genuine one and a valid proof comes out.  What must hold is
				// that the exit status tells the truth: a non-zero exit, or one proof on stdout that
				// verifies under these keys (in their own mode) for this input hash.
				if xr := run(doc, "prove", "--mode", other[mode], "--keys-file", keys[mode]); xr.code == 0 && !strings.Contains(xr.stderr, "panic:") {
					vr := run([]byte(xr.stdout), "verify", "--mode", mode, "--keys-file", keys[mode], "--input-hash", "0x"+h.Text(16))
					if vr.code == 0 {
						emit("cli\tprove with the other mode's flag "+mode, "ok")
					} else {
						emit("cli\tprove with the other mode's flag "+mode, "exit status 0 but what it printed does not verify under these keys: "+tail(vr.stderr))
					}
				} else {
					expectFail("prove with the other mode's flag "+mode, xr)
				}
			}
		}
		expectFail("gen-test-params garbage mode", run(nil, "gen-test-params", "--mode", "x", "--tree-depth", "2", "--batch-size", "1"))
		expectFail("setup garbage mode", run(nil, "setup", "--mode", "x", "--output", filepath.Join(*dir, "none"), "--tree-depth", "2", "--batch-size", "1"))
		expectFail("r1cs absent mode", runNoEnv(nil, "r1cs", "--output", filepath.Join(*dir, "none"), "--tree-depth", "2", "--batch-size", "1"))
		expectFail("gen-test-params absent mode", runNoEnv(nil, "gen-test-params", "--tree-depth", "2", "--batch-size", "1"))
		expectFail("setup absent mode", runNoEnv(nil, "setup", "--output", filepath.Join(*dir, "none"), "--tree-depth", "2", "--batch-size", "1"))
		if _, err := os.Stat("/dev/full"); err == nil {
			// an output that cannot be written (a full volume): the command must say so
			expectFail("r1cs onto a full device "+mode, run(nil, "r1cs", "--mode", mode, "--output", "/dev/full", "--tree-depth", "2", "--batch-size", "1"))
			expectFail("export-vk onto a full device "+mode, run(nil, "export-vk", "--keys-file", keys[mode], "--output", "/dev/full"))
			expectFail("export-solidity onto a full device "+mode, run(nil, "export-solidity", "--keys-file", keys[mode], "--output", "/dev/full"))
			expectFail("convert-to-raw onto a full device "+mode, run(nil, "convert-to-raw", "--input", keys[mode], "--output", "/dev/full"))
			expectFail("setup onto a full device "+mode, run(nil, "setup", "--mode", mode, "--output", "/dev/full", "--tree-depth", "1", "--batch-size", "1"))
		}
		// the keys file written by setup belongs to the user who wrote it: readable and writable by
		// the owner whatever the umask-independent mode bits say
		if st, err := os.Stat(keys[mode]); err == nil {
			if st.Mode().Perm()&0o600 == 0o600 {
				emit("cli\tkeys file mode "+mode, "ok")
			} else {
				emit("cli\tkeys file mode "+mode, fmt.Sprintf("mode %v: the owner cannot read or write the file setup has just written", st.Mode().Perm()))
			}
		}
		expectFail("prove missing keys file "+mode, run([]byte("{}"), "prove", "--mode", mode, "--keys-file", filepath.Join(*dir, "absent")))
		// truncated keys
		full, _ := os.ReadFile(keys[mode])
		tr := filepath.Join(*dir, "trunc.keys")
		os.WriteFile(tr, full[:len(full)-1-g.Intn(1000)], 0o644)
		expectFail("prove truncated keys "+mode, run([]byte("{}"), "prove", "--mode", mode, "--keys-file", tr))
		expectFail("verify truncated keys "+mode, run([]byte("{}"), "verify", "--mode", mode, "--keys-file", tr, "--input-hash", "1"))
		os.Remove(tr)
	}
	ks := make([]string, 0, len(stat))
	for k := range stat {
		ks = append(ks, k)
	}
	sort.Strings(ks)
	fmt.Fprintf(os.Stderr, "{")
	for i, k := range ks {
		if i > 0 {
			fmt.Fprintf(os.Stderr, ",")
		}
		fmt.Fprintf(os.Stderr, "%q:%d", k, stat[k])
	}
	fmt.Fprintf(os.Stderr, "}\n")
}

func runNoEnv(stdin []byte, args ...string) res {
	old, had := os.LookupEnv("MTB_MODE")
	os.Unsetenv("MTB_MODE")
	defer func() {
		if had {
			os.Setenv("MTB_MODE", old)
		}
	}()
	return run(stdin, args...)
}

func verdict(r res) string {
	if r.code == 0 {
		return "accept"
	}
	return "reject"
}

func tail(s string) string {
	s = strings.ReplaceAll(s, "\n", " | ")
	if len(s) > 300 {
		return s[len(s)-300:]
	}
	return s
}
