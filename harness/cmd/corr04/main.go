// corr04: differential-test generator for the Lean Keccak reference (property C04).
//
// Prints lines `<input line>\t=>\t<hex digest>` where the input line is one of
//
//	keccak256\t<hex bytes>      digest: golang.org/x/crypto/sha3 NewLegacyKeccak256
//	sha3_256\t<hex bytes>       digest: golang.org/x/crypto/sha3 Sum256
//	spec\t1\t<hex bytes>        digest: NewLegacyKeccak256 (the gadget program with Domain 0x01)
//	spec\t6\t<hex bytes>        digest: Sum256             (the gadget program with Domain 0x06)
//
// for every length 0..maxlen bytes with contents {zero, 0xff, single bit, random}, plus n random
// extra cases.  The Lean driver (`driver c04`) must print the same digest for each input line.
package main

import (
	"bufio"
	"encoding/hex"
	"flag"
	"fmt"
	"math/rand"
	"os"

	"golang.org/x/crypto/sha3"
)

func keccak256(b []byte) []byte {
	h := sha3.NewLegacyKeccak256()
	h.Write(b)
	return h.Sum(nil)
}

func sha3_256(b []byte) []byte {
	d := sha3.Sum256(b)
	return d[:]
}

func main() {
	seed := flag.Int64("seed", 1, "random seed")
	n := flag.Int("n", 100, "number of random extra cases")
	maxlen := flag.Int("maxlen", 545, "every length 0..maxlen bytes is covered")
	specEvery := flag.Int("spec-every", 1, "emit the (slower) spec lines only for every k-th case")
	flag.Parse()
	rng := rand.New(rand.NewSource(*seed))
	w := bufio.NewWriter(os.Stdout)
	defer w.Flush()

	count := 0
	emit := func(b []byte) {
		h := hex.EncodeToString(b)
		k := hex.EncodeToString(keccak256(b))
		s := hex.EncodeToString(sha3_256(b))
		fmt.Fprintf(w, "keccak256\t%s\t=>\t%s\n", h, k)
		fmt.Fprintf(w, "sha3_256\t%s\t=>\t%s\n", h, s)
		if count%*specEvery == 0 {
			fmt.Fprintf(w, "spec\t1\t%s\t=>\t%s\n", h, k)
			fmt.Fprintf(w, "spec\t6\t%s\t=>\t%s\n", h, s)
		}
		count++
	}

	for l := 0; l <= *maxlen; l++ {
		zero := make([]byte, l)
		emit(zero)
		if l == 0 {
			continue
		}
		ff := make([]byte, l)
		for i := range ff {
			ff[i] = 0xff
		}
		emit(ff)
		one := make([]byte, l)
		bit := rng.Intn(8 * l)
		one[bit/8] = 1 << (bit % 8)
		emit(one)
		r := make([]byte, l)
		rng.Read(r)
		emit(r)
	}
	for i := 0; i < *n; i++ {
		l := rng.Intn(*maxlen + 1)
		r := make([]byte, l)
		rng.Read(r)
		emit(r)
	}
}
