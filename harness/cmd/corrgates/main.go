// Command corrgates: T-corr-gates.  Validates the gate table of lean/Smtb/Proofs/Sat.lean (the
// satisfiability condition of every frontend.API call the repository uses) against what gnark
// v0.8.0 really compiles.
//
// For every API op (and every constant-folding variant of it) a micro-circuit
//
//	res := op(In...) ; AssertIsEqual(res[i], Out[i])
//
// is compiled to R1CS (BN254, and the 47-element tinyfield backend).  Satisfiability of the
// compiled system for an assignment of (In, Out) is then decided over ALL prover choices by our
// own evaluator of the compiled constraints (not gnark's solver):
//
//   - the wire layout [ONE | public | secret | internal], the constraints L*R=O with their
//     coefficient table and the hint table MHints are read from the compiled object;
//   - hint outputs are enumerated over a candidate set (the whole field on tinyfield);
//   - every other internal wire is obtained by propagation exactly like gnark's solver does (one
//     unknown per constraint; the unknown sits in L, R or O);
//   - the verdict is sat iff some choice satisfies every constraint.
//
// Cross-checks of the evaluator itself: (1) on BN254 gnark's own solver with the honest hints must
// not accept an assignment the evaluator calls unsat; (2) on tinyfield a brute force over ALL
// internal wires (no propagation, no hint/non-hint distinction) must give the same verdict;
// (3) the set of satisfiable Out values derived by propagating Out as an unknown must equal the
// set obtained by trying every Out.
//
// Lines:
//
//	gate     <variant> <p> <in1,in2,…> <out1,…>      =>  sat|unsat
//	gateall  <variant> <p> <nOut> <in1,in2,…>        =>  <k>:<o11,o12|o21,o22|…>   (every satisfiable Out tuple, lexicographic)
package main

import (
	"flag"
	"fmt"
	"math/big"
	"os"
	"sort"
	"strings"

	"github.com/consensys/gnark/constraint"
	cs_bn254 "github.com/consensys/gnark/constraint/bn254"
	cs_tiny "github.com/consensys/gnark/constraint/tinyfield"
	"github.com/consensys/gnark/frontend"
	"github.com/consensys/gnark/frontend/cs/r1cs"

	"verifharness/gen"
	"verifharness/r1csx"
)

// ---------------------------------------------------------------------------------------------
// micro-circuits

type V = frontend.Variable

type gateCircuit struct {
	In  []V
	Out []V
	def func(api frontend.API, in []V) []V `gnark:"-"`
}

func (c *gateCircuit) Define(api frontend.API) error {
	res := c.def(api, c.In)
	if len(res) != len(c.Out) {
		panic(fmt.Sprintf("variant yields %d results, %d Out declared", len(res), len(c.Out)))
	}
	for i := range res {
		api.AssertIsEqual(res[i], c.Out[i])
	}
	return nil
}

type variant struct {
	name   string
	kinds  []string // per input: "f" field-valued, "b" operand the op constrains to be boolean, "t<n>" ToBinary input of width n
	nOut   int
	def    func(api frontend.API, in []V) []V
	panics bool // the builder is expected to refuse the circuit (non-boolean constant operand)
}

func one(v V) []V { return []V{v} }

// variants on which the R1CS builder of gnark v0.8.0 is known to differ from the gate table:
//   - tb0, fb0: std/math/bits refuses nbDigits <= 0 / an empty digit list at compile time (the table
//     gives ToBinary(v,0) the meaning v = 0 and FromBinary() the value 0);
//   - tb_k5_n2: ToBinary of a CONSTANT that does not fit n bits returns the low n bits without any
//     constraint (the table demands recompose bits = v).
var deviations = map[string]bool{"tb0": true, "fb0": true, "tb_k5_n2": true}

var bigConst = func() *big.Int {
	n := new(big.Int).Lsh(big.NewInt(1), 256)
	return n.Add(n, big.NewInt(3))
}()

func kinds(s string) []string {
	if s == "" {
		return nil
	}
	return strings.Split(s, " ")
}

func variants() []variant {
	type A = frontend.API
	tb := func(n int) func(api A, in []V) []V {
		return func(api A, in []V) []V { return api.ToBinary(in[0], n) }
	}
	return []variant{
		// const
		{"const_5", nil, 1, func(api A, in []V) []V { return one(5) }, false},
		{"const_big", nil, 1, func(api A, in []V) []V { return one(new(big.Int).Set(bigConst)) }, false},
		// add / sub / mul
		{"add", kinds("f f"), 1, func(api A, in []V) []V { return one(api.Add(in[0], in[1])) }, false},
		{"add_k3", kinds("f"), 1, func(api A, in []V) []V { return one(api.Add(in[0], 3)) }, false},
		{"add3", kinds("f f f"), 1, func(api A, in []V) []V { return one(api.Add(in[0], in[1], in[2])) }, false},
		{"add_xx", kinds("f"), 1, func(api A, in []V) []V { return one(api.Add(in[0], in[0])) }, false},
		{"sub", kinds("f f"), 1, func(api A, in []V) []V { return one(api.Sub(in[0], in[1])) }, false},
		{"sub_1x", kinds("f"), 1, func(api A, in []V) []V { return one(api.Sub(1, in[0])) }, false},
		{"sub_xk5", kinds("f"), 1, func(api A, in []V) []V { return one(api.Sub(in[0], 5)) }, false},
		{"sub_xx", kinds("f"), 1, func(api A, in []V) []V { return one(api.Sub(in[0], in[0])) }, false},
		{"mul", kinds("f f"), 1, func(api A, in []V) []V { return one(api.Mul(in[0], in[1])) }, false},
		{"mul_k7", kinds("f"), 1, func(api A, in []V) []V { return one(api.Mul(in[0], 7)) }, false},
		{"mul_k0", kinds("f"), 1, func(api A, in []V) []V { return one(api.Mul(in[0], 0)) }, false},
		{"mul_xx", kinds("f"), 1, func(api A, in []V) []V { return one(api.Mul(in[0], in[0])) }, false},
		{"mul_lin", kinds("f f"), 1, func(api A, in []V) []V { return one(api.Mul(api.Add(in[0], in[1]), api.Sub(in[0], in[1]))) }, false},
		// select
		{"select", kinds("b f f"), 1, func(api A, in []V) []V { return one(api.Select(in[0], in[1], in[2])) }, false},
		{"select_c0x", kinds("b f"), 1, func(api A, in []V) []V { return one(api.Select(in[0], 0, in[1])) }, false},
		{"select_cx0", kinds("b f"), 1, func(api A, in []V) []V { return one(api.Select(in[0], in[1], 0)) }, false},
		{"select_c1x", kinds("b f"), 1, func(api A, in []V) []V { return one(api.Select(in[0], 1, in[1])) }, false},
		{"select_ck", kinds("b"), 1, func(api A, in []V) []V { return one(api.Select(in[0], 5, 9)) }, false},
		{"select_ckk", kinds("b"), 1, func(api A, in []V) []V { return one(api.Select(in[0], 4, 4)) }, false},
		{"select_1ab", kinds("f f"), 1, func(api A, in []V) []V { return one(api.Select(1, in[0], in[1])) }, false},
		{"select_0ab", kinds("f f"), 1, func(api A, in []V) []V { return one(api.Select(0, in[0], in[1])) }, false},
		{"select_cxx", kinds("b f"), 1, func(api A, in []V) []V { return one(api.Select(in[0], in[1], in[1])) }, false},
		{"select_2ab", kinds("f f"), 1, func(api A, in []V) []V { return one(api.Select(2, in[0], in[1])) }, true},
		// isZero
		{"isZero", kinds("f"), 1, func(api A, in []V) []V { return one(api.IsZero(in[0])) }, false},
		{"isZero_sub", kinds("f f"), 1, func(api A, in []V) []V { return one(api.IsZero(api.Sub(in[0], in[1]))) }, false},
		{"isZero_mul", kinds("f f"), 1, func(api A, in []V) []V { return one(api.IsZero(api.Mul(in[0], in[1]))) }, false},
		{"isZero_isZero", kinds("f"), 1, func(api A, in []V) []V { return one(api.IsZero(api.IsZero(in[0]))) }, false},
		{"isZero_k0", nil, 1, func(api A, in []V) []V { return one(api.IsZero(0)) }, false},
		{"isZero_k5", nil, 1, func(api A, in []V) []V { return one(api.IsZero(5)) }, false},
		// or / xor / and
		{"or", kinds("b b"), 1, func(api A, in []V) []V { return one(api.Or(in[0], in[1])) }, false},
		{"or_x0", kinds("b"), 1, func(api A, in []V) []V { return one(api.Or(in[0], 0)) }, false},
		{"or_x1", kinds("b"), 1, func(api A, in []V) []V { return one(api.Or(in[0], 1)) }, false},
		{"or_0x", kinds("b"), 1, func(api A, in []V) []V { return one(api.Or(0, in[0])) }, false},
		{"or_xx", kinds("b"), 1, func(api A, in []V) []V { return one(api.Or(in[0], in[0])) }, false},
		{"or_x2", kinds("b"), 1, func(api A, in []V) []V { return one(api.Or(in[0], 2)) }, true},
		{"xor", kinds("b b"), 1, func(api A, in []V) []V { return one(api.Xor(in[0], in[1])) }, false},
		{"xor_x0", kinds("b"), 1, func(api A, in []V) []V { return one(api.Xor(in[0], 0)) }, false},
		{"xor_x1", kinds("b"), 1, func(api A, in []V) []V { return one(api.Xor(in[0], 1)) }, false},
		{"xor_1x", kinds("b"), 1, func(api A, in []V) []V { return one(api.Xor(1, in[0])) }, false},
		{"xor_xx", kinds("b"), 1, func(api A, in []V) []V { return one(api.Xor(in[0], in[0])) }, false},
		{"and", kinds("b b"), 1, func(api A, in []V) []V { return one(api.And(in[0], in[1])) }, false},
		{"and_x0", kinds("b"), 1, func(api A, in []V) []V { return one(api.And(in[0], 0)) }, false},
		{"and_x1", kinds("b"), 1, func(api A, in []V) []V { return one(api.And(in[0], 1)) }, false},
		{"and_xx", kinds("b"), 1, func(api A, in []V) []V { return one(api.And(in[0], in[0])) }, false},
		// toBinary
		{"tb0", kinds("t0"), 0, tb(0), true},
		{"tb1", kinds("t1"), 1, tb(1), false},
		{"tb2", kinds("t2"), 2, tb(2), false},
		{"tb3", kinds("t3"), 3, tb(3), false},
		{"tb8", kinds("t8"), 8, tb(8), false},
		{"tb_lin3", kinds("t3 t3"), 3, func(api A, in []V) []V { return api.ToBinary(api.Add(in[0], in[1]), 3) }, false},
		{"tb_k5_n3", nil, 3, func(api A, in []V) []V { return api.ToBinary(5, 3) }, false},
		{"tb_k5_n2", nil, 2, func(api A, in []V) []V { return api.ToBinary(5, 2) }, false},
		// fromBinary
		{"fb0", nil, 1, func(api A, in []V) []V { return one(api.FromBinary()) }, true},
		{"fb1", kinds("b"), 1, func(api A, in []V) []V { return one(api.FromBinary(in[0])) }, false},
		{"fb4", kinds("b b b b"), 1, func(api A, in []V) []V { return one(api.FromBinary(in...)) }, false},
		{"fb_k", kinds("b b"), 1, func(api A, in []V) []V { return one(api.FromBinary(in[0], 1, in[1])) }, false},
		{"fb_dup", kinds("b"), 1, func(api A, in []V) []V { return one(api.FromBinary(in[0], in[0])) }, false},
		{"fb_k2", kinds("b"), 1, func(api A, in []V) []V { return one(api.FromBinary(in[0], 2)) }, true},
		{"fb_tb3", kinds("t3"), 1, func(api A, in []V) []V { return one(api.FromBinary(api.ToBinary(in[0], 3)...)) }, false},
		// assertBool (also on wires gnark has "marked boolean": the constraint is then skipped)
		{"ab", kinds("b"), 0, func(api A, in []V) []V { api.AssertIsBoolean(in[0]); return nil }, false},
		{"ab_twice", kinds("b"), 0, func(api A, in []V) []V { api.AssertIsBoolean(in[0]); api.AssertIsBoolean(in[0]); return nil }, false},
		{"ab_lin", kinds("f f"), 0, func(api A, in []V) []V { api.AssertIsBoolean(api.Add(in[0], in[1])); return nil }, false},
		{"ab_or", kinds("b b"), 1, func(api A, in []V) []V { r := api.Or(in[0], in[1]); api.AssertIsBoolean(r); return one(r) }, false},
		{"ab_xor", kinds("b b"), 1, func(api A, in []V) []V { r := api.Xor(in[0], in[1]); api.AssertIsBoolean(r); return one(r) }, false},
		{"ab_and", kinds("b b"), 1, func(api A, in []V) []V { r := api.And(in[0], in[1]); api.AssertIsBoolean(r); return one(r) }, false},
		{"ab_and_x0", kinds("b"), 1, func(api A, in []V) []V { r := api.And(in[0], 0); api.AssertIsBoolean(r); return one(r) }, false},
		{"ab_isz", kinds("f"), 1, func(api A, in []V) []V { r := api.IsZero(in[0]); api.AssertIsBoolean(r); return one(r) }, false},
		{"ab_sel", kinds("b f f"), 1, func(api A, in []V) []V { r := api.Select(in[0], in[1], in[2]); api.AssertIsBoolean(r); return one(r) }, false},
		{"ab_tbbit", kinds("t3"), 1, func(api A, in []V) []V { bs := api.ToBinary(in[0], 3); api.AssertIsBoolean(bs[1]); return one(bs[1]) }, false},
		{"ab_k2", kinds("f"), 0, func(api A, in []V) []V { api.AssertIsBoolean(2); return nil }, true},
		// assertEq
		{"ae", kinds("f f"), 0, func(api A, in []V) []V { api.AssertIsEqual(in[0], in[1]); return nil }, false},
		{"ae_x1", kinds("f"), 0, func(api A, in []V) []V { api.AssertIsEqual(in[0], 1); return nil }, false},
		{"ae_1x", kinds("f"), 0, func(api A, in []V) []V { api.AssertIsEqual(1, in[0]); return nil }, false},
		{"ae_k34", kinds("f"), 0, func(api A, in []V) []V { api.AssertIsEqual(3, 4); return nil }, false},
		{"ae_k33", kinds("f"), 0, func(api A, in []V) []V { api.AssertIsEqual(3, 3); return nil }, false},
		{"ae_lin", kinds("f f"), 0, func(api A, in []V) []V { api.AssertIsEqual(api.Add(in[0], in[1]), api.Mul(in[0], in[1])); return nil }, false},
		// compositions through "marked boolean" results
		{"sel_or", kinds("b b f f"), 1, func(api A, in []V) []V { return one(api.Select(api.Or(in[0], in[1]), in[2], in[3])) }, false},
		{"sel_isz", kinds("f f f"), 1, func(api A, in []V) []V { return one(api.Select(api.IsZero(in[0]), in[1], in[2])) }, false},
		{"or_and", kinds("b b b"), 1, func(api A, in []V) []V { return one(api.Or(api.And(in[0], in[1]), in[2])) }, false},
		{"xor_xor", kinds("b b b"), 1, func(api A, in []V) []V { return one(api.Xor(api.Xor(in[0], in[1]), in[2])) }, false},
		{"and_isz_or", kinds("f b b"), 1, func(api A, in []V) []V { return one(api.And(api.IsZero(in[0]), api.Or(in[1], in[2]))) }, false},
		{"or_sel", kinds("b f f b"), 1, func(api A, in []V) []V { return one(api.Or(api.Select(in[0], in[1], in[2]), in[3])) }, false},
	}
}

// ---------------------------------------------------------------------------------------------
// the compiled system, as read from gnark's object

type term struct {
	coef *big.Int
	wire int // -1: constant term
}
type lin []term
type r1c struct{ L, R, O lin }
type hintInfo struct {
	kind   string // "NBits" | "InvZero"
	inputs []lin
	wires  []int
}
type sys struct {
	p        *big.Int
	nIn      int // number of In wires; wires 1..nIn, Out wires nIn+1..nIn+nOut
	nOut     int
	nWires   int
	firstInt int // first internal wire
	cons     []r1c
	hints    []hintInfo
	hintOf   map[int]int
	ccs      constraint.ConstraintSystem
}

var nbitsID = r1csx.NBitsID
var invZeroID = r1csx.InvZeroID

func extract(ccs constraint.ConstraintSystem, p *big.Int, nIn, nOut int) *sys {
	var core *constraint.R1CSCore
	var res constraint.Resolver
	switch r := ccs.(type) {
	case *cs_bn254.R1CS:
		core, res = &r.R1CSCore, r
	case *cs_tiny.R1CS:
		core, res = &r.R1CSCore, r
	default:
		panic("unexpected constraint system type")
	}
	if len(core.Public) != 1 || core.Public[0] != "1" {
		panic(fmt.Sprintf("unexpected public wires %v", core.Public))
	}
	if len(core.Secret) != nIn+nOut {
		panic(fmt.Sprintf("unexpected secret wires %v", core.Secret))
	}
	for i, name := range core.Secret {
		want := fmt.Sprintf("In_%d", i)
		if i >= nIn {
			want = fmt.Sprintf("Out_%d", i-nIn)
		}
		if name != want {
			panic(fmt.Sprintf("wire %d is %s, expected %s", i+1, name, want))
		}
	}
	s := &sys{p: p, nIn: nIn, nOut: nOut, ccs: ccs, hintOf: map[int]int{}}
	s.firstInt = 1 + nIn + nOut
	s.nWires = s.firstInt + core.GetNbInternalVariables()
	coefCache := map[int]*big.Int{}
	coef := func(cid int) *big.Int {
		if c, ok := coefCache[cid]; ok {
			return c
		}
		c, ok := new(big.Int).SetString(res.CoeffToString(cid), 10)
		if !ok {
			panic("coefficient " + res.CoeffToString(cid))
		}
		c.Mod(c, p)
		coefCache[cid] = c
		return c
	}
	conv := func(l constraint.LinearExpression) lin {
		out := make(lin, 0, len(l))
		for _, t := range l {
			w := t.WireID()
			if t.IsConstant() {
				w = -1
			} else if w < 0 || w >= s.nWires {
				panic("wire out of range")
			}
			out = append(out, term{coef(t.CoeffID()), w})
		}
		return out
	}
	for _, c := range core.Constraints {
		s.cons = append(s.cons, r1c{conv(c.L), conv(c.R), conv(c.O)})
	}
	seen := map[*constraint.Hint]int{}
	var ws []int
	for w := range core.MHints {
		ws = append(ws, w)
	}
	sort.Ints(ws)
	for _, w := range ws {
		h := core.MHints[w]
		if w < s.firstInt {
			panic("hint output is not an internal wire")
		}
		idx, ok := seen[h]
		if !ok {
			hi := hintInfo{wires: append([]int(nil), h.Wires...)}
			switch h.ID {
			case nbitsID:
				hi.kind = "NBits"
			case invZeroID:
				hi.kind = "InvZero"
			default:
				panic("unknown hint")
			}
			for _, in := range h.Inputs {
				hi.inputs = append(hi.inputs, conv(in))
			}
			idx = len(s.hints)
			s.hints = append(s.hints, hi)
			seen[h] = idx
		}
		s.hintOf[w] = idx
	}
	return s
}

// ---------------------------------------------------------------------------------------------
// evaluator

type state struct {
	val    []*big.Int
	solved []bool
}

func (st *state) clone() *state {
	n := &state{val: make([]*big.Int, len(st.val)), solved: make([]bool, len(st.solved))}
	copy(n.val, st.val)
	copy(n.solved, st.solved)
	return n
}

type candFn func(s *sys, h *hintInfo, inputs []*big.Int) [][]*big.Int

type evalCtx struct {
	s     *sys
	cands candFn
	// freeAll: how to enumerate a non-hint wire that a constraint leaves undetermined (unknown in
	// L or R while the other factor is 0 and O = 0).  Never happens for the ops of the table; counted.
	free     func() []*big.Int
	freeSeen int
}

var tmpA, tmpB = new(big.Int), new(big.Int)

// evalLin: value of the solved part, the unknown non-hint term (if any), count of unknown non-hint
// wires, first unsolved hint (or -1).
func (e *evalCtx) evalLin(l lin, st *state) (sum *big.Int, unk term, nUnk int, needHint int) {
	sum = new(big.Int)
	needHint = -1
	for _, t := range l {
		if t.wire == -1 {
			sum.Add(sum, t.coef)
			continue
		}
		if st.solved[t.wire] {
			tmpA.Mul(t.coef, st.val[t.wire])
			sum.Add(sum, tmpA)
			continue
		}
		if h, ok := e.s.hintOf[t.wire]; ok {
			if needHint == -1 {
				needHint = h
			}
			continue
		}
		if nUnk > 0 && unk.wire == t.wire {
			panic("unknown occurs twice in a linear expression")
		}
		unk = t
		nUnk++
	}
	sum.Mod(sum, e.s.p)
	return
}

func (e *evalCtx) set(st *state, w int, v *big.Int) {
	st.val[w] = new(big.Int).Mod(v, e.s.p)
	st.solved[w] = true
}

// run: process constraints ci.. ; onSat is called on every complete satisfying extension and
// returns true to stop the search.
func (e *evalCtx) run(ci int, st *state, onSat func(*state) bool) bool {
	p := e.s.p
	for ci < len(e.s.cons) {
		c := e.s.cons[ci]
		a, ua, na, ha := e.evalLin(c.L, st)
		b, ub, nb, hb := e.evalLin(c.R, st)
		o, uo, no, ho := e.evalLin(c.O, st)
		h := ha
		if h == -1 {
			h = hb
		}
		if h == -1 {
			h = ho
		}
		if h != -1 {
			// gnark: an unsolved hint wire met while processing a constraint is solved by running the hint
			hi := &e.s.hints[h]
			ins := make([]*big.Int, len(hi.inputs))
			for i, l := range hi.inputs {
				v, _, n, hh := e.evalLin(l, st)
				if n != 0 || hh != -1 {
					panic("hint input not solved (evaluator limitation)")
				}
				ins[i] = v
			}
			for _, cand := range e.cands(e.s, hi, ins) {
				st2 := st.clone()
				for i, w := range hi.wires {
					e.set(st2, w, cand[i])
				}
				if e.run(ci, st2, onSat) {
					return true
				}
			}
			return false
		}
		switch na + nb + no {
		case 0:
			if tmpB.Mul(a, b).Mod(tmpB, p).Cmp(o) != 0 {
				return false
			}
		case 1:
			switch {
			case no == 1:
				// coef*w = a*b - o
				v := new(big.Int).Mul(a, b)
				v.Sub(v, o).Mod(v, p)
				e.set(st, uo.wire, div(v, uo.coef, p))
			default:
				u, other, mine := ua, b, a
				if nb == 1 {
					u, other, mine = ub, a, b
				}
				if other.Sign() != 0 {
					// (mine + coef*w) * other = o
					v := div(o, other, p)
					v.Sub(v, mine).Mod(v, p)
					e.set(st, u.wire, div(v, u.coef, p))
				} else {
					if o.Sign() != 0 {
						return false
					}
					// the wire is left free by its defining constraint
					e.freeSeen++
					for _, v := range e.free() {
						st2 := st.clone()
						e.set(st2, u.wire, v)
						if e.run(ci+1, st2, onSat) {
							return true
						}
					}
					return false
				}
			}
		default:
			panic(fmt.Sprintf("constraint %d has %d unknown wires (evaluator limitation)", ci, na+nb+no))
		}
		ci++
	}
	return onSat(st)
}

func div(a, b, p *big.Int) *big.Int {
	if b.Sign() == 0 {
		panic("division by a zero coefficient")
	}
	inv := new(big.Int).ModInverse(b, p)
	return inv.Mul(inv, a).Mod(inv, p)
}

func (e *evalCtx) initial(ins, outs []*big.Int) *state {
	st := &state{val: make([]*big.Int, e.s.nWires), solved: make([]bool, e.s.nWires)}
	e.set(st, 0, big.NewInt(1))
	for i, v := range ins {
		e.set(st, 1+i, v)
	}
	for i, v := range outs {
		e.set(st, 1+e.s.nIn+i, v)
	}
	return st
}

// decide: is the compiled system satisfiable with these In and Out?
func (e *evalCtx) decide(ins, outs []*big.Int) bool {
	return e.run(0, e.initial(ins, outs), func(*state) bool { return true })
}

// derive: every Out tuple for which the system is satisfiable, obtained by leaving the Out wires
// unknown (each is the lone unknown of its `1 * res = Out` constraint).
func (e *evalCtx) derive(ins []*big.Int, limit int) [][]*big.Int {
	var found [][]*big.Int
	seen := map[string]bool{}
	e.run(0, e.initial(ins, nil), func(st *state) bool {
		outs := make([]*big.Int, e.s.nOut)
		for i := range outs {
			if !st.solved[1+e.s.nIn+i] {
				panic("Out wire not determined")
			}
			outs[i] = st.val[1+e.s.nIn+i]
		}
		k := gen.Csv(outs)
		if !seen[k] {
			seen[k] = true
			found = append(found, outs)
		}
		return limit > 0 && len(found) >= limit
	})
	return found
}

// brute: satisfiable iff some assignment of ALL internal wires over the whole field satisfies
// every constraint (tiny fields only).
func (s *sys) brute(ins, outs []*big.Int) bool {
	p := s.p.Int64()
	val := make([]int64, s.nWires)
	val[0] = 1
	for i, v := range ins {
		val[1+i] = v.Int64()
	}
	for i, v := range outs {
		val[1+s.nIn+i] = v.Int64()
	}
	ev := func(l lin) int64 {
		var sum int64
		for _, t := range l {
			if t.wire == -1 {
				sum += t.coef.Int64()
			} else {
				sum += t.coef.Int64() * val[t.wire]
			}
			sum %= p
		}
		return sum
	}
	var rec func(w int) bool
	rec = func(w int) bool {
		if w == s.nWires {
			for _, c := range s.cons {
				if (ev(c.L)*ev(c.R)-ev(c.O))%p != 0 {
					return false
				}
			}
			return true
		}
		for v := int64(0); v < p; v++ {
			val[w] = v
			if rec(w + 1) {
				return true
			}
		}
		return false
	}
	return rec(s.firstInt)
}

// ---------------------------------------------------------------------------------------------
// hint candidates

func tuples(vals []*big.Int, n int) [][]*big.Int {
	out := [][]*big.Int{{}}
	for i := 0; i < n; i++ {
		var next [][]*big.Int
		for _, t := range out {
			for _, v := range vals {
				nt := append(append([]*big.Int(nil), t...), v)
				next = append(next, nt)
			}
		}
		out = next
	}
	return out
}

func fieldAll(p *big.Int) []*big.Int {
	out := make([]*big.Int, 0, p.Int64())
	for i := int64(0); i < p.Int64(); i++ {
		out = append(out, big.NewInt(i))
	}
	return out
}

// sampled candidates.  NBits: each output wire is asserted boolean by ToBinary, so {0,1}^n contains
// every satisfying choice; a few tuples with a digit 2 / p-1 confirm the others are rejected.
// InvZero (a): the constraints are  -a*x = m-1, a*m = 0.  For a = 0 they do not mention x; for
// a != 0 they force m = 0 hence x = 1/a.  So {0, 1/a} contains a satisfying choice whenever one
// exists; 1, -1 and a random value are added as non-solutions.
func sampledCands(g *gen.G) candFn {
	return func(s *sys, h *hintInfo, ins []*big.Int) [][]*big.Int {
		p := s.p
		switch h.kind {
		case "InvZero":
			out := [][]*big.Int{}
			if ins[0].Sign() != 0 {
				out = append(out, []*big.Int{new(big.Int).ModInverse(ins[0], p)})
			}
			out = append(out, []*big.Int{big.NewInt(0)}, []*big.Int{big.NewInt(1)}, []*big.Int{new(big.Int).Sub(p, big.NewInt(1))}, []*big.Int{g.Below(p)})
			return out
		case "NBits":
			n := len(h.wires)
			// honest first
			honest := make([]*big.Int, n)
			for i := range honest {
				honest[i] = big.NewInt(int64(ins[0].Bit(i)))
			}
			out := [][]*big.Int{honest}
			out = append(out, tuples([]*big.Int{big.NewInt(0), big.NewInt(1)}, n)...)
			for i := 0; i < n; i++ {
				for _, d := range []*big.Int{big.NewInt(2), new(big.Int).Sub(p, big.NewInt(1))} {
					t := append([]*big.Int(nil), honest...)
					t[i] = d
					out = append(out, t)
					if i+1 < n {
						// compensate in the next digit so that the recomposition still matches
						t2 := append([]*big.Int(nil), t...)
						delta := new(big.Int).Sub(honest[i], d) // honest_i - d, to be carried as delta/2 into digit i+1
						half := new(big.Int).ModInverse(big.NewInt(2), p)
						delta.Mul(delta, half).Add(delta, honest[i+1]).Mod(delta, p)
						t2[i+1] = delta
						out = append(out, t2)
					}
				}
			}
			return out
		}
		panic("hint kind")
	}
}

// exhaustive candidates on a tiny field: the whole field for InvZero; F^n for NBits with n <= 2,
// {0,1,2,p-1}^n for n <= 5, and the sampled set beyond.
func exhaustiveCands(g *gen.G) candFn {
	sc := sampledCands(g)
	return func(s *sys, h *hintInfo, ins []*big.Int) [][]*big.Int {
		switch {
		case h.kind == "InvZero":
			return tuples(fieldAll(s.p), 1)
		case len(h.wires) <= 2:
			return tuples(fieldAll(s.p), len(h.wires))
		case len(h.wires) <= 5:
			return tuples([]*big.Int{big.NewInt(0), big.NewInt(1), big.NewInt(2), new(big.Int).Sub(s.p, big.NewInt(1))}, len(h.wires))
		}
		return sc(s, h, ins)
	}
}

// ---------------------------------------------------------------------------------------------
// driver

var stat = map[string]int{}

type compiled struct {
	v   variant
	sys *sys // nil if the builder refused the circuit
}

func compile(v variant, p *big.Int) (res *sys, panicked bool) {
	defer func() {
		if r := recover(); r != nil {
			res, panicked = nil, true
			if *verbose {
				fmt.Fprintf(os.Stderr, "builder panic for %s: %v\n", v.name, r)
			}
		}
	}()
	c := &gateCircuit{In: make([]V, len(v.kinds)), Out: make([]V, v.nOut), def: v.def}
	ccs, err := frontend.Compile(p, r1cs.NewBuilder, c, frontend.IgnoreUnconstrainedInputs())
	if err != nil {
		panic(err)
	}
	return extract(ccs, p, len(v.kinds), v.nOut), false
}

func pickIn(g *gen.G, p *big.Int, kind string) *big.Int {
	pm := func(k int64) *big.Int { return new(big.Int).Mod(new(big.Int).Sub(p, big.NewInt(k)), p) }
	switch {
	case kind == "b":
		switch g.Intn(10) {
		case 0:
			return big.NewInt(2)
		case 1:
			return pm(1)
		case 2:
			return g.Below(p)
		}
		return big.NewInt(int64(g.Intn(2)))
	case kind[0] == 't':
		var n int
		fmt.Sscanf(kind[1:], "%d", &n)
		pow := new(big.Int).Lsh(big.NewInt(1), uint(n))
		switch g.Intn(8) {
		case 0, 1, 2:
			return new(big.Int).Mod(g.Below(pow), p)
		case 3:
			return new(big.Int).Mod(new(big.Int).Add(pow, big.NewInt(int64(g.Intn(3)-1))), p)
		case 4:
			return big.NewInt(0)
		}
	}
	switch g.Intn(9) {
	case 0:
		return big.NewInt(0)
	case 1:
		return big.NewInt(1)
	case 2:
		return new(big.Int).Mod(big.NewInt(2), p)
	case 3:
		return pm(1)
	case 4:
		return pm(2)
	case 5:
		h := new(big.Int).Add(p, big.NewInt(1))
		return h.Rsh(h, 1)
	case 6:
		return new(big.Int).Mod(big.NewInt(int64(3+g.Intn(1000))), p)
	}
	return g.Below(p)
}

func edgeSet(p *big.Int, kind string) []*big.Int {
	pm := func(k int64) *big.Int { return new(big.Int).Mod(new(big.Int).Sub(p, big.NewInt(k)), p) }
	if kind == "b" {
		return []*big.Int{big.NewInt(0), big.NewInt(1), big.NewInt(2), pm(1)}
	}
	h := new(big.Int).Add(p, big.NewInt(1))
	out := []*big.Int{big.NewInt(0), big.NewInt(1), big.NewInt(2), pm(1), pm(2), h.Rsh(h, 1), big.NewInt(5)}
	if kind[0] == 't' {
		var n int
		fmt.Sscanf(kind[1:], "%d", &n)
		pow := new(big.Int).Lsh(big.NewInt(1), uint(n))
		out = append(out, new(big.Int).Mod(pow, p), new(big.Int).Mod(new(big.Int).Sub(pow, big.NewInt(1)), p), new(big.Int).Mod(new(big.Int).Add(pow, big.NewInt(1)), p))
	}
	return out
}

func emitGate(name string, p *big.Int, ins, outs []*big.Int, sat bool) {
	r := "unsat"
	if sat {
		r = "sat"
	}
	stat[name+":"+r]++
	stat["gate"]++
	fmt.Fprintf(gen.Out, "gate\t%s\t%s\t%s\t%s\t=>\t%s\n", name, p, gen.Csv(ins), gen.Csv(outs), r)
}

// outCandidates: the Out tuples tried for given inputs: every derived satisfiable tuple (up to a
// few), each perturbed (+1 at one position), all zeros, all ones, a random tuple.
func outCandidates(g *gen.G, e *evalCtx, ins []*big.Int) [][]*big.Int {
	s := e.s
	if s.nOut == 0 {
		return [][]*big.Int{{}}
	}
	var out [][]*big.Int
	honest := e.derive(ins, 4)
	out = append(out, honest...)
	base := make([]*big.Int, s.nOut)
	for i := range base {
		base[i] = big.NewInt(0)
	}
	if len(honest) > 0 {
		base = honest[0]
	} else {
		stat["no_honest"]++
	}
	pert := append([]*big.Int(nil), base...)
	j := g.Intn(s.nOut)
	pert[j] = new(big.Int).Mod(new(big.Int).Add(pert[j], big.NewInt(1)), s.p)
	out = append(out, pert)
	zeros, ones, rnd := make([]*big.Int, s.nOut), make([]*big.Int, s.nOut), append([]*big.Int(nil), base...)
	for i := range zeros {
		zeros[i], ones[i] = big.NewInt(0), big.NewInt(1)
	}
	rnd[g.Intn(s.nOut)] = g.Below(s.p)
	out = append(out, zeros, ones, rnd)
	return out
}

func toVars(vs []*big.Int) []V {
	out := make([]V, len(vs))
	for i, v := range vs {
		out[i] = new(big.Int).Set(v)
	}
	return out
}

// oneCase: decide, cross-check against gnark's own solver (BN254 only), emit.
func oneCase(c compiled, e *evalCtx, ins, outs []*big.Int, isBN bool) {
	if c.sys == nil {
		// the builder refuses the circuit: no satisfiable instance exists
		stat["compile_refused_case"]++
		emitGate(c.v.name, e.s.p, ins, outs, false)
		return
	}
	sat := e.decide(ins, outs)
	if isBN {
		err := r1csx.Solve(c.sys.ccs, &gateCircuit{In: toVars(ins), Out: toVars(outs)}, nil)
		if err == nil && !sat {
			stat["EVALUATOR_BUG_gnark_accepts_unsat"]++
			fmt.Fprintf(os.Stderr, "gnark's solver accepts an assignment the evaluator calls unsat: %s %s %s\n", c.v.name, gen.Csv(ins), gen.Csv(outs))
		}
		if err != nil && sat {
			stat["sat_only_with_dishonest_hint"]++
		}
	}
	emitGate(c.v.name, e.s.p, ins, outs, sat)
}

func sampled(g *gen.G, p *big.Int, vs []variant, n int, isBN bool) {
	dummy := &sys{p: p}
	for _, v := range vs {
		s, panicked := compile(v, p)
		if panicked != v.panics {
			fmt.Fprintf(os.Stderr, "variant %s over %s: builder panic = %v, expected %v\n", v.name, p, panicked, v.panics)
			stat["UNEXPECTED_builder_behaviour"]++
		}
		if panicked {
			stat["compile_refused_variant"]++
		}
		c := compiled{v, s}
		e := &evalCtx{s: s, cands: sampledCands(g), free: func() []*big.Int {
			return []*big.Int{big.NewInt(0), big.NewInt(1), g.Below(p)}
		}}
		if s == nil {
			e.s = dummy
			dummy.nIn, dummy.nOut = len(v.kinds), v.nOut
		}
		outsFor := func(ins []*big.Int) [][]*big.Int {
			if s == nil {
				o := make([]*big.Int, v.nOut)
				for i := range o {
					o[i] = big.NewInt(int64(g.Intn(2)))
				}
				return [][]*big.Int{o}
			}
			return outCandidates(g, e, ins)
		}
		// edge grid
		sets := make([][]*big.Int, len(v.kinds))
		size := 1
		for i, k := range v.kinds {
			sets[i] = edgeSet(p, k)
			size *= len(sets[i])
		}
		idx := make([]int, len(v.kinds))
		for cnt := 0; cnt < size; cnt++ {
			if size <= 700 || g.Intn(size) < 700 {
				ins := make([]*big.Int, len(v.kinds))
				for i := range ins {
					ins[i] = sets[i][idx[i]]
				}
				for _, outs := range outsFor(ins) {
					oneCase(c, e, ins, outs, isBN)
				}
			}
			for i := range idx {
				idx[i]++
				if idx[i] < len(sets[i]) {
					break
				}
				idx[i] = 0
			}
		}
		// random
		for k := 0; k < n; k++ {
			ins := make([]*big.Int, len(v.kinds))
			for i, kd := range v.kinds {
				ins[i] = pickIn(g, p, kd)
				if i > 0 && g.Chance(1, 4) {
					ins[i] = ins[g.Intn(i)]
				}
			}
			for _, outs := range outsFor(ins) {
				oneCase(c, e, ins, outs, isBN)
			}
		}
		if e.freeSeen > 0 {
			stat["free_wire_events"] += e.freeSeen
		}
	}
}

// exhaustive: every input tuple of the 47-element field; for each the set of ALL satisfiable Out
// tuples, obtained by trying every Out tuple (when affordable) and by derivation, which must agree;
// on a sub-grid also the brute force over all internal wires.
func exhaustive(g *gen.G, vs []variant) {
	p := big.NewInt(47)
	F := fieldAll(p)
	for _, v := range vs {
		if v.panics || len(v.kinds) > 3 || v.nOut > 2 {
			continue
		}
		s, panicked := compile(v, p)
		if panicked {
			fmt.Fprintf(os.Stderr, "variant %s: unexpected builder panic over tinyfield\n", v.name)
			stat["UNEXPECTED_builder_behaviour"]++
			continue
		}
		e := &evalCtx{s: s, cands: exhaustiveCands(g), free: func() []*big.Int { return F }}
		nInt := s.nWires - s.firstInt
		hintSpace := 1
		for _, h := range s.hints {
			for range h.wires {
				hintSpace *= 47
			}
		}
		inSpace := 1
		for range v.kinds {
			inSpace *= 47
		}
		outSpace := 1
		for i := 0; i < v.nOut; i++ {
			outSpace *= 47
		}
		explicit := inSpace*outSpace*hintSpace <= 12_000_000
		bruteSpace := 1
		for i := 0; i < nInt; i++ {
			bruteSpace *= 47
			if bruteSpace > 1<<40 {
				break
			}
		}
		outTuples := tuples(F, v.nOut)
		for _, ins := range tuples(F, len(v.kinds)) {
			derived := e.derive(ins, 0)
			dset := map[string]bool{}
			for _, o := range derived {
				dset[gen.Csv(o)] = true
			}
			var satList []string
			if explicit {
				for _, outs := range outTuples {
					sat := e.decide(ins, outs)
					if sat != dset[gen.Csv(outs)] {
						stat["EVALUATOR_BUG_derive_vs_decide"]++
						fmt.Fprintf(os.Stderr, "derive/decide disagree: %s %s %s\n", v.name, gen.Csv(ins), gen.Csv(outs))
					}
					if sat {
						satList = append(satList, gen.Csv(outs))
					}
				}
				stat["tiny_explicit_assignments"] += len(outTuples)
			} else {
				for _, outs := range outTuples {
					if dset[gen.Csv(outs)] {
						satList = append(satList, gen.Csv(outs))
					}
				}
				stat["tiny_derived_inputs"]++
			}
			// brute force over all internal wires on a sub-grid of inputs (all inputs when cheap)
			small := true
			for _, x := range ins {
				xi := x.Int64()
				if !(xi <= 3 || xi >= 44 || xi == 23 || xi == 24) {
					small = false
				}
			}
			if bruteSpace*outSpace*inSpace <= 6_000_000 || (small && bruteSpace*outSpace <= 120_000) {
				for _, outs := range outTuples {
					if s.brute(ins, outs) != dset[gen.Csv(outs)] {
						stat["EVALUATOR_BUG_brute_vs_propagation"]++
						fmt.Fprintf(os.Stderr, "brute/propagation disagree: %s %s %s\n", v.name, gen.Csv(ins), gen.Csv(outs))
					}
					stat["tiny_brute_assignments"]++
				}
			}
			stat["gateall"]++
			stat["gateall:"+v.name]++
			fmt.Fprintf(gen.Out, "gateall\t%s\t47\t%d\t%s\t=>\t%d:%s\n", v.name, v.nOut, gen.Csv(ins), len(satList), strings.Join(satList, "|"))
		}
		if e.freeSeen > 0 {
			stat["free_wire_events"] += e.freeSeen
		}
	}
}

func dump(vs []variant, p *big.Int) {
	for _, v := range vs {
		s, panicked := compile(v, p)
		if panicked {
			fmt.Fprintf(gen.Out, "%s: builder panics\n", v.name)
			continue
		}
		fmt.Fprintf(gen.Out, "%s: wires=%d (in %d, out %d, internal %d) hints=%d\n", v.name, s.nWires, s.nIn, s.nOut, s.nWires-s.firstInt, len(s.hints))
		show := func(l lin) string {
			var parts []string
			for _, t := range l {
				c := t.coef.String()
				if new(big.Int).Sub(p, t.coef).Cmp(big.NewInt(1000)) < 0 {
					c = "-" + new(big.Int).Sub(p, t.coef).String()
				}
				if t.wire == -1 {
					parts = append(parts, c)
				} else {
					parts = append(parts, fmt.Sprintf("%s*w%d", c, t.wire))
				}
			}
			return "(" + strings.Join(parts, " + ") + ")"
		}
		for _, c := range s.cons {
			fmt.Fprintf(gen.Out, "   %s * %s = %s\n", show(c.L), show(c.R), show(c.O))
		}
		for _, h := range s.hints {
			fmt.Fprintf(gen.Out, "   hint %s inputs %s -> wires %v\n", h.kind, show(h.inputs[0]), h.wires)
		}
	}
}

var verbose = flag.Bool("v", false, "print builder panics")

func main() {
	seed := flag.Int64("seed", 1, "seed")
	n := flag.Int("n", 40, "random cases per variant and field (on top of the edge grid)")
	exh := flag.Bool("exhaustive", false, "also enumerate every input / Out / hint value of the 47-element field (scalar ops)")
	only := flag.String("only", "", "comma-separated variant names")
	doDump := flag.Bool("dump", false, "print the compiled constraints of every variant over BN254 and exit")
	dev := flag.Bool("deviations", false, "include the variants on which gnark's R1CS builder is known to deviate from the gate table (documented in GateCmd.lean): ToBinary(x,0) and FromBinary() are refused by the builder, ToBinary(constant,n) truncates silently")
	flag.Parse()
	g := gen.New(*seed)
	vs := variants()
	if !*dev {
		var f []variant
		for _, v := range vs {
			if deviations[v.name] {
				stat["known_deviation_variants_skipped"]++
				continue
			}
			f = append(f, v)
		}
		vs = f
	}
	if *only != "" {
		keep := map[string]bool{}
		for _, k := range strings.Split(*only, ",") {
			keep[k] = true
		}
		var f []variant
		for _, v := range vs {
			if keep[v.name] {
				f = append(f, v)
			}
		}
		vs = f
	}
	if *doDump {
		dump(vs, gen.BN254)
		return
	}
	sampled(g, gen.BN254, vs, *n, true)
	sampled(g, big.NewInt(47), vs, *n, false)
	if *exh {
		exhaustive(g, vs)
	}
	stat["variants"] = len(vs)
	keys := make([]string, 0, len(stat))
	for k := range stat {
		keys = append(keys, k)
	}
	sort.Strings(keys)
	fmt.Fprintf(os.Stderr, "{")
	for i, k := range keys {
		if i > 0 {
			fmt.Fprintf(os.Stderr, ",")
		}
		fmt.Fprintf(os.Stderr, "%q:%d", k, stat[k])
	}
	fmt.Fprintf(os.Stderr, "}\n")
}
