package main

import (
	"fmt"
	"go/ast"
	"go/parser"
	"go/token"
	"io"
	"os"
	"path/filepath"
	"sort"
	"strings"
)

// astFacts prints, as Lean definitions, the package-level variables of the service packages, the
// functions that assign to them, assignments to fields of method receivers in package server,
// and the call sites of logging.SetJSONOutput.  Name-based (no type checking): a local variable
// shadowing a package-level name would be reported as a write, which errs on the safe side.
func astFacts(out io.Writer) {
	root := os.Getenv("VERIF_REPO")
	if root == "" {
		root = "/repo"
	}
	dirs := []string{".", "server", "server/wrapped_http", "prover", "prover/keccak", "prover/poseidon", "logging", "poseidon_tree"}
	type write struct{ pkg, v, fn string }
	var vars [][2]string
	var varKinds [][3]string // (package, name, "literal" | "other"): literal = initialised by basic literals only
	var writes []write
	var recvWrites [][3]string
	var jsonCallers [][2]string
	var shutdownCalls [][2]string // (function, rendered call) for Shutdown / Close calls in package server
	var serverLits [][2]string    // (function, Handler expression) of every http.Server composite literal in package server
	var handleCalls [][2]string   // (function, rendered call) of every <mux>.Handle(...) call in package server
	var compileCalls [][]string   // function followed by the rendered arguments of every frontend.Compile call in package prover
	var chain []string            // promhttp instrumentation chain in wrapped_http (outermost first, then the innermost argument)
	for _, d := range dirs {
		fset := token.NewFileSet()
		pkgs, err := parser.ParseDir(fset, filepath.Join(root, d), func(fi os.FileInfo) bool { return !strings.HasSuffix(fi.Name(), "_test.go") }, 0)
		if err != nil {
			fmt.Fprintf(os.Stderr, "parse %s: %v\n", d, err)
			os.Exit(1)
		}
		for pname, pkg := range pkgs {
			names := map[string]bool{}
			for _, f := range pkg.Files {
				for _, decl := range f.Decls {
					if gd, ok := decl.(*ast.GenDecl); ok && gd.Tok == token.VAR {
						for _, sp := range gd.Specs {
							vs := sp.(*ast.ValueSpec)
							for k, n := range vs.Names {
								if n.Name != "_" {
									names[n.Name] = true
									vars = append(vars, [2]string{pname, n.Name})
									kind := "other"
									if k < len(vs.Values) && literalData(vs.Values[k]) {
										kind = "literal"
									}
									varKinds = append(varKinds, [3]string{pname, n.Name, kind})
								}
							}
						}
					}
				}
			}
			for _, f := range pkg.Files {
				for _, decl := range f.Decls {
					fd, ok := decl.(*ast.FuncDecl)
					if !ok || fd.Body == nil {
						continue
					}
					recv := ""
					if fd.Recv != nil && len(fd.Recv.List) == 1 && len(fd.Recv.List[0].Names) == 1 {
						recv = fd.Recv.List[0].Names[0].Name
					}
					rootIdent := func(e ast.Expr) (string, bool) {
						sel := false
						for {
							switch t := e.(type) {
							case *ast.Ident:
								return t.Name, sel
							case *ast.SelectorExpr:
								e, sel = t.X, true
							case *ast.IndexExpr:
								e, sel = t.X, true
							case *ast.StarExpr:
								e = t.X
							case *ast.ParenExpr:
								e = t.X
							default:
								return "", sel
							}
						}
					}
					note := func(lhs ast.Expr) {
						id, viaSel := rootIdent(lhs)
						if names[id] {
							writes = append(writes, write{pname, id, fd.Name.Name})
						}
						if recv != "" && id == recv && viaSel && pname == "server" {
							recvWrites = append(recvWrites, [3]string{pname, fd.Name.Name, exprString(lhs)})
						}
					}
					ast.Inspect(fd.Body, func(n ast.Node) bool {
						switch t := n.(type) {
						case *ast.AssignStmt:
							if t.Tok != token.DEFINE {
								for _, l := range t.Lhs {
									note(l)
								}
							}
						case *ast.IncDecStmt:
							note(t.X)
						case *ast.CompositeLit:
							if pname == "server" && strings.HasSuffix(exprString(t.Type), "http.Server") {
								h := "<none>"
								for _, el := range t.Elts {
									if kv, ok := el.(*ast.KeyValueExpr); ok && exprString(kv.Key) == "Handler" {
										h = callString(kv.Value)
									}
								}
								serverLits = append(serverLits, [2]string{fd.Name.Name, h})
							}
						case *ast.CallExpr:
							if se, ok := t.Fun.(*ast.SelectorExpr); ok && pname == "server" && se.Sel.Name == "Handle" {
								handleCalls = append(handleCalls, [2]string{fd.Name.Name, callString(t)})
							}
							if se, ok := t.Fun.(*ast.SelectorExpr); ok && pname == "wrapped_http" && fd.Name.Name == "Handle" &&
								strings.HasPrefix(se.Sel.Name, "InstrumentHandler") && len(chain) == 0 {
								// walk the nested calls: each wrapper takes (collector, next)
								var cur ast.Expr = t
								for {
									c, ok := cur.(*ast.CallExpr)
									if !ok {
										chain = append(chain, exprString(cur))
										break
									}
									chain = append(chain, exprString(c.Fun))
									if len(c.Args) == 0 {
										break
									}
									cur = c.Args[len(c.Args)-1]
								}
							}
							if se, ok := t.Fun.(*ast.SelectorExpr); ok && pname == "prover" && se.Sel.Name == "Compile" && exprString(se.X) == "frontend" {
								row := []string{fd.Name.Name}
								for _, a := range t.Args {
									s := callString(a)
									if t.Ellipsis.IsValid() && a == t.Args[len(t.Args)-1] {
										s += "..."
									}
									row = append(row, s)
								}
								compileCalls = append(compileCalls, row)
							}
							if se, ok := t.Fun.(*ast.SelectorExpr); ok && se.Sel.Name == "SetJSONOutput" {
								jsonCallers = append(jsonCallers, [2]string{pname, fd.Name.Name})
							}
							if se, ok := t.Fun.(*ast.SelectorExpr); ok && pname == "server" &&
								(se.Sel.Name == "Shutdown" || se.Sel.Name == "Close" || se.Sel.Name == "RegisterOnShutdown" || se.Sel.Name == "SetKeepAlivesEnabled") {
								args := ""
								for i, a := range t.Args {
									if i > 0 {
										args += ", "
									}
									args += callString(a)
								}
								shutdownCalls = append(shutdownCalls, [2]string{fd.Name.Name, exprString(se.X) + "." + se.Sel.Name + "(" + args + ")"})
							}
						}
						return true
					})
				}
			}
		}
	}
	sort.Slice(vars, func(i, j int) bool { return vars[i][0]+vars[i][1] < vars[j][0]+vars[j][1] })
	fmt.Fprintf(out, "/-- (package, name) of every package-level variable of the service packages -/\ndef packageVars : List (String × String) :=\n  [")
	for i, v := range vars {
		if i > 0 {
			fmt.Fprint(out, ", ")
		}
		fmt.Fprintf(out, "(%q, %q)", v[0], v[1])
	}
	sort.Slice(varKinds, func(i, j int) bool { return varKinds[i][0]+varKinds[i][1] < varKinds[j][0]+varKinds[j][1] })
	fmt.Fprintf(out, "]\n\n/-- (package, name, kind) of the same variables: kind is \"literal\" when the initialiser is a basic literal or a\nslice/array literal of basic literals (plain data), \"other\" for everything else (pools, maps, structs, calls, no initialiser) -/\ndef packageVarKinds : List (String × String × String) :=\n  [")
	for i, v := range varKinds {
		if i > 0 {
			fmt.Fprint(out, ", ")
		}
		fmt.Fprintf(out, "(%q, %q, %q)", v[0], v[1], v[2])
	}
	fmt.Fprintf(out, "]\n\n/-- (package, variable, function) for every assignment to a package-level variable inside a function -/\ndef packageVarWrites : List (String × String × String) :=\n  [")
	for i, w := range writes {
		if i > 0 {
			fmt.Fprint(out, ", ")
		}
		fmt.Fprintf(out, "(%q, %q, %q)", w.pkg, w.v, w.fn)
	}
	fmt.Fprintf(out, "]\n\n/-- (package, method, target) for every assignment through a method receiver in package server -/\ndef receiverWrites : List (String × String × String) :=\n  [")
	for i, w := range recvWrites {
		if i > 0 {
			fmt.Fprint(out, ", ")
		}
		fmt.Fprintf(out, "(%q, %q, %q)", w[0], w[1], w[2])
	}
	fmt.Fprintf(out, "]\n\n/-- (package, function) of every call of logging.SetJSONOutput -/\ndef setJSONOutputCallers : List (String × String) :=\n  [")
	for i, w := range jsonCallers {
		if i > 0 {
			fmt.Fprint(out, ", ")
		}
		fmt.Fprintf(out, "(%q, %q)", w[0], w[1])
	}
	fmt.Fprintf(out, "]\n\n/-- (function, call) for every Shutdown / Close / RegisterOnShutdown / SetKeepAlivesEnabled call in package server -/\ndef serverShutdownCalls : List (String × String) :=\n  [")
	for i, w := range shutdownCalls {
		if i > 0 {
			fmt.Fprint(out, ", ")
		}
		fmt.Fprintf(out, "(%q, %q)", w[0], w[1])
	}
	fmt.Fprintf(out, "]\n\n/-- (function, Handler expression) of every http.Server literal in package server -/\ndef httpServerHandlers : List (String × String) :=\n  [")
	for i, w := range serverLits {
		if i > 0 {
			fmt.Fprint(out, ", ")
		}
		fmt.Fprintf(out, "(%q, %q)", w[0], w[1])
	}
	fmt.Fprintf(out, "]\n\n/-- (function, call) of every mux Handle call in package server -/\ndef muxHandleCalls : List (String × String) :=\n  [")
	for i, w := range handleCalls {
		if i > 0 {
			fmt.Fprint(out, ", ")
		}
		fmt.Fprintf(out, "(%q, %q)", w[0], w[1])
	}
	fmt.Fprintf(out, "]\n\n/-- promhttp wrappers applied by wrapped_http.Handle, outermost first, ending with the wrapped handler;\nthe flag says whether the name starts with promhttp.InstrumentHandler -/\ndef instrumentationChain : List (String × Bool) :=\n  [")
	for i, w := range chain {
		if i > 0 {
			fmt.Fprint(out, ", ")
		}
		fmt.Fprintf(out, "(%q, %v)", w, strings.HasPrefix(w, "promhttp.InstrumentHandler"))
	}
	fmt.Fprintf(out, "]\n\n/-- (function, arguments) of every frontend.Compile call in package prover -/\ndef compileCalls : List (String × List String) :=\n  [")
	sort.Slice(compileCalls, func(i, j int) bool { return compileCalls[i][0] < compileCalls[j][0] })
	for i, w := range compileCalls {
		if i > 0 {
			fmt.Fprint(out, ", ")
		}
		fmt.Fprintf(out, "(%q, [", w[0])
		for k, a := range w[1:] {
			if k > 0 {
				fmt.Fprint(out, ", ")
			}
			fmt.Fprintf(out, "%q", a)
		}
		fmt.Fprint(out, "])")
	}
	fmt.Fprintf(out, "]\n\n")
}

// literalData: a basic literal, or a slice/array composite literal (not a map, not a struct) whose
// elements are all basic literals.
func literalData(e ast.Expr) bool {
	switch t := e.(type) {
	case *ast.BasicLit:
		return true
	case *ast.CompositeLit:
		if _, ok := t.Type.(*ast.ArrayType); !ok {
			return false
		}
		for _, el := range t.Elts {
			if _, ok := el.(*ast.BasicLit); !ok {
				return false
			}
		}
		return true
	}
	return false
}

func callString(e ast.Expr) string {
	if c, ok := e.(*ast.CallExpr); ok {
		args := ""
		for i, a := range c.Args {
			if i > 0 {
				args += ", "
			}
			args += callString(a)
		}
		return exprString(c.Fun) + "(" + args + ")"
	}
	return exprString(e)
}

func exprString(e ast.Expr) string {
	switch t := e.(type) {
	case *ast.Ident:
		return t.Name
	case *ast.SelectorExpr:
		return exprString(t.X) + "." + t.Sel.Name
	case *ast.IndexExpr:
		return exprString(t.X) + "[]"
	case *ast.StarExpr:
		return "*" + exprString(t.X)
	case *ast.BasicLit:
		return t.Value
	case *ast.CompositeLit:
		return exprString(t.Type) + "{…}"
	case *ast.UnaryExpr:
		return t.Op.String() + exprString(t.X)
	case *ast.CallExpr:
		return callString(t)
	}
	return "?"
}
