// Command corr16 generates differential-test cases for the parameter-JSON codec of
// /repo/prover/marshal.go (property C16) and prints, for each case, the input line of the
// Lean driver protocol (`driver c16`) and the result computed with the REAL code:
//
//	<input line>\t=>\t<result line>
//
// Ops (fields separated by TAB):
//
//	fromhex <hexutf8>   ok <decimal> | err        big.Int.SetString(s, 0) called directly; when s is valid
//	                                              UTF-8 the result is cross-checked against the unexported
//	                                              prover.fromHex reached through InsertionParameters.UnmarshalJSON
//	                                              of a minimal document (panic on disagreement).
//	tohex   <decimal>   the string                real toHex reached through InsertionParameters.MarshalJSON
//	decins  <hexutf8>   ok <canonical> | err <class>   json.Unmarshal(doc, &prover.InsertionParameters{})
//	decdel  <hexutf8>   likewise for DeletionParameters
//	encins  <canonical> hexutf8 of json.Marshal(&prover.InsertionParameters{...})
//	encdel  <canonical> likewise
//
// Error classes: syntax (*json.SyntaxError), type (*json.UnmarshalTypeError whose Value is a JSON
// kind), range (*json.UnmarshalTypeError whose Value is "number <literal>"), invalid ("invalid number: …").
//
// All randomness comes from one math/rand source seeded by -seed.
package main

import (
	"bytes"
	"encoding/hex"
	"encoding/json"
	"errors"
	"flag"
	"fmt"
	"math/big"
	"math/rand"
	"os"
	"strings"
	"unicode/utf8"

	"worldcoin/gnark-mbu/prover"
)

var rng *rand.Rand

var (
	rMod, _ = new(big.Int).SetString("21888242871839275222246405745257275088548364400416034343698204186575808495617", 10)
	one     = big.NewInt(1)
)

// ---------- values ----------

func genValue() *big.Int {
	switch rng.Intn(12) {
	case 0:
		return big.NewInt(0)
	case 1:
		return big.NewInt(1)
	case 2:
		return new(big.Int).Sub(rMod, one)
	case 3:
		return new(big.Int).Set(rMod)
	case 4:
		return new(big.Int).Sub(new(big.Int).Lsh(one, 256), one)
	case 5:
		return new(big.Int).Lsh(one, 255)
	case 6:
		return big.NewInt(int64(rng.Intn(1000)))
	case 7:
		return new(big.Int).Add(rMod, big.NewInt(int64(rng.Intn(1000))))
	case 8:
		if rng.Intn(6) == 0 { // negative: outside the property's quantifier, but the model covers it
			return big.NewInt(-int64(rng.Intn(300)))
		}
		return big.NewInt(int64(rng.Intn(17)))
	default:
		n := 1 + rng.Intn(40)
		b := make([]byte, n)
		rng.Read(b)
		for i := 0; i < rng.Intn(4) && i < n; i++ { // leading zero bytes
			b[i] = 0
		}
		return new(big.Int).SetBytes(b)
	}
}

func genIndex() uint32 {
	switch rng.Intn(5) {
	case 0:
		return 0
	case 1:
		return 1
	case 2:
		return 0xFFFFFFFF
	case 3:
		return uint32(rng.Intn(100))
	default:
		return rng.Uint32()
	}
}

type shape struct {
	ids   []*big.Int
	mps   [][]*big.Int
	idx   []uint32 // deletion only; nil allowed
	ih    *big.Int
	pre   *big.Int
	post  *big.Int
	start uint32
}

func genShape() shape {
	var s shape
	s.ih, s.pre, s.post = genValue(), genValue(), genValue()
	s.start = genIndex()
	batch := rng.Intn(6)
	depth := rng.Intn(6)
	ragged := rng.Intn(4) == 0
	s.ids = make([]*big.Int, batch)
	for i := range s.ids {
		s.ids[i] = genValue()
	}
	nmp := batch
	if ragged {
		nmp = rng.Intn(6)
	}
	s.mps = make([][]*big.Int, nmp)
	for i := range s.mps {
		d := depth
		if ragged {
			d = rng.Intn(6)
		}
		s.mps[i] = make([]*big.Int, d)
		for j := range s.mps[i] {
			s.mps[i][j] = genValue()
		}
	}
	switch rng.Intn(8) {
	case 0:
		s.idx = nil
	case 1:
		s.idx = []uint32{}
	default:
		n := batch
		if ragged {
			n = rng.Intn(6)
		}
		s.idx = make([]uint32, n)
		for i := range s.idx {
			s.idx[i] = genIndex()
		}
	}
	return s
}

func bigs(xs []*big.Int) []big.Int {
	out := make([]big.Int, len(xs))
	for i, x := range xs {
		out[i].Set(x)
	}
	return out
}

func (s shape) ins() prover.InsertionParameters {
	p := prover.InsertionParameters{StartIndex: s.start}
	p.InputHash.Set(s.ih)
	p.PreRoot.Set(s.pre)
	p.PostRoot.Set(s.post)
	p.IdComms = bigs(s.ids)
	p.MerkleProofs = make([][]big.Int, len(s.mps))
	for i := range s.mps {
		p.MerkleProofs[i] = bigs(s.mps[i])
	}
	return p
}

func (s shape) del() prover.DeletionParameters {
	p := prover.DeletionParameters{DeletionIndices: s.idx}
	p.InputHash.Set(s.ih)
	p.PreRoot.Set(s.pre)
	p.PostRoot.Set(s.post)
	p.IdComms = bigs(s.ids)
	p.MerkleProofs = make([][]big.Int, len(s.mps))
	for i := range s.mps {
		p.MerkleProofs[i] = bigs(s.mps[i])
	}
	return p
}

// ---------- canonical form ----------

func canonInts(xs []big.Int) string {
	parts := make([]string, len(xs))
	for i := range xs {
		parts[i] = xs[i].String()
	}
	return strings.Join(parts, ",")
}

func canonRows(xss [][]big.Int) string {
	parts := make([]string, len(xss))
	for i := range xss {
		if len(xss[i]) == 0 {
			parts[i] = "-"
		} else {
			parts[i] = canonInts(xss[i])
		}
	}
	return strings.Join(parts, "|")
}

func canonIdx(xs []uint32) string {
	if xs == nil {
		return "nil"
	}
	if len(xs) == 0 {
		return "empty"
	}
	parts := make([]string, len(xs))
	for i := range xs {
		parts[i] = fmt.Sprint(xs[i])
	}
	return strings.Join(parts, ",")
}

func canonIns(p *prover.InsertionParameters) string {
	return fmt.Sprintf("ih=%s;si=%d;pre=%s;post=%s;ids=%s;mp=%s", p.InputHash.String(), p.StartIndex,
		p.PreRoot.String(), p.PostRoot.String(), canonInts(p.IdComms), canonRows(p.MerkleProofs))
}

func canonDel(p *prover.DeletionParameters) string {
	return fmt.Sprintf("ih=%s;idx=%s;pre=%s;post=%s;ids=%s;mp=%s", p.InputHash.String(), canonIdx(p.DeletionIndices),
		p.PreRoot.String(), p.PostRoot.String(), canonInts(p.IdComms), canonRows(p.MerkleProofs))
}

// ---------- real-code oracles ----------

func classify(err error) string {
	var se *json.SyntaxError
	var te *json.UnmarshalTypeError
	switch {
	case errors.As(err, &se):
		return "syntax"
	case errors.As(err, &te):
		if strings.HasPrefix(te.Value, "number ") {
			return "range"
		}
		return "type"
	case strings.HasPrefix(err.Error(), "invalid number: "):
		return "invalid"
	}
	return "other:" + err.Error()
}

// scribble overwrites numbers in place, as the holder of a decoded value may (the exported
// ComputeInputHash* helpers do exactly this to InputHash): SetBytes / Add reuse the words the
// decoder allocated.  A later decode of the same text must not be affected.
func scribble(xs ...*big.Int) {
	pat := bytes.Repeat([]byte{0xa5}, 32)
	for _, x := range xs {
		x.SetBytes(pat)
		x.Add(x, big.NewInt(1))
	}
}

func insNumbers(u *prover.InsertionParameters) []*big.Int {
	out := []*big.Int{&u.InputHash, &u.PreRoot, &u.PostRoot}
	for i := range u.IdComms {
		out = append(out, &u.IdComms[i])
	}
	for i := range u.MerkleProofs {
		for j := range u.MerkleProofs[i] {
			out = append(out, &u.MerkleProofs[i][j])
		}
	}
	return out
}

func delNumbers(u *prover.DeletionParameters) []*big.Int {
	out := []*big.Int{&u.InputHash, &u.PreRoot, &u.PostRoot}
	for i := range u.IdComms {
		out = append(out, &u.IdComms[i])
	}
	for i := range u.MerkleProofs {
		for j := range u.MerkleProofs[i] {
			out = append(out, &u.MerkleProofs[i][j])
		}
	}
	return out
}

func goDecIns(doc []byte) (res string) {
	defer func() {
		if r := recover(); r != nil {
			res = fmt.Sprintf("panic %v", r)
		}
	}()
	var p prover.InsertionParameters
	if err := json.Unmarshal(doc, &p); err != nil {
		return "err " + classify(err)
	}
	// the same document decoded into a value that has been used before (it holds the previous
	// complete document): decoding must not depend on what the target held
	if hasAll(doc, "inputHash", "startIndex", "preRoot", "postRoot", "identityCommitments", "merkleProofs") {
		if prevIns != nil {
			var q prover.InsertionParameters
			if json.Unmarshal(prevIns, &q) == nil {
				if err := json.Unmarshal(doc, &q); err != nil || canonIns(&q) != canonIns(&p) {
					return fmt.Sprintf("ok-into-a-fresh-value-but-not-into-a-used-one: fresh=%s used=%s err=%v", canonIns(&p), canonIns(&q), err)
				}
			}
		}
		prevIns = append([]byte{}, doc...)
	}
	// the holder of an earlier result changes its numbers in place (also through the repository's
	// own ComputeInputHashInsertion); the same text decoded afterwards must still give the same value
	{
		var u, w prover.InsertionParameters
		if json.Unmarshal(doc, &u) == nil {
			func() {
				defer func() { recover() }() // values the helper cannot pack (wider than 32 bytes) are not this class's business
				u.ComputeInputHashInsertion()
			}()
			scribble(insNumbers(&u)...)
			if err := json.Unmarshal(doc, &w); err != nil || canonIns(&w) != canonIns(&p) {
				return fmt.Sprintf("ok-but-the-same-text-decodes-differently-after-an-earlier-result-was-changed-in-place: first=%s later=%s err=%v", canonIns(&p), canonIns(&w), err)
			}
		}
	}
	// a value decoded earlier belongs to its holder: decoding another document elsewhere must not
	// change it
	if heldIns != nil && canonIns(heldIns) != heldInsCanon {
		return fmt.Sprintf("ok-but-a-value-decoded-earlier-changed: was=%s now=%s", heldInsCanon, canonIns(heldIns))
	}
	heldIns, heldInsCanon = &p, canonIns(&p)
	return "ok " + canonIns(&p)
}

var heldIns *prover.InsertionParameters
var heldDel *prover.DeletionParameters
var heldInsCanon, heldDelCanon string

var prevIns, prevDel []byte

func hasAll(doc []byte, keys ...string) bool {
	for _, k := range keys {
		if !strings.Contains(string(doc), `"`+k+`"`) {
			return false
		}
	}
	return true
}

func goDecDel(doc []byte) (res string) {
	defer func() {
		if r := recover(); r != nil {
			res = fmt.Sprintf("panic %v", r)
		}
	}()
	var p prover.DeletionParameters
	if err := json.Unmarshal(doc, &p); err != nil {
		return "err " + classify(err)
	}
	if hasAll(doc, "inputHash", "deletionIndices", "preRoot", "postRoot", "identityCommitments", "merkleProofs") {
		if prevDel != nil {
			var q prover.DeletionParameters
			if json.Unmarshal(prevDel, &q) == nil {
				if err := json.Unmarshal(doc, &q); err != nil || canonDel(&q) != canonDel(&p) {
					return fmt.Sprintf("ok-into-a-fresh-value-but-not-into-a-used-one: fresh=%s used=%s err=%v", canonDel(&p), canonDel(&q), err)
				}
			}
		}
		prevDel = append([]byte{}, doc...)
	}
	{
		var u, w prover.DeletionParameters
		if json.Unmarshal(doc, &u) == nil {
			func() {
				defer func() { recover() }()
				u.ComputeInputHashDeletion()
			}()
			scribble(delNumbers(&u)...)
			if err := json.Unmarshal(doc, &w); err != nil || canonDel(&w) != canonDel(&p) {
				return fmt.Sprintf("ok-but-the-same-text-decodes-differently-after-an-earlier-result-was-changed-in-place: first=%s later=%s err=%v", canonDel(&p), canonDel(&w), err)
			}
		}
	}
	if heldDel != nil && canonDel(heldDel) != heldDelCanon {
		return fmt.Sprintf("ok-but-a-value-decoded-earlier-changed: was=%s now=%s", heldDelCanon, canonDel(heldDel))
	}
	heldDel, heldDelCanon = &p, canonDel(&p)
	return "ok " + canonDel(&p)
}

func goFromHex(s string) string {
	z, ok := new(big.Int).SetString(s, 0)
	res := "err"
	if ok {
		res = "ok " + z.String()
	}
	if utf8.ValidString(s) {
		// cross-check through the real (unexported) prover.fromHex
		q, _ := json.Marshal(s)
		doc := []byte(`{"inputHash":` + string(q) + `,"preRoot":"0","postRoot":"0"}`)
		var p prover.InsertionParameters
		err := p.UnmarshalJSON(doc)
		via := "err"
		if err == nil {
			via = "ok " + p.InputHash.String()
		} else if classify(err) != "invalid" {
			via = "err-unexpected-class:" + classify(err)
		}
		// the repository's own fromHex is the code under test: report what IT does (math/big's
		// SetString is only what the unchanged code happens to delegate to)
		return via
	}
	return res
}

func goToHex(v *big.Int) string {
	var p prover.InsertionParameters
	p.InputHash.Set(v)
	b, err := json.Marshal(&p)
	if err != nil {
		panic(err)
	}
	var m map[string]any
	if err := json.Unmarshal(b, &m); err != nil {
		panic(err)
	}
	return m["inputHash"].(string)
}

// ---------- numeric-string grammar ----------

var numSeeds = []string{
	"", "0x", "0X1f", "0b102", "089", "0_1", "0x_1", "1__0", "+7", "-0", " 1", "1 ", "1.5", "1e3", "zz",
	"0", "00", "0_", "_0", "0x_", "0x1_", "0x__1", "1_000", "017", "0b101", "-0x5", "+-1", "--1", "+", "-",
	"0o17", "0O7", "0o8", "0B1", "0b", "0o", "0xg", "0Xabcdef", "0xABCDEF", "0xAbCd_Ef01", "٣٤", "１２", "0x１",
	"1\n", "\t1", "1\x00", "0x\x00", "0e1", "0E", "0b_1_0", "0o_7", "0_7", "0_8", "09", "0_9", "007", "0x0",
	"0x00000000000000000000000000000000000000000000000000000000000000000000001",
	"-0x0", "+0x10", "0x-5", "0x+5", "Inf", "NaN", "nil", "1e", "1_", "_1", "1_0_0", "9999999999999999999999999999999999999999",
	"0z", "0a", "a", "A", "Z", "z", "0xz", "1a", "0b2", "0o_", "\u017f", "0\u212a", "é", "\xff", "0x\xff", "1\xc3",
}

func longHex() string {
	n := 65 + rng.Intn(400)
	var sb strings.Builder
	sb.WriteString("0x")
	const digs = "0123456789abcdefABCDEF"
	for i := 0; i < n; i++ {
		sb.WriteByte(digs[rng.Intn(len(digs))])
	}
	return sb.String()
}

// renderNum writes v in one of the notations SetString(s,0) accepts (mostly) or rejects (sometimes).
func renderNum(v *big.Int, allowBad bool) string {
	abs := new(big.Int).Abs(v)
	var body string
	prefixed := true
	switch rng.Intn(10) {
	case 0, 1, 2, 3:
		body = "0x" + abs.Text(16)
	case 4:
		body = "0X" + strings.ToUpper(abs.Text(16))
	case 5:
		body = "0x" + strings.Repeat("0", rng.Intn(5)) + abs.Text(16)
	case 6:
		body = abs.Text(10)
		prefixed = false
	case 7:
		body = "0o" + abs.Text(8)
	case 8:
		body = "0" + abs.Text(8)
	default:
		body = "0b" + abs.Text(2)
	}
	_ = prefixed
	if rng.Intn(6) == 0 && len(body) > 3 { // separators
		k := 1 + rng.Intn(3)
		for i := 0; i < k; i++ {
			pos := 1 + rng.Intn(len(body)-1)
			body = body[:pos] + "_" + body[pos:]
		}
	}
	if v.Sign() < 0 {
		body = "-" + body
	} else if rng.Intn(12) == 0 {
		body = "+" + body
	}
	if allowBad && rng.Intn(10) == 0 {
		body = mutateString(body)
	}
	return body
}

func mutateString(s string) string {
	b := []byte(s)
	const alphabet = "0123456789abcdefxXbBoO_+-. eEzZgG\t\n\x00\xff\xc3\xa9\"\\/,:[]{}ntu"
	switch rng.Intn(4) {
	case 0:
		if len(b) > 0 {
			i := rng.Intn(len(b))
			b = append(b[:i], b[i+1:]...)
		}
	case 1:
		i := rng.Intn(len(b) + 1)
		c := alphabet[rng.Intn(len(alphabet))]
		b = append(b[:i], append([]byte{c}, b[i:]...)...)
	case 2:
		if len(b) > 0 {
			b[rng.Intn(len(b))] = alphabet[rng.Intn(len(alphabet))]
		}
	default:
		if len(b) > 1 {
			i := rng.Intn(len(b) - 1)
			b[i], b[i+1] = b[i+1], b[i]
		}
	}
	return string(b)
}

func genNumString() string {
	switch rng.Intn(10) {
	case 0, 1, 2:
		return numSeeds[rng.Intn(len(numSeeds))]
	case 3, 4:
		return mutateString(numSeeds[rng.Intn(len(numSeeds))])
	case 5:
		return longHex()
	case 6:
		return mutateString(mutateString(renderNum(genValue(), true)))
	default:
		return renderNum(genValue(), true)
	}
}

// ---------- hand-built documents ----------

type member struct {
	key string // raw JSON text of the key (with quotes)
	val string // raw JSON text of the value
}

func jstr(s string) string {
	// JSON string literal, sometimes with gratuitous escapes
	var sb strings.Builder
	sb.WriteByte('"')
	for _, r := range s {
		esc := rng.Intn(25) == 0
		switch {
		case r == '"' || r == '\\':
			sb.WriteByte('\\')
			sb.WriteRune(r)
		case r < 0x20:
			fmt.Fprintf(&sb, "\\u%04x", r)
		case esc && r < 0x10000:
			if rng.Intn(2) == 0 {
				fmt.Fprintf(&sb, "\\u%04x", r)
			} else {
				fmt.Fprintf(&sb, "\\u%04X", r)
			}
		case esc && r == '/':
			sb.WriteString("\\/")
		default:
			sb.WriteRune(r)
		}
	}
	sb.WriteByte('"')
	return sb.String()
}

func strArr(xs []*big.Int, bad bool) string {
	parts := make([]string, len(xs))
	for i, x := range xs {
		parts[i] = jstr(renderNum(x, bad))
		if bad && rng.Intn(15) == 0 {
			parts[i] = oddValue()
		}
	}
	return "[" + strings.Join(parts, sep()) + "]"
}

func strArrArr(xss [][]*big.Int, bad bool) string {
	parts := make([]string, len(xss))
	for i, xs := range xss {
		parts[i] = strArr(xs, bad)
		if bad && rng.Intn(15) == 0 {
			parts[i] = oddValue()
		}
	}
	return "[" + strings.Join(parts, sep()) + "]"
}

func idxText(bad bool) string {
	if bad && rng.Intn(3) == 0 {
		odd := []string{"4294967296", "-1", "1.0", "1e0", "-0", "0.0", "18446744073709551616", "4294967295.0", "1E2",
			"99999999999999999999999999", "\"5\"", "null", "true", "[1]", "{}", "01", "+1", "0x10", "1_0", "4294967295", "0", " 7 "}
		return odd[rng.Intn(len(odd))]
	}
	return fmt.Sprint(genIndex())
}

func idxArr(xs []uint32, bad bool) string {
	if xs == nil {
		return "null"
	}
	parts := make([]string, len(xs))
	for i, x := range xs {
		parts[i] = fmt.Sprint(x)
		if bad && rng.Intn(8) == 0 {
			parts[i] = idxText(true)
		}
	}
	return "[" + strings.Join(parts, sep()) + "]"
}

var wsChars = []string{" ", "\t", "\n", "\r", "  ", " \n\t"}

func ws() string {
	if rng.Intn(5) == 0 {
		return wsChars[rng.Intn(len(wsChars))]
	}
	return ""
}

func sep() string { return ws() + "," + ws() }

func oddValue() string {
	odd := []string{"null", "true", "false", "0", "1", "-1", "1.5", "\"\"", "\"0x\"", "[]", "{}", "[null]", "[[]]", "[\"0x1\"]",
		"\"zz\"", "\" 1\"", "\"1.5\"", "{\"a\":1}", "[[\"0x1\",null]]", "[null,\"0x2\"]", "\"\\u0030x1\"", "\"0\\u00781\"",
		"\"\\ud83d\\ude00\"", "\"\\ud800\"", "\"\\udc00\\ud800\"", "\"0x1\\n\"", "\"\\/\""}
	return odd[rng.Intn(len(odd))]
}

// random JSON value for unknown keys; sometimes syntactically invalid
func randJSON(depth int) string {
	if rng.Intn(60) == 0 {
		bad := []string{"01", "1.", ".5", "tru", "nul", "'a'", "\"\\x\"", "\"abc", "\"a\tb\"", "[1,]", "{\"a\":1,}", "{1:2}", "+1",
			"NaN", "-", "1e", "1e+", "[", "{", "]", "\"\\u12\"", "\"\\u12G4\"", "[1 2]", "{\"a\" 1}", "{\"a\":}", "--1", "0x1", "\"\\'\"", "\"\x7f\"", "\"\\ud800\\uZZZZ\""}
		return bad[rng.Intn(len(bad))]
	}
	k := rng.Intn(9)
	if depth <= 0 && k >= 7 {
		k = rng.Intn(7)
	}
	switch k {
	case 0:
		return "null"
	case 1:
		return "true"
	case 2:
		return "false"
	case 3:
		nums := []string{"0", "-0", "1", "-12", "1.5", "1.5e-3", "1E+2", "0.0", "123456789012345678901234567890", "0e0", "-0.1E-0"}
		return nums[rng.Intn(len(nums))]
	case 4, 5, 6:
		strs := []string{"", "abc", "0x1", "é", "日本", "a\"b", "back\\slash", "\u017f", "\u212a", "tab\there", "😀", "/", "\x7f"}
		s := jstr(strs[rng.Intn(len(strs))])
		if rng.Intn(10) == 0 {
			s = "\"\\ud83d\\ude00\\ud800x\\udc00\""
		}
		return s
	case 7:
		n := rng.Intn(4)
		parts := make([]string, n)
		for i := range parts {
			parts[i] = randJSON(depth - 1)
		}
		return "[" + ws() + strings.Join(parts, sep()) + ws() + "]"
	default:
		n := rng.Intn(4)
		parts := make([]string, n)
		keys := []string{"a", "b", "inputHash", "", "x y", "k\u00e9"}
		for i := range parts {
			parts[i] = jstr(keys[rng.Intn(len(keys))]) + ws() + ":" + ws() + randJSON(depth-1)
		}
		return "{" + ws() + strings.Join(parts, sep()) + ws() + "}"
	}
}

func swapCase(key string) string {
	rs := []rune(key)
	for i, r := range rs {
		if rng.Intn(3) != 0 {
			continue
		}
		switch {
		case r == 's' && rng.Intn(3) == 0:
			rs[i] = 0x17F // long s folds to S
		case (r == 'k' || r == 'K') && rng.Intn(2) == 0:
			rs[i] = 0x212A // Kelvin sign folds to K
		case 'a' <= r && r <= 'z':
			rs[i] = r - 32
		case 'A' <= r && r <= 'Z':
			rs[i] = r + 32
		}
	}
	return string(rs)
}

func nearKey(key string) string {
	switch rng.Intn(5) {
	case 0:
		return key + " "
	case 1:
		return key[1:]
	case 2:
		return strings.Replace(key, "o", "0", 1)
	case 3:
		return strings.Replace(key, "i", "\u0131", 1) // dotless i does not fold to i
	default:
		return key + "s"
	}
}

func buildDoc(del bool) []byte {
	s := genShape()
	bad := rng.Intn(3) == 0
	idxKey, idxVal := "startIndex", fmt.Sprint(s.start)
	if del {
		idxKey, idxVal = "deletionIndices", idxArr(s.idx, bad)
	} else if bad {
		idxVal = idxText(true)
	}
	type field struct {
		name string
		gen  func() string
	}
	fields := []field{
		{"inputHash", func() string { return jstr(renderNum(genValue(), bad)) }},
		{idxKey, func() string {
			if del {
				return idxArr(genShape().idx, bad)
			}
			return idxText(bad)
		}},
		{"preRoot", func() string { return jstr(renderNum(genValue(), bad)) }},
		{"postRoot", func() string { return jstr(renderNum(genValue(), bad)) }},
		{"identityCommitments", func() string { return strArr(genShape().ids, bad) }},
		{"merkleProofs", func() string { return strArrArr(genShape().mps, bad) }},
	}
	ms := []member{
		{jstr("inputHash"), jstr(renderNum(s.ih, bad))},
		{jstr(idxKey), idxVal},
		{jstr("preRoot"), jstr(renderNum(s.pre, bad))},
		{jstr("postRoot"), jstr(renderNum(s.post, bad))},
		{jstr("identityCommitments"), strArr(s.ids, bad)},
		{jstr("merkleProofs"), strArrArr(s.mps, bad)},
	}
	nmut := 0
	switch rng.Intn(4) {
	case 0:
		nmut = 0
	case 1:
		nmut = 1
	case 2:
		nmut = 2
	default:
		nmut = 1 + rng.Intn(5)
	}
	for m := 0; m < nmut; m++ {
		f := fields[rng.Intn(len(fields))]
		pos := rng.Intn(len(ms) + 1)
		ins := func(mm member) {
			ms = append(ms[:pos], append([]member{mm}, ms[pos:]...)...)
		}
		switch rng.Intn(12) {
		case 0: // swap key case of an existing member
			if len(ms) > 0 {
				i := rng.Intn(len(ms))
				k := fields[rng.Intn(len(fields))].name
				ms[i].key = jstr(swapCase(k))
			}
		case 1, 2: // duplicate a key with a fresh value
			ins(member{jstr(f.name), f.gen()})
		case 3: // duplicate with folded key
			ins(member{jstr(swapCase(f.name)), f.gen()})
		case 4: // inject null / odd value for a known key
			ins(member{jstr(f.name), oddValue()})
		case 5: // unknown key with nested value
			ins(member{jstr([]string{"extra", "x", "", "inputHashes", "start_index"}[rng.Intn(5)]), randJSON(3)})
		case 6: // near-miss key
			ins(member{jstr(nearKey(f.name)), f.gen()})
		case 7: // delete a member
			if len(ms) > 0 {
				i := rng.Intn(len(ms))
				ms = append(ms[:i], ms[i+1:]...)
			}
		case 8: // number as string / string as number
			if len(ms) > 0 {
				i := rng.Intn(len(ms))
				v := ms[i].val
				if strings.HasPrefix(v, "\"") {
					ms[i].val = []string{"1", "0", "17", "-3", "1.5"}[rng.Intn(5)]
				} else {
					ms[i].val = "\"" + strings.ReplaceAll(v, "\"", "") + "\""
				}
			}
		case 9: // replace a value by null
			if len(ms) > 0 {
				ms[rng.Intn(len(ms))].val = "null"
			}
		case 10: // shuffle
			rng.Shuffle(len(ms), func(i, j int) { ms[i], ms[j] = ms[j], ms[i] })
		default: // duplicate with an array containing nulls (stale-element behaviour)
			switch rng.Intn(3) {
			case 0:
				ins(member{jstr("identityCommitments"), "[null" + strings.Repeat(",null", rng.Intn(4)) + "]"})
			case 1:
				ins(member{jstr("merkleProofs"), "[[null" + strings.Repeat(",null", rng.Intn(3)) + "]" + strings.Repeat(",[null]", rng.Intn(3)) + "]"})
			default:
				if del {
					ins(member{jstr("deletionIndices"), "[null" + strings.Repeat(",null", rng.Intn(4)) + "]"})
				} else {
					ins(member{jstr("startIndex"), "null"})
				}
			}
		}
	}
	parts := make([]string, len(ms))
	for i, m := range ms {
		parts[i] = ws() + m.key + ws() + ":" + ws() + m.val + ws()
	}
	doc := ws() + "{" + strings.Join(parts, ",") + "}" + ws()
	if len(ms) == 0 {
		doc = ws() + "{" + ws() + "}" + ws()
	}
	if rng.Intn(40) == 0 { // trailing data
		doc += []string{"x", "{}", ",", "null", "\x00", "]", "}"}[rng.Intn(7)]
	}
	return []byte(doc)
}

func topLevelOdd() []byte {
	odd := []string{"null", " null ", "[]", "{}", "\"abc\"", "1", "true", "false", "", " ", "nul", "{", "}", "[{}]", "{}{}", "{} x",
		"\xef\xbb\xbf{}", "{\"inputHash\":\"0x1\",\"preRoot\":\"0x2\",\"postRoot\":\"0x3\"}",
		"{\"inputHash\":\"0x1\",\"preRoot\":\"0x2\",\"postRoot\":\"0x3\",\"startIndex\":4294967295,\"deletionIndices\":[4294967295]}",
		"{\"inputHash\":\"0x1\",\"preRoot\":\"0x2\",\"postRoot\":\"0x3\",\"startIndex\":4294967296,\"deletionIndices\":[4294967296]}",
		"{\"inputHash\":1}", "{\"startIndex\":\"1\"}", "{\"deletionIndices\":[\"1\"]}", "{\"startIndex\":1.0}", "{\"startIndex\":-1}",
		"{\"startIndex\":1e0}", "{\"deletionIndices\":[1e0]}", "{\"merkleProofs\":[[1]]}", "{\"merkleProofs\":[\"0x1\"]}", "{\"identityCommitments\":\"0x1\"}",
		"{\"identityCommitments\":{}}", "{\"inputHash\":[]}", "{\"inputHash\":{}}", "{\"inputHash\":true}",
		// earlier longer array, later shorter one, later one with null elements (stale elements)
		"{\"inputHash\":\"1\",\"preRoot\":\"1\",\"postRoot\":\"1\",\"identityCommitments\":[\"1\",\"2\",\"3\"],\"identityCommitments\":[\"4\"],\"identityCommitments\":[null,null,null]}",
		"{\"inputHash\":\"1\",\"preRoot\":\"1\",\"postRoot\":\"1\",\"merkleProofs\":[[\"1\",\"2\"],[\"3\"]],\"merkleProofs\":[[null]],\"merkleProofs\":[[null,null],[null,null]]}",
		"{\"inputHash\":\"1\",\"preRoot\":\"1\",\"postRoot\":\"1\",\"deletionIndices\":[7,8,9],\"deletionIndices\":[1],\"deletionIndices\":[null,null,null,null]}",
		"{\"inputHash\":\"1\",\"preRoot\":\"1\",\"postRoot\":\"1\",\"deletionIndices\":[7,8,9],\"deletionIndices\":[],\"deletionIndices\":[null,null]}",
		"{\"inputHash\":\"1\",\"preRoot\":\"1\",\"postRoot\":\"1\",\"deletionIndices\":[7,8,9],\"deletionIndices\":null,\"deletionIndices\":[null,null]}",
		"{\"inputHash\":\"1\",\"inputHash\":null,\"preRoot\":\"1\",\"postRoot\":\"1\",\"startIndex\":5,\"startIndex\":null}",
		"{\"inputHash\":\"1\",\"preRoot\":\"1\",\"postRoot\":\"1\",\"identityCommitments\":[\"1\",\"2\"],\"identityCommitments\":null}",
		"{\"inputHash\":\"1\",\"preRoot\":\"1\",\"postRoot\":\"1\",\"identityCommitments\":[\"1\",\"2\"],\"identityCommitments\":5,\"identityCommitments\":[null]}",
	}
	if rng.Intn(25) == 0 { // nesting depth limit of the scanner (10000)
		n := 9998 + rng.Intn(4)
		return []byte("{\"inputHash\":\"1\",\"preRoot\":\"1\",\"postRoot\":\"1\",\"x\":" + strings.Repeat("[", n) + strings.Repeat("]", n) + "}")
	}
	return []byte(odd[rng.Intn(len(odd))])
}

func mutateBytes(doc []byte) []byte {
	k := 1 + rng.Intn(3)
	s := string(doc)
	for i := 0; i < k; i++ {
		s = mutateString(s)
	}
	return []byte(s)
}

// ---------- main ----------

type summary struct {
	Seed     int64                     `json:"seed"`
	N        int                       `json:"n"`
	PerOp    map[string]int            `json:"perOp"`
	Outcomes map[string]map[string]int `json:"outcomes"`
}

func main() {
	seed := flag.Int64("seed", 1, "random seed")
	n := flag.Int("n", 1000, "number of cases")
	flag.Parse()
	rng = rand.New(rand.NewSource(*seed))
	sum := summary{Seed: *seed, N: *n, PerOp: map[string]int{}, Outcomes: map[string]map[string]int{}}
	out := os.Stdout
	var sb strings.Builder
	emit := func(op, arg, res string) {
		sum.PerOp[op]++
		if sum.Outcomes[op] == nil {
			sum.Outcomes[op] = map[string]int{}
		}
		class := "value"
		if strings.HasPrefix(res, "ok") {
			class = "ok"
		} else if strings.HasPrefix(res, "err") {
			class = res
		}
		sum.Outcomes[op][class]++
		sb.WriteString(op + "\t" + arg + "\t=>\t" + res + "\n")
		if sb.Len() > 1<<16 {
			out.WriteString(sb.String())
			sb.Reset()
		}
	}
	for i := 0; i < *n; i++ {
		del := rng.Intn(2) == 0
		dec := "decins"
		godec := goDecIns
		if del {
			dec, godec = "decdel", goDecDel
		}
		switch k := rng.Intn(20); {
		case k < 3: // (a) structured set: encode
			s := genShape()
			if del {
				p := s.del()
				b, err := json.Marshal(&p)
				if err != nil {
					panic(err)
				}
				emit("encdel", canonDel(&p), hex.EncodeToString(b))
			} else {
				p := s.ins()
				b, err := json.Marshal(&p)
				if err != nil {
					panic(err)
				}
				emit("encins", canonIns(&p), hex.EncodeToString(b))
			}
		case k < 6: // (a) structured set: Go-encoded document, decode
			s := genShape()
			var b []byte
			var err error
			if del {
				p := s.del()
				b, err = json.Marshal(&p)
			} else {
				p := s.ins()
				b, err = json.Marshal(&p)
			}
			if err != nil {
				panic(err)
			}
			emit(dec, hex.EncodeToString(b), godec(b))
		case k < 8: // (b) byte mutations of a Go-encoded document
			s := genShape()
			var b []byte
			if del {
				p := s.del()
				b, _ = json.Marshal(&p)
			} else {
				p := s.ins()
				b, _ = json.Marshal(&p)
			}
			b = mutateBytes(b)
			emit(dec, hex.EncodeToString(b), godec(b))
		case k < 13: // (b) hand-built documents with structural mutations
			b := buildDoc(del)
			if rng.Intn(8) == 0 {
				b = mutateBytes(b)
			}
			emit(dec, hex.EncodeToString(b), godec(b))
		case k < 14: // (b) odd top-level documents
			b := topLevelOdd()
			emit(dec, hex.EncodeToString(b), godec(b))
		case k < 19: // (c) numeric strings
			s := genNumString()
			emit("fromhex", hex.EncodeToString([]byte(s)), goFromHex(s))
		default:
			v := genValue()
			emit("tohex", v.String(), goToHex(v))
		}
	}
	out.WriteString(sb.String())
	js, _ := json.Marshal(sum)
	fmt.Fprintln(os.Stderr, string(js))
}
