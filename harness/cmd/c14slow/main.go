// Command c14slow: an accepted request that stays in flight for a long time across a stop.
// A client sends the headers and half of the body of a POST /prove, the server reports it as in
// flight, the stop is requested, the client holds the request for -hold seconds and then
// completes it.  Graceful shutdown means: AwaitStop does not return while the request is in
// flight, the client receives a complete HTTP response, and afterwards both addresses are free.
//
//	slow <hold seconds>  =>  ok | what went wrong
package main

import (
	"bufio"
	"flag"
	"fmt"
	"io"
	"net"
	"net/http"
	"regexp"
	"time"

	"verifharness/gen"
	"worldcoin/gnark-mbu/server"
)

func freePort() string {
	l, _ := net.Listen("tcp", "127.0.0.1:0")
	defer l.Close()
	return l.Addr().String()
}

var gaugeRe = regexp.MustCompile(`(?m)^http_requests_in_flight\{endpoint_pattern="/prove"\} (\d+)`)

func gauge(murl string) int {
	resp, err := http.Get(murl)
	if err != nil {
		return -1
	}
	defer resp.Body.Close()
	b, _ := io.ReadAll(resp.Body)
	m := gaugeRe.FindSubmatch(b)
	if m == nil {
		return -1
	}
	var n int
	fmt.Sscan(string(m[1]), &n)
	return n
}

func scenario(hold time.Duration) string {
	cfg := &server.Config{ProverAddress: freePort(), MetricsAddress: freePort(), Mode: server.DeletionMode}
	inst := server.Run(cfg, nil)
	murl := "http://" + cfg.MetricsAddress + "/metrics"
	for i := 0; i < 3000 && gauge(murl) < 0; i++ {
		time.Sleep(10 * time.Millisecond)
	}
	var conn net.Conn
	var err error
	for i := 0; i < 3000; i++ {
		if conn, err = net.Dial("tcp", cfg.ProverAddress); err == nil {
			break
		}
		time.Sleep(10 * time.Millisecond)
	}
	if err != nil {
		return "cannot connect: " + err.Error()
	}
	defer conn.Close()
	body := `{"inputHash":"0x1","deletionIndices":[1,2],"preRoot":"zz"}` // ends in 400 malformed_body: a full response all the same
	half := len(body) / 2
	fmt.Fprintf(conn, "POST /prove HTTP/1.1\r\nHost: x\r\nContent-Type: application/json\r\nContent-Length: %d\r\n\r\n%s", len(body), body[:half])
	seen := false
	for i := 0; i < 3000; i++ {
		if gauge(murl) >= 1 {
			seen = true
			break
		}
		time.Sleep(10 * time.Millisecond)
	}
	if !seen {
		return "the half-sent request never showed up in the in-flight gauge"
	}
	inst.RequestStop()
	returned := make(chan time.Time, 1)
	start := time.Now()
	go func() { inst.AwaitStop(); returned <- time.Now() }()
	select {
	case t := <-returned:
		return fmt.Sprintf("AwaitStop returned after %.1fs although an accepted request was still in flight", t.Sub(start).Seconds())
	case <-time.After(hold):
	}
	if _, err := fmt.Fprint(conn, body[half:]); err != nil {
		return "connection of the in-flight request was closed under it: " + err.Error()
	}
	conn.SetReadDeadline(time.Now().Add(120 * time.Second))
	resp, err := http.ReadResponse(bufio.NewReader(conn), nil)
	if err != nil {
		return "no complete response for the in-flight request: " + err.Error()
	}
	rb, err := io.ReadAll(resp.Body)
	if err != nil || resp.StatusCode != 400 || len(rb) == 0 {
		return fmt.Sprintf("in-flight request got status %d, body %q, err %v", resp.StatusCode, rb, err)
	}
	select {
	case <-returned:
	case <-time.After(120 * time.Second):
		return "AwaitStop did not return within 120 s after the last request completed (deadlock?)"
	}
	for _, a := range []string{cfg.ProverAddress, cfg.MetricsAddress} {
		l, e := net.Listen("tcp", a)
		if e != nil {
			return "cannot bind " + a + " after AwaitStop: " + e.Error()
		}
		l.Close()
	}
	return "ok"
}

func main() {
	hold := flag.Float64("hold", 3, "seconds the request stays in flight after the stop request")
	n := flag.Int("n", 1, "repetitions")
	flag.Parse()
	for i := 0; i < *n; i++ {
		fmt.Fprintf(gen.Out, "slow\t%g\t=>\t%s\n", *hold, scenario(time.Duration(*hold*float64(time.Second))))
	}
}
