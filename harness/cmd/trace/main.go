// Command trace runs a gadget or circuit of /repo against the recorder and prints the trace.
// usage: trace [--opaque=A,B] Name n1 n2 …   (same targets as `driver trace`)
package main

import (
	"fmt"
	"math/big"
	"os"
	"strings"

	"github.com/consensys/gnark/frontend"

	"verifharness/recorder"
	"worldcoin/gnark-mbu/prover"
	"worldcoin/gnark-mbu/prover/keccak"
	"worldcoin/gnark-mbu/prover/poseidon"
)

func chunks(l []frontend.Variable, size, count int) [][]frontend.Variable {
	out := make([][]frontend.Variable, count)
	for i := range out {
		out[i] = l[i*size : (i+1)*size]
	}
	return out
}

func main() {
	args := os.Args[1:]
	var opaque []string
	if len(args) > 0 && strings.HasPrefix(args[0], "--opaque=") {
		opaque = strings.Split(args[0][9:], ",")
		args = args[1:]
	}
	if len(args) == 0 {
		fmt.Fprintln(os.Stderr, "usage: trace [--opaque=…] name params")
		os.Exit(2)
	}
	name := args[0]
	var a []*big.Int
	for _, s := range args[1:] {
		n, ok := new(big.Int).SetString(s, 10)
		if !ok {
			fmt.Fprintln(os.Stderr, "bad number", s)
			os.Exit(2)
		}
		a = append(a, n)
	}
	n := func(i int) int { return int(a[i].Int64()) }
	mod := big.NewInt(0)
	switch name {
	case "ReducedModRCheck", "ToReducedBigEndian", "Insertion", "Deletion":
		mod = a[0]
	}
	r := recorder.New(os.Stdout, mod, opaque)
	defer r.Flush()
	defer func() {
		if e := recover(); e != nil {
			r.Flush()
			fmt.Printf("panic %v\n", e)
		}
	}()
	key := fmt.Sprintf("%s/%d", name, len(a))
	switch key {
	case "ProofRound/0":
		g := prover.ProofRound{Direction: r.Input(), Hash: r.Input(), Sibling: r.Input()}
		r.Ret(g.DefineGadget(r).(frontend.Variable))
	case "VerifyProof/1":
		g := prover.VerifyProof{Proof: r.Inputs(n(0) + 1), Path: r.Inputs(n(0))}
		r.Ret(g.DefineGadget(r).(frontend.Variable))
	case "InsertionRound/1":
		g := prover.InsertionRound{Index: r.Input(), Item: r.Input(), PrevRoot: r.Input(), Proof: r.Inputs(n(0)), Depth: n(0)}
		r.Ret(g.DefineGadget(r).(frontend.Variable))
	case "InsertionProof/2":
		d, b := n(0), n(1)
		g := prover.InsertionProof{StartIndex: r.Input(), PreRoot: r.Input(), IdComms: r.Inputs(b),
			MerkleProofs: chunks(r.Inputs(b*d), d, b), BatchSize: b, Depth: d}
		r.Ret(g.DefineGadget(r).(frontend.Variable))
	case "DeletionRound/1":
		g := prover.DeletionRound{Root: r.Input(), Index: r.Input(), Item: r.Input(), MerkleProofs: r.Inputs(n(0)), Depth: n(0)}
		r.Ret(g.DefineGadget(r).(frontend.Variable))
	case "DeletionProof/2":
		d, b := n(0), n(1)
		g := prover.DeletionProof{DeletionIndices: r.Inputs(b), PreRoot: r.Input(), IdComms: r.Inputs(b),
			MerkleProofs: chunks(r.Inputs(b*d), d, b), BatchSize: b, Depth: d}
		r.Ret(g.DefineGadget(r).(frontend.Variable))
	case "ReducedModRCheck/2":
		g := prover.ReducedModRCheck{Input: r.Inputs(n(1))}
		r.Ret(g.DefineGadget(r).([]frontend.Variable)...)
	case "ToReducedBigEndian/2":
		g := prover.ToReducedBigEndian{Variable: r.Input(), Size: n(1)}
		r.Ret(g.DefineGadget(r).([]frontend.Variable)...)
	case "FromBinaryBigEndian/1":
		g := prover.FromBinaryBigEndian{Variable: r.Inputs(n(0))}
		r.Ret(g.DefineGadget(r).(frontend.Variable))
	case "Poseidon1/0":
		r.Ret(r.Call(poseidon.Poseidon1{In: r.Input()}).(frontend.Variable))
	case "Poseidon2/0":
		r.Ret(r.Call(poseidon.Poseidon2{In1: r.Input(), In2: r.Input()}).(frontend.Variable))
	case "Keccak/2":
		in := r.Inputs(n(1))
		var out []frontend.Variable
		switch n(0) {
		case 1:
			out = keccak.NewKeccak256(r, len(in), in...)
		case 6:
			out = keccak.NewSHA3_256(r, len(in), in...)
		default:
			fmt.Fprintln(os.Stderr, "domain must be 1 or 6")
			os.Exit(2)
		}
		r.Ret(out...)
	case "Insertion/3":
		d, b := n(1), n(2)
		c := prover.InsertionMbuCircuit{InputHash: r.Input(), StartIndex: r.Input(), PreRoot: r.Input(), PostRoot: r.Input(),
			IdComms: r.Inputs(b), MerkleProofs: chunks(r.Inputs(b*d), d, b), BatchSize: b, Depth: d}
		if err := c.Define(r); err != nil {
			r.Error(err)
		}
		r.Ret()
	case "Deletion/3":
		d, b := n(1), n(2)
		c := prover.DeletionMbuCircuit{InputHash: r.Input(), DeletionIndices: r.Inputs(b), PreRoot: r.Input(), PostRoot: r.Input(),
			IdComms: r.Inputs(b), MerkleProofs: chunks(r.Inputs(b*d), d, b), BatchSize: b, Depth: d}
		if err := c.Define(r); err != nil {
			r.Error(err)
		}
		r.Ret()
	default:
		fmt.Fprintln(os.Stderr, "unknown trace target", key)
		os.Exit(2)
	}
}
