// Command corrfile: C11 / C15 correspondence on real proving-system files.
//
//	header <d> <b>                        => first 8 bytes of the written file (hex)
//	parseheader <hex16>                   => "<depth> <batch>" as UnsafeReadFrom loads them
//	cut <total> <lpk> <lvk> <lcs> <k>     => error <stage> | ok | panic | hang   (UnsafeReadFrom on the first k bytes)
//	layout|reload|cross|convert <label>   => ok | what differs               (constants of the protocol)
//
// Systems: tiny ones (a one-constraint circuit inside a prover.ProvingSystem, so that EVERY cut
// offset can be enumerated) and, with -real, a real insertion system with cross prove/verify.
package main

import (
	"bytes"
	"encoding/hex"
	"flag"
	"fmt"
	"io"
	"os"
	"path/filepath"
	"sort"
	"sync"
	"time"

	"github.com/consensys/gnark-crypto/ecc"
	"github.com/consensys/gnark/backend/groth16"
	"github.com/consensys/gnark/backend/witness"
	"github.com/consensys/gnark/frontend"
	"github.com/consensys/gnark/frontend/cs/r1cs"

	"verifharness/batchgen"
	"verifharness/gen"
	"worldcoin/gnark-mbu/prover"
)

type small struct {
	X []frontend.Variable
	Y frontend.Variable `gnark:",public"`
}

func (c *small) Define(api frontend.API) error {
	acc := frontend.Variable(1)
	for _, x := range c.X {
		acc = api.Mul(acc, api.Add(x, 1))
	}
	api.AssertIsEqual(acc, c.Y)
	return nil
}

var stat = map[string]int{}
var mu sync.Mutex

func emit(line, res string) {
	mu.Lock()
	defer mu.Unlock()
	fmt.Fprintf(gen.Out, "%s\t=>\t%s\n", line, res)
}

type sections struct{ pk, vk, cs []byte }

func secs(ps *prover.ProvingSystem, raw bool) sections {
	var a, b, c bytes.Buffer
	if raw {
		ps.ProvingKey.WriteRawTo(&a)
		ps.VerifyingKey.WriteRawTo(&b)
	} else {
		ps.ProvingKey.WriteTo(&a)
		ps.VerifyingKey.WriteTo(&b)
	}
	ps.ConstraintSystem.WriteTo(&c)
	return sections{a.Bytes(), b.Bytes(), c.Bytes()}
}

func write(ps *prover.ProvingSystem, raw bool) []byte {
	var buf bytes.Buffer
	var err error
	if raw {
		_, err = ps.WriteRawTo(&buf)
	} else {
		_, err = ps.WriteTo(&buf)
	}
	if err != nil {
		panic(err)
	}
	return buf.Bytes()
}

// quotaWriter accepts the first `left` bytes and then fails like a full volume.
type quotaWriter struct{ left int }

func (q *quotaWriter) Write(p []byte) (int, error) {
	if len(p) <= q.left {
		q.left -= len(p)
		return len(p), nil
	}
	n := q.left
	q.left = 0
	return n, fmt.Errorf("no space left on device")
}

// writeFault: does writing into a volume that takes only `quota` bytes report an error?
func writeFault(ps *prover.ProvingSystem, raw bool, quota int) (res string) {
	defer func() {
		if x := recover(); x != nil {
			res = fmt.Sprintf("panic: %v", x)
		}
	}()
	var err error
	w := &quotaWriter{left: quota}
	if raw {
		_, err = ps.WriteRawTo(w)
	} else {
		_, err = ps.WriteTo(w)
	}
	if err == nil {
		return fmt.Sprintf("write reported success although only %d bytes were stored", quota)
	}
	return "ok"
}

func stageOf(read int64, s sections) string {
	switch {
	case read < 4:
		return "header1"
	case read < 8:
		return "header2"
	case read < int64(8+len(s.pk)):
		return "pk"
	case read < int64(8+len(s.pk)+len(s.vk)):
		return "vk"
	}
	return "cs"
}

// readPrefix runs UnsafeReadFrom on file[:k] with panic capture and a timeout.
func readPrefix(file []byte, k int, s sections) (string, *prover.ProvingSystem) {
	type out struct {
		res string
		ps  *prover.ProvingSystem
	}
	ch := make(chan out, 1)
	go func() {
		defer func() {
			if r := recover(); r != nil {
				ch <- out{fmt.Sprintf("panic %v", r), nil}
			}
		}()
		ps := new(prover.ProvingSystem)
		n, err := ps.UnsafeReadFrom(bytes.NewReader(file[:k]))
		if err != nil {
			ch <- out{"error " + stageOf(n, s), nil}
			return
		}
		ch <- out{"ok", ps}
	}()
	select {
	case o := <-ch:
		return o.res, o.ps
	case <-time.After(120 * time.Second):
		return "hang", nil
	}
}

func equalSystems(a, b *prover.ProvingSystem) string {
	if a.TreeDepth != b.TreeDepth || a.BatchSize != b.BatchSize {
		return fmt.Sprintf("dims %d,%d vs %d,%d", a.TreeDepth, a.BatchSize, b.TreeDepth, b.BatchSize)
	}
	x, y := secs(a, true), secs(b, true)
	if !bytes.Equal(x.pk, y.pk) {
		return "proving key differs"
	}
	if !bytes.Equal(x.vk, y.vk) {
		return "verifying key differs"
	}
	if !bytes.Equal(x.cs, y.cs) {
		return "constraint system differs"
	}
	return "ok"
}

// readFileCut goes through prover.ReadSystemFromFile (what the CLI commands call) on a file on disk.
func readFileCut(dir string, file []byte, k int) string {
	path := filepath.Join(dir, fmt.Sprintf("cut-%d-%d.keys", os.Getpid(), k))
	if err := os.WriteFile(path, file[:k], 0o644); err != nil {
		return "cannot write scratch file: " + err.Error()
	}
	defer os.Remove(path)
	type out struct{ res string }
	ch := make(chan out, 1)
	go func() {
		defer func() {
			if r := recover(); r != nil {
				ch <- out{fmt.Sprintf("panic %v", r)}
			}
		}()
		ps, err := prover.ReadSystemFromFile(path)
		switch {
		case err != nil:
			ch <- out{"error"}
		case ps == nil || ps.ConstraintSystem == nil || ps.ProvingKey == nil || ps.VerifyingKey == nil:
			ch <- out{"no error but an incomplete system"}
		default:
			ch <- out{"ok"}
		}
	}()
	select {
	case o := <-ch:
		return o.res
	case <-time.After(120 * time.Second):
		return "hang"
	}
}

var scratchDir string

func cuts(label string, file []byte, s sections, offsets []int, workers int) {
	total := len(file)
	sem := make(chan struct{}, workers)
	var wg sync.WaitGroup
	res := make([]string, len(offsets))
	for i, k := range offsets {
		wg.Add(1)
		sem <- struct{}{}
		go func(i, k int) {
			defer wg.Done()
			defer func() { <-sem }()
			res[i], _ = readPrefix(file, k, s)
		}(i, k)
	}
	wg.Wait()
	for i, k := range offsets {
		stat["cut:"+label]++
		emit(fmt.Sprintf("cut\t%d\t%d\t%d\t%d\t%d", total, len(s.pk), len(s.vk), len(s.cs), k), res[i])
	}
	// the same cuts through ReadSystemFromFile (file on disk, buffered reader, deferred close):
	// a sample for big files, every 7th offset plus the section boundaries for small ones
	if scratchDir != "" {
		bounds := map[int]bool{0: true, 3: true, 4: true, 7: true, 8: true, 8 + len(s.pk) - 1: true, 8 + len(s.pk): true, 8 + len(s.pk) + len(s.vk) - 1: true,
			8 + len(s.pk) + len(s.vk): true, total - 1: true, total: true}
		for i, k := range offsets {
			if !(bounds[k] || (total < 1<<20 && i%7 == 0) || (total >= 1<<20 && i%9 == 0)) {
				continue
			}
			want := "error"
			if k == total {
				want = "ok"
			}
			got := readFileCut(scratchDir, file, k)
			stat["filecut:"+label]++
			if got != want {
				emit(fmt.Sprintf("filecut\t%s\t%d\t%d", label, total, k), got)
			} else {
				emit(fmt.Sprintf("filecut\t%s\t%d\t%d", label, total, k), "as-expected")
			}
		}
	}
}

// fragReader hands out its data in pieces of 1..max bytes (deterministic sizes).
type fragReader struct {
	data  []byte
	max   int
	seed  uint32
	limit int // bytes delivered in pieces; the rest comes whole (the CBOR decoder of the constraint
	// system re-validates its buffer after every Read, so a large section in small pieces is quadratic)
	done int
}

func (f *fragReader) Read(p []byte) (int, error) {
	if len(f.data) == 0 {
		return 0, io.EOF
	}
	f.seed = f.seed*1664525 + 1013904223
	n := 1 + int(f.seed>>8)%f.max
	if f.done >= f.limit {
		n = len(p) // past the fragmented part: as much as asked for
	}
	if n > len(p) {
		n = len(p)
	}
	if n > len(f.data) {
		n = len(f.data)
	}
	copy(p, f.data[:n])
	f.data = f.data[n:]
	f.done += n
	return n, nil
}

func exercise(label string, ps *prover.ProvingSystem, g *gen.G, allCuts bool, nCuts, win int,
	prove func(*prover.ProvingSystem) (groth16.Proof, witness.Witness, error)) {
	for _, raw := range []bool{false, true} {
		f := "compressed"
		if raw {
			f = "raw"
		}
		tag := label + "/" + f
		file := write(ps, raw)
		s := secs(ps, raw)
		// layout: header ++ pk ++ vk ++ cs, in this order
		want := append([]byte{byte(ps.TreeDepth >> 24), byte(ps.TreeDepth >> 16), byte(ps.TreeDepth >> 8), byte(ps.TreeDepth),
			byte(ps.BatchSize >> 24), byte(ps.BatchSize >> 16), byte(ps.BatchSize >> 8), byte(ps.BatchSize)}, s.pk...)
		want = append(want, s.vk...)
		want = append(want, s.cs...)
		if bytes.Equal(want, file) {
			emit("layout\t"+tag, "ok")
		} else {
			emit("layout\t"+tag, fmt.Sprintf("file (%d bytes) is not header++pk++vk++cs (%d bytes)", len(file), len(want)))
		}
		emit(fmt.Sprintf("header\t%d\t%d", ps.TreeDepth, ps.BatchSize), hex.EncodeToString(file[:8]))
		// a write that cannot complete (volume full, pipe closed) must be reported, wherever it stops:
		// a caller that is told "written" goes on to serve from, or ship, a truncated file
		for _, q := range []struct {
			where string
			quota int
		}{{"header", 3}, {"proving-key", 8 + len(s.pk)/2}, {"verifying-key", 8 + len(s.pk) + len(s.vk)/2},
			{"constraint-system-start", 8 + len(s.pk) + len(s.vk)}, {"constraint-system", len(file) - len(s.cs)/2}, {"last-byte", len(file) - 1}} {
			emit(fmt.Sprintf("writefault\t%s\t%s", tag, q.where), writeFault(ps, raw, q.quota))
		}
		// reload
		r, back := readPrefix(file, len(file), s)
		if r != "ok" {
			emit("reload\t"+tag, r)
			continue
		}
		emit(fmt.Sprintf("parseheader\t%s", hex.EncodeToString(file[:8])), fmt.Sprintf("%d %d", back.TreeDepth, back.BatchSize))
		emit("reload\t"+tag, equalSystems(ps, back))
		// trailing bytes after the constraint system are ignored
		r2, back2 := readPrefix(append(append([]byte{}, file...), 1, 2, 3), len(file)+3, s)
		if r2 == "ok" {
			r2 = equalSystems(ps, back2)
		}
		emit("reload\t"+tag+"+junk", r2)
		// the same bytes delivered in pieces (a pipe, a network body, a slow disk): UnsafeReadFrom takes
		// any io.Reader and must not depend on how many bytes one Read call returns
		for _, fr := range []struct {
			name string
			max  int
		}{{"frag1", 1}, {"frag7", 7}, {"frag4k", 4096}} {
			limit := len(file)
			if limit > 1<<20 {
				limit = 64 << 10
			}
			var fs prover.ProvingSystem
			res := "ok"
			func() {
				defer func() {
					if x := recover(); x != nil {
						res = fmt.Sprintf("panic: %v", x)
					}
				}()
				if _, err := fs.UnsafeReadFrom(&fragReader{data: file, max: fr.max, seed: uint32(len(file)), limit: limit}); err != nil {
					res = "error: " + err.Error()
				} else {
					res = equalSystems(ps, &fs)
				}
			}()
			emit("reload\t"+tag+"+"+fr.name, res)
		}
		// convert-to-raw of the reloaded system
		if bytes.Equal(write(back, true), write(ps, true)) {
			emit("convert\t"+tag, "ok")
		} else {
			emit("convert\t"+tag, "raw re-encoding of the reloaded system differs")
		}
		// cross prove / verify
		if prove != nil {
			res := "ok"
			p1, w1, e1 := prove(ps)
			p2, w2, e2 := prove(back)
			switch {
			case e1 != nil || e2 != nil:
				res = fmt.Sprintf("prove failed: %v / %v", e1, e2)
			case groth16.Verify(p1, back.VerifyingKey, w1) != nil:
				res = "reloaded system rejects the original's proof"
			case groth16.Verify(p2, ps.VerifyingKey, w2) != nil:
				res = "original rejects the reloaded system's proof"
			}
			emit("cross\t"+tag, res)
		}
		// cuts
		var offs []int
		total := len(file)
		if allCuts {
			for k := 0; k <= total; k++ {
				offs = append(offs, k)
			}
		} else {
			set := map[int]bool{}
			for k := 0; k <= 9; k++ {
				set[k] = true
			}
			for _, bnd := range []int{8, 8 + len(s.pk), 8 + len(s.pk) + len(s.vk), total} {
				for dlt := -win; dlt <= win; dlt++ {
					if k := bnd + dlt; k >= 0 && k <= total {
						set[k] = true
					}
				}
			}
			for i := 0; i < nCuts; i++ {
				// stratified: a third in each section
				lo, hi := 8, 8+len(s.pk)
				switch i % 3 {
				case 1:
					lo, hi = hi, hi+len(s.vk)
				case 2:
					lo, hi = 8+len(s.pk)+len(s.vk), total
				}
				set[lo+g.Intn(hi-lo)] = true
			}
			for k := range set {
				offs = append(offs, k)
			}
			sort.Ints(offs)
		}
		cuts(tag, file, s, offs, 12)
	}
}

func main() {
	seed := flag.Int64("seed", 1, "seed")
	tiny := flag.Int("tiny", 2, "independent tiny systems (every cut offset enumerated)")
	real := flag.Bool("real", false, "also a real insertion system (depth 3, batch 2) with cross prove/verify")
	ncuts := flag.Int("cuts", 30, "random interior cut offsets for the real system")
	flag.StringVar(&scratchDir, "dir", "", "scratch directory for files read through ReadSystemFromFile (empty: skip)")
	win := flag.Int("window", 3, "cut offsets within ±window of every section boundary (real system)")
	flag.Parse()
	g := gen.New(*seed)
	for i := 0; i < *tiny; i++ {
		nx := 1 + g.Intn(6)
		c := &small{X: make([]frontend.Variable, nx)}
		ccs, err := frontend.Compile(ecc.BN254.ScalarField(), r1cs.NewBuilder, c)
		if err != nil {
			panic(err)
		}
		pk, vk, err := groth16.Setup(ccs)
		if err != nil {
			panic(err)
		}
		ps := &prover.ProvingSystem{TreeDepth: uint32(1 + g.Intn(31)), BatchSize: uint32(33 + g.Intn(1000)), ProvingKey: pk, VerifyingKey: vk, ConstraintSystem: ccs}
		// dimension classes: more batch slots than leaves (legal for deletion: padding slots),
		// header words with four distinct bytes, depth 0 / batch 0, then random
		switch i {
		case 0:
			ps.TreeDepth, ps.BatchSize = uint32(1+g.Intn(3)), uint32(9+g.Intn(20))
		case 1:
			ps.TreeDepth, ps.BatchSize = 0x01020304, 0xfffffffe
		case 2:
			ps.TreeDepth, ps.BatchSize = 0, 0
		}
		prove := func(s *prover.ProvingSystem) (groth16.Proof, witness.Witness, error) {
			a := &small{X: make([]frontend.Variable, nx)}
			y := int64(1)
			for j := range a.X {
				a.X[j] = j + 1
				y *= int64(j + 2)
			}
			a.Y = y
			w, err := frontend.NewWitness(a, ecc.BN254.ScalarField())
			if err != nil {
				return nil, nil, err
			}
			pub, _ := w.Public()
			p, err := groth16.Prove(s.ConstraintSystem, s.ProvingKey, w)
			return p, pub, err
		}
		exercise(fmt.Sprintf("tiny%d", i), ps, g, true, 0, 0, prove)
	}
	if *real {
		ps, err := prover.SetupInsertion(3, 2)
		if err != nil {
			fmt.Fprintln(os.Stderr, err)
			os.Exit(2)
		}
		prove := func(s *prover.ProvingSystem) (groth16.Proof, witness.Witness, error) {
			for {
				p, mut := batchgen.Insertion(g, 3, 2)
				if mut != "valid" {
					continue
				}
				pr, err := s.ProveInsertion(p)
				if err != nil {
					return nil, nil, err
				}
				asg := prover.InsertionMbuCircuit{InputHash: p.InputHash, IdComms: make([]frontend.Variable, 2)}
				w, err := frontend.NewWitness(&asg, ecc.BN254.ScalarField(), frontend.PublicOnly())
				return pr.Proof, w, err
			}
		}
		exercise("real-insertion-3-2", ps, g, false, *ncuts, *win, prove)
		if scratchDir != "" {
			// left for the caller: the CLI's convert-to-raw is run on these
			os.WriteFile(filepath.Join(scratchDir, "real.compressed.keys"), write(ps, false), 0o644)
			os.WriteFile(filepath.Join(scratchDir, "real.raw.keys"), write(ps, true), 0o644)
		}
	}
	_ = io.EOF
	keys := make([]string, 0, len(stat))
	for k := range stat {
		keys = append(keys, k)
	}
	sort.Strings(keys)
	fmt.Fprintf(os.Stderr, "{")
	for i, k := range keys {
		if i > 0 {
			fmt.Fprintf(os.Stderr, ",")
		}
		fmt.Fprintf(os.Stderr, "%q:%d", k, stat[k])
	}
	fmt.Fprintf(os.Stderr, "}\n")
}
