// Command corrprove: C07 correspondence.  Real SetupInsertion/SetupDeletion, ProveInsertion/
// ProveDeletion and VerifyInsertion/VerifyDeletion on generated parameter sets.
//
//	prove  <mode> <d> <b> <canonical params>              => proof | error
//	verify <verifier system> <proving system> <hash the proof was made for> <candidate hash> => accept | reject
package main

import (
	"flag"
	"fmt"
	"math/big"
	"os"
	"sort"

	"verifharness/batchgen"
	"verifharness/gen"
	"worldcoin/gnark-mbu/prover"
)

var stat = map[string]int{}

type sys struct {
	id   string
	mode string
	ps   *prover.ProvingSystem
}

func verify(s *sys, h *big.Int, pr *prover.Proof) (res string) {
	defer func() {
		if r := recover(); r != nil {
			res = fmt.Sprintf("panic:%v", r)
		}
	}()
	var err error
	if s.mode == "insertion" {
		err = s.ps.VerifyInsertion(*h, pr)
	} else {
		err = s.ps.VerifyDeletion(*h, pr)
	}
	if err == nil {
		return "accept"
	}
	return "reject"
}

func main() {
	seed := flag.Int64("seed", 1, "seed")
	n := flag.Int("n", 20, "parameter sets per mode")
	d := flag.Int("depth", 2, "tree depth")
	b := flag.Int("batch", 2, "batch size")
	second := flag.Bool("second", false, "also create a second, independent insertion setup")
	dd := flag.Int("deldepth", 0, "tree depth of the deletion system (default: -depth; deletion stops at 31, insertion at 32)")
	flag.Parse()
	if *dd == 0 {
		*dd = *d
	}
	g := gen.New(*seed)
	must := func(ps *prover.ProvingSystem, err error) *prover.ProvingSystem {
		if err != nil {
			fmt.Fprintln(os.Stderr, "setup failed:", err)
			os.Exit(2)
		}
		return ps
	}
	ins := &sys{"I", "insertion", must(prover.SetupInsertion(uint32(*d), uint32(*b)))}
	del := &sys{"D", "deletion", must(prover.SetupDeletion(uint32(*dd), uint32(*b)))}
	systems := []*sys{ins, del}
	if *second {
		systems = append(systems, &sys{"I2", "insertion", must(prover.SetupInsertion(uint32(*d), uint32(*b)))})
	}
	emit := func(line, res string) { fmt.Fprintf(gen.Out, "%s\t=>\t%s\n", line, res) }
	candidates := func(h *big.Int, other *big.Int) []*big.Int {
		r := gen.BN254
		return []*big.Int{h, new(big.Int).Add(h, r), new(big.Int).Add(h, new(big.Int).Lsh(r, 1)), new(big.Int).Mod(h, r),
			new(big.Int).Add(h, big.NewInt(1)), new(big.Int).Sub(h, big.NewInt(1)), other, g.Below(new(big.Int).Lsh(big.NewInt(1), 256)), big.NewInt(0),
			// signed candidates: the negation is a different residue, a negative representative of the same residue is not
			new(big.Int).Neg(h), new(big.Int).Neg(new(big.Int).Mod(h, r)), new(big.Int).Sub(h, new(big.Int).Mul(r, big.NewInt(6))), new(big.Int).Sub(new(big.Int).Mod(h, r), r)}
	}
	for c := 0; c < *n; c++ {
		for _, s := range []*sys{ins, del} {
			var pr *prover.Proof
			var err error
			var h, other *big.Int
			var line, mut string
			if s.mode == "insertion" {
				p, m := batchgen.Insertion(g, *d, *b)
				mut = m
				line = fmt.Sprintf("prove\tinsertion\t%d\t%d\t%s", *d, *b, batchgen.CanonInsertion(p))
				h = new(big.Int).Set(&p.InputHash)
				ids := append([]big.Int{}, p.IdComms...)
				if len(ids) > 0 {
					ids[0] = *new(big.Int).Add(&ids[0], big.NewInt(1))
				}
				other = batchgen.HashInsertion(p.StartIndex, &p.PreRoot, &p.PostRoot, ids)
				pr, err = s.ps.ProveInsertion(p)
			} else {
				p, m := batchgen.Deletion(g, *dd, *b)
				mut = m
				line = fmt.Sprintf("prove\tdeletion\t%d\t%d\t%s", *dd, *b, batchgen.CanonDeletion(p))
				h = new(big.Int).Set(&p.InputHash)
				other = batchgen.HashDeletion(p.DeletionIndices, &p.PostRoot, &p.PreRoot)
				pr, err = s.ps.ProveDeletion(p)
			}
			stat[s.mode+":"+mut]++
			if (err == nil) != (pr != nil) {
				emit(line, "error-and-proof-inconsistent")
				continue
			}
			if err != nil {
				stat["error"]++
				emit(line, "error")
				continue
			}
			stat["proof"]++
			emit(line, "proof")
			for _, v := range systems {
				for _, cand := range candidates(h, other) {
					stat["verify"]++
					emit(fmt.Sprintf("verify\t%s\t%s\t%s\t%s", v.id, s.id, h, cand), verify(v, cand, pr))
				}
			}
		}
	}
	keys := make([]string, 0, len(stat))
	for k := range stat {
		keys = append(keys, k)
	}
	sort.Strings(keys)
	fmt.Fprintf(os.Stderr, "{")
	for i, k := range keys {
		if i > 0 {
			fmt.Fprintf(os.Stderr, ",")
		}
		fmt.Fprintf(os.Stderr, "%q:%d", k, stat[k])
	}
	fmt.Fprintf(os.Stderr, "}\n")
}
