// Command corrposeidon: C05 correspondence.  For each case the repository's Poseidon gadget is run
// (gnark test engine over the given field; compiled R1CS on BN254) with the expected output taken
// from an independent implementation (iden3 on BN254, textbook reference elsewhere): it must accept
// that output and reject output+1.  The printed value is compared with the Lean reference hash.
package main

import (
	"flag"
	"fmt"
	"math/big"
	"os"
	"sync"

	"github.com/consensys/gnark/constraint"
	"github.com/consensys/gnark/frontend"
	"github.com/consensys/gnark/test"
	iden3 "github.com/iden3/go-iden3-crypto/poseidon"

	"verifharness/circuits"
	"verifharness/gen"
	"verifharness/r1csx"

	"verifharness/ref"
	"worldcoin/gnark-mbu/prover/poseidon"
)

var fields = []*big.Int{gen.BN254, big.NewInt(101), big.NewInt(65537), new(big.Int).Sub(new(big.Int).Lsh(big.NewInt(1), 61), big.NewInt(1)), big.NewInt(47)}

func edge(g *gen.G, p *big.Int) *big.Int {
	switch g.Intn(12) {
	case 0:
		return new(big.Int).Sub(p, big.NewInt(2))
	case 1:
		return new(big.Int).Mod(new(big.Int).Lsh(big.NewInt(1), uint(g.Intn(p.BitLen()))), p)
	case 2:
		// sparse pattern
		v := big.NewInt(0)
		for i := 0; i < 3; i++ {
			v.SetBit(v, g.Intn(p.BitLen()), 1)
		}
		return v.Mod(v, p)
	case 3:
		// dense pattern
		v := new(big.Int).Sub(new(big.Int).Lsh(big.NewInt(1), uint(p.BitLen()-1)), big.NewInt(1))
		v.SetBit(v, g.Intn(p.BitLen()-1), 0)
		return v.Mod(v, p)
	}
	return g.Field(p)
}

// ---- steering: inputs for which chosen state elements entering the first or the second MDS layer
// take a special value (0, 1, p-1).  Engines and builders shortcut multiplications by 0 and 1, so
// these are the values at which an implementation detail of the API can show.

func constBig(v frontend.Variable) *big.Int {
	switch t := v.(type) {
	case big.Int:
		return new(big.Int).Set(&t)
	case *big.Int:
		return new(big.Int).Set(t)
	case int:
		return big.NewInt(int64(t))
	case string:
		x, _ := new(big.Int).SetString(t, 0)
		return x
	}
	panic(fmt.Sprintf("unexpected constant type %T", v))
}

func snapshot(tab [][]frontend.Variable) [][]*big.Int {
	out := make([][]*big.Int, len(tab))
	for i := range tab {
		out[i] = make([]*big.Int, len(tab[i]))
		for j := range tab[i] {
			out[i][j] = constBig(tab[i][j])
		}
	}
	return out
}

func sameTable(a [][]*big.Int, tab [][]frontend.Variable) bool {
	b := snapshot(tab)
	if len(a) != len(b) {
		return false
	}
	for i := range a {
		if len(a[i]) != len(b[i]) {
			return false
		}
		for j := range a[i] {
			if a[i][j].Cmp(b[i][j]) != 0 {
				return false
			}
		}
	}
	return true
}

// steer returns inputs (t-1 of them) for width t over BN254; layer 1 or 2; which: the state
// positions (t-1 of them for layer 2, any of 1..t-1 for layer 1) forced to the targets.
func steer(C, M [][]*big.Int, t, layer int, targets []*big.Int, skip int) []*big.Int {
	p := gen.BN254
	mod := func(x *big.Int) *big.Int { return x.Mod(x, p) }
	inv5 := new(big.Int).ModInverse(big.NewInt(5), new(big.Int).Sub(p, big.NewInt(1)))
	root5 := func(x *big.Int) *big.Int { return new(big.Int).Exp(x, inv5, p) }
	pow5 := func(x *big.Int) *big.Int { return new(big.Int).Exp(x, big.NewInt(5), p) }
	in := make([]*big.Int, t-1)
	if layer == 1 {
		for j := 1; j < t; j++ {
			in[j-1] = mod(new(big.Int).Sub(root5(targets[(j-1)%len(targets)]), C[0][j]))
		}
		return in
	}
	// layer 2: rows = all positions except `skip`
	var rows []int
	for i := 0; i < t; i++ {
		if i != skip {
			rows = append(rows, i)
		}
	}
	y0 := pow5(C[0][0])
	rhs := make([]*big.Int, len(rows))
	for k, i := range rows {
		z := new(big.Int).Sub(root5(targets[k%len(targets)]), C[1][i])
		z.Sub(z, new(big.Int).Mul(M[i][0], y0))
		rhs[k] = mod(z)
	}
	y := make([]*big.Int, t)
	y[0] = y0
	if t == 2 {
		y[1] = mod(new(big.Int).Mul(rhs[0], new(big.Int).ModInverse(M[rows[0]][1], p)))
	} else {
		a, b, c, d := M[rows[0]][1], M[rows[0]][2], M[rows[1]][1], M[rows[1]][2]
		det := mod(new(big.Int).Sub(new(big.Int).Mul(a, d), new(big.Int).Mul(b, c)))
		di := new(big.Int).ModInverse(det, p)
		y[1] = mod(new(big.Int).Mul(mod(new(big.Int).Sub(new(big.Int).Mul(rhs[0], d), new(big.Int).Mul(b, rhs[1]))), di))
		y[2] = mod(new(big.Int).Mul(mod(new(big.Int).Sub(new(big.Int).Mul(a, rhs[1]), new(big.Int).Mul(rhs[0], c))), di))
	}
	for j := 1; j < t; j++ {
		in[j-1] = mod(new(big.Int).Sub(root5(y[j]), C[0][j]))
	}
	return in
}

// entering computes the state entering MDS layer 1 or 2 for the given inputs (forward direction; used
// to confirm that steer produced what was asked for).
func entering(C, M [][]*big.Int, t, layer int, in []*big.Int) []*big.Int {
	p := gen.BN254
	st := make([]*big.Int, t)
	st[0] = big.NewInt(0)
	for j := 1; j < t; j++ {
		st[j] = in[j-1]
	}
	for r := 0; r < layer; r++ {
		for i := range st {
			x := new(big.Int).Add(st[i], C[r][i])
			st[i] = x.Exp(x.Mod(x, p), big.NewInt(5), p)
		}
		if r == layer-1 {
			break
		}
		out := make([]*big.Int, t)
		for i := range out {
			acc := big.NewInt(0)
			for j := range st {
				acc.Add(acc, new(big.Int).Mul(M[i][j], st[j]))
			}
			out[i] = acc.Mod(acc, p)
		}
		st = out
	}
	return st
}

func main() {
	seed := flag.Int64("seed", 1, "seed")
	n := flag.Int("n", 100, "cases")
	par := flag.Int("parallel", 8, "cases evaluated concurrently (circuit definitions overlap in time)")
	flag.Parse()
	g := gen.New(*seed)
	var ccs2, ccs1 constraint.ConstraintSystem
	ccs1, _ = r1csx.Compile(&circuits.Poseidon1Circuit{})
	ccs2, _ = r1csx.Compile(&circuits.Poseidon2Circuit{})
	stat := map[string]int{}
	type result struct{ line, res string }
	results := make([]result, *n)
	var wg sync.WaitGroup
	sem := make(chan struct{}, *par)
	var mu sync.Mutex
	c3, m3, c2, m2 := snapshot(poseidon.CONSTANTS_3), snapshot(poseidon.MDS_3), snapshot(poseidon.CONSTANTS_2), snapshot(poseidon.MDS_2)
	special := []*big.Int{big.NewInt(0), big.NewInt(1), new(big.Int).Sub(gen.BN254, big.NewInt(1))}
	for c := 0; c < *n; c++ {
		p := fields[0]
		if g.Chance(1, 4) {
			p = fields[1+g.Intn(len(fields)-1)]
		}
		a, b := edge(g, p), edge(g, p)
		one := g.Chance(1, 3)
		if c%5 == 4 || c < 12 {
			// steered case (BN254): the first dozen cases enumerate (1,1), (0,0), (1,0) … at layer 2
			p = fields[0]
			t0, t1 := special[g.Intn(3)], special[g.Intn(3)]
			layer, skip := 1+g.Intn(2), 2
			if c < 12 {
				t0, t1, layer = special[(c/2)%3], special[(c/6+c/2)%3], 2
				if c < 2 {
					t0, t1 = special[1], special[1]
				}
			} else if g.Chance(1, 3) {
				skip = g.Intn(2)
			}
			hit := 0
			if one {
				sk := g.Intn(2)
				a = steer(c2, m2, 2, layer, []*big.Int{t0}, sk)[0]
				for i, v := range entering(c2, m2, 2, layer, []*big.Int{a}) {
					if (layer == 1 && i == 1 || layer == 2 && i != sk) && v.Cmp(t0) == 0 {
						hit++
					}
				}
			} else {
				in := steer(c3, m3, 3, layer, []*big.Int{t0, t1}, skip)
				a, b = in[0], in[1]
				for _, v := range entering(c3, m3, 3, layer, in) {
					if v.Cmp(t0) == 0 || v.Cmp(t1) == 0 {
						hit++
					}
				}
			}
			if hit == 0 {
				fmt.Fprintf(os.Stderr, "corrposeidon: internal error: steering missed its target (layer %d)\n", layer)
				os.Exit(2)
			}
			mu.Lock()
			stat[fmt.Sprintf("steered-layer%d", layer)]++
			mu.Unlock()
		}
		c := c
		wg.Add(1)
		sem <- struct{}{}
		go func() {
			defer wg.Done()
			defer func() { <-sem }()
			var want *big.Int
			if p == gen.BN254 {
				var err error
				if one {
					want, err = iden3.Hash([]*big.Int{a})
				} else {
					want, err = iden3.Hash([]*big.Int{a, b})
				}
				if err != nil {
					panic(err)
				}
			} else if one {
				want = ref.Hash1(p, a)
			} else {
				want = ref.Hash2(p, a, b)
			}
			wrong := new(big.Int).Mod(new(big.Int).Add(want, big.NewInt(1)), p)
			res := want.String()
			var line string
			if one {
				line = fmt.Sprintf("h1\t%s\t%s", p, a)
				if test.IsSolved(&circuits.Poseidon1Circuit{}, &circuits.Poseidon1Circuit{A: a, Out: want}, p) != nil {
					res = "gadget-rejects-reference(test-engine)"
				} else if test.IsSolved(&circuits.Poseidon1Circuit{}, &circuits.Poseidon1Circuit{A: a, Out: want}, p, test.SetAllVariablesAsConstants()) != nil {
					// the same hash with the inputs known at compile time (the API folds constants on
					// other code paths than it treats wires)
					res = "gadget-rejects-reference(test-engine, inputs as constants)"
				} else if test.IsSolved(&circuits.Poseidon1Circuit{}, &circuits.Poseidon1Circuit{A: a, Out: wrong}, p) == nil {
					res = "gadget-accepts-wrong-output(test-engine)"
				} else if p == gen.BN254 {
					if ccs1 != nil {
						if r1csx.Solve(ccs1, &circuits.Poseidon1Circuit{A: a, Out: want}, nil) != nil {
							res = "gadget-rejects-reference(r1cs)"
						} else if r1csx.Solve(ccs1, &circuits.Poseidon1Circuit{A: a, Out: wrong}, nil) == nil {
							res = "gadget-accepts-wrong-output(r1cs)"
						}
					}
				}
				mu.Lock()
				stat["h1"]++
				mu.Unlock()
			} else {
				line = fmt.Sprintf("h2\t%s\t%s\t%s", p, a, b)
				if test.IsSolved(&circuits.Poseidon2Circuit{}, &circuits.Poseidon2Circuit{A: a, B: b, Out: want}, p) != nil {
					res = "gadget-rejects-reference(test-engine)"
				} else if test.IsSolved(&circuits.Poseidon2Circuit{}, &circuits.Poseidon2Circuit{A: a, B: b, Out: want}, p, test.SetAllVariablesAsConstants()) != nil {
					res = "gadget-rejects-reference(test-engine, inputs as constants)"
				} else if test.IsSolved(&circuits.Poseidon2Circuit{}, &circuits.Poseidon2Circuit{A: a, B: b, Out: wrong}, p) == nil {
					res = "gadget-accepts-wrong-output(test-engine)"
				} else if p == gen.BN254 {
					if ccs2 != nil {
						if r1csx.Solve(ccs2, &circuits.Poseidon2Circuit{A: a, B: b, Out: want}, nil) != nil {
							res = "gadget-rejects-reference(r1cs)"
						} else if r1csx.Solve(ccs2, &circuits.Poseidon2Circuit{A: a, B: b, Out: wrong}, nil) == nil {
							res = "gadget-accepts-wrong-output(r1cs)"
						}
					}
				}
				mu.Lock()
				stat["h2"]++
				mu.Unlock()
			}
			mu.Lock()
			stat["field:"+p.String()[:min(6, len(p.String()))]]++
			mu.Unlock()
			results[c] = result{line, res}
		}()
	}
	wg.Wait()
	for _, r := range results {
		fmt.Fprintf(gen.Out, "%s\t=>\t%s\n", r.line, r.res)
	}
	// both arities inside one circuit definition, in both orders (the identity-commitment pattern
	// H1(H2(a, b)), and H2(H1(a), b)): each hash must still be the reference hash
	for i := 0; i < 6; i++ {
		a, b := edge(g, gen.BN254), edge(g, gen.BN254)
		h2ab, _ := iden3.Hash([]*big.Int{a, b})
		h1h2, _ := iden3.Hash([]*big.Int{h2ab})
		h1a, _ := iden3.Hash([]*big.Int{a})
		h2h1b, _ := iden3.Hash([]*big.Int{h1a, b})
		verdict := func() (res string) {
			defer func() {
				if x := recover(); x != nil {
					res = fmt.Sprintf("gadget-panics(two arities in one circuit: %v)", x)
				}
			}()
			if test.IsSolved(&circuits.PoseidonMixCircuit{}, &circuits.PoseidonMixCircuit{A: a, B: b, H2ab: h2ab, H1h2: h1h2, H1a: h1a, H2h1b: h2h1b}, gen.BN254) != nil {
				return "gadget-rejects-reference(Poseidon2 then Poseidon1 in one circuit)"
			}
			if test.IsSolved(&circuits.PoseidonMixCircuitRev{}, &circuits.PoseidonMixCircuitRev{A: a, B: b, H1a: h1a, H2h1b: h2h1b}, gen.BN254) != nil {
				return "gadget-rejects-reference(Poseidon1 then Poseidon2 in one circuit)"
			}
			if ccs, err := r1csx.Compile(&circuits.PoseidonMixCircuit{}); err != nil || r1csx.Solve(ccs, &circuits.PoseidonMixCircuit{A: a, B: b, H2ab: h2ab, H1h2: h1h2, H1a: h1a, H2h1b: h2h1b}, nil) != nil {
				return "gadget-rejects-reference(both arities in one compiled circuit)"
			}
			return ""
		}()
		stat["mixed-arity"]++
		out := func(want *big.Int) string {
			if verdict != "" {
				return verdict
			}
			return want.String()
		}
		fmt.Fprintf(gen.Out, "h2\t%s\t%s\t%s\t=>\t%s\n", gen.BN254, a, b, out(h2ab))
		fmt.Fprintf(gen.Out, "h1\t%s\t%s\t=>\t%s\n", gen.BN254, h2ab, out(h1h2))
		fmt.Fprintf(gen.Out, "h1\t%s\t%s\t=>\t%s\n", gen.BN254, a, out(h1a))
		fmt.Fprintf(gen.Out, "h2\t%s\t%s\t%s\t=>\t%s\n", gen.BN254, h1a, b, out(h2h1b))
	}
	// the parameter tables are constants: nothing evaluated above may have written to them.  After the
	// evaluations, the hash of (1, 2) is recomputed in the engine and in a freshly compiled R1CS.
	{
		res := "ok"
		if !(sameTable(c3, poseidon.CONSTANTS_3) && sameTable(m3, poseidon.MDS_3) && sameTable(c2, poseidon.CONSTANTS_2) && sameTable(m2, poseidon.MDS_2)) {
			res = "parameter tables modified by evaluating the gadget"
		}
		want, _ := iden3.Hash([]*big.Int{big.NewInt(1), big.NewInt(2)})
		if test.IsSolved(&circuits.Poseidon2Circuit{}, &circuits.Poseidon2Circuit{A: 1, B: 2, Out: want}, gen.BN254) != nil {
			res += "; Poseidon2(1,2) afterwards: gadget-rejects-reference(test-engine)"
		}
		if fresh, err := r1csx.Compile(&circuits.Poseidon2Circuit{}); err != nil || r1csx.Solve(fresh, &circuits.Poseidon2Circuit{A: 1, B: 2, Out: want}, nil) != nil {
			res += "; Poseidon2(1,2) afterwards: gadget-rejects-reference(freshly compiled r1cs)"
		}
		fmt.Fprintf(gen.Out, "tables\tafter-%d-evaluations\t=>\t%s\n", *n, res)
	}
	fmt.Fprintf(os.Stderr, "{")
	first := true
	for k, v := range stat {
		if !first {
			fmt.Fprintf(os.Stderr, ",")
		}
		first = false
		fmt.Fprintf(os.Stderr, "%q:%d", k, v)
	}
	fmt.Fprintf(os.Stderr, "}\n")
}
