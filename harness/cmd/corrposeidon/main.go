// Command corrposeidon: C05 correspondence.  For each case the repository's Poseidon gadget is run
// (gnark test engine over the given field; compiled R1CS on BN254) with the expected output taken
// from an independent implementation (iden3 on BN254, textbook reference elsewhere): it must accept
// that output and reject output+1.  The printed value is compared with the Lean reference hash.
package main

import (
	"flag"
	"fmt"
	"math/big"
	"os"
	"sync"

	"github.com/consensys/gnark/constraint"
	"github.com/consensys/gnark/test"
	iden3 "github.com/iden3/go-iden3-crypto/poseidon"

	"verifharness/circuits"
	"verifharness/gen"
	"verifharness/r1csx"
	"verifharness/ref"
)

var fields = []*big.Int{gen.BN254, big.NewInt(101), big.NewInt(65537), new(big.Int).Sub(new(big.Int).Lsh(big.NewInt(1), 61), big.NewInt(1)), big.NewInt(47)}

func edge(g *gen.G, p *big.Int) *big.Int {
	switch g.Intn(12) {
	case 0:
		return new(big.Int).Sub(p, big.NewInt(2))
	case 1:
		return new(big.Int).Mod(new(big.Int).Lsh(big.NewInt(1), uint(g.Intn(p.BitLen()))), p)
	case 2:
		// sparse pattern
		v := big.NewInt(0)
		for i := 0; i < 3; i++ {
			v.SetBit(v, g.Intn(p.BitLen()), 1)
		}
		return v.Mod(v, p)
	case 3:
		// dense pattern
		v := new(big.Int).Sub(new(big.Int).Lsh(big.NewInt(1), uint(p.BitLen()-1)), big.NewInt(1))
		v.SetBit(v, g.Intn(p.BitLen()-1), 0)
		return v.Mod(v, p)
	}
	return g.Field(p)
}

func main() {
	seed := flag.Int64("seed", 1, "seed")
	n := flag.Int("n", 100, "cases")
	par := flag.Int("parallel", 8, "cases evaluated concurrently (circuit definitions overlap in time)")
	flag.Parse()
	g := gen.New(*seed)
	var ccs2, ccs1 constraint.ConstraintSystem
	ccs1, _ = r1csx.Compile(&circuits.Poseidon1Circuit{})
	ccs2, _ = r1csx.Compile(&circuits.Poseidon2Circuit{})
	stat := map[string]int{}
	type result struct{ line, res string }
	results := make([]result, *n)
	var wg sync.WaitGroup
	sem := make(chan struct{}, *par)
	var mu sync.Mutex
	for c := 0; c < *n; c++ {
		p := fields[0]
		if g.Chance(1, 4) {
			p = fields[1+g.Intn(len(fields)-1)]
		}
		a, b := edge(g, p), edge(g, p)
		one := g.Chance(1, 3)
		c := c
		wg.Add(1)
		sem <- struct{}{}
		go func() {
			defer wg.Done()
			defer func() { <-sem }()
			var want *big.Int
			if p == gen.BN254 {
				var err error
				if one {
					want, err = iden3.Hash([]*big.Int{a})
				} else {
					want, err = iden3.Hash([]*big.Int{a, b})
				}
				if err != nil {
					panic(err)
				}
			} else if one {
				want = ref.Hash1(p, a)
			} else {
				want = ref.Hash2(p, a, b)
			}
			wrong := new(big.Int).Mod(new(big.Int).Add(want, big.NewInt(1)), p)
			res := want.String()
			var line string
			if one {
				line = fmt.Sprintf("h1\t%s\t%s", p, a)
				if test.IsSolved(&circuits.Poseidon1Circuit{}, &circuits.Poseidon1Circuit{A: a, Out: want}, p) != nil {
					res = "gadget-rejects-reference(test-engine)"
				} else if test.IsSolved(&circuits.Poseidon1Circuit{}, &circuits.Poseidon1Circuit{A: a, Out: wrong}, p) == nil {
					res = "gadget-accepts-wrong-output(test-engine)"
				} else if p == gen.BN254 {
					if ccs1 != nil {
						if r1csx.Solve(ccs1, &circuits.Poseidon1Circuit{A: a, Out: want}, nil) != nil {
							res = "gadget-rejects-reference(r1cs)"
						} else if r1csx.Solve(ccs1, &circuits.Poseidon1Circuit{A: a, Out: wrong}, nil) == nil {
							res = "gadget-accepts-wrong-output(r1cs)"
						}
					}
				}
				mu.Lock()
				stat["h1"]++
				mu.Unlock()
			} else {
				line = fmt.Sprintf("h2\t%s\t%s\t%s", p, a, b)
				if test.IsSolved(&circuits.Poseidon2Circuit{}, &circuits.Poseidon2Circuit{A: a, B: b, Out: want}, p) != nil {
					res = "gadget-rejects-reference(test-engine)"
				} else if test.IsSolved(&circuits.Poseidon2Circuit{}, &circuits.Poseidon2Circuit{A: a, B: b, Out: wrong}, p) == nil {
					res = "gadget-accepts-wrong-output(test-engine)"
				} else if p == gen.BN254 {
					if ccs2 != nil {
						if r1csx.Solve(ccs2, &circuits.Poseidon2Circuit{A: a, B: b, Out: want}, nil) != nil {
							res = "gadget-rejects-reference(r1cs)"
						} else if r1csx.Solve(ccs2, &circuits.Poseidon2Circuit{A: a, B: b, Out: wrong}, nil) == nil {
							res = "gadget-accepts-wrong-output(r1cs)"
						}
					}
				}
				mu.Lock()
				stat["h2"]++
				mu.Unlock()
			}
			mu.Lock()
			stat["field:"+p.String()[:min(6, len(p.String()))]]++
			mu.Unlock()
			results[c] = result{line, res}
		}()
	}
	wg.Wait()
	for _, r := range results {
		fmt.Fprintf(gen.Out, "%s\t=>\t%s\n", r.line, r.res)
	}
	fmt.Fprintf(os.Stderr, "{")
	first := true
	for k, v := range stat {
		if !first {
			fmt.Fprintf(os.Stderr, ",")
		}
		first = false
		fmt.Fprintf(os.Stderr, "%q:%d", k, v)
	}
	fmt.Fprintf(os.Stderr, "}\n")
}
