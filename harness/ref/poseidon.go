// Package ref holds small reference helpers used only to GENERATE interesting cases
// (valid trees, genuine sibling paths).  They are never the oracle: the oracle of every
// correspondence check is the Lean model.
package ref

import (
	"math/big"

	"github.com/consensys/gnark/frontend"

	"worldcoin/gnark-mbu/prover/poseidon"
)

func toBig(v frontend.Variable) *big.Int {
	switch t := v.(type) {
	case big.Int:
		return new(big.Int).Set(&t)
	case *big.Int:
		return new(big.Int).Set(t)
	case int:
		return big.NewInt(int64(t))
	}
	panic("ref: unexpected constant type")
}

// Hash2 is textbook Poseidon (t = 3) modulo p with the repository's tables.
func Hash2(p, a, b *big.Int) *big.Int {
	st := []*big.Int{big.NewInt(0), new(big.Int).Mod(a, p), new(big.Int).Mod(b, p)}
	return permute(p, st, poseidon.CONSTANTS_3, poseidon.MDS_3, 8, 57)[0]
}

// Hash1 is textbook Poseidon (t = 2).
func Hash1(p, a *big.Int) *big.Int {
	st := []*big.Int{big.NewInt(0), new(big.Int).Mod(a, p)}
	return permute(p, st, poseidon.CONSTANTS_2, poseidon.MDS_2, 8, 56)[0]
}

func pow5(p, x *big.Int) *big.Int {
	x2 := new(big.Int).Mul(x, x)
	x2.Mod(x2, p)
	x4 := new(big.Int).Mul(x2, x2)
	x4.Mod(x4, p)
	x4.Mul(x4, x)
	return x4.Mod(x4, p)
}

func permute(p *big.Int, st []*big.Int, ark, mds [][]frontend.Variable, rf, rp int) []*big.Int {
	round := func(r int, full bool) {
		for i := range st {
			st[i] = new(big.Int).Add(st[i], toBig(ark[r][i]))
			st[i].Mod(st[i], p)
		}
		if full {
			for i := range st {
				st[i] = pow5(p, st[i])
			}
		} else {
			st[0] = pow5(p, st[0])
		}
		out := make([]*big.Int, len(st))
		for i := range st {
			acc := big.NewInt(0)
			for j := range st {
				t := new(big.Int).Mul(st[j], toBig(mds[i][j]))
				acc.Add(acc, t)
			}
			out[i] = acc.Mod(acc, p)
		}
		st = out
	}
	r := 0
	for i := 0; i < rf/2; i++ {
		round(r, true)
		r++
	}
	for i := 0; i < rp; i++ {
		round(r, false)
		r++
	}
	for i := 0; i < rf/2; i++ {
		round(r, true)
		r++
	}
	return st
}

// Tree is a sparse Merkle tree of the given depth over field p (generator helper).
type Tree struct {
	P       *big.Int
	Depth   int
	Leaves  map[uint64]*big.Int
	empties []*big.Int
}

func NewTree(p *big.Int, depth int) *Tree {
	t := &Tree{P: p, Depth: depth, Leaves: map[uint64]*big.Int{}}
	t.empties = make([]*big.Int, depth+1)
	t.empties[0] = big.NewInt(0)
	for i := 1; i <= depth; i++ {
		t.empties[i] = Hash2(p, t.empties[i-1], t.empties[i-1])
	}
	return t
}

func (t *Tree) Clone() *Tree {
	c := &Tree{P: t.P, Depth: t.Depth, Leaves: map[uint64]*big.Int{}, empties: t.empties}
	for k, v := range t.Leaves {
		c.Leaves[k] = v
	}
	return c
}

func (t *Tree) Set(i uint64, v *big.Int) {
	if v.Sign() == 0 {
		delete(t.Leaves, i)
	} else {
		t.Leaves[i] = new(big.Int).Set(v)
	}
}

func (t *Tree) Get(i uint64) *big.Int {
	if v, ok := t.Leaves[i]; ok {
		return v
	}
	return big.NewInt(0)
}

// node returns the value of the subtree of height h whose leftmost leaf is base.
func (t *Tree) node(h int, base uint64, keys []uint64) *big.Int {
	if len(keys) == 0 {
		return t.empties[h]
	}
	if h == 0 {
		return t.Get(base)
	}
	half := uint64(1) << uint(h-1)
	var l, r []uint64
	for _, k := range keys {
		if k < base+half {
			l = append(l, k)
		} else {
			r = append(r, k)
		}
	}
	return Hash2(t.P, t.node(h-1, base, l), t.node(h-1, base+half, r))
}

func (t *Tree) keys() []uint64 {
	ks := make([]uint64, 0, len(t.Leaves))
	for k := range t.Leaves {
		ks = append(ks, k)
	}
	return ks
}

func (t *Tree) Root() *big.Int { return t.node(t.Depth, 0, t.keys()) }

// Path returns the sibling path of leaf i, leaf level first.
func (t *Tree) Path(i uint64) []*big.Int {
	out := make([]*big.Int, t.Depth)
	keys := t.keys()
	base := uint64(0)
	for h := t.Depth; h >= 1; h-- {
		half := uint64(1) << uint(h-1)
		var l, r []uint64
		for _, k := range keys {
			if k < base+half {
				l = append(l, k)
			} else {
				r = append(r, k)
			}
		}
		if i < base+half {
			out[h-1] = t.node(h-1, base+half, r)
			keys = l
		} else {
			out[h-1] = t.node(h-1, base, l)
			keys = r
			base += half
		}
	}
	return out
}
