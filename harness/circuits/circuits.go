// Package circuits wraps the repository's gadgets in minimal circuits so that they can be run
// by gnark's test engine and compiled to R1CS on their own.
package circuits

import (
	"math/big"

	"github.com/consensys/gnark/frontend"
	"github.com/reilabs/gnark-lean-extractor/v2/abstractor"

	"worldcoin/gnark-mbu/prover"
	"worldcoin/gnark-mbu/prover/keccak"
	"worldcoin/gnark-mbu/prover/poseidon"
)

func Matrix(rows, cols int) [][]frontend.Variable {
	m := make([][]frontend.Variable, rows)
	for i := range m {
		m[i] = make([]frontend.Variable, cols)
	}
	return m
}

// keep / unchanged: a gadget receives its slices by reference; whatever it computes, the caller's
// wires must be the same afterwards (the caller may use them again).  Every harness circuit below
// asserts that after the gadget call.
func keep(xs []frontend.Variable) []frontend.Variable { return append([]frontend.Variable{}, xs...) }

func keep2(xss [][]frontend.Variable) [][]frontend.Variable {
	out := make([][]frontend.Variable, len(xss))
	for i := range xss {
		out[i] = keep(xss[i])
	}
	return out
}

func unchanged(api frontend.API, before, after []frontend.Variable) {
	for i := range before {
		api.AssertIsEqual(before[i], after[i])
	}
}

// InsertionProofCircuit: prover.InsertionProof with the result asserted equal to Post.
type InsertionProofCircuit struct {
	Start, Pre, Post frontend.Variable
	Ids              []frontend.Variable
	Proofs           [][]frontend.Variable
	Depth, Batch     int
}

func (c *InsertionProofCircuit) Define(api frontend.API) error {
	ids, proofs := keep(c.Ids), keep2(c.Proofs)
	root := abstractor.Call(api, prover.InsertionProof{StartIndex: c.Start, PreRoot: c.Pre, IdComms: c.Ids,
		MerkleProofs: c.Proofs, BatchSize: c.Batch, Depth: c.Depth})
	api.AssertIsEqual(root, c.Post)
	unchanged(api, ids, c.Ids)
	for i := range proofs {
		unchanged(api, proofs[i], c.Proofs[i])
	}
	return nil
}

func NewInsertionProofCircuit(d, b int) *InsertionProofCircuit {
	return &InsertionProofCircuit{Ids: make([]frontend.Variable, b), Proofs: Matrix(b, d), Depth: d, Batch: b}
}

// DeletionProofCircuit: prover.DeletionProof with the result asserted equal to Post.
type DeletionProofCircuit struct {
	Pre, Post    frontend.Variable
	Idxs, Ids    []frontend.Variable
	Proofs       [][]frontend.Variable
	Depth, Batch int
}

func (c *DeletionProofCircuit) Define(api frontend.API) error {
	idxs, ids, proofs := keep(c.Idxs), keep(c.Ids), keep2(c.Proofs)
	root := abstractor.Call(api, prover.DeletionProof{DeletionIndices: c.Idxs, PreRoot: c.Pre, IdComms: c.Ids,
		MerkleProofs: c.Proofs, BatchSize: c.Batch, Depth: c.Depth})
	api.AssertIsEqual(root, c.Post)
	unchanged(api, idxs, c.Idxs)
	unchanged(api, ids, c.Ids)
	for i := range proofs {
		unchanged(api, proofs[i], c.Proofs[i])
	}
	return nil
}

func NewDeletionProofCircuit(d, b int) *DeletionProofCircuit {
	return &DeletionProofCircuit{Idxs: make([]frontend.Variable, b), Ids: make([]frontend.Variable, b), Proofs: Matrix(b, d), Depth: d, Batch: b}
}

// Poseidon circuits.
type Poseidon2Circuit struct{ A, B, Out frontend.Variable }

func (c *Poseidon2Circuit) Define(api frontend.API) error {
	// two calls in one circuit (aliasing of the in-place round updates would show up here)
	h := abstractor.Call(api, poseidon.Poseidon2{In1: c.A, In2: c.B})
	h2 := abstractor.Call(api, poseidon.Poseidon2{In1: c.A, In2: c.B})
	api.AssertIsEqual(h, h2)
	api.AssertIsEqual(h, c.Out)
	return nil
}

type Poseidon1Circuit struct{ A, Out frontend.Variable }

func (c *Poseidon1Circuit) Define(api frontend.API) error {
	h := abstractor.Call(api, poseidon.Poseidon1{In: c.A})
	api.AssertIsEqual(h, c.Out)
	return nil
}

// PoseidonMixCircuit: both arities in one circuit definition, in both orders — the identity
// commitment pattern H1(H2(a, b)) and H2(H1(a), b).
type PoseidonMixCircuit struct{ A, B, H2ab, H1h2, H1a, H2h1b frontend.Variable }

func (c *PoseidonMixCircuit) Define(api frontend.API) error {
	h2 := abstractor.Call(api, poseidon.Poseidon2{In1: c.A, In2: c.B})
	api.AssertIsEqual(h2, c.H2ab)
	h1 := abstractor.Call(api, poseidon.Poseidon1{In: h2})
	api.AssertIsEqual(h1, c.H1h2)
	g1 := abstractor.Call(api, poseidon.Poseidon1{In: c.A})
	api.AssertIsEqual(g1, c.H1a)
	g2 := abstractor.Call(api, poseidon.Poseidon2{In1: g1, In2: c.B})
	api.AssertIsEqual(g2, c.H2h1b)
	return nil
}

// PoseidonMixCircuitRev: the one-input hash first.
type PoseidonMixCircuitRev struct{ A, B, H1a, H2h1b frontend.Variable }

func (c *PoseidonMixCircuitRev) Define(api frontend.API) error {
	g1 := abstractor.Call(api, poseidon.Poseidon1{In: c.A})
	api.AssertIsEqual(g1, c.H1a)
	g2 := abstractor.Call(api, poseidon.Poseidon2{In1: g1, In2: c.B})
	api.AssertIsEqual(g2, c.H2h1b)
	return nil
}

// KeccakCircuit: NewKeccak256 / NewSHA3_256 over In (bits), output asserted equal to Out.
type KeccakCircuit struct {
	In     []frontend.Variable
	Out    []frontend.Variable
	Domain int
}

func (c *KeccakCircuit) Define(api frontend.API) error {
	var h []frontend.Variable
	if c.Domain == 6 {
		h = keccak.NewSHA3_256(api, len(c.In), c.In...)
	} else {
		h = keccak.NewKeccak256(api, len(c.In), c.In...)
	}
	for i := range h {
		api.AssertIsEqual(h[i], c.Out[i])
	}
	return nil
}

// KeccakPairCircuit: two hashes over adjacent chunks In[:Split] and In[Split:] of one input buffer
// (how a caller hashes consecutive fields of a larger message); each digest asserted separately, and
// the input wires are compared afterwards with an untouched copy (a gadget must not write to its input).
type KeccakPairCircuit struct {
	In     []frontend.Variable
	Out1   []frontend.Variable
	Out2   []frontend.Variable
	Split  int
	Domain int
}

func (c *KeccakPairCircuit) Define(api frontend.API) error {
	hash := keccak.NewKeccak256
	if c.Domain == 6 {
		hash = keccak.NewSHA3_256
	}
	keep := append([]frontend.Variable{}, c.In...)
	h1 := hash(api, c.Split, c.In[:c.Split]...)
	h2 := hash(api, len(c.In)-c.Split, c.In[c.Split:]...)
	for i := range h1 {
		api.AssertIsEqual(h1[i], c.Out1[i])
		api.AssertIsEqual(h2[i], c.Out2[i])
	}
	for i := range keep {
		api.AssertIsEqual(keep[i], c.In[i])
	}
	return nil
}

// ToReducedCircuit: ToReducedBigEndian of V with Size bits, output asserted equal to Out.
type ToReducedCircuit struct {
	V    frontend.Variable
	Out  []frontend.Variable
	Size int
}

func (c *ToReducedCircuit) Define(api frontend.API) error {
	bits := abstractor.Call1(api, prover.ToReducedBigEndian{Variable: c.V, Size: c.Size})
	for i := range bits {
		api.AssertIsEqual(bits[i], c.Out[i])
	}
	return nil
}

// ReducedCheckCircuit: ReducedModRCheck over the given digits.
type ReducedCheckCircuit struct{ In []frontend.Variable }

func (c *ReducedCheckCircuit) Define(api frontend.API) error {
	in := keep(c.In)
	abstractor.CallVoid(api, prover.ReducedModRCheck{Input: c.In})
	unchanged(api, in, c.In)
	return nil
}

// FromBinaryBECircuit: FromBinaryBigEndian over In, result asserted equal to Out.
type FromBinaryBECircuit struct {
	In  []frontend.Variable
	Out frontend.Variable
}

func (c *FromBinaryBECircuit) Define(api frontend.API) error {
	in := keep(c.In)
	v := abstractor.Call(api, prover.FromBinaryBigEndian{Variable: c.In})
	api.AssertIsEqual(v, c.Out)
	// a second recomposition of the same bit string gives the same number, and the bits are untouched
	v2 := abstractor.Call(api, prover.FromBinaryBigEndian{Variable: c.In})
	api.AssertIsEqual(v2, c.Out)
	unchanged(api, in, c.In)
	return nil
}

// VerifyProofCapture runs the repository's VerifyProof gadget on a path given as plain input wires
// (NOT constrained by this harness) and hands the computed root to a hint, which stores it in
// Captured.  With the repository's ProofRound as it stands, a non-boolean path element fails its
// AssertIsBoolean and nothing is captured; the forged-decomposition class of corrmerkle uses this
// to learn which roots the circuit itself would compute from a non-binary "decomposition".
type VerifyProofCapture struct {
	Leaf frontend.Variable
	Sibs []frontend.Variable
	Path []frontend.Variable
}

var Captured *big.Int

func CaptureHint(_ *big.Int, inputs []*big.Int, results []*big.Int) error {
	Captured = new(big.Int).Set(inputs[0])
	results[0].SetUint64(0)
	return nil
}

func (c *VerifyProofCapture) Define(api frontend.API) error {
	proof := append([]frontend.Variable{c.Leaf}, c.Sibs...)
	root := abstractor.Call(api, prover.VerifyProof{Proof: proof, Path: c.Path})
	_, err := api.Compiler().NewHint(CaptureHint, 1, root)
	return err
}
