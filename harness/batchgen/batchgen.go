// Package batchgen generates insertion / deletion parameter sets over BN254 (valid and
// near-valid) for the prover, server and CLI correspondence checks.  Input hashes are computed
// by an independent implementation of the on-chain packing (never by the repository's helpers).
package batchgen

import (
	"fmt"
	"math/big"

	"golang.org/x/crypto/sha3"

	"verifharness/gen"
	"verifharness/ref"
	"worldcoin/gnark-mbu/prover"
)

var R = gen.BN254

func u32be(v uint32) []byte { return []byte{byte(v >> 24), byte(v >> 16), byte(v >> 8), byte(v)} }
func u256be(v *big.Int) []byte {
	return new(big.Int).Mod(v, new(big.Int).Lsh(big.NewInt(1), 256)).FillBytes(make([]byte, 32))
}

func keccak(data []byte) *big.Int {
	h := sha3.NewLegacyKeccak256()
	h.Write(data)
	return new(big.Int).SetBytes(h.Sum(nil))
}

// HashInsertion: keccak256(uint32 start || uint256 pre || uint256 post || uint256 ids…) of the
// values reduced modulo r (what the circuit sees).
func HashInsertion(start uint32, pre, post *big.Int, ids []big.Int) *big.Int {
	data := u32be(start)
	data = append(data, u256be(new(big.Int).Mod(pre, R))...)
	data = append(data, u256be(new(big.Int).Mod(post, R))...)
	for i := range ids {
		data = append(data, u256be(new(big.Int).Mod(&ids[i], R))...)
	}
	return keccak(data)
}

func HashDeletion(idxs []uint32, pre, post *big.Int) *big.Int {
	var data []byte
	for _, i := range idxs {
		data = append(data, u32be(i)...)
	}
	data = append(data, u256be(new(big.Int).Mod(pre, R))...)
	data = append(data, u256be(new(big.Int).Mod(post, R))...)
	return keccak(data)
}

func recoverRoot(leaf *big.Int, sibs []big.Int, idx uint64, d int) *big.Int {
	acc := new(big.Int).Mod(leaf, R)
	for i := 0; i < d && i < len(sibs); i++ {
		if (idx>>uint(i))&1 == 1 {
			acc = ref.Hash2(R, &sibs[i], acc)
		} else {
			acc = ref.Hash2(R, acc, &sibs[i])
		}
	}
	return acc
}

func bigs(vs []*big.Int) []big.Int {
	out := make([]big.Int, len(vs))
	for i, v := range vs {
		out[i].Set(v)
	}
	return out
}

func history(g *gen.G, d int) (*ref.Tree, int) {
	tree := ref.NewTree(R, d)
	size := uint64(1) << uint(d)
	n := g.Intn(6)
	if uint64(n) > size {
		n = int(size)
	}
	for i := 0; i < n; i++ {
		v := g.Field(R)
		if v.Sign() == 0 {
			v = big.NewInt(3)
		}
		tree.Set(uint64(i), v)
	}
	for i := 0; i < g.Intn(3) && n > 0; i++ {
		tree.Set(uint64(g.Intn(n)), big.NewInt(0))
	}
	return tree, n
}

var InsMutations = []string{"valid", "valid", "valid", "valid", "wrongpost", "corrupt", "occupied", "stale", "hash+1", "hash-other-batch", "pastend",
	"short-ids", "long-ids", "short-proofs", "ragged", "deep-proof", "edge-ids", "hash+r", "root+r", "fill-to-end", "fill-to-end"}

// Insertion returns a parameter set for a (d, b) system, its mutation class, and whether the
// generator believes it valid (the oracle is the Lean model, not this flag).
func Insertion(g *gen.G, d, b int) (*prover.InsertionParameters, string) {
	tree, n := history(g, d)
	size := uint64(1) << uint(d)
	mut := InsMutations[g.Intn(len(InsMutations))]
	start := uint64(n)
	if start+uint64(b) > size {
		start = 0
	}
	switch mut {
	case "occupied":
		if n > 0 {
			start = uint64(g.Intn(n))
		}
	case "pastend":
		start = size - uint64(g.Intn(b+1))
	case "fill-to-end":
		// a valid batch that ends exactly at the last leaf of the tree
		if uint64(b) <= size {
			start = size - uint64(b)
			for i := start; i < size; i++ {
				tree.Set(i, big.NewInt(0))
			}
		}
	}
	p := &prover.InsertionParameters{StartIndex: uint32(start)}
	p.PreRoot = *tree.Root()
	work := tree.Clone()
	p.IdComms = make([]big.Int, b)
	p.MerkleProofs = make([][]big.Int, b)
	for i := 0; i < b; i++ {
		id := g.Field(R)
		if mut == "edge-ids" {
			id = []*big.Int{big.NewInt(0), new(big.Int).Sub(R, big.NewInt(1)), big.NewInt(1), new(big.Int).Lsh(big.NewInt(1), 200)}[g.Intn(4)]
		}
		p.IdComms[i] = *id
		leaf := (start + uint64(i)) % size
		src := work
		if mut == "stale" {
			src = tree
		}
		p.MerkleProofs[i] = bigs(src.Path(leaf))
		work.Set(leaf, id)
	}
	p.PostRoot = *work.Root()
	switch mut {
	case "wrongpost":
		p.PostRoot.Add(&p.PostRoot, big.NewInt(1))
	case "corrupt":
		i, j := g.Intn(b), g.Intn(d)
		p.MerkleProofs[i][j].Add(&p.MerkleProofs[i][j], big.NewInt(1))
	case "occupied", "stale":
		// re-fix the post root so that only the emptiness / staleness check can fail
		if g.Chance(1, 2) {
			var acc *big.Int
			for i := 0; i < b; i++ {
				acc = recoverRoot(&p.IdComms[i], p.MerkleProofs[i], (start+uint64(i))%size, d)
			}
			p.PostRoot = *acc
		}
	case "short-ids":
		p.IdComms = p.IdComms[:b-1]
	case "long-ids":
		p.IdComms = append(p.IdComms, *big.NewInt(5))
	case "short-proofs":
		p.MerkleProofs = p.MerkleProofs[:b-1]
	case "ragged":
		i := g.Intn(b)
		p.MerkleProofs[i] = p.MerkleProofs[i][:d-1]
	case "deep-proof":
		i := g.Intn(b)
		p.MerkleProofs[i] = append(p.MerkleProofs[i], *big.NewInt(0))
	case "root+r":
		// a non-canonical representative of the same field element
		p.PreRoot.Add(&p.PreRoot, R)
	}
	p.InputHash = *HashInsertion(p.StartIndex, &p.PreRoot, &p.PostRoot, p.IdComms)
	switch mut {
	case "hash+1":
		p.InputHash.Add(&p.InputHash, big.NewInt(1))
	case "hash+r":
		p.InputHash.Add(&p.InputHash, R)
	case "hash-other-batch":
		other := make([]big.Int, len(p.IdComms))
		copy(other, p.IdComms)
		if len(other) > 0 {
			other[0].Add(&other[0], big.NewInt(1))
		}
		p.InputHash = *HashInsertion(p.StartIndex, &p.PreRoot, &p.PostRoot, other)
	}
	return p, mut
}

var DelMutations = []string{"valid", "valid", "valid", "valid", "wrongpost", "corrupt", "wrongitem", "dup-old", "dup-zero", "allpad", "mixpad", "toolarge", "stale",
	"hash+1", "hash-other-batch", "short-ids", "short-idx", "ragged", "hash+r", "empty-leaf", "pad-genuine", "deep-proof", "pad-short-proof", "first-short"}

func Deletion(g *gen.G, d, b int) (*prover.DeletionParameters, string) {
	tree, n := history(g, d)
	size := uint64(1) << uint(d)
	mut := DelMutations[g.Intn(len(DelMutations))]
	p := &prover.DeletionParameters{}
	p.PreRoot = *tree.Root()
	p.DeletionIndices = make([]uint32, b)
	p.IdComms = make([]big.Int, b)
	p.MerkleProofs = make([][]big.Int, b)
	work := tree.Clone()
	garbage := func() []big.Int {
		o := make([]big.Int, d)
		for i := range o {
			o[i] = *g.Field(R)
		}
		return o
	}
	for i := 0; i < b; i++ {
		var leaf uint64
		if n > 0 {
			leaf = uint64(g.Intn(n)) % size
		}
		pad := mut == "allpad" || (mut == "mixpad" && g.Chance(1, 2))
		if (mut == "dup-old" || mut == "dup-zero") && i > 0 {
			leaf = uint64(p.DeletionIndices[0])
		}
		if mut == "empty-leaf" {
			leaf = (uint64(n) + uint64(g.Intn(2))) % size
		}
		if pad {
			p.DeletionIndices[i] = uint32(size + uint64(g.R.Int63n(int64(size))))
			p.IdComms[i] = *g.Field(R)
			p.MerkleProofs[i] = garbage()
			continue
		}
		if mut == "pad-genuine" && g.Chance(2, 3) {
			p.DeletionIndices[i] = uint32(size + leaf)
			p.IdComms[i] = *new(big.Int).Set(work.Get(leaf))
			p.MerkleProofs[i] = bigs(work.Path(leaf))
			continue
		}
		p.DeletionIndices[i] = uint32(leaf)
		src := work
		if mut == "stale" {
			src = tree
		}
		p.IdComms[i] = *new(big.Int).Set(src.Get(leaf))
		if mut == "dup-old" && i > 0 {
			p.IdComms[i] = *new(big.Int).Set(tree.Get(leaf))
		}
		p.MerkleProofs[i] = bigs(src.Path(leaf))
		work.Set(leaf, big.NewInt(0))
	}
	p.PostRoot = *work.Root()
	switch mut {
	case "wrongpost":
		p.PostRoot.Add(&p.PostRoot, big.NewInt(1))
	case "corrupt":
		i, j := g.Intn(b), g.Intn(d)
		p.MerkleProofs[i][j].Add(&p.MerkleProofs[i][j], big.NewInt(1))
	case "wrongitem":
		i := g.Intn(b)
		p.IdComms[i].Add(&p.IdComms[i], big.NewInt(1))
	case "toolarge":
		p.DeletionIndices[g.Intn(b)] = uint32(2*size + uint64(g.Intn(3)))
	case "short-ids":
		p.IdComms = p.IdComms[:b-1]
	case "short-idx":
		p.DeletionIndices = p.DeletionIndices[:b-1]
	case "ragged":
		i := g.Intn(b)
		p.MerkleProofs[i] = p.MerkleProofs[i][:d-1]
	case "deep-proof":
		// a later row longer than the first one
		i := b - 1
		p.MerkleProofs[i] = append(p.MerkleProofs[i], *big.NewInt(0))
	case "first-short":
		p.MerkleProofs[0] = p.MerkleProofs[0][:d-1]
	case "pad-short-proof":
		// a padding slot (which ignores its path) with an empty path: still a shape error
		i := b - 1
		p.DeletionIndices[i] = uint32(size + uint64(g.Intn(int(size))))
		p.MerkleProofs[i] = []big.Int{}
	}
	p.InputHash = *HashDeletion(p.DeletionIndices, &p.PreRoot, &p.PostRoot)
	switch mut {
	case "hash+1":
		p.InputHash.Add(&p.InputHash, big.NewInt(1))
	case "hash+r":
		p.InputHash.Add(&p.InputHash, R)
	case "hash-other-batch":
		other := append([]uint32{}, p.DeletionIndices...)
		if len(other) > 0 {
			other[0] ^= 1
		}
		p.InputHash = *HashDeletion(other, &p.PreRoot, &p.PostRoot)
	}
	return p, mut
}

func csv(vs []big.Int) string {
	s := ""
	for i := range vs {
		if i > 0 {
			s += ","
		}
		s += vs[i].String()
	}
	return s
}

func csv2(vs [][]big.Int) string {
	s := ""
	for i := range vs {
		if i > 0 {
			s += "|"
		}
		s += csv(vs[i])
	}
	return s
}

// CanonInsertion / CanonDeletion: the canonical text form shared with the Lean driver.
func CanonInsertion(p *prover.InsertionParameters) string {
	return fmt.Sprintf("ih=%s;si=%d;pre=%s;post=%s;ids=%s;mp=%s", p.InputHash.String(), p.StartIndex, p.PreRoot.String(), p.PostRoot.String(), csv(p.IdComms), csv2(p.MerkleProofs))
}

func CanonDeletion(p *prover.DeletionParameters) string {
	idx := "nil"
	if p.DeletionIndices != nil {
		idx = ""
		for i, v := range p.DeletionIndices {
			if i > 0 {
				idx += ","
			}
			idx += fmt.Sprint(v)
		}
	}
	return fmt.Sprintf("ih=%s;idx=%s;pre=%s;post=%s;ids=%s;mp=%s", p.InputHash.String(), idx, p.PreRoot.String(), p.PostRoot.String(), csv(p.IdComms), csv2(p.MerkleProofs))
}
