// Package r1csx: compile to R1CS over BN254 and solve with chosen (possibly adversarial) hint
// functions through gnark's own solver.
package r1csx

import (
	"fmt"
	"math/big"

	"github.com/consensys/gnark-crypto/ecc"
	"github.com/consensys/gnark-crypto/ecc/bn254/fr"
	"github.com/consensys/gnark/backend"
	"github.com/consensys/gnark/backend/hint"
	"github.com/consensys/gnark/constraint"
	cs_bn254 "github.com/consensys/gnark/constraint/bn254"
	"github.com/consensys/gnark/frontend"
	"github.com/consensys/gnark/frontend/cs/r1cs"
	"github.com/consensys/gnark/std/math/bits"
	"github.com/rs/zerolog"
)

func Compile(c frontend.Circuit) (constraint.ConstraintSystem, error) {
	return frontend.Compile(ecc.BN254.ScalarField(), r1cs.NewBuilder, c)
}

// Solve runs gnark's solver on the full assignment with the given hint overrides.
// overrides maps a registered hint function to its replacement.
func Solve(ccs constraint.ConstraintSystem, assignment frontend.Circuit, overrides map[hint.ID]hint.Function) (err error) {
	defer func() {
		if r := recover(); r != nil {
			err = fmt.Errorf("panic: %v", r)
		}
	}()
	w, err := frontend.NewWitness(assignment, ecc.BN254.ScalarField())
	if err != nil {
		return err
	}
	opt, err := backend.NewProverConfig()
	if err != nil {
		return err
	}
	opt.CircuitLogger = zerolog.Nop()
	for id, f := range overrides {
		opt.HintFunctions[id] = f
	}
	r := ccs.(*cs_bn254.R1CS)
	a := make(fr.Vector, len(r.Constraints))
	b := make(fr.Vector, len(r.Constraints))
	c := make(fr.Vector, len(r.Constraints))
	v := w.Vector().(fr.Vector)
	_, err = r.Solve(v, a, b, c, opt)
	return err
}

var NBitsID = hint.UUID(bits.NBits)
var InvZeroID = hint.UUID(hint.InvZero)

// NBitsOf returns an NBits replacement that decomposes f(input) instead of input.
func NBitsOf(f func(n *big.Int, nbits int) *big.Int) hint.Function {
	return func(_ *big.Int, inputs []*big.Int, results []*big.Int) error {
		n := f(new(big.Int).Set(inputs[0]), len(results))
		for i := range results {
			results[i].SetUint64(uint64(n.Bit(i)))
		}
		return nil
	}
}

// InvZeroConst returns an InvZero replacement that always answers c.
func InvZeroConst(c *big.Int) hint.Function {
	return func(_ *big.Int, inputs []*big.Int, results []*big.Int) error {
		results[0].Set(c)
		return nil
	}
}
