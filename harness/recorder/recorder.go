// Package recorder implements gnark's frontend.API (and the extractor's abstractor.API) by
// printing one line per call, in the format of the Lean trace interpretation
// (/verif/lean/Smtb/Circuit/Trace.lean).  It runs the real Define / DefineGadget code of /repo.
package recorder

import (
	"bufio"
	"fmt"
	"io"
	"math/big"
	"reflect"
	"strings"

	"github.com/consensys/gnark/backend/hint"
	"github.com/consensys/gnark/frontend"
	"github.com/reilabs/gnark-lean-extractor/v2/abstractor"

	"worldcoin/gnark-mbu/prover/keccak"
	"worldcoin/gnark-mbu/prover/poseidon"
)

// Wire is a circuit variable created by the recorder.
type Wire struct{ ID int }

type Recorder struct {
	W      *bufio.Writer
	Next   int
	Mod    *big.Int
	Opaque map[string]bool
}

func New(w io.Writer, mod *big.Int, opaque []string) *Recorder {
	r := &Recorder{W: bufio.NewWriterSize(w, 1<<20), Mod: mod, Opaque: map[string]bool{}}
	for _, o := range opaque {
		if o != "" {
			r.Opaque[o] = true
		}
	}
	return r
}

func (r *Recorder) Flush() { r.W.Flush() }

func (r *Recorder) Input() frontend.Variable { return r.fresh() }
func (r *Recorder) Inputs(n int) []frontend.Variable {
	out := make([]frontend.Variable, n)
	for i := range out {
		out[i] = r.fresh()
	}
	return out
}

func (r *Recorder) fresh() Wire {
	w := Wire{r.Next}
	r.Next++
	return w
}

// Str renders a frontend.Variable: a wire or a Go-level constant.
func Str(v frontend.Variable) string {
	switch t := v.(type) {
	case Wire:
		return fmt.Sprintf("v%d", t.ID)
	case int:
		return fmt.Sprintf("c:%d", t)
	case int64:
		return fmt.Sprintf("c:%d", t)
	case uint:
		return fmt.Sprintf("c:%d", t)
	case uint64:
		return fmt.Sprintf("c:%d", t)
	case uint32:
		return fmt.Sprintf("c:%d", t)
	case uint8:
		return fmt.Sprintf("c:%d", t)
	case big.Int:
		return "c:" + t.String()
	case *big.Int:
		return "c:" + t.String()
	case nil:
		return "nil"
	default:
		return fmt.Sprintf("?%T", v)
	}
}

func strs(vs []frontend.Variable) string {
	var sb strings.Builder
	for _, v := range vs {
		sb.WriteByte(' ')
		sb.WriteString(Str(v))
	}
	return sb.String()
}

func (r *Recorder) op(name string, args ...frontend.Variable) frontend.Variable {
	w := r.fresh()
	fmt.Fprintf(r.W, "v%d = %s%s\n", w.ID, name, strs(args))
	return w
}

func (r *Recorder) Ret(vs ...frontend.Variable) { fmt.Fprintf(r.W, "ret%s\n", strs(vs)) }
func (r *Recorder) Error(err error)             { fmt.Fprintf(r.W, "error %s\n", err.Error()) }

func variadic(name string, i1, i2 frontend.Variable, in []frontend.Variable) (string, []frontend.Variable) {
	if len(in) == 0 {
		return name, []frontend.Variable{i1, i2}
	}
	return fmt.Sprintf("%s/%d", name, 2+len(in)), append([]frontend.Variable{i1, i2}, in...)
}

func (r *Recorder) Add(i1, i2 frontend.Variable, in ...frontend.Variable) frontend.Variable {
	n, a := variadic("add", i1, i2, in)
	return r.op(n, a...)
}
func (r *Recorder) Sub(i1, i2 frontend.Variable, in ...frontend.Variable) frontend.Variable {
	n, a := variadic("sub", i1, i2, in)
	return r.op(n, a...)
}
func (r *Recorder) Mul(i1, i2 frontend.Variable, in ...frontend.Variable) frontend.Variable {
	n, a := variadic("mul", i1, i2, in)
	return r.op(n, a...)
}
func (r *Recorder) MulAcc(a, b, c frontend.Variable) frontend.Variable {
	return r.op("mulacc", a, b, c)
}
func (r *Recorder) Neg(i1 frontend.Variable) frontend.Variable { return r.op("neg", i1) }
func (r *Recorder) DivUnchecked(i1, i2 frontend.Variable) frontend.Variable {
	return r.op("divunchecked", i1, i2)
}
func (r *Recorder) Div(i1, i2 frontend.Variable) frontend.Variable { return r.op("div", i1, i2) }
func (r *Recorder) Inverse(i1 frontend.Variable) frontend.Variable { return r.op("inverse", i1) }
func (r *Recorder) ToBinary(i1 frontend.Variable, n ...int) []frontend.Variable {
	nb := r.Mod.BitLen()
	if len(n) == 1 {
		nb = n[0]
	}
	first := r.Next
	out := r.Inputs(nb)
	fmt.Fprintf(r.W, "v%d+%d = tobinary %s\n", first, nb, Str(i1))
	return out
}
func (r *Recorder) FromBinary(b ...frontend.Variable) frontend.Variable {
	w := r.fresh()
	fmt.Fprintf(r.W, "v%d = frombinary%s\n", w.ID, strs(b))
	return w
}
func (r *Recorder) Xor(a, b frontend.Variable) frontend.Variable { return r.op("xor", a, b) }
func (r *Recorder) Or(a, b frontend.Variable) frontend.Variable  { return r.op("or", a, b) }
func (r *Recorder) And(a, b frontend.Variable) frontend.Variable { return r.op("and", a, b) }
func (r *Recorder) Select(b frontend.Variable, i1, i2 frontend.Variable) frontend.Variable {
	return r.op("select", b, i1, i2)
}
func (r *Recorder) Lookup2(b0, b1 frontend.Variable, i0, i1, i2, i3 frontend.Variable) frontend.Variable {
	return r.op("lookup2", b0, b1, i0, i1, i2, i3)
}
func (r *Recorder) IsZero(i1 frontend.Variable) frontend.Variable  { return r.op("iszero", i1) }
func (r *Recorder) Cmp(i1, i2 frontend.Variable) frontend.Variable { return r.op("cmp", i1, i2) }
func (r *Recorder) AssertIsEqual(i1, i2 frontend.Variable) {
	fmt.Fprintf(r.W, "asserteq %s %s\n", Str(i1), Str(i2))
}
func (r *Recorder) AssertIsDifferent(i1, i2 frontend.Variable) {
	fmt.Fprintf(r.W, "assertdiff %s %s\n", Str(i1), Str(i2))
}
func (r *Recorder) AssertIsBoolean(i1 frontend.Variable) {
	fmt.Fprintf(r.W, "assertbool %s\n", Str(i1))
}
func (r *Recorder) AssertIsLessOrEqual(v frontend.Variable, bound frontend.Variable) {
	fmt.Fprintf(r.W, "assertle %s %s\n", Str(v), Str(bound))
}
func (r *Recorder) Println(a ...frontend.Variable) {}
func (r *Recorder) Compiler() frontend.Compiler    { return r }
func (r *Recorder) NewHint(f hint.Function, nbOutputs int, inputs ...frontend.Variable) ([]frontend.Variable, error) {
	first := r.Next
	out := r.Inputs(nbOutputs)
	fmt.Fprintf(r.W, "v%d+%d = hint %s%s\n", first, nbOutputs, hint.Name(f), strs(inputs))
	return out, nil
}
func (r *Recorder) ConstantValue(v frontend.Variable) (*big.Int, bool) {
	switch t := v.(type) {
	case Wire:
		return nil, false
	case int:
		return big.NewInt(int64(t)), true
	case uint64:
		return new(big.Int).SetUint64(t), true
	case big.Int:
		return new(big.Int).Set(&t), true
	case *big.Int:
		return new(big.Int).Set(t), true
	}
	return nil, false
}

// frontend.Compiler
func (r *Recorder) MarkBoolean(v frontend.Variable)    { fmt.Fprintf(r.W, "markboolean %s\n", Str(v)) }
func (r *Recorder) IsBoolean(v frontend.Variable) bool { return false }
func (r *Recorder) Field() *big.Int                    { return new(big.Int).Set(r.Mod) }
func (r *Recorder) FieldBitLen() int                   { return r.Mod.BitLen() }
func (r *Recorder) Commit(vs ...frontend.Variable) (frontend.Variable, error) {
	return r.op("commit", vs...), nil
}

// abstractor.API
func (r *Recorder) Call(g abstractor.GadgetDefinition) interface{} {
	name := reflect.TypeOf(g).Name()
	if r.Opaque[name] {
		switch t := g.(type) {
		case poseidon.Poseidon2:
			w := r.fresh()
			fmt.Fprintf(r.W, "v%d = call Poseidon2 |%s\n", w.ID, strs([]frontend.Variable{t.In1, t.In2}))
			return frontend.Variable(w)
		case poseidon.Poseidon1:
			w := r.fresh()
			fmt.Fprintf(r.W, "v%d = call Poseidon1 |%s\n", w.ID, strs([]frontend.Variable{t.In}))
			return frontend.Variable(w)
		case keccak.KeccakGadget:
			first := r.Next
			out := r.Inputs(t.OutputSize)
			fmt.Fprintf(r.W, "v%d+%d = call KeccakGadget %d %d %d %d %d |%s\n", first, t.OutputSize,
				t.InputSize, t.OutputSize, t.Rounds, t.BlockSize, t.Domain, strs(t.InputData))
			return out
		}
	}
	return g.DefineGadget(r)
}

var _ frontend.API = (*Recorder)(nil)
var _ frontend.Compiler = (*Recorder)(nil)
var _ abstractor.API = (*Recorder)(nil)
