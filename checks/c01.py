from . import merkle


def run(ctx):
    merkle.run(ctx, 'ins')


def replay(ctx, data):
    return merkle.replay(ctx, data)
