from . import common, service


def run(ctx):
    common.go_build(['corrprove'])
    service.audit_service(ctx, 'C07')
    common.lake_build(['Smtb.Properties.C03'])
    common.audit(ctx, 'Smtb/Properties/C03.lean', ['Smtb.Properties.C03.insertionCircuit_sat_iff', 'Smtb.Properties.C03.deletionCircuit_sat_iff'])
    common.lake_build(['Smtb.Properties.C07Link'])
    common.audit(ctx, 'Smtb/Properties/C07Link.lean', ['Smtb.Properties.C07Link.' + t for t in ('circuitAcceptsInsertion_iff_sat', 'circuitAcceptsDeletion_iff_sat', 'prove_ok_iff_circuit_satisfiable')])
    ctx.assumptions += [service.IDEAL,
                        "the circuit relation of the model is PROVED equal to satisfiability of the full circuit in the Sat semantics (C07Link.circuitAccepts*_iff_sat, prove_ok_iff_circuit_satisfiable)",
                        "witness assembly reduces big values modulo r (gnark's SetBigInt); modelled, exercised by the root+r / hash+r generator classes"]
    ctx.trusted += ["gnark v0.8.0 groth16.Setup/Prove/Verify, gnark-crypto BN254"]
    runs = [['-seed', ctx.seed, '-n', ctx.pick(14, 300), '-depth', 2, '-batch', 2] + (['-second'] if ctx.thorough else [])]
    # the deepest trees (insertion 32, deletion 31: uint32 index arithmetic wraps there)
    runs += [['-seed', ctx.seed, '-n', ctx.pick(6, 60), '-depth', 32, '-deldepth', 31, '-batch', 1]]
    if ctx.thorough:
        runs += [['-seed', ctx.seed + 1, '-n', 120, '-depth', 3, '-batch', 2], ['-seed', ctx.seed + 2, '-n', 120, '-depth', 1, '-batch', 1, '-second']]
    for args in runs:
        n, mism, _ = common.corr(ctx, 'prove-verify', 'corrprove', args, ['corr', 'prove'], timeout=7200)
        ctx.oblige(f'T-corr prove/verify {args}: real Setup, Prove*, Verify* = model (ideal Groth16 over the proved circuit relation)', not mism,
                   '' if not mism else str(mism[0][1:])[:300])
        if mism:
            service.report(ctx, 'prove', 'corrprove', args, ['corr', 'prove'], mism, 'prover/verifier')
    if ctx.thorough:
        common.leanchecker(ctx, ['Smtb.Properties.C07'])


def replay(ctx, data):
    return service.replay(ctx, data, ['corrprove'])
