"""C14: graceful shutdown.  Theorems on the protocol LTS; trace conformance of the real
SpawnJob/CombineJobs; early-stop stress on real servers; black-box SIGINT scenarios on the CLI."""
import os
from . import common
from .common import Violation, TieBroken

THEOREMS = ['Smtb.Properties.C14.await_returns_only_after_both_closed', 'Smtb.Properties.C14.restart_enabled_after_exit',
            'Smtb.Properties.C14.accepted_requests_complete', 'Smtb.Properties.C14.no_deadlock',
            'Smtb.Properties.C14.terminates', 'Smtb.Properties.C14.early_stop_counterexample',
            'Smtb.Properties.C14.await_closed_partial_original', 'Smtb.Properties.C14.acceptsWeak_sound',
            'Smtb.Properties.C14.silent_steps_never_disable', 'Smtb.Properties.C14.reachable_iff_run']


def stress(ctx, cycles, procs):
    p = common.run([os.path.join(common.HBIN, 'c14stress'), '-cycles', str(cycles), '-procs', str(procs)], timeout=1800)
    out = (p.stdout + p.stderr).strip()
    ok = p.returncode == 0 and out.splitlines()[-1].startswith('OK ')
    return ok, out[-1200:]


def run(ctx):
    common.go_build(['corrjob', 'c14stress', 'c14cli', 'c14slow', 'xtool'])
    common.lake_build(['Smtb.Properties.C14', 'driver'])
    common.audit(ctx, 'Smtb/Properties/C14.lean', THEOREMS)
    facts_err = None
    try:
        common.regen_facts()
        common.lake_build(['Smtb.Properties.C14Facts'])
        common.audit(ctx, 'Smtb/Properties/C14Facts.lean', ['Smtb.Properties.C14Facts.shutdown_waits_for_requests'])
    except TieBroken as t:
        facts_err = t
        ctx.oblige('T-facts: spawnServerJob shuts down with server.Shutdown(context.Background()) and nothing force-closes a server', False, t.detail[:300])
    ctx.assumptions += [
        "net/http behaviour assumed by the model (list in Smtb/Model/Job.lean): Shutdown closes listeners and returns only when no request is active; ListenAndServe returns once it notices the shutdown",
        "the model is hand-written; ties: event logs of the real server.SpawnJob/CombineJobs driven with instrumented closures must be runs of the LTS; real servers under the early-stop stress; real binary under SIGINT",
        "partial: OS socket release, signal delivery and process exit status are observed only; a SIGINT delivered before main.go registers its handler (during key loading) is outside the modelled protocol",
    ]
    ctx.trusted += ["net/http (Go 1.23), os/signal"]
    # (a) conformance
    found = None
    for s in ([ctx.seed] if not ctx.thorough else [ctx.seed + i for i in range(5)]):
        n, mism, _ = common.corr(ctx, 'job-conformance', 'corrjob', ['-seed', s, '-n', ctx.pick(250, 1500)], ['corr', 'job'], ok_exit=(0, 1, 3))
        if mism:
            found = ('corrjob', ['-seed', s, '-n', ctx.pick(250, 1500)], ['corr', 'job'], mism)
            break
    ctx.oblige('conformance: every event log of the real SpawnJob/CombineJobs is a run of the proved LTS', not found,
               '' if not found else str(found[3][0][1:])[:300])
    if found:
        cmd, args, dargs, mism = found
        i, line, code, model = mism[0]
        replay = common.write_replay(ctx, 'conformance', {'kind': 'corr', 'go_cmd': cmd, 'go_args': [str(a) for a in args], 'driver_args': dargs,
                                                         'index': i, 'case': line[:3000], 'code_says': code, 'spec_says': model})
        raise Violation(f'event log of the real job protocol is not a run of the model: {model} (log #{i}: {line[:300]})', replay)
    # (b) early-stop stress on real http servers (child process: the failure mode includes a panic)
    for procs in (2, 16) + ((4, 1) if ctx.thorough else ()):
        cycles = ctx.pick(4000, 40000)
        ok, out = stress(ctx, cycles, procs)
        ctx.oblige(f'early-stop stress: {cycles} Run/RequestStop/AwaitStop/bind cycles at GOMAXPROCS={procs}', ok, out[-200:])
        ctx.extra['extra_evaluations'] = ctx.extra.get('extra_evaluations', 0) + cycles
        ctx.extra['extra_distinct'] = ctx.extra.get('extra_distinct', 0) + 1
        if not ok:
            replay = common.write_replay(ctx, 'stress', {'kind': 'stress', 'cycles': cycles, 'procs': procs, 'output': out,
                                                        'recipe': 'loop: inst := server.Run(cfg, nil); inst.RequestStop(); inst.AwaitStop(); net.Listen(both addresses)'})
            raise Violation(f'after AwaitStop a listener address is still in use / the server panicked (GOMAXPROCS={procs}): {out[-300:]}', replay)
    # (c) black box: real binary, SIGINT with requests in flight
    cli = common.build_cli(ctx)
    keys = os.path.join(ctx.scratchdir(), 'keys-del-2-2')
    p = common.run([cli, 'setup', '--mode', 'deletion', '--output', keys, '--tree-depth', '2', '--batch-size', '2'], timeout=600)
    if p.returncode != 0:
        raise TieBroken('cli-setup', (p.stderr or p.stdout)[-800:])
    n, mism, _ = common.corr(ctx, 'sigint', 'c14cli', ['-bin', cli, '-keys', keys, '-seed', ctx.seed, '-n', ctx.pick(6, 60)], ['corr', 'job'],
                             only=set(), const={'shutdown': 'ok'})
    ctx.oblige('black box: SIGINT to `gnark-mbu start` with 0..6 requests in flight: full verifying responses, exit 0, addresses free', not mism,
               '' if not mism else str(mism[0][1:])[:300])
    if mism:
        i, line, code, model = mism[0]
        replay = common.write_replay(ctx, 'sigint', {'kind': 'sigint', 'scenario': line, 'observed': code, 'seed': ctx.seed})
        raise Violation(f'SIGINT scenario "{line}": {code[:400]}', replay)
    # (d) a request held in flight across the stop (slow client); searched much longer when the
    # shutdown call changed
    hold = 45 if facts_err else ctx.pick(2, 35)
    n, mism, _ = common.corr(ctx, 'slow-client', 'c14slow', ['-hold', hold], ['corr', 'job'], only=set(), const={'slow': 'ok'}, timeout=600)
    ctx.oblige(f'black box: a request held in flight for {hold} s across the stop completes; AwaitStop waits for it', not mism,
               '' if not mism else str(mism[0][1:])[:300])
    if mism:
        i, line, code, model = mism[0]
        replay = common.write_replay(ctx, 'slow', {'kind': 'slow', 'hold_s': hold, 'observed': code,
                                                  'recipe': 'send headers + half the body of POST /prove; wait for in-flight gauge 1; RequestStop; hold; send the rest; expect a complete response before AwaitStop returns',
                                                  'broken_tie': facts_err.detail[:500] if facts_err else None})
        raise Violation(f'request in flight across the stop for {hold} s: {code[:300]}', replay)
    if facts_err:
        replay = common.write_replay(ctx, 'tie', {'kind': 'tie', 'tie': facts_err.tie, 'detail': facts_err.detail[:3000]})
        raise Violation('T-facts broken: ' + facts_err.detail[:300], replay, found_input=False)
    if ctx.thorough:
        common.leanchecker(ctx, ['Smtb.Properties.C14'])


REPLAY_KINDS = ('slow', 'stress', 'corr')


def replay(ctx, data):
    common.go_build(['corrjob', 'c14stress', 'c14cli'])
    common.lake_build(['driver'])
    if data.get('kind') == 'slow':
        common.go_build(['c14slow'])
        n, mism, _ = common.corr(ctx, 'replay', 'c14slow', ['-hold', data['hold_s']], ['corr', 'job'], only=set(), const={'slow': 'ok'}, timeout=600)
        print('REPLAY:', 'reproduces ' + str(mism[0])[:500] if mism else 'no longer fails')
        return 1 if mism else 0
    if data.get('kind') == 'stress':
        ok, out = stress(ctx, data['cycles'], data['procs'])
        print(out[-800:])
        return 0 if ok else 1
    if data.get('kind') == 'corr':
        n, mism, _ = common.corr(ctx, 'replay', data['go_cmd'], data['go_args'], data['driver_args'], ok_exit=(0, 1, 3, 66))
        print('REPLAY:', 'reproduces ' + str(mism[0])[:500] if mism else 'no longer fails')
        return 1 if mism else 0
    print(str(data)[:1500])
    return 1
