"""C01 / C02: Merkle gadgets.  T-trace + T-corr + violation search."""
import json, os, re
from . import common
from .common import Violation, TieBroken

R = str(common.BN254)


def alpha(text):
    ren = {}

    def sub(m):
        k = m.group(1)
        if k not in ren:
            ren[k] = str(len(ren))
        return 'w' + ren[k]
    return re.sub(r'\bv(\d+)', sub, text)


def tail_after_hash_binding(trace):
    lines = trace.split('\n')
    for i, l in enumerate(lines):
        if l.startswith('asserteq v0 '):
            return alpha('\n'.join(lines[i + 1:]))
    return alpha(trace)


def tail_tie(ctx, args):
    a, b = common.trace_pair(args)
    name = 'T-trace(tail) ' + ' '.join(args)
    if b.returncode != 0:
        ctx.oblige(name, False, 'harness failed')
        return [{'target': name, 'detail': b.stderr[-300:]}]
    ta, tb = tail_after_hash_binding(a.stdout), tail_after_hash_binding(b.stdout)
    if ta == tb:
        ctx.oblige(name, True, f'{ta.count(chr(10))} lines after the hash binding, alpha-normalised')
        return []
    if common.dag_signature(a.stdout) == common.dag_signature(b.stdout):
        ctx.oblige(name, True, 'texts differ but the constraint DAGs of the full circuits are equal (reordering of independent calls)')
        return []
    la, lb = ta.split('\n'), tb.split('\n')
    k = next((i for i, (x, y) in enumerate(zip(la, lb)) if x != y), min(len(la), len(lb)))
    d = {'target': name, 'first_diff_line': k + 1, 'model': la[k] if k < len(la) else '<end>', 'code': lb[k] if k < len(lb) else '<end>'}
    ctx.oblige(name, False, json.dumps(d))
    return [d]


def targets(mode, thorough):
    o = '--opaque=Poseidon2'
    t = [[o, 'ProofRound']] + [[o, 'VerifyProof', str(d)] for d in ([1, 3, 8] + ([2, 20, 32] if thorough else []))]
    if mode == 'ins':
        rounds = [1, 3, 20, 32] + ([2, 4, 8, 30, 31] if thorough else [])
        batches = [(1, 1), (2, 2), (3, 2), (8, 3), (20, 4), (30, 4), (32, 7)]
        if thorough:
            batches += [(d, b) for d in (1, 2, 3, 4, 8, 20, 30, 32) for b in (1, 2, 3, 4, 7)]
        t += [[o, 'InsertionRound', str(d)] for d in rounds]
        t += [[o, 'InsertionProof', str(d), str(b)] for d, b in sorted(set(batches))]
    else:
        rounds = [1, 3, 20, 31] + ([2, 4, 8, 30, 32] if thorough else [])
        batches = [(1, 1), (2, 2), (3, 2), (8, 3), (20, 4), (30, 4), (31, 7)]
        if thorough:
            batches += [(d, b) for d in (1, 2, 3, 4, 8, 20, 30, 31) for b in (1, 2, 3, 4, 7)]
        t += [[o, 'DeletionRound', str(d)] for d in rounds]
        t += [[o, 'DeletionProof', str(d), str(b)] for d, b in sorted(set(batches))]
    return t


THEOREMS = {
    'ins': ['Smtb.C01.insertionProof_sat_iff', 'Smtb.C01.insertionRound_sat_iff',
            'Smtb.C01.insertionRound_index_out_of_range_unsat', 'Smtb.C01.insertionRound_occupied_unsat',
            'Smtb.C01.insertion_index_nat'],
    'del': ['Smtb.C02.deletionRound_sat_iff', 'Smtb.C02.deletionProof_sat_iff', 'Smtb.C02.deletion_padding_noop',
            'Smtb.C02.deletion_padding_only_root', 'Smtb.C02.deletion_index_too_large_unsat',
            'Smtb.C02.deletion_wrong_item_unsat'],
}


DENSE = {
    'ins': ('Smtb/Properties/C01Dense.lean', ['Smtb.C01Dense.path_binding', 'Smtb.C01Dense.leaf_binding', 'Smtb.C01Dense.opening_unique',
                                               'Smtb.C01Dense.insertion_dense', 'Smtb.C01Dense.insertion_dense_noWrap',
                                               'Smtb.C01Dense.insertion_dense_original_empty', 'Smtb.C01Dense.insertion_occupied_rejected',
                                               'Smtb.C01Dense.insertion_dense_nat']),
    'del': ('Smtb/Properties/C02Dense.lean', ['Smtb.C02Dense.deletion_dense', 'Smtb.C02Dense.deletion_duplicate_zero',
                                               'Smtb.C02Dense.deletion_duplicate_stale_rejected', 'Smtb.C02Dense.deletion_wrong_item_rejected',
                                               'Smtb.C02Dense.deletion_too_large_none', 'Smtb.C02Dense.deletion_all_padding',
                                               'Smtb.C02Dense.deletion_dense_nat']),
}
TS = {
    'ins': ['proofRound_trace_iff', 'verifyProof_trace_iff', 'insertionRound_trace_iff', 'insertionProof_trace_iff', 'insertionCircuit_trace_iff_bn254'],
    'del': ['proofRound_trace_iff', 'verifyProof_trace_iff', 'deletionRound_trace_iff', 'deletionProof_trace_iff', 'deletionCircuit_trace_iff_bn254'],
}
# tree-level meaning for a REAL (non-injective) hash: completeness without any hypothesis on the hash,
# soundness up to a collision located in the tree / the presented path (C01C02Collision.lean)
COLL = {
    'ins': ['insertion_complete', 'insertion_sound_or_located_collision', 'insertionProof_poseidon_sound', 'insertionProof_poseidon_complete',
            'insertionCircuit_sound', 'no_injective_hash_zmod'],
    'del': ['deletion_complete', 'deletion_sound_or_located_collision', 'deletionProof_poseidon_sound', 'deletionProof_poseidon_complete',
            'deletionCircuit_sound', 'no_injective_hash_zmod'],
}
FULL = {
    'ins': ['Smtb.Properties.C03.insertionCircuit_sat_iff', 'Smtb.Properties.C03.insertion_start_index_overflow_unsat'],
    'del': ['Smtb.Properties.C03.deletionCircuit_sat_iff', 'Smtb.Properties.C03.deletion_index_overflow_unsat'],
}


def corr_runs(ctx, mode, n, nfull, seeds):
    found = []
    for s in seeds:
        for args in (['-seed', s, '-n', n, '-mode', mode], ['-seed', s + 1000, '-n', nfull, '-mode', mode, '-fullpct', 100]):
            cnt, mism, _ = common.corr(ctx, f'{mode}-batches', 'corrmerkle', args, ['corr', 'merkle'])
            if mism:
                found.append((args, mism))
                return found
    return found


def run(ctx, mode):
    prop = ctx.prop
    common.go_build(['trace', 'corrmerkle'])
    common.lake_build([f'Smtb.Properties.{prop}', f'Smtb.Properties.{prop}Dense', 'Smtb.Properties.C03', 'Smtb.Properties.TraceSound', 'driver'])
    common.audit(ctx, f'Smtb/Properties/{prop}.lean', THEOREMS[mode])
    # tree-level meaning (under collision-freedom of the hash as an explicit hypothesis) and the
    # full-circuit form over BN254 (stated in C03.lean, which composes C04/C05/C06 with this property)
    common.audit(ctx, DENSE[mode][0], DENSE[mode][1])
    common.audit(ctx, 'Smtb/Properties/C03.lean', FULL[mode])
    common.lake_build(['Smtb.Properties.C01C02Collision'])
    common.audit(ctx, 'Smtb/Properties/C01C02Collision.lean', ['Smtb.C01C02Collision.' + t for t in COLL[mode]])
    # kernel-checked link from the recorded trace (the text compared with the Go recorder) to the
    # Sat semantics: no parametricity step for these gadgets
    common.audit(ctx, 'Smtb/Properties/TraceSound.lean', [f'Smtb.Properties.TraceSound.{t}' for t in TS[mode]])
    ctx.assumptions += [
        "gnark v0.8.0 compiles each frontend.API call to constraints whose satisfiability is the Sat gate table (Smtb/Proofs/Sat.lean); validated by the R1CS runs of T-corr, not proved",
        "the link between the recorded trace and the Sat semantics is PROVED for these gadgets and for the full circuits with Poseidon2/Keccak opaque (Smtb/Properties/TraceSound.lean: Sat run ⇔ first-order semantics of the trace the driver prints); parametricity is still assumed for the bodies of Poseidon and Keccak (C05, C04)",
        "Poseidon2 is kept opaque in these traces; its equality with the reference hash is C05",
    ]
    ctx.trusted += ["gnark v0.8.0 frontend/R1CS builder and solver, gnark test engine (modelled by the Sat gate table)"]
    common.gates_tie(ctx)
    circ = 'Insertion' if mode == 'ins' else 'Deletion'
    tmism = common.trace_tie(ctx, targets(mode, ctx.thorough))
    # T-trace-kernel: the recorded constraint lists as Lean terms, equality with the model's trace
    # decided by the kernel, meaning theorems instantiated at the regenerated terms
    tmism += common.kernel_trace_tie(ctx, 'Ins' if mode == 'ins' else 'Del')
    for d, b in ([(3, 2), (30, 4)] + ([(1, 1), (2, 3), (8, 2), (20, 7)] if ctx.thorough else [])):
        if mode == 'del' and d > 31:
            continue
        tmism += tail_tie(ctx, ['--opaque=Poseidon2,KeccakGadget', circ, R, str(d), str(b)])
    n, nfull = ctx.pick((220, 50), (6000, 1500))
    seeds = [ctx.seed] if not ctx.thorough else [ctx.seed, ctx.seed + 1, ctx.seed + 2]
    found = corr_runs(ctx, mode, n, nfull, seeds)
    ctx.oblige(f'T-corr {mode}: real gadgets (test engine, R1CS with honest and adversarial hints, full circuit) = proved batch specification',
               not found, '' if not found else json.dumps(found[0][1][0][1:]))
    # the depth range of the deletion circuit: the index is decomposed on depth+1 bits of a 32-bit
    # value, so a padding slot needs bit `depth` of a uint32 — depth 32 has none and must be refused
    if mode == 'del' and not found:
        common.go_build(['xtool'])
        outs = {k: (common.run([os.path.join(common.HBIN, 'xtool'), 'r1cshash', 'deletion', '32', '1', k]).stdout.strip() or 'no output')[:160] for k in ('build', 'import')}
        refused = all(o.startswith('error') and 'max depth' in o for o in outs.values())
        ctx.oblige('deletion circuit of depth 32 is refused by BuildR1CSDeletion and ImportDeletionSetup', refused, json.dumps(outs))
        if not refused:
            replay = common.write_replay(ctx, 'depth', {'kind': 'depth', 'mode': 'deletion', 'depth': 32, 'batch': 1, 'observed': outs,
                                                       'recipe': 'prover.BuildR1CSDeletion(32, 1) / ImportDeletionSetup(32, 1, …) must return the depth error; at depth 32 no padding slot can be proved'})
            raise Violation(f'a deletion circuit of depth 32 is built ({json.dumps(outs)[:300]}): padding slots (index bit 32 of a 32-bit index) cannot be proved there', replay)
    # the service path named by the property ("Prove* error / Verify* result"): real Setup, Prove and
    # Verify on valid and mutated batches, at a small tree and at the deepest tree both modes support
    if not found:
        common.go_build(['corrprove'])
        word = 'insertion' if mode == 'ins' else 'deletion'
        # the deepest trees: insertion stops at depth 32, deletion at 31 (uint32 index arithmetic wraps there)
        for pargs in ([['-seed', ctx.seed, '-n', 6, '-depth', 32, '-deldepth', 31, '-batch', 1], ['-seed', ctx.seed, '-n', 8, '-depth', 2, '-batch', 2]]
                      + ([['-seed', ctx.seed + 1, '-n', 60, '-depth', 32, '-deldepth', 31, '-batch', 2], ['-seed', ctx.seed + 2, '-n', 60, '-depth', 5, '-batch', 3]] if ctx.thorough else [])):
            n_, pm, _ = common.corr(ctx, 'prove-verify', 'corrprove', pargs, ['corr', 'prove'], timeout=7200)
            pm = [m for m in pm if m[1].startswith('prove\t' + word) or m[1].startswith('verify')]
            ctx.oblige(f'T-corr service path {pargs}: real Setup/Prove/Verify = model', not pm, '' if not pm else str(pm[0][1:])[:300])
            if pm:
                from . import service
                service.report(ctx, 'prove', 'corrprove', pargs, ['corr', 'prove'], pm, 'prover/verifier')
    if not found and tmism:
        # violation search: the structural tie broke; look for a behavioural difference
        found = corr_runs(ctx, mode, 3000, 800, [ctx.seed + 7, ctx.seed + 8, ctx.seed + 9])
    if found:
        args, mism = found[0]
        i, line, code, model = mism[0]
        replay = common.write_replay(ctx, 'corr', {'kind': 'corr', 'go_cmd': 'corrmerkle', 'go_args': [str(a) for a in args],
                                                  'driver_args': ['corr', 'merkle'], 'index': i, 'case': line,
                                                  'code_says': code, 'spec_says': model, 'trace_mismatches': tmism[:3]})
        raise Violation(f'real circuit says {code}, proved specification says {model} for case #{i}: {line[:300]}', replay)
    if tmism:
        replay = common.write_replay(ctx, 'tie', {'kind': 'tie', 'tie': 'T-trace', 'mismatches': tmism[:5],
                                                 'note': 'the emitted constraint sequence differs from the proved model; the behavioural search found no failing input'})
        raise Violation('T-trace broken: ' + json.dumps(tmism[0])[:600], replay, found_input=False)
    if ctx.thorough:
        common.leanchecker(ctx, [f'Smtb.Properties.{prop}'])


def replay(ctx, data):
    common.go_build(['trace', 'corrmerkle'])
    common.lake_build(['driver'])
    if data.get('go_cmd') == 'corrprove':
        from . import service
        return service.replay(ctx, data, ['corrprove'])
    if data.get('kind') == 'corr':
        n, mism, _ = common.corr(ctx, 'replay', data['go_cmd'], data['go_args'], data['driver_args'], ok_exit=(0, 1, 3, 66))
        hit = [m for m in mism if m[0] == data['index']] or mism
        if hit:
            print(f'REPLAY reproduces: case #{hit[0][0]} code={hit[0][2]} spec={hit[0][3]}\n{hit[0][1][:500]}')
            return 1
        print('REPLAY: case no longer fails')
        return 0
    for m in data.get('mismatches', []):
        print('tie mismatch recorded:', json.dumps(m)[:500])
    return 1
