from . import simple, common
import os

THEOREMS = ['Smtb.Properties.C08.' + t for t in
            ['helperPackInsertion_eq', 'helperPackDeletion_eq', 'helper_panics_insertion', 'helper_panics_deletion',
             'pack_bits_insertion', 'pack_bits_deletion', 'helper_hash_is_circuit_hash_insertion', 'helper_hash_is_circuit_hash_deletion',
             'helper_hash_is_spec_hash_insertion', 'helper_hash_is_spec_hash_deletion', 'helper_hash_is_public_input_insertion',
             'helper_hash_is_public_input_deletion', 'pack_injective_insertion', 'pack_injective_deletion',
             'helperPackInsertionOld_partial', 'helperPackInsertionOld_defect', 'helperPackDeletionOld_defect',
             'genTestParams_insertion_valid', 'genTestParams_deletion_valid', 'genTestParams_insertion_provable',
             'genTestParams_deletion_provable']]


def run(ctx):
    seeds = [ctx.seed] if not ctx.thorough else [ctx.seed + i for i in range(3)]
    simple.run(ctx, go_cmds=['corr08'], lean_targets=['Smtb.Properties.C08'], prop_file='Smtb/Properties/C08.lean', theorems=THEOREMS,
               trace_targets=[], corr_runs=[('corr08', ['-seed', s, '-n', ctx.pick(60, 600)]) for s in seeds], search_runs=[],
               corr_name='input-hash-helpers', driver_args=['corr', 'c08'], ok_exit=(0, 3),
               what='real ComputeInputHashInsertion/Deletion, an independent x/crypto packing, and the gen-test-params code path on the real tree',
               spec='Lean helper model (proved equal to the on-chain packing and to the circuit\'s public input) with the Lean Keccak reference',
               assumptions=["the helper model is hand-written from the two ComputeInputHash* bodies; tie is behavioural: values biased to 0, 1, small, 1..5 leading zero bytes, r-1, 2^256-1; indices 0 and 2^32-1; batch 0..16",
                            "gen-test-params: the 20 lines of main.go's action are replicated in the harness on the real poseidon_tree/prover packages (the CLI itself is exercised by C19)",
                            "Keccak-256 reference of C04; Poseidon reference of C05"])
    cli_grid(ctx)


def cli_grid(ctx):
    """The real `gnark-mbu gen-test-params` on a grid of dimensions (including full trees: batch =
    2^depth for insertion, 2*batch = 2^depth for deletion) against the proved generator model."""
    import json, subprocess
    from .common import Violation
    cli = common.build_cli(ctx)
    num = lambda s: str(int(s, 0))
    lines, outs = [], []
    dims = [(m, d, b) for d in range(1, ctx.pick(5, 8)) for b in range(1, ctx.pick(5, 9)) for m in ('insertion', 'deletion')
            if (b <= 2 ** d if m == 'insertion' else 2 * b <= 2 ** d)]
    for m, d, b in dims:
        p = common.run([cli, 'gen-test-params', '--mode', m, '--tree-depth', str(d), '--batch-size', str(b)])
        try:
            j = json.loads(p.stdout)
            rows = '|'.join(','.join(num(x) for x in row) if row else '-' for row in j['merkleProofs'])
            ids = ','.join(num(x) for x in j['identityCommitments'])
            if m == 'insertion':
                got = f"ih={num(j['inputHash'])};si={j['startIndex']};pre={num(j['preRoot'])};post={num(j['postRoot'])};ids={ids};mp={rows}"
            else:
                idx = ','.join(str(x) for x in j['deletionIndices']) if j['deletionIndices'] else 'empty'
                got = f"ih={num(j['inputHash'])};idx={idx};pre={num(j['preRoot'])};post={num(j['postRoot'])};ids={ids};mp={rows}"
        except Exception as e:
            got = f'exit {p.returncode}: unparsable output ({e})'
        lines.append(f'gentest\t{m}\t{d}\t{b}')
        outs.append(got)
    d_ = common.run([common.DRIVER, 'corr', 'c08'], input='\n'.join(lines) + '\n', env=dict(os.environ))
    model = d_.stdout.split('\n')[:len(lines)]
    bad = [(l, o, mo) for l, o, mo in zip(lines, outs, model) if o != mo]
    ctx.oblige(f'real `gnark-mbu gen-test-params` on {len(lines)} dimension pairs (full trees included) = the proved generator model', not bad and len(model) == len(lines),
               '' if not bad else str(bad[0])[:300])
    ctx.extra['extra_evaluations'] = ctx.extra.get('extra_evaluations', 0) + len(lines)
    ctx.extra['extra_distinct'] = ctx.extra.get('extra_distinct', 0) + len(lines)
    if bad:
        l, o, mo = bad[0]
        replay = common.write_replay(ctx, 'cli-gentest', {'kind': 'cli-gentest', 'case': l, 'code_says': o[:3000], 'spec_says': mo[:3000],
                                                         'recipe': 'gnark-mbu gen-test-params --mode M --tree-depth D --batch-size B; compare with the model generator (provable by C08.genTestParams_*_provable)'})
        raise Violation(f'`gnark-mbu gen-test-params` prints parameters other than the provable ones of the model for {l!r}: {o[:200]} vs {mo[:200]}', replay)


def replay(ctx, data):
    return simple.replay(ctx, data, ['corr08'])
