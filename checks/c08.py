from . import simple, common
import os

THEOREMS = ['Smtb.Properties.C08.' + t for t in
            ['helperPackInsertion_eq', 'helperPackDeletion_eq', 'helper_panics_insertion', 'helper_panics_deletion',
             'pack_bits_insertion', 'pack_bits_deletion', 'helper_hash_is_circuit_hash_insertion', 'helper_hash_is_circuit_hash_deletion',
             'helper_hash_is_spec_hash_insertion', 'helper_hash_is_spec_hash_deletion', 'helper_hash_is_public_input_insertion',
             'helper_hash_is_public_input_deletion', 'pack_injective_insertion', 'pack_injective_deletion',
             'helperPackInsertionOld_partial', 'helperPackInsertionOld_defect', 'helperPackDeletionOld_defect',
             'genTestParams_insertion_valid', 'genTestParams_deletion_valid', 'genTestParams_insertion_provable',
             'genTestParams_deletion_provable']]


def run(ctx):
    seeds = [ctx.seed] if not ctx.thorough else [ctx.seed + i for i in range(3)]
    simple.run(ctx, go_cmds=['corr08'], lean_targets=['Smtb.Properties.C08'], prop_file='Smtb/Properties/C08.lean', theorems=THEOREMS,
               trace_targets=[], corr_runs=[('corr08', ['-seed', s, '-n', ctx.pick(60, 600)]) for s in seeds], search_runs=[],
               corr_name='input-hash-helpers', driver_args=['corr', 'c08'], ok_exit=(0, 3),
               what='real ComputeInputHashInsertion/Deletion, an independent x/crypto packing, and the gen-test-params code path on the real tree',
               spec='Lean helper model (proved equal to the on-chain packing and to the circuit\'s public input) with the Lean Keccak reference',
               assumptions=["the helper model is hand-written from the two ComputeInputHash* bodies; tie is behavioural: values biased to 0, 1, small, 1..5 leading zero bytes, r-1, 2^256-1; indices 0 and 2^32-1; batch 0..16",
                            "gen-test-params: the 20 lines of main.go's action are replicated in the harness on the real poseidon_tree/prover packages (the CLI itself is exercised by C19)",
                            "Keccak-256 reference of C04; Poseidon reference of C05"])


def replay(ctx, data):
    return simple.replay(ctx, data, ['corr08'])
