from . import simple, common

R = str(common.BN254)
THEOREMS = ['Smtb.C05.poseidon2_sat', 'Smtb.C05.poseidon1_sat', 'Smtb.C05.poseidon2_unique', 'Smtb.C05.poseidon1_unique',
            'Smtb.C05.poseidon_params', 'Smtb.C05.poseidon_params_agree', 'Smtb.C05.poseidon_vectors',
            'Smtb.C05.poseidon2_satisfiable']


def run(ctx):
    common.lake_build(['Smtb.Properties.TraceSound2'])
    common.audit(ctx, 'Smtb/Properties/TraceSound2.lean', ['Smtb.Properties.TraceSound2.poseidon1_trace_iff', 'Smtb.Properties.TraceSound2.poseidon2_trace_iff'])
    n = ctx.pick(1500, 60000)
    seeds = [ctx.seed] if not ctx.thorough else [ctx.seed + i for i in range(4)]
    simple.run(ctx, go_cmds=['trace', 'corrposeidon'], lean_targets=['Smtb.Properties.C05'],
               prop_file='Smtb/Properties/C05.lean', theorems=THEOREMS,
               gates=True, trace_targets=[['Poseidon1'], ['Poseidon2']], kernel_family='Poseidon',
               corr_runs=[('corrposeidon', ['-seed', s, '-n', n]) for s in seeds],
               search_runs=[('corrposeidon', ['-seed', ctx.seed + 50 + i, '-n', 20000]) for i in range(2)],
               corr_name='poseidon', driver_args=['corr', 'poseidon'], const={'tables': 'ok'},
               what='Poseidon gadget (test engine + R1CS) with iden3 / textbook output', spec='Lean reference Poseidon (proved equal to the gadget)',
               assumptions=[
                   "generator: besides edge/sparse/dense/random values, a fifth of the cases are steered (by inverting the first one or two rounds with the tables) so that state elements entering the first or second MDS layer are 0, 1 or p-1; after all evaluations the parameter tables must be unchanged and Poseidon2(1,2) is re-evaluated in the engine and a freshly compiled R1CS",
                   "gate table for Add/Mul (no hints are involved); the link from the expanded trace to the Sat semantics is proved (poseidon2_trace_iff): no parametricity assumption",
                   "the reference tables in Smtb/Circuit/PoseidonTables.lean are a snapshot; T-trace compares every constant with /repo's tables (each appears as an operand in the expanded trace); 'equals circomlib/iden3' is validated against github.com/iden3/go-iden3-crypto/poseidon and two published vectors (kernel-checked), not proved",
               ],
               trusted=["iden3 go-iden3-crypto v0.0.13 poseidon.Hash as the external statement of 'the reference Poseidon' on BN254"])


def replay(ctx, data):
    return simple.replay(ctx, data, ['trace', 'corrposeidon'])
