"""C11 / C15: proving-system file framing."""
import os
from . import common
from .common import Violation

TH11 = ['Smtb.File.header_length', 'Smtb.File.header_roundtrip', 'Smtb.File.read_write_append', 'Smtb.File.read_write',
        'Smtb.File.depth_batch_not_swapped', 'Smtb.File.convertToRaw_compressed', 'Smtb.File.convertToRaw_preserves',
        'Smtb.File.convertToRaw_raw', 'Smtb.File.formats_share_header_and_cs', 'Smtb.File.Toy.h1']
TH15 = ['Smtb.File.readStaged_take', 'Smtb.File.read_strict_prefix_fails', "Smtb.File.read_strict_prefix_fails'",
        'Smtb.File.read_header_cut', 'Smtb.File.read_error_no_system', 'Smtb.File.read_strict_prefix_no_system',
        'Smtb.File.read_full_ok', 'Smtb.File.read_eq_readStaged', 'Smtb.File.Toy.h1', 'Smtb.File.Toy.h2']

CONST = {'layout': 'ok', 'reload': 'ok', 'cross': 'ok', 'convert': 'ok', 'filecut': 'as-expected', 'writefault': 'ok'}


def run(ctx, which):
    prop = ctx.prop
    common.go_build(['corrfile'])
    common.lake_build([f'Smtb.Properties.{prop}', 'driver'])
    common.audit(ctx, f'Smtb/Properties/{prop}.lean', TH11 if which == 'c11' else TH15)
    ctx.assumptions += [
        "gnark's section codecs (proving key, verifying key, constraint system) are parameters of the model with hypotheses H1 (self-delimiting round trip) and, for C15, H2 (a strict prefix of a section is rejected); they are exercised here on real files, not proved",
        "the framing model is hand-written from marshal.go; ties: the file written by the real code must be header++pk++vk++cs with the model's header bytes, reloading must restore every field, and every cut must fail in the stage the model predicts",
    ]
    ctx.trusted += ["gnark v0.8.0 / gnark-crypto v0.9.1 serialisation (CBOR constraint system, compressed/raw points)"]
    if which == 'c11':
        only = {'header', 'parseheader'}
        const = CONST
        args = ['-seed', ctx.seed, '-tiny', ctx.pick(3, 12), '-real', '-cuts', 0, '-window', 0, '-dir', ctx.scratchdir()]
        ctx.assumptions.append("partial: 'the reloaded system produces proofs the original verifies' is exercised with real Groth16 (cross prove/verify both ways), the cryptography itself is not modelled")
    else:
        only = {'cut'}
        const = {k: v for k, v in CONST.items()}
        args = ['-seed', ctx.seed, '-tiny', ctx.pick(3, 10), '-real', '-cuts', ctx.pick(6, 900), '-window', ctx.pick(1, 64), '-dir', ctx.scratchdir()]
        ctx.assumptions.append("fault enumeration: EVERY cut offset of several small proving-system files (both formats); on a real 84 MB system every offset in the header, +-window around each section boundary, one byte short, and stratified random interior offsets; all 84M offsets of the real file are out of reach")
    n, mism, stats = common.corr(ctx, 'file', 'corrfile', args, ['corr', 'file'], only=only, const=const, timeout=7200)
    ctx.oblige('T-corr file: real WriteTo/WriteRawTo/UnsafeReadFrom on small and real systems = framing model', not mism,
               '' if not mism else str(mism[0][1:])[:300])
    if mism:
        i, line, code, model = mism[0]
        replay = common.write_replay(ctx, 'file', {'kind': 'corr', 'go_cmd': 'corrfile', 'go_args': [str(a) for a in args], 'driver_args': ['corr', 'file'],
                                                  'only': sorted(only), 'index': i, 'case': line, 'code_says': code, 'spec_says': model})
        what = 'truncated file' if line.startswith('cut') else 'file round trip'
        raise Violation(f'{what}: real code gives "{code[:200]}", model/specification says "{model[:200]}" for {line[:200]}', replay)
    if which == 'c11':
        convert_cli(ctx)
    else:
        truncated_cli(ctx)
    if ctx.thorough:
        common.leanchecker(ctx, [f'Smtb.Properties.{prop}'])


def convert_cli(ctx):
    """`gnark-mbu convert-to-raw` on the compressed and the raw file of a real system: into a new file,
    onto itself, and through a symlink to the input.  The result must be the raw file, byte for byte."""
    import hashlib, shutil
    d = ctx.scratchdir()
    comp, raw = os.path.join(d, 'real.compressed.keys'), os.path.join(d, 'real.raw.keys')
    if not (os.path.exists(comp) and os.path.exists(raw)):
        raise common.TieBroken('T-corr convert', 'corrfile did not leave the real system files')
    want = hashlib.sha256(open(raw, 'rb').read()).hexdigest()
    cli = common.build_cli(ctx)
    scenarios = []
    for src, label in ((comp, 'compressed'), (raw, 'raw')):
        out = os.path.join(d, f'conv-{label}.keys')
        scenarios.append((f'{label} -> new file', src, out, out))
        inplace = os.path.join(d, f'inplace-{label}.keys')
        shutil.copyfile(src, inplace)
        scenarios.append((f'{label} in place', inplace, inplace, inplace))
        target = os.path.join(d, f'linked-{label}.keys')
        shutil.copyfile(src, target)
        link = os.path.join(d, f'link-{label}.keys')
        if os.path.lexists(link):
            os.remove(link)
        os.symlink(target, link)
        scenarios.append((f'{label} via symlink to the input', target, link, target))
    bad = None
    for name, inp, outp, result in scenarios:
        p = common.run([cli, 'convert-to-raw', '--input', inp, '--output', outp], timeout=1800)
        got = hashlib.sha256(open(result, 'rb').read()).hexdigest() if os.path.exists(result) else 'missing'
        mode_ok = os.path.exists(result) and (os.stat(result).st_mode & 0o600) == 0o600
        ok = p.returncode == 0 and got == want and mode_ok
        ctx.oblige(f'CLI convert-to-raw, {name}: exit 0, the result is the raw encoding of the same system, readable and writable by its owner', ok,
                   '' if ok else f'exit {p.returncode}, result sha256 {got[:16]} (want {want[:16]}), size {os.path.getsize(result) if os.path.exists(result) else 0}: {(p.stderr or "")[-200:]}')
        ctx.extra['extra_evaluations'] = ctx.extra.get('extra_evaluations', 0) + 1
        ctx.extra['extra_distinct'] = ctx.extra.get('extra_distinct', 0) + 1
        if not ok and not bad:
            bad = (name, p.returncode, got, os.path.getsize(result) if os.path.exists(result) else 0,
                   (p.stderr or '')[-300:] + ('' if mode_ok else f' [file mode {oct(os.stat(result).st_mode & 0o7777) if os.path.exists(result) else None}: not readable/writable by its owner]'))
    for f in os.listdir(d):
        if f.endswith('.keys'):
            os.remove(os.path.join(d, f))
    if bad:
        replay = common.write_replay(ctx, 'convert', {'kind': 'convert', 'scenario': bad[0], 'exit': bad[1], 'result_sha256': bad[2], 'result_size': bad[3],
                                                     'stderr': bad[4], 'recipe': 'write a real proving system (compressed and raw); gnark-mbu convert-to-raw --input X --output Y with Y new / Y = X / Y a symlink to X'})
        raise Violation(f'convert-to-raw ({bad[0]}): exit {bad[1]}, file afterwards {bad[3]} bytes: {bad[4][-150:]}', replay)


def truncated_cli(ctx):
    """Every CLI command that loads a keys file, on strict prefixes of a real system's file in both
    formats: the command must end with a non-zero status, and `start` must never listen."""
    import socket, subprocess, time
    d = ctx.scratchdir()
    cli = common.build_cli(ctx)
    files = {'compressed': os.path.join(d, 'real.compressed.keys'), 'raw': os.path.join(d, 'real.raw.keys')}
    if not all(os.path.exists(f) for f in files.values()):
        raise common.TieBroken('T-corr truncated-cli', 'corrfile did not leave the real system files')
    full = files['compressed']
    params = common.run([cli, 'gen-test-params', '--mode', 'insertion', '--tree-depth', '3', '--batch-size', '2']).stdout
    pr = subprocess.run([cli, 'prove', '--mode', 'insertion', '--keys-file', full], input=params, capture_output=True, text=True, timeout=600)
    import json as _json
    try:
        ih = _json.loads(params)['inputHash']
        _json.loads(pr.stdout)
    except Exception:
        raise common.TieBroken('T-corr truncated-cli', f'prove with the intact keys did not print a proof: exit {pr.returncode} {pr.stderr[-300:]}')
    proof = os.path.join(d, 'proof.json')
    open(proof, 'w').write(pr.stdout)
    bad = None
    runs = 0
    for fmt, path in files.items():
        data = open(path, 'rb').read()
        n = len(data)
        for k in sorted({5, n // 3, n - 1000, n - 1}):
            cut = os.path.join(d, f'cut-{fmt}-{k}.keys')
            open(cut, 'wb').write(data[:k])
            out = os.path.join(d, 'out.tmp')
            cmds = {
                'prove': ([cli, 'prove', '--mode', 'insertion', '--keys-file', cut], params),
                'verify': ([cli, 'verify', '--mode', 'insertion', '--keys-file', cut, '--proof', proof, '--input-hash', ih], None),
                'export-vk': ([cli, 'export-vk', '--keys-file', cut, '--output', out], None),
                'export-solidity': ([cli, 'export-solidity', '--keys-file', cut, '--output', out], None),
                'convert-to-raw': ([cli, 'convert-to-raw', '--input', cut, '--output', out], None),
            }
            for name, (argv, stdin) in cmds.items():
                try:
                    r = subprocess.run(argv, input=stdin, capture_output=True, text=True, timeout=300)
                    verdict, rc = ('ok' if r.returncode != 0 else 'exit 0'), r.returncode
                except subprocess.TimeoutExpired:
                    verdict, rc = 'hang (300 s)', None
                runs += 1
                if verdict != 'ok' and not bad:
                    bad = (name, fmt, k, n, verdict)
            # start: must exit non-zero by itself and never accept a connection
            def free_port():
                with socket.socket() as sk:
                    sk.bind(('127.0.0.1', 0))
                    return sk.getsockname()[1]
            pa, ma = free_port(), free_port()
            proc = subprocess.Popen([cli, 'start', '--mode', 'insertion', '--keys-file', cut, '--prover-address', f'127.0.0.1:{pa}',
                                     '--metrics-address', f'127.0.0.1:{ma}'], stdout=subprocess.DEVNULL, stderr=subprocess.DEVNULL)
            t0, listening = time.time(), False
            while proc.poll() is None and time.time() - t0 < 60:
                for port in (pa, ma):
                    try:
                        socket.create_connection(('127.0.0.1', port), timeout=0.2).close()
                        # somebody answers: is it our process?  (the ports were free a moment ago, but
                        # another program may have taken one)
                        owner = common.run(['sh', '-c', f'ss -ltnpH "sport = :{port}" 2>/dev/null'], env=dict(os.environ)).stdout
                        if f'pid={proc.pid},' in owner or not owner.strip():
                            listening = True
                    except OSError:
                        pass
                if listening:
                    break
                time.sleep(0.05)
            if proc.poll() is None:
                proc.kill()
                proc.wait()
                verdict = 'serving on the truncated file' if listening else 'still running after 60 s without listening'
            else:
                verdict = 'ok' if proc.returncode != 0 else 'exit 0'
            runs += 1
            if verdict != 'ok' and not bad:
                bad = ('start', fmt, k, n, verdict)
            os.remove(cut)
    ctx.oblige(f'CLI on truncated keys ({runs} runs: prove, verify, export-vk, export-solidity, convert-to-raw, start x both formats x 4 cuts): '
               'non-zero exit, start never listens', not bad, '' if not bad else str(bad))
    ctx.extra['extra_evaluations'] = ctx.extra.get('extra_evaluations', 0) + runs
    ctx.extra['extra_distinct'] = ctx.extra.get('extra_distinct', 0) + runs
    for f in os.listdir(d):
        if f.endswith('.keys'):
            os.remove(os.path.join(d, f))
    if bad:
        name, fmt, k, n, verdict = bad
        replay = common.write_replay(ctx, 'truncated-cli', {'kind': 'truncated-cli', 'command': name, 'format': fmt, 'cut': k, 'file_size': n, 'observed': verdict,
                                                           'recipe': f'gnark-mbu setup --mode insertion --tree-depth 3 --batch-size 2 (format {fmt}); truncate the keys file to {k} of {n} bytes; gnark-mbu {name} --keys-file <cut>'})
        raise Violation(f'`gnark-mbu {name}` on a {fmt} keys file cut at {k} of {n} bytes: {verdict}', replay)


def replay(ctx, data):
    common.go_build(['corrfile'])
    common.lake_build(['driver'])
    if data.get('kind') in ('truncated-cli', 'convert'):
        common.run([os.path.join(common.HBIN, 'corrfile'), '-seed', '1', '-tiny', '0', '-real', '-cuts', '0', '-window', '0', '-dir', ctx.scratchdir()], timeout=3600)
        try:
            (truncated_cli if data['kind'] == 'truncated-cli' else convert_cli)(ctx)
        except Violation as v:
            print('REPLAY: reproduces ' + v.what[:600])
            return 1
        print('REPLAY: no longer fails')
        return 0
    args = list(data['go_args'])
    if '-dir' in args:
        args[args.index('-dir') + 1] = ctx.scratchdir()
    n, mism, _ = common.corr(ctx, 'replay', data['go_cmd'], args, data['driver_args'], only=set(data.get('only', [])), const=CONST, timeout=7200)
    print('REPLAY:', 'reproduces ' + str(mism[0])[:600] if mism else 'no longer fails')
    return 1 if mism else 0
