"""C11 / C15: proving-system file framing."""
from . import common
from .common import Violation

TH11 = ['Smtb.File.header_length', 'Smtb.File.header_roundtrip', 'Smtb.File.read_write_append', 'Smtb.File.read_write',
        'Smtb.File.depth_batch_not_swapped', 'Smtb.File.convertToRaw_compressed', 'Smtb.File.convertToRaw_preserves',
        'Smtb.File.convertToRaw_raw', 'Smtb.File.formats_share_header_and_cs', 'Smtb.File.Toy.h1']
TH15 = ['Smtb.File.readStaged_take', 'Smtb.File.read_strict_prefix_fails', "Smtb.File.read_strict_prefix_fails'",
        'Smtb.File.read_header_cut', 'Smtb.File.read_error_no_system', 'Smtb.File.read_strict_prefix_no_system',
        'Smtb.File.read_full_ok', 'Smtb.File.read_eq_readStaged', 'Smtb.File.Toy.h1', 'Smtb.File.Toy.h2']

CONST = {'layout': 'ok', 'reload': 'ok', 'cross': 'ok', 'convert': 'ok', 'filecut': 'as-expected'}


def run(ctx, which):
    prop = ctx.prop
    common.go_build(['corrfile'])
    common.lake_build([f'Smtb.Properties.{prop}', 'driver'])
    common.audit(ctx, f'Smtb/Properties/{prop}.lean', TH11 if which == 'c11' else TH15)
    ctx.assumptions += [
        "gnark's section codecs (proving key, verifying key, constraint system) are parameters of the model with hypotheses H1 (self-delimiting round trip) and, for C15, H2 (a strict prefix of a section is rejected); they are exercised here on real files, not proved",
        "the framing model is hand-written from marshal.go; ties: the file written by the real code must be header++pk++vk++cs with the model's header bytes, reloading must restore every field, and every cut must fail in the stage the model predicts",
    ]
    ctx.trusted += ["gnark v0.8.0 / gnark-crypto v0.9.1 serialisation (CBOR constraint system, compressed/raw points)"]
    if which == 'c11':
        only = {'header', 'parseheader'}
        const = CONST
        args = ['-seed', ctx.seed, '-tiny', ctx.pick(3, 12), '-real', '-cuts', 0, '-window', 0, '-dir', ctx.scratchdir()]
        ctx.assumptions.append("partial: 'the reloaded system produces proofs the original verifies' is exercised with real Groth16 (cross prove/verify both ways), the cryptography itself is not modelled")
    else:
        only = {'cut'}
        const = {k: v for k, v in CONST.items()}
        args = ['-seed', ctx.seed, '-tiny', ctx.pick(3, 10), '-real', '-cuts', ctx.pick(6, 900), '-window', ctx.pick(1, 64), '-dir', ctx.scratchdir()]
        ctx.assumptions.append("fault enumeration: EVERY cut offset of several small proving-system files (both formats); on a real 84 MB system every offset in the header, +-window around each section boundary, one byte short, and stratified random interior offsets; all 84M offsets of the real file are out of reach")
    n, mism, stats = common.corr(ctx, 'file', 'corrfile', args, ['corr', 'file'], only=only, const=const, timeout=7200)
    ctx.oblige('T-corr file: real WriteTo/WriteRawTo/UnsafeReadFrom on small and real systems = framing model', not mism,
               '' if not mism else str(mism[0][1:])[:300])
    if mism:
        i, line, code, model = mism[0]
        replay = common.write_replay(ctx, 'file', {'kind': 'corr', 'go_cmd': 'corrfile', 'go_args': [str(a) for a in args], 'driver_args': ['corr', 'file'],
                                                  'only': sorted(only), 'index': i, 'case': line, 'code_says': code, 'spec_says': model})
        what = 'truncated file' if line.startswith('cut') else 'file round trip'
        raise Violation(f'{what}: real code gives "{code[:200]}", model/specification says "{model[:200]}" for {line[:200]}', replay)
    if ctx.thorough:
        common.leanchecker(ctx, [f'Smtb.Properties.{prop}'])


def replay(ctx, data):
    common.go_build(['corrfile'])
    common.lake_build(['driver'])
    args = list(data['go_args'])
    if '-dir' in args:
        args[args.index('-dir') + 1] = ctx.scratchdir()
    n, mism, _ = common.corr(ctx, 'replay', data['go_cmd'], args, data['driver_args'], only=set(data.get('only', [])), const=CONST, timeout=7200)
    print('REPLAY:', 'reproduces ' + str(mism[0])[:600] if mism else 'no longer fails')
    return 1 if mism else 0
