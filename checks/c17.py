"""C17: the committed Lean extraction is what the current Go circuits extract to."""
import hashlib, json, os, re
from . import common
from .common import Violation, TieBroken

FV = os.path.join(common.REPO, 'formal-verification')
THEOREMS = ['Smtb.Properties.C17.referenced_defined', 'Smtb.Properties.C17.circuits_present']


def extract(d, b, procs=None):
    env = dict(common.GOENV)
    if procs:
        env['GOMAXPROCS'] = str(procs)
    p = common.run([os.path.join(common.HBIN, 'xtool'), 'extract', str(d), str(b)], env=env)
    return p.stdout if p.returncode == 0 else 'xtool failed: ' + p.stderr[-300:]


def regen_extract_facts():
    committed = open(os.path.join(FV, 'FormalVerification.lean')).read()
    defined = re.findall(r'^(?:def|abbrev)\s+([A-Za-z0-9_]+)', committed, re.M)
    referenced = set()
    files = [os.path.join(FV, 'Main.lean')] + [os.path.join(FV, 'FormalVerification', f) for f in sorted(os.listdir(os.path.join(FV, 'FormalVerification'))) if f.endswith('.lean')]
    for f in files:
        src = open(f).read()
        referenced |= set(re.findall(r'SemaphoreMTB\.([A-Za-z0-9_]+)', src))
        for m in re.finditer(r'open SemaphoreMTB renaming\s+([A-Za-z0-9_]+)\s*→', src):
            referenced.add(m.group(1))
        for m in re.finditer(r'open SemaphoreMTB \(([^)]*)\)', src):
            referenced |= set(m.group(1).split())
    lst = lambda xs: '[' + ', '.join(f'"{x}"' for x in xs) + ']'
    text = ('/-! regenerated on every run from /repo/formal-verification (T-facts for C17) -/\nnamespace Smtb.Gen\n\n'
            f'/-- definitions of the committed FormalVerification.lean -/\ndef extractDefined : List String :=\n  {lst(defined)}\n\n'
            f'/-- `SemaphoreMTB.*` identifiers used by Main.lean and FormalVerification/*.lean -/\ndef extractReferenced : List String :=\n  {lst(sorted(referenced))}\n\nend Smtb.Gen\n')
    path = os.path.join(common.LEAN, 'Smtb', 'Gen', 'ExtractFacts.lean')
    if not os.path.exists(path) or open(path).read() != text:
        open(path, 'w').write(text)
    return defined, sorted(referenced)


def first_diff(a, b):
    la, lb = a.split('\n'), b.split('\n')
    k = next((i for i, (x, y) in enumerate(zip(la, lb)) if x != y), min(len(la), len(lb)))
    return {'line': k + 1, 'committed': (la[k] if k < len(la) else '<end>')[:300], 'fresh': (lb[k] if k < len(lb) else '<end>')[:300]}


def run(ctx):
    ctx.level = 'translation_validation'
    common.go_build(['xtool'])
    committed = open(os.path.join(FV, 'FormalVerification.lean')).read()
    fresh = extract(30, 4)
    same = fresh == committed
    ctx.oblige('ExtractLean(30,4) is byte-identical to formal-verification/FormalVerification.lean', same,
               f'sha256 {hashlib.sha256(committed.encode()).hexdigest()[:16]} / {hashlib.sha256(fresh.encode()).hexdigest()[:16]}')
    programs, disagreements = 1, 0
    # determinism across processes / schedules
    nondet = None
    for procs in (1, 16) + ((2, 4, 7) if ctx.thorough else ()):
        again = extract(30, 4, procs)
        programs += 1
        ok = again == fresh
        ctx.oblige(f'extraction (30,4) repeated in a fresh process with GOMAXPROCS={procs} is identical', ok)
        if not ok and not nondet:
            nondet = (procs, first_diff(fresh, again))
    sweep = [(1, 1), (2, 2), (3, 2), (10, 4), (31, 1)] + ([(4, 1), (5, 8), (20, 4), (31, 2), (30, 8)] if ctx.thorough else [])
    sweep_bad = None
    for d, b in sweep:
        x, y = extract(d, b), extract(d, b, 3)
        programs += 2
        ok = x == y and x.startswith('import ProvenZk') and f'Vector F {d}' in x
        ctx.oblige(f'extraction ({d},{b}) succeeds and is deterministic', ok)
        if not ok and not sweep_bad:
            sweep_bad = (d, b, x[:200])
    # the command that writes the model (`gnark-mbu extract-circuit`, what CI runs) must produce the
    # library's extraction whatever the output path held before
    cli = common.build_cli(ctx)
    cli_bad = None
    outp = os.path.join(ctx.scratchdir(), 'model.lean')
    for d, b, label in ((30, 4, 'fresh path'), (3, 1, 'path holding a larger model'), (30, 4, 'path holding a smaller model')):
        p_ = common.run([cli, 'extract-circuit', '--output', outp, '--tree-depth', str(d), '--batch-size', str(b)])
        got = open(outp).read() if os.path.exists(outp) else ''
        want = committed if (d, b) == (30, 4) else extract(d, b)
        programs += 1
        ok = p_.returncode == 0 and got == want
        ctx.oblige(f'`gnark-mbu extract-circuit` ({d},{b}) into a {label} = ExtractLean({d},{b})', ok,
                   '' if ok else f'exit {p_.returncode}, {len(got)} bytes on disk, {len(want)} expected')
        if not ok and not cli_bad:
            cli_bad = {'depth': d, 'batch': b, 'output_state': label, 'exit': p_.returncode, 'bytes_on_disk': len(got), 'bytes_expected': len(want),
                       'first_difference': first_diff(want, got)}
    # the command reads nothing but its flags: an environment prepared for the other commands
    # (MTB_MODE is what `start`/`prove` read their mode from) must not change the model
    for envmode in ('insertion', 'deletion'):
        env = dict(os.environ, MTB_MODE=envmode)
        p_ = common.run([cli, 'extract-circuit', '--output', outp, '--tree-depth', '30', '--batch-size', '4'], env=dict(common.GOENV, MTB_MODE=envmode))
        got = open(outp).read() if os.path.exists(outp) else ''
        programs += 1
        ok = p_.returncode == 0 and got == committed
        ctx.oblige(f'`gnark-mbu extract-circuit` (30,4) with MTB_MODE={envmode} in the environment = the committed model', ok,
                   '' if ok else f'exit {p_.returncode}, {len(got)} bytes on disk, {len(committed)} expected')
        if not ok and not cli_bad:
            cli_bad = {'depth': 30, 'batch': 4, 'output_state': f'fresh path, MTB_MODE={envmode} set in the environment', 'exit': p_.returncode,
                       'bytes_on_disk': len(got), 'bytes_expected': len(committed), 'first_difference': first_diff(committed, got)}
    if os.path.exists('/dev/full'):
        p_ = common.run([cli, 'extract-circuit', '--output', '/dev/full', '--tree-depth', '3', '--batch-size', '1'])
        programs += 1
        ok = p_.returncode != 0
        ctx.oblige('`gnark-mbu extract-circuit` onto a full device reports the failure', ok, '' if ok else 'exit 0')
        if not ok and not cli_bad:
            cli_bad = {'depth': 3, 'batch': 1, 'output_state': '/dev/full (nothing can be written)', 'exit': 0, 'bytes_on_disk': 0, 'bytes_expected': 0,
                       'first_difference': {'line': 0, 'committed': 'a non-zero exit status', 'fresh': 'exit 0'}}
    # an extraction the library refuses (xtool extract prints `error …`: deletion circuits stop at depth 31) must
    # be reported by the command and must not replace an existing model
    for d, b in ((32, 1), (40, 2)):
        lib = extract(d, b)
        if not lib.startswith('error '):
            continue   # the library accepts these dimensions now: nothing to compare
        open(outp, 'w').write(committed)
        p_ = common.run([cli, 'extract-circuit', '--output', outp, '--tree-depth', str(d), '--batch-size', str(b)])
        got = open(outp).read() if os.path.exists(outp) else ''
        programs += 1
        ok = p_.returncode != 0 and got == committed
        ctx.oblige(f'`gnark-mbu extract-circuit` ({d},{b}), refused by ExtractLean: non-zero exit, existing model left as it was', ok,
                   '' if ok else f'exit {p_.returncode}, {len(got)} bytes on disk')
        if not ok and not cli_bad:
            cli_bad = {'depth': d, 'batch': b, 'output_state': 'path holding the committed model (ExtractLean returns an error for these dimensions)',
                       'exit': p_.returncode, 'bytes_on_disk': len(got), 'bytes_expected': len(committed),
                       'first_difference': first_diff(committed, got)}
    if os.path.exists(outp):
        os.remove(outp)
    # translation validation proper: the committed model, flattened (gadgets inlined, wires
    # renumbered), is the API-call trace of the current Go circuits and of the proved Lean model
    flat_bad = None
    trace_ok = True
    try:
        common.go_build(['trace'])
        common.lake_build(['driver'])
    except TieBroken as t:
        # e.g. a gadget's fields changed: the recorder harness no longer compiles.  Keep going: the
        # identifier and byte-equality checks below may still produce a concrete difference.
        trace_ok = False
        ctx.oblige('flatten(committed model) = recorder trace = model trace', False, 'trace harness does not build: ' + t.detail[-300:])
        flat_bad_tie = t
    import hashlib as _h
    for circ, defname in (('Insertion', 'InsertionMbuCircuit_4_30_4_4_30'), ('Deletion', 'DeletionMbuCircuit_4_4_30_4_4_30')):
        if not trace_ok:
            break
        fl = common.run(['python3', os.path.join(common.ROOT, 'tools', 'flatten_extraction.py'), os.path.join(FV, 'FormalVerification.lean'), defname], env=dict(os.environ))
        a, b = common.trace_pair([circ, str(common.BN254), '30', '4'])
        programs += 1
        ok = fl.returncode == 0 and b.returncode == 0 and fl.stdout == b.stdout == a.stdout
        ctx.oblige(f'flatten(committed {defname}) = recorder trace of the Go circuit = trace of the proved Lean model', ok,
                   f'{fl.stdout.count(chr(10))} lines, sha256 {_h.sha256(fl.stdout.encode()).hexdigest()[:16]}' if ok else (fl.stderr[-200:] or 'texts differ'))
        if not ok and not flat_bad:
            if fl.returncode != 0:
                flat_bad = {'circuit': circ, 'flattener_error': fl.stderr[-500:]}
            else:
                other = b.stdout if fl.stdout != b.stdout else a.stdout
                which = 'go-recorder' if fl.stdout != b.stdout else 'lean-model'
                d = first_diff(fl.stdout, other)
                flat_bad = {'circuit': circ, 'against': which, 'first_difference': {'line': d['line'], 'committed_model': d['committed'], which: d['fresh']}}
    # T-trace-kernel: the committed model, flattened with the hash gadgets kept as call lines, as a Lean
    # term; the kernel decides that it is the trace of the proved Lean program, and the end-to-end
    # meaning theorems (Smtb/Properties/GoTrace.lean) are instantiated at that term: the model under
    # formal verification denotes the specification of C01/C02/C03
    kmism = common.kernel_trace_tie(ctx, 'Extract') if trace_ok else []
    # identifier facts, decided by Lean over regenerated lists
    defined, referenced = regen_extract_facts()
    facts_err = None
    try:
        common.lake_build(['Smtb.Properties.C17'])
        common.audit(ctx, 'Smtb/Properties/C17.lean', THEOREMS)
    except TieBroken as t:
        facts_err = t
        ctx.oblige('every SemaphoreMTB.* identifier used by the proof files is defined in the committed model', False, t.detail[:300])
    missing = [r for r in referenced if r not in defined and r not in ('F',)]
    ctx.extra.update({'programs': programs, 'disagreements_checked': programs,
                      'definitions_in_model': len(defined), 'identifiers_referenced': len(referenced)})
    ctx.samples.append({'program': 'ExtractLean(30,4)', 'bytes': len(fresh), 'sha256': hashlib.sha256(fresh.encode()).hexdigest(),
                        'committed_sha256': hashlib.sha256(committed.encode()).hexdigest()})
    ctx.assumptions += ["the extractor's determinism across schedules is observed by repetition (fresh processes, several GOMAXPROCS), not proved",
                        "the proofs in /repo/formal-verification (Lean nightly-2023-07-12 + ProvenZK) cannot be rebuilt in this sandbox and are not re-checked"]
    if not same:
        replay = common.write_replay(ctx, 'extract', {'kind': 'extract', 'depth': 30, 'batch': 4, 'first_difference': first_diff(committed, fresh)})
        raise Violation('committed FormalVerification.lean differs from ExtractLean(30,4): ' + json.dumps(first_diff(committed, fresh))[:400], replay)
    if nondet:
        replay = common.write_replay(ctx, 'nondet', {'kind': 'nondet', 'gomaxprocs': nondet[0], 'first_difference': nondet[1]})
        raise Violation(f'extraction is not deterministic (GOMAXPROCS={nondet[0]}): {json.dumps(nondet[1])[:300]}', replay)
    if sweep_bad:
        replay = common.write_replay(ctx, 'sweep', {'kind': 'sweep', 'depth': sweep_bad[0], 'batch': sweep_bad[1], 'output': sweep_bad[2]})
        raise Violation(f'extraction fails or is unstable at ({sweep_bad[0]},{sweep_bad[1]})', replay)
    if cli_bad:
        replay = common.write_replay(ctx, 'cli-extract', {'kind': 'cli-extract', **cli_bad})
        raise Violation(f'`extract-circuit` ({cli_bad["depth"]},{cli_bad["batch"]}) into a {cli_bad["output_state"]}: {cli_bad["bytes_on_disk"]} bytes on disk, {cli_bad["bytes_expected"]} expected', replay)
    if flat_bad:
        replay = common.write_replay(ctx, 'flatten', {'kind': 'flatten', **flat_bad})
        raise Violation('the committed model, flattened, is not the trace of the current circuit: ' + json.dumps(flat_bad)[:400], replay)
    if missing:
        replay = common.write_replay(ctx, 'ident', {'kind': 'ident', 'missing': missing})
        raise Violation(f'proof files refer to definitions missing from the model: {missing[:5]}', replay)
    if facts_err:
        raise facts_err
    if not trace_ok:
        raise flat_bad_tie
    if kmism:
        replay = common.write_replay(ctx, 'tie', {'kind': 'tie', 'tie': 'T-trace-kernel (Smtb.Gen.GoTraceExtract)', 'mismatches': kmism[:3]})
        raise Violation('T-trace-kernel broken: ' + json.dumps(kmism[0])[:600], replay, found_input=False)


REPLAY_KINDS = ('extract',)


def replay(ctx, data):
    common.go_build(['xtool'])
    committed = open(os.path.join(FV, 'FormalVerification.lean')).read()
    fresh = extract(data.get('depth', 30), data.get('batch', 4))
    if data.get('kind') == 'extract':
        if fresh != committed:
            print('REPLAY reproduces:', json.dumps(first_diff(committed, fresh))[:500])
            return 1
        print('REPLAY: identical now')
        return 0
    print(json.dumps(data)[:1500])
    return 1
