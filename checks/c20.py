from . import simple, common

THEOREMS = ['Smtb.Metrics.inFlight_eq_open_requests', 'Smtb.Metrics.inFlight_add_finished_eq_begun',
            'Smtb.Metrics.finished_le_counted_le_begun', 'Smtb.Metrics.inFlight_zero_when_all_complete',
            'Smtb.Metrics.totals_eq_response_multiset', 'Smtb.Metrics.responses_one_per_request',
            'Smtb.Metrics.metrics_independent_of_order', 'Smtb.Metrics.metrics_independent_of_interleaving',
            'Smtb.Metrics.concurrent_eq_sequential', 'Smtb.Metrics.sequential_metrics']


def run(ctx):
    common.go_build(['corrserver', 'xtool'])
    common.lake_build(['Smtb.Properties.C20', 'driver'])
    common.audit(ctx, 'Smtb/Properties/C20.lean', THEOREMS)
    facts_err = None
    try:
        common.regen_facts()
        common.lake_build(['Smtb.Properties.C20Facts'])
        common.audit(ctx, 'Smtb/Properties/C20Facts.lean', ['Smtb.Properties.C20Facts.instrumentation_order',
                                                            'Smtb.Properties.C20Facts.servers_serve_the_muxes_directly'])
    except common.TieBroken as t:
        facts_err = t
        ctx.oblige('T-facts: in-flight outermost, counter next, handler innermost; servers serve the wrapped mux directly', False, t.detail[:300])
    ctx.assumptions += ["promhttp InstrumentHandlerInFlight/Counter semantics and label canonicalisation (assumption list P1-P6 in Smtb/Model/Metrics.lean)",
                        "the model is hand-written; the tie is behavioural: real server.Run, client-side tally of responses vs. /metrics after quiescence, sequential and concurrent histories",
                        "partial: availability of the metrics endpoint during load and the gauge bound are observed (scrape-during-load), not proved"]
    ctx.trusted += ["prometheus client_golang v1.14 (promhttp), net/http, dd-trace-go ServeMux"]
    runs = ctx.pick([['-seed', ctx.seed, '-n', 36, '-concurrent', 1, '-modes', 'deletion'],
                     ['-seed', ctx.seed + 1, '-n', 48, '-concurrent', 8, '-modes', 'insertion']],
                    [['-seed', ctx.seed + i, '-n', 400, '-concurrent', c] for i, c in enumerate((1, 4, 16, 2, 8))])
    # a request that stays inside the handler for a long time (paused upload); held much longer
    # when the handler chain changed
    slow = 45 if facts_err else ctx.pick(0, 35)
    if slow:
        runs = runs + [['-seed', ctx.seed + 9, '-n', 6, '-concurrent', 1, '-modes', 'deletion', '-slow', slow]]
    found = None
    for args in runs:
        n, mism, _ = common.corr(ctx, 'metrics', 'corrserver', args, ['corr', 'metrics'], only={'metrics'},
                                 const={'alive': 'ok', 'scrape-during-load': 'ok', 'slow-request': 'status 400'})
        if mism:
            found = (args, mism)
            break
    ctx.oblige('T-corr metrics: /metrics after quiescence = model run on the client-side tally; gauge 0; endpoint available during load', not found,
               '' if not found else str(found[1][0][1:])[:400])
    if found:
        args, mism = found
        i, line, code, model = mism[0]
        replay = common.write_replay(ctx, 'corr', {'kind': 'corr', 'go_cmd': 'corrserver', 'go_args': [str(a) for a in args],
                                                  'driver_args': ['corr', 'metrics'], 'index': i, 'case': line[:2000],
                                                  'code_says': code, 'spec_says': model})
        raise common.Violation(f'/metrics reports {code[:300]} but the responses sent were {model[:300]} (history: {line[:300]})', replay)
    hardened_proc(ctx)
    if facts_err:
        replay = common.write_replay(ctx, 'tie', {'kind': 'tie', 'tie': facts_err.tie, 'detail': facts_err.detail[:3000]})
        raise common.Violation('T-facts broken: ' + facts_err.detail[:300], replay, found_input=False)
    if ctx.thorough:
        common.leanchecker(ctx, ['Smtb.Properties.C20'])


def hardened_proc(ctx):
    """The real binary in a private mount namespace whose /proc shows processes only (what
    `ProcSubset=pid` of a hardened service unit gives: /proc/stat, /proc/meminfo … are absent): the
    metrics endpoint must still answer and report the request totals."""
    import os, re, signal, socket, subprocess, time, urllib.request, urllib.error
    probe = subprocess.run(['unshare', '-m', 'sh', '-c', 'mount -t proc -o subset=pid proc /proc && test ! -e /proc/stat'], capture_output=True)
    if probe.returncode != 0:
        ctx.assumptions.append('the restricted-/proc scenario was skipped: this sandbox does not allow a private mount namespace')
        return
    cli = common.build_cli(ctx)
    keys = os.path.join(ctx.scratchdir(), 'keys-hardened')
    p = common.run([cli, 'setup', '--mode', 'deletion', '--output', keys, '--tree-depth', '2', '--batch-size', '1'], timeout=600)
    if p.returncode != 0:
        raise common.TieBroken('cli-setup', (p.stderr or p.stdout)[-800:])

    def free_port():
        with socket.socket() as sk:
            sk.bind(('127.0.0.1', 0))
            return sk.getsockname()[1]
    pa, ma = free_port(), free_port()
    proc = subprocess.Popen(['unshare', '-m', 'sh', '-c', f'mount -t proc -o subset=pid proc /proc && exec {cli} start --mode deletion --keys-file {keys} '
                             f'--prover-address 127.0.0.1:{pa} --metrics-address 127.0.0.1:{ma}'], stdout=subprocess.DEVNULL, stderr=subprocess.DEVNULL)
    observed = 'server did not come up'
    try:
        def scrape():
            try:
                with urllib.request.urlopen(f'http://127.0.0.1:{ma}/metrics', timeout=10) as r:
                    return r.status, r.read().decode()
            except urllib.error.HTTPError as e:
                return e.code, e.read().decode(errors='replace')
            except Exception as e:
                return None, str(e)
        for _ in range(600):
            st, body = scrape()
            if st is not None:
                break
            time.sleep(0.05)
        if st is not None:
            req = urllib.request.Request(f'http://127.0.0.1:{pa}/prove', data=b'{not json', method='POST')
            try:
                urllib.request.urlopen(req, timeout=30)
                sent = 200
            except urllib.error.HTTPError as e:
                sent = e.code
            time.sleep(0.3)
            st2, body2 = scrape()
            m = re.search(r'http_requests_total\{code="400",endpoint_pattern="/prove",method="post"\} (\d+)', body2 or '')
            if st == 200 and st2 == 200 and sent == 400 and m and m.group(1) == '1':
                observed = 'ok'
            else:
                observed = f'scrape before: {st}; POST answered {sent}; scrape after: {st2} ({(body2 or "")[:160]!r}); counted 400s: {m.group(1) if m else None}'
    finally:
        proc.send_signal(signal.SIGINT)
        try:
            proc.wait(timeout=30)
        except subprocess.TimeoutExpired:
            proc.kill()
    ctx.oblige('real binary with /proc restricted to processes (ProcSubset=pid): /metrics answers 200 and counts the 400 just sent', observed == 'ok', observed)
    ctx.extra['extra_evaluations'] = ctx.extra.get('extra_evaluations', 0) + 1
    ctx.extra['extra_distinct'] = ctx.extra.get('extra_distinct', 0) + 1
    if observed != 'ok':
        replay = common.write_replay(ctx, 'hardened', {'kind': 'hardened-proc', 'observed': observed,
                                                      'recipe': 'unshare -m sh -c "mount -t proc -o subset=pid proc /proc && exec gnark-mbu start …"; POST garbage to /prove; GET /metrics'})
        raise common.Violation(f'with /proc restricted to processes the metrics endpoint does not report the totals: {observed[:300]}', replay)


def replay(ctx, data):
    common.go_build(['corrserver'])
    common.lake_build(['driver'])
    n, mism, _ = common.corr(ctx, 'replay', data['go_cmd'], data['go_args'], data['driver_args'], only={'metrics'},
                             const={'alive': 'ok', 'scrape-during-load': 'ok', 'slow-request': 'status 400'})
    if mism:
        print('REPLAY reproduces:', str(mism[0])[:800])
        return 1
    print('REPLAY: no longer fails')
    return 0
