from . import simple, common

THEOREMS = ['Smtb.Metrics.inFlight_eq_open_requests', 'Smtb.Metrics.inFlight_add_finished_eq_begun',
            'Smtb.Metrics.finished_le_counted_le_begun', 'Smtb.Metrics.inFlight_zero_when_all_complete',
            'Smtb.Metrics.totals_eq_response_multiset', 'Smtb.Metrics.responses_one_per_request',
            'Smtb.Metrics.metrics_independent_of_order', 'Smtb.Metrics.metrics_independent_of_interleaving',
            'Smtb.Metrics.concurrent_eq_sequential', 'Smtb.Metrics.sequential_metrics']


def run(ctx):
    common.go_build(['corrserver', 'xtool'])
    common.lake_build(['Smtb.Properties.C20', 'driver'])
    common.audit(ctx, 'Smtb/Properties/C20.lean', THEOREMS)
    facts_err = None
    try:
        common.regen_facts()
        common.lake_build(['Smtb.Properties.C20Facts'])
        common.audit(ctx, 'Smtb/Properties/C20Facts.lean', ['Smtb.Properties.C20Facts.instrumentation_order',
                                                            'Smtb.Properties.C20Facts.servers_serve_the_muxes_directly'])
    except common.TieBroken as t:
        facts_err = t
        ctx.oblige('T-facts: in-flight outermost, counter next, handler innermost; servers serve the wrapped mux directly', False, t.detail[:300])
    ctx.assumptions += ["promhttp InstrumentHandlerInFlight/Counter semantics and label canonicalisation (assumption list P1-P6 in Smtb/Model/Metrics.lean)",
                        "the model is hand-written; the tie is behavioural: real server.Run, client-side tally of responses vs. /metrics after quiescence, sequential and concurrent histories",
                        "partial: availability of the metrics endpoint during load and the gauge bound are observed (scrape-during-load), not proved"]
    ctx.trusted += ["prometheus client_golang v1.14 (promhttp), net/http, dd-trace-go ServeMux"]
    runs = ctx.pick([['-seed', ctx.seed, '-n', 36, '-concurrent', 1, '-modes', 'deletion'],
                     ['-seed', ctx.seed + 1, '-n', 48, '-concurrent', 8, '-modes', 'insertion']],
                    [['-seed', ctx.seed + i, '-n', 400, '-concurrent', c] for i, c in enumerate((1, 4, 16, 2, 8))])
    # a request that stays inside the handler for a long time (paused upload); held much longer
    # when the handler chain changed
    slow = 45 if facts_err else ctx.pick(0, 35)
    if slow:
        runs = runs + [['-seed', ctx.seed + 9, '-n', 6, '-concurrent', 1, '-modes', 'deletion', '-slow', slow]]
    found = None
    for args in runs:
        n, mism, _ = common.corr(ctx, 'metrics', 'corrserver', args, ['corr', 'metrics'], only={'metrics'},
                                 const={'alive': 'ok', 'scrape-during-load': 'ok', 'slow-request': 'status 400'})
        if mism:
            found = (args, mism)
            break
    ctx.oblige('T-corr metrics: /metrics after quiescence = model run on the client-side tally; gauge 0; endpoint available during load', not found,
               '' if not found else str(found[1][0][1:])[:400])
    if found:
        args, mism = found
        i, line, code, model = mism[0]
        replay = common.write_replay(ctx, 'corr', {'kind': 'corr', 'go_cmd': 'corrserver', 'go_args': [str(a) for a in args],
                                                  'driver_args': ['corr', 'metrics'], 'index': i, 'case': line[:2000],
                                                  'code_says': code, 'spec_says': model})
        raise common.Violation(f'/metrics reports {code[:300]} but the responses sent were {model[:300]} (history: {line[:300]})', replay)
    if facts_err:
        replay = common.write_replay(ctx, 'tie', {'kind': 'tie', 'tie': facts_err.tie, 'detail': facts_err.detail[:3000]})
        raise common.Violation('T-facts broken: ' + facts_err.detail[:300], replay, found_input=False)
    if ctx.thorough:
        common.leanchecker(ctx, ['Smtb.Properties.C20'])


def replay(ctx, data):
    common.go_build(['corrserver'])
    common.lake_build(['driver'])
    n, mism, _ = common.corr(ctx, 'replay', data['go_cmd'], data['go_args'], data['driver_args'], only={'metrics'},
                             const={'alive': 'ok', 'scrape-during-load': 'ok', 'slow-request': 'status 400'})
    if mism:
        print('REPLAY reproduces:', str(mism[0])[:800])
        return 1
    print('REPLAY: no longer fails')
    return 0
