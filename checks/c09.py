from . import common, service

CONST = {'alive': 'ok', 'scrape-during-load': 'ok'}


def run(ctx):
    common.go_build(['corrserver'])
    service.audit_service(ctx, 'C09')
    common.lake_build(['Smtb.Properties.C07Link'])
    common.audit(ctx, 'Smtb/Properties/C07Link.lean', ['Smtb.Properties.C07Link.respond_200_iff_circuit_satisfiable', 'Smtb.Properties.C07Link.respond_ok_iff_circuit_satisfiable'])
    ctx.assumptions += [service.IDEAL,
                        "request decoding is the C16 codec model; the circuit relation is the right-hand side of the C03 theorems",
                        "partial: 'no request makes the handler crash or hang' is a runtime fact: the model is total, the harness observes liveness (a sentinel request after each history, client timeouts, the server must stay up)"]
    ctx.trusted += ["net/http, gnark Groth16"]
    runs = [['-seed', ctx.seed, '-n', ctx.pick(45, 2500), '-concurrent', 1]]
    if ctx.thorough:
        runs += [['-seed', ctx.seed + 1, '-n', 800, '-concurrent', 1, '-depth', 3, '-batch', 2]]
    for args in runs:
        n, mism, _ = common.corr(ctx, 'prove-endpoint', 'corrserver', args, ['corr', 'req'], only={'req'}, const=CONST, timeout=7200)
        ctx.oblige(f'T-corr /prove {args}: status, error code and verifying proof of a real server.Run = respond', not mism,
                   '' if not mism else str(mism[0][1:])[:300])
        if mism:
            service.report(ctx, 'req', 'corrserver', args, ['corr', 'req'], mism, '/prove', only={'req'}, const=CONST)
    if ctx.thorough:
        common.leanchecker(ctx, ['Smtb.Properties.C09'])


def replay(ctx, data):
    return service.replay(ctx, data, ['corrserver'])
