from . import merkle


def run(ctx):
    merkle.run(ctx, 'del')


def replay(ctx, data):
    return merkle.replay(ctx, data)
