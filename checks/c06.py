from . import simple, common

R = str(common.BN254)
THEOREMS = ['Smtb.Properties.C06.reducedModRCheck_sat', 'Smtb.Properties.C06.toReducedBigEndian_sat', 'Smtb.Properties.C06.toReducedBigEndian_unique',
            'Smtb.Properties.C06.toReducedBigEndian_rejects_overflow', 'Smtb.Properties.C06.reducedModRCheck_rejects_alias',
            'Smtb.Properties.C06.toReducedBigEndian_alias_rejected', 'Smtb.Properties.C06.reducedModRCheck_rejects_modulus',
            'Smtb.Properties.C06.reducedModRCheck_rejects_nonboolean', 'Smtb.Properties.C06.reducedModRCheck_embed',
            'Smtb.Properties.C06.fromBinaryBigEndian_sat', 'Smtb.Properties.C06.fromBinaryBigEndian_embed', 'Smtb.Properties.C06.swapByteOrder_bitsLE',
            'Smtb.Properties.C06.natOfBits_swapByteOrder', 'Smtb.Properties.C06.natOfBytesBE_bytesBE', 'Smtb.Properties.C06.fromBinaryBigEndian_toReducedBigEndian']


def run(ctx):
    from . import common as _c
    _c.lake_build(['Smtb.Properties.TraceSound'])
    _c.audit(ctx, 'Smtb/Properties/TraceSound.lean', ['Smtb.Properties.TraceSound.' + t for t in ('reducedModRCheck_trace_iff', 'toReducedBigEndian_trace_iff', 'fromBinaryBigEndian_trace_iff')])
    primes = [R, '47', '101', '251', '65521', str(2**61 - 1)]
    widths = [8, 16, 32, 64, 248, 256]
    t = []
    for p in primes if ctx.thorough else [R, '47', '65521']:
        for n in widths if ctx.thorough else [8, 32, 256]:
            t.append(['ReducedModRCheck', p, str(n)])
            t.append(['ToReducedBigEndian', p, str(n)])
    t += [['FromBinaryBigEndian', str(n)] for n in (widths if ctx.thorough else [8, 256])]
    runs = [('corrbits', ['-seed', ctx.seed, '-n', ctx.pick(600, 20000), '-exhaustive'])]
    if ctx.thorough:
        runs += [('corrbits', ['-seed', ctx.seed + i, '-n', 20000]) for i in (1, 2)]
    simple.run(ctx, go_cmds=['trace', 'corrbits'], lean_targets=['Smtb.Properties.C06'],
               prop_file='Smtb/Properties/C06.lean', theorems=THEOREMS, trace_targets=t, gates=True, kernel_family='Bits',
               corr_runs=runs, search_runs=[('corrbits', ['-seed', ctx.seed + 60, '-n', 30000, '-exhaustive'])],
               corr_name='bits', driver_args=['corr', 'bits'],
               what='bit gadgets (test engine over many primes; BN254 R1CS with forged NBits hint)', spec='specification side of the C06 theorems',
               assumptions=["gate table for ToBinary (NBits hint = existential), Select, Or, Sub, AssertIsBoolean, AssertIsEqual, FromBinary",
                            "exhaustive part: all 256 boolean 8-digit patterns and all field values over p in {5,7,11,13,47,101,251}; on BN254 every position of the first bit differing from r"])


def replay(ctx, data):
    return simple.replay(ctx, data, ['trace', 'corrbits'])
