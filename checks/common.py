"""Shared machinery of the /verif checks: builds, ties, evidence, violations."""
import fcntl, hashlib, json, os, re, shutil, subprocess, sys, tempfile, time

ROOT = os.path.dirname(os.path.dirname(os.path.abspath(__file__)))
LEAN = os.path.join(ROOT, 'lean')
HARNESS = os.path.join(ROOT, 'harness')
DRIVER = os.path.join(LEAN, '.lake', 'build', 'bin', 'driver')
HBIN = os.path.join(HARNESS, 'bin')
BN254 = 21888242871839275222246405745257275088548364400416034343698204186575808495617
# the tree under test.  Always /repo for the registered commands; background sweeps of a committed
# snapshot may point VERIF_REPO at a snapshot of /repo so that they do not see local experiments.
REPO = os.environ.get('VERIF_REPO', '/repo')
ALLOWED_AXIOMS = {'propext', 'Classical.choice', 'Quot.sound'}
FORBIDDEN = re.compile(r'\bsorry\b|\badmit\b|^\s*axiom\s|native_decide|bv_decide|implemented_by|\bunsafe\s|maxHeartbeats\s+0')

GOENV = dict(os.environ, GOFLAGS='-mod=mod', GOPROXY='off', GOSUMDB='off', GOTOOLCHAIN='local',
             CARGO_NET_OFFLINE='true', VERIF_REPO=REPO)


class Violation(Exception):
    def __init__(self, what, replay, found_input=True):
        super().__init__(what)
        self.what, self.replay, self.found_input = what, replay, found_input


class TieBroken(Exception):
    """A proof obligation or correspondence no longer checks (not yet a concrete failing input)."""
    def __init__(self, tie, detail):
        super().__init__(f'{tie}: {detail}')
        self.tie, self.detail = tie, detail


def run(cmd, cwd=None, env=None, input=None, timeout=None, check=False):
    p = subprocess.run(cmd, cwd=cwd, env=env or GOENV, input=input, capture_output=True, text=True, timeout=timeout)
    if check and p.returncode != 0:
        raise RuntimeError(f'{cmd} failed ({p.returncode}):\n{p.stdout[-2000:]}\n{p.stderr[-4000:]}')
    return p


def repo_file_hashes():
    """sha256 of every non-test Go file and of the committed Lean extraction in the tree under test"""
    import hashlib
    out = {}
    for root, dirs, files in os.walk(REPO):
        dirs[:] = [d for d in dirs if not d.startswith('.') and not d.startswith('_')]
        for f in files:
            if (f.endswith('.go') and not f.endswith('_test.go')) or f in ('go.mod', 'FormalVerification.lean'):
                path = os.path.join(root, f)
                out[os.path.relpath(path, REPO)] = hashlib.sha256(open(path, 'rb').read()).hexdigest()
    return out


def changed_files():
    """files of /repo that differ from the tree the ties were last validated on"""
    try:
        base = json.load(open(os.path.join(ROOT, 'baseline', 'repo_files.json')))['files']
    except Exception:
        return []
    cur = repo_file_hashes()
    return sorted(k for k in set(base) | set(cur) if base.get(k) != cur.get(k))


class Ctx:
    def __init__(self, prop, tier, seed):
        # generators take the seed as a Go int64 and add small offsets: keep it in a safe range
        self.prop, self.tier, self.seed_given, self.seed = prop, tier, seed, seed % 2000000011
        self.t0 = time.time()
        self.obligations = []        # (name, ok, detail)
        self.corr = {}               # name -> stats
        self.seen = {}               # name -> set of distinct input lines (for the distinct count)
        self.samples = []
        self.assumptions = []
        self.trusted = []
        self.level = 'proof'
        self.extra = {}
        self.known_lines = []
        self.scratch = None
        self.changed = changed_files()
        self.oblige('inputs located: tree under test hashed and compared with baseline/repo_files.json', os.path.isdir(REPO),
                    f'{REPO}: {len(self.changed)} file(s) differ from the validated baseline')
        if self.changed:
            self.assumptions.append(f'the tree under test differs from the validated baseline (baseline/repo_files.json) in {len(self.changed)} file(s): {", ".join(self.changed[:8])}; numeric knobs of the quick tier widened fourfold')

    @property
    def thorough(self):
        return self.tier == 'thorough'

    def pick(self, quick, thorough):
        """Effort knob.  On a tree that differs from the one the ties were last validated on
        (baseline/repo_files.json), the quick tier widens its numeric knobs fourfold (up to the
        thorough value): a change is when rare inputs matter most."""
        if self.thorough:
            return thorough
        if (self.changed and isinstance(quick, int) and isinstance(thorough, int)
                and not isinstance(quick, bool) and thorough > quick):
            return min(thorough, quick * 4)
        return quick

    def scratchdir(self):
        if self.scratch is None:
            base = os.environ.get('VERIF_SCRATCH') or '/var/tmp'
            self.scratch = tempfile.mkdtemp(prefix=f'smtb-verif-{self.prop}-', dir=base)
        return self.scratch

    def cleanup(self):
        if self.scratch and os.path.isdir(self.scratch):
            shutil.rmtree(self.scratch, ignore_errors=True)

    def oblige(self, name, ok, detail=''):
        self.obligations.append((name, bool(ok), detail))


# ---------------------------------------------------------------- builds

_built = {}


def go_build(cmds):
    """(Re)build harness commands against /repo's current working tree."""
    shutil.copyfile(os.path.join(REPO, 'go.sum'), os.path.join(HARNESS, 'go.sum'))
    if not _built.get('replace'):
        # the harness module builds against the tree under test through a `replace` directive
        gm = open(os.path.join(HARNESS, 'go.mod')).read()
        want = f'replace worldcoin/gnark-mbu => {REPO}'
        if want + '\n' not in gm and not gm.rstrip().endswith(want):
            gm = re.sub(r'replace worldcoin/gnark-mbu => \S+', want, gm)
            open(os.path.join(HARNESS, 'go.mod'), 'w').write(gm)
        _built['replace'] = True
    os.makedirs(HBIN, exist_ok=True)
    for c in cmds:
        if _built.get(('go', c)):
            continue
        p = run(['go', 'build', '-o', os.path.join(HBIN, c), f'./cmd/{c}'], cwd=HARNESS)
        if p.returncode != 0:
            raise TieBroken('harness-build', f'harness command {c} no longer builds against /repo:\n' + (p.stderr or p.stdout)[-3000:])
        _built[('go', c)] = True


def go_build_race(cmd):
    """Build a harness command with the Go race detector (bin/<cmd>-race)."""
    if _built.get(('go-race', cmd)):
        return
    go_build([])
    p = run(['go', 'build', '-race', '-o', os.path.join(HBIN, cmd + '-race'), f'./cmd/{cmd}'], cwd=HARNESS)
    if p.returncode != 0:
        raise TieBroken('harness-build', f'race build of {cmd} failed:\n' + (p.stderr or p.stdout)[-2000:])
    _built[('go-race', cmd)] = True


def refresh_generated():
    """The generated Lean inputs (Smtb/Gen/Facts.lean) must describe /repo's CURRENT tree before
    anything that imports them is built: an earlier run on a different tree may have left another
    version behind.  Failures are left to the check that owns the facts."""
    if _built.get('generated'):
        return
    _built['generated'] = True
    try:
        go_build(['xtool'])
        regen_facts()
    except Exception:
        pass


def lake_build(targets):
    key = ('lake', tuple(targets))
    if _built.get(key):
        return
    refresh_generated()
    p = run(['lake', 'build'] + list(targets), cwd=LEAN, env=dict(os.environ))
    if p.returncode != 0:
        raise TieBroken('lean-build', 'lake build failed:\n' + (p.stdout + p.stderr)[-4000:])
    _built[key] = True


def strip_comments(src):
    # remove /- ... -/ (nested not handled beyond one level, fine for our files) and -- comments
    out, i, depth = [], 0, 0
    while i < len(src):
        if src.startswith('/-', i):
            depth += 1; i += 2; continue
        if depth and src.startswith('-/', i):
            depth -= 1; i += 2; continue
        if depth:
            if src[i] == '\n':
                out.append('\n')
            i += 1; continue
        if src.startswith('--', i):
            j = src.find('\n', i)
            i = len(src) if j < 0 else j
            continue
        out.append(src[i]); i += 1
    return ''.join(out)


def forbidden_scan():
    hits = []
    for dp, _, fs in os.walk(LEAN):
        if '.lake' in dp:
            continue
        for f in fs:
            if not f.endswith('.lean'):
                continue
            path = os.path.join(dp, f)
            src = strip_comments(open(path).read())
            for ln, line in enumerate(src.split('\n'), 1):
                if FORBIDDEN.search(line):
                    hits.append(f'{os.path.relpath(path, LEAN)}:{ln}: {line.strip()[:120]}')
    return hits


def audit(ctx, module_file, theorems):
    """Re-elaborate a Properties file and check the axioms of every expected theorem."""
    p = run(['lake', 'env', 'lean', module_file], cwd=LEAN, env=dict(os.environ))
    out = p.stdout + p.stderr
    if p.returncode != 0:
        raise TieBroken('lean-proof', f'{module_file} does not check:\n{out[-3000:]}')
    found = {}
    for m in re.finditer(r"'(\S+)' depends on axioms: \[([^\]]*)\]", out):
        found[m.group(1)] = {a.strip() for a in m.group(2).split(',') if a.strip()}
    for m in re.finditer(r"'(\S+)' does not depend on any axioms", out):
        found[m.group(1)] = set()
    for t in theorems:
        if t not in found:
            ctx.oblige(f'theorem {t}', False, 'not printed by #print axioms')
            raise TieBroken('lean-proof', f'theorem {t} missing from {module_file}')
        bad = found[t] - ALLOWED_AXIOMS
        ctx.oblige(f'theorem {t}', not bad, 'axioms: ' + ', '.join(sorted(found[t])) if found[t] else 'no axioms')
        if bad:
            raise TieBroken('lean-proof', f'theorem {t} depends on non-standard axioms {sorted(bad)}')
    hits = forbidden_scan()
    ctx.oblige('no sorry/admit/axiom/native_decide/bv_decide/unsafe in the Lean sources', not hits, '; '.join(hits[:5]))
    if hits:
        raise TieBroken('lean-proof', 'forbidden constructs: ' + '; '.join(hits[:5]))
    return found


def leanchecker(ctx, modules):
    p = run(['lake', 'env', 'leanchecker'] + modules, cwd=LEAN, env=dict(os.environ), timeout=3600)
    ok = p.returncode == 0
    ctx.oblige('leanchecker ' + ' '.join(modules), ok, (p.stdout + p.stderr)[-300:])
    if not ok:
        raise TieBroken('leanchecker', (p.stdout + p.stderr)[-2000:])


# ---------------------------------------------------------------- T-trace

def trace_pair(args):
    a = run([DRIVER, 'trace'] + args, env=dict(os.environ))
    b = run([os.path.join(HBIN, 'trace')] + args)
    return a, b


COMMUTATIVE = {'add', 'mul', 'xor', 'or', 'and'}
HINTED = {'tobinary', 'iszero'}


def dag_signature(text):
    """Structural signature of a trace: the set of constraint-DAG nodes (hash-consed; operands of
    commutative ops sorted; results of hint-bearing ops keep one identity per occurrence, numbered
    per structural key in order of appearance, because two decompositions of one value are
    independent existentials) plus the tuple of returned values.  Two traces with equal signatures
    emit the same conjunction of constraints up to reordering / duplication of deterministic calls."""
    h = {}
    occ = {}
    nodes = set()
    ret = None

    def H(*parts):
        return hashlib.sha1(repr(parts).encode()).hexdigest()[:20]

    def val(tok):
        if tok.startswith('c:'):
            return tok
        if tok not in h:
            h[tok] = 'in:' + tok          # an input: same numbering on both sides
        return h[tok]
    for line in text.split('\n'):
        if not line:
            continue
        toks = line.split(' ')
        if toks[0] == 'ret':
            ret = tuple(val(t) for t in toks[1:])
        elif toks[0] in ('assertbool', 'asserteq', 'assertdiff', 'assertle', 'markboolean'):
            args = [val(t) for t in toks[1:]]
            if toks[0] == 'asserteq':
                args.sort()
            nodes.add(H(toks[0], *args))
        elif toks[0] in ('error', 'panic'):
            nodes.add(H(line))
        elif len(toks) >= 3 and toks[1] == '=':
            lhs, op, rest = toks[0], toks[2], toks[3:]
            if op == 'call':
                name = rest[0]
                bar = rest.index('|')
                key = H('call', name, tuple(rest[1:bar]), tuple(val(t) for t in rest[bar + 1:]))
            else:
                args = [val(t) for t in rest]
                if op in COMMUTATIVE:
                    args.sort()
                key = H(op, *args)
                if op in HINTED or op.startswith('hint'):
                    k = occ.get(key, 0)
                    occ[key] = k + 1
                    key = H(key, 'occurrence', k)
            nodes.add(key)
            if '+' in lhs:
                base, n = lhs[1:].split('+')
                nodes.add(H(key, 'width', n))
                for i in range(int(n)):
                    h['v%d' % (int(base) + i)] = H(key, i)
            else:
                h[lhs] = key
        else:
            nodes.add(H('unparsed', line))
    return nodes, ret


def trace_tie(ctx, targets):
    """targets: list of argument lists for `trace`.  Returns list of mismatches (dicts)."""
    from concurrent.futures import ThreadPoolExecutor
    mism = []
    lines = 0

    def one(args):
        a, b = trace_pair(args)
        return args, a, b
    with ThreadPoolExecutor(max_workers=8) as ex:
        for args, a, b in ex.map(one, targets):
            name = ' '.join(args)
            if a.returncode != 0:
                raise RuntimeError(f'driver trace {name} failed: {a.stderr[-500:]}')
            if b.returncode != 0:
                mism.append({'target': name, 'detail': f'harness trace exited {b.returncode}: {b.stderr[-300:]}'})
                ctx.oblige(f'T-trace {name}', False, 'harness failed')
                continue
            lines += a.stdout.count('\n')
            if a.stdout == b.stdout:
                ctx.oblige(f'T-trace {name}', True, f'{a.stdout.count(chr(10))} lines, sha256 {hashlib.sha256(a.stdout.encode()).hexdigest()[:16]}')
                continue
            if dag_signature(a.stdout) == dag_signature(b.stdout):
                # secondary structural tie: same constraint DAG, different order of independent calls
                ctx.oblige(f'T-trace {name}', True, 'texts differ but the constraint DAGs are equal (reordering/duplication of independent calls; hint-bearing wires never merged)')
                ctx.extra['trace_ties_modulo_reordering'] = ctx.extra.get('trace_ties_modulo_reordering', 0) + 1
                continue
            la, lb = a.stdout.split('\n'), b.stdout.split('\n')
            k = next((i for i, (x, y) in enumerate(zip(la, lb)) if x != y), min(len(la), len(lb)))
            d = {'target': name, 'first_diff_line': k + 1,
                 'model': la[k] if k < len(la) else '<end>', 'code': lb[k] if k < len(lb) else '<end>',
                 'model_lines': len(la), 'code_lines': len(lb)}
            mism.append(d)
            ctx.oblige(f'T-trace {name}', False, json.dumps(d))
    ctx.extra['trace_lines_compared'] = ctx.extra.get('trace_lines_compared', 0) + lines
    return mism


# ---------------------------------------------------------------- T-trace-kernel

# Per family: (kind, dims).  The Go recorder's trace of each target is turned into a Lean term
# (tools/trace2lean.py), the kernel decides its equality with the trace of the proved model, and the
# generic lemmas of Smtb/Properties/GoTrace.lean are instantiated at the regenerated term.
KERNEL_FAMILIES = {
    'Ins': [('circuit-ins', (3, 2)), ('circuit-ins', (30, 4)), ('proof-ins', (3, 2)), ('round-ins', (3,)), ('round-ins', (32,))],
    'Del': [('circuit-del', (3, 2)), ('circuit-del', (30, 4)), ('proof-del', (3, 2)), ('round-del', (3,)), ('round-del', (31,))],
    'Bits': [('trbe', (251, 8)), ('trbe', (65521, 16)), ('rmc', (251, 8)), ('rmc', (65521, 16)), ('fbbe', (8,)), ('fbbe', (32,))],
    # C05: both Poseidon gadgets fully expanded (every round constant a `c:<n>` operand)
    'Poseidon': [('poseidon', (2,)), ('poseidon', (1,))],
    # C17: the text is not the Go recorder's but the flattening (tools/flatten_extraction.py, hash
    # gadgets kept as call lines) of the model COMMITTED under /repo/formal-verification
    'Extract': [('extract-ins', (30, 4)), ('extract-del', (30, 4))],
}
# thorough tier: further dimensions (their own generated modules, `GoTrace<Family>T`), incl. the
# deepest trees either mode supports and a multi-block deletion batch
KERNEL_THOROUGH = {
    'Ins': [('circuit-ins', (1, 1)), ('circuit-ins', (8, 3)), ('circuit-ins', (32, 2)), ('proof-ins', (8, 3)), ('proof-ins', (32, 2))],
    'Del': [('circuit-del', (1, 1)), ('circuit-del', (8, 3)), ('circuit-del', (31, 2)), ('circuit-del', (2, 21)), ('proof-del', (8, 3)), ('proof-del', (31, 2))],
}
EXTRACT_DEFS = {'extract-ins': 'InsertionMbuCircuit_4_30_4_4_30', 'extract-del': 'DeletionMbuCircuit_4_4_30_4_4_30'}


def _kernel_target(kind, dims):
    """-> (trace args, Lean name, Lean model trace expr, names expr, lemma instantiation maker)"""
    R = str(BN254)
    if kind in ('circuit-ins', 'circuit-del', 'extract-ins', 'extract-del'):
        d, b = dims
        circ, fn, lemma, bound = (('Insertion', 'traceInsertion', 'insertion_circuit_meaning', 32) if kind.endswith('-ins')
                                  else ('Deletion', 'traceDeletion', 'deletion_circuit_meaning', 31))
        name = f'go{circ}_{d}_{b}' if kind.startswith('circuit') else f'extracted{circ}_{d}_{b}'
        return (['--opaque=Poseidon2,KeccakGadget', circ, R, str(d), str(b)], name,
                f'traceOf ["Poseidon2", "KeccakGadget"] ({fn} Smtb.Properties.C03.r {d} {b})', None,
                lambda res: f'def {name}_meaning := {lemma} {d} {b} (by decide) {name} {name}_eq')
    if kind in ('proof-ins', 'proof-del'):
        d, b = dims
        g, fn, lemma, e = (('InsertionProof', 'traceInsertionProof', 'insertionProof_meaning', d) if kind == 'proof-ins'
                           else ('DeletionProof', 'traceDeletionProof', 'deletionProof_meaning', d + 1))
        name = f'go{g}_{d}_{b}'
        prog = f'({fn} {d} {b})'
        return (['--opaque=Poseidon2', g, str(d), str(b)], name, f'traceOf ["Poseidon2"] {prog}', f'resultOf ["Poseidon2"] {prog}',
                lambda res: (f'def {name}_meaning {{p : ℕ}} [Fact p.Prime] (hd : 2 ^ {e} ≤ p) :=\n'
                             f'  {lemma} (p := p) {d} {b} hd {name} ({res[0]}) {name}_eq (by decide +kernel)'))
    if kind in ('round-ins', 'round-del'):
        d, = dims
        g, fn, lemma, e = (('InsertionRound', 'traceInsertionRound', 'insertionRound_meaning', d) if kind == 'round-ins'
                           else ('DeletionRound', 'traceDeletionRound', 'deletionRound_meaning', d + 1))
        name = f'go{g}_{d}'
        prog = f'({fn} {d})'
        return (['--opaque=Poseidon2', g, str(d)], name, f'traceOf ["Poseidon2"] {prog}', f'resultOf ["Poseidon2"] {prog}',
                lambda res: (f'def {name}_meaning {{p : ℕ}} [Fact p.Prime] (hd : 2 ^ {e} ≤ p) :=\n'
                             f'  {lemma} (p := p) {d} hd {name} ({res[0]}) {name}_eq (by decide +kernel)'))
    if kind == 'rmc':
        P, n = dims
        name = f'goReducedModRCheck_{P}_{n}'
        return (['ReducedModRCheck', str(P), str(n)], name, f'traceOf ["Poseidon2"] (traceReducedModRCheck {P} {n})', None,
                lambda res: f'def {name}_meaning := reducedModRCheck_meaning (p := {P}) {n} {name} {name}_eq')
    if kind == 'fbbe':
        n, = dims
        name = f'goFromBinaryBigEndian_{n}'
        prog = f'(traceFromBinaryBigEndian {n})'
        return (['FromBinaryBigEndian', str(n)], name, f'traceOf ["Poseidon2"] {prog}', f'resultOf ["Poseidon2"] {prog}',
                lambda res: (f'def {name}_meaning {{p : ℕ}} :=\n  fromBinaryBigEndian_meaning (p := p) {n} {name} ({res[0]}) {name}_eq (by decide +kernel)'))
    if kind == 'poseidon':
        n, = dims
        name = f'goPoseidon{n}'
        return ([f'Poseidon{n}'], name, f'traceOf [] tracePoseidon{n}', f'resultOf [] tracePoseidon{n}',
                lambda res: (f'def {name}_meaning {{p : ℕ}} [NeZero p] :=\n  poseidon{n}_meaning (p := p) {name} ({res[0]}) {name}_eq (by decide +kernel)'))
    if kind == 'trbe':
        P, n = dims
        name = f'goToReducedBigEndian_{P}_{n}'
        prog = f'(traceToReducedBigEndian {P} {n})'
        return (['ToReducedBigEndian', str(P), str(n)], name, f'traceOf ["Poseidon2"] {prog}', f'resultOf ["Poseidon2"] {prog}',
                lambda res: (f'def {name}_meaning :=\n  toReducedBigEndian_meaning (p := {P}) {n} {name} [{", ".join(res)}] {name}_eq (by decide +kernel)'))
    raise ValueError(kind)


def kernel_trace_tie(ctx, family, kinds=None, thorough_part=False):
    """T-trace-kernel for one family.  Returns a list of mismatches (dicts).  A target whose Go
    trace text differs from the model's is left to the text/DAG tie (trace_tie) and skipped here, so
    that this tie never raises an alarm of its own on a reordering the DAG tie accepts."""
    import importlib.util
    spec = importlib.util.spec_from_file_location('trace2lean', os.path.join(ROOT, 'tools', 'trace2lean.py'))
    t2l = importlib.util.module_from_spec(spec); spec.loader.exec_module(t2l)
    out = []
    if ctx.thorough and family in KERNEL_THOROUGH and not thorough_part:
        out = kernel_trace_tie(ctx, family, kinds, thorough_part=True)
    mod = f'GoTrace{family}' + ('T' if thorough_part else '')
    body, audit_names, included, skipped = [], [], [], []
    for kind, dims in (KERNEL_THOROUGH if thorough_part else KERNEL_FAMILIES)[family]:
        if kinds and kind not in kinds:
            continue
        args, name, model_expr, res_expr, inst = _kernel_target(kind, dims)
        if kind in EXTRACT_DEFS:
            a = run([DRIVER, 'trace'] + args, env=dict(os.environ))
            b = run(['python3', os.path.join(ROOT, 'tools', 'flatten_extraction.py'), '--opaque=Poseidon2,KeccakGadget',
                     os.path.join(REPO, 'formal-verification', 'FormalVerification.lean'), EXTRACT_DEFS[kind]], env=dict(os.environ))
        else:
            a, b = trace_pair(args)
        label = ('flatten(committed model) ' if kind in EXTRACT_DEFS else '') + ' '.join(a for a in args if not a.startswith('--')).replace(str(BN254), 'r')
        if a.returncode != 0 or b.returncode != 0 or a.stdout != b.stdout:
            skipped.append(label)
            ctx.oblige(f'T-trace-kernel {label}', True, 'skipped: the recorded text differs from the model (decided by the text/DAG tie T-trace and the behavioural search)')
            continue
        lines = b.stdout.split('\n')
        if lines and lines[-1] == '':
            lines.pop()
        res = []
        if res_expr:
            ret = [l for l in lines if l.startswith('ret')]
            res = [t2l.tv(t) for t in ret[-1].split(' ')[1:]] if ret else []
        chunks = [lines[i:i + t2l.CHUNK] for i in range(0, len(lines), t2l.CHUNK)] or [[]]
        for i, ch in enumerate(chunks):
            body.append(f'def {name}_{i} : List TLine := [\n' + ',\n'.join('  ' + t2l.line(l) for l in ch) + ']')
        body.append((f'/-- the committed extracted model `{EXTRACT_DEFS[kind]}`, flattened (hash gadgets as call lines), {len(lines)} lines -/' if kind in EXTRACT_DEFS else
                     f'/-- the constraint list recorded from the Go code (`trace {" ".join(args)[:80]}`), {len(lines)} lines -/'))
        body.append(f'def {name} : List TLine := ' + ' ++ '.join(f'{name}_{i}' for i in range(len(chunks))))
        body.append(f'/-- decided by the kernel: the recorded list IS the trace of the proved Lean program -/')
        body.append(f'theorem {name}_eq : {model_expr} = {name} := by decide +kernel')
        body.append(inst(res))
        audit_names += [f'Smtb.Gen.{mod}.{name}_eq', f'Smtb.Gen.{mod}.{name}_meaning']
        included.append((label, len(lines)))
    src = ('import Smtb.Properties.GoTrace\n/-! Regenerated on every run by checks/common.py (kernel_trace_tie) from the Go recorder\'s trace of the\ntree under test.  Do not edit. -/\n'
           'set_option maxRecDepth 1000000\nset_option linter.defProp false\n'
           f'namespace Smtb.Gen.{mod}\nopen Smtb Smtb.TraceSound Smtb.TraceHarness Smtb.Properties.GoTrace\n\n'
           + '\n'.join(body) + f'\n\nend Smtb.Gen.{mod}\n')
    gen = os.path.join(LEAN, 'Smtb', 'Gen', mod + '.lean')
    if not os.path.exists(gen) or open(gen).read() != src:
        open(gen, 'w').write(src)
    aud = os.path.join(LEAN, 'Smtb', 'Gen', mod + 'Audit.lean')
    asrc = f'import Smtb.Gen.{mod}\n' + '\n'.join(f'#print axioms {n}' for n in audit_names) + '\n'
    if not os.path.exists(aud) or open(aud).read() != asrc:
        open(aud, 'w').write(asrc)
    ctx.extra.setdefault('kernel_trace_tie', {})[mod] = {'included': included, 'skipped': skipped}
    note = 'T-trace-kernel: tools/trace2lean.py (recorded text -> Lean term `List TLine`, line by line, the inverse of TLine.render) and, for C17, tools/flatten_extraction.py; the equality with the model trace and the meaning theorems are checked by the Lean kernel (decide +kernel, no native_decide)'
    if note not in ctx.trusted:
        ctx.trusted.append(note)
    if not included:
        return out
    try:
        lake_build(['Smtb.Properties.GoTrace'])
        audit(ctx, 'Smtb/Properties/GoTrace.lean', ['Smtb.Properties.GoTrace.' + t for t in (
            'insertion_circuit_meaning', 'deletion_circuit_meaning', 'insertionProof_meaning', 'deletionProof_meaning', 'toReducedBigEndian_meaning',
            'poseidon2_meaning', 'poseidon1_meaning', 'insertionRound_meaning', 'deletionRound_meaning', 'reducedModRCheck_meaning',
            'fromBinaryBigEndian_meaning')])
        _built.pop(('lake', (f'Smtb.Gen.{mod}',)), None)
        lake_build([f'Smtb.Gen.{mod}'])
        audit(ctx, f'Smtb/Gen/{mod}Audit.lean', audit_names)
    except TieBroken as t:
        for label, n in included:
            ctx.oblige(f'T-trace-kernel {label}', False, t.detail[-400:])
        return out + [{'target': f'T-trace-kernel {mod}', 'detail': t.detail[-1500:]}]
    for label, n in included:
        ctx.oblige(f'T-trace-kernel {label}', True, f'{n} recorded lines: equality with the model trace decided by the kernel; meaning theorem instantiated at the regenerated term')
    if ctx.thorough:
        leanchecker(ctx, [f'Smtb.Gen.{mod}'])
    return out


# ---------------------------------------------------------------- T-corr-gates (validation of the gate table)

def gates_tie(ctx):
    """The Sat gate table (Smtb/Proofs/Sat.lean) against what gnark really compiles: 84 micro-circuit
    variants compiled to R1CS over BN254 and the 47-element field; satisfiability over all prover
    choices decided by our evaluator; compared with the executable transcription of the table
    (Driver/GateCmd.lean, proved equivalent to satApi in Smtb/Proofs/GateTableExec.lean)."""
    go_build(['corrgates'])
    args = ['-seed', ctx.seed, '-n', ctx.pick(3, 150)]
    n, mism, _ = corr(ctx, 'gate-table', 'corrgates', args, ['corr', 'gates'], timeout=7200)
    if not mism and ctx.thorough:
        n2, mism, _ = corr(ctx, 'gate-table-exhaustive-F47', 'corrgates', ['-exhaustive'], ['corr', 'gates'], timeout=7200)
    ctx.oblige('T-corr-gates: gnark v0.8.0 R1CS of every API op used by the circuits = Sat gate table', not mism,
               '' if not mism else str(mism[0][1:])[:300])
    if mism:
        raise TieBroken('T-corr-gates', 'the gate table no longer matches the compiled constraints: ' + str(mism[0][1:])[:500])


# ---------------------------------------------------------------- T-corr

def corr(ctx, name, go_cmd, go_args, driver_args, timeout=3600, only=None, const=None, ok_exit=(0,)):
    """Run a harness generator and the Lean driver on the same lines; compare.
    Returns (n_cases, mismatches [(index, line, code, model)], stats)."""
    for attempt in range(4):
        g = run([os.path.join(HBIN, go_cmd)] + [str(a) for a in go_args], timeout=timeout)
        # the harness picks free TCP ports by binding port 0 and releasing it; another process on the
        # machine can take the port before the server under test binds it.  That is not an observation
        # about the code: run the generator again (same seed, same cases).
        if g.returncode not in ok_exit and 'address already in use' in (g.stderr or '') and 'BIND-FAILURE' not in (g.stdout or ''):
            time.sleep(1 + attempt)
            continue
        break
    ctx.last_stderr = g.stderr
    if g.returncode not in ok_exit:
        raise TieBroken(f'T-corr {name}', f'harness {go_cmd} exited {g.returncode}: {(g.stderr or g.stdout)[-1500:]}')
    lines, expect, const_mism = [], [], []
    for ln in g.stdout.split('\n'):
        if not ln:
            continue
        if '\t=>\t' not in ln:
            if ln.startswith('ignoring uninitialized slice'):
                continue   # printed to stdout by gnark's schema walker for nil slices
            raise RuntimeError(f'bad harness line: {ln[:200]}')
        l, r = ln.split('\t=>\t', 1)
        kind = l.split('\t', 1)[0]
        if const and kind in const:
            # lines whose expected answer is a constant of the protocol (liveness, availability)
            st0 = ctx.corr.setdefault(name + ':' + kind, {'cases': 0, 'distinct': 0, 'mismatches': 0, 'distribution': {}, 'runs': []})
            seen0 = ctx.seen.setdefault(name + ':' + kind, set()); seen0.add(l)
            st0['cases'] += 1; st0['distinct'] = len(seen0)
            if r != const[kind]:
                st0['mismatches'] += 1
                const_mism.append((len(lines), l, r, const[kind]))
            continue
        if only and kind not in only:
            continue
        lines.append(l); expect.append(r)
    d = run([DRIVER] + driver_args, input='\n'.join(lines) + ('\n' if lines else ''), env=dict(os.environ), timeout=timeout)
    if d.returncode != 0:
        raise RuntimeError(f'driver {driver_args} failed: {d.stderr[-500:]}')
    got = d.stdout.split('\n')
    if got and got[-1] == '':
        got.pop()
    if len(got) != len(lines):
        raise RuntimeError(f'driver answered {len(got)} lines for {len(lines)} cases')
    mism = const_mism + [(i, lines[i], expect[i], got[i]) for i in range(len(lines)) if expect[i] != got[i]]
    n_const = sum(v['cases'] for k, v in ctx.corr.items() if k.startswith(name + ':'))
    if not lines and not n_const:
        raise TieBroken(f'T-corr {name}', f'harness {go_cmd} {go_args} produced no case at all: {(g.stderr or "")[-500:]}')
    if g.returncode != 0 and not mism:
        # an accepted non-zero status means the harness's own cross-checks failed; if the line-by-line
        # comparison shows nothing, the failure must not go unnoticed
        raise TieBroken(f'T-corr {name}', f'harness {go_cmd} exited {g.returncode} (its internal cross-checks failed) although every line agrees with the model: {(g.stderr or "")[-1500:]}')
    stats = {}
    for sl in g.stderr.strip().split('\n'):
        sl = sl.strip()
        if sl.startswith('{'):
            try:
                stats = json.loads(sl)
            except Exception:
                pass
    seen = ctx.seen.setdefault(name, set()); seen.update(lines)
    st = ctx.corr.setdefault(name, {'cases': 0, 'distinct': 0, 'mismatches': 0, 'distribution': {}, 'runs': []})
    st['cases'] += len(lines); st['distinct'] = len(seen); st['mismatches'] += len(mism)
    st['runs'].append({'cmd': go_cmd + ' ' + ' '.join(str(a) for a in go_args), 'cases': len(lines), 'distribution': stats})
    if lines and len(ctx.samples) < 6:
        ctx.samples.append({'corr': name, 'case': lines[0][:400], 'code': expect[0][:200], 'model': got[0][:200]})
    return len(lines), mism, stats


# ---------------------------------------------------------------- known findings / evidence / reporting

def known_findings(prop):
    path = os.path.join(ROOT, 'known_findings.json')
    if not os.path.exists(path):
        return []
    return [f for f in json.load(open(path)).get('findings', []) if f.get('property') == prop]


def write_replay(ctx, slug, payload):
    os.makedirs(os.path.join(ROOT, 'replays'), exist_ok=True)
    path = os.path.join(ROOT, 'replays', f'{ctx.prop}-{slug}.json')
    payload = dict(payload, property=ctx.prop, tier=ctx.tier, seed=ctx.seed)
    with open(path, 'w') as f:
        json.dump(payload, f, indent=1)
    return path


def write_evidence(ctx, violations):
    ob = len(ctx.obligations)
    dis = sum(1 for o in ctx.obligations if o[1])
    evals = sum(s['cases'] for s in ctx.corr.values()) + ctx.extra.get('extra_evaluations', 0)
    distinct = sum(s['distinct'] for s in ctx.corr.values()) + ctx.extra.get('extra_distinct', 0)
    cov = {
        'obligations': ob, 'discharged': dis,
        'checker_cmd': f'cd /verif && bin/check {ctx.prop} --tier {ctx.tier}   (lake build; lake env lean Smtb/Properties/{ctx.prop}.lean; ties; T-corr)',
        'trusted_base': ctx.trusted,
        'evaluations': evals, 'distinct_nontrivial': distinct,
        'rule': ctx.extra.get('rule', 'cases are generated by the harness from one PRNG (VERIF_SEED); distinct = distinct input lines; every case exercises the real code and the Lean model'),
        'samples': ctx.samples or [{'obligation': o[0], 'ok': o[1], 'detail': o[2][:200]} for o in ctx.obligations[:3]],
        'obligation_list': [{'name': o[0], 'ok': o[1], 'detail': o[2][:300]} for o in ctx.obligations],
        'correspondence': ctx.corr,
        'explanation': ctx.extra.get('explanation', ''),
    }
    for k, v in ctx.extra.items():
        if k not in ('rule', 'explanation', 'extra_evaluations', 'extra_distinct'):
            cov[k] = v
    if not cov['explanation']:
        if ctx.level == 'other':
            cov['explanation'] = 'the run ended before the property module described itself; see obligation_list for what was checked and what failed'
        else:
            del cov['explanation']
    if not cov['samples']:
        cov['samples'] = [{'note': 'the run ended before any case was generated', 'obligations': ob}]
    ev = {'property_id': ctx.prop, 'tier': ctx.tier, 'seed': ctx.seed_given, 'level': ctx.level, 'coverage': cov,
          'assumptions': ctx.assumptions, 'wall_s': round(time.time() - ctx.t0, 2), 'violations': violations}
    os.makedirs(os.path.join(ROOT, 'evidence'), exist_ok=True)
    with open(os.path.join(ROOT, 'evidence', f'{ctx.prop}.json'), 'w') as f:
        json.dump(ev, f, indent=1)


class Lock:
    def __enter__(self):
        self.f = open(os.path.join(ROOT, '.lock'), 'w')
        fcntl.flock(self.f, fcntl.LOCK_EX)
        return self

    def __exit__(self, *a):
        fcntl.flock(self.f, fcntl.LOCK_UN)
        self.f.close()


# ---------------------------------------------------------------- misc helpers

def build_cli(ctx):
    """Build the real gnark-mbu binary from /repo's current tree into the scratch dir."""
    out = os.path.join(ctx.scratchdir(), 'gnark-mbu')
    if not os.path.exists(out):
        p = run(['go', 'build', '-o', out, '.'], cwd=REPO)
        if p.returncode != 0:
            raise TieBroken('cli-build', (p.stderr or p.stdout)[-2000:])
    return out


def regen_facts():
    """T-facts: regenerate Smtb/Gen/Facts.lean from the current tree."""
    p = run([os.path.join(HBIN, 'xtool'), 'facts'])
    if p.returncode != 0:
        raise TieBroken('T-facts', 'xtool facts failed: ' + p.stderr[-1000:])
    path = os.path.join(LEAN, 'Smtb', 'Gen', 'Facts.lean')
    old = open(path).read() if os.path.exists(path) else None
    if old != p.stdout:
        open(path, 'w').write(p.stdout)
    return p.stdout
