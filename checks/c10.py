from . import simple

THEOREMS = ['Smtb.Properties.C10.' + t for t in
            ['unmarshal_marshal', 'decoded_coordinates', 'marshalWords_eq', 'marshal_order', 'coordinate_too_long_rejected',
             'coordinate_placement', 'negative_placed_as_magnitude', 'unmarshalOld_partial', 'unmarshalOld_defect', 'unmarshal_defectBuf']]


def run(ctx):
    seeds = [ctx.seed] if not ctx.thorough else [ctx.seed + i for i in range(3)]
    simple.run(ctx, go_cmds=['corr10'], lean_targets=['Smtb.Properties.C10'], prop_file='Smtb/Properties/C10.lean', theorems=THEOREMS,
               trace_targets=[], corr_runs=[('corr10', ['-seed', s, '-n', ctx.pick(150, 3000)]) for s in seeds], search_runs=[],
               corr_name='proof-json', driver_args=['corr', 'c10'], ok_exit=(0, 3),
               what='real json.Marshal/Unmarshal of prover.Proof on proofs built from real curve points (incl. points with very small coordinates)',
               spec='Lean model of the 256-byte buffer <-> eight hex words codec (round trip proved for every buffer)',
               assumptions=["assumed about gnark-crypto and validated here: WriteRawTo lays out A.x A.y | B.x.A1 B.x.A0 B.y.A1 B.y.A0 | C.x C.y (32 bytes each) and ReadFrom∘WriteRawTo = id on valid proofs",
                            "synthetic proofs are valid curve/subgroup points but not valid Groth16 proofs; the codec does not care; real proofs go through the same code in C07/C09/C19",
                            "mutated documents are restricted to formatting changes (same numbers) and codec failures, because the real decoder additionally validates points"])


def replay(ctx, data):
    return simple.replay(ctx, data, ['corr10'])
