import argparse, importlib, json, os, sys, traceback
from . import common
from .common import Ctx, Violation, TieBroken, Lock

TRUSTED_COMMON = [
    "Lean 4.33.0 kernel + Mathlib v4.33.0; axioms of every property theorem within {propext, Classical.choice, Quot.sound} (audited on every run)",
    "the Lean compiler/runtime executing the model driver (model outputs in the ties are evaluated, not kernel-reduced)",
    "the Go harness in /verif/harness (recorder, generators, canonicalisers) and bin/check",
]


def main():
    ap = argparse.ArgumentParser()
    ap.add_argument('prop')
    ap.add_argument('--tier', default=os.environ.get('VERIF_TIER', 'quick'), choices=['quick', 'thorough'])
    ap.add_argument('--replay')
    a = ap.parse_args()
    try:
        seed = int(os.environ.get('VERIF_SEED', '1'))
    except ValueError:
        print('VERIF_SEED must be an integer', file=sys.stderr)
        sys.exit(2)
    prop = a.prop.upper()
    if not os.path.exists(os.path.join(os.path.dirname(__file__), prop.lower() + '.py')):
        print(f'unknown property {a.prop}', file=sys.stderr)
        sys.exit(2)
    mod = importlib.import_module(f'checks.{prop.lower()}')
    ctx = Ctx(prop, a.tier, seed)
    ctx.trusted = list(TRUSTED_COMMON)
    rc = 0

    def broken(tie, detail):
        # a proof obligation, a correspondence or the machinery itself no longer checks and no failing
        # input was exhibited: still a violation report (the property is not shown to hold)
        ctx.oblige(f'{tie} checks', False, detail[-300:])
        replay = common.write_replay(ctx, 'tie', {'kind': 'tie', 'tie': tie, 'detail': detail[-6000:]})
        common.write_evidence(ctx, 1)
        print(f'# broken: {tie}: {detail[-1500:]}')
        print(f'VIOLATION property={prop} replay={replay} no-failing-input-found')
        return 1

    with Lock():
        try:
            if a.replay:
                try:
                    data = json.load(open(a.replay))
                    if data.get('kind', 'corr') in getattr(mod, 'REPLAY_KINDS', ('corr',)):
                        rc = mod.replay(ctx, data)
                    else:
                        # a broken tie or a scenario without a dedicated replay: run the check again on
                        # the current tree (no evidence is written) and report whether it still fails
                        print(f"REPLAY: kind {data.get('kind')!r}: re-running the whole check; recorded: {json.dumps(data)[:600]}")
                        mod.run(ctx)
                        print('REPLAY: no longer fails')
                        rc = 0
                except Violation as v:
                    print('REPLAY: reproduces: ' + v.what[:800])
                    rc = 1
                except TieBroken as t:
                    print(f'REPLAY: still broken: {t.tie}: {t.detail[-800:]}')
                    rc = 1
                sys.exit(rc)
            try:
                mod.run(ctx)
                if ctx.thorough and not any(o[0].startswith('leanchecker') for o in ctx.obligations):
                    # independent re-check of the compiled property modules (every property, thorough tier)
                    pdir = os.path.join(common.LEAN, 'Smtb', 'Properties')
                    mods = sorted('Smtb.Properties.' + f[:-5] for f in os.listdir(pdir) if f.startswith(prop) and f.endswith('.lean'))
                    if mods:
                        common.leanchecker(ctx, mods)
                common.write_evidence(ctx, 0)
                print(f'OK property={prop} tier={a.tier} seed={seed} obligations={len(ctx.obligations)} '
                      f'cases={sum(s["cases"] for s in ctx.corr.values())} wall={round(__import__("time").time()-ctx.t0,1)}s')
            except Violation as v:
                common.write_evidence(ctx, 1)
                tail = '' if v.found_input else ' no-failing-input-found'
                print(f'# {v.what}')
                print(f'VIOLATION property={prop} replay={v.replay}{tail}')
                rc = 1
            except TieBroken as t:
                # a tie broke and the property module did not run a search itself
                rc = broken(t.tie, t.detail)
        except SystemExit:
            raise
        except Exception as e:
            # the machinery itself failed (a harness or driver crash, a timeout — a hang of the code
            # under test ends here too, a file of the tree under test that is gone): reported, with
            # the traceback as the replay, never a silent non-zero exit
            tb = traceback.format_exc()
            sys.stderr.write(tb)
            rc = 2 if a.replay else broken('machinery: ' + type(e).__name__, tb)
        finally:
            ctx.cleanup()
    sys.exit(rc)
