import argparse, importlib, json, os, sys, traceback
from . import common
from .common import Ctx, Violation, TieBroken, Lock

TRUSTED_COMMON = [
    "Lean 4.33.0 kernel + Mathlib v4.33.0; axioms of every property theorem within {propext, Classical.choice, Quot.sound} (audited on every run)",
    "the Lean compiler/runtime executing the model driver (model outputs in the ties are evaluated, not kernel-reduced)",
    "the Go harness in /verif/harness (recorder, generators, canonicalisers) and bin/check",
]


def main():
    ap = argparse.ArgumentParser()
    ap.add_argument('prop')
    ap.add_argument('--tier', default=os.environ.get('VERIF_TIER', 'quick'), choices=['quick', 'thorough'])
    ap.add_argument('--replay')
    a = ap.parse_args()
    seed = int(os.environ.get('VERIF_SEED', '1'))
    prop = a.prop.upper()
    mod = importlib.import_module(f'checks.{prop.lower()}')
    ctx = Ctx(prop, a.tier, seed)
    ctx.trusted = list(TRUSTED_COMMON)
    rc = 0
    with Lock():
        try:
            if a.replay:
                rc = mod.replay(ctx, json.load(open(a.replay)))
                sys.exit(rc)
            try:
                mod.run(ctx)
                if ctx.thorough and not any(o[0].startswith('leanchecker') for o in ctx.obligations):
                    # independent re-check of the compiled property modules (every property, thorough tier)
                    pdir = os.path.join(common.LEAN, 'Smtb', 'Properties')
                    mods = sorted('Smtb.Properties.' + f[:-5] for f in os.listdir(pdir) if f.startswith(prop) and f.endswith('.lean'))
                    if mods:
                        common.leanchecker(ctx, mods)
                common.write_evidence(ctx, 0)
                for l in ctx.known_lines:
                    print(l)
                print(f'OK property={prop} tier={a.tier} seed={seed} obligations={len(ctx.obligations)} '
                      f'cases={sum(s["cases"] for s in ctx.corr.values())} wall={round(__import__("time").time()-ctx.t0,1)}s')
            except Violation as v:
                common.write_evidence(ctx, 1)
                for l in ctx.known_lines:
                    print(l)
                tail = '' if v.found_input else ' no-failing-input-found'
                print(f'# {v.what}')
                print(f'VIOLATION property={prop} replay={v.replay}{tail}')
                rc = 1
            except TieBroken as t:
                # a tie broke and the property module did not run a search itself
                replay = common.write_replay(ctx, 'tie', {'kind': 'tie', 'tie': t.tie, 'detail': t.detail})
                common.write_evidence(ctx, 1)
                print(f'# broken: {t.tie}: {t.detail[:1500]}')
                print(f'VIOLATION property={prop} replay={replay} no-failing-input-found')
                rc = 1
        except SystemExit:
            raise
        except Exception:
            traceback.print_exc()
            rc = 2
        finally:
            ctx.cleanup()
    sys.exit(rc)
