from . import common, service

CONST = {'cli': 'ok'}


def run(ctx):
    common.go_build(['corrcli'])
    service.audit_service(ctx, 'C19')
    common.lake_build(['Smtb.Properties.C08'])
    common.audit(ctx, 'Smtb/Properties/C08.lean', ['Smtb.Properties.C08.genTestParams_insertion_provable', 'Smtb.Properties.C08.genTestParams_deletion_provable'])
    ctx.assumptions += [service.IDEAL,
                        "pipeline_composes takes 'gen-test-params output is provable' as a hypothesis; it is discharged by C08's genTestParams_*_provable (audited above)",
                        "partial: process creation, pipes, urfave/cli flag parsing and the exit status are observed on the real binary, not modelled"]
    ctx.trusted += ["urfave/cli, os/exec, the shell-level contract of exit statuses"]
    cli = common.build_cli(ctx)
    runs = [['-bin', cli, '-dir', ctx.scratchdir(), '-seed', ctx.seed, '-n', ctx.pick(4, 60), '-depth', 2, '-batch', 2],
            # the deepest trees the two modes support
            ['-bin', cli, '-dir', ctx.scratchdir(), '-seed', ctx.seed + 5, '-n', ctx.pick(1, 10), '-depth', 32, '-deldepth', 31, '-batch', 1]]
    if ctx.thorough:
        runs += [['-bin', cli, '-dir', ctx.scratchdir(), '-seed', ctx.seed + 1, '-n', 30, '-depth', 3, '-batch', 2],
                 ['-bin', cli, '-dir', ctx.scratchdir(), '-seed', ctx.seed + 2, '-n', 30, '-depth', 1, '-batch', 1]]
    for args in runs:
        n, mism, _ = common.corr(ctx, 'cli', 'corrcli', args, ['corr', 'prove'], const=CONST, timeout=7200)
        ctx.oblige(f'T-corr CLI (depth {args[args.index("-depth")+1]}): setup | gen-test-params | prove | verify on the real binary = model', not mism,
                   '' if not mism else str(mism[0][1:])[:300])
        if mism:
            service.report(ctx, 'cli', 'corrcli', args, ['corr', 'prove'], mism, 'command line', const=CONST)
    if ctx.thorough:
        common.leanchecker(ctx, ['Smtb.Properties.C19'])


def replay(ctx, data):
    return service.replay(ctx, data, ['corrcli'])
