from . import filecheck


def run(ctx):
    filecheck.run(ctx, 'c15')


REPLAY_KINDS = ('corr', 'truncated-cli', 'convert')


def replay(ctx, data):
    return filecheck.replay(ctx, data)
