"""C04: in-circuit Keccak-256 / SHA3-256 = the standard functions."""
import json
from . import common
from .common import Violation

THEOREMS = ['Smtb.Properties.C04.keccakGadget_sat', 'Smtb.Properties.C04.gadgetSpec_eq_keccak256',
            'Smtb.Properties.C04.gadgetSpec_eq_sha3_256', 'Smtb.Properties.C04.newKeccak256_sat',
            'Smtb.Properties.C04.newSHA3_256_sat', 'Smtb.Properties.C04.keccak_output_unique',
            'Smtb.Properties.C04.sha3_output_unique', 'Smtb.Properties.C04.keccak_output_bits_unique',
            'Smtb.Properties.C04.keccakGadget_inputs_bool', 'Smtb.Properties.C04.keccak_nonbool_input_unsat', 'Smtb.Properties.C04.keccakGadget_sat_iff']


def run(ctx):
    common.go_build(['trace', 'corr04', 'corrkeccak'])
    common.lake_build(['Smtb.Properties.C04', 'driver'])
    common.audit(ctx, 'Smtb/Properties/C04.lean', THEOREMS)
    common.lake_build(['Smtb.Properties.TraceSound2'])
    common.audit(ctx, 'Smtb/Properties/TraceSound2.lean', ['Smtb.Properties.TraceSound2.keccakGadget_trace_iff', 'Smtb.Properties.TraceSound2.newKeccak256_trace_iff'])
    ctx.assumptions += [
        "gate table for Xor / And / Sub (no hints in this gadget); the link between the expanded trace (the text compared with the Go recorder) and the Sat semantics is PROVED (keccakGadget_trace_iff): no parametricity assumption",
        "the FIPS-202 reference in Smtb/Model/Keccak.lean is the trusted statement of 'the standard'; it is validated against golang.org/x/crypto/sha3 on every length 0..N bytes and against kernel-evaluated known answers, not proved equal to an external artefact",
        "InputSize = len(InputData) (as at every call site); byte-aligned messages",
    ]
    ctx.trusted += ["golang.org/x/crypto/sha3 as the external statement of Keccak-256 / SHA3-256"]
    common.gates_tie(ctx)
    bits = [0, 8, 1072, 1080, 1088, 1096, 2168, 2176, 2184] + [8 * (68 + 32 * b) for b in (1, 2, 4)] + [8 * (64 + 4 * b) for b in (1, 2, 4)]
    if ctx.thorough:
        bits = sorted(set(bits + [8 * n for n in range(0, 411, 3)] + [8 * (68 + 3200), 8 * (64 + 400)]))
    targets = [['Keccak', str(dom), str(n)] for n in bits for dom in (1, 6)]
    tmism = common.trace_tie(ctx, targets)
    found = None
    runs = [('corr04', ['-seed', ctx.seed, '-n', ctx.pick(40, 400), '-maxlen', ctx.pick(140, 545), '-spec-every', ctx.pick(4, 1)], 'reference-vs-x/crypto'),
            ('corrkeccak', ['-seed', ctx.seed, '-maxlen', ctx.pick(69, 300), '-n', ctx.pick(12, 60)] + (['-r1cs'] if ctx.thorough else []), 'gadget-vs-x/crypto-vs-spec')]
    if tmism:
        runs.append(('corrkeccak', ['-seed', ctx.seed + 5, '-maxlen', 420, '-n', 40, '-r1cs'], 'search'))
    for cmd, args, name in runs:
        n, mism, _ = common.corr(ctx, name, cmd, args, ['corr', 'c04'], timeout=7200)
        if mism:
            found = (cmd, args, mism)
            break
    ctx.oblige('T-corr keccak: Lean reference = x/crypto; real gadget (test engine) accepts exactly the x/crypto digest = Lean gadget specification', not found,
               '' if not found else json.dumps(found[2][0][1:])[:300])
    if found:
        cmd, args, mism = found
        i, line, code, model = mism[0]
        replay = common.write_replay(ctx, 'corr', {'kind': 'corr', 'go_cmd': cmd, 'go_args': [str(a) for a in args], 'driver_args': ['corr', 'c04'],
                                                  'index': i, 'case': line[:3000], 'code_says': code, 'spec_says': model, 'trace_mismatches': tmism[:2]})
        raise Violation(f'message {line[:120]}…: code/standard says {code[:80]}, Lean specification says {model[:80]}', replay)
    if tmism:
        replay = common.write_replay(ctx, 'tie', {'kind': 'tie', 'tie': 'T-trace', 'mismatches': tmism[:5]})
        raise Violation('T-trace broken: ' + json.dumps(tmism[0])[:500], replay, found_input=False)
    if ctx.thorough:
        common.lake_build(['Smtb.Properties.C04KAT'])
        common.leanchecker(ctx, ['Smtb.Properties.C04'])


def replay(ctx, data):
    from . import simple
    return simple.replay(ctx, data, ['trace', 'corr04', 'corrkeccak'])
