"""C12: compilation deterministic, path-independent, one public input, depth guard."""
import hashlib, json, os
from . import common
from .common import Violation, TieBroken

R = str(common.BN254)
THEOREMS = ['Smtb.Properties.C12.insertion_one_public', 'Smtb.Properties.C12.deletion_one_public',
            'Smtb.Properties.C12.insertion_secrets', 'Smtb.Properties.C12.deletion_secrets',
            'Smtb.Properties.C12.field_order', 'Smtb.Properties.C12.deletion_depth_guard', 'Smtb.Properties.C12.modes',
            'Smtb.Properties.C12.compile_calls_uniform']


def xhash(mode, d, b, path, procs=None):
    env = dict(common.GOENV)
    if procs:
        env['GOMAXPROCS'] = str(procs)
    p = common.run([os.path.join(common.HBIN, 'xtool'), 'r1cshash', mode, str(d), str(b), path], env=env)
    return (p.stdout.strip() or p.stderr.strip()[-200:])


def observations(ctx, dims):
    """-> list of (description, observed string) per (mode, d, b)"""
    cli = common.build_cli(ctx)
    res = {}
    for mode, d, b in dims:
        obs = []
        for procs in (1, 2, 16):
            obs.append((f'xtool build GOMAXPROCS={procs}', xhash(mode, d, b, 'build', procs)))
        obs.append(('xtool build (second fresh process)', xhash(mode, d, b, 'build')))
        obs.append(('xtool import', xhash(mode, d, b, 'import')))
        f = os.path.join(ctx.scratchdir(), f'r1cs-{mode}-{d}-{b}.bin')
        p = common.run([cli, 'r1cs', '--mode', mode, '--output', f, '--tree-depth', str(d), '--batch-size', str(b)])
        if p.returncode == 0 and os.path.exists(f):
            h = hashlib.sha256(open(f, 'rb').read()).hexdigest()
            os.remove(f)
            obs.append(('gnark-mbu r1cs', h))
        else:
            obs.append(('gnark-mbu r1cs', f'exit {p.returncode}'))
        res[(mode, d, b)] = obs
    return res


def run(ctx):
    ctx.level = 'other'
    common.go_build(['xtool', 'trace'])
    facts_err = None
    try:
        common.regen_facts()
        common.lake_build(['Smtb.Properties.C12', 'driver'])
        common.audit(ctx, 'Smtb/Properties/C12.lean', THEOREMS)
    except TieBroken as t:
        facts_err = t
        ctx.oblige('T-facts: struct tags of both circuits (regenerated) satisfy the decide-checked expectations', False, t.detail[:300])
    # multi-block hash inputs matter: insertion batch >= 3 and deletion batch >= 21 put input lanes
    # into the second Keccak block
    # ... and one large circuit per run (300k constraints, 4 s per compilation): size-dependent
    # behaviour of the compiler or of options passed to it shows only there
    dims = ctx.pick([('insertion', 2, 3), ('deletion', 2, 21), ('deletion', 16, 16)],
                    [(m, d, b) for m in ('insertion', 'deletion') for d, b in ((1, 1), (2, 2), (3, 2), (4, 1), (8, 3), (20, 2), (2, 21), (3, 7), (16, 16), (30, 4))])
    if facts_err:
        dims = dims + [d for d in [('insertion', 16, 16), ('insertion', 30, 10), ('deletion', 30, 10)] if d not in dims]
    obs = observations(ctx, dims)
    bad = None
    n = 0
    for key, lst in obs.items():
        n += len(lst)
        hashes = {o[1].split(' ')[0] for o in lst}
        ok = len(hashes) == 1 and all(len(h) == 64 for h in hashes)
        pub = [o[1] for o in lst if 'public=' in o[1] and 'public=2 ' not in o[1] + ' ']
        ctx.oblige(f'compile {key}: {len(lst)} paths/processes byte-identical, public=2', ok and not pub, json.dumps(lst)[:300])
        if (not ok or pub) and not bad:
            bad = (key, lst)
    ctx.extra['extra_evaluations'] = n
    ctx.extra['extra_distinct'] = n
    ctx.samples.append({'compile': str(list(obs.keys())[0]), 'observations': list(obs.values())[0]})
    # depth guard
    # every construction path must refuse depth 32 (setup/r1cs export, key import, Lean extraction)
    g32 = xhash('deletion', 32, 1, 'build')
    g32i = xhash('deletion', 32, 1, 'import')
    px = common.run([os.path.join(common.HBIN, 'xtool'), 'extract', '32', '1'])
    g32x = (px.stdout.strip() or px.stderr.strip())[:120]
    g31 = xhash('deletion', 31, 1, 'build')
    refused = lambda o: o.startswith('error') and 'max depth' in o
    guard_ok = refused(g32) and refused(g32i) and refused(g32x) and len(g31.split(' ')[0]) == 64
    ctx.oblige('deletion depth 32 refused by BuildR1CSDeletion, ImportDeletionSetup and ExtractLean; depth 31 compiles', guard_ok,
               f'build: {g32[:60]} | import: {g32i[:60]} | extract: {g32x[:60]} | 31: {g31[:40]}')
    # ties the compiled circuits to the model
    tm = common.trace_tie(ctx, [['--opaque=Poseidon2,KeccakGadget', 'Insertion', R, '3', '2'],
                                ['--opaque=Poseidon2,KeccakGadget', 'Deletion', R, '3', '2'],
                                ['--opaque=Poseidon2', 'Insertion', R, '2', '3'],
                                ['--opaque=Poseidon2', 'Deletion', R, '2', '21'],
                                ['--opaque=Poseidon2,KeccakGadget', 'Deletion', R, '32', '1']])
    ctx.extra['explanation'] = ('Theorems: exactly one ,public field (InputHash) per circuit and the depth guard, decide-checked over facts regenerated by reflection from the current tree. '
                                'Correspondence: SHA-256 of ConstraintSystem.WriteTo across BuildR1CS*, Import*Setup and the `gnark-mbu r1cs` command, in fresh processes with GOMAXPROCS 1/2/16; GetNbPublicVariables()=2 (ONE wire + InputHash). '
                                'Partial: determinism of gnark\'s compiler under arbitrary scheduling is observed by repetition, not proved.')
    ctx.assumptions += ["frontend.Compile is a function of the circuit definition (observed by repetition across processes and GOMAXPROCS values, not proved)",
                        "gnark's schema/tag parsing as described in Smtb/Properties/C12.lean"]
    if bad:
        key, lst = bad
        replay = common.write_replay(ctx, 'compile', {'kind': 'compile', 'mode': key[0], 'depth': key[1], 'batch': key[2], 'observations': lst})
        raise Violation(f'constraint systems differ / wrong public count for {key}: {json.dumps(lst)[:400]}', replay)
    if not guard_ok:
        replay = common.write_replay(ctx, 'guard', {'kind': 'guard', 'depth32_build': g32, 'depth32_import': g32i, 'depth32_extract': g32x, 'depth31': g31})
        raise Violation(f'deletion depth guard: depth 32 build -> {g32[:60]}; import -> {g32i[:60]}; extract -> {g32x[:60]}; depth 31 -> {g31[:40]}', replay)
    if facts_err:
        replay = common.write_replay(ctx, 'tie', {'kind': 'tie', 'tie': facts_err.tie, 'detail': facts_err.detail[:3000]})
        raise Violation('T-facts broken: ' + facts_err.detail[:300], replay, found_input=False)
    if tm:
        replay = common.write_replay(ctx, 'tie', {'kind': 'tie', 'tie': 'T-trace', 'mismatches': tm[:3]})
        raise Violation('T-trace of the compiled circuits differs from the model: ' + json.dumps(tm[0])[:300], replay, found_input=False)


def replay(ctx, data):
    common.go_build(['xtool'])
    if data.get('kind') == 'compile':
        obs = observations(ctx, [(data['mode'], data['depth'], data['batch'])])
        for k, lst in obs.items():
            for o in lst:
                print(o[0], '->', o[1])
            return 0 if len({o[1].split(' ')[0] for o in lst}) == 1 else 1
    print(json.dumps(data)[:1500])
    return 1
