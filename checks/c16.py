from . import simple

THEOREMS = ['Smtb.C16.fromHex_toHex', 'Smtb.C16.decodeInsertion_encodeInsertion', 'Smtb.C16.decodeInsertion_encodeInsertion_ofNat',
            'Smtb.C16.decodeDeletion_encodeDeletion', 'Smtb.C16.decodeDeletion_encodeDeletion_ofNat',
            'Smtb.C16.fromHex_rejects_nondigit', 'Smtb.C16.fromHex_rejects_nondigit_tail', 'Smtb.C16.fromHex_empty', 'Smtb.C16.fromHex_0x',
            'Smtb.C16.fromHex_zz', 'Smtb.C16.fromHex_space1', 'Smtb.C16.fromHex_float', 'Smtb.C16.negative_not_round_trip',
            'Smtb.C16.index_out_of_range_rejected', 'Smtb.C16.deletion_index_out_of_range_rejected', 'Smtb.C16.decoded_startIndex_lt',
            'Smtb.C16.decoded_deletionIndices_lt', 'Smtb.C16.decoded_values_from_fromHex', 'Smtb.C16.decoded_values_from_fromHex_del',
            'Smtb.C16.decode_error_no_value', 'Smtb.C16.decode_error_no_value_del']


def run(ctx):
    n = ctx.pick(6000, 150000)
    seeds = [ctx.seed] if not ctx.thorough else [ctx.seed + i for i in range(4)]
    simple.run(ctx, go_cmds=['corr16'], lean_targets=['Smtb.Properties.C16'], prop_file='Smtb/Properties/C16.lean', theorems=THEOREMS,
               trace_targets=[], corr_runs=[('corr16', ['-seed', s, '-n', n]) for s in seeds], search_runs=[],
               corr_name='param-json', driver_args=['corr', 'c16'],
               what='real json.Marshal/Unmarshal of prover.InsertionParameters/DeletionParameters and big.Int.SetString(s,0)',
               spec='Lean codec model (round trip proved at the text level)',
               assumptions=["the codec model (Go's SetString(s,0) scanner, encoding/json struct decoding rules, string escapes) is hand-written from the Go 1.23 sources; the tie is behavioural: structured parameter sets, mutated documents and grammar-generated numeric strings",
                            "error *classes* (syntax/type/range/invalid number) are compared, not messages",
                            "negative values decode but do not round-trip (toHex prints 0x-5); they are outside the property's quantifier (negative_not_round_trip states it)"],
               trusted=["Go encoding/json and math/big as the behaviour being modelled"])


def replay(ctx, data):
    return simple.replay(ctx, data, ['corr16'])
