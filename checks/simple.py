"""Generic shape of a proof-level check: audit theorems, T-trace targets, T-corr runs, search."""
import json
from . import common
from .common import Violation


def run(ctx, *, go_cmds, lean_targets, prop_file, theorems, trace_targets, corr_runs, search_runs,
        corr_name, driver_args, assumptions=(), trusted=(), leancheck=True, kernel_family=None, gates=False, ok_exit=(0,), what='real code', spec='proved specification', const=None):
    common.go_build(go_cmds)
    common.lake_build(lean_targets + ['driver'])
    common.audit(ctx, prop_file, theorems)
    ctx.assumptions += list(assumptions)
    ctx.trusted += list(trusted)
    if gates:
        common.gates_tie(ctx)
    tmism = common.trace_tie(ctx, trace_targets) if trace_targets else []
    if kernel_family:
        tmism += common.kernel_trace_tie(ctx, kernel_family)
    found = None
    for go_cmd, args in corr_runs:
        n, mism, _ = common.corr(ctx, corr_name, go_cmd, args, driver_args, ok_exit=ok_exit, const=const)
        if mism:
            found = (go_cmd, args, mism)
            break
    if not found and tmism:
        for go_cmd, args in search_runs:
            n, mism, _ = common.corr(ctx, corr_name + '-search', go_cmd, args, driver_args, ok_exit=ok_exit, const=const)
            if mism:
                found = (go_cmd, args, mism)
                break
    ctx.oblige(f'T-corr {corr_name}: {what} = {spec}', not found, '' if not found else json.dumps(found[2][0][1:])[:400])
    if found:
        go_cmd, args, mism = found
        i, line, code, model = mism[0]
        replay = common.write_replay(ctx, 'corr', {'kind': 'corr', 'go_cmd': go_cmd, 'go_args': [str(a) for a in args],
                                                  'driver_args': driver_args, 'const': const, 'index': i, 'case': line,
                                                  'code_says': code, 'spec_says': model, 'trace_mismatches': tmism[:3]})
        raise Violation(f'{what} says {code[:200]}, {spec} says {model[:200]} for case #{i}: {line[:300]}', replay)
    if tmism:
        replay = common.write_replay(ctx, 'tie', {'kind': 'tie', 'tie': 'T-trace', 'mismatches': tmism[:5],
                                                 'note': 'the emitted constraint sequence differs from the proved model; the behavioural search found no failing input'})
        raise Violation('T-trace broken: ' + json.dumps(tmism[0])[:600], replay, found_input=False)
    if ctx.thorough and leancheck:
        common.leanchecker(ctx, lean_targets)


def replay(ctx, data, go_cmds):
    common.go_build(go_cmds)
    common.lake_build(['driver'])
    if data.get('kind') == 'corr':
        n, mism, _ = common.corr(ctx, 'replay', data['go_cmd'], data['go_args'], data['driver_args'], const=data.get('const'), ok_exit=(0, 1, 3, 66))
        hit = [m for m in mism if m[0] == data['index']] or mism
        if hit:
            print(f'REPLAY reproduces: case #{hit[0][0]} code={hit[0][2][:200]} spec={hit[0][3][:200]}\n{hit[0][1][:500]}')
            return 1
        print('REPLAY: case no longer fails')
        return 0
    for m in data.get('mismatches', []):
        print('tie mismatch recorded:', json.dumps(m)[:500])
    print(data.get('detail', '')[:1000])
    return 1
