from . import filecheck


def run(ctx):
    filecheck.run(ctx, 'c11')


def replay(ctx, data):
    return filecheck.replay(ctx, data)
