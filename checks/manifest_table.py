"""Source of MANIFEST.json (run bin/mkmanifest).  One entry per claimed property."""

CHECKS = {
    'C01': dict(cat='proof', design='§6 C01', technique='Lean 4 theorem (insertionProof_sat_iff over SatM/ZMod p, all primes/depths/batches) + T-trace byte-equality of API-call traces + T-corr (test engine, R1CS, adversarial hints) against the proved spec',
                text='Machine-checked iff between satisfiability of the InsertionProof/InsertionRound gadget model (hint wires existentially quantified) and the batch specification, for every prime field, depth with 2^d <= p, batch and input; the model is tied to the current Go code by byte-identical API-call traces over a sweep of dimensions and by running the real gadgets and full circuit against the executable specification.',
                note='Assumes the gate table (gnark v0.8.0 API call -> constraint semantics) and parametricity of the polymorphic model; Poseidon2 opaque here (C05). Trusted: Lean kernel, Mathlib, harness.'),
    'C02': dict(cat='proof', design='§6 C02', technique='Lean 4 theorem (deletionRound/deletionProof_sat_iff) + T-trace + T-corr with adversarial InvZero/NBits hints',
                text='Machine-checked iff for DeletionRound/DeletionProof including padding slots (no-op whatever their contents), indices >= 2^(d+1) unprovable, duplicates seeing the updated tree; all primes with 2^(d+1) <= p; tied to the code by traces and by differential runs of the real gadgets (test engine, R1CS with dishonest IsZero inverse).',
                note='Same assumptions as C01.'),
    'C05': dict(cat='proof', design='§6 C05', technique='Lean 4 theorem (poseidon2_sat/poseidon1_sat for all field elements, any modulus) + fully expanded T-trace (every constant) + T-corr against iden3',
                text='The Poseidon gadgets are proved equal to the textbook reference permutation for all inputs; the reference and its tables are validated against iden3 and published vectors (kernel-checked).',
                note="'Equals circomlib/iden3' is validated (differential + vectors), not proved; gate table for Add/Mul."),
    'C06': dict(cat='proof', design='§6 C06', technique='Lean 4 theorems (reducedModRCheck_sat, toReducedBigEndian_sat, fromBinaryBigEndian_sat, for every prime and width) + T-trace over several moduli + exhaustive small-field and forged-hint T-corr',
                text='Machine-checked: only the canonical representative is accepted, aliases v+k*p, the modulus itself, overflow and non-boolean digits are rejected, output is the big-endian byte string; for every prime field and width.',
                note='Gate table (ToBinary hint as existential); parametricity.'),
    'C18': dict(cat='proof', design='§6 C18', technique='Lean 4 theorems (root_eq_dense, update_proof_authenticates, update_frame, invariant; all depths and histories, abstract hash) + T-corr of the hand-written model against the real PoseidonTree',
                text='Refinement of the persistent tree to the dense reference tree by a representation invariant, for every depth and update history; model tied to the Go code by differential histories.',
                note='Model hand-written; tie is behavioural. iden3 Poseidon trusted as hash.'),
    'C12': dict(cat='other', design='§6 C12', technique='Lean decide over regenerated struct-tag facts (one public input; depth guard) + SHA-256 equality of the compiled constraint system across build paths, fresh processes and GOMAXPROCS values',
                text='Exactly one ,public field per circuit and the depth guard are Lean theorems over facts regenerated from the current tree; byte-identity of the constraint system across BuildR1CS*, Import*Setup and `gnark-mbu r1cs`, across fresh processes with GOMAXPROCS 1/2/16, is observed (hash equality), and the compiled circuit is tied to the proved model by T-trace.',
                note='Partial: determinism of gnark compilation under arbitrary scheduling is observed by repetition, not proved.'),
    'C17': dict(cat='translation_validation', design='§6 C17', technique='byte equality of the committed model with a fresh extraction at (30,4); repeated extraction across processes; Lean decide that every referenced SemaphoreMTB.* identifier is defined',
                text='The committed FormalVerification.lean is compared byte-for-byte with prover.ExtractLean(30,4) of the current tree; extraction repeated in fresh processes with different GOMAXPROCS and over a sweep of dimensions; identifier facts regenerated and decided in Lean.',
                note='Partial: extractor determinism across schedules observed only; the old-toolchain proofs in /repo/formal-verification cannot be rebuilt here.'),
}

PENDING = {
    'C03': 'being built: composition theorem of C01/C02/C04/C05/C06 for the full circuits',
    'C04': 'being built: Keccak gadget proof',
    'C07': 'being built', 'C08': 'being built', 'C09': 'being built', 'C10': 'being built', 'C11': 'being built',
    'C13': 'being built', 'C14': 'being built', 'C15': 'being built', 'C16': 'being built',
    'C19': 'being built', 'C20': 'being built',
}
