"""C03: the public input binds the batch (full circuits over BN254)."""
import json
from . import common, merkle
from .common import Violation

R = str(common.BN254)
THEOREMS = ['Smtb.Properties.C03.insertionCircuit_sat_iff', 'Smtb.Properties.C03.deletionCircuit_sat_iff',
            'Smtb.Properties.C03.inputHash_deterministic', 'Smtb.Properties.C03.insertion_start_index_overflow_unsat',
            'Smtb.Properties.C03.deletion_index_overflow_unsat', 'Smtb.Properties.C03.insertion_wrong_hash_unsat',
            'Smtb.Properties.C03.depth_ok']
PACK = ['Smtb.Properties.C08.pack_bits_insertion', 'Smtb.Properties.C08.pack_bits_deletion',
        'Smtb.Properties.C08.pack_injective_insertion', 'Smtb.Properties.C08.pack_injective_deletion']
UNIQUE = ['Smtb.Properties.C06.toReducedBigEndian_unique', 'Smtb.Properties.C06.toReducedBigEndian_alias_rejected']


def run(ctx):
    common.go_build(['trace', 'corrcircuit', 'xtool'])
    common.lake_build(['Smtb.Properties.C03', 'Smtb.Properties.C08', 'driver'])
    common.audit(ctx, 'Smtb/Properties/C03.lean', THEOREMS)
    common.audit(ctx, 'Smtb/Proofs/BN254Prime.lean', ['Smtb.Pratt.bn254r_prime'])
    common.audit(ctx, 'Smtb/Properties/C08.lean', PACK)       # the hashed bit string IS the big-endian packing; packing injective
    common.audit(ctx, 'Smtb/Properties/C06.lean', UNIQUE)     # no alternative encoding v + k*r
    # the property in one statement (public input = Keccak of the canonical packing mod r, and the batch
    # relation), shifted hashes unsatisfiable, and the honest-hint reading (gnark's own hint values
    # satisfy the circuit whenever anything does)
    common.lake_build(['Smtb.Properties.C03EndToEnd'])
    common.audit(ctx, 'Smtb/Properties/C03EndToEnd.lean', ['Smtb.Properties.C03EndToEnd.' + t for t in (
        'insertion_end_to_end', 'deletion_end_to_end', 'insertion_public_input', 'deletion_public_input',
        'insertion_shifted_hash_unsat', 'deletion_shifted_hash_unsat', 'insertion_sat_iff_honest', 'deletion_sat_iff_honest',
        'insertion_spec_accepts_honest', 'deletion_spec_accepts_honest', 'toBinary_satisfiable_iff_fits', 'isZero_unique')])
    common.lake_build(['Smtb.Properties.TraceSound'])
    common.audit(ctx, 'Smtb/Properties/TraceSound.lean', ['Smtb.Properties.TraceSound.insertionCircuit_trace_iff_bn254', 'Smtb.Properties.TraceSound.deletionCircuit_trace_iff_bn254'])
    ctx.assumptions += [
        "gate table (validated by T-corr-gates) and parametricity; Keccak-256 reference (C04) and Poseidon reference (C05) as the trusted statements of the two hash functions",
        "'any different batch gives a different public input' beyond injectivity of the packing is collision resistance of Keccak-256: not provable, not assumed; the theorems state that the public input is Keccak-256 of exactly the canonical packing, reduced mod r",
        "InputHash being the only public variable: regenerated struct-tag facts (C12 theorems) + GetNbPublicVariables() = 2 observed on the compiled systems",
    ]
    # struct tags: one public input
    facts_err = None
    try:
        common.regen_facts()
        common.lake_build(['Smtb.Properties.C12'])
        common.audit(ctx, 'Smtb/Properties/C12.lean', ['Smtb.Properties.C12.insertion_one_public', 'Smtb.Properties.C12.deletion_one_public'])
    except common.TieBroken as t:
        # keep going: the compiled systems' public-wire count below gives the concrete observation
        ctx.oblige('T-facts: InputHash is the only ,public field', False, t.detail[-300:])
        facts_err = t
    common.gates_tie(ctx)
    o = '--opaque=Poseidon2,KeccakGadget'
    dims = [(3, 2), (1, 1), (2, 16), (30, 4)] + ([(2, 3), (8, 7), (20, 100), (31, 2)] if ctx.thorough else [])
    targets = [[o, c, R, str(d), str(b)] for d, b in dims for c in ('Insertion', 'Deletion')]
    targets += [['Insertion', R, '3', '2'], ['Deletion', R, '2', '21']]          # fully expanded, multi-block deletion
    tmism = common.trace_tie(ctx, targets)
    for fam in ('Ins', 'Del'):
        tmism += common.kernel_trace_tie(ctx, fam)
    found = None
    runs = [('corrcircuit', ['-seed', ctx.seed, '-n', ctx.pick(40, 1500), '-depth', 3, '-batch', 2]),
            # batch sizes at which the hashed message ends within four bytes of a Keccak rate boundary:
            # 64+4b = 132 (mod 136) for deletion at b = 17, 68+32b = 132 for insertion at b = 2 (above)
            ('corrcircuit', ['-seed', ctx.seed + 3, '-n', ctx.pick(16, 120), '-depth', 5, '-batch', 17])]
    if ctx.thorough:
        runs += [('corrcircuit', ['-seed', ctx.seed + 1, '-n', 400, '-depth', 2, '-batch', 5]), ('corrcircuit', ['-seed', ctx.seed + 2, '-n', 200, '-depth', 1, '-batch', 1])]
    if tmism:
        runs += [('corrcircuit', ['-seed', ctx.seed + 7, '-n', 1500, '-depth', 3, '-batch', 2]), ('corrcircuit', ['-seed', ctx.seed + 8, '-n', 400, '-depth', 2, '-batch', 4])]
    for cmd, args in runs:
        n, mism, _ = common.corr(ctx, 'full-circuits', cmd, args, ['corr', 'prove'], const={'public-inputs': 'one'})
        if mism:
            found = (cmd, args, mism)
            break
    ctx.oblige('T-corr full circuits: test engine + compiled R1CS (honest and forged bit-decomposition hints, public input = hash of the forged bytes) = right-hand side of the circuit theorems', not found,
               '' if not found else json.dumps(found[2][0][1:])[:300])
    if found:
        cmd, args, mism = found
        i, line, code, model = mism[0]
        replay = common.write_replay(ctx, 'corr', {'kind': 'corr', 'go_cmd': cmd, 'go_args': [str(a) for a in args], 'driver_args': ['corr', 'prove'], 'const': {'public-inputs': 'one'},
                                                  'index': i, 'case': line[:4000], 'code_says': code, 'spec_says': model, 'trace_mismatches': tmism[:2]})
        raise Violation(f'full circuit: compiled system says {code}, circuit theorem says {model} for case #{i}: {line[:300]}', replay)
    if tmism:
        replay = common.write_replay(ctx, 'tie', {'kind': 'tie', 'tie': 'T-trace', 'mismatches': tmism[:5]})
        raise Violation('T-trace broken: ' + json.dumps(tmism[0])[:500], replay, found_input=False)
    if facts_err:
        replay = common.write_replay(ctx, 'tie', {'kind': 'tie', 'tie': facts_err.tie, 'detail': facts_err.detail[-3000:]})
        raise Violation('T-facts broken: ' + facts_err.detail[-300:], replay, found_input=False)
    if ctx.thorough:
        common.leanchecker(ctx, ['Smtb.Properties.C03'])


def replay(ctx, data):
    from . import simple
    return simple.replay(ctx, data, ['trace', 'corrcircuit'])
