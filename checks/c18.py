from . import simple

THEOREMS = ['Smtb.Properties.C18.root_eq_dense', 'Smtb.Properties.C18.update_proof_authenticates',
            'Smtb.Properties.C18.update_frame', 'Smtb.Properties.C18.update_hit', 'Smtb.Properties.C18.leafOf_reach',
            'Smtb.Properties.C18.tree_wf_invariant', 'Smtb.Properties.C18.wf_value', 'Smtb.Properties.C18.wf_empty_value']


def run(ctx):
    runs = [('corrtree', ['-seed', ctx.seed, '-n', ctx.pick(150, 4000), '-maxlen', ctx.pick(30, 60)])]
    if ctx.thorough:
        runs += [('corrtree', ['-seed', ctx.seed + 1, '-n', 300, '-maxlen', 200])]
    simple.run(ctx, go_cmds=['corrtree'], lean_targets=['Smtb.Properties.C18'],
               prop_file='Smtb/Properties/C18.lean', theorems=THEOREMS, trace_targets=[],
               corr_runs=runs, search_runs=[], corr_name='tree', driver_args=['corr', 'tree'],
               what='poseidon_tree.PoseidonTree (Root() after every step, Update() slices)',
               spec='Lean tree model (proved equal to the dense recomputation) with the Lean reference Poseidon',
               assumptions=["the model is hand-written from poseidon_tree.go; the tie is behavioural (T-corr), on histories with depths 1..32, repeated/adjacent/first/last/out-of-range indices, zero writes",
                            "the real tree hashes with iden3 Poseidon, the model with the Lean reference Poseidon: agreement here is also C05's iden3 validation",
                            "indices are non-negative and values are < r (iden3 rejects larger inputs; the Go code then dereferences nil)"],
               trusted=["iden3 go-iden3-crypto poseidon.Hash"])


def replay(ctx, data):
    return simple.replay(ctx, data, ['corrtree'])
