"""C07 / C09 / C13 / C19: service-level properties (decision-logic theorems + real prover, server, binary)."""
import json, os
from . import common
from .common import Violation, TieBroken

TH = {
    'C07': ['prove_ok_iff', 'proveInsertion_ok_iff', 'proveDeletion_ok_iff', 'prove_error_no_proof', 'prove_never_panics', 'verify_iff', 'verify_own_hash',
            'verify_other_hash_rejects', 'verify_other_system_rejects', 'validateShape_guards_indexing_insertion',
            'validateShape_guards_indexing_deletion', 'prove_cross_mode'],
    'C09': ['respond_total_classified', 'respond_outcomes_exclusive', 'respond_405_iff', 'respond_malformed_iff', 'respond_provingError_iff',
            'respond_200_iff_valid_batch', 'respond_200_body_verifies', 'respond_stateless'],
    'C13': ['concurrent_eq_sequential', 'concurrent_valid_gets_own_proof', 'sys_readonly'],
    'C19': ['verify_exit_truth', 'verify_exit_zero_iff', 'bad_mode_nonzero', 'unreadable_keys_nonzero', 'unprovable_nonzero', 'prove_exit_zero_iff',
            'prove_stdout_is_one_proof', 'pipeline_composes', 'pipeline_rejects'],
}
IDEAL = ("Groth16 is an ideal functionality in the model: Prove succeeds iff the circuit relation holds of the witness; a proof verifies exactly for "
         "its own system and its public input modulo r. Knowledge soundness / completeness of gnark's Groth16 are assumptions, exercised with real Setup/Prove/Verify here, not proved")


def audit_service(ctx, prop, ns=None):
    ns = ns or f'Smtb.Properties.{prop}'
    common.lake_build([f'Smtb.Properties.{prop}', 'driver'])
    common.audit(ctx, f'Smtb/Properties/{prop}.lean', [f'{ns}.{t}' for t in TH[prop]])


def report(ctx, name, cmd, args, dargs, mism, what, only=None, const=None):
    i, line, code, model = mism[0]
    replay = common.write_replay(ctx, name, {'kind': 'corr', 'go_cmd': cmd, 'go_args': [str(a) for a in args], 'driver_args': dargs,
                                            'only': sorted(only) if only else None, 'const': const, 'index': i, 'case': line[:4000],
                                            'code_says': code, 'spec_says': model})
    raise Violation(f'{what}: real code says "{code[:200]}", model says "{model[:200]}" for {line[:300]}', replay)


def replay(ctx, data, cmds):
    common.go_build(cmds)
    common.lake_build(['driver'])
    args = data['go_args']
    if data['go_cmd'] in ('corrcli', 'c14cli'):
        cli = common.build_cli(ctx)
        args = [a if not a.endswith('gnark-mbu') else cli for a in args]
        if '-dir' in args:
            args[args.index('-dir') + 1] = ctx.scratchdir()
    n, mism, _ = common.corr(ctx, 'replay', data['go_cmd'], args, data['driver_args'], only=set(data['only']) if data.get('only') else None,
                             const=data.get('const'), timeout=7200, ok_exit=(0, 1, 3, 66))
    print('REPLAY:', 'reproduces ' + str(mism[0])[:600] if mism else 'no longer fails')
    return 1 if mism else 0
