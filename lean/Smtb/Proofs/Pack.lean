import Smtb.Model.Pack
import Smtb.Model.Batch
import Smtb.Proofs.Bits
import Smtb.Proofs.MainCircuit
import Smtb.Properties.C18
import Smtb.Proofs.Keccak.Words
import Mathlib.Tactic.Ring
import Mathlib.Tactic.Linarith
/-! # Proofs for the packing / input-hash-helper / `gen-test-params` models (property C08) -/

namespace Smtb.Pack
open Smtb Smtb.Bits Smtb.Merkle

/-! ## byte strings -/

theorem u32be_eq (v : ℕ) : u32be v = bytesBE 4 v := by
  simp [u32be, bytesBE]

theorem bytesBE_succ_snoc (w : ℕ) : ∀ x, bytesBE (w + 1) x = bytesBE w (x / 256) ++ [x % 256] := by
  induction w with
  | zero => intro x; simp [bytesBE]
  | succ w ih =>
    intro x
    rw [bytesBE, ih x]
    conv_rhs => rw [bytesBE]
    rw [Nat.div_div_eq_div_mul, ← pow_succ']
    rfl

/-- `Bytes()` is the big-endian string on exactly as many bytes as the value needs -/
theorem minBytesF_spec : ∀ fuel n, n ≤ fuel →
    ∃ L, minBytesF fuel n = bytesBE L n ∧ n < 256 ^ L ∧ (n = 0 → L = 0) ∧ (0 < n → 256 ^ (L - 1) ≤ n) := by
  intro fuel
  induction fuel with
  | zero =>
    intro n hn
    have : n = 0 := by omega
    subst this
    exact ⟨0, rfl, by norm_num, fun _ => rfl, fun h => absurd h (by omega)⟩
  | succ f ih =>
    intro n hn
    by_cases h0 : n = 0
    · subst h0
      exact ⟨0, by simp [minBytesF, bytesBE], by norm_num, fun _ => rfl, fun h => absurd h (by omega)⟩
    · obtain ⟨L, hL, hlt, hz, hge⟩ := ih (n / 256) (by omega)
      refine ⟨L + 1, ?_, ?_, fun h => absurd h h0, fun _ => ?_⟩
      · simp only [minBytesF, if_neg h0]
        rw [hL, bytesBE_succ_snoc]
      · rw [pow_succ]; omega
      · simp only [Nat.add_sub_cancel]
        by_cases hm : n / 256 = 0
        · rw [hz hm]; simp; omega
        · have hpos : 0 < n / 256 := Nat.pos_of_ne_zero hm
          have h1 := hge hpos
          have hL1 : 1 ≤ L := by
            rcases Nat.eq_zero_or_pos L with h | h
            · subst h; simp at hlt; omega
            · exact h
          have : 256 ^ L = 256 ^ (L - 1) * 256 := by
            rw [← pow_succ]; congr 1; omega
          rw [this]; omega

theorem minBytes_spec (n : ℕ) :
    ∃ L, minBytes n = bytesBE L n ∧ n < 256 ^ L ∧ (n = 0 → L = 0) ∧ (0 < n → 256 ^ (L - 1) ≤ n) :=
  minBytesF_spec n n (Nat.le_refl n)

theorem pad_bytesBE (j k n : ℕ) (h : n < 256 ^ k) :
    List.replicate j 0 ++ bytesBE k n = bytesBE (j + k) n := by
  induction j with
  | zero => simp
  | succ j ih =>
    have hk : (256 : ℕ) ^ k ≤ 256 ^ (j + k) := Nat.pow_le_pow_right (by norm_num) (by omega)
    have : j + 1 + k = (j + k) + 1 := by omega
    rw [this, bytesBE, ← ih, Nat.div_eq_of_lt (by omega)]
    rfl

theorem two_pow_256 : (2 : ℕ) ^ 256 = 256 ^ 32 := by norm_num
theorem two_pow_248 : (2 : ℕ) ^ 248 = 256 ^ 31 := by norm_num
theorem two_pow_32 : (2 : ℕ) ^ 32 = 256 ^ 4 := by norm_num

/-- length of `Bytes()` for a value below `2^256` -/
theorem minBytes_le32 {n : ℕ} (h : n < 2 ^ 256) :
    ∃ L, L ≤ 32 ∧ minBytes n = bytesBE L n ∧ n < 256 ^ L := by
  obtain ⟨L, hL, hlt, hz, hge⟩ := minBytes_spec n
  refine ⟨L, ?_, hL, hlt⟩
  rcases Nat.eq_zero_or_pos n with h0 | hpos
  · rw [hz h0]; omega
  · have h1 := hge hpos
    rw [two_pow_256] at h
    have : (256 : ℕ) ^ (L - 1) < 256 ^ 32 := lt_of_le_of_lt h1 h
    have := (Nat.pow_lt_pow_iff_right (by norm_num : 1 < 256)).mp this
    omega

theorem fillBytes32_eq {x : ℕ} (h : x < 2 ^ 256) : fillBytes32 x = some (bytesBE 32 x) := by
  obtain ⟨L, hL32, hL, hlt⟩ := minBytes_le32 h
  unfold fillBytes32
  simp only [hL, length_bytesBE, if_pos hL32]
  rw [pad_bytesBE _ _ _ hlt]
  congr 2; omega

/-- the Go panic: a value of more than 32 bytes -/
theorem fillBytes32_none {x : ℕ} (h : 2 ^ 256 ≤ x) : fillBytes32 x = none := by
  obtain ⟨L, hL, hlt, _, _⟩ := minBytes_spec x
  unfold fillBytes32
  simp only [hL, length_bytesBE]
  rw [if_neg]
  intro hle
  have : (256 : ℕ) ^ L ≤ 256 ^ 32 := Nat.pow_le_pow_right (by norm_num) hle
  rw [two_pow_256] at h
  omega

theorem commitBytes_eq {v : ℕ} (h : v < 2 ^ 256) : commitBytes v = bytesBE 32 v := by
  obtain ⟨L, hL32, hL, hlt⟩ := minBytes_le32 h
  unfold commitBytes
  simp only [hL, length_bytesBE]
  by_cases h32 : L < 32
  · rw [if_pos h32, pad_bytesBE _ _ _ hlt]; congr 1; omega
  · rw [if_neg h32]; congr 1; omega

/-- `Bytes()` of a value in `[2^248, 2^256)` has exactly 32 bytes -/
theorem minBytes_full {n : ℕ} (hlo : 2 ^ 248 ≤ n) (hhi : n < 2 ^ 256) : minBytes n = bytesBE 32 n := by
  obtain ⟨L, hL32, hL, hlt⟩ := minBytes_le32 hhi
  rw [two_pow_248] at hlo
  have : (256 : ℕ) ^ 31 < 256 ^ L := lt_of_le_of_lt hlo hlt
  have := (Nat.pow_lt_pow_iff_right (by norm_num : 1 < 256)).mp this
  rw [hL]; congr 1; omega

/-- `Bytes()` of a value below `2^248` is shorter than 32 bytes -/
theorem minBytes_short {n : ℕ} (h : n < 2 ^ 248) : (minBytes n).length < 32 := by
  obtain ⟨L, hL, _, hz, hge⟩ := minBytes_spec n
  rw [hL, length_bytesBE]
  rcases Nat.eq_zero_or_pos n with h0 | hpos
  · rw [hz h0]; omega
  · have h1 := hge hpos
    rw [two_pow_248] at h
    have : (256 : ℕ) ^ (L - 1) < 256 ^ 31 := lt_of_le_of_lt h1 h
    have := (Nat.pow_lt_pow_iff_right (by norm_num : 1 < 256)).mp this
    omega

theorem flatMap_congr' {α β : Type} (f g : α → List β) (l : List α) (h : ∀ a ∈ l, f a = g a) :
    l.flatMap f = l.flatMap g := by
  induction l with
  | nil => rfl
  | cons a l ih =>
    rw [List.flatMap_cons, List.flatMap_cons, h a List.mem_cons_self,
      ih (fun b hb => h b (List.mem_cons_of_mem _ hb))]

theorem helperPackInsertion_eq (start pre post : ℕ) (ids : List ℕ)
    (hpre : pre < 2 ^ 256) (hpost : post < 2 ^ 256) (hids : ∀ id ∈ ids, id < 2 ^ 256) :
    helperPackInsertion start pre post ids = some (packInsertion start pre post ids) := by
  unfold helperPackInsertion packInsertion
  rw [fillBytes32_eq hpre, fillBytes32_eq hpost, u32be_eq,
    flatMap_congr' commitBytes (bytesBE 32) ids (fun id h => commitBytes_eq (hids id h))]

theorem helperPackDeletion_eq (idxs : List ℕ) (pre post : ℕ)
    (hpre : pre < 2 ^ 256) (hpost : post < 2 ^ 256) :
    helperPackDeletion idxs pre post = some (packDeletion idxs pre post) := by
  unfold helperPackDeletion packDeletion
  rw [fillBytes32_eq hpre, fillBytes32_eq hpost,
    flatMap_congr' u32be (bytesBE 4) idxs (fun i _ => u32be_eq i)]

theorem helperPackInsertionOld_partial (start pre post : ℕ) (ids : List ℕ)
    (hpre : pre < 2 ^ 256) (hpost : post < 2 ^ 256) (hids : ∀ id ∈ ids, id < 2 ^ 256)
    (hpre' : 2 ^ 248 ≤ pre) (hpost' : 2 ^ 248 ≤ post) :
    helperPackInsertionOld start pre post ids = packInsertion start pre post ids := by
  unfold helperPackInsertionOld packInsertion
  rw [minBytes_full hpre' hpre, minBytes_full hpost' hpost, u32be_eq,
    flatMap_congr' commitBytes (bytesBE 32) ids (fun id h => commitBytes_eq (hids id h))]

theorem helperPackDeletionOld_partial (idxs : List ℕ) (pre post : ℕ)
    (hpre : pre < 2 ^ 256) (hpost : post < 2 ^ 256) (hpre' : 2 ^ 248 ≤ pre) (hpost' : 2 ^ 248 ≤ post) :
    helperPackDeletionOld idxs pre post = packDeletion idxs pre post := by
  unfold helperPackDeletionOld packDeletion
  rw [minBytes_full hpre' hpre, minBytes_full hpost' hpost,
    flatMap_congr' u32be (bytesBE 4) idxs (fun i _ => u32be_eq i)]

theorem length_flatMap_bytesBE (w : ℕ) (l : List ℕ) : (l.flatMap (bytesBE w)).length = w * l.length := by
  induction l with
  | nil => simp
  | cons a l ih => rw [List.flatMap_cons, List.length_append, ih, length_bytesBE, List.length_cons]; ring

theorem length_packInsertion (s pre post : ℕ) (ids : List ℕ) :
    (packInsertion s pre post ids).length = 68 + 32 * ids.length := by
  simp [packInsertion, length_bytesBE]; omega

theorem length_packDeletion (idxs : List ℕ) (pre post : ℕ) :
    (packDeletion idxs pre post).length = 4 * idxs.length + 64 := by
  simp [packDeletion, length_bytesBE]; omega

/-- the pre-repair helper hashes a SHORTER string whenever a root has a leading zero byte -/
theorem helperPackInsertionOld_short (start pre post : ℕ) (ids : List ℕ)
    (hpost : post < 2 ^ 256) (hids : ∀ id ∈ ids, id < 2 ^ 256) (hpre : pre < 2 ^ 248) :
    (helperPackInsertionOld start pre post ids).length < (packInsertion start pre post ids).length := by
  obtain ⟨L, hL32, hL, _⟩ := minBytes_le32 hpost
  have h1 := minBytes_short hpre
  rw [length_packInsertion]
  unfold helperPackInsertionOld
  rw [flatMap_congr' commitBytes (bytesBE 32) ids (fun id h => commitBytes_eq (hids id h))]
  simp only [List.length_append, length_flatMap_bytesBE, u32be, List.length_cons, List.length_nil]
  rw [hL, length_bytesBE]
  omega

theorem helperPackDeletionOld_short (idxs : List ℕ) (pre post : ℕ)
    (hpost : post < 2 ^ 256) (hpre : pre < 2 ^ 248) :
    (helperPackDeletionOld idxs pre post).length < (packDeletion idxs pre post).length := by
  obtain ⟨L, hL32, hL, _⟩ := minBytes_le32 hpost
  have h1 := minBytes_short hpre
  rw [length_packDeletion]
  unfold helperPackDeletionOld
  rw [flatMap_congr' u32be (bytesBE 4) idxs (fun i _ => u32be_eq i)]
  simp only [List.length_append, length_flatMap_bytesBE]
  rw [hL, length_bytesBE]
  omega

/-! ## bits -/

theorem byteToBits_eq (b : ℕ) : KeccakRef.byteToBits b = bitsOfByte b := by
  unfold KeccakRef.byteToBits bitsOfByte
  have : ∀ n b, bitsLE n b = (List.range n).map fun i => b.testBit i := by
    intro n
    induction n with
    | zero => intro b; rfl
    | succ n ih =>
      intro b
      rw [bitsLE, ih, List.range_succ_eq_map, List.map_cons, List.map_map]
      congr 1
      · rcases Nat.mod_two_eq_zero_or_one b with h | h <;> simp [Nat.testBit_zero, h]
      · apply List.map_congr_left
        intro i _
        simp [Nat.testBit_succ]
  rw [this]

theorem bytesToBits_eq (bs : List ℕ) : KeccakRef.bytesToBits bs = bitsOfBytes bs := by
  unfold KeccakRef.bytesToBits bitsOfBytes
  exact flatMap_congr' _ _ bs (fun b _ => byteToBits_eq b)

theorem beBits32 (x : ℕ) : Sat.beBits 32 x = bitsOfBytes (bytesBE 4 x) :=
  swapByteOrder_bitsLE_mod 4 x

theorem beBits256 (x : ℕ) : Sat.beBits 256 x = bitsOfBytes (bytesBE 32 x) :=
  swapByteOrder_bitsLE_mod 32 x

theorem bitsOfBytes_flatMap (w : ℕ) (f : ℕ → List Bool) (hf : ∀ x, f x = bitsOfBytes (bytesBE w x))
    (l : List ℕ) : bitsOfBytes (l.flatMap (bytesBE w)) = (l.map f).flatten := by
  induction l with
  | nil => rfl
  | cons a l ih =>
    rw [List.flatMap_cons, bitsOfBytes_append, ih, List.map_cons, List.flatten_cons, hf]

/-- the bit string of the on-chain packing is the bit string the insertion circuit hashes
(no range hypothesis: both sides only look at the low 32 resp. 256 bits) -/
theorem pack_bits_insertion (s pre post : ℕ) (ids : List ℕ) :
    bitsOfBytes (packInsertion s pre post ids) = Sat.insertionHashBits s pre post ids := by
  unfold packInsertion Sat.insertionHashBits
  rw [bitsOfBytes_append, bitsOfBytes_append, bitsOfBytes_append, beBits32, beBits256, beBits256,
    bitsOfBytes_flatMap 32 (Sat.beBits 256) beBits256]

theorem pack_bits_deletion (idxs : List ℕ) (pre post : ℕ) :
    bitsOfBytes (packDeletion idxs pre post) = Sat.deletionHashBits idxs pre post := by
  unfold packDeletion Sat.deletionHashBits
  rw [bitsOfBytes_append, bitsOfBytes_append, beBits256, beBits256,
    bitsOfBytes_flatMap 4 (Sat.beBits 32) beBits32]

/-! ## injectivity -/

theorem bytesBE_inj (w : ℕ) {x y : ℕ} (hx : x < 256 ^ w) (hy : y < 256 ^ w)
    (h : bytesBE w x = bytesBE w y) : x = y := by
  have := congrArg natOfBytesBE h
  rwa [natOfBytesBE_bytesBE_mod, natOfBytesBE_bytesBE_mod, Nat.mod_eq_of_lt hx, Nat.mod_eq_of_lt hy] at this

theorem flatMap_bytesBE_inj (w : ℕ) : ∀ (l l' : List ℕ), l.length = l'.length →
    (∀ x ∈ l, x < 256 ^ w) → (∀ x ∈ l', x < 256 ^ w) →
    l.flatMap (bytesBE w) = l'.flatMap (bytesBE w) → l = l'
  | [], [], _, _, _, _ => rfl
  | [], _ :: _, h, _, _, _ => by simp at h
  | _ :: _, [], h, _, _, _ => by simp at h
  | a :: l, a' :: l', hlen, h1, h2, h => by
    rw [List.flatMap_cons, List.flatMap_cons] at h
    obtain ⟨ha, hl⟩ := List.append_inj h (by rw [length_bytesBE, length_bytesBE])
    rw [bytesBE_inj w (h1 a List.mem_cons_self) (h2 a' List.mem_cons_self) ha,
      flatMap_bytesBE_inj w l l' (by simpa using hlen)
        (fun x hx => h1 x (List.mem_cons_of_mem _ hx)) (fun x hx => h2 x (List.mem_cons_of_mem _ hx)) hl]

/-! ## digest bits to number -/

theorem keccak256Bits_length (msg : List Bool) : (KeccakRef.keccak256Bits msg).length = 256 := by
  unfold KeccakRef.keccak256Bits
  rw [Smtb.Proofs.Keccak.sponge_eq_spongeW256]
  simp [Smtb.Proofs.Keccak.spongeW256]

theorem bitsToByte_eq (l : List Bool) : KeccakRef.bitsToByte l = natOfBitsLE l := by
  unfold KeccakRef.bitsToByte
  induction l with
  | nil => rfl
  | cons b l ih => rw [List.foldr_cons, ih, natOfBitsLE]

theorem bitsToBytes_eq (bs : List Bool) : KeccakRef.bitsToBytes bs = bytesOfBits bs := by
  unfold KeccakRef.bitsToBytes bytesOfBits
  generalize bs.length / 8 = n
  induction n generalizing bs with
  | zero => rfl
  | succ n ih =>
    rw [List.range_succ_eq_map, List.map_cons, List.map_map, bytesOfBits.go, ← ih (bs.drop 8),
      bitsToByte_eq]
    congr 1
    apply List.map_congr_left
    intro j _
    simp only [Function.comp, List.drop_drop]
    congr 3
    omega

theorem bytesOfBits_go_lt : ∀ (n : ℕ) (bs : List Bool), ∀ b ∈ bytesOfBits.go n bs, b < 256
  | 0, _ => by intro b h; simp [bytesOfBits.go] at h
  | n + 1, bs => by
    intro b h
    rw [bytesOfBits.go] at h
    rcases List.mem_cons.mp h with rfl | h
    · rw [natOfBitsLE_eq]
      have h1 := Sat.natOfBits_lt (bs.take 8)
      have h2 : (2 : ℕ) ^ (bs.take 8).length ≤ 2 ^ 8 :=
        Nat.pow_le_pow_right (by norm_num) (by rw [List.length_take]; omega)
      omega
    · exact bytesOfBits_go_lt n _ b h

/-- `big.Int.SetBytes(digest)` is the number the circuit recomposes from the digest bits
(`FromBinaryBigEndian`) -/
theorem natOfBytesBE_bitsToBytes (bs : List Bool) (h : 8 ∣ bs.length) :
    natOfBytesBE (KeccakRef.bitsToBytes bs) = Sat.natOfBits (swapByteOrder bs) := by
  rw [bitsToBytes_eq]
  conv_rhs => rw [← bitsOfBytes_bytesOfBits bs h]
  exact (natOfBits_swapByteOrder_bitsOfBytes (bytesOfBits bs) (bytesOfBits_go_lt _ _)).symm

end Smtb.Pack
