import Smtb.Model.Cli
import Smtb.Proofs.Codec
import Smtb.Proofs.Tree
import Smtb.Proofs.Prover
/-!
# Lemmas for the command-line model (`Smtb.Model.Cli`)

* the proof text round-trips through `encodeToken` / `decodeToken`, also with the trailing
  newline of `fmt.Println`, and contains no newline itself;
* the parameter documents round-trip with a trailing newline;
* the generated test parameters have the requested dimensions (`Tree.update` returns a proof of
  the tree's depth);
* file-store bookkeeping.
-/
namespace Smtb.Cli
open Smtb.Codec Smtb.Prover

/-! ## proof text -/

theorem hexDigit_class : ∀ d, d < 16 →
    hexDigit d ≠ ',' ∧ isWs (hexDigit d) = false ∧ hexDigit d ≠ '\n' := by decide

theorem toHexChars_class (n : Nat) :
    ∀ c ∈ toHexChars n, c ≠ ',' ∧ isWs c = false ∧ c ≠ '\n' := by
  intro c hc
  simp only [toHexChars, List.mem_cons] at hc
  rcases hc with rfl | rfl | hc
  · decide
  · decide
  · obtain ⟨d, hd, rfl⟩ := mem_baseCharsF 16 (by omega) _ _ c hc
    exact hexDigit_class d hd

theorem takeWhile_stop {α : Type} (p : α → Bool) (l : List α) (x : α) (rest : List α)
    (hl : ∀ c ∈ l, p c = true) (hx : p x = false) :
    (l ++ x :: rest).takeWhile p = l ∧ (l ++ x :: rest).dropWhile p = x :: rest := by
  induction l with
  | nil => simp [hx]
  | cons a t ih =>
    have ha : p a = true := hl a (by simp)
    have := ih (fun c hc => hl c (by simp [hc]))
    simp [ha, this]

theorem takeWhile_all {α : Type} (p : α → Bool) (l : List α) (hl : ∀ c ∈ l, p c = true) :
    l.takeWhile p = l ∧ l.dropWhile p = [] := by
  induction l with
  | nil => simp
  | cons a t ih =>
    have ha : p a = true := hl a (by simp)
    have := ih (fun c hc => hl c (by simp [hc]))
    simp [ha, this]

theorem natOfHexChars_toHexChars (n : Nat) : natOfHexChars (toHexChars n) = some n := by
  unfold natOfHexChars
  rw [fromHexChars_toHexChars]

/-- the decoder accepts the encoder's output followed by any white space -/
theorem decodeTokenChars_encode (t : Token) (ws : List Char) (hws : ws.all isWs = true) :
    decodeTokenChars (encodeTokenChars t ++ ws) = some t := by
  unfold decodeTokenChars encodeTokenChars
  have h1 := takeWhile_stop (fun c => c != ',') (toHexChars t.sysId) ',' (toHexChars t.pub ++ ws)
    (by intro c hc; simpa using (toHexChars_class _ c hc).1) (by simp)
  rw [List.append_assoc, List.cons_append, h1.1, h1.2]
  have h2 : (toHexChars t.pub ++ ws).takeWhile (fun c => !isWs c) = toHexChars t.pub ∧
      (toHexChars t.pub ++ ws).dropWhile (fun c => !isWs c) = ws := by
    cases ws with
    | nil =>
      rw [List.append_nil]
      apply takeWhile_all
      intro c hc; simp [(toHexChars_class _ c hc).2.1]
    | cons x rest =>
      apply takeWhile_stop
      · intro c hc; simp [(toHexChars_class _ c hc).2.1]
      · have : isWs x = true := by
          simp only [List.all_cons, Bool.and_eq_true] at hws
          exact hws.1
        simp [this]
  simp only [h2.1, h2.2, hws, if_true, natOfHexChars_toHexChars]

theorem decodeToken_encodeToken (t : Token) : decodeToken (encodeToken t) = some t := by
  unfold decodeToken encodeToken
  rw [String.toList_ofList]
  have := decodeTokenChars_encode t [] rfl
  rwa [List.append_nil] at this

/-- what `prove` prints is read back by `verify` -/
theorem decodeToken_line (t : Token) : decodeToken (encodeToken t ++ "\n") = some t := by
  unfold decodeToken encodeToken
  rw [String.toList_append, String.toList_ofList]
  exact decodeTokenChars_encode t ['\n'] (by decide)

/-- the proof text is a single line -/
theorem encodeToken_no_newline (t : Token) : '\n' ∉ (encodeToken t).toList := by
  unfold encodeToken encodeTokenChars
  rw [String.toList_ofList]
  intro h
  simp only [List.mem_append, List.mem_cons] at h
  rcases h with h | h | h
  · exact (toHexChars_class _ _ h).2.2 rfl
  · exact absurd h (by decide)
  · exact (toHexChars_class _ _ h).2.2 rfl

/-! ## parameter documents with a trailing newline -/

theorem parseDoc_obj_nl (m : Member) (ms : List Member)
    (h : ∀ x ∈ m :: ms, (∀ c ∈ x.1, isPlain c = true) ∧ ParsesTo (0 + 1) x.2.1 x.2.2) :
    parseDoc (encObj ((m :: ms).map Member.enc) ++ ['\n']) =
      .ok (JVal.obj ((m :: ms).map Member.val)) := by
  have := parseValue_obj 0 (by decide) m ms h
    (docFuel (encObj ((m :: ms).map Member.enc) ++ ['\n'])) ['\n']
    (by unfold docFuel; simp only [List.length_append, List.length_cons, List.length_nil]; omega)
  unfold parseDoc
  rw [this]
  rfl

theorem decodeInsertion_line (p : InsertionParams) (hp : p.NonNeg) (h : p.startIndex < 2 ^ 32) :
    decodeInsertion (encodeInsertion p ++ "\n") = .ok p := by
  unfold decodeInsertion encodeInsertion
  rw [String.toList_append, String.toList_ofList]
  show decodeInsertionChars (encodeInsertionChars p ++ ['\n']) = _
  unfold decodeInsertionChars
  have hpd : parseDoc (encodeInsertionChars p ++ ['\n']) =
      .ok (JVal.obj ((insMembers p).map Member.val)) := parseDoc_obj_nl _ _ (insMembers_ok p)
  rw [hpd]
  simp only [decInsTop_encoded p h]
  exact finishIns_encoded p hp

theorem decodeDeletion_line (p : DeletionParams) (hp : p.NonNeg)
    (h : ∀ l, p.deletionIndices = some l → ∀ i ∈ l, i < 2 ^ 32) :
    decodeDeletion (encodeDeletion p ++ "\n") = .ok p := by
  unfold decodeDeletion encodeDeletion
  rw [String.toList_append, String.toList_ofList]
  show decodeDeletionChars (encodeDeletionChars p ++ ['\n']) = _
  unfold decodeDeletionChars
  have hpd : parseDoc (encodeDeletionChars p ++ ['\n']) =
      .ok (JVal.obj ((delMembers p).map Member.val)) := parseDoc_obj_nl _ _ (delMembers_ok p)
  rw [hpd]
  simp only [decDelTop_encoded p h]
  exact finishDel_encoded p hp

/-! ## generated test parameters have the requested dimensions -/

theorem updates_shape (d : Nat) :
    ∀ (hist : List (Nat × Nat)) (t : Tree.Tree Nat) (f : Nat → Nat),
      Tree.ReprT H 0 t d f →
      (updates t hist).2.length = hist.length ∧ (∀ q ∈ (updates t hist).2, q.length = d) ∧
      ∃ f', Tree.ReprT H 0 (updates t hist).1 d f' := by
  intro hist
  induction hist with
  | nil => intro t f h; exact ⟨rfl, by simp [updates], f, h⟩
  | cons iv rest ih =>
    intro t f h
    obtain ⟨i, v⟩ := iv
    have hp : (t.update H 0 i v).2.length = d := by
      rw [h.update_proof i v, Tree.pathOf_length]
    obtain ⟨h1, h2, h3⟩ := ih _ _ (h.update i v)
    refine ⟨by simp [updates, h1], ?_, h3⟩
    intro q hq
    simp only [updates, List.mem_cons] at hq
    rcases hq with rfl | hq
    · exact hp
    · exact h2 q hq

theorem genInsertion_shape (d b : Nat) : validateShapeInsertion d b (genInsertion d b) = true := by
  obtain ⟨h1, h2, _⟩ := updates_shape d ((List.range b).map fun i => (i, i + 1))
    (Tree.newTree H 0 d) _ (Tree.newTree_reprT H 0 d)
  rw [validateShapeInsertion_iff]
  refine ⟨by simp [genInsertion, InsertionParams.ofNat], ?_, ?_⟩
  · simpa [genInsertion, InsertionParams.ofNat] using h1
  · intro q hq
    simp only [genInsertion, InsertionParams.ofNat, List.mem_map] at hq
    obtain ⟨q', hq', rfl⟩ := hq
    simpa using h2 q' hq'

theorem genDeletion_shape (d b : Nat) : validateShapeDeletion d b (genDeletion d b) = true := by
  obtain ⟨_, _, f1, hf1⟩ := updates_shape d ((List.range (b * 2 % 2 ^ 32)).map fun i => (i, i + 1))
    (Tree.newTree H 0 d) _ (Tree.newTree_reprT H 0 d)
  obtain ⟨h1, h2, _⟩ := updates_shape d ((List.range b).map fun i => (2 * i, 0)) _ f1 hf1
  rw [validateShapeDeletion_iff]
  refine ⟨by simp [genDeletion, DeletionParams.ofNat], ?_,
    by simp [genDeletion, DeletionParams.ofNat, DeletionParams.indices], ?_⟩
  · simpa [genDeletion, DeletionParams.ofNat] using h1
  · intro q hq
    simp only [genDeletion, DeletionParams.ofNat, List.mem_map] at hq
    obtain ⟨q', hq', rfl⟩ := hq
    simpa using h2 q' hq'

theorem genParams_shape (m : Mode) (d b : Nat) : (genParams m d b).shapeOk d b = true := by
  cases m with
  | insertion => exact genInsertion_shape d b
  | deletion => exact genDeletion_shape d b

theorem genParams_mode (m : Mode) (d b : Nat) : (genParams m d b).mode = m := by
  cases m <;> rfl

/-- the printed document (with its newline) decodes to the generated parameters -/
theorem decodeParams_gen (m : Mode) (d b : Nat) :
    Http.decodeParams m (encodeParams (genParams m d b) ++ "\n") = .ok (genParams m d b) := by
  cases m with
  | insertion =>
    have : decodeInsertion (encodeInsertion (genInsertion d b) ++ "\n") = .ok (genInsertion d b) :=
      decodeInsertion_line _ (InsertionParams.nonNeg_ofNat ..) (by simp [genInsertion, InsertionParams.ofNat])
    simp only [Http.decodeParams, genParams, encodeParams, this]
  | deletion =>
    have : decodeDeletion (encodeDeletion (genDeletion d b) ++ "\n") = .ok (genDeletion d b) := by
      apply decodeDeletion_line _ (DeletionParams.nonNeg_ofNat ..)
      intro l hl i hi
      simp only [DeletionParams.ofNat, Option.some.injEq] at hl
      subst hl
      simp only [List.mem_map, List.mem_range] at hi
      obtain ⟨k, _, rfl⟩ := hi
      exact Nat.mod_lt _ (by decide)
    simp only [Http.decodeParams, genParams, encodeParams, this]

theorem genParams_inputHash_nonneg (m : Mode) (d b : Nat) : 0 ≤ (genParams m d b).inputHash := by
  cases m <;> exact Int.natCast_nonneg _

theorem fromHex_toHexInt (i : Int) (h : 0 ≤ i) : fromHex (toHexInt i) = some i := by
  unfold fromHex toHexInt
  rw [String.toList_ofList]
  exact fromHexChars_toHexIntChars_nonneg i h

/-! ## files and modes -/

theorem readKeys_write (w : World) (path : String) (sys : System) :
    (w.write path (.keys sys)).readKeys path = some sys := by
  simp [World.readKeys, World.read, World.write]

theorem parseMode_modeString (m : Mode) : parseMode (modeString m) = some m := by
  cases m <;> decide

theorem parseMode_none_iff (s : String) : parseMode s = none ↔ s ≠ "insertion" ∧ s ≠ "deletion" := by
  unfold parseMode
  by_cases h1 : s = "insertion"
  · simp [h1]
  · by_cases h2 : s = "deletion"
    · simp [h2]
    · simp [h1, h2]

theorem parseMode_some_iff (s : String) (m : Mode) : parseMode s = some m ↔ s = modeString m := by
  unfold parseMode
  by_cases h1 : s = "insertion"
  · subst h1; cases m <;> simp [modeString]
  · by_cases h2 : s = "deletion"
    · subst h2; cases m <;> simp [modeString]
    · cases m <;> simp [h1, h2, modeString]

theorem readKeys_none_iff (w : World) (path : String) :
    w.readKeys path = none ↔
      w.read path = none ∨ (∃ s, w.read path = some (.text s)) ∨ w.read path = some .garbage := by
  unfold World.readKeys
  cases w.read path with
  | none => simp
  | some c => cases c <;> simp

end Smtb.Cli
