import Smtb.Proofs.Sat
import Driver.GateCmd
import Mathlib.FieldTheory.Finite.Basic
/-!
# The executable gate table (`Driver/GateCmd.lean`) is the gate table (`Smtb/Proofs/Sat.lean`)

`driver corr gates` answers the satisfiability questions of T-corr-gates from `Driver.Gate.execApi`, a
core-only re-transcription of `satApi` over `Nat` representatives.  This file removes the
"second transcription" from the trusted base:

* `*_out`: with the continuation `(· = out)` each `satApi` op is the closed form the harness tests;
* `exec_*`: each field of `execApi p` (Boolean, `Nat` mod `p`) is equivalent to the corresponding field
  of `satApi` (`Prop`, `ZMod p`) for related continuations — including the two bounded searches
  (`isZero`: `x ∈ {0, 1, a^(p-2)}`; `toBinary`: `bits ∈ {0,1}^n`) that replace the existentials.
-/
namespace Smtb
namespace GateTableExec
open CircuitApi Driver.Gate

variable {p : ℕ}

/-! ### `satApi` with the continuation `(· = out)`: the closed forms tested by corrgates -/

theorem add_out (a b out : ZMod p) : (add a b : SatM p _) (· = out) ↔ out = a + b := eq_comm
theorem sub_out (a b out : ZMod p) : (sub a b : SatM p _) (· = out) ↔ out = a - b := eq_comm
theorem mul_out (a b out : ZMod p) : (mul a b : SatM p _) (· = out) ↔ out = a * b := eq_comm
theorem select_out (c a b out : ZMod p) :
    (select c a b : SatM p _) (· = out) ↔ isBool c ∧ out = b + c * (a - b) :=
  and_congr_right fun _ => eq_comm
theorem or_out (a b out : ZMod p) :
    (or_ a b : SatM p _) (· = out) ↔ isBool a ∧ isBool b ∧ out = a + b - a * b :=
  and_congr_right fun _ => and_congr_right fun _ => eq_comm
theorem xor_out (a b out : ZMod p) :
    (xor_ a b : SatM p _) (· = out) ↔ isBool a ∧ isBool b ∧ out = a + b - 2 * a * b :=
  and_congr_right fun _ => and_congr_right fun _ => eq_comm
theorem and_out (a b out : ZMod p) :
    (and_ a b : SatM p _) (· = out) ↔ isBool a ∧ isBool b ∧ out = a * b :=
  and_congr_right fun _ => and_congr_right fun _ => eq_comm
theorem isZero_out [Fact p.Prime] (a out : ZMod p) :
    (isZero a : SatM p _) (· = out) ↔ out = if a = 0 then 1 else 0 := by
  rw [Sat.isZero_iff]; exact eq_comm
theorem toBinary_out (v : ZMod p) (n : ℕ) (outs : List (ZMod p)) :
    (toBinary v n : SatM p _) (· = outs) ↔
      outs.length = n ∧ (∀ b ∈ outs, isBool b) ∧ recompose outs = v := by
  rw [Sat.toBinary_def]
  constructor
  · rintro ⟨bits, h1, h2, h3, rfl⟩; exact ⟨h1, h2, h3⟩
  · rintro ⟨h1, h2, h3⟩; exact ⟨outs, h1, h2, h3, rfl⟩
theorem fromBinary_out (bs : List (ZMod p)) (out : ZMod p) :
    (fromBinary bs : SatM p _) (· = out) ↔ (∀ b ∈ bs, isBool b) ∧ out = recompose bs :=
  and_congr_right fun _ => eq_comm
theorem assertBool_out (a : ZMod p) : (assertBool a : SatM p _) (fun _ => True) ↔ isBool a :=
  and_iff_left trivial
theorem assertEq_out (a b : ZMod p) : (assertEq a b : SatM p _) (fun _ => True) ↔ a = b :=
  and_iff_left trivial

/-! ### casts of the `Nat` field operations -/
section cast
variable [hp : Fact p.Prime]

theorem p_pos : 0 < p := hp.out.pos

@[simp] theorem cast_fadd (a b : ℕ) : ((fadd p a b : ℕ) : ZMod p) = (a : ZMod p) + b := by
  simp [fadd, ZMod.natCast_mod]

@[simp] theorem cast_fmul (a b : ℕ) : ((fmul p a b : ℕ) : ZMod p) = (a : ZMod p) * b := by
  simp [fmul, ZMod.natCast_mod]

@[simp] theorem cast_fsub (a b : ℕ) : ((fsub p a b : ℕ) : ZMod p) = (a : ZMod p) - b := by
  unfold fsub
  rw [ZMod.natCast_mod, Nat.cast_add, Nat.cast_sub (Nat.mod_lt _ p_pos).le, ZMod.natCast_self,
    ZMod.natCast_mod]
  ring

theorem fadd_lt (a b : ℕ) : fadd p a b < p := Nat.mod_lt _ p_pos
theorem fsub_lt (a b : ℕ) : fsub p a b < p := Nat.mod_lt _ p_pos
theorem fmul_lt (a b : ℕ) : fmul p a b < p := Nat.mod_lt _ p_pos

/-- on representatives `< p` the cast is injective -/
theorem cast_inj {x y : ℕ} (hx : x < p) (hy : y < p) : (x : ZMod p) = y ↔ x = y := by
  rw [ZMod.natCast_eq_natCast_iff', Nat.mod_eq_of_lt hx, Nat.mod_eq_of_lt hy]

theorem cast_eq_zero {x : ℕ} (hx : x < p) : (x : ZMod p) = 0 ↔ x = 0 := by
  have := cast_inj (p := p) hx p_pos
  simpa using this

theorem beq_mod_iff (x y : ℕ) : (x % p == y % p) = true ↔ (x : ZMod p) = y := by
  rw [beq_iff_eq, ZMod.natCast_eq_natCast_iff']

theorem fmul_beq_zero (a b : ℕ) : (fmul p a b == 0) = true ↔ (a : ZMod p) * b = 0 := by
  rw [beq_iff_eq, ← cast_eq_zero (fmul_lt a b), cast_fmul]

theorem isBoolB_iff (a : ℕ) : isBoolB p a = true ↔ isBool (a : ZMod p) := by
  unfold isBoolB isBool
  rw [fmul_beq_zero, cast_fsub, Nat.cast_one]

theorem cast_powMod (a : ℕ) : ∀ e : ℕ, ((powMod p a e : ℕ) : ZMod p) = (a : ZMod p) ^ e := by
  intro e
  induction e using Nat.strong_induction_on with
  | _ e ih =>
    cases e with
    | zero => simp [powMod, ZMod.natCast_mod]
    | succ e =>
      have hlt : (e + 1) / 2 < e + 1 := Nat.div_lt_self (Nat.succ_pos e) (by norm_num)
      have h := ih _ hlt
      have hsplit : e + 1 = 2 * ((e + 1) / 2) + (e + 1) % 2 := (Nat.div_add_mod (e + 1) 2).symm
      rw [powMod]
      split
      · next hodd =>
        rw [cast_fmul, cast_fmul, h]
        conv_rhs => rw [hsplit, hodd]
        ring
      · next heven =>
        have h0 : (e + 1) % 2 = 0 := by omega
        rw [cast_fmul, h]
        conv_rhs => rw [hsplit, h0]
        ring

theorem recomposeN_lt : ∀ bs : List ℕ, recomposeN p bs < p
  | [] => p_pos
  | _ :: _ => fadd_lt _ _

theorem cast_recomposeN : ∀ bs : List ℕ,
    ((recomposeN p bs : ℕ) : ZMod p) = recompose (bs.map fun (n : ℕ) => (n : ZMod p))
  | [] => by simp [recomposeN, recompose]
  | b :: bs => by simp [recomposeN, recompose, cast_recomposeN bs]

end cast

/-! ### `execApi p` is `satApi`, op by op -/
section exec
variable [hp : Fact p.Prime]

/-- continuations related on representatives `< p` -/
def RelK (k : ℕ → Bool) (K : ZMod p → Prop) : Prop := ∀ n, n < p → (k n = true ↔ K (n : ZMod p))
/-- continuations on lists of representatives `< p` -/
def RelKs (k : List ℕ → Bool) (K : List (ZMod p) → Prop) : Prop :=
  ∀ ns : List ℕ, (∀ n ∈ ns, n < p) → (k ns = true ↔ K (ns.map fun (n : ℕ) => (n : ZMod p)))

theorem exec_const (n : ℕ) :
    (((execApi p).const n : ℕ) : ZMod p) = (const (m := SatM p) n : ZMod p) := by
  show ((n % p : ℕ) : ZMod p) = (n : ZMod p)
  exact ZMod.natCast_mod n p

theorem exec_add (a b : ℕ) {k K} (h : RelK (p := p) k K) :
    (execApi p).add a b k = true ↔ (add (a : ZMod p) (b : ZMod p) : SatM p _) K := by
  show k (fadd p a b) = true ↔ K ((a : ZMod p) + b)
  rw [h _ (fadd_lt a b), cast_fadd]

theorem exec_sub (a b : ℕ) {k K} (h : RelK (p := p) k K) :
    (execApi p).sub a b k = true ↔ (sub (a : ZMod p) (b : ZMod p) : SatM p _) K := by
  show k (fsub p a b) = true ↔ K ((a : ZMod p) - b)
  rw [h _ (fsub_lt a b), cast_fsub]

theorem exec_mul (a b : ℕ) {k K} (h : RelK (p := p) k K) :
    (execApi p).mul a b k = true ↔ (mul (a : ZMod p) (b : ZMod p) : SatM p _) K := by
  show k (fmul p a b) = true ↔ K ((a : ZMod p) * b)
  rw [h _ (fmul_lt a b), cast_fmul]

theorem exec_select (c a b : ℕ) {k K} (h : RelK (p := p) k K) :
    (execApi p).select c a b k = true ↔
      (select (c : ZMod p) (a : ZMod p) (b : ZMod p) : SatM p _) K := by
  show (isBoolB p c && k (fadd p b (fmul p c (fsub p a b)))) = true ↔
    isBool (c : ZMod p) ∧ K ((b : ZMod p) + c * (a - b))
  rw [Bool.and_eq_true, isBoolB_iff, h _ (fadd_lt _ _)]
  simp

theorem exec_or (a b : ℕ) {k K} (h : RelK (p := p) k K) :
    (execApi p).or_ a b k = true ↔ (or_ (a : ZMod p) (b : ZMod p) : SatM p _) K := by
  show (isBoolB p a && (isBoolB p b && k (fsub p (fadd p a b) (fmul p a b)))) = true ↔
    isBool (a : ZMod p) ∧ isBool (b : ZMod p) ∧ K ((a : ZMod p) + b - a * b)
  rw [Bool.and_eq_true, Bool.and_eq_true, isBoolB_iff, isBoolB_iff, h _ (fsub_lt _ _)]
  simp

theorem exec_xor (a b : ℕ) {k K} (h : RelK (p := p) k K) :
    (execApi p).xor_ a b k = true ↔ (xor_ (a : ZMod p) (b : ZMod p) : SatM p _) K := by
  show (isBoolB p a && (isBoolB p b && k (fsub p (fadd p a b) (fmul p (fmul p 2 a) b)))) = true ↔
    isBool (a : ZMod p) ∧ isBool (b : ZMod p) ∧ K ((a : ZMod p) + b - 2 * a * b)
  rw [Bool.and_eq_true, Bool.and_eq_true, isBoolB_iff, isBoolB_iff, h _ (fsub_lt _ _)]
  simp

theorem exec_and (a b : ℕ) {k K} (h : RelK (p := p) k K) :
    (execApi p).and_ a b k = true ↔ (and_ (a : ZMod p) (b : ZMod p) : SatM p _) K := by
  show (isBoolB p a && (isBoolB p b && k (fmul p a b))) = true ↔
    isBool (a : ZMod p) ∧ isBool (b : ZMod p) ∧ K ((a : ZMod p) * b)
  rw [Bool.and_eq_true, Bool.and_eq_true, isBoolB_iff, isBoolB_iff, h _ (fmul_lt _ _)]
  simp

theorem exec_assertBool (a : ℕ) {k : Unit → Bool} {K : Unit → Prop} (h : k () = true ↔ K ()) :
    (execApi p).assertBool a k = true ↔ (assertBool (a : ZMod p) : SatM p _) K := by
  show (isBoolB p a && k ()) = true ↔ isBool (a : ZMod p) ∧ K ()
  rw [Bool.and_eq_true, isBoolB_iff, h]

theorem exec_assertEq (a b : ℕ) {k : Unit → Bool} {K : Unit → Prop} (h : k () = true ↔ K ()) :
    (execApi p).assertEq a b k = true ↔ (assertEq (a : ZMod p) (b : ZMod p) : SatM p _) K := by
  show (a % p == b % p && k ()) = true ↔ (a : ZMod p) = b ∧ K ()
  rw [Bool.and_eq_true, beq_mod_iff, h]

/-- the bounded search `x ∈ {0, 1, a^(p-2)}` decides the existential over the `InvZero` hint wire -/
theorem exec_isZero (a : ℕ) {k K} (h : RelK (p := p) k K) :
    (execApi p).isZero a k = true ↔ (isZero (a : ZMod p) : SatM p _) K := by
  show ((invCands p a).any fun x =>
      fmul p a (fsub p 1 (fmul p a x)) == 0 && k (fsub p 1 (fmul p a x))) = true ↔ _
  rw [List.any_eq_true]
  constructor
  · rintro ⟨x, _, hx⟩
    rw [Bool.and_eq_true, fmul_beq_zero, h _ (fsub_lt _ _), cast_fsub, cast_fmul, Nat.cast_one] at hx
    exact ⟨(x : ZMod p), 1 - (a : ZMod p) * x, rfl, hx.1, hx.2⟩
  · intro hs
    rw [Sat.isZero_iff] at hs
    by_cases ha : (a : ZMod p) = 0
    · refine ⟨0, by simp [invCands], ?_⟩
      rw [Bool.and_eq_true, fmul_beq_zero, h _ (fsub_lt _ _), cast_fsub, cast_fmul, Nat.cast_one]
      simp only [ha, if_true] at hs
      simpa [ha] using hs
    · refine ⟨powMod p a (p - 2), by simp [invCands], ?_⟩
      rw [Bool.and_eq_true, fmul_beq_zero, h _ (fsub_lt _ _), cast_fsub, cast_fmul, Nat.cast_one,
        cast_powMod]
      simp only [ha, if_false] at hs
      have h2 : 2 ≤ p := hp.out.two_le
      have hinv : (a : ZMod p) * (a : ZMod p) ^ (p - 2) = 1 := by
        rw [← pow_succ', show p - 2 + 1 = p - 1 by omega]
        exact ZMod.pow_card_sub_one_eq_one ha
      rw [hinv, sub_self, mul_zero]
      exact ⟨rfl, hs⟩

theorem mem_allBits : ∀ (n : ℕ) (bs : List ℕ),
    bs ∈ allBits n ↔ bs.length = n ∧ ∀ b ∈ bs, b = 0 ∨ b = 1
  | 0, bs => by
    simp only [allBits, List.mem_singleton]
    constructor
    · rintro rfl; simp
    · rintro ⟨h, _⟩; exact List.length_eq_zero_iff.mp h
  | n + 1, bs => by
    simp only [allBits, List.mem_flatMap, List.mem_cons, List.not_mem_nil, or_false]
    constructor
    · rintro ⟨t, ht, rfl | rfl⟩
      · obtain ⟨h1, h2⟩ := (mem_allBits n t).mp ht
        exact ⟨by simp [h1], by
          intro b hb
          rcases List.mem_cons.mp hb with rfl | hb
          · exact Or.inl rfl
          · exact h2 b hb⟩
      · obtain ⟨h1, h2⟩ := (mem_allBits n t).mp ht
        exact ⟨by simp [h1], by
          intro b hb
          rcases List.mem_cons.mp hb with rfl | hb
          · exact Or.inr rfl
          · exact h2 b hb⟩
    · rintro ⟨hl, hb⟩
      cases bs with
      | nil => simp at hl
      | cons x t =>
        refine ⟨t, (mem_allBits n t).mpr ⟨by simpa using hl, fun b hb' => hb _ (List.mem_cons_of_mem _ hb')⟩, ?_⟩
        rcases hb x (List.mem_cons_self ..) with rfl | rfl
        · exact Or.inl rfl
        · exact Or.inr rfl

/-- the bounded search `bits ∈ {0,1}^n` decides the existential over the `NBits` hint wires -/
theorem exec_toBinary (v n : ℕ) {k K} (h : RelKs (p := p) k K) :
    (execApi p).toBinary v n k = true ↔ (toBinary (v : ZMod p) n : SatM p _) K := by
  show ((allBits n).any fun bits => recomposeN p bits == v % p && k bits) = true ↔ _
  rw [List.any_eq_true, Sat.toBinary_def]
  have h1p : 1 < p := hp.out.one_lt
  constructor
  · rintro ⟨bits, hmem, hx⟩
    obtain ⟨hlen, hbit⟩ := (mem_allBits n bits).mp hmem
    have hlt : ∀ b ∈ bits, b < p := fun b hb => by rcases hbit b hb with rfl | rfl <;> omega
    rw [Bool.and_eq_true, beq_iff_eq, h bits hlt] at hx
    refine ⟨bits.map fun (n : ℕ) => (n : ZMod p), by simpa using hlen, ?_, ?_, hx.2⟩
    · intro b hb
      obtain ⟨x, hx', rfl⟩ := List.mem_map.mp hb
      rcases hbit x hx' with rfl | rfl
      · simpa using Sat.isBool_zero (p := p)
      · simpa using Sat.isBool_one (p := p)
    · rw [← cast_recomposeN, hx.1, ZMod.natCast_mod]
  · rintro ⟨bits, hlen, hbool, hrec, hK⟩
    obtain ⟨bs, rfl⟩ := (Sat.all_isBool_iff bits).mp hbool
    let nb : List ℕ := bs.map fun b => if b then 1 else 0
    have hmap : (nb.map fun (n : ℕ) => (n : ZMod p)) = bs.map Sat.embed := by
      simp only [nb, List.map_map]
      apply List.map_congr_left
      intro b _
      cases b <;> simp [Sat.embed]
    have hbit : ∀ b ∈ nb, b = 0 ∨ b = 1 := by
      intro b hb
      obtain ⟨x, _, rfl⟩ := List.mem_map.mp hb
      cases x <;> simp
    have hlt : ∀ b ∈ nb, b < p := fun b hb => by rcases hbit b hb with rfl | rfl <;> omega
    refine ⟨nb, (mem_allBits n nb).mpr ⟨by simpa [nb] using hlen, hbit⟩, ?_⟩
    rw [Bool.and_eq_true, beq_iff_eq, h nb hlt, hmap]
    refine ⟨?_, hK⟩
    have : ((recomposeN p nb : ℕ) : ZMod p) = (v : ZMod p) := by rw [cast_recomposeN, hmap, hrec]
    rw [ZMod.natCast_eq_natCast_iff', Nat.mod_eq_of_lt (recomposeN_lt nb)] at this
    exact this

theorem exec_fromBinary (bs : List ℕ) {k K} (h : RelK (p := p) k K) :
    (execApi p).fromBinary bs k = true ↔
      (fromBinary (bs.map fun (n : ℕ) => (n : ZMod p)) : SatM p _) K := by
  show (bs.all (isBoolB p) && k (recomposeN p bs)) = true ↔
    (∀ b ∈ bs.map fun (n : ℕ) => (n : ZMod p), isBool b) ∧ K (recompose (bs.map fun (n : ℕ) => (n : ZMod p)))
  rw [Bool.and_eq_true, List.all_eq_true, h _ (recomposeN_lt bs), cast_recomposeN]
  simp [isBoolB_iff]

/-- the final continuation used by `Driver.Gate.decide` -/
theorem relK_final (out : ℕ) : RelK (p := p) (fun r => r == out % p) (· = (out : ZMod p)) := by
  intro n hn
  have := beq_mod_iff (p := p) n out
  rwa [Nat.mod_eq_of_lt hn] at this

end exec
end GateTableExec
end Smtb
