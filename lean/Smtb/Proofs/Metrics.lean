import Smtb.Model.Metrics
/-! Proofs for C20 (core Lean only): projections, counter algebra, the invariant of well-formed
histories, equivalence of the declarative `WellFormed` with the executable `check`. -/
namespace Smtb.Metrics

/-! ### projections -/

@[simp] theorem begins_append (a b : List Event) : begins (a ++ b) = begins a ++ begins b := by
  simp [begins, List.filterMap_append]
@[simp] theorem countIds_append (a b : List Event) : countIds (a ++ b) = countIds a ++ countIds b := by
  simp [countIds, List.filterMap_append]
@[simp] theorem finishes_append (a b : List Event) : finishes (a ++ b) = finishes a ++ finishes b := by
  simp [finishes, List.filterMap_append]
@[simp] theorem responses_append (a b : List Event) :
    responses (a ++ b) = responses a ++ responses b := by
  simp [responses, List.filterMap_append]

@[simp] theorem begins_nil : begins [] = [] := rfl
@[simp] theorem countIds_nil : countIds [] = [] := rfl
@[simp] theorem finishes_nil : finishes [] = [] := rfl
@[simp] theorem responses_nil : responses [] = [] := rfl
@[simp] theorem begins_cons_begin (r es) : begins (.begin r :: es) = r :: begins es := rfl
@[simp] theorem begins_cons_count (r m c es) : begins (.count r m c :: es) = begins es := rfl
@[simp] theorem begins_cons_finish (r es) : begins (.finish r :: es) = begins es := rfl
@[simp] theorem countIds_cons_begin (r es) : countIds (.begin r :: es) = countIds es := rfl
@[simp] theorem countIds_cons_count (r m c es) : countIds (.count r m c :: es) = r :: countIds es := rfl
@[simp] theorem countIds_cons_finish (r es) : countIds (.finish r :: es) = countIds es := rfl
@[simp] theorem finishes_cons_begin (r es) : finishes (.begin r :: es) = finishes es := rfl
@[simp] theorem finishes_cons_count (r m c es) : finishes (.count r m c :: es) = finishes es := rfl
@[simp] theorem finishes_cons_finish (r es) : finishes (.finish r :: es) = r :: finishes es := rfl
@[simp] theorem responses_cons_begin (r es) : responses (.begin r :: es) = responses es := rfl
@[simp] theorem responses_cons_count (r m c es) :
    responses (.count r m c :: es) = (m, c) :: responses es := rfl
@[simp] theorem responses_cons_finish (r es) : responses (.finish r :: es) = responses es := rfl

theorem mem_begins {r : Nat} {h : List Event} : r ∈ begins h ↔ .begin r ∈ h := by
  induction h with
  | nil => simp
  | cons e es ih => cases e <;> simp [ih]

theorem mem_countIds {r : Nat} {h : List Event} : r ∈ countIds h ↔ ∃ m c, .count r m c ∈ h := by
  induction h with
  | nil => simp
  | cons e es ih =>
    cases e <;> simp [ih]
    rename_i r' m' c'
    constructor
    · rintro (rfl | ⟨m, c, hm⟩)
      · exact ⟨m', c', .inl ⟨rfl, rfl, rfl⟩⟩
      · exact ⟨m, c, .inr hm⟩
    · rintro ⟨m, c, (⟨rfl, _, _⟩ | hm)⟩
      · exact .inl rfl
      · exact .inr ⟨m, c, hm⟩

theorem mem_finishes {r : Nat} {h : List Event} : r ∈ finishes h ↔ .finish r ∈ h := by
  induction h with
  | nil => simp
  | cons e es ih => cases e <;> simp [ih]

theorem length_responses (h : List Event) : (responses h).length = (countIds h).length := by
  induction h with
  | nil => rfl
  | cons e es ih => cases e <;> simp [ih]

/-! ### running -/

@[simp] theorem run_nil (st : State) : run st [] = st := rfl
@[simp] theorem run_cons (st : State) (e : Event) (es : List Event) :
    run st (e :: es) = run (step st e) es := rfl
theorem run_append (st : State) (a b : List Event) : run st (a ++ b) = run (run st a) b := by
  simp [run, List.foldl_append]

/-! ### counter-vector algebra -/

theorem lookup_bump (t : List (Label × Nat)) (l l' : Label) :
    lookup (bump t l) l' = lookup t l' + if l = l' then 1 else 0 := by
  induction t with
  | nil => simp [bump, lookup]
  | cons kn t ih =>
    obtain ⟨k, n⟩ := kn
    by_cases hk : k = l
    · subst hk
      by_cases hl : k = l' <;> simp [bump, lookup, hl]
    · by_cases hl : k = l'
      · subst hl
        have : ¬ l = k := fun h => hk h.symm
        simp [bump, lookup, hk, this]
      · simp [bump, lookup, hk, hl, ih]

theorem sum_bump (t : List (Label × Nat)) (l : Label) :
    ((bump t l).map (·.2)).sum = (t.map (·.2)).sum + 1 := by
  induction t with
  | nil => simp [bump]
  | cons kn t ih =>
    obtain ⟨k, n⟩ := kn
    by_cases hk : k = l
    · simp [bump, hk]; omega
    · simp [bump, hk, ih]; omega

/-- the counter vector after a run: old value plus the tally of the responses counted in the run.
Holds for EVERY history (the counters do not depend on well-formedness). -/
theorem total_run (st : State) (h : List Event) (l : Label) :
    total (run st h) l = total st l + tally (responses h) l := by
  induction h generalizing st with
  | nil => simp [tally]
  | cons e es ih =>
    cases e with
    | begin r => simpa [step, total] using ih _
    | finish r => simpa [step, total] using ih _
    | count r m c =>
      rw [run_cons, ih]
      simp only [step, total, lookup_bump, responses_cons_count, tally, List.map_cons,
        List.count_cons, beq_iff_eq]
      omega

theorem sumTotals_run (st : State) (h : List Event) :
    sumTotals (run st h) = sumTotals st + (countIds h).length := by
  induction h generalizing st with
  | nil => simp
  | cons e es ih =>
    cases e with
    | begin r => simpa [step, sumTotals] using ih _
    | finish r => simpa [step, sumTotals] using ih _
    | count r m c =>
      rw [run_cons, ih]
      simp only [step, sumTotals, sum_bump, countIds_cons_count, List.length_cons]
      omega

/-! ### cardinality of duplicate-free lists -/

theorem nodup_subset_length {l₁ l₂ : List Nat} (d : l₁.Nodup) (s : ∀ a ∈ l₁, a ∈ l₂) :
    l₁.length ≤ l₂.length := by
  induction l₁ generalizing l₂ with
  | nil => simp
  | cons a t ih =>
    have ⟨hat, dt⟩ := List.nodup_cons.1 d
    have ha : a ∈ l₂ := s a (by simp)
    have h1 : t.length ≤ (l₂.erase a).length := ih dt fun b hb => by
      have hne : b ≠ a := fun e => hat (e ▸ hb)
      exact (List.mem_erase_of_ne hne).2 (s b (by simp [hb]))
    have h2 := List.length_erase_of_mem ha
    have h3 : 0 < l₂.length := List.length_pos_of_mem ha
    simp only [List.length_cons]; omega

theorem filter_not_length (l : List Nat) (p : Nat → Bool) :
    (l.filter p).length + (l.filter fun a => !p a).length = l.length := by
  induction l with
  | nil => rfl
  | cons a t ih => by_cases h : p a <;> simp [h] <;> omega

theorem nodup_filter {l : List Nat} (p : Nat → Bool) (d : l.Nodup) : (l.filter p).Nodup :=
  List.Nodup.sublist List.filter_sublist d

/-- for duplicate-free `F ⊆ B`: the elements of `B` outside `F` number `|B| - |F|` -/
theorem length_filter_not_mem {B F : List Nat} (dB : B.Nodup) (dF : F.Nodup)
    (s : ∀ a ∈ F, a ∈ B) :
    (B.filter fun r => !F.contains r).length + F.length = B.length := by
  have hperm : (B.filter fun r => F.contains r).Perm F := by
    refine (List.perm_ext_iff_of_nodup (nodup_filter _ dB) dF).2 fun a => ?_
    simp only [List.mem_filter, List.contains_iff_mem]
    exact ⟨fun h => h.2, fun h => ⟨s a h, h⟩⟩
  have := filter_not_length B (fun r => F.contains r)
  have := hperm.length_eq
  omega

/-! ### the invariant of well-formed histories -/

/-- ids are used at most once per kind; counted ⊆ begun; finished ⊆ counted -/
structure Inv (h : List Event) : Prop where
  dB : (begins h).Nodup
  dC : (countIds h).Nodup
  dF : (finishes h).Nodup
  cB : ∀ r ∈ countIds h, r ∈ begins h
  fC : ∀ r ∈ finishes h, r ∈ countIds h

theorem Inv.nil : Inv [] := ⟨by simp, by simp, by simp, by simp, by simp⟩

theorem nodup_snoc {l : List Nat} {r : Nat} (d : l.Nodup) (h : r ∉ l) : (l ++ [r]).Nodup := by
  refine List.nodup_append.2 ⟨d, by simp, ?_⟩
  intro a ha b hb
  simp only [List.mem_singleton] at hb
  subst hb
  exact fun e => h (e ▸ ha)

theorem Inv.snoc {seen : List Event} {e : Event} (inv : Inv seen) (ok : okNext seen e = true) :
    Inv (seen ++ [e]) := by
  obtain ⟨dB, dC, dF, cB, fC⟩ := inv
  cases e with
  | begin r =>
    simp only [okNext, Bool.not_eq_true', ← Bool.not_eq_true, List.contains_iff_mem] at ok
    refine ⟨by simpa [begins] using nodup_snoc dB ok, by simpa [countIds] using dC,
      by simpa [finishes] using dF, ?_, by simpa [finishes, countIds] using fC⟩
    intro r' hr'
    have : r' ∈ countIds seen := by simpa [countIds] using hr'
    simp [cB r' this]
  | count r m c =>
    simp only [okNext, Bool.and_eq_true, Bool.not_eq_true', ← Bool.not_eq_true,
      List.contains_iff_mem] at ok
    refine ⟨by simpa [begins] using dB, by simpa [countIds] using nodup_snoc dC ok.2,
      by simpa [finishes] using dF, ?_, ?_⟩
    · intro r' hr'
      have : r' ∈ countIds seen ∨ r' = r := by simpa [countIds] using hr'
      rcases this with h | rfl
      · simp [cB r' h]
      · simpa using ok.1
    · intro r' hr'
      have : r' ∈ finishes seen := by simpa [finishes] using hr'
      simp [fC r' this]
  | finish r =>
    simp only [okNext, Bool.and_eq_true, Bool.not_eq_true', ← Bool.not_eq_true,
      List.contains_iff_mem] at ok
    refine ⟨by simpa [begins] using dB, by simpa [countIds] using dC,
      by simpa [finishes] using nodup_snoc dF ok.2, by simpa [begins, countIds] using cB, ?_⟩
    intro r' hr'
    have : r' ∈ finishes seen ∨ r' = r := by simpa [finishes] using hr'
    rcases this with h | rfl
    · simpa using fC r' h
    · simpa using ok.1

theorem snoc_append (seen : List Event) (e : Event) (es : List Event) :
    seen ++ e :: es = (seen ++ [e]) ++ es := by simp

theorem Inv.of_checkFrom {seen es : List Event} (inv : Inv seen) (ck : checkFrom seen es = true) :
    Inv (seen ++ es) := by
  induction es generalizing seen with
  | nil => simpa using inv
  | cons e es ih =>
    simp only [checkFrom, Bool.and_eq_true] at ck
    rw [snoc_append]
    exact ih (inv.snoc ck.1) ck.2

theorem Inv.finished_le_counted {h : List Event} (inv : Inv h) :
    (finishes h).length ≤ (countIds h).length := nodup_subset_length inv.dF inv.fC

theorem Inv.counted_le_begun {h : List Event} (inv : Inv h) :
    (countIds h).length ≤ (begins h).length := nodup_subset_length inv.dC inv.cB

/-- splitting a checked history -/
theorem checkFrom_append {seen a b : List Event} :
    checkFrom seen (a ++ b) = (checkFrom seen a && checkFrom (seen ++ a) b) := by
  induction a generalizing seen with
  | nil => simp [checkFrom]
  | cons e es ih => simp [checkFrom, ih, Bool.and_assoc]

/-- the gauge along a checked history: no underflow, `inFlight + finished = begun` -/
theorem inFlight_checkFrom {seen es : List Event} {st : State} (inv : Inv seen)
    (ck : checkFrom seen es = true)
    (h0 : st.inFlight + (finishes seen).length = (begins seen).length) :
    (run st es).inFlight + (finishes (seen ++ es)).length = (begins (seen ++ es)).length := by
  induction es generalizing seen st with
  | nil => simpa using h0
  | cons e es ih =>
    simp only [checkFrom, Bool.and_eq_true] at ck
    have inv' := inv.snoc ck.1
    rw [snoc_append, run_cons]
    refine ih inv' ck.2 ?_
    cases e with
    | begin r => simp [step]; omega
    | count r m c => simpa [step] using h0
    | finish r =>
      have h1 := inv'.finished_le_counted
      have h2 := inv'.counted_le_begun
      simp at h1 h2
      simp [step]; omega

/-! ### declarative ⇔ executable well-formedness -/

theorem WellFormed.of_prefix {p h : List Event} (wf : WellFormed h) (hp : p <+: h) :
    WellFormed p := by
  obtain ⟨s, rfl⟩ := hp
  have sub : p.Sublist (p ++ s) := List.sublist_append_left p s
  refine ⟨List.Nodup.sublist (sub.filterMap _) wf.begin_once,
    List.Nodup.sublist (sub.filterMap _) wf.count_once,
    List.Nodup.sublist (sub.filterMap _) wf.finish_once, ?_, ?_⟩
  · intro pre r m c post e
    exact wf.count_after_begin pre r m c (post ++ s) (by simp [e])
  · intro pre r post e
    exact wf.finish_after_count pre r (post ++ s) (by simp [e])

theorem checkFrom_of_wellFormed {seen es : List Event} (wf : WellFormed (seen ++ es)) :
    checkFrom seen es = true := by
  induction es generalizing seen with
  | nil => rfl
  | cons e es ih =>
    simp only [checkFrom, Bool.and_eq_true]
    refine ⟨?_, ih (by simpa using wf)⟩
    cases e with
    | begin r =>
      have d := wf.begin_once
      simp only [begins_append, begins_cons_begin, List.nodup_append] at d
      have : r ∉ begins seen := fun hr => d.2.2 r hr r (by simp) rfl
      simpa [okNext] using this
    | count r m c =>
      have d := wf.count_once
      simp only [countIds_append, countIds_cons_count, List.nodup_append] at d
      have h1 : r ∉ countIds seen := fun hr => d.2.2 r hr r (by simp) rfl
      have h2 : r ∈ begins seen := mem_begins.2 (wf.count_after_begin seen r m c es rfl)
      simp [okNext, h1, h2]
    | finish r =>
      have d := wf.finish_once
      simp only [finishes_append, finishes_cons_finish, List.nodup_append] at d
      have h1 : r ∉ finishes seen := fun hr => d.2.2 r hr r (by simp) rfl
      have h2 : r ∈ countIds seen := mem_countIds.2 (wf.finish_after_count seen r es rfl)
      simp [okNext, h1, h2]

theorem wellFormed_of_check {h : List Event} (ck : check h = true) : WellFormed h := by
  have inv : Inv h := by simpa using Inv.nil.of_checkFrom ck
  refine ⟨inv.dB, inv.dC, inv.dF, ?_, ?_⟩
  · intro pre r m c post e
    subst e
    have := (checkFrom_append (seen := []) (a := pre) (b := .count r m c :: post)).symm.trans ck
    simp only [Bool.and_eq_true, List.nil_append, checkFrom, okNext] at this
    exact mem_begins.1 (List.contains_iff_mem.1 this.2.1.1)
  · intro pre r post e
    subst e
    have := (checkFrom_append (seen := []) (a := pre) (b := .finish r :: post)).symm.trans ck
    simp only [Bool.and_eq_true, List.nil_append, checkFrom, okNext] at this
    exact mem_countIds.1 (List.contains_iff_mem.1 this.2.1.1)

/-- the declarative definition and the executable checker agree -/
theorem wellFormed_iff_check {h : List Event} : WellFormed h ↔ check h = true :=
  ⟨fun wf => checkFrom_of_wellFormed (seen := []) (by simpa using wf), wellFormed_of_check⟩

instance (h : List Event) : Decidable (WellFormed h) :=
  decidable_of_iff _ wellFormed_iff_check.symm

theorem WellFormed.inv {h : List Event} (wf : WellFormed h) : Inv h := by
  simpa using Inv.nil.of_checkFrom (wellFormed_iff_check.1 wf)

theorem allFinished_iff {h : List Event} :
    AllFinished h ↔ ((begins h).all fun r => (finishes h).contains r) = true := by
  simp [AllFinished, List.all_eq_true]

instance (h : List Event) : Decidable (AllFinished h) :=
  decidable_of_iff _ allFinished_iff.symm

theorem complete_iff_checkComplete {h : List Event} : Complete h ↔ checkComplete h = true := by
  simp only [checkComplete, Bool.and_eq_true, ← wellFormed_iff_check, ← allFinished_iff]
  exact ⟨fun c => ⟨c.wf, c.done⟩, fun c => ⟨c.1, c.2⟩⟩

instance (h : List Event) : Decidable (Complete h) :=
  decidable_of_iff _ complete_iff_checkComplete.symm

/-! ### sequential histories (used by the driver) are complete -/

theorem responses_sequentialFrom (i : Nat) (rs : List (String × Nat)) :
    responses (sequentialFrom i rs) = rs := by
  induction rs generalizing i with
  | nil => rfl
  | cons r rs ih => obtain ⟨m, c⟩ := r; simp [sequentialFrom, ih]

theorem ids_sequentialFrom (i : Nat) (rs : List (String × Nat)) :
    begins (sequentialFrom i rs) = List.range' i rs.length ∧
    countIds (sequentialFrom i rs) = List.range' i rs.length ∧
    finishes (sequentialFrom i rs) = List.range' i rs.length := by
  induction rs generalizing i with
  | nil => simp [sequentialFrom]
  | cons r rs ih =>
    obtain ⟨m, c⟩ := r
    have := ih (i + 1)
    simp [sequentialFrom, List.range', this]

theorem checkFrom_sequentialFrom (seen : List Event) (i : Nat) (rs : List (String × Nat))
    (hB : ∀ r ∈ begins seen, r < i) (hC : ∀ r ∈ countIds seen, r < i)
    (hF : ∀ r ∈ finishes seen, r < i) :
    checkFrom seen (sequentialFrom i rs) = true := by
  induction rs generalizing seen i with
  | nil => rfl
  | cons r rs ih =>
    obtain ⟨m, c⟩ := r
    have nB : i ∉ begins seen := fun h => Nat.lt_irrefl _ (hB i h)
    have nC : i ∉ countIds seen := fun h => Nat.lt_irrefl _ (hC i h)
    have nF : i ∉ finishes seen := fun h => Nat.lt_irrefl _ (hF i h)
    simp only [sequentialFrom, checkFrom, okNext, Bool.and_eq_true]
    refine ⟨by simp [nB], by simp [nC], by simp [nF], ?_⟩
    apply ih
    · intro r hr
      have : r ∈ begins seen ∨ r = i := by simpa using hr
      rcases this with h | rfl
      · exact Nat.lt_succ_of_lt (hB r h)
      · exact Nat.lt_succ_self _
    · intro r hr
      have : r ∈ countIds seen ∨ r = i := by simpa using hr
      rcases this with h | rfl
      · exact Nat.lt_succ_of_lt (hC r h)
      · exact Nat.lt_succ_self _
    · intro r hr
      have : r ∈ finishes seen ∨ r = i := by simpa using hr
      rcases this with h | rfl
      · exact Nat.lt_succ_of_lt (hF r h)
      · exact Nat.lt_succ_self _

theorem complete_sequential (rs : List (String × Nat)) : Complete (sequential rs) := by
  refine ⟨wellFormed_iff_check.2 (checkFrom_sequentialFrom [] 0 rs ?_ ?_ ?_), ?_⟩
  · simp
  · simp
  · simp
  · intro r hr
    have := ids_sequentialFrom 0 rs
    rw [sequential, this.2.2, ← this.1]; exact hr

end Smtb.Metrics
