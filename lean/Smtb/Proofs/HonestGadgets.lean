import Smtb.Proofs.HonestHints
import Smtb.Proofs.MainCircuit
/-!
# The circuits under honest hints

`HonM p` (`Smtb/Proofs/HonestHints.lean`) is the gate table of `SatM p` with the two hint gates
instantiated by the values gnark's solver computes.  This file pushes the comparison
`HonM` ↔ `SatM` through every gadget of the repository:

* hint-free gadgets (`reducedModRCheck`, `verifyProof`, Keccak, Poseidon, `fromBinaryBigEndian`)
  are *the same predicate transformer* in both readings (`…_toSat`, by structural recursion —
  no property of the gadget is used);
* the gadgets that contain a hint (`toReducedBigEndian`: `ToBinary`; `insertionRound`:
  `ToBinary`; `deletionRound`: `ToBinary` and `IsZero`) are the same predicate transformer because
  at each of these call sites the constraints pin the hint wires to the honest values
  (`toBinary_witness_unique`, `isZero_witness_unique`);
* hence the two full circuits: **satisfiable ⇔ satisfied by the honest hint values**
  (`insertionCircuit_toSat`, `deletionCircuit_toSat`).
-/
namespace Smtb.Honest
open Smtb Smtb.Sat Smtb.Merkle Smtb.Circuit CircuitApi

variable {p : ℕ}

/-! ## `toSat` is a monad morphism, and the identity on hint-free gates -/

namespace HonM

theorem toSat_bind {α β} (x : HonM p α) (f : α → HonM p β) :
    (x >>= f).toSat = x.toSat >>= fun a => (f a).toSat := rfl
theorem toSat_pure {α} (a : α) : (pure a : HonM p α).toSat = (pure a : SatM p α) := rfl
theorem toSat_ite {α} (c : Prop) [Decidable c] (x y : HonM p α) :
    (if c then x else y).toSat = if c then x.toSat else y.toSat := by split <;> rfl

theorem ext_toSat {α} {x : HonM p α} {y : SatM p α} (h : ∀ k, x k ↔ y k) : x.toSat = y :=
  funext fun k => propext (h k)

end HonM

theorem const_hon (n : ℕ) : (const (m := HonM p) n : ZMod p) = const (m := SatM p) n := rfl
theorem add_toSat (a b : ZMod p) : (add a b : HonM p _).toSat = add a b := rfl
theorem sub_toSat (a b : ZMod p) : (sub a b : HonM p _).toSat = sub a b := rfl
theorem mul_toSat (a b : ZMod p) : (mul a b : HonM p _).toSat = mul a b := rfl
theorem select_toSat (c a b : ZMod p) : (select c a b : HonM p _).toSat = select c a b := rfl
theorem or_toSat (a b : ZMod p) : (or_ a b : HonM p _).toSat = or_ a b := rfl
theorem xor_toSat (a b : ZMod p) : (xor_ a b : HonM p _).toSat = xor_ a b := rfl
theorem and_toSat (a b : ZMod p) : (and_ a b : HonM p _).toSat = and_ a b := rfl
theorem fromBinary_toSat (bs : List (ZMod p)) : (fromBinary bs : HonM p _).toSat = fromBinary bs := rfl
theorem assertBool_toSat (a : ZMod p) : (assertBool a : HonM p _).toSat = assertBool a := rfl
theorem assertEq_toSat (a b : ZMod p) : (assertEq a b : HonM p _).toSat = assertEq a b := rfl
theorem opaque1_toSat (n ps as) (body : HonM p (ZMod p)) :
    (opaque1 n ps as body : HonM p _).toSat = opaque1 n ps as body.toSat := rfl
theorem opaqueN_toSat (n ps as c) (body : HonM p (List (ZMod p))) :
    (opaqueN n ps as c body : HonM p _).toSat = opaqueN n ps as c body.toSat := rfl

/-- the two hint gates: an honest run *is* a satisfying assignment (every modulus, every width) -/
theorem toBinary_refines (v : ZMod p) (n : ℕ) (k) :
    (toBinary v n : HonM p _) k → (toBinary v n : SatM p _) k := Hon.toBinary_toSat v n k
theorem isZero_refines (a : ZMod p) (k) :
    (isZero a : HonM p _) k → (isZero a : SatM p _) k := Hon.isZero_toSat a k

/-- … and where the width cannot wrap, `ToBinary` is the same predicate transformer -/
theorem toBinary_toSat [Fact p.Prime] (v : ZMod p) (n : ℕ) (hn : 2 ^ n ≤ p) :
    (toBinary v n : HonM p _).toSat = toBinary v n := by
  have : NeZero p := ⟨(Fact.out : p.Prime).ne_zero⟩
  exact HonM.ext_toSat fun k => by rw [Hon.toBinary_iff, Sat.toBinary_iff v n hn]

/-- `IsZero` always is -/
theorem isZero_toSat [Fact p.Prime] (a : ZMod p) : (isZero a : HonM p _).toSat = isZero a :=
  HonM.ext_toSat fun k => by rw [Hon.isZero_iff, Sat.isZero_iff]

/-! ## the list combinators -/

theorem toSat_mapM' {α β} (f : α → HonM p β) :
    ∀ l : List α, (mapM' f l).toSat = mapM' (fun a => (f a).toSat) l
  | [] => rfl
  | a :: as => by
    simp only [mapM', HonM.toSat_bind, HonM.toSat_pure, toSat_mapM' f as]

theorem toSat_foldlM' {α β} (f : β → α → HonM p β) :
    ∀ (l : List α) (b : β), (foldlM' f b l).toSat = foldlM' (fun b a => (f b a).toSat) b l
  | [], _ => rfl
  | a :: as, b => by
    simp only [foldlM', HonM.toSat_bind, toSat_foldlM' f as]

theorem toSat_zipWithM' {α β γ} (f : α → β → HonM p γ) :
    ∀ (l : List α) (l' : List β),
      (zipWithM' f l l').toSat = zipWithM' (fun a b => (f a b).toSat) l l'
  | [], _ => rfl
  | _ :: _, [] => rfl
  | a :: as, b :: bs => by
    simp only [zipWithM', HonM.toSat_bind, HonM.toSat_pure, toSat_zipWithM' f as bs]

/-! ## `ReducedModRCheck` (hint-free) and `ToReducedBigEndian` (`ToBinary`) -/

theorem reducedLoop_toSat (xs : List (ZMod p)) (f s : ZMod p) :
    (reducedLoop p xs f s : HonM p _).toSat = reducedLoop p xs f s := by
  induction xs generalizing f s with
  | nil => rfl
  | cons x rest ih =>
    unfold reducedLoop
    simp only [HonM.toSat_bind, HonM.toSat_ite, assertBool_toSat, or_toSat, select_toSat, sub_toSat,
      const_hon, ih]

theorem reducedModRCheck_toSat (bits : List (ZMod p)) :
    (reducedModRCheck p bits : HonM p Unit).toSat = reducedModRCheck p bits := by
  unfold reducedModRCheck
  rw [HonM.toSat_ite]
  congr 1
  rw [HonM.toSat_bind, reducedLoop_toSat]
  rfl

theorem reducedModRCheck_hon (bits : List (ZMod p)) (k : Unit → Prop) :
    (reducedModRCheck p bits : HonM p Unit) k ↔ (reducedModRCheck p bits : SatM p Unit) k := by
  rw [← reducedModRCheck_toSat]; rfl

section prime
variable [Fact p.Prime]

/-- `ToReducedBigEndian` **with the honest `ToBinary` hint**, every width: the same statement as
`C06.toReducedBigEndian_sat` — the honest bits pass `ReducedModRCheck` because they denote
`v.val < p` -/
theorem toReducedBigEndian_hon (v : ZMod p) (n : ℕ) (k : List (ZMod p) → Prop) :
    (toReducedBigEndian p v n : HonM p _) k ↔
      v.val < 2 ^ n ∧ k (swapByteOrder ((bitsLE n v.val).map embed)) := by
  have : NeZero p := ⟨(Fact.out : p.Prime).ne_zero⟩
  unfold toReducedBigEndian
  simp only [HonM.bind_apply, Hon.toBinary_iff, HonM.pure_apply, reducedModRCheck_hon,
    Smtb.Properties.C06.reducedModRCheck_embed, reducedOk_iff]
  constructor
  · rintro ⟨hv, -, hk⟩; exact ⟨hv, hk⟩
  · rintro ⟨hv, hk⟩
    refine ⟨hv, Or.inr ?_, hk⟩
    rw [Smtb.natOfBits_bitsLE, Nat.mod_eq_of_lt hv]
    exact ZMod.val_lt v

theorem toReducedBigEndian_toSat (v : ZMod p) (n : ℕ) :
    (toReducedBigEndian p v n : HonM p _).toSat = toReducedBigEndian p v n :=
  HonM.ext_toSat fun k => by
    rw [toReducedBigEndian_hon, Smtb.Properties.C06.toReducedBigEndian_sat]

end prime

theorem fromBinaryBigEndian_toSat (bits : List (ZMod p)) :
    (fromBinaryBigEndian bits : HonM p _).toSat = fromBinaryBigEndian bits := rfl

/-! ## Merkle gadgets -/

section merkle
variable (hash2 : ZMod p → ZMod p → HonM p (ZMod p))

theorem proofRound_toSat (d h s : ZMod p) :
    (proofRound hash2 d h s).toSat = proofRound (fun a b => (hash2 a b).toSat) d h s := rfl

theorem verifyProofLoop_toSat (acc : ZMod p) (sibs path : List (ZMod p)) :
    (verifyProofLoop hash2 acc sibs path).toSat =
      verifyProofLoop (fun a b => (hash2 a b).toSat) acc sibs path := by
  induction sibs generalizing acc path with
  | nil => cases path <;> rfl
  | cons s sibs ih =>
    cases path with
    | nil => rfl
    | cons b path =>
      simp only [verifyProofLoop, HonM.toSat_bind, proofRound_toSat, ih]

theorem verifyProof_toSat (leaf : ZMod p) (sibs path : List (ZMod p)) :
    (verifyProof hash2 leaf sibs path).toSat =
      verifyProof (fun a b => (hash2 a b).toSat) leaf sibs path :=
  verifyProofLoop_toSat hash2 leaf sibs path

variable [Fact p.Prime]

/-- `InsertionRound` with the honest `ToBinary(index, depth)` hint -/
theorem insertionRound_toSat (d : ℕ) (hd : 2 ^ d ≤ p) (idx item prev : ZMod p)
    (proof : List (ZMod p)) :
    (insertionRound hash2 d idx item prev proof).toSat =
      insertionRound (fun a b => (hash2 a b).toSat) d idx item prev proof := by
  unfold insertionRound
  simp only [HonM.toSat_bind, toBinary_toSat idx d hd, verifyProof_toSat, assertEq_toSat, const_hon]

theorem insertionProofLoop_toSat (d : ℕ) (hd : 2 ^ d ≤ p) (start : ZMod p) (i : ℕ) (prev : ZMod p)
    (ids : List (ZMod p)) (proofs : List (List (ZMod p))) :
    (insertionProofLoop hash2 d start i prev ids proofs).toSat =
      insertionProofLoop (fun a b => (hash2 a b).toSat) d start i prev ids proofs := by
  induction ids generalizing i prev proofs with
  | nil => rfl
  | cons id ids ih =>
    cases proofs with
    | nil => rfl
    | cons prf proofs =>
      simp only [insertionProofLoop, HonM.toSat_bind, add_toSat, const_hon,
        insertionRound_toSat hash2 d hd, ih]

theorem insertionProof_toSat (d : ℕ) (hd : 2 ^ d ≤ p) (start pre : ZMod p)
    (ids : List (ZMod p)) (proofs : List (List (ZMod p))) :
    (insertionProof hash2 d start pre ids proofs).toSat =
      insertionProof (fun a b => (hash2 a b).toSat) d start pre ids proofs :=
  insertionProofLoop_toSat hash2 d hd start 0 pre ids proofs

/-- `DeletionRound` with the honest `ToBinary(index, depth+1)` and `IsZero` hints -/
theorem deletionRound_toSat (d : ℕ) (hd : 2 ^ (d + 1) ≤ p) (root idx item : ZMod p)
    (proof : List (ZMod p)) :
    (deletionRound hash2 d root idx item proof).toSat =
      deletionRound (fun a b => (hash2 a b).toSat) d root idx item proof := by
  unfold deletionRound
  simp only [HonM.toSat_bind, toBinary_toSat idx (d + 1) hd, verifyProof_toSat, assertEq_toSat,
    const_hon, sub_toSat, isZero_toSat, or_toSat, select_toSat]

theorem deletionProofLoop_toSat (d : ℕ) (hd : 2 ^ (d + 1) ≤ p) (root : ZMod p)
    (idxs ids : List (ZMod p)) (proofs : List (List (ZMod p))) :
    (deletionProofLoop hash2 d root idxs ids proofs).toSat =
      deletionProofLoop (fun a b => (hash2 a b).toSat) d root idxs ids proofs := by
  induction idxs generalizing root ids proofs with
  | nil => rfl
  | cons idx idxs ih =>
    cases ids with
    | nil => rfl
    | cons id ids =>
      cases proofs with
      | nil => rfl
      | cons prf proofs =>
        simp only [deletionProofLoop, HonM.toSat_bind, deletionRound_toSat hash2 d hd, ih]

theorem deletionProof_toSat (d : ℕ) (hd : 2 ^ (d + 1) ≤ p) (idxs : List (ZMod p)) (pre : ZMod p)
    (ids : List (ZMod p)) (proofs : List (List (ZMod p))) :
    (deletionProof hash2 d idxs pre ids proofs).toSat =
      deletionProof (fun a b => (hash2 a b).toSat) d idxs pre ids proofs :=
  deletionProofLoop_toSat hash2 d hd pre idxs ids proofs

end merkle

/-! ## Poseidon and Keccak contain no hint gate -/

theorem poseidon2_toSat (a b : ZMod p) :
    (Circuit.Poseidon.poseidon2 a b : HonM p _).toSat = Circuit.Poseidon.poseidon2 a b := rfl

namespace KeccakT
open Smtb.Circuit.Keccak

theorem toV_hon (x : KV (ZMod p)) : KV.toV (m := HonM p) x = KV.toV (m := SatM p) x := by
  cases x <;> rfl

theorem xorLane_toSat (a b : Lane (ZMod p)) : (xorLane a b : HonM p _).toSat = xorLane a b := by
  unfold xorLane
  simp only [toSat_zipWithM', HonM.toSat_bind, HonM.toSat_pure, xor_toSat, toV_hon]

theorem andLane_toSat (a b : Lane (ZMod p)) : (andLane a b : HonM p _).toSat = andLane a b := by
  unfold andLane
  simp only [toSat_zipWithM', HonM.toSat_bind, HonM.toSat_pure, and_toSat, toV_hon]

theorem notLane_toSat (a : Lane (ZMod p)) : (notLane a : HonM p _).toSat = notLane a := by
  unfold notLane
  simp only [toSat_mapM', HonM.toSat_bind, HonM.toSat_pure, sub_toSat, toV_hon, const_hon]

theorem xor5Round_toSat (a b c d e : KV (ZMod p)) :
    (xor5Round a b c d e : HonM p _).toSat = xor5Round a b c d e := by
  unfold xor5Round
  simp only [HonM.toSat_bind, HonM.toSat_pure, xor_toSat, toV_hon]

theorem xor5_toSat : ∀ (a b c d e : Lane (ZMod p)),
    (xor5 a b c d e : HonM p _).toSat = xor5 a b c d e
  | a :: as, b :: bs, c :: cs, d :: ds, e :: es => by
    simp only [xor5, HonM.toSat_bind, HonM.toSat_pure, xor5Round_toSat, xor5_toSat as bs cs ds es]
  | [], _, _, _, _ => by simp only [xor5]; rfl
  | _ :: _, [], _, _, _ => by simp only [xor5]; rfl
  | _ :: _, _ :: _, [], _, _ => by simp only [xor5]; rfl
  | _ :: _, _ :: _, _ :: _, [], _ => by simp only [xor5]; rfl
  | _ :: _, _ :: _, _ :: _, _ :: _, [] => by simp only [xor5]; rfl

theorem forPairs_toSat (f : St (ZMod p) → ℕ → ℕ → HonM p (St (ZMod p))) (A : St (ZMod p)) :
    (forPairs f A).toSat = forPairs (fun A x y => (f A x y).toSat) A := by
  unfold forPairs
  simp only [toSat_foldlM']

theorem keccakRound_toSat (A : St (ZMod p)) (rc : Lane (ZMod p)) :
    (keccakRound A rc : HonM p _).toSat = keccakRound A rc := by
  unfold keccakRound
  simp only [HonM.toSat_bind, HonM.toSat_pure, toSat_mapM', forPairs_toSat, xor5_toSat,
    xorLane_toSat, andLane_toSat, notLane_toSat]

theorem keccakF_toSat (A : St (ZMod p)) : (keccakF A : HonM p _).toSat = keccakF A := by
  unfold keccakF
  simp only [toSat_foldlM', keccakRound_toSat]

theorem absorbBlock_toSat (P : List (KV (ZMod p))) (blk : ℕ) (S : St (ZMod p)) :
    (absorbBlock P blk S : HonM p _).toSat = absorbBlock P blk S := by
  unfold absorbBlock
  simp only [forPairs_toSat, HonM.toSat_ite, HonM.toSat_bind, HonM.toSat_pure, xorLane_toSat]

theorem keccakBody_toSat (dom : ℕ) (data : List (ZMod p)) :
    (keccakBody dom data : HonM p _).toSat = keccakBody dom data := by
  unfold keccakBody
  simp only [HonM.toSat_bind, HonM.toSat_pure, toSat_foldlM', absorbBlock_toSat, keccakF_toSat,
    xor_toSat, toV_hon, const_hon]
  have : (KV.toV (m := HonM p) : KV (ZMod p) → ZMod p) = KV.toV (m := SatM p) := funext toV_hon
  rw [this]

theorem keccakGadget_toSat (dom : ℕ) (data : List (ZMod p)) :
    (keccakGadget dom data : HonM p _).toSat = keccakGadget dom data := by
  unfold keccakGadget
  rw [opaqueN_toSat, keccakBody_toSat]

theorem newKeccak256_toSat (data : List (ZMod p)) :
    (newKeccak256 data : HonM p _).toSat = newKeccak256 data := keccakGadget_toSat 1 data

end KeccakT

/-! ## the two full circuits -/

section circuits
variable [Fact p.Prime]

/-- **the insertion circuit is the same predicate transformer with honest hints** -/
theorem insertionCircuit_toSat (d : ℕ) (hd : 2 ^ d ≤ p) (ih start pre post : ZMod p)
    (ids : List (ZMod p)) (proofs : List (List (ZMod p))) :
    (insertionCircuit p d ih start pre post ids proofs : HonM p Unit).toSat =
      insertionCircuit p d ih start pre post ids proofs := by
  unfold insertionCircuit
  simp only [HonM.toSat_bind, toReducedBigEndian_toSat, toSat_mapM', KeccakT.newKeccak256_toSat,
    fromBinaryBigEndian_toSat, assertEq_toSat,
    insertionProof_toSat Circuit.Poseidon.poseidon2 d hd, poseidon2_toSat]

/-- **the deletion circuit is the same predicate transformer with honest hints** -/
theorem deletionCircuit_toSat (d : ℕ) (hd : 2 ^ (d + 1) ≤ p) (ih : ZMod p) (idxs : List (ZMod p))
    (pre post : ZMod p) (ids : List (ZMod p)) (proofs : List (List (ZMod p))) :
    (deletionCircuit p d ih idxs pre post ids proofs : HonM p Unit).toSat =
      deletionCircuit p d ih idxs pre post ids proofs := by
  unfold deletionCircuit
  simp only [HonM.toSat_bind, toReducedBigEndian_toSat, toSat_mapM', KeccakT.newKeccak256_toSat,
    fromBinaryBigEndian_toSat, assertEq_toSat,
    deletionProof_toSat Circuit.Poseidon.poseidon2 d hd, poseidon2_toSat]

theorem insertionCircuit_hon_iff_sat (d : ℕ) (hd : 2 ^ d ≤ p) (ih start pre post : ZMod p)
    (ids : List (ZMod p)) (proofs : List (List (ZMod p))) (k : Unit → Prop) :
    (insertionCircuit p d ih start pre post ids proofs : HonM p Unit) k ↔
      (insertionCircuit p d ih start pre post ids proofs : SatM p Unit) k := by
  rw [← insertionCircuit_toSat d hd]; rfl

theorem deletionCircuit_hon_iff_sat (d : ℕ) (hd : 2 ^ (d + 1) ≤ p) (ih : ZMod p)
    (idxs : List (ZMod p)) (pre post : ZMod p) (ids : List (ZMod p))
    (proofs : List (List (ZMod p))) (k : Unit → Prop) :
    (deletionCircuit p d ih idxs pre post ids proofs : HonM p Unit) k ↔
      (deletionCircuit p d ih idxs pre post ids proofs : SatM p Unit) k := by
  rw [← deletionCircuit_toSat d hd]; rfl

end circuits

end Smtb.Honest

#print axioms Smtb.Honest.toReducedBigEndian_hon
#print axioms Smtb.Honest.toReducedBigEndian_toSat
#print axioms Smtb.Honest.insertionRound_toSat
#print axioms Smtb.Honest.deletionRound_toSat
#print axioms Smtb.Honest.poseidon2_toSat
#print axioms Smtb.Honest.KeccakT.newKeccak256_toSat
#print axioms Smtb.Honest.insertionCircuit_toSat
#print axioms Smtb.Honest.deletionCircuit_toSat
#print axioms Smtb.Honest.insertionCircuit_hon_iff_sat
#print axioms Smtb.Honest.deletionCircuit_hon_iff_sat
