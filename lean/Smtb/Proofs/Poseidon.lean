import Smtb.Circuit.Poseidon
import Smtb.Model.Poseidon
import Smtb.Proofs.Sat
/-!
# Poseidon gadgets under the satisfiability interpretation

Three layers.

1. Generic: `foldlM'`, `mapM'`, `zipWithM'` under `SatM` when every step is deterministic
   (`(f a) k ↔ k (g a)`): the whole loop is deterministic and computes the pure loop.
2. Every gadget of `Smtb.Circuit.Poseidon` is deterministic under `SatM`; its value is the pure
   `ZMod p` function `Smtb.Proofs.Poseidon.*Z` (no hints, no assertions: only `Add` and `Mul`).
3. Cast: the `ZMod p` functions applied to casts of naturals are the casts of the reference
   `Smtb.Poseidon.*` (arithmetic in `ℕ` modulo `p`).

No primality assumption anywhere; `NeZero p` is used only for `((a.val : ℕ) : ZMod p) = a`.
-/
namespace Smtb.Proofs.Poseidon
open Smtb CircuitApi
open Smtb.Circuit.Poseidon (Cfg)

variable {p : ℕ}

/-! ## 1. Deterministic loops under `SatM` -/

theorem foldlM'_sat {α β : Type} (f : β → α → SatM p β) (g : β → α → β)
    (h : ∀ b a k, f b a k ↔ k (g b a)) :
    ∀ (l : List α) (b : β) (k : β → Prop), foldlM' f b l k ↔ k (l.foldl g b)
  | [], _, _ => Iff.rfl
  | a :: as, b, k => by
    show f b a (fun b' => foldlM' f b' as k) ↔ _
    rw [h]
    exact foldlM'_sat f g h as (g b a) k

theorem mapM'_sat {α β : Type} (f : α → SatM p β) (g : α → β)
    (h : ∀ a k, f a k ↔ k (g a)) :
    ∀ (l : List α) (k : List β → Prop), mapM' f l k ↔ k (l.map g)
  | [], _ => Iff.rfl
  | a :: as, k => by
    show f a (fun b => mapM' f as (fun bs => k (b :: bs))) ↔ _
    rw [h, mapM'_sat f g h as]
    rfl

theorem zipWithM'_sat {α β γ : Type} (f : α → β → SatM p γ) (g : α → β → γ)
    (h : ∀ a b k, f a b k ↔ k (g a b)) :
    ∀ (l₁ : List α) (l₂ : List β) (k : List γ → Prop),
      zipWithM' f l₁ l₂ k ↔ k (List.zipWith g l₁ l₂)
  | [], _, _ => by simp [zipWithM']
  | _ :: _, [], _ => by simp [zipWithM']
  | a :: as, b :: bs, k => by
    show f a b (fun c => zipWithM' f as bs (fun cs => k (c :: cs))) ↔ _
    rw [h, zipWithM'_sat f g h as bs]
    rfl

/-! ## 2. The pure `ZMod p` functions computed by the gadgets -/

/-- value of `sbox`: `x⁵`, in the association the circuit uses -/
def sboxZ (x : ZMod p) : ZMod p := x * (x * x * (x * x))

theorem sboxZ_eq_pow (x : ZMod p) : sboxZ x = x ^ 5 := by unfold sboxZ; ring

/-- value of `mdsRow` -/
def dotZ (inp : List (ZMod p)) (row : List ℕ) : ZMod p :=
  (inp.zip row).foldl (fun (sum : ZMod p) (xc : ZMod p × ℕ) => sum + xc.1 * (xc.2 : ZMod p)) 0

/-- value of `mdsMix` -/
def mixZ (mds : List (List ℕ)) (inp : List (ZMod p)) : List (ZMod p) :=
  (mds.take inp.length).map (dotZ inp)

/-- value of `addConsts` -/
def addZ (inp : List (ZMod p)) (cs : List ℕ) : List (ZMod p) :=
  List.zipWith (fun (x : ZMod p) (c : ℕ) => x + (c : ZMod p)) inp cs

/-- value of `halfRound` -/
def halfZ (mds : List (List ℕ)) (inp : List (ZMod p)) (cs : List ℕ) : List (ZMod p) :=
  match addZ inp cs with
  | [] => mixZ mds []
  | x :: rest => mixZ mds (sboxZ x :: rest)

/-- value of `fullRound` -/
def fullZ (mds : List (List ℕ)) (inp : List (ZMod p)) (cs : List ℕ) : List (ZMod p) :=
  mixZ mds ((addZ inp cs).map sboxZ)

/-- value of `permute` -/
def permZ (cfg : Cfg) (inp : List (ZMod p)) : List (ZMod p) :=
  let st := (cfg.constants.take (cfg.RF / 2)).foldl (fullZ cfg.mds) inp
  let st := ((cfg.constants.drop (cfg.RF / 2)).take cfg.RP).foldl (halfZ cfg.mds) st
  ((cfg.constants.drop (cfg.RF / 2 + cfg.RP)).take (cfg.RF / 2)).foldl (fullZ cfg.mds) st

theorem sbox_sat (x : ZMod p) (k : ZMod p → Prop) :
    (Circuit.Poseidon.sbox x : SatM p _) k ↔ k (sboxZ x) := Iff.rfl

theorem sbox_sat_pow (x : ZMod p) (k : ZMod p → Prop) :
    (Circuit.Poseidon.sbox x : SatM p _) k ↔ k (x ^ 5) := by
  rw [sbox_sat, sboxZ_eq_pow]

theorem mdsRow_sat (inp : List (ZMod p)) (row : List ℕ) (k : ZMod p → Prop) :
    (Circuit.Poseidon.mdsRow inp row : SatM p _) k ↔ k (dotZ inp row) := by
  unfold Circuit.Poseidon.mdsRow dotZ
  refine (foldlM'_sat _ (fun (sum : ZMod p) (xc : ZMod p × ℕ) => sum + xc.1 * (xc.2 : ZMod p))
    (fun _ _ _ => Iff.rfl) _ _ k).trans ?_
  rw [Sat.const_eq, Nat.cast_zero]

theorem mdsMix_sat (cfg : Cfg) (inp : List (ZMod p)) (k : List (ZMod p) → Prop) :
    (Circuit.Poseidon.mdsMix cfg inp : SatM p _) k ↔ k (mixZ cfg.mds inp) := by
  unfold Circuit.Poseidon.mdsMix mixZ
  exact mapM'_sat _ _ (mdsRow_sat inp) _ k

theorem addConsts_sat (inp : List (ZMod p)) (cs : List ℕ) (k : List (ZMod p) → Prop) :
    (Circuit.Poseidon.addConsts inp cs : SatM p _) k ↔ k (addZ inp cs) := by
  unfold Circuit.Poseidon.addConsts addZ
  exact zipWithM'_sat _ (fun (x : ZMod p) (c : ℕ) => x + (c : ZMod p)) (fun _ _ _ => Iff.rfl) _ _ k

theorem halfRound_sat (cfg : Cfg) (inp : List (ZMod p)) (cs : List ℕ)
    (k : List (ZMod p) → Prop) :
    (Circuit.Poseidon.halfRound cfg inp cs : SatM p _) k ↔ k (halfZ cfg.mds inp cs) := by
  unfold Circuit.Poseidon.halfRound halfZ
  rw [SatM.bind_apply, addConsts_sat]
  cases addZ inp cs with
  | nil => exact mdsMix_sat cfg [] k
  | cons x rest =>
    show (Circuit.Poseidon.sbox x : SatM p _) (fun x' => (Circuit.Poseidon.mdsMix cfg (x' :: rest) : SatM p _) k) ↔ _
    rw [sbox_sat]
    exact mdsMix_sat cfg _ k

theorem fullRound_sat (cfg : Cfg) (inp : List (ZMod p)) (cs : List ℕ)
    (k : List (ZMod p) → Prop) :
    (Circuit.Poseidon.fullRound cfg inp cs : SatM p _) k ↔ k (fullZ cfg.mds inp cs) := by
  unfold Circuit.Poseidon.fullRound fullZ
  rw [SatM.bind_apply, addConsts_sat, SatM.bind_apply, mapM'_sat _ _ sbox_sat]
  exact mdsMix_sat cfg _ k

theorem permute_sat (cfg : Cfg) (inp : List (ZMod p)) (k : List (ZMod p) → Prop) :
    (Circuit.Poseidon.permute cfg inp : SatM p _) k ↔ k (permZ cfg inp) := by
  unfold Circuit.Poseidon.permute permZ
  rw [SatM.bind_apply, foldlM'_sat _ _ (fullRound_sat cfg),
    SatM.bind_apply, foldlM'_sat _ _ (halfRound_sat cfg)]
  exact foldlM'_sat _ _ (fullRound_sat cfg) _ _ k

theorem poseidon1_sat_Z (a : ZMod p) (k : ZMod p → Prop) :
    (Circuit.Poseidon.poseidon1 a : SatM p _) k ↔
      k ((permZ Circuit.Poseidon.cfg2 [0, a]).headD 0) := by
  unfold Circuit.Poseidon.poseidon1
  rw [Sat.opaque1_iff, SatM.bind_apply, permute_sat]
  simp only [Sat.const_eq, Nat.cast_zero, SatM.pure_apply]

theorem poseidon2_sat_Z (a b : ZMod p) (k : ZMod p → Prop) :
    (Circuit.Poseidon.poseidon2 a b : SatM p _) k ↔
      k ((permZ Circuit.Poseidon.cfg3 [0, a, b]).headD 0) := by
  unfold Circuit.Poseidon.poseidon2
  rw [Sat.opaque1_iff, SatM.bind_apply, permute_sat]
  simp only [Sat.const_eq, Nat.cast_zero, SatM.pure_apply]

/-! ## 3. Cast: `ZMod p` functions on casts = casts of the `ℕ`-mod-`p` reference -/

/-- `ℕ → ZMod p` on lists -/
def castL (l : List ℕ) : List (ZMod p) := l.map (Nat.cast : ℕ → ZMod p)

@[simp] theorem castL_nil : (castL [] : List (ZMod p)) = [] := rfl
@[simp] theorem castL_cons (x : ℕ) (l : List ℕ) :
    (castL (x :: l) : List (ZMod p)) = (x : ZMod p) :: castL l := rfl
@[simp] theorem castL_length (l : List ℕ) : (castL l : List (ZMod p)).length = l.length := by
  simp [castL]

theorem cast_mod (x : ℕ) : ((x % p : ℕ) : ZMod p) = (x : ZMod p) := ZMod.natCast_mod x p

theorem pow5_cast (x : ℕ) : ((Smtb.Poseidon.pow5 p x : ℕ) : ZMod p) = sboxZ (x : ZMod p) := by
  simp only [Smtb.Poseidon.pow5, sboxZ, cast_mod, Nat.cast_mul]

theorem addRow_cast (st row : List ℕ) :
    castL (Smtb.Poseidon.addRow p st row) = addZ (castL st : List (ZMod p)) row := by
  induction st generalizing row with
  | nil => simp [Smtb.Poseidon.addRow, addZ]
  | cons x st ih =>
    cases row with
    | nil => simp [Smtb.Poseidon.addRow, addZ]
    | cons c row =>
      have := ih row
      simp only [Smtb.Poseidon.addRow, addZ] at this ⊢
      simp only [List.zipWith_cons_cons, castL_cons, cast_mod, Nat.cast_add, this]

theorem dot_cast_aux (l : List (ℕ × ℕ)) (acc : ℕ) :
    ((l.foldl (fun acc xc => (acc + xc.1 * xc.2 % p) % p) acc : ℕ) : ZMod p) =
      (l.map (fun xc => ((xc.1 : ZMod p), xc.2))).foldl
        (fun sum xc => sum + xc.1 * (xc.2 : ZMod p)) (acc : ZMod p) := by
  induction l generalizing acc with
  | nil => rfl
  | cons xc l ih =>
    simp only [List.foldl_cons, List.map_cons]
    rw [ih]
    simp only [cast_mod, Nat.cast_add, Nat.cast_mul]

theorem dot_cast (st row : List ℕ) :
    ((Smtb.Poseidon.dot p st row : ℕ) : ZMod p) = dotZ (castL st) row := by
  unfold Smtb.Poseidon.dot dotZ castL
  rw [dot_cast_aux, Nat.cast_zero]
  congr 1
  induction st generalizing row with
  | nil => simp
  | cons x st ih => cases row with
    | nil => simp
    | cons c row => simp [ih]

theorem mix_cast (mds : List (List ℕ)) (st : List ℕ) :
    castL (Smtb.Poseidon.mix p mds st) = mixZ mds (castL st : List (ZMod p)) := by
  unfold Smtb.Poseidon.mix mixZ
  rw [castL_length]
  simp only [castL, List.map_map]
  apply List.map_congr_left
  intro row _
  exact dot_cast st row

theorem map_pow5_cast (st : List ℕ) :
    castL (st.map (Smtb.Poseidon.pow5 p)) = (castL st : List (ZMod p)).map sboxZ := by
  simp only [castL, List.map_map]
  apply List.map_congr_left
  intro x _
  exact pow5_cast x

theorem fullRound_cast (P : Smtb.Poseidon.Params) (st row : List ℕ) :
    castL (Smtb.Poseidon.fullRound p P st row) = fullZ P.mds (castL st : List (ZMod p)) row := by
  unfold Smtb.Poseidon.fullRound fullZ
  rw [mix_cast, map_pow5_cast, addRow_cast]

theorem partialRound_cast (P : Smtb.Poseidon.Params) (st row : List ℕ) :
    castL (Smtb.Poseidon.partialRound p P st row) = halfZ P.mds (castL st : List (ZMod p)) row := by
  unfold Smtb.Poseidon.partialRound halfZ
  rw [← addRow_cast]
  cases Smtb.Poseidon.addRow p st row with
  | nil => exact mix_cast _ _
  | cons x rest =>
    show castL (Smtb.Poseidon.mix p P.mds _) = mixZ P.mds (sboxZ (x : ZMod p) :: castL rest)
    rw [mix_cast, castL_cons, pow5_cast]

theorem foldl_cast (f : List ℕ → List ℕ → List ℕ) (g : List (ZMod p) → List ℕ → List (ZMod p))
    (h : ∀ st row, castL (f st row) = g (castL st) row) (rows : List (List ℕ)) (st : List ℕ) :
    castL (rows.foldl f st) = rows.foldl g (castL st) := by
  induction rows generalizing st with
  | nil => rfl
  | cons r rows ih => simp only [List.foldl_cons, ih, h]

/-- the circuit's configuration and the reference's parameter record hold the same data -/
structure Agree (cfg : Cfg) (P : Smtb.Poseidon.Params) : Prop where
  RF : P.RF = cfg.RF
  RP : P.RP = cfg.RP
  ark : P.ark = cfg.constants
  mds : P.mds = cfg.mds

theorem agree2 : Agree Circuit.Poseidon.cfg2 Smtb.Poseidon.params2 := ⟨rfl, rfl, rfl, rfl⟩
theorem agree3 : Agree Circuit.Poseidon.cfg3 Smtb.Poseidon.params3 := ⟨rfl, rfl, rfl, rfl⟩

theorem permute_cast {cfg : Cfg} {P : Smtb.Poseidon.Params} (h : Agree cfg P) (st : List ℕ) :
    castL (Smtb.Poseidon.permute p P st) = permZ cfg (castL st : List (ZMod p)) := by
  unfold Smtb.Poseidon.permute permZ
  simp only [h.RF, h.RP, h.ark]
  rw [foldl_cast _ _ (fullRound_cast P), foldl_cast _ _ (partialRound_cast P),
    foldl_cast _ _ (fullRound_cast P), h.mds]

theorem headD_cast (l : List ℕ) : (((l.headD 0 : ℕ)) : ZMod p) = (castL l).headD 0 := by
  cases l <;> simp

theorem hash1_cast [NeZero p] (a : ZMod p) :
    ((Smtb.Poseidon.hash1 p a.val : ℕ) : ZMod p) = (permZ Circuit.Poseidon.cfg2 [0, a]).headD 0 := by
  unfold Smtb.Poseidon.hash1
  rw [headD_cast, permute_cast agree2]
  simp only [castL_cons, castL_nil, cast_mod, Nat.cast_zero, ZMod.natCast_zmod_val]

theorem hash2_cast [NeZero p] (a b : ZMod p) :
    ((Smtb.Poseidon.hash2 p a.val b.val : ℕ) : ZMod p) =
      (permZ Circuit.Poseidon.cfg3 [0, a, b]).headD 0 := by
  unfold Smtb.Poseidon.hash2
  rw [headD_cast, permute_cast agree3]
  simp only [castL_cons, castL_nil, cast_mod, Nat.cast_zero, ZMod.natCast_zmod_val]

end Smtb.Proofs.Poseidon
