import Smtb.Model.ProofJson
import Smtb.Proofs.Codec
import Smtb.Proofs.Pack
/-! # Proofs for the proof-JSON codec model (property C10) -/

namespace Smtb.ProofJson
open Smtb Smtb.Codec Smtb.Bits Smtb.Pack

/-! ## text level: the marshalled document scans to the expected tree -/

theorem toHexChars_plain (n : ℕ) : ∀ c ∈ toHexChars n, isPlain c = true := by
  intro c hc
  unfold toHexChars at hc
  simp only [List.mem_cons] at hc
  rcases hc with rfl | rfl | hc
  · decide
  · decide
  · exact hexChars_plain _ c hc

def Plain (w : Chars) : Prop := ∀ c ∈ w, isPlain c = true

theorem plain_getD (w : List Chars) (h : ∀ x ∈ w, Plain x) (i : ℕ) : Plain (w.getD i []) := by
  rw [List.getD_eq_getElem?_getD]
  cases hi : w[i]? with
  | none => intro c hc; simp at hc
  | some x => exact h x (List.mem_of_getElem? hi)

def pairJ (a b : Chars) : JVal := JVal.arr [JVal.str a, JVal.str b]

theorem parsesTo_pair (d : ℕ) (hd : d < maxNestingDepth) (a b : Chars) (ha : Plain a) (hb : Plain b) :
    ParsesTo d (encArr [q a, q b]) (pairJ a b) :=
  parsesTo_arr d hd [(q a, JVal.str a), (q b, JVal.str b)] (by
    intro x hx
    simp only [List.mem_cons, List.not_mem_nil, or_false] at hx
    rcases hx with rfl | rfl
    · exact ⟨parsesTo_str _ a ha, firstOk_str a⟩
    · exact ⟨parsesTo_str _ b hb, firstOk_str b⟩)

theorem parsesTo_pair2 (d : ℕ) (hd : d + 1 < maxNestingDepth) (a b c e : Chars)
    (ha : Plain a) (hb : Plain b) (hc : Plain c) (he : Plain e) :
    ParsesTo d (encArr [encArr [q a, q b], encArr [q c, q e]]) (JVal.arr [pairJ a b, pairJ c e]) :=
  parsesTo_arr d (by omega) [(encArr [q a, q b], pairJ a b), (encArr [q c, q e], pairJ c e)] (by
    intro x hx
    simp only [List.mem_cons, List.not_mem_nil, or_false] at hx
    rcases hx with rfl | rfl
    · exact ⟨parsesTo_pair _ hd a b ha hb, firstOk_arr _⟩
    · exact ⟨parsesTo_pair _ hd c e hc he, firstOk_arr _⟩)

/-- key, value text and value tree of the three members of the document -/
def proofMembers (w : List Chars) : List Member :=
  [("ar".toList, encArr [q (w.getD 0 []), q (w.getD 1 [])], pairJ (w.getD 0 []) (w.getD 1 [])),
   ("bs".toList, encArr [encArr [q (w.getD 2 []), q (w.getD 3 [])],
                         encArr [q (w.getD 4 []), q (w.getD 5 [])]],
      JVal.arr [pairJ (w.getD 2 []) (w.getD 3 []), pairJ (w.getD 4 []) (w.getD 5 [])]),
   ("krs".toList, encArr [q (w.getD 6 []), q (w.getD 7 [])], pairJ (w.getD 6 []) (w.getD 7 []))]

theorem jsonOfWords_eq (w : List Chars) :
    jsonOfWords w = encObj ((proofMembers w).map Member.enc) := rfl

theorem keys_plain' : ∀ k ∈ names, ∀ c ∈ k, isPlain c = true := by decide

theorem parseDoc_jsonOfWords (w : List Chars) (h : ∀ x ∈ w, Plain x) :
    parseDoc (jsonOfWords w) = .ok (JVal.obj ((proofMembers w).map Member.val)) := by
  rw [jsonOfWords_eq]
  apply parseDoc_obj
  intro x hx
  have hp := plain_getD w h
  simp only [List.mem_cons, List.not_mem_nil, or_false] at hx
  rcases hx with rfl | rfl | rfl
  · exact ⟨keys_plain' "ar".toList (by decide), parsesTo_pair _ (by decide) _ _ (hp 0) (hp 1)⟩
  · exact ⟨keys_plain' "bs".toList (by decide),
      parsesTo_pair2 _ (by decide) _ _ _ _ (hp 2) (hp 3) (hp 4) (hp 5)⟩
  · exact ⟨keys_plain' "krs".toList (by decide), parsesTo_pair _ (by decide) _ _ (hp 6) (hp 7)⟩

/-! ## typed decode -/

theorem idxAr : fieldIdx names "ar".toList = some 0 := by decide
theorem idxBs : fieldIdx names "bs".toList = some 1 := by decide
theorem idxKrs : fieldIdx names "krs".toList = some 2 := by decide

theorem decTopProof_members (w : List Chars) :
    decTopProof (JVal.obj ((proofMembers w).map Member.val)) =
      ({ ar := [w.getD 0 [], w.getD 1 []],
         bs := [[w.getD 2 [], w.getD 3 []], [w.getD 4 [], w.getD 5 []]],
         krs := [w.getD 6 [], w.getD 7 []] }, none) := by
  simp only [decTopProof, decTop, proofMembers, List.map_cons, List.map_nil, Member.val, decMembers,
    idxAr, idxBs, idxKrs, decField, decStr2, decStr22, decArr, pairJ, decArrElems, decString]

theorem eight_getD {α : Type} (l : List α) (h : l.length = 8) (d : α) :
    [l.getD 0 d, l.getD 1 d, l.getD 2 d, l.getD 3 d, l.getD 4 d, l.getD 5 d, l.getD 6 d, l.getD 7 d] = l := by
  match l, h with
  | [_, _, _, _, _, _, _, _], _ => rfl

theorem mirrorWords_members (w : List Chars) (h : w.length = 8) :
    mirrorWords { ar := [w.getD 0 [], w.getD 1 []],
                  bs := [[w.getD 2 [], w.getD 3 []], [w.getD 4 [], w.getD 5 []]],
                  krs := [w.getD 6 [], w.getD 7 []] } = w := by
  simp only [mirrorWords, List.getD_cons_zero, List.getD_cons_succ]
  exact eight_getD w h []

theorem hexListE_toHexChars (ns : List ℕ) :
    hexListE (ns.map toHexChars) = .ok (ns.map Int.ofNat) := by
  induction ns with
  | nil => rfl
  | cons n ns ih =>
    simp only [List.map_cons, hexListE, hexE, fromHexChars_toHexChars, ih]

/-- steps 1 and 2 on a marshalled document return the eight numbers -/
theorem decodeInts_jsonOfWords (ns : List ℕ) (h : ns.length = 8) :
    decodeInts (jsonOfWords (ns.map toHexChars)) = .ok (ns.map Int.ofNat) := by
  unfold decodeInts
  rw [parseDoc_jsonOfWords _ (by
    intro x hx
    obtain ⟨n, _, rfl⟩ := List.mem_map.mp hx
    exact toHexChars_plain n)]
  simp only [decTopProof_members]
  rw [mirrorWords_members _ (by rw [List.length_map, h]), hexListE_toHexChars]

/-! ## byte placement -/

theorem natOfBytesBE_lt (l : List ℕ) (h : ∀ b ∈ l, b < 256) : natOfBytesBE l < 256 ^ l.length := by
  induction l with
  | nil => simp [natOfBytesBE]
  | cons b l ih =>
    rw [natOfBytesBE_cons, List.length_cons, pow_succ]
    have hb := h b List.mem_cons_self
    have := ih (fun c hc => h c (List.mem_cons_of_mem _ hc))
    nlinarith

theorem bytesBE_add_mul (w : ℕ) : ∀ (b x : ℕ), bytesBE w (b * 256 ^ w + x) = bytesBE w x := by
  induction w with
  | zero => intro b x; rfl
  | succ w ih =>
    intro b x
    rw [bytesBE, bytesBE]
    have e : b * 256 ^ (w + 1) = (b * 256) * 256 ^ w := by rw [pow_succ]; ring
    rw [e, ih (b * 256) x]
    congr 1
    rw [Nat.add_comm, Nat.add_mul_div_right _ _ (by positivity), Nat.add_mul_mod_self_right]

/-- a byte string is the fixed-width big-endian form of the number it denotes -/
theorem bytesBE_natOfBytesBE (l : List ℕ) (h : ∀ b ∈ l, b < 256) :
    bytesBE l.length (natOfBytesBE l) = l := by
  induction l with
  | nil => rfl
  | cons b l ih =>
    have hb := h b List.mem_cons_self
    have hl := natOfBytesBE_lt l (fun c hc => h c (List.mem_cons_of_mem _ hc))
    rw [List.length_cons, natOfBytesBE_cons, bytesBE, bytesBE_add_mul,
      ih (fun c hc => h c (List.mem_cons_of_mem _ hc))]
    congr 1
    rw [Nat.add_comm, Nat.add_mul_div_right _ _ (by positivity), Nat.div_eq_of_lt hl, Nat.zero_add,
      Nat.mod_eq_of_lt hb]

theorem slot_ofNat {n : ℕ} (h : n < 2 ^ 256) : slot (Int.ofNat n) = .ok (bytesBE 32 n) := by
  obtain ⟨L, hL32, hL, hlt⟩ := minBytes_le32 h
  unfold slot
  simp only [show (Int.ofNat n).natAbs = n from rfl, hL, length_bytesBE]
  rw [if_neg (by omega), pad_bytesBE _ _ _ hlt]
  congr 2; omega

theorem slot_tooLong {i : ℤ} (h : 2 ^ 256 ≤ i.natAbs) : slot i = .error .tooLong := by
  obtain ⟨L, hL, hlt, _, _⟩ := minBytes_spec i.natAbs
  unfold slot
  simp only [hL, length_bytesBE]
  rw [if_pos]
  by_contra hle
  have : (256 : ℕ) ^ L ≤ 256 ^ 32 := Nat.pow_le_pow_right (by norm_num) (by omega)
  rw [two_pow_256] at h
  omega

theorem slotOld_ofNat {n : ℕ} (hlo : 2 ^ 248 ≤ n) (hhi : n < 2 ^ 256) :
    slotOld (Int.ofNat n) = bytesBE 32 n := by
  unfold slotOld
  simp only [show (Int.ofNat n).natAbs = n from rfl, minBytes_full hlo hhi]
  rw [List.take_of_length_le (by rw [length_bytesBE]), length_bytesBE]
  simp

/-- 32-byte words -/
def IsWord (w : List ℕ) : Prop := w.length = 32 ∧ ∀ b ∈ w, b < 256

theorem IsWord.lt {w : List ℕ} (h : IsWord w) : natOfBytesBE w < 2 ^ 256 := by
  have := natOfBytesBE_lt w h.2
  rw [h.1] at this
  rwa [two_pow_256]

theorem IsWord.bytesBE {w : List ℕ} (h : IsWord w) : bytesBE 32 (natOfBytesBE w) = w := by
  have := bytesBE_natOfBytesBE w h.2
  rwa [h.1] at this

theorem slots_words (ws : List (List ℕ)) (h : ∀ w ∈ ws, IsWord w) :
    slots (ws.map fun w => Int.ofNat (natOfBytesBE w)) = .ok ws.flatten := by
  induction ws with
  | nil => rfl
  | cons w ws ih =>
    have hw := h w List.mem_cons_self
    simp only [List.map_cons, slots, slot_ofNat hw.lt, hw.bytesBE,
      ih (fun x hx => h x (List.mem_cons_of_mem _ hx)), List.flatten_cons]

theorem slotOld_words (ws : List (List ℕ)) (h : ∀ w ∈ ws, IsWord w)
    (hlo : ∀ w ∈ ws, 2 ^ 248 ≤ natOfBytesBE w) :
    (ws.map fun w => Int.ofNat (natOfBytesBE w)).flatMap slotOld = ws.flatten := by
  induction ws with
  | nil => rfl
  | cons w ws ih =>
    have hw := h w List.mem_cons_self
    simp only [List.map_cons, List.flatMap_cons, List.flatten_cons,
      slotOld_ofNat (hlo w List.mem_cons_self) hw.lt, hw.bytesBE,
      ih (fun x hx => h x (List.mem_cons_of_mem _ hx)) (fun x hx => hlo x (List.mem_cons_of_mem _ hx))]

/-! ## words of a 256-byte buffer -/

theorem words_flatten : ∀ (n : ℕ) (buf : List ℕ), buf.length = 32 * n →
    ((List.range n).map (word buf)).flatten = buf := by
  intro n
  induction n with
  | zero => intro buf h; simp at h; simp [h]
  | succ n ih =>
    intro buf h
    rw [List.range_succ_eq_map, List.map_cons, List.map_map, List.flatten_cons]
    have : (word buf ∘ Nat.succ) = word (buf.drop 32) := by
      funext i
      simp only [Function.comp, word, List.drop_drop]
      congr 2
      omega
    rw [this, ih (buf.drop 32) (by rw [List.length_drop]; omega)]
    simp [word]

theorem word_isWord (buf : List ℕ) (hlen : buf.length = 256) (hb : ∀ b ∈ buf, b < 256) (i : ℕ)
    (hi : i < 8) : IsWord (word buf i) := by
  constructor
  · simp only [word, List.length_take, List.length_drop]; omega
  · intro b hb'
    exact hb b (List.mem_of_mem_drop (List.mem_of_mem_take hb'))

theorem wordNats_eq (buf : List ℕ) :
    (wordNats buf).map Int.ofNat =
      ((List.range 8).map (word buf)).map fun w => Int.ofNat (natOfBytesBE w) := by
  simp [wordNats, List.map_map, Function.comp_def]

theorem marshalChars_eq (buf : List ℕ) :
    marshalChars buf = jsonOfWords ((wordNats buf).map toHexChars) := rfl

theorem wordNats_length (buf : List ℕ) : (wordNats buf).length = 8 := by simp [wordNats]

theorem unmarshalChars_marshalChars (buf : List ℕ) (h : buf.length = 256) (hb : ∀ b ∈ buf, b < 256) :
    unmarshalChars (marshalChars buf) = .ok buf := by
  unfold unmarshalChars
  rw [marshalChars_eq, decodeInts_jsonOfWords _ (wordNats_length buf)]
  simp only []
  rw [wordNats_eq, slots_words _ (by
    intro w hw
    obtain ⟨i, hi, rfl⟩ := List.mem_map.mp hw
    exact word_isWord buf h hb i (List.mem_range.mp hi)), words_flatten 8 buf h]

theorem unmarshalOldChars_marshalChars (buf : List ℕ) (h : buf.length = 256) (hb : ∀ b ∈ buf, b < 256)
    (hlo : ∀ i, i < 8 → 2 ^ 248 ≤ natOfBytesBE (word buf i)) :
    unmarshalOldChars (marshalChars buf) = .ok buf := by
  unfold unmarshalOldChars
  rw [marshalChars_eq, decodeInts_jsonOfWords _ (wordNats_length buf)]
  simp only []
  rw [wordNats_eq, slotOld_words _ (by
    intro w hw
    obtain ⟨i, hi, rfl⟩ := List.mem_map.mp hw
    exact word_isWord buf h hb i (List.mem_range.mp hi)) (by
    intro w hw
    obtain ⟨i, hi, rfl⟩ := List.mem_map.mp hw
    exact hlo i (List.mem_range.mp hi)), words_flatten 8 buf h]

end Smtb.ProofJson
