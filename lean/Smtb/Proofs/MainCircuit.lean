import Smtb.Proofs.Merkle
import Smtb.Properties.C05
import Smtb.Properties.C06
import Smtb.Circuit.Main
/-!
# Satisfiability of the two full circuits

`InsertionMbuCircuit.Define` / `DeletionMbuCircuit.Define`, composed from
C06 (bit encodings), the Keccak gadget (through the hypothesis `hK`, discharged in
`Properties/C03.lean` by C04's theorem), C05 (Poseidon2) and C01/C02 (Merkle batches).
-/
namespace Smtb.Sat
open Smtb Smtb.Circuit Smtb.Merkle Smtb.Batch CircuitApi Smtb.Properties.C06

variable {p : ℕ} [Fact p.Prime]

/-- the two-to-one hash the circuits compute: reference Poseidon, as a function on `ZMod p` -/
def poseidonH (p : ℕ) (a b : ZMod p) : ZMod p := ((Poseidon.hash2 p a.val b.val : ℕ) : ZMod p)

theorem poseidon2_hH : ∀ (a b : ZMod p) (k : ZMod p → Prop),
    (Circuit.Poseidon.poseidon2 a b : SatM p _) k ↔ k (poseidonH p a b) := by
  have : NeZero p := ⟨(Fact.out : p.Prime).ne_zero⟩
  intro a b k
  rw [Smtb.C05.poseidon2_sat]; rfl

omit [Fact p.Prime] in
/-- `mapM'` of steps that assert a side condition and return a function of their input -/
theorem mapM'_guard {α β : Type} (f : α → SatM p β) (P : α → Prop) (g : α → β)
    (h : ∀ a k, f a k ↔ P a ∧ k (g a)) :
    ∀ (l : List α) (k : List β → Prop), mapM' f l k ↔ (∀ a ∈ l, P a) ∧ k (l.map g)
  | [], k => by simp [mapM']
  | a :: as, k => by
    show f a (fun b => mapM' f as (fun bs => k (b :: bs))) ↔ _
    rw [h]
    simp only [mapM'_guard f P g h as, List.forall_mem_cons, List.map_cons]
    tauto

/-- big-endian bit string of `x` on `n` bits, as the circuits feed it to Keccak -/
def beBits (n x : ℕ) : List Bool := swapByteOrder (bitsLE n x)

/-- the bits hashed by the insertion circuit -/
def insertionHashBits (start pre post : ℕ) (ids : List ℕ) : List Bool :=
  beBits 32 start ++ beBits 256 pre ++ beBits 256 post ++ (ids.map (beBits 256)).flatten

/-- the bits hashed by the deletion circuit -/
def deletionHashBits (idxs : List ℕ) (pre post : ℕ) : List Bool :=
  (idxs.map (beBits 32)).flatten ++ beBits 256 pre ++ beBits 256 post

omit [Fact p.Prime] in
theorem flatten_map_map_embed (l : List (List Bool)) :
    (l.map (fun bs => bs.map (embed (p := p)))).flatten = l.flatten.map embed := by
  induction l with
  | nil => rfl
  | cons a l ih => rw [List.map_cons, List.flatten_cons, List.flatten_cons, List.map_append, ih]

omit [Fact p.Prime] in
theorem beBits_len8 (n x : ℕ) : 8 ∣ (beBits n x).length := by
  unfold beBits; rw [swapByteOrder_length]; exact Dvd.intro _ rfl

theorem flatten_len8 (l : List (List Bool)) (h : ∀ x ∈ l, 8 ∣ x.length) : 8 ∣ l.flatten.length := by
  induction l with
  | nil => simp
  | cons a l ih =>
    rw [List.flatten_cons, List.length_append]
    exact Nat.dvd_add (h a (by simp)) (ih fun x hx => h x (by simp [hx]))

theorem insertionHashBits_len8 (start pre post : ℕ) (ids : List ℕ) :
    8 ∣ (insertionHashBits start pre post ids).length := by
  unfold insertionHashBits
  simp only [List.length_append]
  refine Nat.dvd_add (Nat.dvd_add (Nat.dvd_add (beBits_len8 _ _) (beBits_len8 _ _)) (beBits_len8 _ _)) ?_
  apply flatten_len8
  intro x hx
  obtain ⟨i, _, rfl⟩ := List.mem_map.mp hx
  exact beBits_len8 _ _

theorem deletionHashBits_len8 (idxs : List ℕ) (pre post : ℕ) :
    8 ∣ (deletionHashBits idxs pre post).length := by
  unfold deletionHashBits
  simp only [List.length_append]
  refine Nat.dvd_add (Nat.dvd_add ?_ (beBits_len8 _ _)) (beBits_len8 _ _)
  apply flatten_len8
  intro x hx
  obtain ⟨i, _, rfl⟩ := List.mem_map.mp hx
  exact beBits_len8 _ _

section
variable (K : List Bool → List Bool)
variable (hK : ∀ (msg : List Bool), 8 ∣ msg.length → ∀ (k : List (ZMod p) → Prop),
  (Keccak.newKeccak256 (msg.map (embed (p := p))) : SatM p _) k ↔ k ((K msg).map embed))
include hK

/-- **Insertion circuit.** Satisfiable (for some choice of all prover-chosen wires) iff every
packed value fits its width, the public input is the recomposed hash of exactly the big-endian
packing of the canonical representatives, and the batch specification holds. -/
theorem insertionCircuit_iff (d : ℕ) (hd : 2 ^ d ≤ p) (ih start pre post : ZMod p)
    (ids : List (ZMod p)) (proofs : List (List (ZMod p))) :
    (insertionCircuit p d ih start pre post ids proofs : SatM p Unit) (fun _ => True) ↔
      start.val < 2 ^ 32 ∧ pre.val < 2 ^ 256 ∧ post.val < 2 ^ 256 ∧ (∀ id ∈ ids, id.val < 2 ^ 256) ∧
      ih = ((natOfBits (swapByteOrder (K (insertionHashBits start.val pre.val post.val (ids.map ZMod.val)))) : ℕ) : ZMod p) ∧
      insertionSpec (poseidonH p) 0 ZMod.val (fun s j => s + (j : ZMod p)) d start 0 pre ids proofs = some post := by
  unfold insertionCircuit
  simp only [SatM.bind_apply, toReducedBigEndian_sat,
    mapM'_guard _ (fun id : ZMod p => id.val < 2 ^ 256)
      (fun id => swapByteOrder ((bitsLE 256 id.val).map embed)) (fun a k => toReducedBigEndian_sat a 256 k)]
  simp only [swapByteOrder_map', ← List.map_append]
  have hflat : (List.map (fun id : ZMod p => List.map (embed (p := p)) (swapByteOrder (bitsLE 256 id.val))) ids).flatten
      = ((ids.map ZMod.val).map (fun x => swapByteOrder (bitsLE 256 x))).flatten.map embed := by
    rw [← flatten_map_map_embed, List.map_map, List.map_map]; rfl
  rw [hflat]
  simp only [← List.map_append]
  have h8 := insertionHashBits_len8 start.val pre.val post.val (ids.map ZMod.val)
  unfold insertionHashBits beBits at h8
  rw [hK _ h8]
  simp only [fromBinaryBigEndian_embed, assertEq_iff,
    insertionProof_iff _ (poseidonH p) poseidon2_hH d hd]
  unfold insertionHashBits beBits
  constructor
  · rintro ⟨h1, h2, h3, h4, h5, r, hr, rfl, -⟩
    exact ⟨h1, h2, h3, h4, h5, hr⟩
  · rintro ⟨h1, h2, h3, h4, h5, hr⟩
    exact ⟨h1, h2, h3, h4, h5, post, hr, rfl, trivial⟩

/-- **Deletion circuit.** -/
theorem deletionCircuit_iff (d : ℕ) (hd : 2 ^ (d + 1) ≤ p) (ih : ZMod p) (idxs : List (ZMod p))
    (pre post : ZMod p) (ids : List (ZMod p)) (proofs : List (List (ZMod p))) :
    (deletionCircuit p d ih idxs pre post ids proofs : SatM p Unit) (fun _ => True) ↔
      (∀ i ∈ idxs, i.val < 2 ^ 32) ∧ pre.val < 2 ^ 256 ∧ post.val < 2 ^ 256 ∧
      ih = ((natOfBits (swapByteOrder (K (deletionHashBits (idxs.map ZMod.val) pre.val post.val))) : ℕ) : ZMod p) ∧
      deletionSpec (poseidonH p) 0 ZMod.val d pre idxs ids proofs = some post := by
  unfold deletionCircuit
  simp only [SatM.bind_apply, toReducedBigEndian_sat,
    mapM'_guard _ (fun i : ZMod p => i.val < 2 ^ 32)
      (fun i => swapByteOrder ((bitsLE 32 i.val).map embed)) (fun a k => toReducedBigEndian_sat a 32 k)]
  simp only [swapByteOrder_map']
  have hflat : (List.map (fun i : ZMod p => List.map (embed (p := p)) (swapByteOrder (bitsLE 32 i.val))) idxs).flatten
      = ((idxs.map ZMod.val).map (fun x => swapByteOrder (bitsLE 32 x))).flatten.map embed := by
    rw [← flatten_map_map_embed, List.map_map, List.map_map]; rfl
  rw [hflat]
  simp only [← List.map_append]
  have h8 := deletionHashBits_len8 (idxs.map ZMod.val) pre.val post.val
  unfold deletionHashBits beBits at h8
  rw [hK _ h8]
  simp only [fromBinaryBigEndian_embed, assertEq_iff,
    deletionProof_iff _ (poseidonH p) poseidon2_hH d hd]
  unfold deletionHashBits beBits
  constructor
  · rintro ⟨h1, h2, h3, h5, r, hr, rfl, -⟩
    exact ⟨h1, h2, h3, h5, hr⟩
  · rintro ⟨h1, h2, h3, h5, hr⟩
    exact ⟨h1, h2, h3, h5, post, hr, rfl, trivial⟩

end
end Smtb.Sat
