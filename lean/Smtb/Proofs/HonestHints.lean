import Smtb.Proofs.Sat
import Smtb.Proofs.Bits
import Smtb.Proofs.Merkle
import Smtb.Properties.C06
/-!
# Honest hints

The satisfiability semantics `SatM p` (`Smtb/Proofs/Sat.lean`) quantifies existentially over the
two kinds of prover-chosen wires that occur in the repository's circuits:

* `ToBinary(v, n)` — gnark's `bits.NBits` hint: the solver writes bit `i` of the canonical
  representative of `v` (a `big.Int` in `[0, p)`) into the `i`-th output, `i < n`;
* `IsZero(a)` — gnark's `hint.InvZero`: the solver writes `x = a⁻¹` (`0` for `a = 0`) and the
  result wire is `m = 1 - a * x`.

This file states, against the gate table of `Sat.lean`, that **the values the solver computes
satisfy the gate whenever the gate is satisfiable at all**, and in which sense they are the only
ones.  It then defines `HonM p`, the same gate table with the two existentials *instantiated* by
the solver's values (no `∃` left: a deterministic constraint check), and transfers it through the
gadgets that contain hints (`toReducedBigEndian`, `insertionRound`, `deletionRound`, the two
batch loops).
-/
namespace Smtb.Honest
open Smtb Smtb.Sat Smtb.Merkle CircuitApi

variable {p : ℕ}

/-! ## (i) `ToBinary` -/

/-- what `bits.NBits` writes: bit `i` of `v.val`, for `i < n` -/
def honestBits (v : ZMod p) (n : ℕ) : List (ZMod p) :=
  (List.range n).map fun i => embed (v.val.testBit i)

/-- `bitsLE` (the repository's name for "the `n` low bits") is `Nat.testBit` -/
theorem bitsLE_eq_testBit (n x : ℕ) : bitsLE n x = (List.range n).map fun i => x.testBit i := by
  induction n generalizing x with
  | zero => rfl
  | succ n ih =>
    rw [bitsLE, List.range_succ_eq_map, List.map_cons, List.map_map, ih]
    congr 1
    · rw [Nat.testBit_zero]
      rcases Nat.mod_two_eq_zero_or_one x with h | h <;> simp [h]
    · apply List.map_congr_left
      intro i _
      simp [Nat.testBit_succ]

theorem honestBits_eq (v : ZMod p) (n : ℕ) : honestBits v n = (bitsLE n v.val).map embed := by
  rw [bitsLE_eq_testBit, List.map_map]; rfl

@[simp] theorem length_honestBits (v : ZMod p) (n : ℕ) : (honestBits v n).length = n := by
  simp [honestBits]

theorem isBool_honestBits (v : ZMod p) (n : ℕ) : ∀ b ∈ honestBits v n, isBool b := by
  intro b hb
  obtain ⟨i, _, rfl⟩ := List.mem_map.mp hb
  exact isBool_embed _

/-- the honest bits recompose to `v.val mod 2^n`, in every `ZMod p` -/
theorem recompose_honestBits (v : ZMod p) (n : ℕ) :
    recompose (honestBits v n) = ((v.val % 2 ^ n : ℕ) : ZMod p) := by
  rw [honestBits_eq, recompose_embed, Smtb.natOfBits_bitsLE]

/-- **the constraint system of `ToBinary(v, n)` holds of the honest bits** as soon as the canonical
representative fits `n` bits (`p ≠ 0` only so that `v.val` is a representative of `v`) -/
theorem toBinary_honest_constraints [NeZero p] (v : ZMod p) (n : ℕ) (hv : v.val < 2 ^ n) :
    (honestBits v n).length = n ∧ (∀ b ∈ honestBits v n, isBool b) ∧
      recompose (honestBits v n) = v :=
  ⟨length_honestBits v n, isBool_honestBits v n, by
    rw [recompose_honestBits, Nat.mod_eq_of_lt hv, ZMod.natCast_zmod_val]⟩

/-- … hence they witness the existential of the gate's `SatM` semantics -/
theorem toBinary_honest [NeZero p] (v : ZMod p) (n : ℕ) (hv : v.val < 2 ^ n)
    (k : List (ZMod p) → Prop) (hk : k (honestBits v n)) : (toBinary v n : SatM p _) k := by
  obtain ⟨h1, h2, h3⟩ := toBinary_honest_constraints v n hv
  exact ⟨honestBits v n, h1, h2, h3, hk⟩

/-- what `hint.InvZero` writes (`ZMod`'s `⁻¹` is total, `0⁻¹ = 0`, like the hint) -/
def honestInv (a : ZMod p) : ZMod p := a⁻¹
/-- … and what the result wire `m = 1 - a * x` then holds -/
def honestIsZero (a : ZMod p) : ZMod p := 1 - a * honestInv a

section prime
variable [Fact p.Prime]

/-- any witness of the gate denotes a number congruent to `v.val`, so `v.val` — the least such
number — fits `n` bits as soon as the gate is satisfiable: **`ToBinary(v, n)` is satisfiable iff
`v.val < 2^n`**, for every width (also `2^n > p`) -/
theorem toBinary_satisfiable_iff (v : ZMod p) (n : ℕ) :
    (toBinary v n : SatM p _) (fun _ => True) ↔ v.val < 2 ^ n := by
  have : NeZero p := ⟨(Fact.out : p.Prime).ne_zero⟩
  constructor
  · rintro ⟨bits, hl, hb, hr, -⟩
    obtain ⟨bs, rfl⟩ := (all_isBool_iff bits).mp hb
    rw [List.length_map] at hl
    rw [recompose_embed] at hr
    have h1 : v.val = natOfBits bs % p := by rw [← hr, ZMod.val_natCast]
    have h2 : natOfBits bs < 2 ^ n := hl ▸ natOfBits_lt bs
    exact lt_of_le_of_lt (h1 ▸ Nat.mod_le _ _) h2
  · intro hv
    exact toBinary_honest v n hv _ trivial

/-- **whenever the gate is satisfiable, the honest hint values satisfy it** -/
theorem toBinary_honest_of_satisfiable (v : ZMod p) (n : ℕ)
    (h : (toBinary v n : SatM p _) (fun _ => True)) :
    (honestBits v n).length = n ∧ (∀ b ∈ honestBits v n, isBool b) ∧
      recompose (honestBits v n) = v :=
  have : NeZero p := ⟨(Fact.out : p.Prime).ne_zero⟩
  toBinary_honest_constraints v n ((toBinary_satisfiable_iff v n).mp h)

/-- **uniqueness**, in the form the gadgets use it (`Smtb.canonical_bits_iff`): a witness of the
gate that is narrower than the modulus (`n < bitLen p`, the Merkle gadgets) or that passes
`ReducedModRCheck` (denotes a number `< p`; `ToReducedBigEndian`) *is* the honest bit list -/
theorem toBinary_witness_unique (v : ZMod p) (n : ℕ) (bits : List (ZMod p))
    (hl : bits.length = n) (hb : ∀ b ∈ bits, isBool b) (hr : recompose bits = v)
    (hred : n < bitLen p ∨ ∃ bs : List Bool, bits = bs.map embed ∧ natOfBits bs < p) :
    bits = honestBits v n := by
  obtain ⟨bs, rfl⟩ := (all_isBool_iff bits).mp hb
  rw [List.length_map] at hl
  rw [recompose_embed] at hr
  have hred' : bs.length < bitLen p ∨ natOfBits bs < p := by
    rcases hred with h | ⟨bs', hbs', h⟩
    · exact Or.inl (hl ▸ h)
    · rw [List.map_injective_iff.mpr embed_injective hbs']; exact Or.inr h
  obtain ⟨-, rfl⟩ := (canonical_bits_iff v n bs).mp ⟨hl, hr, hred'⟩
  exact (honestBits_eq v n).symm

/-- the same under the hypothesis `2^n ≤ p` of `Sat.toBinary_iff` -/
theorem toBinary_witness_unique' (v : ZMod p) (n : ℕ) (hn : 2 ^ n ≤ p) (bits : List (ZMod p))
    (hl : bits.length = n) (hb : ∀ b ∈ bits, isBool b) (hr : recompose bits = v) :
    bits = honestBits v n := by
  obtain ⟨bs, rfl⟩ := (all_isBool_iff bits).mp hb
  refine toBinary_witness_unique v n _ hl hb hr (Or.inr ⟨bs, rfl, ?_⟩)
  rw [List.length_map] at hl
  exact lt_of_lt_of_le (hl ▸ natOfBits_lt bs) hn

/-- for a width that cannot wrap, the gate *is* "`v.val` fits, continue with the honest bits" -/
theorem toBinary_iff_honest (v : ZMod p) (n : ℕ) (hn : 2 ^ n ≤ p) (k : List (ZMod p) → Prop) :
    (toBinary v n : SatM p _) k ↔ v.val < 2 ^ n ∧ k (honestBits v n) := by
  rw [toBinary_iff v n hn, honestBits_eq]

/-- without a reducedness check and with `2^n > p` the witness is *not* unique (the digits of
`v.val + p` also satisfy the gate, `C06.alias_satisfies_toBinary`); the honest one is still a
witness.  Example over `p = 5`, `n = 3`, `v = 1`: honest `[1,0,0]`, alias `[0,1,1]` (= 6). -/
example : let _ : Fact (Nat.Prime 5) := ⟨by norm_num⟩
    (toBinary (1 : ZMod 5) 3 : SatM 5 _) (· = [1, 0, 0]) ∧
    (toBinary (1 : ZMod 5) 3 : SatM 5 _) (· = [0, 1, 1]) := by
  intro _
  refine ⟨⟨[1, 0, 0], rfl, ?_, ?_, rfl⟩, ⟨[0, 1, 1], rfl, ?_, ?_, rfl⟩⟩
  · intro b hb; simp at hb; rcases hb with rfl | rfl <;> simp [isBool]
  · simp [recompose]
  · intro b hb; simp at hb; rcases hb with rfl | rfl <;> simp [isBool]
  · simp [recompose]; decide

/-! ## (ii) `IsZero` -/


theorem honestInv_zero : honestInv (0 : ZMod p) = 0 := inv_zero

theorem honestIsZero_eq (a : ZMod p) : honestIsZero a = if a = 0 then 1 else 0 := by
  unfold honestIsZero honestInv
  by_cases ha : a = 0
  · simp [ha]
  · rw [if_neg ha, mul_inv_cancel₀ ha, sub_self]

/-- **the constraint system of `IsZero(a)` holds of the honest hint**, for every `a` (the gate is
always satisfiable) -/
theorem isZero_honest_constraints (a : ZMod p) :
    honestIsZero a = 1 - a * honestInv a ∧ a * honestIsZero a = 0 := by
  refine ⟨rfl, ?_⟩
  rw [honestIsZero_eq]
  by_cases ha : a = 0 <;> simp [ha]

/-- … hence it witnesses the existential of the gate's `SatM` semantics -/
theorem isZero_honest (a : ZMod p) (k : ZMod p → Prop) (hk : k (honestIsZero a)) :
    (isZero a : SatM p _) k :=
  ⟨honestInv a, honestIsZero a, (isZero_honest_constraints a).1, (isZero_honest_constraints a).2, hk⟩

/-- **every witness has the honest output** `m`, and the honest auxiliary `x` wherever `x` is
constrained at all (`a ≠ 0`; for `a = 0` the constraints do not mention `x`) -/
theorem isZero_witness_unique (a x m : ZMod p) (hm : m = 1 - a * x) (ham : a * m = 0) :
    m = honestIsZero a ∧ (a ≠ 0 → x = honestInv a) := by
  rw [honestIsZero_eq]
  by_cases ha : a = 0
  · subst ha; simp [hm]
  · rw [if_neg ha]
    have h0 : m = 0 := (mul_eq_zero.mp ham).resolve_left ha
    refine ⟨h0, fun _ => ?_⟩
    rw [h0] at hm
    have hax : a * x = 1 := by linear_combination hm
    exact eq_inv_of_mul_eq_one_right hax

/-- the gate *is* "continue with the honest output" -/
theorem isZero_iff_honest (a : ZMod p) (k : ZMod p → Prop) :
    (isZero a : SatM p _) k ↔ k (honestIsZero a) := by
  rw [isZero_iff, honestIsZero_eq]

end prime

/-! ## The gate table with honest hints: `HonM`

Same carrier and same gate table as `SatM`, except that the two hint gates do not quantify: they
*check the constraints on the solver's values*. -/

/-- "running the solver (honest hints) leaves every constraint satisfied and `k` holds of the
result" -/
def HonM (_p : ℕ) (α : Type) : Type := (α → Prop) → Prop

namespace HonM

instance : Monad (HonM p) where
  pure a := fun k => k a
  bind x f := fun k => x (fun a => f a k)

@[simp] theorem pure_apply {α} (a : α) (k : α → Prop) : (pure a : HonM p α) k ↔ k a := Iff.rfl
@[simp] theorem bind_apply {α β} (x : HonM p α) (f : α → HonM p β) (k : β → Prop) :
    (x >>= f) k ↔ x (fun a => f a k) := Iff.rfl

/-- forgetting that the hints were honest -/
def toSat {α} (x : HonM p α) : SatM p α := x
/-- a hint-free computation, read in `HonM` -/
def ofSat {α} (x : SatM p α) : HonM p α := x

@[simp] theorem toSat_apply {α} (x : HonM p α) (k : α → Prop) : x.toSat k ↔ x k := Iff.rfl
@[simp] theorem ofSat_apply {α} (x : SatM p α) (k : α → Prop) : (ofSat x) k ↔ x k := Iff.rfl

end HonM

instance honApi : CircuitApi (HonM p) (ZMod p) where
  const n := (n : ZMod p)
  add a b := fun k => k (a + b)
  sub a b := fun k => k (a - b)
  mul a b := fun k => k (a * b)
  select c a b := fun k => isBool c ∧ k (b + c * (a - b))
  isZero a := fun k => honestIsZero a = 1 - a * honestInv a ∧ a * honestIsZero a = 0 ∧ k (honestIsZero a)
  or_ a b := fun k => isBool a ∧ isBool b ∧ k (a + b - a * b)
  xor_ a b := fun k => isBool a ∧ isBool b ∧ k (a + b - 2 * a * b)
  and_ a b := fun k => isBool a ∧ isBool b ∧ k (a * b)
  toBinary v n := fun k => (honestBits v n).length = n ∧ (∀ b ∈ honestBits v n, isBool b) ∧
    recompose (honestBits v n) = v ∧ k (honestBits v n)
  fromBinary bs := fun k => (∀ b ∈ bs, isBool b) ∧ k (recompose bs)
  assertBool a := fun k => isBool a ∧ k ()
  assertEq a b := fun k => a = b ∧ k ()
  opaque1 _ _ _ body := body
  opaqueN _ _ _ _ body := body

namespace Hon

@[simp] theorem const_eq (n : ℕ) : (const (m := HonM p) n : ZMod p) = (n : ZMod p) := rfl
@[simp] theorem add_iff (a b : ZMod p) (k) : (add a b : HonM p _) k ↔ k (a + b) := Iff.rfl
@[simp] theorem sub_iff (a b : ZMod p) (k) : (sub a b : HonM p _) k ↔ k (a - b) := Iff.rfl
@[simp] theorem mul_iff (a b : ZMod p) (k) : (mul a b : HonM p _) k ↔ k (a * b) := Iff.rfl
@[simp] theorem select_iff (c a b : ZMod p) (k) :
    (select c a b : HonM p _) k ↔ isBool c ∧ k (b + c * (a - b)) := Iff.rfl
theorem isZero_def (a : ZMod p) (k) :
    (isZero a : HonM p _) k ↔ honestIsZero a = 1 - a * honestInv a ∧ a * honestIsZero a = 0 ∧
      k (honestIsZero a) := Iff.rfl
@[simp] theorem or_iff (a b : ZMod p) (k) :
    (or_ a b : HonM p _) k ↔ isBool a ∧ isBool b ∧ k (a + b - a * b) := Iff.rfl
@[simp] theorem xor_iff (a b : ZMod p) (k) :
    (xor_ a b : HonM p _) k ↔ isBool a ∧ isBool b ∧ k (a + b - 2 * a * b) := Iff.rfl
@[simp] theorem and_iff (a b : ZMod p) (k) :
    (and_ a b : HonM p _) k ↔ isBool a ∧ isBool b ∧ k (a * b) := Iff.rfl
theorem toBinary_def (v : ZMod p) (n : ℕ) (k) :
    (toBinary v n : HonM p _) k ↔ (honestBits v n).length = n ∧ (∀ b ∈ honestBits v n, isBool b) ∧
      recompose (honestBits v n) = v ∧ k (honestBits v n) := Iff.rfl
@[simp] theorem fromBinary_iff (bs : List (ZMod p)) (k) :
    (fromBinary bs : HonM p _) k ↔ (∀ b ∈ bs, isBool b) ∧ k (recompose bs) := Iff.rfl
@[simp] theorem assertBool_iff (a : ZMod p) (k) :
    (assertBool a : HonM p _) k ↔ isBool a ∧ k () := Iff.rfl
@[simp] theorem assertEq_iff (a b : ZMod p) (k) :
    (assertEq a b : HonM p _) k ↔ a = b ∧ k () := Iff.rfl
@[simp] theorem opaque1_iff (n ps as) (body : HonM p (ZMod p)) (k) :
    (opaque1 n ps as body : HonM p _) k ↔ body k := Iff.rfl
@[simp] theorem opaqueN_iff (n ps as c) (body : HonM p (List (ZMod p))) (k) :
    (opaqueN n ps as c body : HonM p _) k ↔ body k := Iff.rfl

/-- the honest `ToBinary`, every width: it succeeds iff `v.val` fits, and returns the honest bits -/
theorem toBinary_iff [NeZero p] (v : ZMod p) (n : ℕ) (k : List (ZMod p) → Prop) :
    (toBinary v n : HonM p _) k ↔ v.val < 2 ^ n ∧ k ((bitsLE n v.val).map embed) := by
  rw [toBinary_def, ← honestBits_eq]
  constructor
  · rintro ⟨-, -, hr, hk⟩
    refine ⟨?_, hk⟩
    rw [recompose_honestBits] at hr
    have := congrArg ZMod.val hr
    rw [ZMod.val_natCast, Nat.mod_eq_of_lt (lt_of_le_of_lt (Nat.mod_le _ _) (ZMod.val_lt v))] at this
    by_contra hge
    have h2 : v.val % 2 ^ n < 2 ^ n := Nat.mod_lt _ (Nat.two_pow_pos n)
    omega
  · rintro ⟨hv, hk⟩
    obtain ⟨h1, h2, h3⟩ := toBinary_honest_constraints v n hv
    exact ⟨h1, h2, h3, hk⟩

/-- the honest `IsZero` -/
theorem isZero_iff [Fact p.Prime] (a : ZMod p) (k : ZMod p → Prop) :
    (isZero a : HonM p _) k ↔ k (if a = 0 then 1 else 0) := by
  rw [isZero_def, ← honestIsZero_eq]
  exact ⟨fun h => h.2.2, fun h => ⟨(isZero_honest_constraints a).1, (isZero_honest_constraints a).2, h⟩⟩

/-- gate by gate, an honest run is a satisfying assignment -/
theorem toBinary_toSat (v : ZMod p) (n : ℕ) (k) (h : (toBinary v n : HonM p _) k) :
    (toBinary v n : SatM p _) k :=
  ⟨honestBits v n, h⟩

theorem isZero_toSat (a : ZMod p) (k) (h : (isZero a : HonM p _) k) : (isZero a : SatM p _) k :=
  ⟨honestInv a, honestIsZero a, h⟩

end Hon

end Smtb.Honest

#print axioms Smtb.Honest.toBinary_honest_constraints
#print axioms Smtb.Honest.toBinary_satisfiable_iff
#print axioms Smtb.Honest.toBinary_witness_unique
#print axioms Smtb.Honest.toBinary_witness_unique'
#print axioms Smtb.Honest.toBinary_iff_honest
#print axioms Smtb.Honest.isZero_honest_constraints
#print axioms Smtb.Honest.isZero_witness_unique
#print axioms Smtb.Honest.isZero_iff_honest
#print axioms Smtb.Honest.Hon.toBinary_iff
#print axioms Smtb.Honest.Hon.isZero_iff
