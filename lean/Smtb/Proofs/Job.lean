import Smtb.Model.Job
/-!
# Proofs about the graceful-shutdown transition system (C14)

Everything is by induction over runs (`Reachable`), for an unbounded number of in-flight requests.
-/
namespace Smtb.Job

/-! ## One server job -/

/-- invariant of one server job (both protocols; `startRet` only for the repaired one) -/
structure JobInv (fixed : Bool) (js : JobState) : Prop where
  shut : js.srv.inShutdown = true ↔ js.stopper ≠ .waitingStop
  closedDone : js.closed = true ↔ js.stopper = .done
  drained : js.stopper = .waitingStart ∨ js.stopper = .done → js.srv.active = 0
  listener : js.srv.listenerOpen = true ↔
    (js.starter = .bound ∨ (js.starter = .serving ∧ js.srv.inShutdown = false))
  startRet : fixed = true → js.closed = true → js.starter = .returned

theorem jobInv_init (fixed : Bool) : JobInv fixed .init := by
  constructor <;> simp [JobState.init]

theorem jobInv_step {fixed : Bool} {js js' : JobState} {l : JobLabel}
    (h : JobInv fixed js) (hs : jobStep fixed js l = some js') : JobInv fixed js' := by
  obtain ⟨h1, h2, h3, h4, h5⟩ := h
  rcases js with ⟨stop, stopper, starter, closed, ⟨sh, lo, ac⟩⟩
  cases l <;> simp only [jobStep] at hs <;> split at hs <;> simp at hs <;> subst hs <;>
    constructor <;> simp_all <;> cases starter <;> simp_all

theorem jobStep_stop {fixed : Bool} {js js' : JobState} {l : JobLabel}
    (hs : jobStep fixed js l = some js') : js'.stop = js.stop := by
  cases l <;> simp only [jobStep] at hs <;> split at hs <;> simp at hs <;> subst hs <;> rfl

theorem jobStep_closed_mono {fixed : Bool} {js js' : JobState} {l : JobLabel}
    (hs : jobStep fixed js l = some js') (hc : js.closed = true) : js'.closed = true := by
  cases l <;> simp only [jobStep] at hs <;> split at hs <;> simp at hs <;> subst hs <;> simp_all

/-- `active` is lowered only by `complete`, and only by one -/
theorem jobStep_active {fixed : Bool} {js js' : JobState} {l : JobLabel}
    (hs : jobStep fixed js l = some js') :
    (l = .complete ∧ js'.srv.active + 1 = js.srv.active) ∨
    (l = .accept ∧ js'.srv.active = js.srv.active + 1) ∨
    (l ≠ .complete ∧ l ≠ .accept ∧ js'.srv.active = js.srv.active) := by
  cases l <;> simp only [jobStep] at hs <;> split at hs <;> simp at hs <;> subst hs <;> simp
  omega

theorem jobStep_measure {fixed : Bool} {js js' : JobState} {l : JobLabel}
    (hs : jobStep fixed js l = some js') (hl : l ≠ .accept) : js'.measure < js.measure := by
  rcases js with ⟨stop, stopper, starter, closed, ⟨sh, lo, ac⟩⟩
  cases l <;> simp only [jobStep] at hs <;> split at hs <;> simp at hs <;> subst hs <;>
    simp_all [JobState.measure, StopperPc.rank, StarterPc.rank] <;> omega

theorem jobStep_measure_accept {fixed : Bool} {js js' : JobState}
    (hs : jobStep fixed js .accept = some js') : js'.measure = js.measure + 1 := by
  simp only [jobStep] at hs; split at hs <;> simp at hs; subst hs
  simp [JobState.measure]; omega

/-- a starter that is serving or has returned stays so -/
theorem jobStep_late {fixed : Bool} {js js' : JobState} {l : JobLabel}
    (hs : jobStep fixed js l = some js')
    (h : js.starter = .serving ∨ js.starter = .returned) :
    js'.starter = .serving ∨ js'.starter = .returned := by
  cases l <;> simp only [jobStep] at hs <;> split at hs <;> simp at hs <;> subst hs <;> simp_all

/-- once a stop is requested, a job that has not closed `closed` yet can move without a new request -/
theorem job_progress {js : JobState} (h : JobInv true js) (hstop : js.stop = true) :
    js.closed = true ∨ ∃ l, l ≠ JobLabel.accept ∧ (jobStep true js l).isSome = true := by
  obtain ⟨h1, h2, h3, h4, h5⟩ := h
  rcases js with ⟨stop, stopper, starter, closed, ⟨sh, lo, ac⟩⟩
  simp only at hstop; subst hstop
  cases stopper
  · exact .inr ⟨.shutdownBegin, by simp, by simp [jobStep]⟩
  · cases ac with
    | zero => exact .inr ⟨.shutdownReturn, by simp, by simp [jobStep]⟩
    | succ n => exact .inr ⟨.complete, by simp, by simp [jobStep]⟩
  · have hsh : sh = true := by simpa using h1
    subst hsh
    cases starter
    · exact .inr ⟨.checkShut, by simp, by simp [jobStep]⟩
    · exact .inr ⟨.bind, by simp, by simp [jobStep]⟩
    · exact .inr ⟨.registerShut, by simp, by simp [jobStep]⟩
    · exact .inr ⟨.serveReturn, by simp, by simp [jobStep]⟩
    · exact .inr ⟨.closeClosed, by simp, by simp [jobStep]⟩
  · exact .inl (by simpa using h2)

/-! ## The combined system -/

/-- invariant of the whole system -/
structure Inv (fixed : Bool) (s : State) : Prop where
  jm : JobInv fixed s.m
  jp : JobInv fixed s.p
  cstop : s.main ≠ .running → s.cstop = true
  mstop : s.cpc ≠ .waitingStop → s.m.stop = true
  pstop : s.cpc ≠ .waitingStop → s.cpc ≠ .reqStop1 → s.p.stop = true
  mclosed : s.cpc = .await1 ∨ s.cpc = .waitingStart ∨ s.cpc = .done → s.m.closed = true
  pclosed : s.cpc = .waitingStart ∨ s.cpc = .done → s.p.closed = true
  cdone : s.cclosed = true ↔ s.cpc = .done
  cstartRet : fixed = true → s.cclosed = true → s.cstarter = .returned
  exited : s.main = .exited → s.cclosed = true

theorem inv_init (fixed : Bool) : Inv fixed init := by
  constructor <;> simp [init, jobInv_init]

theorem inv_step {fixed : Bool} {s s' : State} {l : Label}
    (h : Inv fixed s) (hs : step fixed s l = some s') : Inv fixed s' := by
  cases l with
  | job j jl =>
    simp only [step, Option.map_eq_some_iff] at hs
    obtain ⟨js', hj, rfl⟩ := hs
    obtain ⟨a, b, c, d, e, f, g, i, k, m⟩ := h
    cases j
    · exact ⟨jobInv_step a hj, b, c, fun x => by simpa [State.setJob, State.job, jobStep_stop hj] using d x, e,
        fun x => jobStep_closed_mono hj (f x), g, i, k, m⟩
    · exact ⟨a, jobInv_step b hj, c, d, fun x y => by simpa [State.setJob, State.job, jobStep_stop hj] using e x y,
        f, fun x => jobStep_closed_mono hj (g x), i, k, m⟩
  | restart =>
    simp only [step] at hs; split at hs <;> simp at hs; subst hs; exact inv_init fixed
  | cRequestStop j =>
    obtain ⟨⟨a1, a2, a3, a4, a5⟩, ⟨b1, b2, b3, b4, b5⟩, c, d, e, f, g, i, k, m⟩ := h
    cases j <;> simp only [step] at hs <;> split at hs <;> simp at hs <;> subst hs <;>
      refine ⟨⟨?_, ?_, ?_, ?_, ?_⟩, ⟨?_, ?_, ?_, ?_, ?_⟩, ?_, ?_, ?_, ?_, ?_, ?_, ?_, ?_⟩ <;> simp_all
  | cAwait j =>
    obtain ⟨a, b, c, d, e, f, g, i, k, m⟩ := h
    cases j <;> simp only [step] at hs <;> split at hs <;> simp at hs <;> subst hs <;>
      refine ⟨a, b, ?_, ?_, ?_, ?_, ?_, ?_, ?_, ?_⟩ <;> simp_all
  | cStart =>
    obtain ⟨a, b, c, d, e, f, g, i, k, m⟩ := h
    simp only [step] at hs; split at hs <;> simp at hs; subst hs
    refine ⟨a, b, ?_, ?_, ?_, ?_, ?_, ?_, ?_, ?_⟩ <;> simp_all
  | cClose =>
    obtain ⟨a, b, c, d, e, f, g, i, k, m⟩ := h
    simp only [step] at hs; split at hs <;> simp at hs; subst hs
    refine ⟨a, b, ?_, ?_, ?_, ?_, ?_, ?_, ?_, ?_⟩ <;> simp_all
  | mainRequestStop =>
    obtain ⟨a, b, c, d, e, f, g, i, k, m⟩ := h
    simp only [step] at hs; split at hs <;> simp at hs; subst hs
    refine ⟨a, b, ?_, ?_, ?_, ?_, ?_, ?_, ?_, ?_⟩ <;> simp_all
  | mainAwait =>
    obtain ⟨a, b, c, d, e, f, g, i, k, m⟩ := h
    simp only [step] at hs; split at hs <;> simp at hs; subst hs
    refine ⟨a, b, ?_, ?_, ?_, ?_, ?_, ?_, ?_, ?_⟩ <;> simp_all
  | mainExit =>
    obtain ⟨a, b, c, d, e, f, g, i, k, m⟩ := h
    simp only [step] at hs; split at hs <;> simp at hs; subst hs
    refine ⟨a, b, ?_, ?_, ?_, ?_, ?_, ?_, ?_, ?_⟩ <;> simp_all

/-- states reachable from the initial state -/
inductive Reachable (fixed : Bool) : State → Prop
  | init : Reachable fixed init
  | step {s s' : State} {l : Label} : Reachable fixed s → step fixed s l = some s' → Reachable fixed s'

theorem Reachable.of_run {fixed : Bool} {s s' : State} {ls : List Label}
    (h : Reachable fixed s) (hr : run fixed s ls = some s') : Reachable fixed s' := by
  induction ls generalizing s with
  | nil => simp only [run, Option.some.injEq] at hr; subst hr; exact h
  | cons l ls ih =>
    simp only [run] at hr
    split at hr
    · next s1 h1 => exact ih (h.step h1) hr
    · simp at hr

theorem run_append {fixed : Bool} {s s' s'' : State} {as bs : List Label}
    (h1 : run fixed s as = some s') (h2 : run fixed s' bs = some s'') :
    run fixed s (as ++ bs) = some s'' := by
  induction as generalizing s with
  | nil => simp [run] at h1; subst h1; simpa using h2
  | cons a as ih =>
    simp only [run, List.cons_append] at h1 ⊢
    split at h1
    · next s1 hs1 => exact ih h1
    · simp at h1

theorem reachable_iff_run {fixed : Bool} {s : State} :
    Reachable fixed s ↔ ∃ ls, run fixed init ls = some s := by
  constructor
  · intro h
    induction h with
    | init => exact ⟨[], rfl⟩
    | @step s s' l _ hs ih =>
      obtain ⟨ls, hls⟩ := ih
      exact ⟨ls ++ [l], run_append hls (by simp [run, hs])⟩
  · rintro ⟨ls, h⟩
    exact Reachable.init.of_run h

theorem inv_of_reachable {fixed : Bool} {s : State} (h : Reachable fixed s) : Inv fixed s := by
  induction h with
  | init => exact inv_init fixed
  | step _ hs ih => exact inv_step ih hs

/-! ## Safety -/

/-- a job whose `closed` channel is closed has drained its server -/
theorem job_closed_facts {fixed : Bool} {js : JobState} (J : JobInv fixed js)
    (hcl : js.closed = true) :
    js.srv.active = 0 ∧ js.srv.inShutdown = true ∧ js.stopper = .done := by
  have h1 := J.closedDone.1 hcl
  exact ⟨J.drained (.inr h1), J.shut.2 (by simp [h1]), h1⟩

/-- in shutdown, a starter that is past registering has no open listener -/
theorem job_listener_closed {fixed : Bool} {js : JobState} (J : JobInv fixed js)
    (hsd : js.srv.inShutdown = true) (hst : js.starter = .serving ∨ js.starter = .returned) :
    js.srv.listenerOpen = false := by
  cases hlo : js.srv.listenerOpen
  · rfl
  · exfalso
    rcases J.listener.1 hlo with hb | ⟨_, h⟩
    · rcases hst with h | h <;> simp [hb] at h
    · simp [hsd] at h

/-- both jobs' `closed` channels are closed when `main` has exited -/
theorem inv_exited_closed {fixed : Bool} {s : State} (I : Inv fixed s) (he : s.main = .exited) :
    ∀ j, (s.job j).closed = true := by
  have hd := I.cdone.1 (I.exited he)
  intro j
  cases j
  · exact I.mclosed (.inr (.inr hd))
  · exact I.pclosed (.inr hd)

theorem Inv.job {fixed : Bool} {s : State} (I : Inv fixed s) (j : Jid) : JobInv fixed (s.job j) := by
  cases j
  · exact I.jm
  · exact I.jp

/-- **Safety (repaired protocol).** -/
theorem exited_released {s : State} (h : Reachable true s) (he : s.main = .exited) :
    ∀ j, (s.job j).released := by
  have I := inv_of_reachable h
  intro j
  have hc := inv_exited_closed I he j
  obtain ⟨ha, hsd, _⟩ := job_closed_facts (I.job j) hc
  have hr := (I.job j).startRet rfl hc
  exact ⟨job_listener_closed (I.job j) hsd (.inr hr), hr, ha⟩

/-- after `main` has exited in the repaired protocol nothing can move any more (no goroutine is
left behind), except that the service can be started again on the same addresses -/
theorem exited_quiescent {s : State} (h : Reachable true s) (he : s.main = .exited) :
    enabled true s .restart = true ∧ ∀ l, l ≠ .restart → enabled true s l = false := by
  have I := inv_of_reachable h
  have hrel := exited_released h he
  have hm := hrel .metrics
  have hp := hrel .prover
  have hcm := inv_exited_closed I he .metrics
  have hcp := inv_exited_closed I he .prover
  have hdm := (job_closed_facts I.jm hcm).2.2
  have hdp := (job_closed_facts I.jp hcp).2.2
  have hcc := I.exited he
  have hcd := I.cdone.1 hcc
  have hcs := I.cstartRet rfl hcc
  simp only [State.job, JobState.released] at hm hp hcm hcp
  constructor
  · simp [enabled, step, he, JobState.released, hm, hp]
  · intro l hl
    cases l with
    | job j jl =>
      cases j <;> cases jl <;> simp_all [enabled, step, jobStep, State.job]
    | cRequestStop j => cases j <;> simp [enabled, step, hcd]
    | cAwait j => cases j <;> simp [enabled, step, hcd]
    | cStart => simp [enabled, step, hcs]
    | cClose => simp [enabled, step, hcd]
    | mainRequestStop => simp [enabled, step, he]
    | mainAwait => simp [enabled, step, he]
    | mainExit => simp [enabled, step, he]
    | restart => exact absurd rfl hl

/-! ## Requests are not dropped -/

theorem step_active {fixed : Bool} {s s' : State} {l : Label} (hs : step fixed s l = some s')
    (hl : l ≠ .restart) (j : Jid) :
    (l = .job j .complete ∧ (s'.job j).srv.active + 1 = (s.job j).srv.active) ∨
    (l = .job j .accept ∧ (s'.job j).srv.active = (s.job j).srv.active + 1) ∨
    (l ≠ .job j .complete ∧ l ≠ .job j .accept ∧ (s'.job j).srv.active = (s.job j).srv.active) := by
  cases l with
  | job i jl =>
    simp only [step, Option.map_eq_some_iff] at hs
    obtain ⟨js', hj, rfl⟩ := hs
    have := jobStep_active hj
    cases i <;> cases j <;> simp_all [State.job, State.setJob]
  | restart => exact absurd rfl hl
  | cRequestStop i =>
    cases i <;> cases j <;> simp only [step] at hs <;> split at hs <;> simp at hs <;> subst hs <;>
      simp [State.job]
  | cAwait i =>
    cases i <;> cases j <;> simp only [step] at hs <;> split at hs <;> simp at hs <;> subst hs <;>
      simp [State.job]
  | cStart | cClose | mainRequestStop | mainAwait | mainExit =>
    cases j <;> simp only [step] at hs <;> split at hs <;> simp at hs <;> subst hs <;> simp [State.job]

def isAccept (j : Jid) (l : Label) : Bool := l == .job j .accept
def isComplete (j : Jid) (l : Label) : Bool := l == .job j .complete

/-- along a run of one service generation: accepted = completed + still active -/
theorem run_accounting {fixed : Bool} {s s' : State} {ls : List Label}
    (hr : run fixed s ls = some s') (hnr : ∀ l ∈ ls, l ≠ .restart) (j : Jid) :
    (s.job j).srv.active + ls.countP (isAccept j) = ls.countP (isComplete j) + (s'.job j).srv.active := by
  induction ls generalizing s with
  | nil => simp only [run, Option.some.injEq] at hr; subst hr; simp
  | cons l ls ih =>
    simp only [run] at hr
    split at hr
    · next s1 h1 =>
      have ih' := ih hr (fun x hx => hnr x (List.mem_cons_of_mem _ hx))
      have := step_active h1 (hnr l (List.mem_cons_self ..)) j
      simp only [List.countP_cons, isAccept, isComplete, beq_iff_eq] at ih' ⊢
      rcases this with ⟨rfl, h⟩ | ⟨rfl, h⟩ | ⟨h1, h2, h⟩
      · simp; omega
      · simp; omega
      · simp [h1, h2]; omega
    · simp at hr

/-! ## Progress and termination -/

theorem step_measure {fixed : Bool} {s s' : State} {l : Label} (hs : step fixed s l = some s')
    (hq : l.quiet = true) : s'.measure < s.measure := by
  cases l with
  | job j jl =>
    simp only [step, Option.map_eq_some_iff] at hs
    obtain ⟨js', hj, rfl⟩ := hs
    have hne : jl ≠ .accept := by rintro rfl; simp [Label.quiet] at hq
    have := jobStep_measure hj hne
    cases j <;> simp_all [State.job, State.setJob, State.measure] <;> omega
  | restart => simp [Label.quiet] at hq
  | cRequestStop i =>
    cases i <;> simp only [step] at hs <;> split at hs <;> simp at hs <;> subst hs <;>
      simp_all [State.measure, JobState.measure, CombPc.rank]
  | cAwait i =>
    cases i <;> simp only [step] at hs <;> split at hs <;> simp at hs <;> subst hs <;>
      simp_all [State.measure, CombPc.rank]
  | cStart | cClose | mainRequestStop | mainAwait | mainExit =>
    simp only [step] at hs; split at hs <;> simp at hs; subst hs
    simp_all [State.measure, CombPc.rank, CombStarterPc.rank, MainPc.rank] <;> omega

theorem step_measure_accept {fixed : Bool} {s s' : State} {j : Jid}
    (hs : step fixed s (.job j .accept) = some s') : s'.measure = s.measure + 1 := by
  simp only [step, Option.map_eq_some_iff] at hs
  obtain ⟨js', hj, rfl⟩ := hs
  have := jobStep_measure_accept hj
  cases j <;> simp_all [State.job, State.setJob, State.measure] <;> omega

/-- a run without new requests (and restarts) is no longer than the measure -/
theorem quiet_run_length {fixed : Bool} {s s' : State} {ls : List Label}
    (hq : ∀ l ∈ ls, l.quiet = true) (hr : run fixed s ls = some s') :
    ls.length + s'.measure ≤ s.measure := by
  induction ls generalizing s with
  | nil => simp only [run, Option.some.injEq] at hr; subst hr; simp
  | cons l ls ih =>
    simp only [run] at hr
    split at hr
    · next s1 h1 =>
      have := ih (fun x hx => hq x (List.mem_cons_of_mem _ hx)) hr
      have := step_measure h1 (hq l (List.mem_cons_self ..))
      simp only [List.length_cons]; omega
    · simp at hr

/-- a new request is impossible once the server is in shutdown -/
theorem accept_disabled {fixed : Bool} {s : State} {j : Jid}
    (h : (s.job j).srv.inShutdown = true) : enabled fixed s (.job j .accept) = false := by
  simp [enabled, step, jobStep, h]

/-- **No deadlock (repaired protocol)**, in the strong form: some step other than a new request -/
theorem progress {s : State} (h : Reachable true s) (hne : s.main ≠ .exited) :
    ∃ l, l.quiet = true ∧ enabled true s l = true := by
  have I := inv_of_reachable h
  have jobCase : ∀ j, (s.job j).stop = true → (s.job j).closed = true ∨
      ∃ l, l.quiet = true ∧ enabled true s l = true := by
    intro j hst
    rcases job_progress (I.job j) hst with hc | ⟨jl, hne, hen⟩
    · exact .inl hc
    · refine .inr ⟨.job j jl, ?_, ?_⟩
      · cases jl <;> simp_all [Label.quiet]
      · simpa [enabled, step] using hen
  rcases s with ⟨m, p, cstop, cpc, cstarter, cclosed, main⟩
  cases main with
  | running => exact ⟨.mainRequestStop, rfl, by simp [enabled, step]⟩
  | requestedStop => exact ⟨.mainAwait, rfl, by simp [enabled, step]⟩
  | exited => exact absurd rfl hne
  | awaiting =>
    have hcs : cstop = true := I.cstop (by simp)
    cases cpc with
    | waitingStop => exact ⟨.cRequestStop .metrics, rfl, by simp [enabled, step, hcs]⟩
    | reqStop1 => exact ⟨.cRequestStop .prover, rfl, by simp [enabled, step]⟩
    | await0 =>
      rcases jobCase .metrics (I.mstop (by simp)) with hc | h
      · exact ⟨.cAwait .metrics, rfl, by simpa [enabled, step, State.job] using hc⟩
      · exact h
    | await1 =>
      rcases jobCase .prover (I.pstop (by simp) (by simp)) with hc | h
      · exact ⟨.cAwait .prover, rfl, by simpa [enabled, step, State.job] using hc⟩
      · exact h
    | waitingStart =>
      cases cstarter with
      | notStarted => exact ⟨.cStart, rfl, by simp [enabled, step]⟩
      | returned => exact ⟨.cClose, rfl, by simp [enabled, step]⟩
    | done =>
      have : cclosed = true := I.cdone.2 rfl
      exact ⟨.mainExit, rfl, by simp [enabled, step, this]⟩

/-- from every reachable state of the repaired protocol the shutdown can be driven to `exited`
within `measure` steps (after the stop request, without the environment's help) -/
theorem can_exit {s : State} (h : Reachable true s) :
    ∃ ls s', (∀ l ∈ ls, l.quiet = true) ∧ run true s ls = some s' ∧ s'.main = .exited ∧
      ls.length ≤ s.measure := by
  generalize hn : s.measure = n
  induction n using Nat.strongRecOn generalizing s with
  | _ n ih =>
    by_cases he : s.main = .exited
    · exact ⟨[], s, by simp, rfl, he, by simp⟩
    · obtain ⟨l, hq, hen⟩ := progress h he
      simp only [enabled, Option.isSome_iff_exists] at hen
      obtain ⟨s1, hs1⟩ := hen
      have hlt := step_measure hs1 hq
      obtain ⟨ls, s', hqs, hrun, hex, hlen⟩ := ih s1.measure (hn ▸ hlt) (h.step hs1) rfl
      refine ⟨l :: ls, s', ?_, by simp [run, hs1, hrun], hex, ?_⟩
      · intro x hx
        rcases List.mem_cons.1 hx with rfl | hx
        · exact hq
        · exact hqs x hx
      · simp only [List.length_cons]; omega

/-! ## The original protocol -/

/-- runs in which the stop is requested only after both listeners are registered -/
inductive ReachableLate (fixed : Bool) : State → Prop
  | init : ReachableLate fixed init
  | step {s s' : State} {l : Label} : ReachableLate fixed s → step fixed s l = some s' →
      (l = .mainRequestStop → s.m.starter = .serving ∧ s.p.starter = .serving) →
      ReachableLate fixed s'

theorem ReachableLate.reachable {fixed : Bool} {s : State} (h : ReachableLate fixed s) :
    Reachable fixed s := by
  induction h with
  | init => exact .init
  | step _ hs _ ih => exact ih.step hs

/-- in such runs, after the stop request no starter is before `serving` -/
theorem late_inv {fixed : Bool} {s : State} (h : ReachableLate fixed s) :
    s.main ≠ .running → ∀ j, (s.job j).starter = .serving ∨ (s.job j).starter = .returned := by
  induction h with
  | init => intro h; simp [init] at h
  | @step s s' l _ hs hl ih =>
    cases l with
    | job i jl =>
      simp only [step, Option.map_eq_some_iff] at hs
      obtain ⟨js', hj, rfl⟩ := hs
      intro hm j
      have hm' : s.main ≠ .running := by cases i <;> simpa [State.setJob] using hm
      have := ih hm'
      cases i <;> cases j
      · exact jobStep_late hj (this .metrics)
      · simpa [State.job, State.setJob] using this .prover
      · simpa [State.job, State.setJob] using this .metrics
      · exact jobStep_late hj (this .prover)
    | restart =>
      simp only [step] at hs; split at hs <;> simp at hs; subst hs
      intro h; simp [init] at h
    | mainRequestStop =>
      have := hl rfl
      simp only [step] at hs; split at hs <;> simp at hs; subst hs
      intro _ j; cases j <;> simp [State.job, this]
    | cRequestStop i =>
      cases i <;> simp only [step] at hs <;> split at hs <;> simp at hs <;> subst hs <;>
        intro hm j <;> have := ih hm j <;> cases j <;> simpa [State.job] using this
    | cAwait i =>
      cases i <;> simp only [step] at hs <;> split at hs <;> simp at hs <;> subst hs <;>
        intro hm j <;> have := ih hm j <;> cases j <;> simpa [State.job] using this
    | cStart | cClose =>
      simp only [step] at hs; split at hs <;> simp at hs; subst hs
      intro hm j; have := ih hm j; cases j <;> simpa [State.job] using this
    | mainAwait | mainExit =>
      simp only [step] at hs; split at hs <;> simp at hs
      rename_i hg
      subst hs
      intro _ j; have := ih (by simp [hg]) j; cases j <;> simpa [State.job] using this

/-! ## Weak (observable-trace) acceptance is sound -/

theorem tauClose_run (fixed : Bool) (ls : List Label) (s : State) :
    run fixed s (tauClose fixed ls s).2 = some (tauClose fixed ls s).1 := by
  induction ls generalizing s with
  | nil => rfl
  | cons l ls ih =>
    simp only [tauClose]
    split
    · next s1 h1 => simp [run, h1, ih]
    · exact ih s

theorem tauClose_tau (fixed : Bool) (ls : List Label) (s : State) (hls : ∀ l ∈ ls, l.isTau = true) :
    ∀ l ∈ (tauClose fixed ls s).2, l.isTau = true := by
  induction ls generalizing s with
  | nil => simp [tauClose]
  | cons l ls ih =>
    have ihl := fun s => ih s (fun x hx => hls x (List.mem_cons_of_mem _ hx))
    simp only [tauClose]
    split
    · intro x hx
      rcases List.mem_cons.1 hx with rfl | hx
      · exact hls _ (List.mem_cons_self ..)
      · exact ihl _ x hx
    · exact ihl s

theorem tauLabels_tau : ∀ l ∈ tauLabels ++ tauLabels, l.isTau = true := by decide

theorem weakStep_sound {fixed : Bool} {s s' : State} {l : Label} {pre : List Label}
    (h : weakStep fixed s l = some (s', pre)) :
    run fixed s pre = some s' ∧ ∃ ts, pre = ts ++ [l] ∧ ∀ t ∈ ts, t.isTau = true := by
  simp only [weakStep] at h
  split at h
  · next s1 h1 =>
    simp only [Option.some.injEq, Prod.mk.injEq] at h
    obtain ⟨rfl, rfl⟩ := h
    exact ⟨by simp [run, h1], [], rfl, by simp⟩
  · split at h
    · next s1 h1 =>
      simp only [Option.some.injEq, Prod.mk.injEq] at h
      obtain ⟨rfl, rfl⟩ := h
      exact ⟨run_append (tauClose_run ..) (by simp [run, h1]), _, rfl,
        tauClose_tau _ _ _ tauLabels_tau⟩
    · simp at h

/-- whatever `acceptsWeak` accepts is the observable part of a genuine run of the model: the
elaborated sequence is a run and differs from the input only by inserted silent labels -/
theorem elaborate_sound {fixed : Bool} {s : State} {obs full : List Label}
    (h : elaborate fixed s obs = some full) :
    (run fixed s full).isSome = true ∧
      full.filter (fun l => !l.isTau) = obs.filter (fun l => !l.isTau) := by
  induction obs generalizing s full with
  | nil => simp only [elaborate, Option.some.injEq] at h; subst h; simp [run]
  | cons l ls ih =>
    simp only [elaborate] at h
    split at h
    · next s1 pre hw =>
      simp only [Option.map_eq_some_iff] at h
      obtain ⟨rest, hrest, rfl⟩ := h
      obtain ⟨hrun, ts, rfl, hts⟩ := weakStep_sound hw
      obtain ⟨h1, h2⟩ := ih hrest
      obtain ⟨s2, hs2⟩ := Option.isSome_iff_exists.1 h1
      refine ⟨by rw [run_append hrun hs2]; rfl, ?_⟩
      have : ts.filter (fun l => !l.isTau) = [] := by
        simp only [List.filter_eq_nil_iff]; intro a ha; simp [hts a ha]
      simp [List.filter_append, this, h2, List.filter_cons]
    · simp at h

/-! ## Silent steps never disable another step (why eager saturation loses no behaviour) -/

theorem jobTau_preserves {fixed : Bool} {js js1 : JobState} {l : JobLabel}
    (ht : jobStep fixed js .closeClosed = some js1) (hl : l ≠ .closeClosed)
    (he : (jobStep fixed js l).isSome = true) : (jobStep fixed js1 l).isSome = true := by
  simp only [jobStep] at ht; split at ht <;> simp at ht; subst ht
  cases l <;> simp_all [jobStep]

theorem jobStep_stop_mono {fixed : Bool} {js : JobState} {l : JobLabel}
    (he : (jobStep fixed js l).isSome = true) :
    (jobStep fixed { js with stop := true } l).isSome = true := by
  cases l <;> simp_all [jobStep]

/-- a silent step never disables another step -/
theorem tau_preserves_enabled {fixed : Bool} {s s1 : State} {t l : Label}
    (ht : t.isTau = true) (hs : step fixed s t = some s1) (hne : l ≠ t) (hr : l ≠ .restart)
    (he : enabled fixed s l = true) : enabled fixed s1 l = true := by
  cases t with
  | job i jt =>
    cases jt <;> simp [Label.isTau] at ht
    simp only [step, Option.map_eq_some_iff] at hs
    obtain ⟨js1, hj, rfl⟩ := hs
    cases l with
    | job k jl =>
      have hne' : i = k → jl ≠ .closeClosed := by rintro rfl rfl; exact hne rfl
      simp only [enabled, step, Option.isSome_map] at he ⊢
      cases i <;> cases k <;> simp_all [State.job, State.setJob] <;> exact jobTau_preserves hj hne' he
    | restart => exact absurd rfl hr
    | cRequestStop k => cases i <;> cases k <;> simp_all [enabled, step, State.setJob]
    | cAwait k =>
      simp only [jobStep] at hj; split at hj <;> simp at hj; subst hj
      cases i <;> cases k <;> simp_all [enabled, step, State.setJob, State.job]
    | cStart | cClose | mainRequestStop | mainAwait | mainExit =>
      cases i <;> simp_all [enabled, step, State.setJob]
  | restart | mainRequestStop | mainAwait | mainExit => simp [Label.isTau] at ht
  | cRequestStop i =>
    cases l with
    | job k jl =>
      have hj := @jobStep_stop_mono fixed (s.job k) jl
      cases i <;> simp only [step] at hs <;> split at hs <;> simp at hs <;> subst hs <;>
        cases k <;> simp_all [enabled, step, State.job]
    | restart => exact absurd rfl hr
    | cRequestStop k =>
      cases i <;> cases k <;> simp only [step] at hs <;> split at hs <;> simp at hs <;> subst hs <;>
        simp_all [enabled, step]
    | cAwait k =>
      cases i <;> cases k <;> simp only [step] at hs <;> split at hs <;> simp at hs <;> subst hs <;>
        simp_all [enabled, step]
    | cStart | cClose | mainRequestStop | mainAwait | mainExit =>
      cases i <;> simp only [step] at hs <;> split at hs <;> simp at hs <;> subst hs <;>
        simp_all [enabled, step]
  | cAwait i =>
    cases l with
    | job k jl =>
      cases i <;> simp only [step] at hs <;> split at hs <;> simp at hs <;> subst hs <;>
        cases k <;> simpa [enabled, step, State.job, State.setJob] using he
    | restart => exact absurd rfl hr
    | cRequestStop k =>
      cases i <;> cases k <;> simp only [step] at hs <;> split at hs <;> simp at hs <;> subst hs <;>
        simp_all [enabled, step]
    | cAwait k =>
      cases i <;> cases k <;> simp only [step] at hs <;> split at hs <;> simp at hs <;> subst hs <;>
        simp_all [enabled, step]
    | cStart | cClose | mainRequestStop | mainAwait | mainExit =>
      cases i <;> simp only [step] at hs <;> split at hs <;> simp at hs <;> subst hs <;>
        simp_all [enabled, step]
  | cStart | cClose =>
    simp only [step] at hs; split at hs <;> simp at hs; subst hs
    cases l with
    | job k jl => cases k <;> simpa [enabled, step, State.job, State.setJob] using he
    | restart => exact absurd rfl hr
    | cRequestStop k => cases k <;> simp_all [enabled, step]
    | cAwait k => cases k <;> simp_all [enabled, step]
    | cStart | cClose | mainRequestStop | mainAwait | mainExit => simp_all [enabled, step]

end Smtb.Job
