import Smtb.Model.Merkle
import Smtb.Model.Tree

/-!
# Helper lemmas for the off-chain Poseidon tree (`Smtb.Model.Tree`)

Core Lean only.  Contents:

1. arithmetic of `indexIsLeft` and of `i % 2^(d+1)` versus `i % 2^d`;
2. pure facts about the dense reference tree of `Smtb.Model.Merkle`
   (`rootOf_congr`, `pathOf_congr`, `recover_pathOf`, `pathOf_setLeaf`, …);
3. the representation predicate `Repr n d f` ("node `n` has depth `d` and denotes the leaves
   `f 0 … f (2^d-1)`"), the intrinsic invariant `WF`, the structural lookup `leafOf`, and the
   simulation lemmas for `value`, `withValue`, `writeProof`;
4. `NewTree`'s table, histories (`Tree.run`, `leavesAfter`) and the lifting to reachable trees.
-/
namespace Smtb.Tree

open Smtb.Merkle

variable {F : Type}

/-! ## 1. Arithmetic -/

theorem and_two_pow_eq_zero (i d : Nat) : (i &&& 2 ^ d = 0) ↔ i.testBit d = false := by
  constructor
  · intro h
    have := congrArg (fun x => x.testBit d) h
    simpa [Nat.testBit_and, Nat.testBit_two_pow_self] using this
  · intro h
    apply Nat.eq_of_testBit_eq
    intro j
    by_cases hj : d = j
    · subst hj; simp [Nat.testBit_and, h]
    · simp [Nat.testBit_and, Nat.testBit_two_pow_of_ne hj]

/-- the Go expression is "bit `depth-1` of `index` is clear" -/
theorem indexIsLeft_eq_testBit (i dep : Nat) : indexIsLeft i dep = !(i.testBit (dep - 1)) := by
  unfold indexIsLeft
  rw [Nat.one_shiftLeft]
  cases h : i.testBit (dep - 1)
  · simpa using (and_two_pow_eq_zero i (dep - 1)).2 h
  · have : ¬ (i &&& 2 ^ (dep - 1) = 0) := by
      intro h0; rw [(and_two_pow_eq_zero i (dep - 1)).1 h0] at h; cases h
    simpa using this

theorem mod_succ_cases (i d : Nat) :
    (i / 2 ^ d % 2 = 0 ∧ i % 2 ^ (d + 1) = i % 2 ^ d) ∨
    (i / 2 ^ d % 2 = 1 ∧ i % 2 ^ (d + 1) = i % 2 ^ d + 2 ^ d) := by
  rw [Nat.mod_pow_succ]
  rcases Nat.mod_two_eq_zero_or_one (i / 2 ^ d) with h | h <;> simp [h]

theorem mod_lt_two_pow (i d : Nat) : i % 2 ^ d < 2 ^ d := Nat.mod_lt _ (Nat.two_pow_pos d)

theorem mod_succ_of_lt {i d : Nat} (h : i % 2 ^ (d + 1) < 2 ^ d) :
    i % 2 ^ (d + 1) = i % 2 ^ d := by
  have := mod_lt_two_pow i d
  rcases mod_succ_cases i d with ⟨_, h'⟩ | ⟨_, h'⟩ <;> omega

theorem mod_succ_of_not_lt {i d : Nat} (h : ¬ i % 2 ^ (d + 1) < 2 ^ d) :
    i % 2 ^ (d + 1) = i % 2 ^ d + 2 ^ d := by
  have := mod_lt_two_pow i d
  rcases mod_succ_cases i d with ⟨_, h'⟩ | ⟨_, h'⟩ <;> omega

theorem bit_eq_decide (i d : Nat) : (i / 2 ^ d % 2 == 1) = decide (¬ i % 2 ^ (d + 1) < 2 ^ d) := by
  have := mod_lt_two_pow i d
  rcases mod_succ_cases i d with ⟨h1, h'⟩ | ⟨h1, h'⟩
  · have : i % 2 ^ (d + 1) < 2 ^ d := by omega
    simp [h1, this]
  · have : ¬ i % 2 ^ (d + 1) < 2 ^ d := by omega
    simp [h1, this]

/-- `indexIsLeft` at depth `d+1` is the descent test of `Merkle.pathOf` -/
theorem indexIsLeft_succ (i d : Nat) :
    indexIsLeft i (d + 1) = decide (i % 2 ^ (d + 1) < 2 ^ d) := by
  rw [indexIsLeft_eq_testBit, Nat.add_sub_cancel, Nat.testBit_eq_decide_div_mod_eq]
  have := bit_eq_decide i d
  rcases Nat.mod_two_eq_zero_or_one (i / 2 ^ d) with h | h <;> simp [h] at this ⊢ <;> omega

/-! ## 2. The dense reference tree -/

section Dense

variable (H : F → F → F)

theorem rootOf_congr : ∀ (d : Nat) {f g : Nat → F}, (∀ j, j < 2 ^ d → f j = g j) →
    rootOf H d f = rootOf H d g
  | 0, f, g, h => by simpa [rootOf] using h 0 (by simp)
  | d + 1, f, g, h => by
    have hp : 2 ^ (d + 1) = 2 ^ d + 2 ^ d := by omega
    simp only [rootOf]
    rw [rootOf_congr d (f := f) (g := g) (fun j hj => h j (by omega)),
      rootOf_congr d (f := fun i => f (i + 2 ^ d)) (g := fun i => g (i + 2 ^ d))
        (fun j hj => h (j + 2 ^ d) (by omega))]

theorem pathOf_congr : ∀ (d : Nat) {f g : Nat → F} (i : Nat), (∀ j, j < 2 ^ d → f j = g j) →
    pathOf H d f i = pathOf H d g i
  | 0, _, _, _, _ => rfl
  | d + 1, f, g, i, h => by
    have hp : 2 ^ (d + 1) = 2 ^ d + 2 ^ d := by omega
    have hl : ∀ j, j < 2 ^ d → f j = g j := fun j hj => h j (by omega)
    have hr : ∀ j, j < 2 ^ d → (fun i => f (i + 2 ^ d)) j = (fun i => g (i + 2 ^ d)) j :=
      fun j hj => h (j + 2 ^ d) (by omega)
    simp only [pathOf]
    rw [pathOf_congr d i hl, pathOf_congr d i hr, rootOf_congr H d hl, rootOf_congr H d hr]

theorem pathOf_length : ∀ (d : Nat) (f : Nat → F) (i : Nat), (pathOf H d f i).length = d
  | 0, _, _ => rfl
  | d + 1, f, i => by
    simp only [pathOf]
    split <;> simp [pathOf_length d]

theorem bitsLE_length : ∀ (d i : Nat), (bitsLE d i).length = d
  | 0, _ => rfl
  | d + 1, i => by simp [bitsLE, bitsLE_length d]

theorem bitsLE_mod : ∀ (d m i : Nat), d ≤ m → bitsLE d (i % 2 ^ m) = bitsLE d i
  | 0, _, _, _ => rfl
  | d + 1, m, i, h => by
    obtain ⟨m', rfl⟩ : ∃ m', m = m' + 1 := ⟨m - 1, by omega⟩
    have h1 : i % 2 ^ (m' + 1) % 2 = i % 2 :=
      Nat.mod_mod_of_dvd _ ⟨2 ^ m', by rw [Nat.pow_succ, Nat.mul_comm]⟩
    have h2 : i % 2 ^ (m' + 1) / 2 = i / 2 % 2 ^ m' := by
      rw [Nat.pow_succ, Nat.mul_comm, Nat.mod_mul_right_div_self]
    simp only [bitsLE, h1, h2]
    rw [bitsLE_mod d m' (i / 2) (by omega)]

theorem bitsLE_succ_last : ∀ (d i : Nat),
    bitsLE (d + 1) i = bitsLE d i ++ [decide (¬ i % 2 ^ (d + 1) < 2 ^ d)]
  | 0, i => by rw [← bit_eq_decide]; simp [bitsLE]
  | d + 1, i => by
    have h2 : i / 2 / 2 ^ d = i / 2 ^ (d + 1) := by
      rw [Nat.div_div_eq_div_mul, Nat.pow_succ, Nat.mul_comm]
    rw [bitsLE, bitsLE_succ_last d (i / 2), ← bit_eq_decide, ← bit_eq_decide, h2]
    simp [bitsLE]

theorem recover_snoc : ∀ (sibs : List F) (bits : List Bool) (acc s : F) (b : Bool),
    sibs.length = bits.length →
    recover H acc (sibs ++ [s]) (bits ++ [b]) =
      (if b then H s (recover H acc sibs bits) else H (recover H acc sibs bits) s)
  | [], [], acc, s, b, _ => by simp [recover]
  | [], _ :: _, _, _, _, h => by simp at h
  | _ :: _, [], _, _, _, h => by simp at h
  | x :: sibs, c :: bits, acc, s, b, h => by
    simp only [List.cons_append, recover]
    exact recover_snoc sibs bits _ s b (by simpa using h)

/-- the genuine path of leaf `i` authenticates `f (i mod 2^d)` against the dense root -/
theorem recover_pathOf : ∀ (d : Nat) (f : Nat → F) (i : Nat),
    recover H (f (i % 2 ^ d)) (pathOf H d f i) (bitsLE d i) = rootOf H d f
  | 0, f, i => by simp [recover, pathOf, bitsLE, rootOf, Nat.mod_one]
  | d + 1, f, i => by
    have hlen : ∀ g, (pathOf H d g i).length = (bitsLE d i).length := fun g => by
      rw [pathOf_length, bitsLE_length]
    rw [bitsLE_succ_last]
    simp only [pathOf, rootOf]
    by_cases h : i % 2 ^ (d + 1) < 2 ^ d
    · have hb : decide (¬ i % 2 ^ (d + 1) < 2 ^ d) = false := by simp [h]
      rw [if_pos h, hb, recover_snoc H _ _ _ _ _ (hlen _), mod_succ_of_lt h, recover_pathOf d f i]
      simp
    · have hb : decide (¬ i % 2 ^ (d + 1) < 2 ^ d) = true := by simp [h]
      rw [if_neg h, hb, recover_snoc H _ _ _ _ _ (hlen _), mod_succ_of_not_lt h]
      rw [recover_pathOf d (fun j => f (j + 2 ^ d)) i]
      simp

section SetLeaf

variable [Inhabited F]

/-- the sibling path of leaf `i` does not depend on the value of leaf `i` -/
theorem pathOf_setLeaf : ∀ (d : Nat) (f : Nat → F) (i : Nat) (x : F),
    pathOf H d (setLeaf f (i % 2 ^ d) x) i = pathOf H d f i
  | 0, _, _, _ => rfl
  | d + 1, f, i, x => by
    have hlt := mod_lt_two_pow i d
    simp only [pathOf]
    by_cases h : i % 2 ^ (d + 1) < 2 ^ d
    · rw [if_pos h, if_pos h, mod_succ_of_lt h, pathOf_setLeaf d f i x]
      congr 2
      apply rootOf_congr
      intro j _
      have : j + 2 ^ d ≠ i % 2 ^ d := by omega
      simp [setLeaf, this]
    · rw [if_neg h, if_neg h, mod_succ_of_not_lt h]
      have hfun : (fun j => setLeaf f (i % 2 ^ d + 2 ^ d) x (j + 2 ^ d)) =
          setLeaf (fun j => f (j + 2 ^ d)) (i % 2 ^ d) x := by
        funext j; simp [setLeaf]
      rw [hfun, pathOf_setLeaf d _ i x]
      congr 2
      apply rootOf_congr
      intro j hj
      have : j ≠ i % 2 ^ d + 2 ^ d := by omega
      simp [setLeaf, this]

end SetLeaf

/-- sibling path inside an all-zero tree: the roots of the all-zero trees of depth `0 … d-1` -/
theorem pathOf_zero (zero : F) : ∀ (d : Nat) (f : Nat → F) (i : Nat),
    (∀ j, j < 2 ^ d → f j = zero) →
    pathOf H d f i = (List.range d).map (fun k => rootOf H k (fun _ => zero))
  | 0, _, _, _ => rfl
  | d + 1, f, i, h => by
    have hp : 2 ^ (d + 1) = 2 ^ d + 2 ^ d := by omega
    have hl : ∀ j, j < 2 ^ d → f j = zero := fun j hj => h j (by omega)
    have hr : ∀ j, j < 2 ^ d → (fun i => f (i + 2 ^ d)) j = zero :=
      fun j hj => h (j + 2 ^ d) (by omega)
    simp only [pathOf]
    rw [pathOf_zero zero d f i hl, pathOf_zero zero d _ i hr,
      rootOf_congr H d (g := fun _ => zero) hl, rootOf_congr H d (g := fun _ => zero) hr]
    simp [List.range_succ]

end Dense

/-! ## 3. Representation predicate, invariant, lookup -/

section ReprSec

variable (H : F → F → F) (zero : F) (ev : List F)

/-- root of the all-zero dense tree of depth `k`; this is what `emptyTreeValues[k]` must hold -/
abbrev zeroRoot (k : Nat) : F := rootOf H k (fun _ => zero)

/-- `emptyTreeValues[k]` is in range and correct for all `k ≤ d` -/
def TableOK (d : Nat) : Prop := ∀ k, k ≤ d → ev[k]? = some (zeroRoot H zero k)

/-- `Repr n d f`: node `n` has depth `d`, is internally consistent, and denotes the leaves
`f 0 … f (2^d - 1)` -/
def Repr : Node F → Nat → (Nat → F) → Prop
  | .empty dep, d, f => dep = d ∧ TableOK H zero ev d ∧ ∀ j, j < 2 ^ d → f j = zero
  | .full dep val _ _, 0, f => dep = 0 ∧ val = f 0
  | .full dep val l r, d + 1, f =>
    dep = d + 1 ∧ val = H (l.value ev zero) (r.value ev zero) ∧
      Repr l d f ∧ Repr r d (fun j => f (j + 2 ^ d))

/-- Intrinsic representation invariant: every full node of depth `> 0` caches `H` of its
children's values and its children are one level lower; every empty node of depth `dep` finds
correct all-zero roots at `emptyTreeValues[0..dep]`. -/
def WF : Node F → Prop
  | .empty dep => TableOK H zero ev dep
  | .full dep val l r =>
    dep ≠ 0 → (l.depth + 1 = dep ∧ r.depth + 1 = dep ∧
      val = H (l.value ev zero) (r.value ev zero) ∧ WF l ∧ WF r)

/-- structural lookup of leaf `j` (bits of `j` at positions `≥ depth` are ignored, like in
`withValue`/`writeProof`); an empty subtree denotes `zero` leaves -/
def leafOf : Node F → Nat → F
  | .empty _, _ => zero
  | .full dep val l r, j =>
    if dep = 0 then val else if indexIsLeft j dep then leafOf l j else leafOf r j

variable {H zero ev}

theorem TableOK.mono {d d' : Nat} (h : TableOK H zero ev d) (hd : d' ≤ d) :
    TableOK H zero ev d' := fun k hk => h k (by omega)

theorem TableOK.getD {d k : Nat} (h : TableOK H zero ev d) (hk : k ≤ d) :
    ev.getD k zero = zeroRoot H zero k := by
  simp [List.getD_eq_getElem?_getD, h k hk]

theorem TableOK.lt_length {d k : Nat} (h : TableOK H zero ev d) (hk : k ≤ d) : k < ev.length := by
  have := h k hk
  rcases Nat.lt_or_ge k ev.length with hlt | hge
  · exact hlt
  · rw [List.getElem?_eq_none hge] at this; cases this

theorem Repr.depth_eq : ∀ {n : Node F} {d : Nat} {f : Nat → F}, Repr H zero ev n d f → n.depth = d
  | .empty _, _, _, h => h.1
  | .full _ _ _ _, 0, _, h => h.1
  | .full _ _ _ _, _ + 1, _, h => h.1

theorem repr_empty {d : Nat} {f : Nat → F} (ht : TableOK H zero ev d)
    (hf : ∀ j, j < 2 ^ d → f j = zero) : Repr H zero ev (.empty d) d f := ⟨rfl, ht, hf⟩

/-- the cached value is the dense root -/
theorem Repr.value_eq : ∀ {d : Nat} {n : Node F} {f : Nat → F}, Repr H zero ev n d f →
    n.value ev zero = rootOf H d f
  | d, .empty _, f, ⟨hd, ht, hf⟩ => by
    subst hd
    rw [Node.value, ht.getD (Nat.le_refl _)]
    exact (rootOf_congr H _ hf).symm
  | 0, .full _ _ _ _, f, ⟨_, hv⟩ => by simp [Node.value, rootOf, hv]
  | d + 1, .full _ _ l r, f, ⟨_, hv, hl, hr⟩ => by
    rw [rootOf, ← hl.value_eq, ← hr.value_eq]; exact hv

/-- `Repr` only looks at `f` on `[0, 2^d)` -/
theorem Repr.congr : ∀ {d : Nat} {n : Node F} {f g : Nat → F}, (∀ j, j < 2 ^ d → f j = g j) →
    Repr H zero ev n d f → Repr H zero ev n d g
  | d, .empty _, f, g, hfg, ⟨hd, ht, hf⟩ => ⟨hd, ht, fun j hj => (hfg j hj).symm.trans (hf j hj)⟩
  | 0, .full _ _ _ _, f, g, hfg, ⟨hd, hv⟩ => ⟨hd, hv.trans (hfg 0 (by simp))⟩
  | d + 1, .full _ _ l r, f, g, hfg, ⟨hd, hv, hl, hr⟩ => by
    have hp : 2 ^ (d + 1) = 2 ^ d + 2 ^ d := by omega
    exact ⟨hd, hv, hl.congr (fun j hj => hfg j (by omega)),
      hr.congr (fun j hj => hfg (j + 2 ^ d) (by omega))⟩

/-- `Repr` implies the intrinsic invariant -/
theorem Repr.wf : ∀ {d : Nat} {n : Node F} {f : Nat → F}, Repr H zero ev n d f → WF H zero ev n
  | d, .empty _, f, ⟨hd, ht, _⟩ => by subst hd; exact ht
  | 0, .full _ _ _ _, f, ⟨hd, _⟩ => fun h => absurd hd h
  | d + 1, .full _ _ l r, f, ⟨hd, hv, hl, hr⟩ => fun _ => by
    subst hd
    exact ⟨by rw [hl.depth_eq], by rw [hr.depth_eq], hv, hl.wf, hr.wf⟩

/-- the structural lookup reads the denoted leaves -/
theorem Repr.leafOf_eq : ∀ {d : Nat} {n : Node F} {f : Nat → F}, Repr H zero ev n d f →
    ∀ j, leafOf zero n j = f (j % 2 ^ d)
  | d, .empty _, f, ⟨_, _, hf⟩, j => by
    rw [leafOf, hf _ (mod_lt_two_pow j d)]
  | 0, .full _ _ _ _, f, ⟨hd, hv⟩, j => by
    subst hd; simp [leafOf, hv, Nat.mod_one]
  | d + 1, .full _ _ l r, f, ⟨hd, _, hl, hr⟩, j => by
    subst hd
    rw [leafOf, if_neg (Nat.succ_ne_zero d), indexIsLeft_succ]
    by_cases h : j % 2 ^ (d + 1) < 2 ^ d
    · simp only [h, decide_true, if_true]
      rw [hl.leafOf_eq j, mod_succ_of_lt h]
    · simp only [h, decide_false, Bool.false_eq_true, if_false]
      rw [hr.leafOf_eq j, mod_succ_of_not_lt h]

/-- converse of `Repr.wf`: a well-formed node represents its own `leafOf` -/
theorem WF.repr : ∀ {n : Node F}, WF H zero ev n → Repr H zero ev n n.depth (leafOf zero n)
  | .empty _, h => ⟨rfl, h, fun _ _ => rfl⟩
  | .full 0 _ _ _, _ => ⟨rfl, by simp [leafOf]⟩
  | .full (d + 1) val l r, h => by
    obtain ⟨hld, hrd, hv, hl, hr⟩ := h (Nat.succ_ne_zero d)
    have hld : l.depth = d := by omega
    have hrd : r.depth = d := by omega
    have hL := hl.repr
    have hR := hr.repr
    rw [hld] at hL; rw [hrd] at hR
    refine ⟨rfl, hv, hL.congr ?_, hR.congr ?_⟩
    · intro j hj
      have hlt : j % 2 ^ (d + 1) < 2 ^ d := by
        rw [Nat.mod_eq_of_lt (by omega : j < 2 ^ (d + 1))]; exact hj
      simp [leafOf, indexIsLeft_succ, hlt]
    · intro j hj
      have hmod : (j + 2 ^ d) % 2 ^ (d + 1) = j + 2 ^ d :=
        Nat.mod_eq_of_lt (by omega : j + 2 ^ d < 2 ^ (d + 1))
      have hge : ¬ (j + 2 ^ d) % 2 ^ (d + 1) < 2 ^ d := by omega
      have : (j + 2 ^ d) % 2 ^ d = j := by
        rw [Nat.add_mod_right, Nat.mod_eq_of_lt hj]
      simp only [leafOf, Nat.succ_ne_zero, if_false, indexIsLeft_succ, hge, decide_false,
        Bool.false_eq_true]
      rw [hR.leafOf_eq (j + 2 ^ d), this]

/-- for well-formed nodes the cached value is the dense root over `leafOf` -/
theorem WF.value_eq {n : Node F} (h : WF H zero ev n) :
    n.value ev zero = rootOf H n.depth (leafOf zero n) := h.repr.value_eq

/-! ### `withValue` -/

theorem withValue_empty_succ (i : Nat) (v x : F) (d : Nat) :
    (Node.empty (d + 1)).withValue H ev zero i v =
      (Node.full (d + 1) x (.empty d) (.empty d)).withValue H ev zero i v := by
  simp only [Node.withValue, emptyWithValue, Nat.succ_ne_zero, if_false]

theorem repr_empty_unfold {d : Nat} {f : Nat → F} (x : F)
    (h : Repr H zero ev (.empty (d + 1)) (d + 1) f)
    (hx : x = H ((Node.empty d : Node F).value ev zero) ((Node.empty d : Node F).value ev zero)) :
    Repr H zero ev (.full (d + 1) x (.empty d) (.empty d)) (d + 1) f := by
  obtain ⟨_, ht, hf⟩ := h
  have hp : 2 ^ (d + 1) = 2 ^ d + 2 ^ d := by omega
  exact ⟨rfl, hx, repr_empty (ht.mono (by omega)) (fun j hj => hf j (by omega)),
    repr_empty (ht.mono (by omega)) (fun j hj => hf (j + 2 ^ d) (by omega))⟩

variable [Inhabited F]

/-- `withValue index val` is `setLeaf` at `index mod 2^d` on the denoted leaves -/
theorem Repr.withValue (i : Nat) (v : F) {d : Nat} : ∀ {n : Node F} {f : Nat → F},
    Repr H zero ev n d f →
    Repr H zero ev (n.withValue H ev zero i v) d (setLeaf f (i % 2 ^ d) v) := by
  induction d with
  | zero =>
    intro n f h
    cases n with
    | empty dep =>
      obtain rfl : dep = 0 := h.1
      simp [Node.withValue, emptyWithValue, Repr, setLeaf, Nat.mod_one]
    | full dep val l r =>
      obtain rfl : dep = 0 := h.1
      simp [Node.withValue, Repr, setLeaf, Nat.mod_one]
  | succ d ih =>
    have hfull : ∀ {dep : Nat} {val : F} {l r : Node F} {f : Nat → F},
        Repr H zero ev (.full dep val l r) (d + 1) f →
        Repr H zero ev ((Node.full dep val l r).withValue H ev zero i v) (d + 1)
          (setLeaf f (i % 2 ^ (d + 1)) v) := by
      rintro dep val l r f ⟨hd, hv, hl, hr⟩
      subst hd
      have hlt := mod_lt_two_pow i d
      rw [Node.withValue, if_neg (Nat.succ_ne_zero d), indexIsLeft_succ]
      by_cases h : i % 2 ^ (d + 1) < 2 ^ d
      · simp only [h, decide_true, if_true, initHash]
        refine ⟨rfl, rfl, ?_, hr.congr ?_⟩
        · rw [mod_succ_of_lt h]; exact ih hl
        · intro j _
          have : j + 2 ^ d ≠ i % 2 ^ (d + 1) := by omega
          simp [setLeaf, this]
      · simp only [h, decide_false, Bool.false_eq_true, if_false, initHash]
        refine ⟨rfl, rfl, hl.congr ?_, ?_⟩
        · intro j hj
          have : j ≠ i % 2 ^ (d + 1) := by omega
          simp [setLeaf, this]
        · have hfun : (fun j => setLeaf f (i % 2 ^ (d + 1)) v (j + 2 ^ d)) =
              setLeaf (fun j => f (j + 2 ^ d)) (i % 2 ^ d) v := by
            funext j; simp [setLeaf, mod_succ_of_not_lt h]
          rw [hfun]; exact ih hr
    intro n f h
    cases n with
    | empty dep =>
      obtain rfl : dep = d + 1 := h.1
      rw [withValue_empty_succ i v _ d]
      exact hfull (repr_empty_unfold _ h rfl)
    | full dep val l r => exact hfull h

/-! ### `writeProof` -/

omit [Inhabited F] in
theorem drop_set_self : ∀ (out : List F) (k : Nat) (x : F), k < out.length →
    (out.set k x).drop k = x :: out.drop (k + 1)
  | [], _, _, h => by simp at h
  | _ :: _, 0, _, _ => by simp
  | _ :: out, k + 1, x, h => by
    simpa using drop_set_self out k x (by simpa using h)

omit [Inhabited F] in
/-- the empty node's loop `for i < dep { out[i] = emptyTreeValues[i] }` -/
theorem writeLoop_eq (g : Nat → F) : ∀ (dep : Nat) (out : List F), dep ≤ out.length →
    (List.range dep).foldl (fun out i => out.set i (g i)) out =
      (List.range dep).map g ++ out.drop dep
  | 0, out, _ => by simp
  | dep + 1, out, h => by
    rw [List.range_succ, List.foldl_append, writeLoop_eq g dep out (by omega)]
    simp only [List.foldl_cons, List.foldl_nil, List.map_append, List.map_cons, List.map_nil]
    have hlen : ((List.range dep).map g).length = dep := by simp
    rw [List.set_append, if_neg (by omega), hlen, Nat.sub_self]
    have hd : dep < out.length := by omega
    rw [List.drop_eq_getElem_cons hd]
    simp only [List.set_cons_zero, List.append_assoc, List.cons_append, List.nil_append]

omit [Inhabited F] in
/-- `writeProof` overwrites `out[0..d)` with the genuine sibling path of leaf `i`
(leaf level first) and leaves the rest of `out` alone -/
theorem Repr.writeProof_eq (i : Nat) {d : Nat} : ∀ {n : Node F} {f : Nat → F} (out : List F),
    Repr H zero ev n d f → d ≤ out.length →
    n.writeProof ev zero i out = pathOf H d f i ++ out.drop d := by
  have hempty : ∀ {d : Nat} {dep : Nat} {f : Nat → F} (out : List F),
      Repr H zero ev (.empty dep) d f → d ≤ out.length →
      (Node.empty dep : Node F).writeProof ev zero i out = pathOf H d f i ++ out.drop d := by
    rintro d dep f out ⟨hd, ht, hf⟩ hlen
    subst hd
    rw [Node.writeProof, writeLoop_eq _ _ _ hlen, pathOf_zero H zero _ f i hf]
    congr 1
    apply List.map_congr_left
    intro k hk
    exact ht.getD (by have := List.mem_range.1 hk; omega)
  induction d with
  | zero =>
    intro n f out h _
    cases n with
    | empty dep => exact hempty out h (Nat.zero_le _)
    | full dep val l r =>
      obtain rfl : dep = 0 := h.1
      simp [Node.writeProof, pathOf]
  | succ d ih =>
    intro n f out h hlen
    cases n with
    | empty dep => exact hempty out h hlen
    | full dep val l r =>
      obtain ⟨hd, _, hl, hr⟩ := h
      subst hd
      rw [Node.writeProof, if_neg (Nat.succ_ne_zero d), indexIsLeft_succ, Nat.add_sub_cancel]
      simp only [pathOf]
      by_cases h : i % 2 ^ (d + 1) < 2 ^ d
      · simp only [h, decide_true, if_true]
        rw [ih _ hl (by simp; omega), drop_set_self _ _ _ (by omega), hr.value_eq]
        simp
      · simp only [h, decide_false, Bool.false_eq_true, if_false]
        rw [ih _ hr (by simp; omega), drop_set_self _ _ _ (by omega), hl.value_eq]
        simp

end ReprSec

/-! ## 4. `NewTree`, histories, reachable trees -/

section Reach

variable (H : F → F → F) (zero : F)

/-- the `NewTree` loop after `k ≤ depth` iterations -/
theorem initHashes_loop (depth : Nat) : ∀ k, k ≤ depth →
    ((List.range' 1 k).foldl (initHashesStep H zero) (List.replicate (depth + 1) zero)).length
        = depth + 1 ∧
    ∀ m, m ≤ k →
      ((List.range' 1 k).foldl (initHashesStep H zero) (List.replicate (depth + 1) zero))[m]?
        = some (zeroRoot H zero m)
  | 0, _ => by
    refine ⟨by simp, fun m hm => ?_⟩
    obtain rfl : m = 0 := by omega
    simp [rootOf]
  | k + 1, hk => by
    obtain ⟨hlen, hget⟩ := initHashes_loop depth k (by omega)
    rw [List.range'_concat, List.foldl_append]
    simp only [Nat.one_mul, List.foldl_cons, List.foldl_nil, initHashesStep, Nat.add_sub_cancel_left]
    rw [Nat.add_comm 1 k]
    refine ⟨by simp [hlen], fun m hm => ?_⟩
    rw [List.getElem?_set]
    by_cases hmk : k + 1 = m
    · subst hmk
      rw [if_pos rfl, if_pos (by omega)]
      simp [List.getD_eq_getElem?_getD, hget k (Nat.le_refl k), rootOf]
    · rw [if_neg hmk]; exact hget m (by omega)

theorem initHashes_length (depth : Nat) : (initHashes H zero depth).length = depth + 1 :=
  (initHashes_loop H zero depth depth (Nat.le_refl _)).1

/-- `NewTree` fills `emptyTreeValues[k]` with the root of the all-zero tree of depth `k` -/
theorem initHashes_tableOK (depth : Nat) : TableOK H zero (initHashes H zero depth) depth :=
  (initHashes_loop H zero depth depth (Nat.le_refl _)).2

/-- a tree (root + shared table) of depth `d` denoting leaves `f` -/
def ReprT (t : Tree F) (d : Nat) (f : Nat → F) : Prop :=
  t.emptyTreeValues.length = d + 1 ∧ Repr H zero t.emptyTreeValues t.root d f

theorem newTree_reprT (d : Nat) : ReprT H zero (newTree H zero d) d (fun _ => zero) :=
  ⟨initHashes_length H zero d, repr_empty (initHashes_tableOK H zero d) (fun _ _ => rfl)⟩

/-- run a history of `Update(index, value)` calls, discarding the returned proofs -/
def Tree.run (t : Tree F) (hist : List (Nat × F)) : Tree F :=
  hist.foldl (fun t p => (t.update H zero p.1 p.2).1) t

theorem Tree.run_append (t : Tree F) (h₁ h₂ : List (Nat × F)) :
    t.run H zero (h₁ ++ h₂) = (t.run H zero h₁).run H zero h₂ := by
  simp [Tree.run, List.foldl_append]

theorem Tree.run_snoc (t : Tree F) (hist : List (Nat × F)) (i : Nat) (v : F) :
    t.run H zero (hist ++ [(i, v)]) = ((t.run H zero hist).update H zero i v).1 := by
  simp [Tree.run, List.foldl_append]

/-- `Update` never touches the shared `emptyTreeValues` table -/
theorem Tree.run_emptyTreeValues : ∀ (hist : List (Nat × F)) (t : Tree F),
    (t.run H zero hist).emptyTreeValues = t.emptyTreeValues
  | [], _ => rfl
  | p :: hist, t => by
    show (Tree.run H zero (t.update H zero p.1 p.2).1 hist).emptyTreeValues = _
    rw [Tree.run_emptyTreeValues hist]; rfl

variable [Inhabited F]

/-- the abstract leaf assignment after a history, started from `f` -/
def leavesFrom (d : Nat) (f : Nat → F) (hist : List (Nat × F)) : Nat → F :=
  hist.foldl (fun f p => setLeaf f (p.1 % 2 ^ d) p.2) f

/-- the abstract leaf assignment after a history, started from the all-`zero` assignment -/
def leavesAfter (d : Nat) (hist : List (Nat × F)) : Nat → F :=
  leavesFrom d (fun _ => zero) hist

theorem leavesAfter_snoc (d : Nat) (hist : List (Nat × F)) (i : Nat) (v : F) :
    leavesAfter zero d (hist ++ [(i, v)]) = setLeaf (leavesAfter zero d hist) (i % 2 ^ d) v := by
  simp [leavesAfter, leavesFrom, List.foldl_append]

variable {H zero}

theorem ReprT.update {t : Tree F} {d : Nat} {f : Nat → F} (h : ReprT H zero t d f)
    (i : Nat) (v : F) :
    ReprT H zero (t.update H zero i v).1 d (setLeaf f (i % 2 ^ d) v) :=
  ⟨h.1, h.2.withValue i v⟩

theorem ReprT.update_proof {t : Tree F} {d : Nat} {f : Nat → F} (h : ReprT H zero t d f)
    (i : Nat) (v : F) :
    (t.update H zero i v).2 = pathOf H d f i := by
  have hr := h.2.withValue i v
  show Node.writeProof _ _ _ _ _ = _
  rw [hr.depth_eq, hr.writeProof_eq i _ (by simp), pathOf_setLeaf]
  simp

theorem ReprT.run {d : Nat} : ∀ (hist : List (Nat × F)) {t : Tree F} {f : Nat → F},
    ReprT H zero t d f → ReprT H zero (t.run H zero hist) d (leavesFrom d f hist)
  | [], _, _, h => h
  | (i, v) :: hist, _, _, h => ReprT.run hist (h.update i v)

theorem reachable_reprT (d : Nat) (hist : List (Nat × F)) :
    ReprT H zero ((newTree H zero d).run H zero hist) d (leavesAfter zero d hist) :=
  ReprT.run hist (newTree_reprT H zero d)

omit [Inhabited F] in
theorem ReprT.rootValue_eq {t : Tree F} {d : Nat} {f : Nat → F} (h : ReprT H zero t d f) :
    t.rootValue zero = rootOf H d f := h.2.value_eq

end Reach

end Smtb.Tree
