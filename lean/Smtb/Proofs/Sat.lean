import Smtb.Circuit.Api
import Mathlib.Data.ZMod.Basic
import Mathlib.Algebra.Field.ZMod
import Mathlib.Tactic.Ring
import Mathlib.Tactic.LinearCombination
/-!
# Satisfiability interpretation of the gnark API over `ZMod p`

`SatM p α := (α → Prop) → Prop`: "there are values for the wires this computation creates such
that every constraint it emits holds and the continuation holds of its result".  Gates whose
R1CS encoding introduces prover-chosen hint wires (`IsZero`: `hint.InvZero`; `ToBinary`:
`bits.NBits`) quantify existentially over them, mirroring gnark v0.8.0
(`frontend/cs/r1cs/api.go`, `std/math/bits/conversion_binary.go`).
-/
namespace Smtb

def SatM (_p : ℕ) (α : Type) : Type := (α → Prop) → Prop

namespace SatM
variable {p : ℕ}

instance : Monad (SatM p) where
  pure a := fun k => k a
  bind x f := fun k => x (fun a => f a k)

@[simp] theorem pure_apply {α} (a : α) (k : α → Prop) : (pure a : SatM p α) k ↔ k a := Iff.rfl
@[simp] theorem bind_apply {α β} (x : SatM p α) (f : α → SatM p β) (k : β → Prop) :
    (x >>= f) k ↔ x (fun a => f a k) := Iff.rfl

/-- continuations only matter up to logical equivalence, for computations built from the API -/
def Mono {α} (x : SatM p α) : Prop := ∀ k k' : α → Prop, (∀ a, k a → k' a) → x k → x k'

end SatM

variable {p : ℕ}

/-- `a * (1 - a) = 0`, the constraint emitted by `AssertIsBoolean` -/
def isBool (a : ZMod p) : Prop := a * (1 - a) = 0

/-- `Σ bᵢ 2ⁱ` in the field: what `ToBinary` / `FromBinary` constrain -/
def recompose : List (ZMod p) → ZMod p
  | [] => 0
  | b :: bs => b + 2 * recompose bs

instance satApi : CircuitApi (SatM p) (ZMod p) where
  const n := (n : ZMod p)
  add a b := fun k => k (a + b)
  sub a b := fun k => k (a - b)
  mul a b := fun k => k (a * b)
  select c a b := fun k => isBool c ∧ k (b + c * (a - b))
  isZero a := fun k => ∃ x m : ZMod p, m = 1 - a * x ∧ a * m = 0 ∧ k m
  or_ a b := fun k => isBool a ∧ isBool b ∧ k (a + b - a * b)
  xor_ a b := fun k => isBool a ∧ isBool b ∧ k (a + b - 2 * a * b)
  and_ a b := fun k => isBool a ∧ isBool b ∧ k (a * b)
  toBinary v n := fun k => ∃ bits : List (ZMod p),
    bits.length = n ∧ (∀ b ∈ bits, isBool b) ∧ recompose bits = v ∧ k bits
  fromBinary bs := fun k => (∀ b ∈ bs, isBool b) ∧ k (recompose bs)
  assertBool a := fun k => isBool a ∧ k ()
  assertEq a b := fun k => a = b ∧ k ()
  opaque1 _ _ _ body := body
  opaqueN _ _ _ _ body := body

namespace Sat
open CircuitApi

@[simp] theorem const_eq (n : ℕ) : (const (m := SatM p) n : ZMod p) = (n : ZMod p) := rfl
@[simp] theorem add_iff (a b : ZMod p) (k) : (add a b : SatM p _) k ↔ k (a + b) := Iff.rfl
@[simp] theorem sub_iff (a b : ZMod p) (k) : (sub a b : SatM p _) k ↔ k (a - b) := Iff.rfl
@[simp] theorem mul_iff (a b : ZMod p) (k) : (mul a b : SatM p _) k ↔ k (a * b) := Iff.rfl
@[simp] theorem select_iff (c a b : ZMod p) (k) :
    (select c a b : SatM p _) k ↔ isBool c ∧ k (b + c * (a - b)) := Iff.rfl
@[simp] theorem isZero_def (a : ZMod p) (k) :
    (isZero a : SatM p _) k ↔ ∃ x m : ZMod p, m = 1 - a * x ∧ a * m = 0 ∧ k m := Iff.rfl
@[simp] theorem or_iff (a b : ZMod p) (k) :
    (or_ a b : SatM p _) k ↔ isBool a ∧ isBool b ∧ k (a + b - a * b) := Iff.rfl
@[simp] theorem xor_iff (a b : ZMod p) (k) :
    (xor_ a b : SatM p _) k ↔ isBool a ∧ isBool b ∧ k (a + b - 2 * a * b) := Iff.rfl
@[simp] theorem and_iff (a b : ZMod p) (k) :
    (and_ a b : SatM p _) k ↔ isBool a ∧ isBool b ∧ k (a * b) := Iff.rfl
@[simp] theorem toBinary_def (v : ZMod p) (n : ℕ) (k) :
    (toBinary v n : SatM p _) k ↔ ∃ bits : List (ZMod p),
      bits.length = n ∧ (∀ b ∈ bits, isBool b) ∧ recompose bits = v ∧ k bits := Iff.rfl
@[simp] theorem fromBinary_iff (bs : List (ZMod p)) (k) :
    (fromBinary bs : SatM p _) k ↔ (∀ b ∈ bs, isBool b) ∧ k (recompose bs) := Iff.rfl
@[simp] theorem assertBool_iff (a : ZMod p) (k) :
    (assertBool a : SatM p _) k ↔ isBool a ∧ k () := Iff.rfl
@[simp] theorem assertEq_iff (a b : ZMod p) (k) :
    (assertEq a b : SatM p _) k ↔ a = b ∧ k () := Iff.rfl
@[simp] theorem opaque1_iff (n ps as) (body : SatM p (ZMod p)) (k) :
    (opaque1 n ps as body : SatM p _) k ↔ body k := Iff.rfl
@[simp] theorem opaqueN_iff (n ps as c) (body : SatM p (List (ZMod p))) (k) :
    (opaqueN n ps as c body : SatM p _) k ↔ body k := Iff.rfl

/-- Bool → field -/
def embed (b : Bool) : ZMod p := if b then 1 else 0

@[simp] theorem embed_true : (embed true : ZMod p) = 1 := rfl
@[simp] theorem embed_false : (embed false : ZMod p) = 0 := rfl

@[simp] theorem isBool_embed (b : Bool) : isBool (embed b : ZMod p) := by
  cases b <;> simp [embed, isBool]

theorem isBool_zero : isBool (0 : ZMod p) := by simp [isBool]
theorem isBool_one : isBool (1 : ZMod p) := by simp [isBool]

section prime
variable [hp : Fact p.Prime]

theorem isBool_iff (a : ZMod p) : isBool a ↔ a = 0 ∨ a = 1 := by
  unfold isBool
  rw [mul_eq_zero, sub_eq_zero]
  constructor
  · rintro (h | h); exact Or.inl h; exact Or.inr h.symm
  · rintro (h | h); exact Or.inl h; exact Or.inr h.symm

theorem isBool_iff_embed (a : ZMod p) : isBool a ↔ ∃ b : Bool, a = embed b := by
  rw [isBool_iff]
  constructor
  · rintro (h | h)
    · exact ⟨false, h⟩
    · exact ⟨true, h⟩
  · rintro ⟨b, rfl⟩
    cases b <;> simp

theorem embed_injective : Function.Injective (embed : Bool → ZMod p) := by
  intro a b h
  cases a <;> cases b <;> simp [embed] at h ⊢

@[simp] theorem embed_eq_one (b : Bool) : (embed b : ZMod p) = 1 ↔ b = true := by
  cases b <;> simp [embed]
@[simp] theorem embed_eq_zero (b : Bool) : (embed b : ZMod p) = 0 ↔ b = false := by
  cases b <;> simp [embed]

/-- every list of boolean field elements is the embedding of a list of `Bool`s -/
theorem all_isBool_iff (l : List (ZMod p)) : (∀ b ∈ l, isBool b) ↔ ∃ bs : List Bool, l = bs.map embed := by
  induction l with
  | nil => simp
  | cons a l ih =>
    rw [List.forall_mem_cons, ih, isBool_iff_embed]
    constructor
    · rintro ⟨⟨b, rfl⟩, bs, rfl⟩; exact ⟨b :: bs, rfl⟩
    · rintro ⟨bs, h⟩
      cases bs with
      | nil => simp at h
      | cons b bs => simp only [List.map_cons, List.cons.injEq] at h; exact ⟨⟨b, h.1⟩, bs, h.2⟩

/-- `IsZero` is a function of its input whatever the prover puts into the hint wire -/
theorem isZero_iff (a : ZMod p) (k : ZMod p → Prop) :
    (isZero a : SatM p _) k ↔ k (if a = 0 then 1 else 0) := by
  rw [isZero_def]
  constructor
  · rintro ⟨x, m, hm, ham, hk⟩
    by_cases ha : a = 0
    · subst ha; simp at hm; subst hm; simpa using hk
    · simp only [ha, if_false]
      rcases mul_eq_zero.mp ham with h | h
      · exact absurd h ha
      · rwa [h] at hk
  · intro hk
    by_cases ha : a = 0
    · subst ha; exact ⟨0, 1, by simp, by simp, by simpa using hk⟩
    · simp only [ha, if_false] at hk
      exact ⟨a⁻¹, 0, by rw [mul_inv_cancel₀ ha, sub_self], by simp, hk⟩

end prime

/-- value of a little-endian bit list -/
def natOfBits : List Bool → ℕ
  | [] => 0
  | b :: bs => (if b then 1 else 0) + 2 * natOfBits bs

theorem natOfBits_lt (bs : List Bool) : natOfBits bs < 2 ^ bs.length := by
  induction bs with
  | nil => simp [natOfBits]
  | cons b bs ih => cases b <;> simp [natOfBits, pow_succ] <;> omega

theorem recompose_embed (bs : List Bool) : recompose (bs.map (embed (p := p))) = (natOfBits bs : ZMod p) := by
  induction bs with
  | nil => simp [recompose, natOfBits]
  | cons b bs ih => cases b <;> simp [recompose, natOfBits, ih, embed]

end Sat
end Smtb
