import Smtb.Model.Codec.Hex
import Smtb.Model.Codec.Json
import Mathlib.Tactic.Ring
import Mathlib.Tactic.Linarith

/-! # Proofs for the parameter-JSON codec model (property C16) -/

namespace Smtb.Codec

/-! ## Hex digits -/

theorem digitVal_hexDigit : ∀ d, d < 16 → digitVal (hexDigit d) = some d := by decide

theorem hexDigit_ne_underscore : ∀ d, d < 16 → hexDigit d ≠ '_' := by decide

theorem scanStep_hexDigit (b : Nat) (hb : b ≤ 16) (d : Nat) (hd : d < b) (st : ScanSt) :
    scanStep b st (hexDigit d) =
      some { acc := st.acc * b + d, count := st.count + 1, prev := Prev.digit,
             invalSep := st.invalSep } := by
  have hd16 : d < 16 := by omega
  unfold scanStep
  rw [if_neg (hexDigit_ne_underscore d hd16), digitVal_hexDigit d hd16]
  simp [hd]

theorem scanDigits_append (b : Nat) (l1 l2 : List Char) (st : ScanSt) :
    scanDigits b (l1 ++ l2) st =
      match scanDigits b l1 st with
      | some st' => scanDigits b l2 st'
      | none => none := by
  induction l1 generalizing st with
  | nil => simp [scanDigits]
  | cons c cs ih =>
    simp only [List.cons_append, scanDigits]
    cases scanStep b st c with
    | none => rfl
    | some st' => exact ih st'

theorem scanDigits_baseCharsF (b : Nat) (hb2 : 2 ≤ b) (hb : b ≤ 16) :
    ∀ fuel n, n < fuel → ∀ st : ScanSt, ∃ k,
      scanDigits b (baseCharsF b fuel n) st =
        some { acc := st.acc * b ^ (k + 1) + n, count := st.count + (k + 1), prev := Prev.digit,
               invalSep := st.invalSep } := by
  intro fuel
  induction fuel with
  | zero => intro n h; omega
  | succ f ih =>
    intro n hn st
    unfold baseCharsF
    by_cases hlt : n < b
    · rw [if_pos hlt]
      refine ⟨0, ?_⟩
      simp [scanDigits, scanStep_hexDigit b hb n hlt]
    · rw [if_neg hlt]
      have hdiv : n / b < f := by
        have : n / b < n := Nat.div_lt_self (by omega) (by omega)
        omega
      obtain ⟨k, hk⟩ := ih (n / b) hdiv st
      refine ⟨k + 1, ?_⟩
      rw [scanDigits_append, hk]
      have hmod : n % b < b := Nat.mod_lt _ (by omega)
      simp only [scanDigits, scanStep_hexDigit b hb (n % b) hmod]
      congr 1
      have h := Nat.div_add_mod n b
      simp only [ScanSt.mk.injEq, and_true]
      constructor
      · calc (st.acc * b ^ (k + 1) + n / b) * b + n % b
            = st.acc * b ^ (k + 1 + 1) + (b * (n / b) + n % b) := by ring
          _ = st.acc * b ^ (k + 1 + 1) + n := by rw [h]
      · omega

theorem baseCharsF_ne_nil (b : Nat) : ∀ fuel n, n < fuel → baseCharsF b fuel n ≠ [] := by
  intro fuel n h
  cases fuel with
  | zero => omega
  | succ f =>
    unfold baseCharsF
    split <;> simp

/-- Every character of a rendered number is one of the 16 digit characters. -/
theorem mem_baseCharsF (b : Nat) (hb0 : 0 < b) :
    ∀ fuel n, ∀ c ∈ baseCharsF b fuel n, ∃ d, d < b ∧ c = hexDigit d := by
  intro fuel
  induction fuel with
  | zero => intro n c hc; simp [baseCharsF] at hc
  | succ f ih =>
    intro n c hc
    unfold baseCharsF at hc
    by_cases hlt : n < b
    · rw [if_pos hlt] at hc
      simp at hc
      exact ⟨n, hlt, hc⟩
    · rw [if_neg hlt] at hc
      rcases List.mem_append.mp hc with h | h
      · exact ih _ c h
      · simp at h
        exact ⟨n % b, Nat.mod_lt _ (by omega), h⟩

theorem scanNat_hex (n : Nat) : scanNat ('0' :: 'x' :: hexChars n) = some n := by
  obtain ⟨k, hk⟩ := scanDigits_baseCharsF 16 (by omega) (by omega) (n + 1) n (by omega)
    { acc := 0, count := 0, prev := Prev.digit, invalSep := false }
  have h1 : scanFrom 16 Prev.digit false (hexChars n) = some n := by
    unfold scanFrom hexChars baseChars
    rw [hk]
    simp [finishScan]
  simp [scanNat, h1]

theorem fromHexChars_toHexChars (n : Nat) : fromHexChars (toHexChars n) = some (Int.ofNat n) := by
  unfold toHexChars fromHexChars
  simp [scanNat_hex]

/-- `fromHex (toHex n) = n` for every natural number. -/
theorem fromHex_toHex (n : Nat) : fromHex (toHex n) = some (n : Int) := by
  unfold fromHex toHex
  rw [String.toList_ofList]
  exact fromHexChars_toHexChars n

theorem fromHexChars_toHexIntChars_nonneg (i : Int) (h : 0 ≤ i) :
    fromHexChars (toHexIntChars i) = some i := by
  unfold toHexIntChars
  rw [if_neg (by omega), fromHexChars_toHexChars]
  congr 1
  simp
  omega

/-- A negative `big.Int` is printed as `0x-…`, which `fromHex` rejects: negative values do not
round-trip (they are outside the quantifier of C16). -/
theorem fromHexChars_toHexIntChars_neg (i : Int) (h : i < 0) :
    fromHexChars (toHexIntChars i) = none := by
  unfold toHexIntChars
  rw [if_pos h]
  simp [fromHexChars, scanNat, scanFrom, scanDigits, scanStep, digitVal]

/-! ## Rejection of non-numbers -/

/-- A character that cannot occur inside a number: outside `[0-9a-zA-Z_]`. (A sign is such a
character; it is legal only as the very first character.) -/
def NotNumChar (c : Char) : Prop := c ≠ '_' ∧ digitVal c = none

instance (c : Char) : Decidable (NotNumChar c) := by unfold NotNumChar; infer_instance

theorem scanStep_bad (b : Nat) (st : ScanSt) (c : Char) (h : NotNumChar c) :
    scanStep b st c = none := by
  unfold scanStep
  rw [if_neg h.1, h.2]

theorem scanDigits_bad (b : Nat) :
    ∀ (cs : List Char) (st : ScanSt), (∃ c ∈ cs, NotNumChar c) → scanDigits b cs st = none := by
  intro cs
  induction cs with
  | nil => intro st ⟨c, hc, _⟩; simp at hc
  | cons x xs ih =>
    intro st ⟨c, hc, hbad⟩
    unfold scanDigits
    rcases List.mem_cons.mp hc with rfl | hmem
    · rw [scanStep_bad b st c hbad]
    · cases scanStep b st x with
      | none => rfl
      | some st' => exact ih st' ⟨c, hmem, hbad⟩

theorem scanFrom_bad (b : Nat) (pv : Prev) (p0 : Bool) (cs : List Char)
    (h : ∃ c ∈ cs, NotNumChar c) : scanFrom b pv p0 cs = none := by
  unfold scanFrom
  rw [scanDigits_bad b cs _ h]

theorem scanNat_bad (cs : List Char) (h : ∃ c ∈ cs, NotNumChar c) : scanNat cs = none := by
  obtain ⟨bad, hmem, hbad⟩ := h
  cases cs with
  | nil => simp at hmem
  | cons c cs' =>
    simp only [scanNat]
    by_cases hc0 : c = '0'
    · rw [if_pos hc0]
      cases cs' with
      | nil => exact scanFrom_bad _ _ _ _ ⟨bad, hmem, hbad⟩
      | cons p rest =>
        have hne0 : bad ≠ c := by
          rintro rfl; subst hc0; exact absurd hbad.2 (by decide)
        have hmem' : bad ∈ p :: rest := by
          rcases List.mem_cons.mp hmem with h | h
          · exact absurd h hne0
          · exact h
        have hrest : ∀ q : Char, digitVal q ≠ none → p = q → bad ∈ rest := by
          intro q hq hpq
          rcases List.mem_cons.mp hmem' with h | h
          · subst hpq; subst h; exact absurd hbad.2 hq
          · exact h
        simp only []
        split
        · rename_i hp
          refine scanFrom_bad _ _ _ _ ⟨bad, ?_, hbad⟩
          rcases hp with hp | hp
          · exact hrest _ (by decide) hp
          · exact hrest _ (by decide) hp
        · split
          · rename_i hp
            refine scanFrom_bad _ _ _ _ ⟨bad, ?_, hbad⟩
            rcases hp with hp | hp
            · exact hrest _ (by decide) hp
            · exact hrest _ (by decide) hp
          · split
            · rename_i hp
              refine scanFrom_bad _ _ _ _ ⟨bad, ?_, hbad⟩
              rcases hp with hp | hp
              · exact hrest _ (by decide) hp
              · exact hrest _ (by decide) hp
            · exact scanFrom_bad _ _ _ _ ⟨bad, hmem', hbad⟩
    · rw [if_neg hc0]
      exact scanFrom_bad _ _ _ _ ⟨bad, hmem, hbad⟩

/-- A character outside `[0-9a-zA-Z_]` anywhere after the first position makes `fromHex` fail. -/
theorem fromHexChars_bad_tail (c : Char) (cs : List Char) (h : ∃ x ∈ cs, NotNumChar x) :
    fromHexChars (c :: cs) = none := by
  simp only [fromHexChars]
  have h' : ∃ x ∈ c :: cs, NotNumChar x := by
    obtain ⟨x, hx, hb⟩ := h; exact ⟨x, List.mem_cons_of_mem _ hx, hb⟩
  split
  · rw [scanNat_bad cs h]; rfl
  · split
    · rw [scanNat_bad cs h]; rfl
    · rw [scanNat_bad _ h']; rfl

/-- A character outside `[0-9a-zA-Z_+-]` anywhere makes `fromHex` fail. -/
theorem fromHexChars_bad (s : List Char)
    (h : ∃ x ∈ s, NotNumChar x ∧ x ≠ '+' ∧ x ≠ '-') : fromHexChars s = none := by
  obtain ⟨x, hx, hbad, hp, hm⟩ := h
  cases s with
  | nil => rfl
  | cons c cs =>
    rcases List.mem_cons.mp hx with rfl | hmem
    · simp only [fromHexChars]
      rw [if_neg hm, if_neg hp, scanNat_bad _ ⟨x, List.mem_cons_self, hbad⟩]; rfl
    · exact fromHexChars_bad_tail c cs ⟨x, hmem, hbad⟩

/-! ## Scanner lemmas -/

/-- Characters that may appear unescaped inside a JSON string. -/
def isPlain (c : Char) : Bool := decide (c ≠ '"') && decide (c ≠ '\\') && !decide (c.toNat < 0x20)

theorem parseStr_plain : ∀ (s : Chars), (∀ c ∈ s, isPlain c = true) →
    ∀ (fuel : Nat) (acc rest : Chars), s.length < fuel →
      parseStr fuel (s ++ '"' :: rest) acc = .ok (acc.reverse ++ s, rest) := by
  intro s
  induction s with
  | nil =>
    intro _ fuel acc rest hf
    cases fuel with
    | zero => simp at hf
    | succ f => simp [parseStr]
  | cons c cs ih =>
    intro hs fuel acc rest hf
    cases fuel with
    | zero => simp at hf
    | succ f =>
      have hc := hs c List.mem_cons_self
      simp only [isPlain, Bool.and_eq_true, decide_eq_true_eq, Bool.not_eq_true', decide_eq_false_iff_not] at hc
      obtain ⟨⟨h1, h2⟩, h3⟩ := hc
      simp only [List.cons_append, parseStr, if_neg h1, if_neg h2, if_neg h3]
      rw [ih (fun x hx => hs x (List.mem_cons_of_mem _ hx)) f (c :: acc) rest (by simpa using hf)]
      simp

theorem skipWs_cons (c : Char) (r : Chars) (h : isWs c = false) : skipWs (c :: r) = c :: r := by
  simp [skipWs, h]

theorem parseValue_str (s : Chars) (hs : ∀ c ∈ s, isPlain c = true) (fuel d : Nat) (rest : Chars)
    (hf : s.length < fuel) :
    parseValue fuel d ('"' :: (s ++ '"' :: rest)) = .ok (JVal.str s, rest) := by
  cases fuel with
  | zero => simp at hf
  | succ f =>
    simp only [parseValue]
    rw [skipWs_cons _ _ (by decide)]
    simp only [if_true]
    rw [parseStr_plain s hs (f + 1) [] rest hf]
    simp

/-! ## Numbers -/

def isSep (c : Char) : Bool := c = ',' || c = ']' || c = '}'

theorem isSep_cases {c : Char} (h : isSep c = true) : c = ',' ∨ c = ']' ∨ c = '}' := by
  simpa [isSep, or_assoc] using h

theorem decDigit_facts : ∀ d, d < 10 →
    isDigit (hexDigit d) = true ∧ isWs (hexDigit d) = false ∧ hexDigit d ≠ '"' ∧
    hexDigit d ≠ '[' ∧ hexDigit d ≠ '{' ∧ hexDigit d ≠ 't' ∧ hexDigit d ≠ 'f' ∧
    hexDigit d ≠ 'n' ∧ hexDigit d ≠ '-' ∧ hexDigit d ≠ ']' ∧ (hexDigit d).toNat - 48 = d ∧
    (hexDigit d = '0' → d = 0) := by decide

theorem mem_decChars (n : Nat) : ∀ c ∈ decChars n, ∃ d, d < 10 ∧ c = hexDigit d :=
  mem_baseCharsF 10 (by omega) (n + 1) n

theorem decChars_all_digit (n : Nat) : ∀ c ∈ decChars n, isDigit c = true := by
  intro c hc
  obtain ⟨d, hd, rfl⟩ := mem_decChars n c hc
  exact (decDigit_facts d hd).1

theorem baseCharsF_head_pos : ∀ fuel n, 0 < n → n < fuel →
    ∃ d ds, baseCharsF 10 fuel n = hexDigit d :: ds ∧ 0 < d ∧ d < 10 := by
  intro fuel
  induction fuel with
  | zero => intro n _ h; omega
  | succ f ih =>
    intro n hpos hn
    unfold baseCharsF
    by_cases hlt : n < 10
    · rw [if_pos hlt]; exact ⟨n, [], rfl, hpos, hlt⟩
    · rw [if_neg hlt]
      obtain ⟨d, ds, hd, h0, h10⟩ := ih (n / 10) (by omega) (by omega)
      exact ⟨d, ds ++ [hexDigit (n % 10)], by rw [hd]; rfl, h0, h10⟩

/-- `decChars n` is `"0"` or starts with a non-zero digit. -/
theorem decChars_shape (n : Nat) :
    ∃ d ds, decChars n = hexDigit d :: ds ∧ d < 10 ∧ (d = 0 → ds = []) := by
  by_cases h0 : n = 0
  · subst h0; exact ⟨0, [], by decide, by omega, fun _ => rfl⟩
  · obtain ⟨d, ds, hd, hp, h10⟩ := baseCharsF_head_pos (n + 1) n (by omega) (by omega)
    exact ⟨d, ds, hd, h10, fun h => by omega⟩

theorem spanDigits_append : ∀ (ds : Chars) (c : Char) (r : Chars), (∀ x ∈ ds, isDigit x = true) →
    isDigit c = false → spanDigits (ds ++ c :: r) = (ds, c :: r) := by
  intro ds
  induction ds with
  | nil => intro c r _ hc; simp [spanDigits, hc]
  | cons x xs ih =>
    intro c r hds hc
    have hx := hds x List.mem_cons_self
    simp only [List.cons_append, spanDigits, hx, if_true]
    rw [ih c r (fun y hy => hds y (List.mem_cons_of_mem _ hy)) hc]

theorem sep_facts {c : Char} (h : isSep c = true) :
    isDigit c = false ∧ c ≠ '.' ∧ c ≠ 'e' ∧ c ≠ 'E' := by
  rcases isSep_cases h with rfl | rfl | rfl <;> decide

theorem numTail (lit : Chars) (c : Char) (r : Chars) (h : isSep c = true) :
    numFrac lit (c :: r) = some (lit, c :: r) := by
  obtain ⟨_, h1, h2, h3⟩ := sep_facts h
  simp [numFrac, numExp, h1, h2, h3]

theorem parseNum_decChars (n : Nat) (c : Char) (r : Chars) (h : isSep c = true) :
    parseNum (decChars n ++ c :: r) = some (decChars n, c :: r) := by
  obtain ⟨d, ds, hshape, hd, hz⟩ := decChars_shape n
  have hall := decChars_all_digit n
  rw [hshape] at hall ⊢
  obtain ⟨hdig, _, _, _, _, _, _, _, hneg, _, _, hzero⟩ := decDigit_facts d hd
  simp only [List.cons_append, parseNum, if_neg hneg, numInt]
  by_cases h0 : hexDigit d = '0'
  · rw [if_pos h0]
    have : ds = [] := hz (hzero h0)
    subst this
    simp only [List.nil_append]
    rw [numTail _ c r h, h0]
  · rw [if_neg h0]
    simp only [hdig, if_true]
    rw [spanDigits_append ds c r (fun x hx => hall x (List.mem_cons_of_mem _ hx)) (sep_facts h).1]
    simp only [List.nil_append]
    rw [numTail _ c r h]

theorem parseValue_num (n : Nat) (fuel d : Nat) (c : Char) (r : Chars) (h : isSep c = true)
    (hf : 0 < fuel) :
    parseValue fuel d (decChars n ++ c :: r) = .ok (JVal.num (decChars n), c :: r) := by
  cases fuel with
  | zero => omega
  | succ f =>
    have hnum := parseNum_decChars n c r h
    obtain ⟨d0, ds, hshape, hd, _⟩ := decChars_shape n
    rw [hshape] at hnum ⊢
    obtain ⟨_, hws, h1, h2, h3, h4, h5, h6, _, _, _, _⟩ := decDigit_facts d0 hd
    simp only [List.cons_append] at hnum ⊢
    simp only [parseValue]
    rw [skipWs_cons _ _ hws]
    simp only [if_neg h1, if_neg h2, if_neg h3, if_neg h4, if_neg h5, if_neg h6, hnum]

theorem foldl_baseCharsF : ∀ fuel n, n < fuel → ∃ k, ∀ acc : Nat,
    (baseCharsF 10 fuel n).foldl (fun a c => a * 10 + (c.toNat - 48)) acc = acc * 10 ^ k + n := by
  intro fuel
  induction fuel with
  | zero => intro n h; omega
  | succ f ih =>
    intro n hn
    unfold baseCharsF
    by_cases hlt : n < 10
    · rw [if_pos hlt]
      refine ⟨1, fun acc => ?_⟩
      simp [(decDigit_facts n hlt).2.2.2.2.2.2.2.2.2.2.1]
    · rw [if_neg hlt]
      obtain ⟨k, hk⟩ := ih (n / 10) (by omega)
      refine ⟨k + 1, fun acc => ?_⟩
      rw [List.foldl_append, hk]
      have hm : n % 10 < 10 := Nat.mod_lt _ (by omega)
      simp only [List.foldl_cons, List.foldl_nil, (decDigit_facts (n % 10) hm).2.2.2.2.2.2.2.2.2.2.1]
      have h := Nat.div_add_mod n 10
      calc (acc * 10 ^ k + n / 10) * 10 + n % 10
          = acc * 10 ^ (k + 1) + (10 * (n / 10) + n % 10) := by ring
        _ = acc * 10 ^ (k + 1) + n := by rw [h]

theorem decChars_ne_nil (n : Nat) : decChars n ≠ [] := baseCharsF_ne_nil 10 (n + 1) n (by omega)

theorem parseU32_decChars (n : Nat) :
    parseU32 (decChars n) = if n < 2 ^ 32 then some n else none := by
  obtain ⟨k, hk⟩ := foldl_baseCharsF (n + 1) n (by omega)
  have hall : (decChars n).all isDigit = true := by
    rw [List.all_eq_true]; exact decChars_all_digit n
  have hne : (decChars n).isEmpty = false := by
    cases h : decChars n with
    | nil => exact absurd h (decChars_ne_nil n)
    | cons _ _ => rfl
  unfold parseU32
  rw [hall, hne]
  have : (decChars n).foldl (fun a c => a * 10 + (c.toNat - 48)) 0 = n := by
    unfold decChars baseChars; rw [hk]; simp
  simp [this]

/-! ## Arrays and objects -/

/-- `e` is the text of a value which the scanner, at nesting depth `d`, turns into `v`
whenever a separator (`,` `]` `}`) follows. -/
def ParsesTo (d : Nat) (e : Chars) (v : JVal) : Prop :=
  ∀ fuel c r, e.length < fuel → isSep c = true → parseValue fuel d (e ++ c :: r) = .ok (v, c :: r)

/-- The text starts with a character that is neither whitespace nor `]`. -/
def FirstOk (e : Chars) : Prop := ∃ c r, e = c :: r ∧ isWs c = false ∧ c ≠ ']'

theorem parseElems_join (d : Nat) : ∀ (es : List (Chars × JVal)) (e : Chars × JVal),
    (∀ x ∈ e :: es, ParsesTo d x.1 x.2) → ∀ fuel rest,
    (joinComma ((e :: es).map Prod.fst)).length + 1 < fuel →
    parseElems fuel d (joinComma ((e :: es).map Prod.fst) ++ ']' :: rest) =
      .ok ((e :: es).map Prod.snd, rest) := by
  intro es
  induction es with
  | nil =>
    intro e he fuel rest hf
    cases fuel with
    | zero => omega
    | succ f =>
      simp only [List.map_cons, List.map_nil, joinComma] at hf ⊢
      simp only [parseElems]
      rw [he e List.mem_cons_self f ']' rest (by omega) (by decide)]
      simp only []
      rw [skipWs_cons _ _ (by decide)]
      simp
  | cons e' es ih =>
    intro e he fuel rest hf
    cases fuel with
    | zero => omega
    | succ f =>
      simp only [List.map_cons, joinComma, List.length_append, List.length_cons] at hf
      simp only [List.map_cons, joinComma, List.append_assoc, List.cons_append]
      simp only [parseElems]
      rw [he e List.mem_cons_self f ',' _ (by omega) (by decide)]
      simp only []
      rw [skipWs_cons _ _ (by decide)]
      simp only [if_true]
      have := ih e' (fun x hx => he x (List.mem_cons_of_mem _ hx)) f rest
        (by simp only [List.map_cons]; omega)
      simp only [List.map_cons] at this
      rw [this]

theorem joinComma_first (e : Chars) (es : List Chars) (h : FirstOk e) (tail : Chars) :
    ∃ c r, joinComma (e :: es) ++ tail = c :: r ∧ isWs c = false ∧ c ≠ ']' := by
  obtain ⟨c, r, rfl, h1, h2⟩ := h
  cases es with
  | nil => exact ⟨c, r ++ tail, by simp [joinComma], h1, h2⟩
  | cons y ys => exact ⟨c, r ++ ',' :: joinComma (y :: ys) ++ tail, by simp [joinComma], h1, h2⟩

theorem parseValue_arr (d : Nat) (hd : d < maxNestingDepth) (es : List (Chars × JVal))
    (hes : ∀ x ∈ es, ParsesTo (d + 1) x.1 x.2 ∧ FirstOk x.1) (fuel : Nat) (rest : Chars)
    (hf : (encArr (es.map Prod.fst)).length < fuel) :
    parseValue fuel d (encArr (es.map Prod.fst) ++ rest) = .ok (JVal.arr (es.map Prod.snd), rest) := by
  cases fuel with
  | zero => omega
  | succ f =>
    have hdepth : ¬ maxNestingDepth ≤ d := by omega
    cases es with
    | nil =>
      simp only [List.map_nil, encArr, joinComma, List.nil_append, List.cons_append]
      simp only [parseValue]
      rw [skipWs_cons _ _ (by decide)]
      simp only [if_neg (show ('[' : Char) ≠ '"' by decide), if_true, if_neg hdepth]
      rw [skipWs_cons _ _ (by decide)]
      simp
    | cons e es' =>
      simp only [encArr, List.length_cons, List.length_append, List.length_nil] at hf
      have hpe := parseElems_join (d + 1) es' e (fun x hx => (hes x hx).1) f rest (by omega)
      obtain ⟨c0, r0, hfirst, hws, hne⟩ :=
        joinComma_first e.1 (es'.map Prod.fst) (hes e List.mem_cons_self).2 (']' :: rest)
      simp only [List.map_cons] at hpe hfirst hf ⊢
      simp only [encArr, List.cons_append, List.append_assoc, List.nil_append]
      simp only [parseValue]
      rw [skipWs_cons _ _ (by decide)]
      simp only [if_neg (show ('[' : Char) ≠ '"' by decide), if_true, if_neg hdepth]
      rw [hfirst, skipWs_cons _ _ hws]
      simp only [if_neg hne]
      rw [← hfirst, hpe]

theorem parsesTo_arr (d : Nat) (hd : d < maxNestingDepth) (es : List (Chars × JVal))
    (hes : ∀ x ∈ es, ParsesTo (d + 1) x.1 x.2 ∧ FirstOk x.1) :
    ParsesTo d (encArr (es.map Prod.fst)) (JVal.arr (es.map Prod.snd)) :=
  fun fuel c r hf _ => parseValue_arr d hd es hes fuel (c :: r) hf

theorem firstOk_arr (xs : List Chars) : FirstOk (encArr xs) :=
  ⟨'[', _, rfl, by decide, by decide⟩

theorem parsesTo_str (d : Nat) (s : Chars) (hs : ∀ c ∈ s, isPlain c = true) :
    ParsesTo d (quoteChars s) (JVal.str s) := by
  intro fuel c r hf _
  have := parseValue_str s hs fuel d (c :: r) (by simp [quoteChars] at hf; omega)
  simpa [quoteChars] using this

theorem firstOk_str (s : Chars) : FirstOk (quoteChars s) :=
  ⟨'"', _, rfl, by decide, by decide⟩

theorem parsesTo_num (d n : Nat) : ParsesTo d (decChars n) (JVal.num (decChars n)) :=
  fun fuel c r hf hc => parseValue_num n fuel d c r hc (by omega)

theorem firstOk_num (n : Nat) : FirstOk (decChars n) := by
  obtain ⟨d, ds, hshape, hd, _⟩ := decChars_shape n
  obtain ⟨_, hws, _, _, _, _, _, _, _, hb, _, _⟩ := decDigit_facts d hd
  exact ⟨_, _, hshape, hws, hb⟩

theorem parsesTo_null (d : Nat) : ParsesTo d ['n', 'u', 'l', 'l'] JVal.null := by
  intro fuel c r hf _
  cases fuel with
  | zero => omega
  | succ f =>
    simp only [List.cons_append, List.nil_append, parseValue]
    rw [skipWs_cons _ _ (by decide)]
    simp [matchLit, List.isPrefixOf]

/-- One object member: key text, value text, value. -/
abbrev Member := Chars × Chars × JVal

def Member.enc (m : Member) : Chars × Chars := (m.1, m.2.1)
def Member.val (m : Member) : Chars × JVal := (m.1, m.2.2)

theorem parseMembers_enc (d : Nat) : ∀ (ms : List Member) (m : Member),
    (∀ x ∈ m :: ms, (∀ c ∈ x.1, isPlain c = true) ∧ ParsesTo d x.2.1 x.2.2) → ∀ fuel rest,
    (encMembers ((m :: ms).map Member.enc)).length + 1 < fuel →
    parseMembers fuel d (encMembers ((m :: ms).map Member.enc) ++ rest) =
      .ok ((m :: ms).map Member.val, rest) := by
  intro ms
  induction ms with
  | nil =>
    intro m hm fuel rest hf
    cases fuel with
    | zero => omega
    | succ f =>
      obtain ⟨hk, hv⟩ := hm m List.mem_cons_self
      simp only [List.map_cons, List.map_nil, encMembers, Member.enc, List.length_cons,
        List.length_append, List.length_nil] at hf
      simp only [List.map_cons, List.map_nil, encMembers, Member.enc, Member.val,
        List.cons_append, List.append_assoc, List.nil_append]
      simp only [parseMembers]
      rw [skipWs_cons _ _ (by decide)]
      simp only [if_true]
      rw [parseStr_plain m.1 hk (f + 1) [] _ (by omega)]
      simp only [List.reverse_nil, List.nil_append]
      rw [skipWs_cons _ _ (by decide)]
      simp only [if_true]
      rw [hv f '}' rest (by omega) (by decide)]
      simp only []
      rw [skipWs_cons _ _ (by decide)]
      simp
  | cons m' ms ih =>
    intro m hm fuel rest hf
    cases fuel with
    | zero => omega
    | succ f =>
      obtain ⟨hk, hv⟩ := hm m List.mem_cons_self
      simp only [List.map_cons, encMembers, Member.enc, List.length_cons,
        List.length_append] at hf
      simp only [List.map_cons, encMembers, Member.enc, Member.val,
        List.cons_append, List.append_assoc]
      simp only [parseMembers]
      rw [skipWs_cons _ _ (by decide)]
      simp only [if_true]
      rw [parseStr_plain m.1 hk (f + 1) [] _ (by omega)]
      simp only [List.reverse_nil, List.nil_append]
      rw [skipWs_cons _ _ (by decide)]
      simp only [if_true]
      rw [hv f ',' _ (by omega) (by decide)]
      simp only []
      rw [skipWs_cons _ _ (by decide)]
      simp only [if_true]
      have := ih m' (fun x hx => hm x (List.mem_cons_of_mem _ hx)) f rest
        (by simp only [List.map_cons, Member.enc]; omega)
      simp only [List.map_cons, Member.enc, Member.val] at this
      rw [this]

theorem parseValue_obj (d : Nat) (hd : d < maxNestingDepth) (m : Member) (ms : List Member)
    (hms : ∀ x ∈ m :: ms, (∀ c ∈ x.1, isPlain c = true) ∧ ParsesTo (d + 1) x.2.1 x.2.2)
    (fuel : Nat) (rest : Chars)
    (hf : (encObj ((m :: ms).map Member.enc)).length + 1 < fuel) :
    parseValue fuel d (encObj ((m :: ms).map Member.enc) ++ rest) =
      .ok (JVal.obj ((m :: ms).map Member.val), rest) := by
  cases fuel with
  | zero => omega
  | succ f =>
    have hdepth : ¬ maxNestingDepth ≤ d := by omega
    simp only [encObj, List.length_cons] at hf
    have hpm := parseMembers_enc (d + 1) ms m hms f rest (by omega)
    obtain ⟨r0, hfirst⟩ : ∃ r0, encMembers ((m :: ms).map Member.enc) ++ rest = '"' :: r0 := by
      cases ms with
      | nil => exact ⟨_, by simp only [List.map_cons, List.map_nil, encMembers, List.cons_append]; rfl⟩
      | cons m' ms' => exact ⟨_, by simp only [List.map_cons, encMembers, List.cons_append]; rfl⟩
    simp only [encObj, List.cons_append]
    simp only [parseValue]
    rw [skipWs_cons _ _ (by decide)]
    simp only [if_neg (show ('{' : Char) ≠ '"' by decide), if_neg (show ('{' : Char) ≠ '[' by decide),
      if_true, if_neg hdepth]
    rw [hfirst, skipWs_cons _ _ (by decide)]
    simp only [if_neg (show ('"' : Char) ≠ '}' by decide)]
    rw [← hfirst, hpm]

/-! ## Typed decode of freshly encoded values -/

theorem hexDigit_plain : ∀ d, d < 16 → isPlain (hexDigit d) = true := by decide

theorem hexChars_plain (n : Nat) : ∀ c ∈ hexChars n, isPlain c = true := by
  intro c hc
  obtain ⟨d, hd, rfl⟩ := mem_baseCharsF 16 (by omega) (n + 1) n c hc
  exact hexDigit_plain d hd

theorem toHexIntChars_plain (i : Int) : ∀ c ∈ toHexIntChars i, isPlain c = true := by
  intro c hc
  unfold toHexIntChars toHexChars at hc
  split at hc
  · simp only [List.mem_cons] at hc
    rcases hc with rfl | rfl | rfl | hc
    · decide
    · decide
    · decide
    · exact hexChars_plain _ c hc
  · simp only [List.mem_cons] at hc
    rcases hc with rfl | rfl | hc
    · decide
    · decide
    · exact hexChars_plain _ c hc

def hexJ (i : Int) : JVal := JVal.str (toHexIntChars i)
def hexArrJ (xs : List Int) : JVal := JVal.arr (xs.map hexJ)
def hexArrArrJ (xss : List (List Int)) : JVal := JVal.arr (xss.map hexArrJ)
def numJ (n : Nat) : JVal := JVal.num (decChars n)
def idxJ : Option (List Nat) → JVal
  | none => JVal.null
  | some l => JVal.arr (l.map numJ)

theorem parsesTo_hex (d : Nat) (i : Int) : ParsesTo d (encHexStr i) (hexJ i) :=
  parsesTo_str d _ (toHexIntChars_plain i)

theorem parsesTo_hexArr (d : Nat) (hd : d < maxNestingDepth) (xs : List Int) :
    ParsesTo d (encHexArr xs) (hexArrJ xs) := by
  have := parsesTo_arr d hd (xs.map fun i => (encHexStr i, hexJ i)) (by
    intro x hx
    obtain ⟨i, _, rfl⟩ := List.mem_map.mp hx
    exact ⟨parsesTo_hex (d + 1) i, firstOk_str _⟩)
  simpa [encHexArr, hexArrJ, List.map_map, Function.comp_def] using this

theorem parsesTo_hexArrArr (d : Nat) (hd : d + 1 < maxNestingDepth) (xss : List (List Int)) :
    ParsesTo d (encHexArrArr xss) (hexArrArrJ xss) := by
  have := parsesTo_arr d (by omega) (xss.map fun r => (encHexArr r, hexArrJ r)) (by
    intro x hx
    obtain ⟨r, _, rfl⟩ := List.mem_map.mp hx
    exact ⟨parsesTo_hexArr (d + 1) hd r, firstOk_arr _⟩)
  simpa [encHexArrArr, hexArrArrJ, List.map_map, Function.comp_def] using this

theorem parsesTo_idx (d : Nat) (hd : d < maxNestingDepth) (o : Option (List Nat)) :
    ParsesTo d (encIdxArr o) (idxJ o) := by
  cases o with
  | none => exact parsesTo_null d
  | some l =>
    have := parsesTo_arr d hd (l.map fun n => (decChars n, numJ n)) (by
      intro x hx
      obtain ⟨n, _, rfl⟩ := List.mem_map.mp hx
      exact ⟨parsesTo_num (d + 1) n, firstOk_num n⟩)
    simpa [encIdxArr, idxJ, List.map_map, Function.comp_def] using this

theorem decElems_fresh {α β : Type} (dec : α → JVal → Option Err → α × Option Err) (zero : α)
    (f : β → JVal) (g : β → α) :
    ∀ (bs : List β) (e : Option Err), (∀ b ∈ bs, ∀ e, dec zero (f b) e = (g b, e)) →
      decElems dec zero [] (bs.map f) e = (bs.map g, [], e) := by
  intro bs
  induction bs with
  | nil => intro e _; rfl
  | cons b bs ih =>
    intro e h
    simp only [List.map_cons, decElems, List.tail_nil]
    rw [h b List.mem_cons_self e]
    simp only []
    rw [ih e (fun x hx => h x (List.mem_cons_of_mem _ hx))]

theorem decSlice_fresh {α β : Type} (dec : α → JVal → Option Err → α × Option Err) (zero : α)
    (f : β → JVal) (g : β → α) (bs : List β) (e : Option Err)
    (h : ∀ b ∈ bs, ∀ e, dec zero (f b) e = (g b, e)) :
    decSlice dec zero {} (JVal.arr (bs.map f)) e =
      ({ isNil := false, vis := bs.map g, stale := [] }, e) := by
  cases bs with
  | nil => rfl
  | cons b bs =>
    have := decElems_fresh dec zero f g (b :: bs) e h
    simp only [List.map_cons] at this ⊢
    simp only [decSlice, List.append_nil, this]

theorem decStrSlice_fresh (xs : List Int) (e : Option Err) :
    decStrSlice {} (hexArrJ xs) e =
      ({ isNil := false, vis := xs.map toHexIntChars, stale := [] }, e) :=
  decSlice_fresh decString [] hexJ toHexIntChars xs e (fun _ _ _ => rfl)

theorem decStrSliceSlice_fresh (xss : List (List Int)) (e : Option Err) :
    decStrSliceSlice {} (hexArrArrJ xss) e =
      ({ isNil := false,
         vis := xss.map fun r => { isNil := false, vis := r.map toHexIntChars, stale := [] },
         stale := [] }, e) :=
  decSlice_fresh decStrSlice {} hexArrJ _ xss e (fun r _ e => decStrSlice_fresh r e)

theorem decU32_numJ (old n : Nat) (e : Option Err) :
    decU32 old (numJ n) e = if n < 2 ^ 32 then (n, e) else (old, saveErr e Err.range) := by
  simp only [decU32, numJ, parseU32_decChars]
  by_cases h : n < 2 ^ 32
  · simp only [if_pos h]
  · simp only [if_neg h]

theorem decU32Slice_fresh (l : List Nat) (hl : ∀ i ∈ l, i < 2 ^ 32) (e : Option Err) :
    decU32Slice {} (JVal.arr (l.map numJ)) e = ({ isNil := false, vis := l, stale := [] }, e) := by
  have := decSlice_fresh decU32 0 numJ id l e (fun i hi e => by
    rw [decU32_numJ, if_pos (hl i hi)]; rfl)
  simpa [decU32Slice] using this

/-! ### the `fromHex` stage -/

theorem hexE_toHexIntChars (i : Int) (h : 0 ≤ i) : hexE (toHexIntChars i) = .ok i := by
  unfold hexE; rw [fromHexChars_toHexIntChars_nonneg i h]

theorem hexListE_map (xs : List Int) (h : ∀ x ∈ xs, 0 ≤ x) :
    hexListE (xs.map toHexIntChars) = .ok xs := by
  induction xs with
  | nil => rfl
  | cons x xs ih =>
    simp only [List.map_cons, hexListE]
    rw [hexE_toHexIntChars x (h x List.mem_cons_self),
      ih (fun y hy => h y (List.mem_cons_of_mem _ hy))]

theorem hexListListE_map (xss : List (List Int)) (h : ∀ r ∈ xss, ∀ x ∈ r, 0 ≤ x) :
    hexListListE (xss.map fun r =>
      ({ isNil := false, vis := r.map toHexIntChars, stale := [] } : GoSlice Chars)) = .ok xss := by
  induction xss with
  | nil => rfl
  | cons r rs ih =>
    simp only [List.map_cons, hexListListE]
    rw [hexListE_map r (h r List.mem_cons_self),
      ih (fun y hy => h y (List.mem_cons_of_mem _ hy))]

/-! ### error persistence -/

theorem decString_persist (old : Chars) (v : JVal) (x : Err) :
    (decString old v (some x)).2 = some x := by
  cases v <;> rfl

theorem decU32_persist (old : Nat) (v : JVal) (x : Err) : (decU32 old v (some x)).2 = some x := by
  cases v <;> simp only [decU32, saveErr]
  split <;> rfl

theorem decElems_persist {α : Type} (dec : α → JVal → Option Err → α × Option Err) (zero : α)
    (x : Err) (h : ∀ old v, (dec old v (some x)).2 = some x) :
    ∀ (xs : List JVal) (bk : List α), (decElems dec zero bk xs (some x)).2.2 = some x := by
  intro xs
  induction xs with
  | nil => intro bk; rfl
  | cons v vs ih =>
    intro bk
    simp only [decElems]
    rw [h]
    exact ih _

theorem decSlice_persist {α : Type} (dec : α → JVal → Option Err → α × Option Err) (zero : α)
    (x : Err) (h : ∀ old v, (dec old v (some x)).2 = some x) (old : GoSlice α) (v : JVal) :
    (decSlice dec zero old v (some x)).2 = some x := by
  cases v with
  | arr xs =>
    cases xs with
    | nil => rfl
    | cons y ys =>
      simp only [decSlice]
      exact decElems_persist dec zero x h _ _
  | _ => rfl

theorem decStrSlice_persist (old : GoSlice Chars) (v : JVal) (x : Err) :
    (decStrSlice old v (some x)).2 = some x :=
  decSlice_persist decString [] x (fun o v => decString_persist o v x) old v

theorem decStrSliceSlice_persist (old : GoSlice (GoSlice Chars)) (v : JVal) (x : Err) :
    (decStrSliceSlice old v (some x)).2 = some x :=
  decSlice_persist decStrSlice {} x (fun o v => decStrSlice_persist o v x) old v

theorem decU32Slice_persist (old : GoSlice Nat) (v : JVal) (x : Err) :
    (decU32Slice old v (some x)).2 = some x :=
  decSlice_persist decU32 0 x (fun o v => decU32_persist o v x) old v

/-! ## Assembly: insertion -/

def insMembers (p : InsertionParams) : List Member :=
  [("inputHash".toList, encHexStr p.inputHash, hexJ p.inputHash),
   ("startIndex".toList, decChars p.startIndex, numJ p.startIndex),
   ("preRoot".toList, encHexStr p.preRoot, hexJ p.preRoot),
   ("postRoot".toList, encHexStr p.postRoot, hexJ p.postRoot),
   ("identityCommitments".toList, encHexArr p.idComms, hexArrJ p.idComms),
   ("merkleProofs".toList, encHexArrArr p.merkleProofs, hexArrArrJ p.merkleProofs)]

def delMembers (p : DeletionParams) : List Member :=
  [("inputHash".toList, encHexStr p.inputHash, hexJ p.inputHash),
   ("deletionIndices".toList, encIdxArr p.deletionIndices, idxJ p.deletionIndices),
   ("preRoot".toList, encHexStr p.preRoot, hexJ p.preRoot),
   ("postRoot".toList, encHexStr p.postRoot, hexJ p.postRoot),
   ("identityCommitments".toList, encHexArr p.idComms, hexArrJ p.idComms),
   ("merkleProofs".toList, encHexArrArr p.merkleProofs, hexArrArrJ p.merkleProofs)]

theorem encodeInsertionChars_eq (p : InsertionParams) :
    encodeInsertionChars p = encObj ((insMembers p).map Member.enc) := rfl

theorem encodeDeletionChars_eq (p : DeletionParams) :
    encodeDeletionChars p = encObj ((delMembers p).map Member.enc) := rfl

theorem keys_plain : ∀ k ∈ insNames ++ delNames, ∀ c ∈ k, isPlain c = true := by decide

theorem depth_ok : 1 + 1 < maxNestingDepth := by decide

theorem insMembers_ok (p : InsertionParams) :
    ∀ x ∈ insMembers p, (∀ c ∈ x.1, isPlain c = true) ∧ ParsesTo (0 + 1) x.2.1 x.2.2 := by
  intro x hx
  simp only [insMembers, List.mem_cons, List.not_mem_nil, or_false] at hx
  rcases hx with rfl | rfl | rfl | rfl | rfl | rfl
  · exact ⟨keys_plain "inputHash".toList (by decide), parsesTo_hex _ _⟩
  · exact ⟨keys_plain "startIndex".toList (by decide), parsesTo_num _ _⟩
  · exact ⟨keys_plain "preRoot".toList (by decide), parsesTo_hex _ _⟩
  · exact ⟨keys_plain "postRoot".toList (by decide), parsesTo_hex _ _⟩
  · exact ⟨keys_plain "identityCommitments".toList (by decide), parsesTo_hexArr _ (by decide) _⟩
  · exact ⟨keys_plain "merkleProofs".toList (by decide), parsesTo_hexArrArr _ depth_ok _⟩

theorem delMembers_ok (p : DeletionParams) :
    ∀ x ∈ delMembers p, (∀ c ∈ x.1, isPlain c = true) ∧ ParsesTo (0 + 1) x.2.1 x.2.2 := by
  intro x hx
  simp only [delMembers, List.mem_cons, List.not_mem_nil, or_false] at hx
  rcases hx with rfl | rfl | rfl | rfl | rfl | rfl
  · exact ⟨keys_plain "inputHash".toList (by decide), parsesTo_hex _ _⟩
  · exact ⟨keys_plain "deletionIndices".toList (by decide), parsesTo_idx _ (by decide) _⟩
  · exact ⟨keys_plain "preRoot".toList (by decide), parsesTo_hex _ _⟩
  · exact ⟨keys_plain "postRoot".toList (by decide), parsesTo_hex _ _⟩
  · exact ⟨keys_plain "identityCommitments".toList (by decide), parsesTo_hexArr _ (by decide) _⟩
  · exact ⟨keys_plain "merkleProofs".toList (by decide), parsesTo_hexArrArr _ depth_ok _⟩

theorem parseDoc_obj (m : Member) (ms : List Member)
    (h : ∀ x ∈ m :: ms, (∀ c ∈ x.1, isPlain c = true) ∧ ParsesTo (0 + 1) x.2.1 x.2.2) :
    parseDoc (encObj ((m :: ms).map Member.enc)) = .ok (JVal.obj ((m :: ms).map Member.val)) := by
  have := parseValue_obj 0 (by decide) m ms h (docFuel (encObj ((m :: ms).map Member.enc))) []
    (by unfold docFuel; omega)
  rw [List.append_nil] at this
  unfold parseDoc
  rw [this]
  rfl

theorem parseDoc_encodeInsertion (p : InsertionParams) :
    parseDoc (encodeInsertionChars p) = .ok (JVal.obj ((insMembers p).map Member.val)) :=
  parseDoc_obj _ _ (insMembers_ok p)

theorem parseDoc_encodeDeletion (p : DeletionParams) :
    parseDoc (encodeDeletionChars p) = .ok (JVal.obj ((delMembers p).map Member.val)) :=
  parseDoc_obj _ _ (delMembers_ok p)

theorem insIdx0 : fieldIdx insNames "inputHash".toList = some 0 := by decide
theorem insIdx1 : fieldIdx insNames "startIndex".toList = some 1 := by decide
theorem insIdx2 : fieldIdx insNames "preRoot".toList = some 2 := by decide
theorem insIdx3 : fieldIdx insNames "postRoot".toList = some 3 := by decide
theorem insIdx4 : fieldIdx insNames "identityCommitments".toList = some 4 := by decide
theorem insIdx5 : fieldIdx insNames "merkleProofs".toList = some 5 := by decide
theorem delIdx0 : fieldIdx delNames "inputHash".toList = some 0 := by decide
theorem delIdx1 : fieldIdx delNames "deletionIndices".toList = some 1 := by decide
theorem delIdx2 : fieldIdx delNames "preRoot".toList = some 2 := by decide
theorem delIdx3 : fieldIdx delNames "postRoot".toList = some 3 := by decide
theorem delIdx4 : fieldIdx delNames "identityCommitments".toList = some 4 := by decide
theorem delIdx5 : fieldIdx delNames "merkleProofs".toList = some 5 := by decide

/-- Value-level round trip, part 1: the typed decode of the encoded tree. -/
theorem decInsTop_encoded (p : InsertionParams) (h : p.startIndex < 2 ^ 32) :
    decInsTop (JVal.obj ((insMembers p).map Member.val)) =
      ({ inputHash := toHexIntChars p.inputHash, startIndex := p.startIndex,
         preRoot := toHexIntChars p.preRoot, postRoot := toHexIntChars p.postRoot,
         idComms := { isNil := false, vis := p.idComms.map toHexIntChars, stale := [] },
         merkleProofs :=
           { isNil := false,
             vis := p.merkleProofs.map fun r =>
               { isNil := false, vis := r.map toHexIntChars, stale := [] },
             stale := [] } }, none) := by
  simp only [decInsTop, decTop, insMembers, List.map_cons, List.map_nil, Member.val, decMembers,
    insIdx0, insIdx1, insIdx2, insIdx3, insIdx4, insIdx5, decInsField, decString, hexJ,
    decU32_numJ, if_pos h, decStrSlice_fresh, decStrSliceSlice_fresh]

theorem finishIns_encoded (p : InsertionParams) (hp : p.NonNeg) :
    finishIns
      { inputHash := toHexIntChars p.inputHash, startIndex := p.startIndex,
        preRoot := toHexIntChars p.preRoot, postRoot := toHexIntChars p.postRoot,
        idComms := { isNil := false, vis := p.idComms.map toHexIntChars, stale := [] },
        merkleProofs :=
          { isNil := false,
            vis := p.merkleProofs.map fun r =>
              { isNil := false, vis := r.map toHexIntChars, stale := [] },
            stale := [] } } = .ok p := by
  obtain ⟨h1, h2, h3, h4, h5⟩ := hp
  simp only [finishIns, hexE_toHexIntChars _ h1, hexE_toHexIntChars _ h2, hexE_toHexIntChars _ h3,
    hexListE_map _ h4, hexListListE_map _ h5]

/-- Text-level round trip on character lists. -/
theorem decodeInsertionChars_encodeInsertionChars (p : InsertionParams) (hp : p.NonNeg)
    (h : p.startIndex < 2 ^ 32) :
    decodeInsertionChars (encodeInsertionChars p) = .ok p := by
  unfold decodeInsertionChars
  rw [parseDoc_encodeInsertion]
  simp only [decInsTop_encoded p h]
  exact finishIns_encoded p hp

/-! ## Assembly: deletion -/

theorem decU32Slice_idx (o : Option (List Nat)) (ho : ∀ l, o = some l → ∀ i ∈ l, i < 2 ^ 32)
    (e : Option Err) :
    decU32Slice {} (idxJ o) e =
      ({ isNil := o.isNone, vis := o.getD [], stale := [] }, e) := by
  cases o with
  | none => rfl
  | some l => exact decU32Slice_fresh l (ho l rfl) e

theorem decDelTop_encoded (p : DeletionParams)
    (h : ∀ l, p.deletionIndices = some l → ∀ i ∈ l, i < 2 ^ 32) :
    decDelTop (JVal.obj ((delMembers p).map Member.val)) =
      ({ inputHash := toHexIntChars p.inputHash,
         deletionIndices :=
           { isNil := p.deletionIndices.isNone, vis := p.deletionIndices.getD [], stale := [] },
         preRoot := toHexIntChars p.preRoot, postRoot := toHexIntChars p.postRoot,
         idComms := { isNil := false, vis := p.idComms.map toHexIntChars, stale := [] },
         merkleProofs :=
           { isNil := false,
             vis := p.merkleProofs.map fun r =>
               { isNil := false, vis := r.map toHexIntChars, stale := [] },
             stale := [] } }, none) := by
  simp only [decDelTop, decTop, delMembers, List.map_cons, List.map_nil, Member.val, decMembers,
    delIdx0, delIdx1, delIdx2, delIdx3, delIdx4, delIdx5, decDelField, decString, hexJ,
    decU32Slice_idx _ h, decStrSlice_fresh, decStrSliceSlice_fresh]

theorem sliceToOption_idx (o : Option (List Nat)) :
    sliceToOption ({ isNil := o.isNone, vis := o.getD [], stale := [] } : GoSlice Nat) = o := by
  cases o <;> rfl

theorem finishDel_encoded (p : DeletionParams) (hp : p.NonNeg) :
    finishDel
      { inputHash := toHexIntChars p.inputHash,
        deletionIndices :=
          { isNil := p.deletionIndices.isNone, vis := p.deletionIndices.getD [], stale := [] },
        preRoot := toHexIntChars p.preRoot, postRoot := toHexIntChars p.postRoot,
        idComms := { isNil := false, vis := p.idComms.map toHexIntChars, stale := [] },
        merkleProofs :=
          { isNil := false,
            vis := p.merkleProofs.map fun r =>
              { isNil := false, vis := r.map toHexIntChars, stale := [] },
            stale := [] } } = .ok p := by
  obtain ⟨h1, h2, h3, h4, h5⟩ := hp
  simp only [finishDel, hexE_toHexIntChars _ h1, hexE_toHexIntChars _ h2, hexE_toHexIntChars _ h3,
    hexListE_map _ h4, hexListListE_map _ h5, sliceToOption_idx]

theorem decodeDeletionChars_encodeDeletionChars (p : DeletionParams) (hp : p.NonNeg)
    (h : ∀ l, p.deletionIndices = some l → ∀ i ∈ l, i < 2 ^ 32) :
    decodeDeletionChars (encodeDeletionChars p) = .ok p := by
  unfold decodeDeletionChars
  rw [parseDoc_encodeDeletion]
  simp only [decDelTop_encoded p h]
  exact finishDel_encoded p hp

/-! ## Out-of-range indices -/

theorem decMembers_persist {μ : Type} (names : List Chars)
    (decField : μ → Nat → JVal → Option Err → μ × Option Err) (x : Err)
    (h : ∀ m i v, (decField m i v (some x)).2 = some x) :
    ∀ (ms : List (Chars × JVal)) (m : μ), (decMembers names decField ms m (some x)).2 = some x := by
  intro ms
  induction ms with
  | nil => intro m; rfl
  | cons kv ms ih =>
    intro m
    obtain ⟨k, v⟩ := kv
    simp only [decMembers]
    cases fieldIdx names k with
    | none => exact ih m
    | some i =>
      simp only []
      rw [h]
      exact ih _

theorem decInsField_persist (m : InsMirror) (i : Nat) (v : JVal) (x : Err) :
    (decInsField m i v (some x)).2 = some x := by
  rcases i with _ | _ | _ | _ | _ | _ | i
  · exact decString_persist _ _ _
  · exact decU32_persist _ _ _
  · exact decString_persist _ _ _
  · exact decString_persist _ _ _
  · exact decStrSlice_persist _ _ _
  · exact decStrSliceSlice_persist _ _ _
  · rfl

theorem decDelField_persist (m : DelMirror) (i : Nat) (v : JVal) (x : Err) :
    (decDelField m i v (some x)).2 = some x := by
  rcases i with _ | _ | _ | _ | _ | _ | i
  · exact decString_persist _ _ _
  · exact decU32Slice_persist _ _ _
  · exact decString_persist _ _ _
  · exact decString_persist _ _ _
  · exact decStrSlice_persist _ _ _
  · exact decStrSliceSlice_persist _ _ _
  · rfl

theorem decInsTop_range (p : InsertionParams) (h : 2 ^ 32 ≤ p.startIndex) :
    (decInsTop (JVal.obj ((insMembers p).map Member.val))).2 = some Err.range := by
  have hn : ¬ p.startIndex < 2 ^ 32 := by omega
  simp only [decInsTop, decTop, insMembers, List.map_cons, List.map_nil, Member.val]
  rw [decMembers]
  simp only [insIdx0]
  rw [decMembers]
  simp only [insIdx1, decInsField, decU32_numJ, if_neg hn, decString, hexJ, saveErr]
  exact decMembers_persist _ _ _ (fun m i v => decInsField_persist m i v _) _ _

theorem decodeInsertionChars_range (p : InsertionParams) (h : 2 ^ 32 ≤ p.startIndex) :
    decodeInsertionChars (encodeInsertionChars p) = .error Err.range := by
  unfold decodeInsertionChars
  rw [parseDoc_encodeInsertion]
  have := decInsTop_range p h
  cases hd : decInsTop (JVal.obj ((insMembers p).map Member.val)) with
  | mk m e =>
    rw [hd] at this
    simp only at this
    subst this
    simp only [hd]

theorem decElems_u32_range : ∀ (l : List Nat) (bk : List Nat) (e : Option Err),
    (e = none ∨ e = some Err.range) → (∃ i ∈ l, 2 ^ 32 ≤ i) →
    (decElems decU32 0 bk (l.map numJ) e).2.2 = some Err.range := by
  intro l
  induction l with
  | nil => intro _ _ _ ⟨i, hi, _⟩; simp at hi
  | cons n l ih =>
    intro bk e he hex
    simp only [List.map_cons, decElems, decU32_numJ]
    by_cases hn : n < 2 ^ 32
    · simp only [if_pos hn]
      obtain ⟨i, hi, hbig⟩ := hex
      rcases List.mem_cons.mp hi with rfl | hmem
      · omega
      · exact ih _ e he ⟨i, hmem, hbig⟩
    · simp only [if_neg hn]
      have : saveErr e Err.range = some Err.range := by
        rcases he with rfl | rfl <;> rfl
      rw [this]
      exact decElems_persist decU32 0 _ (fun o v => decU32_persist o v _) _ _

theorem decDelTop_range (p : DeletionParams) (l : List Nat) (hl : p.deletionIndices = some l)
    (h : ∃ i ∈ l, 2 ^ 32 ≤ i) :
    (decDelTop (JVal.obj ((delMembers p).map Member.val))).2 = some Err.range := by
  obtain ⟨i0, hi0, hbig⟩ := h
  obtain ⟨n, l', rfl⟩ : ∃ n l', l = n :: l' := by
    cases l with
    | nil => simp at hi0
    | cons n l' => exact ⟨n, l', rfl⟩
  simp only [decDelTop, decTop, delMembers, List.map_cons, List.map_nil, Member.val, hl, idxJ]
  rw [decMembers]
  simp only [delIdx0]
  rw [decMembers]
  simp only [delIdx1, decDelField, decString, hexJ, decU32Slice, decSlice]
  have := decElems_u32_range (n :: l') ([] ++ []) none (Or.inl rfl) ⟨i0, hi0, hbig⟩
  simp only [List.map_cons] at this
  rw [this]
  exact decMembers_persist _ _ _ (fun m i v => decDelField_persist m i v _) _ _

theorem decodeDeletionChars_range (p : DeletionParams) (l : List Nat)
    (hl : p.deletionIndices = some l) (h : ∃ i ∈ l, 2 ^ 32 ≤ i) :
    decodeDeletionChars (encodeDeletionChars p) = .error Err.range := by
  unfold decodeDeletionChars
  rw [parseDoc_encodeDeletion]
  have := decDelTop_range p l hl h
  cases hd : decDelTop (JVal.obj ((delMembers p).map Member.val)) with
  | mk m e =>
    rw [hd] at this
    simp only at this
    subst this
    simp only [hd]


/-! ## String-level statements -/

theorem decodeInsertion_encodeInsertion (p : InsertionParams) (hp : p.NonNeg)
    (h : p.startIndex < 2 ^ 32) : decodeInsertion (encodeInsertion p) = .ok p := by
  unfold decodeInsertion encodeInsertion
  rw [String.toList_ofList]
  exact decodeInsertionChars_encodeInsertionChars p hp h

theorem decodeDeletion_encodeDeletion (p : DeletionParams) (hp : p.NonNeg)
    (h : ∀ l, p.deletionIndices = some l → ∀ i ∈ l, i < 2 ^ 32) :
    decodeDeletion (encodeDeletion p) = .ok p := by
  unfold decodeDeletion encodeDeletion
  rw [String.toList_ofList]
  exact decodeDeletionChars_encodeDeletionChars p hp h

theorem InsertionParams.nonNeg_ofNat (ih si pre post : Nat) (ids : List Nat)
    (mps : List (List Nat)) : (InsertionParams.ofNat ih si pre post ids mps).NonNeg := by
  refine ⟨Int.natCast_nonneg _, Int.natCast_nonneg _, Int.natCast_nonneg _, ?_, ?_⟩
  · intro x hx
    obtain ⟨n, _, rfl⟩ := List.mem_map.mp hx
    exact Int.natCast_nonneg _
  · intro r hr x hx
    obtain ⟨r0, _, rfl⟩ := List.mem_map.mp hr
    obtain ⟨n, _, rfl⟩ := List.mem_map.mp hx
    exact Int.natCast_nonneg _

theorem DeletionParams.nonNeg_ofNat (ih : Nat) (idx : Option (List Nat)) (pre post : Nat)
    (ids : List Nat) (mps : List (List Nat)) :
    (DeletionParams.ofNat ih idx pre post ids mps).NonNeg := by
  refine ⟨Int.natCast_nonneg _, Int.natCast_nonneg _, Int.natCast_nonneg _, ?_, ?_⟩
  · intro x hx
    obtain ⟨n, _, rfl⟩ := List.mem_map.mp hx
    exact Int.natCast_nonneg _
  · intro r hr x hx
    obtain ⟨r0, _, rfl⟩ := List.mem_map.mp hr
    obtain ⟨n, _, rfl⟩ := List.mem_map.mp hx
    exact Int.natCast_nonneg _

theorem decodeInsertion_range (p : InsertionParams) (h : 2 ^ 32 ≤ p.startIndex) :
    decodeInsertion (encodeInsertion p) = .error Err.range := by
  unfold decodeInsertion encodeInsertion
  rw [String.toList_ofList]
  exact decodeInsertionChars_range p h

theorem decodeDeletion_range (p : DeletionParams) (l : List Nat)
    (hl : p.deletionIndices = some l) (h : ∃ i ∈ l, 2 ^ 32 ≤ i) :
    decodeDeletion (encodeDeletion p) = .error Err.range := by
  unfold decodeDeletion encodeDeletion
  rw [String.toList_ofList]
  exact decodeDeletionChars_range p l hl h

/-! ## Decoding never invents values (all documents) -/

theorem parseU32_lt (lit : Chars) (n : Nat) (h : parseU32 lit = some n) : n < 2 ^ 32 := by
  unfold parseU32 at h
  split at h
  · simp only at h
    split at h
    · cases h; assumption
    · cases h
  · cases h

theorem decU32_lt (old : Nat) (v : JVal) (e : Option Err) (h : old < 2 ^ 32) :
    (decU32 old v e).1 < 2 ^ 32 := by
  cases v with
  | num lit =>
    simp only [decU32]
    cases hp : parseU32 lit with
    | none => exact h
    | some n => exact parseU32_lt lit n hp
  | _ => exact h

theorem decMembers_inv {μ : Type} (P : μ → Prop) (names : List Chars)
    (decField : μ → Nat → JVal → Option Err → μ × Option Err)
    (h : ∀ m i v e, P m → P (decField m i v e).1) :
    ∀ (ms : List (Chars × JVal)) (m : μ) (e : Option Err), P m →
      P (decMembers names decField ms m e).1 := by
  intro ms
  induction ms with
  | nil => intro m e hm; exact hm
  | cons kv ms ih =>
    intro m e hm
    obtain ⟨k, v⟩ := kv
    simp only [decMembers]
    cases fieldIdx names k with
    | none => exact ih m e hm
    | some i => exact ih _ _ (h m i v e hm)

theorem decTop_inv {μ : Type} (P : μ → Prop) (names : List Chars)
    (decField : μ → Nat → JVal → Option Err → μ × Option Err)
    (h : ∀ m i v e, P m → P (decField m i v e).1) (zero : μ) (hz : P zero) (v : JVal) :
    P (decTop names decField zero v).1 := by
  cases v with
  | obj ms => exact decMembers_inv P names decField h ms zero none hz
  | _ => exact hz

theorem decInsField_si (m : InsMirror) (i : Nat) (v : JVal) (e : Option Err)
    (h : m.startIndex < 2 ^ 32) : (decInsField m i v e).1.startIndex < 2 ^ 32 := by
  rcases i with _ | _ | _ | _ | _ | _ | i
  · exact h
  · exact decU32_lt _ _ _ h
  · exact h
  · exact h
  · exact h
  · exact h
  · exact h

theorem hexE_ok {s : Chars} {i : Int} (h : hexE s = .ok i) : fromHexChars s = some i := by
  unfold hexE at h
  cases hf : fromHexChars s with
  | none => rw [hf] at h; cases h
  | some j => rw [hf] at h; cases h; rfl

theorem hexListE_ok : ∀ (ss : List Chars) (is : List Int), hexListE ss = .ok is →
    List.Forall₂ (fun s i => fromHexChars s = some i) ss is := by
  intro ss
  induction ss with
  | nil => intro is h; cases h; exact List.Forall₂.nil
  | cons s ss ih =>
    intro is h
    simp only [hexListE] at h
    cases h1 : hexE s with
    | error e => rw [h1] at h; cases h
    | ok i =>
      rw [h1] at h
      cases h2 : hexListE ss with
      | error e => rw [h2] at h; cases h
      | ok js =>
        rw [h2] at h
        cases h
        exact List.Forall₂.cons (hexE_ok h1) (ih js h2)

theorem hexListListE_ok : ∀ (ss : List (GoSlice Chars)) (rs : List (List Int)),
    hexListListE ss = .ok rs →
    List.Forall₂ (fun s r => List.Forall₂ (fun x i => fromHexChars x = some i) s.vis r) ss rs := by
  intro ss
  induction ss with
  | nil => intro rs h; cases h; exact List.Forall₂.nil
  | cons s ss ih =>
    intro rs h
    simp only [hexListListE] at h
    cases h1 : hexListE s.vis with
    | error e => rw [h1] at h; cases h
    | ok r =>
      rw [h1] at h
      cases h2 : hexListListE ss with
      | error e => rw [h2] at h; cases h
      | ok js =>
        rw [h2] at h
        cases h
        exact List.Forall₂.cons (hexListE_ok _ _ h1) (ih js h2)

/-- Every component of a successfully decoded insertion parameter set is the `fromHex` value of
the corresponding string of the mirror struct; nothing is defaulted or invented. -/
theorem finishIns_ok_inv (m : InsMirror) (p : InsertionParams) (h : finishIns m = .ok p) :
    fromHexChars m.inputHash = some p.inputHash ∧ p.startIndex = m.startIndex ∧
    fromHexChars m.preRoot = some p.preRoot ∧ fromHexChars m.postRoot = some p.postRoot ∧
    List.Forall₂ (fun s i => fromHexChars s = some i) m.idComms.vis p.idComms ∧
    List.Forall₂ (fun s r => List.Forall₂ (fun x i => fromHexChars x = some i) s.vis r)
      m.merkleProofs.vis p.merkleProofs := by
  unfold finishIns at h
  cases h1 : hexE m.inputHash with
  | error e => rw [h1] at h; cases h
  | ok ih =>
    cases h2 : hexE m.preRoot with
    | error e => rw [h1, h2] at h; cases h
    | ok pre =>
      cases h3 : hexE m.postRoot with
      | error e => rw [h1, h2, h3] at h; cases h
      | ok post =>
        cases h4 : hexListE m.idComms.vis with
        | error e => rw [h1, h2, h3, h4] at h; cases h
        | ok ids =>
          cases h5 : hexListListE m.merkleProofs.vis with
          | error e => rw [h1, h2, h3, h4, h5] at h; cases h
          | ok mps =>
            rw [h1, h2, h3, h4, h5] at h
            cases h
            exact ⟨hexE_ok h1, rfl, hexE_ok h2, hexE_ok h3, hexListE_ok _ _ h4,
              hexListListE_ok _ _ h5⟩

theorem finishDel_ok_inv (m : DelMirror) (p : DeletionParams) (h : finishDel m = .ok p) :
    fromHexChars m.inputHash = some p.inputHash ∧
    p.deletionIndices = sliceToOption m.deletionIndices ∧
    fromHexChars m.preRoot = some p.preRoot ∧ fromHexChars m.postRoot = some p.postRoot ∧
    List.Forall₂ (fun s i => fromHexChars s = some i) m.idComms.vis p.idComms ∧
    List.Forall₂ (fun s r => List.Forall₂ (fun x i => fromHexChars x = some i) s.vis r)
      m.merkleProofs.vis p.merkleProofs := by
  unfold finishDel at h
  cases h1 : hexE m.inputHash with
  | error e => rw [h1] at h; cases h
  | ok ih =>
    cases h2 : hexE m.preRoot with
    | error e => rw [h1, h2] at h; cases h
    | ok pre =>
      cases h3 : hexE m.postRoot with
      | error e => rw [h1, h2, h3] at h; cases h
      | ok post =>
        cases h4 : hexListE m.idComms.vis with
        | error e => rw [h1, h2, h3, h4] at h; cases h
        | ok ids =>
          cases h5 : hexListListE m.merkleProofs.vis with
          | error e => rw [h1, h2, h3, h4, h5] at h; cases h
          | ok mps =>
            rw [h1, h2, h3, h4, h5] at h
            cases h
            exact ⟨hexE_ok h1, rfl, hexE_ok h2, hexE_ok h3, hexListE_ok _ _ h4,
              hexListListE_ok _ _ h5⟩

/-- Inversion of a successful decode: the document scanned, the typed decode recorded no error,
and the `fromHex` stage accepted every string. -/
theorem decodeInsertionChars_ok_inv (cs : Chars) (p : InsertionParams)
    (h : decodeInsertionChars cs = .ok p) :
    ∃ v m, parseDoc cs = .ok v ∧ decInsTop v = (m, none) ∧ finishIns m = .ok p := by
  unfold decodeInsertionChars at h
  cases hp : parseDoc cs with
  | error e => rw [hp] at h; cases h
  | ok v =>
    rw [hp] at h
    simp only at h
    cases hd : decInsTop v with
    | mk m e =>
      rw [hd] at h
      cases e with
      | some x => cases h
      | none => exact ⟨v, m, rfl, hd, h⟩

theorem decodeDeletionChars_ok_inv (cs : Chars) (p : DeletionParams)
    (h : decodeDeletionChars cs = .ok p) :
    ∃ v m, parseDoc cs = .ok v ∧ decDelTop v = (m, none) ∧ finishDel m = .ok p := by
  unfold decodeDeletionChars at h
  cases hp : parseDoc cs with
  | error e => rw [hp] at h; cases h
  | ok v =>
    rw [hp] at h
    simp only at h
    cases hd : decDelTop v with
    | mk m e =>
      rw [hd] at h
      cases e with
      | some x => cases h
      | none => exact ⟨v, m, rfl, hd, h⟩

/-- **Every** document that decodes yields a `startIndex` below `2^32`. -/
theorem decodeInsertionChars_startIndex_lt (cs : Chars) (p : InsertionParams)
    (h : decodeInsertionChars cs = .ok p) : p.startIndex < 2 ^ 32 := by
  obtain ⟨v, m, _, hd, hf⟩ := decodeInsertionChars_ok_inv cs p h
  have hm : (decInsTop v).1.startIndex < 2 ^ 32 :=
    decTop_inv (fun m => m.startIndex < 2 ^ 32) insNames decInsField decInsField_si {}
      (by decide) v
  rw [hd] at hm
  rw [(finishIns_ok_inv m p hf).2.1]
  exact hm

/-! ### deletion indices -/

def SliceLt (s : GoSlice Nat) : Prop := ∀ i ∈ s.vis ++ s.stale, i < 2 ^ 32

theorem decElems_u32_lt : ∀ (xs : List JVal) (bk : List Nat) (e : Option Err),
    (∀ i ∈ bk, i < 2 ^ 32) →
    (∀ i ∈ (decElems decU32 0 bk xs e).1, i < 2 ^ 32) ∧
    (∀ i ∈ (decElems decU32 0 bk xs e).2.1, i < 2 ^ 32) := by
  intro xs
  induction xs with
  | nil =>
    intro bk e h
    simp only [decElems]
    exact ⟨fun i hi => absurd hi List.not_mem_nil, h⟩
  | cons x xs ih =>
    intro bk e h
    cases bk with
    | nil =>
      simp only [decElems, List.tail_nil]
      obtain ⟨ih1, ih2⟩ := ih [] (decU32 0 x e).2 h
      refine ⟨?_, ih2⟩
      intro i hi
      rcases List.mem_cons.mp hi with rfl | hmem
      · exact decU32_lt _ _ _ (by decide)
      · exact ih1 i hmem
    | cons o r =>
      simp only [decElems, List.tail_cons]
      obtain ⟨ih1, ih2⟩ := ih r (decU32 o x e).2 (fun i hi => h i (List.mem_cons_of_mem _ hi))
      refine ⟨?_, ih2⟩
      intro i hi
      rcases List.mem_cons.mp hi with rfl | hmem
      · exact decU32_lt _ _ _ (h o List.mem_cons_self)
      · exact ih1 i hmem

theorem decU32Slice_lt (old : GoSlice Nat) (v : JVal) (e : Option Err) (h : SliceLt old) :
    SliceLt (decU32Slice old v e).1 := by
  cases v with
  | arr xs =>
    cases xs with
    | nil => intro i hi; cases hi
    | cons y ys =>
      simp only [decU32Slice, decSlice]
      obtain ⟨h1, h2⟩ := decElems_u32_lt (y :: ys) (old.vis ++ old.stale) e h
      intro i hi
      rcases List.mem_append.mp hi with hi | hi
      · exact h1 i hi
      · exact h2 i hi
  | null => intro i hi; cases hi
  | bool b => exact h
  | num l => exact h
  | str s => exact h
  | obj ms => exact h

theorem decDelField_idx (m : DelMirror) (i : Nat) (v : JVal) (e : Option Err)
    (h : SliceLt m.deletionIndices) : SliceLt (decDelField m i v e).1.deletionIndices := by
  rcases i with _ | _ | _ | _ | _ | _ | i
  · exact h
  · exact decU32Slice_lt _ _ _ h
  · exact h
  · exact h
  · exact h
  · exact h
  · exact h

/-- **Every** document that decodes yields deletion indices below `2^32`. -/
theorem decodeDeletionChars_indices_lt (cs : Chars) (p : DeletionParams)
    (h : decodeDeletionChars cs = .ok p) :
    ∀ l, p.deletionIndices = some l → ∀ i ∈ l, i < 2 ^ 32 := by
  obtain ⟨v, m, _, hd, hf⟩ := decodeDeletionChars_ok_inv cs p h
  have hm : SliceLt (decDelTop v).1.deletionIndices :=
    decTop_inv (fun m => SliceLt m.deletionIndices) delNames decDelField decDelField_idx {}
      (by intro i hi; cases hi) v
  rw [hd] at hm
  intro l hl i hi
  rw [(finishDel_ok_inv m p hf).2.1] at hl
  unfold sliceToOption at hl
  split at hl
  · cases hl
  · cases hl
    exact hm i (List.mem_append_left _ hi)


theorem decodeInsertion_startIndex_lt (s : String) (p : InsertionParams)
    (h : decodeInsertion s = .ok p) : p.startIndex < 2 ^ 32 :=
  decodeInsertionChars_startIndex_lt s.toList p h

theorem decodeDeletion_indices_lt (s : String) (p : DeletionParams)
    (h : decodeDeletion s = .ok p) : ∀ l, p.deletionIndices = some l → ∀ i ∈ l, i < 2 ^ 32 :=
  decodeDeletionChars_indices_lt s.toList p h

end Smtb.Codec
