import Smtb.Proofs.GenParams
import Smtb.Properties.C03
/-! # A homomorphic image of a valid batch is valid; cast of the generator's output to `ZMod r` -/

namespace Smtb.Pack
open Smtb Smtb.Merkle Smtb.Batch Smtb.Poseidon

section hom
variable {F G : Type} [DecidableEq F] [DecidableEq G] (φ : F → G) (H : F → F → F) (H' : G → G → G)
  (hH : ∀ a b, φ (H a b) = H' (φ a) (φ b))
include hH

omit [DecidableEq F] [DecidableEq G] in
theorem recover_map : ∀ (sibs : List F) (bits : List Bool) (a : F),
    φ (recover H a sibs bits) = recover H' (φ a) (sibs.map φ) bits
  | [], _, _ => rfl
  | _ :: _, [], _ => rfl
  | s :: sibs, b :: bits, a => by
    rw [List.map_cons, recover, recover, recover_map sibs bits]
    cases b <;> simp [hH]

theorem insertionSpec_map (zero : F) (val : F → ℕ) (val' : G → ℕ) (addi : F → ℕ → F) (addi' : G → ℕ → G)
    (start : F) (start' : G) (d : ℕ) :
    ∀ (ids : List F) (proofs : List (List F)) (k : ℕ) (prev post : F),
      (∀ j, k ≤ j → j < k + ids.length → val' (addi' start' j) = val (addi start j)) →
      insertionSpec H zero val addi d start k prev ids proofs = some post →
      insertionSpec H' (φ zero) val' addi' d start' k (φ prev) (ids.map φ)
        (proofs.map (List.map φ)) = some (φ post)
  | [], _, _, _, _, _, h => by
    rw [insertionSpec] at h
    · cases h; rw [List.map_nil, insertionSpec]; intros; contradiction
    · intros; contradiction
  | _ :: _, [], _, _, _, _, h => by
    rw [insertionSpec] at h
    · cases h; rw [List.map_nil, insertionSpec]; intros; simp_all
    · intros; simp_all
  | id :: ids, prf :: proofs, k, prev, post, hidx, h => by
    rw [insertionSpec] at h
    rw [List.map_cons, List.map_cons, insertionSpec, hidx k (Nat.le_refl k) (by simp)]
    unfold insertionStep at h ⊢
    by_cases hc : val (addi start k) < 2 ^ d ∧
        recover H zero prf (bitsLE d (val (addi start k))) = prev
    · rw [if_pos hc] at h
      rw [← recover_map φ H H' hH, ← recover_map φ H H' hH, if_pos ⟨hc.1, by rw [hc.2]⟩]
      exact insertionSpec_map zero val val' addi addi' start start' d ids proofs (k + 1) _ post
        (fun j hj hj' => hidx j (by omega) (by simp only [List.length_cons]; omega)) h
    · rw [if_neg hc] at h; cases h

theorem deletionSpec_map (zero : F) (val : F → ℕ) (val' : G → ℕ) (d : ℕ) :
    ∀ (idxs : List F) (ids : List F) (proofs : List (List F)) (root post : F),
      (∀ i ∈ idxs, val' (φ i) = val i) →
      deletionSpec H zero val d root idxs ids proofs = some post →
      deletionSpec H' (φ zero) val' d (φ root) (idxs.map φ) (ids.map φ)
        (proofs.map (List.map φ)) = some (φ post)
  | [], _, _, _, _, _, h => by
    rw [deletionSpec] at h
    · cases h; rw [List.map_nil, deletionSpec]; intros; contradiction
    · intros; contradiction
  | _ :: _, [], _, _, _, _, h => by
    rw [deletionSpec] at h
    · cases h; rw [List.map_nil (f := φ), deletionSpec]; intros; simp_all
    · intros; simp_all
  | _ :: _, _ :: _, [], _, _, _, h => by
    rw [deletionSpec] at h
    · cases h; rw [List.map_nil, deletionSpec]; intros; simp_all
    · intros; simp_all
  | idx :: idxs, id :: ids, prf :: proofs, root, post, hidx, h => by
    rw [deletionSpec] at h
    rw [List.map_cons, List.map_cons, List.map_cons, deletionSpec, hidx idx List.mem_cons_self]
    unfold deletionStep at h ⊢
    have ih := fun r hr => deletionSpec_map zero val val' d idxs ids proofs r post
      (fun i hi => hidx i (List.mem_cons_of_mem _ hi)) hr
    by_cases h1 : val idx < 2 ^ d
    · rw [if_pos h1] at h ⊢
      by_cases h2 : recover H id prf (bitsLE d (val idx)) = root
      · rw [if_pos h2] at h
        rw [← recover_map φ H H' hH, ← recover_map φ H H' hH, if_pos (by rw [h2])]
        exact ih _ h
      · rw [if_neg h2] at h; cases h
    · rw [if_neg h1] at h ⊢
      by_cases h3 : val idx < 2 ^ (d + 1)
      · rw [if_pos h3] at h ⊢
        exact ih _ h
      · rw [if_neg h3] at h; cases h

end hom

/-! ## the cast `ℕ → ZMod r` -/

theorem hash2_mod (p x y : ℕ) : hash2 p (x % p) (y % p) = hash2 p x y := by
  unfold hash2; rw [Nat.mod_mod, Nat.mod_mod]

/-- the cast is a homomorphism from the reference Poseidon on `ℕ` to the circuit's hash on `ZMod r` -/
theorem cast_H254 (x y : ℕ) :
    ((H254 x y : ℕ) : ZMod bn254r) = Sat.poseidonH bn254r (x : ZMod bn254r) (y : ZMod bn254r) := by
  unfold Sat.poseidonH H254
  rw [ZMod.val_natCast, ZMod.val_natCast, hash2_mod]

end Smtb.Pack
