import Smtb.Proofs.TraceSound
import Smtb.Circuit.TraceHarness2
/-!
# Trace soundness of the fully expanded hash gadgets

`Smtb/Proofs/TraceSound.lean` keeps `Poseidon2` / `KeccakGadget` opaque on the trace side.  Here
the same simulation relation `Sim` is carried through the *bodies* of the hash gadgets, so that
the Sat semantics of `Poseidon.poseidon1`, `Poseidon.poseidon2` and `Keccak.keccakGadget` is the
first-order semantics (`Smtb.TraceSem.denote`) of the gate-by-gate trace they record when their
names are not in `opaqueNames`.

New combinators: `Sim_mapM'_ext`, `Sim_foldlM'`, `Sim_zipWithM'` (the per-element hypothesis is
only required at extensions of the current environment, so the element function may mention
operands already in scope), `Sim_opaque1` / `Sim_opaqueN` (a gadget whose name is not opaque runs
its body), and `Rel` lemmas for pure list wiring (`Rel.zip`, `Rel.set`, `Rel.drop`,
`Rel.map_plain`, `Rel.foldl_plain`, …) where index data (`ℕ`, `List ℕ`, …) is related to itself.
-/
namespace Smtb.TraceSound
open Smtb Smtb.TraceSem Smtb.TraceHarness CircuitApi

variable {p : ℕ}

/-! ## plain data: indices, table constants -/

instance : Ev p ℕ ℕ where
  ev := fun _ n => n
  bnd := fun _ _ => True
  ev_congr := fun _ _ => rfl
  bnd_mono := fun _ _ => trivial

/-- data that mentions no wire: it evaluates to itself -/
class EvPlain (p : ℕ) (ι : Type) [Ev p ι ι] : Prop where
  ev_id : ∀ (env : Env p) (i : ι), Ev.ev env i = i
  bnd_all : ∀ (n : ℕ) (i : ι), Ev.bnd p n i

instance : EvPlain p ℕ where
  ev_id := fun _ _ => rfl
  bnd_all := fun _ _ => trivial

instance {ι : Type} [Ev p ι ι] [EvPlain p ι] : EvPlain p (List ι) where
  ev_id := fun env l => by
    show l.map (Ev.ev env) = l
    induction l with
    | nil => rfl
    | cons a l ih => rw [List.map_cons, ih, EvPlain.ev_id]
  bnd_all := fun n _ i _ => EvPlain.bnd_all n i

section plain
variable {ι : Type} [Ev p ι ι] [EvPlain p ι] {env : Env p} {n : ℕ}

theorem Rel.plain (i : ι) : Rel env n i i := ⟨EvPlain.bnd_all n i, (EvPlain.ev_id env i).symm⟩

theorem Rel.plain_eq {a b : ι} (h : Rel env n a b) : a = b := h.eq.trans (EvPlain.ev_id env b)

end plain

/-! ## more pure wiring -/

section relmore2
variable {β α : Type} [Ev p β α] {env : Env p} {n : ℕ}

theorem Rel.fst' {β' α' : Type} [Ev p β' α'] {x : α × α'} {y : β × β'} (h : Rel env n x y) :
    Rel env n x.1 y.1 := ⟨h.bnd.1, congrArg Prod.fst h.eq⟩

theorem Rel.snd' {β' α' : Type} [Ev p β' α'] {x : α × α'} {y : β × β'} (h : Rel env n x y) :
    Rel env n x.2 y.2 := ⟨h.bnd.2, congrArg Prod.snd h.eq⟩

theorem Rel.zip {β' α' : Type} [Ev p β' α'] {as : List α} {bs : List β} {as' : List α'}
    {bs' : List β'} (h : Rel env n as bs) (h' : Rel env n as' bs') :
    Rel env n (as.zip as') (bs.zip bs') := by
  induction bs generalizing as as' bs' with
  | nil =>
    have := h.nil_right; subst this
    simp only [List.zip_nil_left]; exact Rel.nil
  | cons b bs ih =>
    obtain ⟨a, as1, rfl, ha, has⟩ := h.cons_right
    cases bs' with
    | nil =>
      have := h'.nil_right; subst this
      simp only [List.zip_nil_right]; exact Rel.nil
    | cons b' bs' =>
      obtain ⟨a', as1', rfl, ha', has'⟩ := h'.cons_right
      simp only [List.zip_cons_cons]
      exact (ha.pair ha').cons (ih has has')

theorem Rel.drop {as : List α} {bs : List β} (h : Rel env n as bs) (k : ℕ) :
    Rel env n (as.drop k) (bs.drop k) :=
  ⟨fun x hx => h.bnd x (List.mem_of_mem_drop hx), by
    show _ = (bs.drop k).map (Ev.ev env)
    rw [List.map_drop, h.eq]; rfl⟩

theorem Rel.set {as : List α} {bs : List β} (h : Rel env n as bs) (k : ℕ) {a : α} {b : β}
    (hab : Rel env n a b) : Rel env n (as.set k a) (bs.set k b) :=
  ⟨fun x hx => by
    rcases List.mem_or_eq_of_mem_set hx with hx | rfl
    · exact h.bnd x hx
    · exact hab.bnd, by
    show _ = (bs.set k b).map (Ev.ev env)
    rw [List.map_set, h.eq, hab.eq]; rfl⟩

theorem Rel.replicate (k : ℕ) {a : α} {b : β} (hab : Rel env n a b) :
    Rel env n (List.replicate k a) (List.replicate k b) :=
  ⟨fun x hx => by rw [List.eq_of_mem_replicate hx]; exact hab.bnd, by
    show _ = (List.replicate k b).map (Ev.ev env)
    rw [List.map_replicate, hab.eq]⟩

/-- the same wiring function applied elementwise -/
theorem Rel.map {δ γ : Type} [Ev p δ γ] {f : α → γ} {g : β → δ}
    (hfg : ∀ a b, Rel env n a b → Rel env n (f a) (g b)) {as : List α} {bs : List β}
    (h : Rel env n as bs) : Rel env n (as.map f) (bs.map g) := by
  induction bs generalizing as with
  | nil => have := h.nil_right; subst this; exact Rel.nil
  | cons b bs ih =>
    obtain ⟨a, as', rfl, ha, has⟩ := h.cons_right
    exact (hfg a b ha).cons (ih has)

/-- a list built from index data -/
theorem Rel.map_plain {ι : Type} (is : List ι) {f : ι → α} {g : ι → β}
    (h : ∀ i ∈ is, Rel env n (f i) (g i)) : Rel env n (is.map f) (is.map g) := by
  induction is with
  | nil => exact Rel.nil
  | cons i is ih =>
    exact (h i (List.mem_cons_self ..)).cons (ih fun j hj => h j (List.mem_cons_of_mem _ hj))

/-- a pure fold over index data -/
theorem Rel.foldl_plain {ι : Type} (is : List ι) {f : α → ι → α} {g : β → ι → β}
    (h : ∀ a b i, Rel env n a b → Rel env n (f a i) (g b i)) {a : α} {b : β}
    (hab : Rel env n a b) : Rel env n (is.foldl f a) (is.foldl g b) := by
  induction is generalizing a b with
  | nil => exact hab
  | cons i is ih => exact ih (h a b i hab)

end relmore2

/-! ## combinators -/

section comb
variable {H : ZMod p → ZMod p → ZMod p} {K : List ℕ → List (ZMod p) → List (ZMod p)}
variable {names : List String}

/-- `mapM'`, where the element function is only required to simulate at extensions of the current
environment (so it may mention operands that are in scope now) -/
theorem Sim_mapM'_ext {β α δ γ : Type} [Ev p β α] [Ev p δ γ] {f : α → SatM p γ} {g : β → TraceM δ} :
    ∀ (bs : List β) (env : Env p) (st : TState) (as : List α), Rel env st.next as bs →
      (∀ (env1 : Env p) (st1 : TState) (a : α) (b : β), Ext env st.next env1 st1.next →
        Rel env1 st1.next a b → Sim H K names env1 st1 (f a) (g b)) →
      Sim H K names env st (mapM' f as) (mapM' g bs)
  | [], env, st, as, h, _ => by
    have := h.nil_right; subst this
    exact Sim_pure Rel.nil
  | b :: bs, env, st, as, h, hfg => by
    obtain ⟨a, as', rfl, ha, has⟩ := h.cons_right
    show Sim H K names env st (f a >>= fun c => mapM' f as' >>= fun cs => pure (c :: cs))
      (g b >>= fun c => mapM' g bs >>= fun cs => pure (c :: cs))
    refine Sim_bind (hfg env st a b (Ext.refl _ _) ha) fun env1 st1 c tc e1 hc => ?_
    refine Sim_bind (Sim_mapM'_ext bs env1 st1 as' (has.mono e1)
      fun env2 st2 a b e2 hab => hfg env2 st2 a b (e1.trans e2) hab) fun env2 st2 cs tcs e2 hcs => ?_
    exact Sim_pure ((hc.mono e2).cons hcs)

theorem Sim_foldlM' {β α δ γ : Type} [Ev p β α] [Ev p δ γ] {f : γ → α → SatM p γ}
    {g : δ → β → TraceM δ} :
    ∀ (bs : List β) (env : Env p) (st : TState) (as : List α) (c : γ) (tc : δ),
      Rel env st.next as bs → Rel env st.next c tc →
      (∀ (env1 : Env p) (st1 : TState) (c : γ) (tc : δ) (a : α) (b : β),
        Ext env st.next env1 st1.next → Rel env1 st1.next c tc → Rel env1 st1.next a b →
        Sim H K names env1 st1 (f c a) (g tc b)) →
      Sim H K names env st (foldlM' f c as) (foldlM' g tc bs)
  | [], env, st, as, c, tc, h, hc, _ => by
    have := h.nil_right; subst this
    exact Sim_pure hc
  | b :: bs, env, st, as, c, tc, h, hc, hfg => by
    obtain ⟨a, as', rfl, ha, has⟩ := h.cons_right
    show Sim H K names env st (f c a >>= fun c' => foldlM' f c' as')
      (g tc b >>= fun c' => foldlM' g c' bs)
    refine Sim_bind (hfg env st c tc a b (Ext.refl _ _) hc ha) fun env1 st1 c' tc' e1 hc' => ?_
    exact Sim_foldlM' bs env1 st1 as' c' tc' (has.mono e1) hc'
      fun env2 st2 c tc a b e2 hc hab => hfg env2 st2 c tc a b (e1.trans e2) hc hab

theorem Sim_zipWithM' {β α β' α' δ γ : Type} [Ev p β α] [Ev p β' α'] [Ev p δ γ]
    {f : α → α' → SatM p γ} {g : β → β' → TraceM δ} :
    ∀ (bs : List β) (bs' : List β') (env : Env p) (st : TState) (as : List α) (as' : List α'),
      Rel env st.next as bs → Rel env st.next as' bs' →
      (∀ (env1 : Env p) (st1 : TState) (a : α) (b : β) (a' : α') (b' : β'),
        Ext env st.next env1 st1.next → Rel env1 st1.next a b → Rel env1 st1.next a' b' →
        Sim H K names env1 st1 (f a a') (g b b')) →
      Sim H K names env st (zipWithM' f as as') (zipWithM' g bs bs')
  | [], bs', env, st, as, as', h, _, _ => by
    have := h.nil_right; subst this
    simp only [zipWithM']
    exact Sim_pure Rel.nil
  | b :: bs, [], env, st, as, as', h, h', _ => by
    obtain ⟨a, as1, rfl, -, -⟩ := h.cons_right
    have := h'.nil_right; subst this
    simp only [zipWithM']
    exact Sim_pure Rel.nil
  | b :: bs, b' :: bs', env, st, as, as', h, h', hfg => by
    obtain ⟨a, as1, rfl, ha, has⟩ := h.cons_right
    obtain ⟨a', as1', rfl, ha', has'⟩ := h'.cons_right
    show Sim H K names env st (f a a' >>= fun c => zipWithM' f as1 as1' >>= fun cs => pure (c :: cs))
      (g b b' >>= fun c => zipWithM' g bs bs' >>= fun cs => pure (c :: cs))
    refine Sim_bind (hfg env st a b a' b' (Ext.refl _ _) ha ha') fun env1 st1 c tc e1 hc => ?_
    refine Sim_bind (Sim_zipWithM' bs bs' env1 st1 as1 as1' (has.mono e1) (has'.mono e1)
      fun env2 st2 a b a' b' e2 hab hab' => hfg env2 st2 a b a' b' (e1.trans e2) hab hab')
      fun env2 st2 cs tcs e2 hcs => ?_
    exact Sim_pure ((hc.mono e2).cons hcs)

variable {env : Env p} {st : TState}

/-- a scalar gadget whose name is not opaque records its body -/
theorem Sim_opaque1 {name : String} (hname : name ∉ names) (params params' : List ℕ)
    (args : List (ZMod p)) (targs : List TV) {x : SatM p (ZMod p)} {y : TraceM TV}
    (h : Sim H K names env st x y) :
    Sim H K names env st (opaque1 name params' args x) (opaque1 name params targs y) := by
  intro hn
  have hc : ¬ (st.opaqueNames.contains name = true) := by
    rw [hn, List.contains_iff_mem]; exact hname
  have he : exec (opaque1 (m := TraceM) name params targs y) st = exec y st := by
    show (if st.opaqueNames.contains name = true then _ else _ : TraceM TV) st = _
    rw [if_neg hc]; rfl
  rw [he]
  exact h hn

/-- a multi-result gadget whose name is not opaque records its body -/
theorem Sim_opaqueN {name : String} (hname : name ∉ names) (params params' : List ℕ)
    (args : List (ZMod p)) (targs : List TV) (k : ℕ) {x : SatM p (List (ZMod p))}
    {y : TraceM (List TV)} (h : Sim H K names env st x y) :
    Sim H K names env st (opaqueN name params' args k x) (opaqueN name params targs k y) := by
  intro hn
  have hc : ¬ (st.opaqueNames.contains name = true) := by
    rw [hn, List.contains_iff_mem]; exact hname
  have he : exec (opaqueN (m := TraceM) name params targs k y) st = exec y st := by
    show (if st.opaqueNames.contains name = true then _ else _ : TraceM (List TV)) st = _
    rw [if_neg hc]; rfl
  rw [he]
  exact h hn

end comb

/-! ## Poseidon -/

section poseidon
open Smtb.Circuit Smtb.Circuit.Poseidon
variable {H : ZMod p → ZMod p → ZMod p} {K : List ℕ → List (ZMod p) → List (ZMod p)}
variable {names : List String}

theorem sim_sbox {env : Env p} {st : TState} {x : ZMod p} {tx : TV} (hx : Rel env st.next x tx) :
    Sim H K names env st (sbox x) (sbox tx) := by
  unfold sbox
  refine Sim_bind (sim_mul hx hx) fun env1 st1 v2 tv2 e1 h2 => ?_
  refine Sim_bind (sim_mul h2 h2) fun env2 st2 v4 tv4 e2 h4 => ?_
  exact sim_mul (hx.mono (e1.trans e2)) h4

theorem sim_mdsRow {env : Env p} {st : TState} {inp : List (ZMod p)} {tinp : List TV}
    (hinp : Rel env st.next inp tinp) (row : List ℕ) :
    Sim H K names env st (mdsRow inp row) (mdsRow tinp row) := by
  unfold mdsRow
  refine Sim_foldlM' (tinp.zip row) env st (inp.zip row) _ _ (hinp.zip (Rel.plain row))
    (Rel.const _ _ _) fun env1 st1 sum tsum xc txc e1 hsum hxc => ?_
  have h2 : xc.2 = txc.2 := hxc.snd'.plain_eq
  rw [h2]
  refine Sim_bind (sim_mul hxc.fst' (Rel.const _ _ _)) fun env2 st2 prod tprod e2 hprod => ?_
  exact sim_add (hsum.mono e2) hprod

theorem sim_mdsMix {env : Env p} {st : TState} (cfg : Cfg) {inp : List (ZMod p)} {tinp : List TV}
    (hinp : Rel env st.next inp tinp) :
    Sim H K names env st (mdsMix cfg inp) (mdsMix cfg tinp) := by
  unfold mdsMix
  rw [hinp.length_eq]
  refine Sim_mapM'_ext _ env st _ (Rel.plain _) fun env1 st1 row trow e1 hrow => ?_
  have := hrow.plain_eq; subst this
  exact sim_mdsRow (hinp.mono e1) row

theorem sim_addConsts {env : Env p} {st : TState} {inp : List (ZMod p)} {tinp : List TV}
    (hinp : Rel env st.next inp tinp) (consts : List ℕ) :
    Sim H K names env st (addConsts inp consts) (addConsts tinp consts) := by
  unfold addConsts
  refine Sim_zipWithM' tinp consts env st inp consts hinp (Rel.plain _)
    fun env1 st1 x tx c tc e1 hx hc => ?_
  have := hc.plain_eq; subst this
  exact sim_add hx (Rel.const _ _ _)

theorem sim_halfRound {env : Env p} {st : TState} (cfg : Cfg) {inp : List (ZMod p)}
    {tinp : List TV} (hinp : Rel env st.next inp tinp) (consts : List ℕ) :
    Sim H K names env st (halfRound cfg inp consts) (halfRound cfg tinp consts) := by
  unfold halfRound
  refine Sim_bind (sim_addConsts hinp consts) fun env1 st1 s ts e1 hs => ?_
  cases ts with
  | nil =>
    have := hs.nil_right; subst this
    exact sim_mdsMix cfg Rel.nil
  | cons t ts =>
    obtain ⟨x, rest, rfl, hx, hrest⟩ := hs.cons_right
    show Sim H K names env1 st1 (sbox x >>= fun x' => mdsMix cfg (x' :: rest))
      (sbox t >>= fun x' => mdsMix cfg (x' :: ts))
    refine Sim_bind (sim_sbox hx) fun env2 st2 x' tx' e2 hx' => ?_
    exact sim_mdsMix cfg (hx'.cons (hrest.mono e2))

theorem sim_fullRound {env : Env p} {st : TState} (cfg : Cfg) {inp : List (ZMod p)}
    {tinp : List TV} (hinp : Rel env st.next inp tinp) (consts : List ℕ) :
    Sim H K names env st (fullRound cfg inp consts) (fullRound cfg tinp consts) := by
  unfold fullRound
  refine Sim_bind (sim_addConsts hinp consts) fun env1 st1 s ts e1 hs => ?_
  refine Sim_bind (Sim_mapM' (fun env st a b hab => sim_sbox hab) ts env1 st1 s hs)
    fun env2 st2 s' ts' e2 hs' => ?_
  exact sim_mdsMix cfg hs'

theorem sim_permute {env : Env p} {st : TState} (cfg : Cfg) {inp : List (ZMod p)}
    {tinp : List TV} (hinp : Rel env st.next inp tinp) :
    Sim H K names env st (permute cfg inp) (permute cfg tinp) := by
  unfold permute
  refine Sim_bind (Sim_foldlM' _ env st _ _ _ (Rel.plain _) hinp
    fun env1 st1 s ts cs tcs e1 hs hcs => by
      have := hcs.plain_eq; subst this
      exact sim_fullRound cfg hs cs) fun env1 st1 s1 ts1 e1 hs1 => ?_
  refine Sim_bind (Sim_foldlM' _ env1 st1 _ _ _ (Rel.plain _) hs1
    fun env2 st2 s ts cs tcs e2 hs hcs => by
      have := hcs.plain_eq; subst this
      exact sim_halfRound cfg hs cs) fun env2 st2 s2 ts2 e2 hs2 => ?_
  exact Sim_foldlM' _ env2 st2 _ _ _ (Rel.plain _) hs2
    fun env3 st3 s ts cs tcs e3 hs hcs => by
      have := hcs.plain_eq; subst this
      exact sim_fullRound cfg hs cs

theorem sim_poseidon1_body (hname : "Poseidon1" ∉ names) {env : Env p} {st : TState} {a : ZMod p}
    {ta : TV} (ha : Rel env st.next a ta) :
    Sim H K names env st (poseidon1 a) (poseidon1 ta) := by
  unfold poseidon1
  refine Sim_opaque1 hname _ _ _ _ ?_
  refine Sim_bind (sim_permute cfg2 ((Rel.const _ _ 0).cons (ha.cons Rel.nil)))
    fun env1 st1 s ts e1 hs => ?_
  exact Sim_pure (hs.headD (Rel.const _ _ 0))

theorem sim_poseidon2_body (hname : "Poseidon2" ∉ names) {env : Env p} {st : TState}
    {a b : ZMod p} {ta tb : TV} (ha : Rel env st.next a ta) (hb : Rel env st.next b tb) :
    Sim H K names env st (poseidon2 a b) (poseidon2 ta tb) := by
  unfold poseidon2
  refine Sim_opaque1 hname _ _ _ _ ?_
  refine Sim_bind (sim_permute cfg3 ((Rel.const _ _ 0).cons (ha.cons (hb.cons Rel.nil))))
    fun env1 st1 s ts e1 hs => ?_
  exact Sim_pure (hs.headD (Rel.const _ _ 0))

variable (H K)

/-- **Poseidon1**, body expanded: `names` must not contain `"Poseidon1"` -/
theorem poseidon1_trace_iff' (hname : "Poseidon1" ∉ names) (a : ZMod p) (kont : ZMod p → Prop) :
    (poseidon1 a : SatM p _) kont ↔
      ∃ env : Env p, InputsAre env [a] ∧ denote p H K env (traceOf names tracePoseidon1) ∧
        kont (evalTV env (resultOf names tracePoseidon1)) := by
  refine Sim.top (n := 1) (y' := poseidon1 (.v 0) >>= fun r =>
    TraceM.emit ("ret" ++ TraceM.tvList [r]) >>= fun _ => pure r) [a] rfl rfl
    (fun env hin => ?_) kont
  obtain ⟨h0, -⟩ := hin.at0.cons
  exact Sim_ret _ (sim_poseidon1_body hname (Rel.input h0 (by wire_bound)))

/-- **Poseidon2**, body expanded: `names` must not contain `"Poseidon2"` -/
theorem poseidon2_trace_iff' (hname : "Poseidon2" ∉ names) (a b : ZMod p) (kont : ZMod p → Prop) :
    (poseidon2 a b : SatM p _) kont ↔
      ∃ env : Env p, InputsAre env [a, b] ∧ denote p H K env (traceOf names tracePoseidon2) ∧
        kont (evalTV env (resultOf names tracePoseidon2)) := by
  refine Sim.top (n := 2) (y' := poseidon2 (.v 0) (.v 1) >>= fun r =>
    TraceM.emit ("ret" ++ TraceM.tvList [r]) >>= fun _ => pure r) [a, b] rfl rfl
    (fun env hin => ?_) kont
  obtain ⟨h0, hin⟩ := hin.at0.cons
  obtain ⟨h1, -⟩ := hin.cons
  exact Sim_ret _ (sim_poseidon2_body hname (Rel.input h0 (by wire_bound))
    (Rel.input h1 (by wire_bound)))

end poseidon

/-! ## Keccak -/

section keccak
open Smtb.Circuit Smtb.Circuit.Keccak

/-- value of a `frontend.Variable` slot: a Go literal stays a literal, a variable is evaluated -/
def evKV (env : Env p) : KV TV → KV (ZMod p)
  | .lit b => .lit b
  | .var v => .var (evalTV env v)

def bndKV (n : ℕ) : KV TV → Prop
  | .lit _ => True
  | .var v => tvBnd n v

instance : Ev p (KV TV) (KV (ZMod p)) where
  ev := evKV
  bnd := bndKV
  ev_congr := fun {_ _ _ b} h hb => by
    cases b with
    | lit b => rfl
    | var v => exact congrArg KV.var (evalTV_congr h hb)
  bnd_mono := fun {_ _ b} h hb => by
    cases b with
    | lit b => trivial
    | var v => exact tvBnd_mono h hb

section kv
variable {env : Env p} {n : ℕ}

theorem Rel.kvLit (b : Bool) : Rel env n (KV.lit b : KV (ZMod p)) (KV.lit b : KV TV) :=
  ⟨trivial, rfl⟩

theorem Rel.kvVar {r : ZMod p} {tr : TV} (h : Rel env n r tr) :
    Rel env n (KV.var r) (KV.var tr) := ⟨h.bnd, congrArg KV.var h.eq⟩

/-- `KV.toV`: a literal bit becomes the constant operand `c:0` / `c:1` -/
theorem Rel.toV {x : KV (ZMod p)} {tx : KV TV} (h : Rel env n x tx) :
    Rel env n (KV.toV (m := SatM p) x) (KV.toV (m := TraceM) tx) := by
  cases tx with
  | lit b =>
    have hx : x = .lit b := h.eq
    subst hx
    exact Rel.const _ _ _
  | var v =>
    have hx : x = .var (evalTV env v) := h.eq
    subst hx
    exact ⟨h.bnd, rfl⟩

theorem isLitZero_rel {x : KV (ZMod p)} {tx : KV TV} (h : Rel env n x tx) :
    x.isLitZero = tx.isLitZero := by
  cases tx with
  | lit b => have hx : x = .lit b := h.eq; subst hx; cases b <;> rfl
  | var v => have hx : x = .var (evalTV env v) := h.eq; subst hx; rfl

theorem allZeroes_rel {l : Lane (ZMod p)} {tl : Lane TV} (h : Rel env n l tl) :
    allZeroes l = allZeroes tl := by
  induction tl generalizing l with
  | nil => have := h.nil_right; subst this; rfl
  | cons t tl ih =>
    obtain ⟨x, l', rfl, hx, hl'⟩ := h.cons_right
    simp only [allZeroes, List.all_cons] at ih ⊢
    rw [isLitZero_rel hx, ih hl']

theorem Rel.stGet {A : St (ZMod p)} {tA : St TV} (h : Rel env n A tA) (x y : ℕ) :
    Rel env n (A.get x y) (tA.get x y) :=
  (h.getD Rel.nil x).getD Rel.nil y

theorem Rel.stSet {A : St (ZMod p)} {tA : St TV} (h : Rel env n A tA) (x y : ℕ)
    {l : Lane (ZMod p)} {tl : Lane TV} (hl : Rel env n l tl) :
    Rel env n (A.set x y l) (tA.set x y tl) :=
  Rel.set h x (Rel.set (h.getD Rel.nil x) y hl)

theorem Rel.rotLane {a : Lane (ZMod p)} {ta : Lane TV} (h : Rel env n a ta) (r : ℕ) :
    Rel env n (rotLane a r) (rotLane ta r) := by
  simp only [Keccak.rotLane, h.length_eq]
  exact Rel.map_plain _ fun i _ => h.getD (Rel.kvLit false) _

theorem Rel.rcBits (c : ℕ) : Rel env n (rcBits c : Lane (ZMod p)) (rcBits c : Lane TV) :=
  Rel.map_plain _ fun _ _ => Rel.kvLit _

theorem Rel.zeroState : Rel env n (zeroState : St (ZMod p)) (zeroState : St TV) :=
  Rel.map_plain _ fun _ _ => Rel.map_plain _ fun _ _ => Rel.replicate _ (Rel.kvLit false)

/-- the ρ/π wiring of `keccakRound` -/
def rhoPi {V : Type} (A : St V) : St V :=
  (List.range 5).foldl (fun B x => (List.range 5).foldl (fun B y =>
      B.set y ((2*x+3*y)%5) (Keccak.rotLane (A.get x y) ((rotOffsets.getD x []).getD y 0))) B)
    ((List.range 5).map fun _ => (List.range 5).map fun _ => [])

theorem Rel.rhoPi {A : St (ZMod p)} {tA : St TV} (h : Rel env n A tA) :
    Rel env n (rhoPi A) (rhoPi tA) := by
  have h0 : Rel env n
      ((List.range 5).map fun _ => (List.range 5).map fun _ => ([] : Lane (ZMod p)))
      ((List.range 5).map fun _ => (List.range 5).map fun _ => ([] : Lane TV)) :=
    Rel.map_plain _ fun _ _ => Rel.map_plain _ fun _ _ => Rel.nil
  have hin : ∀ (x : ℕ) (B : St (ZMod p)) (tB : St TV) (y : ℕ), Rel env n B tB →
      Rel env n (B.set y ((2*x+3*y)%5) (Keccak.rotLane (A.get x y) ((rotOffsets.getD x []).getD y 0)))
        (tB.set y ((2*x+3*y)%5) (Keccak.rotLane (tA.get x y) ((rotOffsets.getD x []).getD y 0))) :=
    fun x B tB y hB => hB.stSet _ _ ((h.stGet x y).rotLane _)
  exact Rel.foldl_plain (List.range 5) (fun B tB x hB =>
    Rel.foldl_plain (List.range 5) (hin x) hB) h0

theorem Rel.paddedMsg (dom : ℕ) {data : List (ZMod p)} {tdata : List TV}
    (hd : Rel env n data tdata) : Rel env n (paddedMsg dom data) (paddedMsg dom tdata) := by
  have hP0 : Rel env n
      (data.map KV.var ++ (List.range 8).map (fun i => (KV.lit (dom.testBit i) : KV (ZMod p))))
      (tdata.map KV.var ++ (List.range 8).map (fun i => (KV.lit (dom.testBit i) : KV TV))) :=
    (Rel.map (fun _ _ h => h.kvVar) hd).append (Rel.map_plain _ fun _ _ => Rel.kvLit _)
  have hlen := hP0.length_eq
  simp only [Keccak.paddedMsg]
  rw [hd.length_eq, hlen]
  exact hP0.append (Rel.replicate _ (Rel.kvLit false))

theorem Rel.mapToV {l : Lane (ZMod p)} {tl : Lane TV} (h : Rel env n l tl) :
    Rel env n (l.map (KV.toV (m := SatM p))) (tl.map (KV.toV (m := TraceM))) :=
  Rel.map (fun _ _ h => h.toV) h

end kv

variable {H : ZMod p → ZMod p → ZMod p} {K : List ℕ → List (ZMod p) → List (ZMod p)}
variable {names : List String}

theorem sim_xorLane {env : Env p} {st : TState} {a b : Lane (ZMod p)} {ta tb : Lane TV}
    (ha : Rel env st.next a ta) (hb : Rel env st.next b tb) :
    Sim H K names env st (xorLane a b) (xorLane ta tb) := by
  unfold xorLane
  refine Sim_zipWithM' ta tb env st a b ha hb fun env1 st1 x tx y ty e1 hx hy => ?_
  refine Sim_bind (sim_xor hx.toV hy.toV) fun env2 st2 r tr e2 hr => ?_
  exact Sim_pure hr.kvVar

theorem sim_andLane {env : Env p} {st : TState} {a b : Lane (ZMod p)} {ta tb : Lane TV}
    (ha : Rel env st.next a ta) (hb : Rel env st.next b tb) :
    Sim H K names env st (andLane a b) (andLane ta tb) := by
  unfold andLane
  refine Sim_zipWithM' ta tb env st a b ha hb fun env1 st1 x tx y ty e1 hx hy => ?_
  refine Sim_bind (sim_and hx.toV hy.toV) fun env2 st2 r tr e2 hr => ?_
  exact Sim_pure hr.kvVar

theorem sim_notLane {env : Env p} {st : TState} {a : Lane (ZMod p)} {ta : Lane TV}
    (ha : Rel env st.next a ta) : Sim H K names env st (notLane a) (notLane ta) := by
  unfold notLane
  refine Sim_mapM'_ext ta env st a ha fun env1 st1 x tx e1 hx => ?_
  refine Sim_bind (sim_sub (Rel.const _ _ 1) hx.toV) fun env2 st2 r tr e2 hr => ?_
  exact Sim_pure hr.kvVar

theorem sim_xor5Round {env : Env p} {st : TState} {a b c d e : KV (ZMod p)} {ta tb tc td te : KV TV}
    (ha : Rel env st.next a ta) (hb : Rel env st.next b tb) (hc : Rel env st.next c tc)
    (hd : Rel env st.next d td) (he : Rel env st.next e te) :
    Sim H K names env st (xor5Round a b c d e) (xor5Round ta tb tc td te) := by
  unfold xor5Round
  refine Sim_bind (sim_xor ha.toV hb.toV) fun env1 st1 ab tab e1 hab => ?_
  refine Sim_bind (sim_xor (hc.mono e1).toV hab) fun env2 st2 abc tabc e2 habc => ?_
  have e02 := e1.trans e2
  refine Sim_bind (sim_xor (hd.mono e02).toV habc) fun env3 st3 abcd tabcd e3 habcd => ?_
  refine Sim_bind (sim_xor (he.mono (e02.trans e3)).toV habcd) fun env4 st4 r tr e4 hr => ?_
  exact Sim_pure hr.kvVar

theorem sim_xor5 : ∀ (ta tb tc td te : Lane TV) (env : Env p) (st : TState)
    (a b c d e : Lane (ZMod p)), Rel env st.next a ta → Rel env st.next b tb →
    Rel env st.next c tc → Rel env st.next d td → Rel env st.next e te →
    Sim H K names env st (xor5 a b c d e) (xor5 ta tb tc td te)
  | ta0 :: ta, tb0 :: tb, tc0 :: tc, td0 :: td, te0 :: te, env, st, a, b, c, d, e,
      ha, hb, hc, hd, he => by
    obtain ⟨a0, a', rfl, ha0, ha'⟩ := ha.cons_right
    obtain ⟨b0, b', rfl, hb0, hb'⟩ := hb.cons_right
    obtain ⟨c0, c', rfl, hc0, hc'⟩ := hc.cons_right
    obtain ⟨d0, d', rfl, hd0, hd'⟩ := hd.cons_right
    obtain ⟨e0, e', rfl, he0, he'⟩ := he.cons_right
    show Sim H K names env st
      (xor5Round a0 b0 c0 d0 e0 >>= fun r => xor5 a' b' c' d' e' >>= fun rs => pure (r :: rs))
      (xor5Round ta0 tb0 tc0 td0 te0 >>= fun r => xor5 ta tb tc td te >>= fun rs => pure (r :: rs))
    refine Sim_bind (sim_xor5Round ha0 hb0 hc0 hd0 he0) fun env1 st1 r tr e1 hr => ?_
    refine Sim_bind (sim_xor5 ta tb tc td te env1 st1 a' b' c' d' e' (ha'.mono e1) (hb'.mono e1)
      (hc'.mono e1) (hd'.mono e1) (he'.mono e1)) fun env2 st2 rs trs e2 hrs => ?_
    exact Sim_pure ((hr.mono e2).cons hrs)
  | [], _, _, _, _, env, st, a, b, c, d, e, ha, _, _, _, _ => by
    have := ha.nil_right; subst this
    simp only [xor5]
    exact Sim_pure Rel.nil
  | _ :: _, [], _, _, _, env, st, a, b, c, d, e, ha, hb, _, _, _ => by
    obtain ⟨a0, a', rfl, -, -⟩ := ha.cons_right
    have := hb.nil_right; subst this
    simp only [xor5]
    exact Sim_pure Rel.nil
  | _ :: _, _ :: _, [], _, _, env, st, a, b, c, d, e, ha, hb, hc, _, _ => by
    obtain ⟨a0, a', rfl, -, -⟩ := ha.cons_right
    obtain ⟨b0, b', rfl, -, -⟩ := hb.cons_right
    have := hc.nil_right; subst this
    simp only [xor5]
    exact Sim_pure Rel.nil
  | _ :: _, _ :: _, _ :: _, [], _, env, st, a, b, c, d, e, ha, hb, hc, hd, _ => by
    obtain ⟨a0, a', rfl, -, -⟩ := ha.cons_right
    obtain ⟨b0, b', rfl, -, -⟩ := hb.cons_right
    obtain ⟨c0, c', rfl, -, -⟩ := hc.cons_right
    have := hd.nil_right; subst this
    simp only [xor5]
    exact Sim_pure Rel.nil
  | _ :: _, _ :: _, _ :: _, _ :: _, [], env, st, a, b, c, d, e, ha, hb, hc, hd, he => by
    obtain ⟨a0, a', rfl, -, -⟩ := ha.cons_right
    obtain ⟨b0, b', rfl, -, -⟩ := hb.cons_right
    obtain ⟨c0, c', rfl, -, -⟩ := hc.cons_right
    obtain ⟨d0, d', rfl, -, -⟩ := hd.cons_right
    have := he.nil_right; subst this
    simp only [xor5]
    exact Sim_pure Rel.nil

/-- the `for x … for y …` loop over the 5×5 state -/
theorem Sim_forPairs {env : Env p} {st : TState}
    {f : St (ZMod p) → ℕ → ℕ → SatM p (St (ZMod p))} {g : St TV → ℕ → ℕ → TraceM (St TV)}
    {A : St (ZMod p)} {tA : St TV} (hA : Rel env st.next A tA)
    (hfg : ∀ (env1 : Env p) (st1 : TState) (A : St (ZMod p)) (tA : St TV) (x y : ℕ),
      Ext env st.next env1 st1.next → Rel env1 st1.next A tA →
      Sim H K names env1 st1 (f A x y) (g tA x y)) :
    Sim H K names env st (forPairs f A) (forPairs g tA) := by
  unfold forPairs
  refine Sim_foldlM' (List.range 5) env st (List.range 5) A tA (Rel.plain _) hA
    fun env1 st1 A1 tA1 x tx e1 hA1 hx => ?_
  have := hx.plain_eq; subst this
  refine Sim_foldlM' (List.range 5) env1 st1 (List.range 5) A1 tA1 (Rel.plain _) hA1
    fun env2 st2 A2 tA2 y ty e2 hA2 hy => ?_
  have := hy.plain_eq; subst this
  exact hfg env2 st2 A2 tA2 x y (e1.trans e2) hA2

theorem sim_keccakRound {env : Env p} {st : TState} {A : St (ZMod p)} {tA : St TV}
    {rc : Lane (ZMod p)} {trc : Lane TV} (hA : Rel env st.next A tA) (hrc : Rel env st.next rc trc) :
    Sim H K names env st (keccakRound A rc) (keccakRound tA trc) := by
  unfold keccakRound
  -- theta
  refine Sim_bind (Sim_mapM'_ext (List.range 5) env st (List.range 5) (Rel.plain _)
    fun env1 st1 x tx e1 hx => ?_) fun env1 st1 C tC e1 hC => ?_
  · have := hx.plain_eq; subst this
    have hA1 := hA.mono e1
    exact sim_xor5 _ _ _ _ _ env1 st1 _ _ _ _ _ (hA1.stGet x 0) (hA1.stGet x 1) (hA1.stGet x 2)
      (hA1.stGet x 3) (hA1.stGet x 4)
  refine Sim_bind (Sim_mapM'_ext (List.range 5) env1 st1 (List.range 5) (Rel.plain _)
    fun env2 st2 x tx e2 hx => ?_) fun env2 st2 D tD e2 hD => ?_
  · have := hx.plain_eq; subst this
    have hC2 := hC.mono e2
    exact sim_xorLane (hC2.getD Rel.nil _) ((hC2.getD Rel.nil _).rotLane 1)
  have e02 := e1.trans e2
  refine Sim_bind (Sim_forPairs (hA.mono e02) fun env3 st3 A3 tA3 x y e3 hA3 => ?_)
    fun env3 st3 A1 tA1 e3 hA1 => ?_
  · refine Sim_bind (sim_xorLane (hA3.stGet x y) ((hD.mono e3).getD Rel.nil x))
      fun env4 st4 l tl e4 hl => ?_
    exact Sim_pure ((hA3.mono e4).stSet x y hl)
  have e03 := e02.trans e3
  -- rho / pi (pure wiring), chi
  have hB : Rel env3 st3.next (rhoPi A1) (rhoPi tA1) := hA1.rhoPi
  refine Sim_bind (Sim_forPairs hA1 fun env4 st4 A4 tA4 x y e4 hA4 => ?_)
    fun env4 st4 A2 tA2 e4 hA2 => ?_
  · have hB4 := hB.mono e4
    refine Sim_bind (sim_notLane (hB4.stGet ((x+1)%5) y)) fun env5 st5 left tleft e5 hleft => ?_
    refine Sim_bind (sim_andLane hleft ((hB4.mono e5).stGet ((x+2)%5) y))
      fun env6 st6 tmp ttmp e6 htmp => ?_
    have e46 := e5.trans e6
    refine Sim_bind (sim_xorLane ((hB4.mono e46).stGet x y) htmp) fun env7 st7 l tl e7 hl => ?_
    exact Sim_pure ((hA4.mono (e46.trans e7)).stSet x y hl)
  -- iota
  refine Sim_bind (sim_xorLane (hA2.stGet 0 0) (hrc.mono (e03.trans e4)))
    fun env5 st5 l tl e5 hl => ?_
  exact Sim_pure ((hA2.mono e5).stSet 0 0 hl)

theorem sim_keccakF {env : Env p} {st : TState} {A : St (ZMod p)} {tA : St TV}
    (hA : Rel env st.next A tA) : Sim H K names env st (keccakF A) (keccakF tA) := by
  unfold keccakF
  refine Sim_foldlM' rcTable env st rcTable A tA (Rel.plain _) hA
    fun env1 st1 A1 tA1 c tc e1 hA1 hc => ?_
  have := hc.plain_eq; subst this
  exact sim_keccakRound hA1 (Rel.rcBits c)

theorem sim_absorbBlock {env : Env p} {st : TState} {P : List (KV (ZMod p))} {tP : List (KV TV)}
    (hP : Rel env st.next P tP) (blk : ℕ) {S : St (ZMod p)} {tS : St TV}
    (hS : Rel env st.next S tS) :
    Sim H K names env st (absorbBlock P blk S) (absorbBlock tP blk tS) := by
  unfold absorbBlock
  refine Sim_forPairs hS fun env1 st1 S1 tS1 x y e1 hS1 => ?_
  have hPi := ((hP.mono e1).drop (blk*blockSize + (x+5*y)*laneSize)).take laneSize
  have hg := hS1.stGet x y
  by_cases hc : x + 5*y < blockSize / laneSize
  · simp only [if_pos hc]
    rw [allZeroes_rel hg, allZeroes_rel hPi]
    by_cases h1 : allZeroes (tS1.get x y) = true
    · simp only [if_pos h1]
      exact Sim_pure (hS1.stSet x y hPi)
    · simp only [if_neg h1]
      by_cases h2 : allZeroes ((tP.drop (blk*blockSize + (x+5*y)*laneSize)).take laneSize) = true
      · simp only [if_pos h2]
        exact Sim_pure hS1
      · simp only [if_neg h2]
        refine Sim_bind (sim_xorLane hg hPi) fun env2 st2 l tl e2 hl => ?_
        exact Sim_pure ((hS1.mono e2).stSet x y hl)
  · simp only [if_neg hc]
    exact Sim_pure hS1

theorem sim_keccakBody {env : Env p} {st : TState} (dom : ℕ) {data : List (ZMod p)}
    {tdata : List TV} (hd : Rel env st.next data tdata) :
    Sim H K names env st (keccakBody dom data) (keccakBody dom tdata) := by
  unfold keccakBody
  rw [hd.length_eq]
  have hP1 := Rel.paddedMsg dom hd
  refine Sim_bind (sim_xor (hP1.getD (Rel.kvLit false) (paddedSize tdata.length - 1)).toV
    (Rel.const _ _ 1)) fun env1 st1 lastV tlastV e1 hlast => ?_
  have hP := Rel.set (hP1.mono e1) (paddedSize tdata.length - 1) hlast.kvVar
  refine Sim_bind (Sim_foldlM' (List.range (paddedSize tdata.length / blockSize)) env1 st1
    (List.range (paddedSize tdata.length / blockSize)) zeroState zeroState (Rel.plain _)
    Rel.zeroState fun env2 st2 S tS blk tblk e2 hS hblk => ?_) fun env2 st2 S tS e2 hS => ?_
  · have := hblk.plain_eq; subst this
    refine Sim_bind (sim_absorbBlock (hP.mono e2) blk hS) fun env3 st3 S' tS' e3 hS' => ?_
    exact sim_keccakF hS'
  exact Sim_pure (Rel.mapToV ((((hS.stGet 0 0).append (hS.stGet 1 0)).append (hS.stGet 2 0)).append
    (hS.stGet 3 0)))

theorem sim_keccakGadget_body (hname : "KeccakGadget" ∉ names) {env : Env p} {st : TState}
    (dom : ℕ) {data : List (ZMod p)} {tdata : List TV} (hd : Rel env st.next data tdata) :
    Sim H K names env st (keccakGadget dom data) (keccakGadget dom tdata) := by
  unfold keccakGadget
  exact Sim_opaqueN hname _ _ _ _ _ (sim_keccakBody dom hd)

variable (H K)

/-- **KeccakGadget** with domain byte `dom` on `n` input bits, body expanded: `names` must not
contain `"KeccakGadget"` -/
theorem keccakGadget_trace_iff' (hname : "KeccakGadget" ∉ names) (dom n : ℕ)
    (data : List (ZMod p)) (hl : data.length = n) (kont : List (ZMod p) → Prop) :
    (keccakGadget dom data : SatM p _) kont ↔
      ∃ env : Env p, InputsAre env data ∧ denote p H K env (traceOf names (traceKeccak dom n)) ∧
        kont ((resultOf names (traceKeccak dom n)).map (evalTV env)) := by
  refine Sim.top (n := 0 + n)
    (y' := keccakGadget dom ((List.range n).map fun i => TV.v (0 + i)) >>= fun r =>
      ret r >>= fun _ => pure r)
    _ (by simp [hl]) rfl (fun env hin => ?_) kont
  exact Sim_ret (fun r => "ret" ++ TraceM.tvList r)
    (sim_keccakGadget_body hname dom (Rel.inputs hl (le_refl _) hin.at0))

end keccak

end Smtb.TraceSound
