import Smtb.Circuit.Bits
import Smtb.Model.Bits
import Smtb.Proofs.Sat
import Mathlib.Data.Nat.Log
import Mathlib.Data.List.Basic
import Mathlib.Tactic.Ring
/-!
# Helper lemmas for the bit-encoding gadgets (`Smtb.Properties.C06`)

* little-endian bit strings: `natOfBits`, `Merkle.bitsLE`;
* `swapByteOrder`: reverses the order of 8-bit groups (dropping `length % 8` low positions);
* byte strings: `bytesBE`, `natOfBytesBE`, `bitsOfBytes`, `bytesOfBits`;
* `bitLen`;
* the comparison scan of `ReducedModRCheck`, first as a pure Boolean program `scanB`, then its
  arithmetic meaning, then the tie to the satisfiability semantics of `Circuit.reducedLoop`.
-/
namespace Smtb
open Smtb.Sat Smtb.Merkle Smtb.Bits

/-! ## little-endian bit strings -/

theorem natOfBitsLE_eq (bs : List Bool) : natOfBitsLE bs = natOfBits bs := by
  induction bs with
  | nil => rfl
  | cons b bs ih => simp [natOfBitsLE, natOfBits, ih]

theorem natOfBits_append (l m : List Bool) :
    natOfBits (l ++ m) = natOfBits l + 2 ^ l.length * natOfBits m := by
  induction l with
  | nil => simp [natOfBits]
  | cons b l ih => simp only [List.cons_append, natOfBits, ih, List.length_cons, pow_succ]; ring

@[simp] theorem length_bitsLE (n x : ℕ) : (bitsLE n x).length = n := by
  induction n generalizing x with
  | zero => rfl
  | succ n ih => simp [bitsLE, ih]

theorem natOfBits_bitsLE (n x : ℕ) : natOfBits (bitsLE n x) = x % 2 ^ n := by
  induction n generalizing x with
  | zero => simp [bitsLE, natOfBits, Nat.mod_one]
  | succ n ih =>
    simp only [bitsLE, natOfBits, ih]
    have h := Nat.mod_pow_succ (x := x) (b := 2) (k := n)
    have h2 : x % 2 ^ (n + 1) = x % 2 + 2 * (x / 2 % 2 ^ n) := by
      rw [pow_succ, mul_comm, Nat.mod_mul]
    rw [h2]
    rcases Nat.mod_two_eq_zero_or_one x with h0 | h1
    · simp [h0]
    · simp [h1]

theorem bitsLE_natOfBits (bs : List Bool) : bitsLE bs.length (natOfBits bs) = bs := by
  induction bs with
  | nil => rfl
  | cons b bs ih =>
    simp only [List.length_cons, bitsLE, natOfBits]
    have h1 : ((if b then 1 else 0) + 2 * natOfBits bs) / 2 = natOfBits bs := by
      cases b <;> simp
      omega
    have h2 : (((if b then 1 else 0) + 2 * natOfBits bs) % 2 == 1) = b := by
      cases b <;> simp
    rw [h1, h2, ih]

/-- a bit string is determined by its length and its value -/
theorem eq_bitsLE_of_natOfBits {bs : List Bool} {n x : ℕ} (hl : bs.length = n)
    (hx : natOfBits bs = x) : bs = bitsLE n x := by
  subst hl hx; exact (bitsLE_natOfBits bs).symm

theorem bitsLE_mod (n x : ℕ) : bitsLE n (x % 2 ^ n) = bitsLE n x := by
  have h : natOfBits (bitsLE n x) = x % 2 ^ n := natOfBits_bitsLE n x
  have := bitsLE_natOfBits (bitsLE n x)
  rw [length_bitsLE, h] at this
  exact this

theorem bitsLE_add (a b x : ℕ) : bitsLE (a + b) x = bitsLE a x ++ bitsLE b (x / 2 ^ a) := by
  induction a generalizing x with
  | zero => simp [bitsLE]
  | succ a ih =>
    rw [Nat.add_right_comm]
    simp only [bitsLE, List.cons_append, ih]
    rw [Nat.div_div_eq_div_mul, pow_succ, mul_comm]

/-! ## `swapByteOrder` -/

theorem swapByteOrder_map {α β : Type} (f : α → β) (l : List α) :
    swapByteOrder (l.map f) = (swapByteOrder l).map f := by
  simp only [swapByteOrder, List.length_map, List.map_flatMap, List.map_take, List.map_drop]

theorem length_swapByteOrder {α : Type} (l : List α) :
    (swapByteOrder l).length = 8 * (l.length / 8) := by
  unfold swapByteOrder
  rw [List.length_flatMap]
  have : ∀ j ∈ List.range (l.length / 8),
      ((l.drop ((l.length - 8) - 8 * j)).take 8).length = 8 := by
    intro j hj
    rw [List.mem_range] at hj
    rw [List.length_take, List.length_drop]
    omega
  rw [List.map_congr_left this]
  simp [Nat.mul_comm]

/-- the key recursion: a new most-significant group moves to the front -/
theorem swapByteOrder_append {α : Type} (l c : List α) (hc : c.length = 8) :
    swapByteOrder (l ++ c) = c ++ swapByteOrder l := by
  unfold swapByteOrder
  have hn : (l ++ c).length / 8 = l.length / 8 + 1 := by
    rw [List.length_append, hc]; omega
  simp only [hn, List.range_succ_eq_map, List.flatMap_cons, List.flatMap_map]
  congr 1
  · rw [List.length_append, hc, Nat.add_sub_cancel, Nat.mul_zero, Nat.sub_zero,
      List.drop_left, List.take_of_length_le (le_of_eq hc)]
  · apply List.flatMap_congr
    intro j hj
    rw [List.mem_range] at hj
    rw [List.length_append, hc, Nat.add_sub_cancel]
    have h1 : l.length - 8 * j.succ = l.length - 8 - 8 * j := by omega
    rw [h1]
    have h2 : l.length - 8 - 8 * j + 8 ≤ l.length := by omega
    rw [List.drop_append_of_le_length (by omega), List.take_append_of_le_length]
    rw [List.length_drop]; omega

theorem swapByteOrder_short {α : Type} (l : List α) (h : l.length < 8) : swapByteOrder l = [] := by
  unfold swapByteOrder
  rw [Nat.div_eq_of_lt h]; rfl

/-- `swapByteOrder` reverses the sequence of 8-element groups -/
theorem swapByteOrder_flatten {α : Type} (cs : List (List α)) (h : ∀ c ∈ cs, c.length = 8) :
    swapByteOrder cs.flatten = cs.reverse.flatten := by
  induction cs using List.reverseRecOn with
  | nil => exact swapByteOrder_short _ (by simp)
  | append_singleton cs c ih =>
    rw [List.flatten_append, List.flatten_singleton, List.reverse_append, List.reverse_singleton,
      List.singleton_append, List.flatten_cons,
      swapByteOrder_append _ _ (h c (by simp)), ih (fun c' hc' => h c' (by simp [hc']))]

/-- a list whose length is a multiple of 8 splits into groups of 8 -/
theorem exists_chunks {α : Type} (l : List α) (h : 8 ∣ l.length) :
    ∃ cs : List (List α), (∀ c ∈ cs, c.length = 8) ∧ l = cs.flatten := by
  obtain ⟨n, hn⟩ := h
  induction n generalizing l with
  | zero =>
    refine ⟨[], by simp, ?_⟩
    simpa using hn
  | succ n ih =>
    obtain ⟨cs, hcs, hl⟩ := ih (l.drop 8) (by rw [List.length_drop]; omega)
    refine ⟨l.take 8 :: cs, ?_, ?_⟩
    · intro c hc
      rcases List.mem_cons.mp hc with rfl | hc
      · rw [List.length_take]; omega
      · exact hcs c hc
    · rw [List.flatten_cons, ← hl, List.take_append_drop]

theorem swapByteOrder_involutive {α : Type} (l : List α) (h : 8 ∣ l.length) :
    swapByteOrder (swapByteOrder l) = l := by
  obtain ⟨cs, hcs, rfl⟩ := exists_chunks l h
  rw [swapByteOrder_flatten cs hcs, swapByteOrder_flatten cs.reverse (by simpa using hcs),
    List.reverse_reverse]

/-- the `length % 8` least significant positions are dropped by the Go loop (it starts at
`len - 8` and steps down by 8 while the index is non-negative) -/
theorem swapByteOrder_drop_mod {α : Type} (l : List α) :
    swapByteOrder l = swapByteOrder (l.drop (l.length % 8)) := by
  have hd : 8 ∣ (l.drop (l.length % 8)).length := by
    rw [List.length_drop]; exact Nat.dvd_sub_mod _
  obtain ⟨cs, hcs, hl⟩ := exists_chunks _ hd
  have hl' : l = l.take (l.length % 8) ++ cs.flatten := by rw [← hl, List.take_append_drop]
  have key : ∀ (cs : List (List α)) (pre : List α), pre.length < 8 → (∀ c ∈ cs, c.length = 8) →
      swapByteOrder (pre ++ cs.flatten) = cs.reverse.flatten := by
    intro cs pre hpre
    induction cs using List.reverseRecOn with
    | nil => intro _; simpa using swapByteOrder_short pre hpre
    | append_singleton cs c ih =>
      intro h
      rw [List.flatten_append, List.flatten_singleton, ← List.append_assoc,
        swapByteOrder_append _ _ (h c (by simp)), ih (fun c' hc' => h c' (by simp [hc'])),
        List.reverse_append, List.reverse_singleton, List.singleton_append, List.flatten_cons]
  rw [hl, swapByteOrder_flatten cs hcs]
  conv_lhs => rw [hl']
  exact key cs _ (by rw [List.length_take]; omega) hcs

/-! ## byte strings -/

theorem length_bitsOfByte (b : ℕ) : (bitsOfByte b).length = 8 := length_bitsLE 8 b

theorem bitsOfBytes_cons (b : ℕ) (bytes : List ℕ) :
    bitsOfBytes (b :: bytes) = bitsOfByte b ++ bitsOfBytes bytes := rfl

theorem bitsOfBytes_append (l m : List ℕ) :
    bitsOfBytes (l ++ m) = bitsOfBytes l ++ bitsOfBytes m := by
  simp [bitsOfBytes]

theorem length_bitsOfBytes (bytes : List ℕ) : (bitsOfBytes bytes).length = 8 * bytes.length := by
  induction bytes with
  | nil => rfl
  | cons b bytes ih => rw [bitsOfBytes_cons, List.length_append, length_bitsOfByte, ih,
      List.length_cons]; omega

theorem length_bytesBE (w x : ℕ) : (bytesBE w x).length = w := by
  induction w with
  | zero => rfl
  | succ w ih => simp [bytesBE, ih]

theorem bytesBE_lt (w x : ℕ) : ∀ b ∈ bytesBE w x, b < 256 := by
  induction w with
  | zero => simp [bytesBE]
  | succ w ih =>
    intro b hb
    rcases List.mem_cons.mp hb with rfl | hb
    · exact Nat.mod_lt _ (by norm_num)
    · exact ih b hb

theorem natOfBits_bitsOfByte (b : ℕ) (hb : b < 256) : natOfBits (bitsOfByte b) = b := by
  rw [bitsOfByte, natOfBits_bitsLE]; exact Nat.mod_eq_of_lt hb

theorem bitsOfByte_mod (b : ℕ) : bitsOfByte (b % 256) = bitsOfByte b := bitsLE_mod 8 b

/-- `swapByteOrder` of the bit string of a byte string is the bit string of the reversed bytes -/
theorem swapByteOrder_bitsOfBytes (bytes : List ℕ) :
    swapByteOrder (bitsOfBytes bytes) = bitsOfBytes bytes.reverse := by
  have h := swapByteOrder_flatten (bytes.map bitsOfByte)
    (by intro c hc; obtain ⟨b, _, rfl⟩ := List.mem_map.mp hc; exact length_bitsOfByte b)
  simpa [bitsOfBytes, List.flatMap_def, List.map_reverse] using h

theorem natOfBytesBE_append_singleton (bytes : List ℕ) (b : ℕ) :
    natOfBytesBE (bytes ++ [b]) = natOfBytesBE bytes * 256 + b := by
  simp [natOfBytesBE]

theorem natOfBytesBE_cons (b : ℕ) (bytes : List ℕ) :
    natOfBytesBE (b :: bytes) = b * 256 ^ bytes.length + natOfBytesBE bytes := by
  induction bytes using List.reverseRecOn with
  | nil => simp [natOfBytesBE]
  | append_singleton bytes c ih =>
    rw [← List.cons_append, natOfBytesBE_append_singleton, ih, natOfBytesBE_append_singleton,
      List.length_append, List.length_singleton, pow_succ]
    ring

theorem natOfBytesBE_bytesBE_mod (w x : ℕ) : natOfBytesBE (bytesBE w x) = x % 256 ^ w := by
  induction w with
  | zero => simp [bytesBE, natOfBytesBE, Nat.mod_one]
  | succ w ih =>
    rw [bytesBE, natOfBytesBE_cons, ih, length_bytesBE, Nat.mod_pow_succ]
    ring

/-- the bit string the circuit emits for `x`, for every `x` (only `x % 256^w` matters) -/
theorem swapByteOrder_bitsLE_mod (w x : ℕ) :
    swapByteOrder (bitsLE (8 * w) x) = bitsOfBytes (bytesBE w x) := by
  induction w with
  | zero => exact swapByteOrder_short _ (by simp)
  | succ w ih =>
    have h8 : 8 * (w + 1) = 8 * w + 8 := by ring
    rw [h8, bitsLE_add, swapByteOrder_append _ _ (length_bitsLE 8 _), ih, bytesBE,
      bitsOfBytes_cons]
    congr 1
    have : (2:ℕ) ^ (8 * w) = 256 ^ w := by rw [pow_mul]; norm_num
    rw [this]
    exact (bitsOfByte_mod _).symm

theorem natOfBits_swapByteOrder_bitsOfBytes (bytes : List ℕ) (h : ∀ b ∈ bytes, b < 256) :
    natOfBits (swapByteOrder (bitsOfBytes bytes)) = natOfBytesBE bytes := by
  rw [swapByteOrder_bitsOfBytes]
  induction bytes using List.reverseRecOn with
  | nil => rfl
  | append_singleton bytes b ih =>
    rw [List.reverse_append, List.reverse_singleton, List.singleton_append, bitsOfBytes_cons,
      natOfBits_append, length_bitsOfByte, natOfBits_bitsOfByte b (h b (by simp)),
      ih (fun c hc => h c (by simp [hc])), natOfBytesBE_append_singleton]
    ring

theorem bytesOfBits_bitsOfBytes (bytes : List ℕ) (h : ∀ b ∈ bytes, b < 256) :
    bytesOfBits (bitsOfBytes bytes) = bytes := by
  unfold bytesOfBits
  rw [length_bitsOfBytes, Nat.mul_div_cancel_left _ (by norm_num : 0 < 8)]
  induction bytes with
  | nil => rfl
  | cons b bytes ih =>
    have hb := length_bitsOfByte b
    rw [List.length_cons, bytesOfBits.go, bitsOfBytes_cons, List.take_left' hb,
      List.drop_left' hb, natOfBitsLE_eq, natOfBits_bitsOfByte b (h b (by simp)),
      ih (fun c hc => h c (by simp [hc]))]

theorem bitsOfBytes_bytesOfBits (bs : List Bool) (h : 8 ∣ bs.length) :
    bitsOfBytes (bytesOfBits bs) = bs := by
  obtain ⟨n, hn⟩ := h
  unfold bytesOfBits
  rw [hn, Nat.mul_div_cancel_left _ (by norm_num : 0 < 8)]
  induction n generalizing bs with
  | zero =>
    have : bs = [] := by simpa using hn
    subst this; rfl
  | succ n ih =>
    rw [bytesOfBits.go, bitsOfBytes_cons, ih (bs.drop 8) (by rw [List.length_drop]; omega),
      natOfBitsLE_eq, bitsOfByte]
    have ht : (bs.take 8).length = 8 := by rw [List.length_take]; omega
    have := bitsLE_natOfBits (bs.take 8)
    rw [ht] at this
    rw [this, List.take_append_drop]

/-! ## `bitLen` -/

theorem lt_two_pow_bitLen (p : ℕ) : p < 2 ^ bitLen p := by
  unfold bitLen
  split
  · subst_vars; norm_num
  · exact Nat.lt_log2_self

theorem two_pow_bitLen_pred_le {p : ℕ} (hp : p ≠ 0) : 2 ^ (bitLen p - 1) ≤ p := by
  unfold bitLen
  rw [if_neg hp, Nat.add_sub_cancel]
  exact Nat.log2_self_le hp

theorem two_pow_le_of_lt_bitLen {p n : ℕ} (hp : p ≠ 0) (h : n < bitLen p) : 2 ^ n ≤ p :=
  le_trans (Nat.pow_le_pow_right (by norm_num) (by omega)) (two_pow_bitLen_pred_le hp)

theorem mod_two_pow_of_bitLen_le {p n : ℕ} (h : bitLen p ≤ n) : p % 2 ^ n = p :=
  Nat.mod_eq_of_lt (lt_of_lt_of_le (lt_two_pow_bitLen p) (Nat.pow_le_pow_right (by norm_num) h))

theorem reducedOk_iff (p : ℕ) (bs : List Bool) :
    reducedOk p bs = true ↔ bs.length < bitLen p ∨ natOfBits bs < p := by
  simp [reducedOk, natOfBitsLE_eq]

/-! ## the comparison scan of `ReducedModRCheck` -/

/-- the scan as a pure Boolean program: list most significant digit first, the head is at
position `rest.length`; state `(failed, succeeded)` -/
def scanB (p : ℕ) : List Bool → Bool → Bool → Bool × Bool
  | [], f, s => (f, s)
  | x :: rest, f, s =>
    if p.testBit rest.length = false then scanB p rest (!s && (x || f)) s
    else scanB p rest f (!f && (!x || s))

/-- arithmetic meaning of the scan: with `X`, `P` the numbers read so far from the input and from
the modulus, the state is `(P < X, X < P)`; reading the digits `bs` extends `X` by `bs` and `P` by
the corresponding bits of `p` -/
theorem scanB_eq (p : ℕ) (bs : List Bool) (X P : ℕ) :
    scanB p bs (decide (P < X)) (decide (X < P)) =
      (decide (P * 2 ^ bs.length + p % 2 ^ bs.length < X * 2 ^ bs.length + natOfBits bs.reverse),
       decide (X * 2 ^ bs.length + natOfBits bs.reverse < P * 2 ^ bs.length + p % 2 ^ bs.length)) := by
  induction bs generalizing X P with
  | nil => simp [scanB, natOfBits, Nat.mod_one]
  | cons b bs ih =>
    have hX : X * 2 ^ (b :: bs).length + natOfBits (b :: bs).reverse
        = (2 * X + (if b then 1 else 0)) * 2 ^ bs.length + natOfBits bs.reverse := by
      rw [List.reverse_cons, natOfBits_append, List.length_reverse, List.length_cons, pow_succ]
      simp only [natOfBits]
      ring
    have hP : P * 2 ^ (b :: bs).length + p % 2 ^ (b :: bs).length
        = (2 * P + (p.testBit bs.length).toNat) * 2 ^ bs.length + p % 2 ^ bs.length := by
      rw [List.length_cons, Nat.mod_pow_succ, Nat.toNat_testBit, pow_succ]
      ring
    rw [hX, hP, ← ih, scanB]
    clear hX hP ih
    cases hbit : p.testBit bs.length
    · rw [if_pos rfl]
      congr 1
      · cases b <;> rw [Bool.eq_iff_iff] <;> (simp <;> omega)
      · cases b <;> rw [Bool.eq_iff_iff] <;> (simp <;> omega)
    · rw [if_neg (by simp)]
      congr 1
      · cases b <;> rw [Bool.eq_iff_iff] <;> (simp <;> omega)
      · cases b <;> rw [Bool.eq_iff_iff] <;> (simp <;> omega)

theorem scanB_zero (p : ℕ) (bs : List Bool) (h : bitLen p ≤ bs.length) :
    (scanB p bs false false).2 = decide (natOfBits bs.reverse < p) := by
  have := scanB_eq p bs 0 0
  simp only [Nat.lt_irrefl, decide_false, Nat.zero_mul, Nat.zero_add] at this
  rw [this, mod_two_pow_of_bitLen_le h]

section sat
variable {p : ℕ} [Fact p.Prime]
open CircuitApi

private theorem sel_or (s x f : Bool) :
    (embed x + embed f - embed x * embed f : ZMod p)
        + embed s * (0 - (embed x + embed f - embed x * embed f))
      = embed (!s && (x || f)) := by
  cases s <;> cases x <;> cases f <;> simp [embed]

private theorem one_sub_embed (x : Bool) : (1 - embed x : ZMod p) = embed (!x) := by
  cases x <;> simp [embed]

/-- satisfiability semantics of the scan: every digit must be boolean, and then the state evolves
as the pure Boolean program `scanB` -/
theorem reducedLoop_sat (xs : List (ZMod p)) (f s : Bool) (k : ZMod p × ZMod p → Prop) :
    (Circuit.reducedLoop p xs (embed f) (embed s) : SatM p _) k ↔
      ∃ bs : List Bool, xs = bs.map embed ∧
        k (embed (scanB p bs f s).1, embed (scanB p bs f s).2) := by
  induction xs generalizing f s with
  | nil =>
    simp only [Circuit.reducedLoop, SatM.pure_apply]
    constructor
    · intro h; exact ⟨[], rfl, h⟩
    · rintro ⟨bs, hbs, h⟩
      cases bs with
      | nil => exact h
      | cons b bs => simp at hbs
  | cons x rest ih =>
    unfold Circuit.reducedLoop
    simp only [SatM.bind_apply, assertBool_iff]
    constructor
    · rintro ⟨hx, h⟩
      obtain ⟨b, rfl⟩ := (isBool_iff_embed x).mp hx
      by_cases hbit : p.testBit rest.length = false
      · rw [if_pos hbit] at h
        simp only [SatM.bind_apply, or_iff, select_iff, const_eq, Nat.cast_zero] at h
        obtain ⟨-, -, -, h⟩ := h
        rw [sel_or] at h
        obtain ⟨bs, rfl, h'⟩ := (ih _ _).mp h
        refine ⟨b :: bs, rfl, ?_⟩
        rw [List.length_map] at hbit
        simpa [scanB, hbit] using h'
      · rw [if_neg hbit] at h
        simp only [SatM.bind_apply, sub_iff, or_iff, select_iff, const_eq, Nat.cast_zero,
          Nat.cast_one] at h
        obtain ⟨-, -, -, h⟩ := h
        rw [one_sub_embed, sel_or] at h
        obtain ⟨bs, rfl, h'⟩ := (ih _ _).mp h
        refine ⟨b :: bs, rfl, ?_⟩
        rw [List.length_map] at hbit
        simpa [scanB, hbit] using h'
    · rintro ⟨bs, hbs, h⟩
      cases bs with
      | nil => simp at hbs
      | cons b bs =>
        simp only [List.map_cons, List.cons.injEq] at hbs
        obtain ⟨rfl, rfl⟩ := hbs
        refine ⟨isBool_embed b, ?_⟩
        by_cases hbit : p.testBit (bs.map (embed (p := p))).length = false
        · rw [if_pos hbit]
          simp only [SatM.bind_apply, or_iff, select_iff, const_eq, Nat.cast_zero]
          refine ⟨isBool_embed _, isBool_embed _, isBool_embed _, ?_⟩
          rw [sel_or, ih]
          refine ⟨bs, rfl, ?_⟩
          rw [List.length_map] at hbit
          simpa [scanB, hbit] using h
        · rw [if_neg hbit]
          simp only [SatM.bind_apply, sub_iff, or_iff, select_iff, const_eq, Nat.cast_zero,
            Nat.cast_one]
          rw [one_sub_embed]
          refine ⟨isBool_embed _, isBool_embed _, isBool_embed _, ?_⟩
          rw [sel_or, ih]
          refine ⟨bs, rfl, ?_⟩
          rw [List.length_map] at hbit
          simpa [scanB, hbit] using h

theorem natCast_eq_iff_val {x : ℕ} (hx : x < p) (v : ZMod p) : (x : ZMod p) = v ↔ x = v.val := by
  constructor
  · rintro rfl; exact (ZMod.val_cast_of_lt hx).symm
  · rintro rfl; exact ZMod.natCast_zmod_val v

/-- `ToBinary` followed by the acceptance condition of `ReducedModRCheck` pins the digit string:
exactly the `n` low bits of the canonical representative, which must fit in `n` bits -/
theorem canonical_bits_iff (v : ZMod p) (n : ℕ) (bs : List Bool) :
    (bs.length = n ∧ (natOfBits bs : ZMod p) = v ∧ (bs.length < bitLen p ∨ natOfBits bs < p)) ↔
      v.val < 2 ^ n ∧ bs = bitsLE n v.val := by
  have hp0 : p ≠ 0 := (Fact.out : p.Prime).ne_zero
  constructor
  · rintro ⟨hlen, hv, h⟩
    have hlt : natOfBits bs < p := by
      rcases h with h | h
      · exact lt_of_lt_of_le (natOfBits_lt bs) (two_pow_le_of_lt_bitLen hp0 h)
      · exact h
    have hval := (natCast_eq_iff_val hlt v).mp hv
    refine ⟨?_, eq_bitsLE_of_natOfBits hlen hval⟩
    rw [← hval, ← hlen]; exact natOfBits_lt bs
  · rintro ⟨hv, rfl⟩
    have hval : natOfBits (bitsLE n v.val) = v.val := by
      rw [natOfBits_bitsLE, Nat.mod_eq_of_lt hv]
    refine ⟨length_bitsLE n _, ?_, Or.inr ?_⟩
    · rw [hval]; exact ZMod.natCast_zmod_val v
    · rw [hval]; exact ZMod.val_lt v

end sat

end Smtb
