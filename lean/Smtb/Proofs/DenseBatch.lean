import Smtb.Model.Merkle
import Smtb.Model.Batch
import Smtb.Proofs.Tree

/-!
# Helper lemmas: from "the path reproduces the root" to "the leaf has that value in that tree"

Core Lean only.  Everything here is over an abstract carrier `F`, an abstract two-to-one hash
`H : F → F → F` and an abstract empty-leaf value `zero : F`.

The lemmas that turn an equation between recomputed roots into facts about leaves take the
**explicit hypothesis**

`hinj : ∀ a b c d, H a b = H c d → a = c ∧ b = d`

(collision-freedom of `H`).  It is a *hypothesis* of each such lemma, never an axiom.  For the real
Poseidon2 compression function it is a cryptographic assumption (it is false as a mathematical
statement about a map `F × F → F` on a finite field, and only holds "computationally"); the
circuit theorems C01/C02/C03 do not use it.  The statements here are the bridge from what the
circuit theorems give (`Batch.insertionSpec` / `Batch.deletionSpec`: "each presented sibling path,
with the empty leaf / the presented item, recomputes to the running root") to the tree-level
meaning ("the leaf really is empty / really holds the item in the dense tree whose root is the
running root, the path is the genuine one, and the new root is the root of the updated tree").

Contents:
1. `recover_inj`, `recover_leaf_inj`, `recover_eq_rootOf_iff` (path binding);
2. `recover_pathOf_setLeaf` (no `hinj`): writing a leaf and recomputing along the genuine path;
3. one-slot meaning: `insertionStep_dense`, `deletionStep_dense`;
4. running leaf assignments `insertLeavesAt`, `insertLeaves`, `deleteLeaves` and their algebra;
5. batch meaning: `insertionSpec_dense_aux`, `deletionSpec_dense_aux`.
-/
namespace Smtb.DenseBatch

open Smtb.Merkle Smtb.Batch Smtb.Tree

variable {F : Type}

/-! ## 1. Path binding -/

section Binding

variable (H : F → F → F) (hinj : ∀ a b c d, H a b = H c d → a = c ∧ b = d)
include hinj

/-- two full-length recomputations along the same direction bits that agree at the top agree
everywhere: same leaf, same siblings -/
theorem recover_inj : ∀ (bits : List Bool) (sibs sibs' : List F) (v w : F),
    sibs.length = bits.length → sibs'.length = bits.length →
    recover H v sibs bits = recover H w sibs' bits → v = w ∧ sibs = sibs'
  | [], [], [], v, w, _, _, h => ⟨by simpa [recover] using h, rfl⟩
  | [], _ :: _, _, _, _, h, _, _ => by simp at h
  | [], [], _ :: _, _, _, _, h, _ => by simp at h
  | _ :: _, [], _, _, _, h, _, _ => by simp at h
  | _ :: _, _ :: _, [], _, _, _, h, _ => by simp at h
  | b :: bits, s :: sibs, s' :: sibs', v, w, h1, h2, h => by
    simp only [recover] at h
    obtain ⟨h3, rfl⟩ := recover_inj bits sibs sibs' _ _ (by simpa using h1) (by simpa using h2) h
    cases b
    · obtain ⟨rfl, rfl⟩ := hinj _ _ _ _ (by simpa using h3)
      exact ⟨rfl, rfl⟩
    · obtain ⟨rfl, rfl⟩ := hinj _ _ _ _ (by simpa using h3)
      exact ⟨rfl, rfl⟩

/-- two leaf values that recompute to the same root along the same path are equal (any lengths) -/
theorem recover_leaf_inj : ∀ (sibs : List F) (bits : List Bool) (v w : F),
    recover H v sibs bits = recover H w sibs bits → v = w
  | [], _, _, _, h => by simpa [recover] using h
  | _ :: _, [], _, _, h => by simpa [recover] using h
  | s :: sibs, b :: bits, v, w, h => by
    simp only [recover] at h
    have h3 := recover_leaf_inj sibs bits _ _ h
    cases b
    · exact (hinj _ _ _ _ (by simpa using h3)).1
    · exact (hinj _ _ _ _ (by simpa using h3)).2

/-- **Path binding.**  A path of the right length recomputes to the dense root over `f` iff the
leaf value is the one stored at that position and the path is the genuine sibling path. -/
theorem recover_eq_rootOf_iff (d : Nat) (f : Nat → F) (i : Nat) (v : F) (sibs : List F)
    (hlen : sibs.length = d) :
    recover H v sibs (bitsLE d i) = rootOf H d f ↔
      v = f (i % 2 ^ d) ∧ sibs = pathOf H d f i := by
  constructor
  · intro h
    rw [← recover_pathOf H d f i] at h
    exact recover_inj H hinj _ _ _ _ _ (by rw [hlen, bitsLE_length])
      (by rw [pathOf_length, bitsLE_length]) h
  · rintro ⟨rfl, rfl⟩
    exact recover_pathOf H d f i

end Binding

/-! ## 2. Writing a leaf -/

section Write

variable [Inhabited F] (H : F → F → F)

/-- recomputing with a new leaf value along the genuine path gives the root of the updated tree -/
theorem recover_pathOf_setLeaf (d : Nat) (f : Nat → F) (i : Nat) (v : F) :
    recover H v (pathOf H d f i) (bitsLE d i) = rootOf H d (setLeaf f (i % 2 ^ d) v) := by
  have h := recover_pathOf H d (setLeaf f (i % 2 ^ d) v) i
  rw [pathOf_setLeaf] at h
  simpa [setLeaf] using h

theorem setLeaf_self (f : Nat → F) (i : Nat) (v : F) : setLeaf f i v i = v := by simp [setLeaf]

theorem setLeaf_ne (f : Nat → F) {i j : Nat} (v : F) (h : j ≠ i) : setLeaf f i v j = f j := by
  simp [setLeaf, h]

end Write

/-! ## 3. One slot -/

section Step

variable [DecidableEq F] [Inhabited F] (H : F → F → F) (zero : F)
variable (hinj : ∀ a b c d, H a b = H c d → a = c ∧ b = d)
include hinj

/-- one insertion slot under the root of the dense tree over `f` -/
theorem insertionStep_dense (d idx : Nat) (item : F) (f : Nat → F) (prf : List F) (r : F)
    (hlen : prf.length = d) :
    insertionStep H zero d idx item (rootOf H d f) prf = some r ↔
      idx < 2 ^ d ∧ f idx = zero ∧ prf = pathOf H d f idx ∧
        r = rootOf H d (setLeaf f idx item) := by
  unfold insertionStep
  constructor
  · intro h
    split at h
    · rename_i hc
      obtain ⟨hlt, hrec⟩ := hc
      obtain ⟨hz, rfl⟩ := (recover_eq_rootOf_iff H hinj d f idx zero prf hlen).1 hrec
      rw [Nat.mod_eq_of_lt hlt] at hz
      refine ⟨hlt, hz.symm, rfl, ?_⟩
      have := recover_pathOf_setLeaf H d f idx item
      rw [Nat.mod_eq_of_lt hlt] at this
      rw [← this]
      exact (Option.some.inj h).symm
    · cases h
  · rintro ⟨hlt, hz, rfl, rfl⟩
    have h1 := recover_pathOf H d f idx
    rw [Nat.mod_eq_of_lt hlt, hz] at h1
    have h2 := recover_pathOf_setLeaf H d f idx item
    rw [Nat.mod_eq_of_lt hlt] at h2
    rw [if_pos ⟨hlt, h1⟩, h2]

/-- one deletion slot under the root of the dense tree over `f` -/
theorem deletionStep_dense (d idx : Nat) (item : F) (f : Nat → F) (prf : List F) (r : F)
    (hlen : prf.length = d) :
    deletionStep H zero d (rootOf H d f) idx item prf = some r ↔
      idx < 2 ^ (d + 1) ∧ (idx < 2 ^ d → item = f idx ∧ prf = pathOf H d f idx) ∧
        r = rootOf H d (if idx < 2 ^ d then setLeaf f idx zero else f) := by
  have hpow : 2 ^ (d + 1) = 2 ^ d + 2 ^ d := by omega
  unfold deletionStep
  by_cases hlt : idx < 2 ^ d
  · have h2 := recover_pathOf_setLeaf H d f idx zero
    rw [Nat.mod_eq_of_lt hlt] at h2
    rw [if_pos hlt, if_pos hlt]
    constructor
    · intro h
      split at h
      · rename_i hrec
        obtain ⟨hv, rfl⟩ := (recover_eq_rootOf_iff H hinj d f idx item prf hlen).1 hrec
        rw [Nat.mod_eq_of_lt hlt] at hv
        refine ⟨by omega, fun _ => ⟨hv, rfl⟩, ?_⟩
        rw [← h2]
        exact (Option.some.inj h).symm
      · cases h
    · rintro ⟨_, hb, rfl⟩
      obtain ⟨rfl, rfl⟩ := hb hlt
      have h1 := recover_pathOf H d f idx
      rw [Nat.mod_eq_of_lt hlt] at h1
      rw [if_pos h1, h2]
  · rw [if_neg hlt, if_neg hlt]
    by_cases hlt2 : idx < 2 ^ (d + 1)
    · rw [if_pos hlt2]
      constructor
      · intro h
        exact ⟨hlt2, fun h' => absurd h' hlt, (Option.some.inj h).symm⟩
      · rintro ⟨_, _, rfl⟩
        rfl
    · rw [if_neg hlt2]
      constructor
      · intro h; cases h
      · rintro ⟨h, _⟩; exact absurd h hlt2

end Step

/-! ## 4. Running leaf assignments -/

section Leaves

variable [Inhabited F]

/-- write `vs[0], vs[1], …` at positions `pos i, pos (i+1), …` (in this order) -/
def insertLeavesAt (pos : Nat → Nat) : Nat → (Nat → F) → List F → Nat → F
  | _, f, [] => f
  | i, f, v :: vs => insertLeavesAt pos (i + 1) (setLeaf f (pos i) v) vs

/-- append `vs` at the consecutive positions `s, s+1, …`:
`insertLeaves f s [] = f`, `insertLeaves f s (v :: vs) = insertLeaves (setLeaf f s v) (s+1) vs` -/
def insertLeaves : (Nat → F) → Nat → List F → Nat → F
  | f, _, [] => f
  | f, s, v :: vs => insertLeaves (setLeaf f s v) (s + 1) vs

/-- clear the leaves at the in-range positions of `idxs` (in this order); positions `≥ 2^d`
(padding slots) are skipped -/
def deleteLeaves (zero : F) (d : Nat) : (Nat → F) → List Nat → Nat → F
  | f, [] => f
  | f, i :: is => deleteLeaves zero d (if i < 2 ^ d then setLeaf f i zero else f) is

theorem insertLeavesAt_eq_insertLeaves (pos : Nat → Nat) : ∀ (vs : List F) (i s : Nat) (f : Nat → F),
    (∀ k, k < vs.length → pos (i + k) = s + k) → insertLeavesAt pos i f vs = insertLeaves f s vs
  | [], _, _, _, _ => rfl
  | v :: vs, i, s, f, h => by
    have h0 : pos i = s := by simpa using h 0 (by simp)
    rw [insertLeavesAt, insertLeaves, h0]
    apply insertLeavesAt_eq_insertLeaves pos vs (i + 1) (s + 1)
    intro k hk
    have := h (k + 1) (by simpa using hk)
    rw [show i + 1 + k = i + (k + 1) by omega, this]; omega

theorem insertLeaves_snoc : ∀ (vs : List F) (f : Nat → F) (s : Nat) (v : F),
    insertLeaves f s (vs ++ [v]) = setLeaf (insertLeaves f s vs) (s + vs.length) v
  | [], _, _, _ => rfl
  | x :: vs, f, s, v => by
    rw [List.cons_append, insertLeaves, insertLeaves, insertLeaves_snoc vs]
    congr 1
    simp only [List.length_cons]; omega

/-- closed form: positions `s … s + |vs| - 1` hold `vs`, everything else is untouched -/
theorem insertLeaves_apply : ∀ (vs : List F) (f : Nat → F) (s j : Nat),
    insertLeaves f s vs j = if s ≤ j then (vs[j - s]?).getD (f j) else f j
  | [], f, s, j => by simp [insertLeaves]
  | v :: vs, f, s, j => by
    rw [insertLeaves, insertLeaves_apply vs]
    by_cases h1 : s + 1 ≤ j
    · have h2 : s ≤ j := by omega
      have h3 : j ≠ s := by omega
      rw [if_pos h1, if_pos h2, show j - s = (j - (s + 1)) + 1 by omega, List.getElem?_cons_succ,
        setLeaf_ne _ _ h3]
    · rw [if_neg h1]
      by_cases h2 : j = s
      · subst h2; simp [setLeaf]
      · rw [if_neg (by omega), setLeaf_ne _ _ h2]

theorem insertLeaves_of_lt (vs : List F) (f : Nat → F) {s j : Nat} (h : j < s) :
    insertLeaves f s vs j = f j := by
  rw [insertLeaves_apply, if_neg (by omega)]

theorem insertLeaves_of_ge (vs : List F) (f : Nat → F) {s j : Nat} (h : s + vs.length ≤ j) :
    insertLeaves f s vs j = f j := by
  rw [insertLeaves_apply, if_pos (by omega), List.getElem?_eq_none (by omega)]; rfl

theorem insertLeaves_at (vs : List F) (f : Nat → F) (s k : Nat) (v : F) (h : vs[k]? = some v) :
    insertLeaves f s vs (s + k) = v := by
  rw [insertLeaves_apply, if_pos (by omega), Nat.add_sub_cancel_left, h]; rfl

/-- the leaf about to be written by slot `k` of an append still has its original value -/
theorem insertLeaves_take_next (vs : List F) (f : Nat → F) (s k : Nat) :
    insertLeaves f s (vs.take k) (s + k) = f (s + k) :=
  insertLeaves_of_ge _ f (by simp; omega)

theorem deleteLeaves_append (zero : F) (d : Nat) : ∀ (l₁ l₂ : List Nat) (f : Nat → F),
    deleteLeaves zero d f (l₁ ++ l₂) = deleteLeaves zero d (deleteLeaves zero d f l₁) l₂
  | [], _, _ => rfl
  | _ :: l₁, l₂, f => by
    rw [List.cons_append, deleteLeaves, deleteLeaves, deleteLeaves_append zero d l₁]

/-- closed form: a leaf is cleared iff its (in-range) position occurs in the list -/
theorem deleteLeaves_apply (zero : F) (d : Nat) : ∀ (l : List Nat) (f : Nat → F) (j : Nat),
    deleteLeaves zero d f l j = if j ∈ l ∧ j < 2 ^ d then zero else f j
  | [], f, j => by simp [deleteLeaves]
  | i :: l, f, j => by
    rw [deleteLeaves, deleteLeaves_apply zero d l]
    by_cases hj : j ∈ l ∧ j < 2 ^ d
    · rw [if_pos hj, if_pos ⟨List.mem_cons_of_mem _ hj.1, hj.2⟩]
    · rw [if_neg hj]
      by_cases hi : i < 2 ^ d
      · rw [if_pos hi]
        by_cases hji : j = i
        · subst hji
          rw [setLeaf_self, if_pos ⟨List.mem_cons_self, hi⟩]
        · rw [setLeaf_ne _ _ hji, if_neg]
          rintro ⟨hm, hlt⟩
          rcases List.mem_cons.1 hm with h | h
          · exact hji h
          · exact hj ⟨h, hlt⟩
      · rw [if_neg hi, if_neg]
        rintro ⟨hm, hlt⟩
        rcases List.mem_cons.1 hm with h | h
        · subst h; exact hi hlt
        · exact hj ⟨h, hlt⟩

theorem deleteLeaves_of_mem (zero : F) (d : Nat) (l : List Nat) (f : Nat → F) {j : Nat}
    (hm : j ∈ l) (hlt : j < 2 ^ d) : deleteLeaves zero d f l j = zero := by
  rw [deleteLeaves_apply, if_pos ⟨hm, hlt⟩]

theorem deleteLeaves_of_not_mem (zero : F) (d : Nat) (l : List Nat) (f : Nat → F) {j : Nat}
    (hm : j ∉ l) : deleteLeaves zero d f l j = f j := by
  rw [deleteLeaves_apply, if_neg (fun h => hm h.1)]

/-- padding slots do not touch the leaves -/
theorem deleteLeaves_padding (zero : F) (d : Nat) (l : List Nat) (f : Nat → F)
    (h : ∀ i ∈ l, 2 ^ d ≤ i) : deleteLeaves zero d f l = f := by
  funext j
  rw [deleteLeaves_apply, if_neg]
  rintro ⟨hm, hlt⟩
  have := h j hm
  omega

end Leaves

/-! ## 5. Batches -/

section Batches

variable [DecidableEq F] [Inhabited F] (H : F → F → F) (zero : F)

section WithInj

variable (hinj : ∀ a b c d, H a b = H c d → a = c ∧ b = d)
include hinj

/-- insertion batch from slot counter `i`, running root = dense root over `f`; the position of
slot `j` is `val (addi start j)` (whatever `val`/`addi` are — wrap-around included) -/
theorem insertionSpec_dense_aux (val : F → Nat) (addi : F → Nat → F) (d : Nat) (start : F) :
    ∀ (ids : List F) (proofs : List (List F)) (i : Nat) (f : Nat → F) (post : F),
    ids.length = proofs.length → (∀ prf ∈ proofs, prf.length = d) →
    (insertionSpec H zero val addi d start i (rootOf H d f) ids proofs = some post ↔
      (∀ k, k < ids.length →
        val (addi start (i + k)) < 2 ^ d ∧
        insertLeavesAt (fun j => val (addi start j)) i f (ids.take k) (val (addi start (i + k)))
          = zero ∧
        proofs[k]? = some (pathOf H d
          (insertLeavesAt (fun j => val (addi start j)) i f (ids.take k))
          (val (addi start (i + k))))) ∧
      post = rootOf H d (insertLeavesAt (fun j => val (addi start j)) i f ids))
  | [], [], i, f, post, _, _ => by
    simp only [insertionSpec, insertLeavesAt, List.length_nil, Nat.not_lt_zero, false_imp_iff,
      implies_true, true_and]
    exact ⟨fun h => (Option.some.inj h).symm, fun h => by rw [h]⟩
  | [], _ :: _, _, _, _, h, _ => by simp at h
  | _ :: _, [], _, _, _, h, _ => by simp at h
  | a :: ids, p :: proofs, i, f, post, hlen, hprf => by
    have hp : p.length = d := hprf p List.mem_cons_self
    have hlen' : ids.length = proofs.length := by simpa using hlen
    have hprf' : ∀ prf ∈ proofs, prf.length = d := fun prf h => hprf prf (List.mem_cons_of_mem _ h)
    have hstep := insertionStep_dense H zero hinj d (val (addi start i)) a f p
    rw [insertionSpec, List.length_cons, Nat.forall_lt_succ_left]
    simp only [Nat.add_zero, List.take_zero, insertLeavesAt, List.getElem?_cons_zero,
      List.take_succ_cons, List.getElem?_cons_succ, Option.some.injEq]
    cases hs : insertionStep H zero d (val (addi start i)) a (rootOf H d f) p with
    | none =>
      constructor
      · intro h; cases h
      · rintro ⟨⟨⟨h1, h2, h3⟩, _⟩, _⟩
        have := (hstep _ hp).2 ⟨h1, h2, h3, rfl⟩
        rw [hs] at this; cases this
    | some r =>
      obtain ⟨h1, h2, h3, rfl⟩ := (hstep r hp).1 hs
      simp only []
      rw [insertionSpec_dense_aux val addi d start ids proofs (i + 1) _ post hlen' hprf']
      have e : ∀ k, i + 1 + k = i + (k + 1) := fun k => by omega
      simp only [e]
      constructor
      · rintro ⟨h, rfl⟩
        exact ⟨⟨⟨h1, h2, h3⟩, h⟩, rfl⟩
      · rintro ⟨⟨_, h⟩, rfl⟩
        exact ⟨h, rfl⟩

/-- deletion batch, running root = dense root over `f` -/
theorem deletionSpec_dense_aux (val : F → Nat) (d : Nat) :
    ∀ (idxs ids : List F) (proofs : List (List F)) (f : Nat → F) (post : F),
    idxs.length = ids.length → ids.length = proofs.length → (∀ prf ∈ proofs, prf.length = d) →
    (deletionSpec H zero val d (rootOf H d f) idxs ids proofs = some post ↔
      (∀ k idx, idxs[k]? = some idx →
        val idx < 2 ^ (d + 1) ∧
        (val idx < 2 ^ d →
          ids[k]? = some (deleteLeaves zero d f ((idxs.take k).map val) (val idx)) ∧
          proofs[k]? = some (pathOf H d (deleteLeaves zero d f ((idxs.take k).map val))
            (val idx)))) ∧
      post = rootOf H d (deleteLeaves zero d f (idxs.map val)))
  | [], [], [], f, post, _, _, _ => by
    simp only [deletionSpec, deleteLeaves, List.map_nil, List.getElem?_nil, reduceCtorEq,
      false_imp_iff, implies_true, true_and]
    exact ⟨fun h => (Option.some.inj h).symm, fun h => by rw [h]⟩
  | [], _ :: _, _, _, _, h, _, _ => by simp at h
  | _ :: _, [], _, _, _, h, _, _ => by simp at h
  | _ :: _, _ :: _, [], _, _, _, h, _ => by simp at h
  | [], [], _ :: _, _, _, _, h, _ => by simp at h
  | x :: idxs, a :: ids, p :: proofs, f, post, hlen1, hlen2, hprf => by
    have hp : p.length = d := hprf p List.mem_cons_self
    have hlen1' : idxs.length = ids.length := by simpa using hlen1
    have hlen2' : ids.length = proofs.length := by simpa using hlen2
    have hprf' : ∀ prf ∈ proofs, prf.length = d := fun prf h => hprf prf (List.mem_cons_of_mem _ h)
    have hstep := deletionStep_dense H zero hinj d (val x) a f p
    have hsplit : ∀ P : Nat → F → Prop, (∀ k idx, (x :: idxs)[k]? = some idx → P k idx) ↔
        P 0 x ∧ ∀ k idx, idxs[k]? = some idx → P (k + 1) idx := by
      intro P
      constructor
      · intro h
        exact ⟨h 0 x rfl, fun k idx hk => h (k + 1) idx (by simpa using hk)⟩
      · rintro ⟨h0, hs⟩ k idx hk
        cases k with
        | zero => obtain rfl : x = idx := by simpa using hk
                  exact h0
        | succ k => exact hs k idx (by simpa using hk)
    rw [deletionSpec, hsplit]
    simp only [List.take_zero, List.map_nil, deleteLeaves, List.getElem?_cons_zero,
      List.take_succ_cons, List.map_cons, List.getElem?_cons_succ, Option.some.injEq]
    cases hs : deletionStep H zero d (rootOf H d f) (val x) a p with
    | none =>
      constructor
      · intro h; cases h
      · rintro ⟨⟨⟨h1, h2⟩, _⟩, _⟩
        have := (hstep _ hp).2 ⟨h1, h2, rfl⟩
        rw [hs] at this; cases this
    | some r =>
      obtain ⟨h1, h2, rfl⟩ := (hstep r hp).1 hs
      simp only []
      rw [deletionSpec_dense_aux val d idxs ids proofs _ post hlen1' hlen2' hprf']
      constructor
      · rintro ⟨h, rfl⟩
        exact ⟨⟨⟨h1, h2⟩, h⟩, rfl⟩
      · rintro ⟨⟨_, h⟩, rfl⟩
        exact ⟨h, rfl⟩

end WithInj

omit [Inhabited F] in
/-- an index `≥ 2^(d+1)` anywhere in the batch makes the specification `none` (no assumption on
`H`, any starting root) -/
theorem deletionSpec_too_large (val : F → Nat) (d : Nat) :
    ∀ (idxs ids : List F) (proofs : List (List F)) (root : F) (idx : F),
    idxs.length = ids.length → ids.length = proofs.length →
    idx ∈ idxs → 2 ^ (d + 1) ≤ val idx →
    deletionSpec H zero val d root idxs ids proofs = none
  | [], _, _, _, _, _, _, h, _ => by simp at h
  | _ :: _, [], _, _, _, h, _, _, _ => by simp at h
  | _ :: _, _ :: _, [], _, _, _, h, _, _ => by simp at h
  | x :: idxs, a :: ids, p :: proofs, root, idx, hlen1, hlen2, hm, hbig => by
    have hpow : 2 ^ (d + 1) = 2 ^ d + 2 ^ d := by omega
    rw [deletionSpec]
    cases hs : deletionStep H zero d root (val x) a p with
    | none => rfl
    | some r =>
      simp only []
      rcases List.mem_cons.1 hm with rfl | hm'
      · exfalso
        unfold deletionStep at hs
        rw [if_neg (by omega), if_neg (by omega)] at hs
        cases hs
      · exact deletionSpec_too_large val d idxs ids proofs r idx (by simpa using hlen1)
          (by simpa using hlen2) hm' hbig

omit [Inhabited F] in
/-- a padding slot returns the running root whatever its item and path are -/
theorem deletionStep_padding (d : Nat) (root : F) (idx : Nat) (item : F) (prf : List F)
    (h1 : 2 ^ d ≤ idx) (h2 : idx < 2 ^ (d + 1)) :
    deletionStep H zero d root idx item prf = some root := by
  unfold deletionStep
  rw [if_neg (by omega), if_pos h2]

omit [Inhabited F] in
/-- a batch of padding slots only is accepted with the unchanged root, whatever it carries -/
theorem deletionSpec_all_padding (val : F → Nat) (d : Nat) :
    ∀ (idxs ids : List F) (proofs : List (List F)) (root : F),
    (∀ idx ∈ idxs, 2 ^ d ≤ val idx ∧ val idx < 2 ^ (d + 1)) →
    deletionSpec H zero val d root idxs ids proofs = some root
  | [], _, _, _, _ => by simp [deletionSpec]
  | _ :: _, [], _, _, _ => by simp [deletionSpec]
  | _ :: _, _ :: _, [], _, _ => by simp [deletionSpec]
  | x :: idxs, a :: ids, p :: proofs, root, h => by
    have hx := h x List.mem_cons_self
    rw [deletionSpec, deletionStep_padding H zero d root (val x) a p hx.1 hx.2]
    exact deletionSpec_all_padding val d idxs ids proofs root
      (fun idx hm => h idx (List.mem_cons_of_mem _ hm))

end Batches

end Smtb.DenseBatch
