import Smtb.Model.Merkle
import Smtb.Model.Batch
import Smtb.Proofs.Tree
import Smtb.Proofs.DenseBatch

/-!
# Helper lemmas: tree-level meaning of the batch specifications WITHOUT injectivity of the hash

Core Lean only.  `Smtb.Proofs.DenseBatch` derives the tree-level meaning of `Batch.insertionSpec` /
`Batch.deletionSpec` from the hypothesis `hinj : ∀ a b c d, H a b = H c d → a = c ∧ b = d`.  No map
`F × F → F` on a finite carrier with more than one element satisfies it, so for the circuit's own
carrier `ZMod p` those statements are vacuous.  This file makes NO assumption on `H`:

1. `Collision`, `childPair`, `recoverPairs`, `OpeningCollision` — what a collision is and where it
   sits (a pair of sibling nodes of the genuine tree against a pair the verifier hashed while
   recomputing the presented path);
2. `opening_sound` — a path that recomputes to the dense root is the genuine opening OR exhibits
   such a collision;
3. one slot: `insertionStep_complete` / `insertionStep_sound`, `deletionStep_complete` /
   `deletionStep_sound`;
4. batches: `insertionSpec_complete_aux` / `insertionSpec_sound_aux`,
   `deletionSpec_complete_aux` / `deletionSpec_sound_aux`;
5. the genuine batches as data: `insertionPaths`, `deletionItems`, `deletionPaths`.
-/
namespace Smtb.DenseCollision

open Smtb.Merkle Smtb.Batch Smtb.Tree Smtb.DenseBatch

variable {F : Type}

/-! ## 1. Collisions -/

/-- an explicit collision of the two-to-one hash: two different input pairs with the same image -/
def Collision (H : F → F → F) : Prop := ∃ a b c e, (a, b) ≠ (c, e) ∧ H a b = H c e

/-- `Collision H` is exactly the failure of the hypothesis `hinj` of `Smtb.Proofs.DenseBatch` -/
theorem collision_iff_not_injective (H : F → F → F) :
    Collision H ↔ ¬ ∀ a b c d, H a b = H c d → a = c ∧ b = d := by
  constructor
  · rintro ⟨a, b, c, e, hne, h⟩ hinj
    obtain ⟨rfl, rfl⟩ := hinj _ _ _ _ h
    exact hne rfl
  · intro h
    apply Classical.byContradiction
    intro hc
    apply h
    intro a b c e hab
    apply Classical.byContradiction
    intro hn
    exact hc ⟨a, b, c, e,
      fun hp => hn ⟨congrArg Prod.fst hp, congrArg Prod.snd hp⟩, hab⟩

/-- `childPair H d f a b`: `(a, b)` is the pair (left child, right child) of some internal node of
the dense tree of depth `d` over the leaves `f` — so `H a b` is a node value of that tree -/
def childPair (H : F → F → F) : Nat → (Nat → F) → F → F → Prop
  | 0, _, _, _ => False
  | d + 1, f, a, b =>
    (a = rootOf H d f ∧ b = rootOf H d (fun j => f (j + 2 ^ d))) ∨
      childPair H d f a b ∨ childPair H d (fun j => f (j + 2 ^ d)) a b

/-- the input pairs `(left, right)` the verifier hashes while running `Merkle.recover`, leaf level
first -/
def recoverPairs (H : F → F → F) : F → List F → List Bool → List (F × F)
  | acc, s :: sibs, b :: bits =>
    (if b then (s, acc) else (acc, s)) ::
      recoverPairs H (if b then H s acc else H acc s) sibs bits
  | _, _, _ => []

/-- **Located collision.**  A collision between a pair of sibling nodes `(a, b)` of the genuine
dense tree over `f` and a pair `(c, e)` that is hashed when the presented opening
(`v`, `sibs`, index `i`) is recomputed. -/
def OpeningCollision (H : F → F → F) (d : Nat) (f : Nat → F) (i : Nat) (v : F) (sibs : List F) :
    Prop :=
  ∃ a b c e, childPair H d f a b ∧ (c, e) ∈ recoverPairs H v sibs (bitsLE d i) ∧
    (a, b) ≠ (c, e) ∧ H a b = H c e

theorem OpeningCollision.collision {H : F → F → F} {d : Nat} {f : Nat → F} {i : Nat} {v : F}
    {sibs : List F} (h : OpeningCollision H d f i v sibs) : Collision H := by
  obtain ⟨a, b, c, e, _, _, hne, heq⟩ := h
  exact ⟨a, b, c, e, hne, heq⟩

section Opening

variable (H : F → F → F)

theorem recoverPairs_snoc : ∀ (sibs : List F) (bits : List Bool) (acc s : F) (b : Bool),
    sibs.length = bits.length →
    recoverPairs H acc (sibs ++ [s]) (bits ++ [b]) =
      recoverPairs H acc sibs bits ++
        [if b then (s, recover H acc sibs bits) else (recover H acc sibs bits, s)]
  | [], [], acc, s, b, _ => by simp [recoverPairs, recover]
  | [], _ :: _, _, _, _, h => by simp at h
  | _ :: _, [], _, _, _, h => by simp at h
  | x :: sibs, c :: bits, acc, s, b, h => by
    simp only [List.cons_append, recoverPairs, recover]
    rw [recoverPairs_snoc sibs bits _ s b (by simpa using h)]

theorem childPair_left {d : Nat} {f : Nat → F} {a b : F} (h : childPair H d f a b) :
    childPair H (d + 1) f a b := Or.inr (Or.inl h)

theorem childPair_right {d : Nat} {f : Nat → F} {a b : F}
    (h : childPair H d (fun j => f (j + 2 ^ d)) a b) : childPair H (d + 1) f a b :=
  Or.inr (Or.inr h)

theorem childPair_top (d : Nat) (f : Nat → F) :
    childPair H (d + 1) f (rootOf H d f) (rootOf H d (fun j => f (j + 2 ^ d))) :=
  Or.inl ⟨rfl, rfl⟩

/-- `childPair` only looks at `f` on `[0, 2^d)` -/
theorem childPair_congr : ∀ (d : Nat) {f g : Nat → F} {a b : F},
    (∀ j, j < 2 ^ d → f j = g j) → childPair H d f a b → childPair H d g a b
  | 0, _, _, _, _, _, h => h
  | d + 1, f, g, a, b, hfg, h => by
    have hp : 2 ^ (d + 1) = 2 ^ d + 2 ^ d := by omega
    have hl : ∀ j, j < 2 ^ d → f j = g j := fun j hj => hfg j (by omega)
    have hr : ∀ j, j < 2 ^ d → (fun i => f (i + 2 ^ d)) j = (fun i => g (i + 2 ^ d)) j :=
      fun j hj => hfg (j + 2 ^ d) (by omega)
    rcases h with ⟨h1, h2⟩ | h | h
    · exact Or.inl ⟨by rw [h1, rootOf_congr H d hl], by rw [h2, rootOf_congr H d hr]⟩
    · exact Or.inr (Or.inl (childPair_congr d hl h))
    · exact Or.inr (Or.inr (childPair_congr d hr h))

variable [DecidableEq F]

/-- **Opening soundness up to a located collision** (no hypothesis on `H`).  A path of the right
length that recomputes from `v` to the dense root over `f` along the bits of `i` is the genuine
opening of leaf `i mod 2^d`, or else it exhibits an `OpeningCollision`. -/
theorem opening_sound : ∀ (d : Nat) (f : Nat → F) (i : Nat) (v : F) (sibs : List F),
    sibs.length = d → recover H v sibs (bitsLE d i) = rootOf H d f →
    (v = f (i % 2 ^ d) ∧ sibs = pathOf H d f i) ∨ OpeningCollision H d f i v sibs
  | 0, f, i, v, sibs, hlen, h => by
    obtain rfl : sibs = [] := List.eq_nil_of_length_eq_zero hlen
    left
    simpa [recover, bitsLE, rootOf, pathOf, Nat.mod_one] using h
  | d + 1, f, i, v, sibs, hlen, h => by
    obtain ⟨sibs0, s, rfl⟩ : ∃ sibs0 s, sibs = sibs0 ++ [s] := by
      have hne : sibs ≠ [] := by
        intro h0; rw [h0] at hlen; simp at hlen
      exact ⟨sibs.dropLast, sibs.getLast hne, (List.dropLast_concat_getLast hne).symm⟩
    have hlen0 : sibs0.length = d := by simpa using hlen
    have hlb : sibs0.length = (bitsLE d i).length := by rw [hlen0, bitsLE_length]
    -- lifting a collision of a subtree
    have lift : ∀ (g : Nat → F), (∀ a b, childPair H d g a b → childPair H (d + 1) f a b) →
        OpeningCollision H d g i v sibs0 → OpeningCollision H (d + 1) f i v (sibs0 ++ [s]) := by
      rintro g hg ⟨a, b, c, e, hcp, hmem, hne, heq⟩
      refine ⟨a, b, c, e, hg a b hcp, ?_, hne, heq⟩
      rw [bitsLE_succ_last, recoverPairs_snoc H _ _ _ _ _ hlb]
      exact List.mem_append_left _ hmem
    rw [bitsLE_succ_last, recover_snoc H _ _ _ _ _ hlb] at h
    simp only [rootOf] at h
    by_cases hlt : i % 2 ^ (d + 1) < 2 ^ d
    · have hb : decide (¬ i % 2 ^ (d + 1) < 2 ^ d) = false := by simp [hlt]
      rw [hb] at h
      simp only [Bool.false_eq_true, if_false] at h
      by_cases heq : recover H v sibs0 (bitsLE d i) = rootOf H d f ∧
          s = rootOf H d (fun j => f (j + 2 ^ d))
      · obtain ⟨h1, rfl⟩ := heq
        rcases opening_sound d f i v sibs0 hlen0 h1 with ⟨hv, hs⟩ | hc
        · left
          refine ⟨by rw [mod_succ_of_lt hlt]; exact hv, ?_⟩
          simp only [pathOf]
          rw [if_pos hlt, ← hs]
        · exact Or.inr (lift f (fun a b => childPair_left H) hc)
      · right
        refine ⟨_, _, _, _, childPair_top H d f, ?_, ?_, h.symm⟩
        · rw [bitsLE_succ_last, recoverPairs_snoc H _ _ _ _ _ hlb, hb]
          simp
        · intro hp
          exact heq ⟨(congrArg Prod.fst hp).symm, (congrArg Prod.snd hp).symm⟩
    · have hb : decide (¬ i % 2 ^ (d + 1) < 2 ^ d) = true := by simp [hlt]
      rw [hb] at h
      simp only [if_true] at h
      by_cases heq : s = rootOf H d f ∧
          recover H v sibs0 (bitsLE d i) = rootOf H d (fun j => f (j + 2 ^ d))
      · obtain ⟨rfl, h1⟩ := heq
        rcases opening_sound d (fun j => f (j + 2 ^ d)) i v sibs0 hlen0 h1 with ⟨hv, hs⟩ | hc
        · left
          refine ⟨by rw [mod_succ_of_not_lt hlt]; exact hv, ?_⟩
          simp only [pathOf]
          rw [if_neg hlt, ← hs]
        · exact Or.inr (lift _ (fun a b => childPair_right H) hc)
      · right
        refine ⟨_, _, _, _, childPair_top H d f, ?_, ?_, h.symm⟩
        · rw [bitsLE_succ_last, recoverPairs_snoc H _ _ _ _ _ hlb, hb]
          simp
        · intro hp
          exact heq ⟨(congrArg Prod.fst hp).symm, (congrArg Prod.snd hp).symm⟩

end Opening

/-! ## 2. One slot -/

section Step

variable [DecidableEq F] [Inhabited F] (H : F → F → F) (zero : F)

/-- completeness of one insertion slot: the genuine path of an empty in-range leaf is accepted
and yields the root of the updated tree (every `H`) -/
theorem insertionStep_complete (d idx : Nat) (item : F) (f : Nat → F)
    (hlt : idx < 2 ^ d) (hz : f idx = zero) :
    insertionStep H zero d idx item (rootOf H d f) (pathOf H d f idx) =
      some (rootOf H d (setLeaf f idx item)) := by
  unfold insertionStep
  have h1 := recover_pathOf H d f idx
  rw [Nat.mod_eq_of_lt hlt, hz] at h1
  have h2 := recover_pathOf_setLeaf H d f idx item
  rw [Nat.mod_eq_of_lt hlt] at h2
  rw [if_pos ⟨hlt, h1⟩, h2]

/-- soundness of one insertion slot up to a located collision (every `H`) -/
theorem insertionStep_sound (d idx : Nat) (item : F) (f : Nat → F) (prf : List F) (r : F)
    (hlen : prf.length = d)
    (h : insertionStep H zero d idx item (rootOf H d f) prf = some r) :
    (idx < 2 ^ d ∧ f idx = zero ∧ prf = pathOf H d f idx ∧
        r = rootOf H d (setLeaf f idx item)) ∨
      OpeningCollision H d f idx zero prf := by
  unfold insertionStep at h
  split at h
  · rename_i hc
    obtain ⟨hlt, hrec⟩ := hc
    rcases opening_sound H d f idx zero prf hlen hrec with ⟨hz, rfl⟩ | hcol
    · left
      rw [Nat.mod_eq_of_lt hlt] at hz
      refine ⟨hlt, hz.symm, rfl, ?_⟩
      have := recover_pathOf_setLeaf H d f idx item
      rw [Nat.mod_eq_of_lt hlt] at this
      rw [← this]
      exact (Option.some.inj h).symm
    · exact Or.inr hcol
  · cases h

/-- completeness of one real deletion slot (every `H`) -/
theorem deletionStep_complete_real (d idx : Nat) (f : Nat → F) (hlt : idx < 2 ^ d) :
    deletionStep H zero d (rootOf H d f) idx (f idx) (pathOf H d f idx) =
      some (rootOf H d (setLeaf f idx zero)) := by
  unfold deletionStep
  have h1 := recover_pathOf H d f idx
  rw [Nat.mod_eq_of_lt hlt] at h1
  have h2 := recover_pathOf_setLeaf H d f idx zero
  rw [Nat.mod_eq_of_lt hlt] at h2
  rw [if_pos hlt, if_pos h1, h2]

/-- completeness of one deletion slot in the shape of `DenseBatch.deletionStep_dense` (every `H`) -/
theorem deletionStep_complete (d idx : Nat) (item : F) (f : Nat → F) (prf : List F)
    (h1 : idx < 2 ^ (d + 1)) (h2 : idx < 2 ^ d → item = f idx ∧ prf = pathOf H d f idx) :
    deletionStep H zero d (rootOf H d f) idx item prf =
      some (rootOf H d (if idx < 2 ^ d then setLeaf f idx zero else f)) := by
  by_cases hlt : idx < 2 ^ d
  · obtain ⟨rfl, rfl⟩ := h2 hlt
    rw [if_pos hlt]
    exact deletionStep_complete_real H zero d idx f hlt
  · rw [if_neg hlt]
    exact deletionStep_padding H zero d _ idx item prf (by omega) h1

/-- soundness of one deletion slot up to a located collision (every `H`) -/
theorem deletionStep_sound (d idx : Nat) (item : F) (f : Nat → F) (prf : List F) (r : F)
    (hlen : prf.length = d)
    (h : deletionStep H zero d (rootOf H d f) idx item prf = some r) :
    (idx < 2 ^ (d + 1) ∧ (idx < 2 ^ d → item = f idx ∧ prf = pathOf H d f idx) ∧
        r = rootOf H d (if idx < 2 ^ d then setLeaf f idx zero else f)) ∨
      (idx < 2 ^ d ∧ OpeningCollision H d f idx item prf) := by
  have hpow : 2 ^ (d + 1) = 2 ^ d + 2 ^ d := by omega
  unfold deletionStep at h
  by_cases hlt : idx < 2 ^ d
  · rw [if_pos hlt] at h
    split at h
    · rename_i hrec
      rcases opening_sound H d f idx item prf hlen hrec with ⟨hv, rfl⟩ | hcol
      · left
        rw [Nat.mod_eq_of_lt hlt] at hv
        have h2 := recover_pathOf_setLeaf H d f idx zero
        rw [Nat.mod_eq_of_lt hlt] at h2
        refine ⟨by omega, fun _ => ⟨hv, rfl⟩, ?_⟩
        rw [if_pos hlt, ← h2]
        exact (Option.some.inj h).symm
      · exact Or.inr ⟨hlt, hcol⟩
    · cases h
  · rw [if_neg hlt] at h
    by_cases hlt2 : idx < 2 ^ (d + 1)
    · rw [if_pos hlt2] at h
      left
      refine ⟨hlt2, fun h' => absurd h' hlt, ?_⟩
      rw [if_neg hlt]
      exact (Option.some.inj h).symm
    · rw [if_neg hlt2] at h
      cases h

end Step

/-! ## 3. Batches -/

section Batches

variable [DecidableEq F] [Inhabited F] (H : F → F → F) (zero : F)

/-- **Completeness of the insertion batch, no hypothesis on `H`** (and none on the lengths: the
paths are given by `proofs[k]?`).  From slot counter `i`, running root = dense root over `f`. -/
theorem insertionSpec_complete_aux (val : F → Nat) (addi : F → Nat → F) (d : Nat) (start : F) :
    ∀ (ids : List F) (proofs : List (List F)) (i : Nat) (f : Nat → F),
    (∀ k, k < ids.length →
      val (addi start (i + k)) < 2 ^ d ∧
      insertLeavesAt (fun j => val (addi start j)) i f (ids.take k) (val (addi start (i + k)))
        = zero ∧
      proofs[k]? = some (pathOf H d
        (insertLeavesAt (fun j => val (addi start j)) i f (ids.take k))
        (val (addi start (i + k))))) →
    insertionSpec H zero val addi d start i (rootOf H d f) ids proofs =
      some (rootOf H d (insertLeavesAt (fun j => val (addi start j)) i f ids))
  | [], _, _, _, _ => by
    simp [insertionSpec, insertLeavesAt]
  | a :: ids, [], _, _, h => by
    have := (h 0 (by simp)).2.2
    simp at this
  | a :: ids, p :: proofs, i, f, h => by
    obtain ⟨h1, h2, h3⟩ := h 0 (by simp)
    simp only [Nat.add_zero, List.take_zero, insertLeavesAt, List.getElem?_cons_zero,
      Option.some.injEq] at h1 h2 h3
    subst h3
    rw [insertionSpec, insertionStep_complete H zero d _ a f h1 h2]
    simp only [insertLeavesAt]
    apply insertionSpec_complete_aux val addi d start ids proofs (i + 1)
    intro k hk
    have := h (k + 1) (by simpa using hk)
    simpa only [List.take_succ_cons, insertLeavesAt, List.getElem?_cons_succ,
      show i + (k + 1) = i + 1 + k by omega] using this

/-- **Soundness of the insertion batch up to a located collision, no hypothesis on `H`.** -/
theorem insertionSpec_sound_aux (val : F → Nat) (addi : F → Nat → F) (d : Nat) (start : F) :
    ∀ (ids : List F) (proofs : List (List F)) (i : Nat) (f : Nat → F) (post : F),
    ids.length = proofs.length → (∀ prf ∈ proofs, prf.length = d) →
    insertionSpec H zero val addi d start i (rootOf H d f) ids proofs = some post →
      ((∀ k, k < ids.length →
        val (addi start (i + k)) < 2 ^ d ∧
        insertLeavesAt (fun j => val (addi start j)) i f (ids.take k) (val (addi start (i + k)))
          = zero ∧
        proofs[k]? = some (pathOf H d
          (insertLeavesAt (fun j => val (addi start j)) i f (ids.take k))
          (val (addi start (i + k))))) ∧
      post = rootOf H d (insertLeavesAt (fun j => val (addi start j)) i f ids)) ∨
      (∃ k prf, k < ids.length ∧ proofs[k]? = some prf ∧
        OpeningCollision H d (insertLeavesAt (fun j => val (addi start j)) i f (ids.take k))
          (val (addi start (i + k))) zero prf)
  | [], [], i, f, post, _, _, h => by
    left
    simp only [insertionSpec, Option.some.injEq] at h
    simp [insertLeavesAt, h]
  | [], _ :: _, _, _, _, h, _, _ => by simp at h
  | _ :: _, [], _, _, _, h, _, _ => by simp at h
  | a :: ids, p :: proofs, i, f, post, hlen, hprf, h => by
    have hp : p.length = d := hprf p List.mem_cons_self
    have hlen' : ids.length = proofs.length := by simpa using hlen
    have hprf' : ∀ prf ∈ proofs, prf.length = d := fun prf h => hprf prf (List.mem_cons_of_mem _ h)
    rw [insertionSpec] at h
    cases hs : insertionStep H zero d (val (addi start i)) a (rootOf H d f) p with
    | none => rw [hs] at h; cases h
    | some r =>
      rw [hs] at h
      simp only [] at h
      rcases insertionStep_sound H zero d _ a f p r hp hs with ⟨h1, h2, h3, rfl⟩ | hcol
      · rcases insertionSpec_sound_aux val addi d start ids proofs (i + 1) _ post hlen' hprf' h
          with ⟨hall, hpost⟩ | ⟨k, prf, hk, hprfk, hcol⟩
        · left
          refine ⟨?_, by simpa only [insertLeavesAt] using hpost⟩
          intro k hk
          cases k with
          | zero =>
            simpa only [Nat.add_zero, List.take_zero, insertLeavesAt, List.getElem?_cons_zero,
              Option.some.injEq] using And.intro h1 (And.intro h2 h3)
          | succ k =>
            have := hall k (by simpa using hk)
            simpa only [List.take_succ_cons, insertLeavesAt, List.getElem?_cons_succ,
              show i + (k + 1) = i + 1 + k by omega] using this
        · right
          refine ⟨k + 1, prf, by simpa using hk, by simpa using hprfk, ?_⟩
          simpa only [List.take_succ_cons, insertLeavesAt,
            show i + (k + 1) = i + 1 + k by omega] using hcol
      · right
        exact ⟨0, p, by simp, by simp, by simpa [insertLeavesAt] using hcol⟩

/-- **Completeness of the deletion batch, no hypothesis on `H`.** -/
theorem deletionSpec_complete_aux (val : F → Nat) (d : Nat) :
    ∀ (idxs ids : List F) (proofs : List (List F)) (f : Nat → F),
    idxs.length = ids.length → ids.length = proofs.length →
    (∀ k idx, idxs[k]? = some idx →
      val idx < 2 ^ (d + 1) ∧
      (val idx < 2 ^ d →
        ids[k]? = some (deleteLeaves zero d f ((idxs.take k).map val) (val idx)) ∧
        proofs[k]? = some (pathOf H d (deleteLeaves zero d f ((idxs.take k).map val))
          (val idx)))) →
    deletionSpec H zero val d (rootOf H d f) idxs ids proofs =
      some (rootOf H d (deleteLeaves zero d f (idxs.map val)))
  | [], _, _, _, _, _, _ => by simp [deletionSpec, deleteLeaves]
  | _ :: _, [], _, _, h, _, _ => by simp at h
  | _ :: _, _ :: _, [], _, _, h, _ => by simp at h
  | x :: idxs, a :: ids, p :: proofs, f, hlen1, hlen2, h => by
    obtain ⟨h1, h2⟩ := h 0 x rfl
    simp only [List.take_zero, List.map_nil, deleteLeaves, List.getElem?_cons_zero,
      Option.some.injEq] at h2
    rw [deletionSpec, deletionStep_complete H zero d (val x) a f p h1 h2]
    simp only [List.map_cons, deleteLeaves]
    apply deletionSpec_complete_aux val d idxs ids proofs _ (by simpa using hlen1)
      (by simpa using hlen2)
    intro k idx hk
    have := h (k + 1) idx (by simpa using hk)
    simpa only [List.take_succ_cons, List.map_cons, deleteLeaves, List.getElem?_cons_succ]
      using this

/-- **Soundness of the deletion batch up to a located collision, no hypothesis on `H`.** -/
theorem deletionSpec_sound_aux (val : F → Nat) (d : Nat) :
    ∀ (idxs ids : List F) (proofs : List (List F)) (f : Nat → F) (post : F),
    idxs.length = ids.length → ids.length = proofs.length → (∀ prf ∈ proofs, prf.length = d) →
    deletionSpec H zero val d (rootOf H d f) idxs ids proofs = some post →
      ((∀ k idx, idxs[k]? = some idx →
        val idx < 2 ^ (d + 1) ∧
        (val idx < 2 ^ d →
          ids[k]? = some (deleteLeaves zero d f ((idxs.take k).map val) (val idx)) ∧
          proofs[k]? = some (pathOf H d (deleteLeaves zero d f ((idxs.take k).map val))
            (val idx)))) ∧
      post = rootOf H d (deleteLeaves zero d f (idxs.map val))) ∨
      (∃ k idx item prf, idxs[k]? = some idx ∧ ids[k]? = some item ∧ proofs[k]? = some prf ∧
        val idx < 2 ^ d ∧
        OpeningCollision H d (deleteLeaves zero d f ((idxs.take k).map val)) (val idx) item prf)
  | [], [], [], f, post, _, _, _, h => by
    left
    simp only [deletionSpec, Option.some.injEq] at h
    simp [deleteLeaves, h]
  | [], _ :: _, _, _, _, h, _, _, _ => by simp at h
  | _ :: _, [], _, _, _, h, _, _, _ => by simp at h
  | _ :: _, _ :: _, [], _, _, _, h, _, _ => by simp at h
  | [], [], _ :: _, _, _, _, h, _, _ => by simp at h
  | x :: idxs, a :: ids, p :: proofs, f, post, hlen1, hlen2, hprf, h => by
    have hp : p.length = d := hprf p List.mem_cons_self
    have hlen1' : idxs.length = ids.length := by simpa using hlen1
    have hlen2' : ids.length = proofs.length := by simpa using hlen2
    have hprf' : ∀ prf ∈ proofs, prf.length = d := fun prf h => hprf prf (List.mem_cons_of_mem _ h)
    rw [deletionSpec] at h
    cases hs : deletionStep H zero d (rootOf H d f) (val x) a p with
    | none => rw [hs] at h; cases h
    | some r =>
      rw [hs] at h
      simp only [] at h
      rcases deletionStep_sound H zero d _ a f p r hp hs with ⟨h1, h2, rfl⟩ | ⟨hlt, hcol⟩
      · rcases deletionSpec_sound_aux val d idxs ids proofs _ post hlen1' hlen2' hprf' h
          with ⟨hall, hpost⟩ | ⟨k, idx, item, prf, hk1, hk2, hk3, hlt, hcol⟩
        · left
          refine ⟨?_, by simpa only [List.map_cons, deleteLeaves] using hpost⟩
          intro k idx hk
          cases k with
          | zero =>
            obtain rfl : x = idx := by simpa using hk
            refine ⟨h1, fun hlt => ?_⟩
            obtain ⟨rfl, rfl⟩ := h2 hlt
            simp [deleteLeaves]
          | succ k =>
            have := hall k idx (by simpa using hk)
            simpa only [List.take_succ_cons, List.map_cons, deleteLeaves,
              List.getElem?_cons_succ] using this
        · right
          refine ⟨k + 1, idx, item, prf, by simpa using hk1, by simpa using hk2,
            by simpa using hk3, hlt, ?_⟩
          simpa only [List.take_succ_cons, List.map_cons, deleteLeaves] using hcol
      · right
        exact ⟨0, x, a, p, by simp, by simp, by simp, hlt, by simpa [deleteLeaves] using hcol⟩

end Batches

/-! ## 4. The genuine batches as data -/

section Genuine

variable [Inhabited F] (H : F → F → F)

/-- the genuine sibling paths of an insertion batch: slot `k` (counter `i + k`) gets the path of
its position in the tree as it is when the slot is reached -/
def insertionPaths (d : Nat) (pos : Nat → Nat) : Nat → (Nat → F) → List F → List (List F)
  | _, _, [] => []
  | i, f, v :: vs => pathOf H d f (pos i) :: insertionPaths d pos (i + 1) (setLeaf f (pos i) v) vs

theorem insertionPaths_length (d : Nat) (pos : Nat → Nat) : ∀ (vs : List F) (i : Nat) (f : Nat → F),
    (insertionPaths H d pos i f vs).length = vs.length
  | [], _, _ => rfl
  | _ :: vs, i, f => by simp [insertionPaths, insertionPaths_length d pos vs]

theorem insertionPaths_getElem? (d : Nat) (pos : Nat → Nat) :
    ∀ (vs : List F) (i : Nat) (f : Nat → F) (k : Nat), k < vs.length →
    (insertionPaths H d pos i f vs)[k]? =
      some (pathOf H d (insertLeavesAt pos i f (vs.take k)) (pos (i + k)))
  | [], _, _, _, h => by simp at h
  | v :: vs, i, f, 0, _ => by simp [insertionPaths, insertLeavesAt]
  | v :: vs, i, f, k + 1, h => by
    simp only [insertionPaths, List.getElem?_cons_succ, List.take_succ_cons, insertLeavesAt]
    rw [insertionPaths_getElem? d pos vs (i + 1) _ k (by simpa using h),
      show i + 1 + k = i + (k + 1) by omega]

theorem insertionPaths_mem_length (d : Nat) (pos : Nat → Nat) :
    ∀ (vs : List F) (i : Nat) (f : Nat → F), ∀ prf ∈ insertionPaths H d pos i f vs, prf.length = d
  | [], _, _, _, h => by simp [insertionPaths] at h
  | v :: vs, i, f, prf, h => by
    simp only [insertionPaths, List.mem_cons] at h
    rcases h with rfl | h
    · exact pathOf_length H d f _
    · exact insertionPaths_mem_length d pos vs _ _ prf h

variable (zero : F)

/-- the values a genuine deletion batch presents: slot `k` presents what its leaf holds when the
slot is reached (for a padding slot the circuit ignores the item; the genuine batch carries the
value `f` has at that out-of-range position, any other value would do) -/
def deletionItems (d : Nat) : (Nat → F) → List Nat → List F
  | _, [] => []
  | f, i :: is => f i :: deletionItems d (if i < 2 ^ d then setLeaf f i zero else f) is

/-- the genuine sibling paths of a deletion batch (padding slots: ignored by the circuit) -/
def deletionPaths (d : Nat) : (Nat → F) → List Nat → List (List F)
  | _, [] => []
  | f, i :: is => pathOf H d f i :: deletionPaths d (if i < 2 ^ d then setLeaf f i zero else f) is

theorem deletionItems_length (d : Nat) : ∀ (is : List Nat) (f : Nat → F),
    (deletionItems zero d f is).length = is.length
  | [], _ => rfl
  | _ :: is, f => by simp [deletionItems, deletionItems_length d is]

theorem deletionPaths_length (d : Nat) : ∀ (is : List Nat) (f : Nat → F),
    (deletionPaths H zero d f is).length = is.length
  | [], _ => rfl
  | _ :: is, f => by simp [deletionPaths, deletionPaths_length d is]

theorem deletionItems_getElem? (d : Nat) : ∀ (is : List Nat) (f : Nat → F) (k i : Nat),
    is[k]? = some i →
    (deletionItems zero d f is)[k]? = some (deleteLeaves zero d f (is.take k) i)
  | [], _, _, _, h => by simp at h
  | j :: is, f, 0, i, h => by
    obtain rfl : j = i := by simpa using h
    simp [deletionItems, deleteLeaves]
  | j :: is, f, k + 1, i, h => by
    simp only [deletionItems, List.getElem?_cons_succ, List.take_succ_cons, deleteLeaves]
    exact deletionItems_getElem? d is _ k i (by simpa using h)

theorem deletionPaths_getElem? (d : Nat) : ∀ (is : List Nat) (f : Nat → F) (k i : Nat),
    is[k]? = some i →
    (deletionPaths H zero d f is)[k]? = some (pathOf H d (deleteLeaves zero d f (is.take k)) i)
  | [], _, _, _, h => by simp at h
  | j :: is, f, 0, i, h => by
    obtain rfl : j = i := by simpa using h
    simp [deletionPaths, deleteLeaves]
  | j :: is, f, k + 1, i, h => by
    simp only [deletionPaths, List.getElem?_cons_succ, List.take_succ_cons, deleteLeaves]
    exact deletionPaths_getElem? d is _ k i (by simpa using h)

end Genuine

end Smtb.DenseCollision
