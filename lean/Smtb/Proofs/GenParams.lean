import Smtb.Proofs.Pack
/-! # `gen-test-params` produces valid batches (property C08, second half) -/

namespace Smtb.Pack
open Smtb Smtb.Tree Smtb.Merkle Smtb.Batch Smtb.Properties.C18

section generic
variable {F : Type} [Inhabited F] [DecidableEq F] (H : F → F → F) (zero : F)

omit [Inhabited F] [DecidableEq F] in
theorem runUpdates_fst : ∀ (us : List (ℕ × F)) (t : Tree.Tree F),
    (runUpdates H zero t us).1 = t.run H zero us
  | [], _ => rfl
  | u :: us, t => by
    show (runUpdates H zero (t.update H zero u.1 u.2).1 us).1 = _
    rw [runUpdates_fst us]; rfl

omit [Inhabited F] [DecidableEq F] in
theorem runUpdates_length : ∀ (us : List (ℕ × F)) (t : Tree.Tree F),
    (runUpdates H zero t us).2.length = us.length
  | [], _ => rfl
  | u :: us, t => by
    show ((t.update H zero u.1 u.2).2 :: (runUpdates H zero (t.update H zero u.1 u.2).1 us).2).length = _
    rw [List.length_cons, runUpdates_length us, List.length_cons]

omit [DecidableEq F] in
/-- every proof returned along a run from a reachable tree has length `d` -/
theorem runUpdates_proof_length (d : ℕ) : ∀ (us : List (ℕ × F)) (hist : List (ℕ × F)),
    ∀ prf ∈ (runUpdates H zero (reach H zero d hist) us).2, prf.length = d
  | [], _ => by intro prf h; simp [runUpdates] at h
  | u :: us, hist => by
    intro prf h
    have hh : (runUpdates H zero (reach H zero d hist) (u :: us)).2 =
        ((reach H zero d hist).update H zero u.1 u.2).2 ::
          (runUpdates H zero ((reach H zero d hist).update H zero u.1 u.2).1 us).2 := rfl
    rw [hh] at h
    rcases List.mem_cons.mp h with rfl | h
    · exact (update_proof_authenticates H zero d hist u.1 u.2).1
    · rw [← reach_snoc] at h
      exact runUpdates_proof_length d us _ prf h

/-- insertion of consecutive empty leaves `k, k+1, …, k+n-1` with the proofs returned by `Update` -/
theorem ins_aux (val : F → ℕ) (addi : F → ℕ → F) (start : F) (d : ℕ) (v : ℕ → F) :
    ∀ (n k : ℕ) (hist : List (ℕ × F)), k + n ≤ 2 ^ d →
      (∀ j, k ≤ j → j < 2 ^ d → leavesAfter zero d hist j = zero) →
      (∀ j, j < k + n → val (addi start j) = j) →
      insertionSpec H zero val addi d start k ((reach H zero d hist).rootValue zero)
        (((List.range' k n).map fun i => (i, v i)).map Prod.snd)
        (runUpdates H zero (reach H zero d hist) ((List.range' k n).map fun i => (i, v i))).2 =
      some ((runUpdates H zero (reach H zero d hist)
        ((List.range' k n).map fun i => (i, v i))).1.rootValue zero) := by
  intro n
  induction n with
  | zero => intro k hist _ _ _; rfl
  | succ n ih =>
    intro k hist hk hz hval
    have hk' : k < 2 ^ d := by omega
    obtain ⟨_, _, hold, hnew⟩ := update_proof_authenticates H zero d hist k (v k)
    rw [Nat.mod_eq_of_lt hk', hz k (Nat.le_refl k) hk'] at hold
    rw [Nat.mod_eq_of_lt hk'] at hnew
    rw [List.range'_succ, List.map_cons, List.map_cons]
    show insertionSpec H zero val addi d start k ((reach H zero d hist).rootValue zero)
        (v k :: _) (((reach H zero d hist).update H zero k (v k)).2 ::
          (runUpdates H zero ((reach H zero d hist).update H zero k (v k)).1 _).2) =
      some ((runUpdates H zero ((reach H zero d hist).update H zero k (v k)).1 _).1.rootValue zero)
    rw [insertionSpec, hval k (by omega), insertionStep, if_pos ⟨hk', hold⟩, hnew, ← reach_snoc]
    refine ih (k + 1) (hist ++ [(k, v k)]) (by omega) ?_ (fun j hj => hval j (by omega))
    intro j hj hj2
    rw [leavesAfter_snoc, Nat.mod_eq_of_lt hk']
    simp only [setLeaf]
    rw [if_neg (by omega)]
    exact hz j (by omega) hj2

/-- deletion of pairwise distinct leaves, each presented with its current value -/
theorem del_aux (val : F → ℕ) (ix : ℕ → F) (d : ℕ) :
    ∀ (us : List (ℕ × F)) (hist : List (ℕ × F)), us.Pairwise (fun a b => a.1 ≠ b.1) →
      (∀ u ∈ us, u.1 < 2 ^ d) → (∀ u ∈ us, leavesAfter zero d hist u.1 = u.2) →
      (∀ u ∈ us, val (ix u.1) = u.1) →
      deletionSpec H zero val d ((reach H zero d hist).rootValue zero) (us.map fun u => ix u.1)
        (us.map Prod.snd)
        (runUpdates H zero (reach H zero d hist) (us.map fun u => (u.1, zero))).2 =
      some ((runUpdates H zero (reach H zero d hist) (us.map fun u => (u.1, zero))).1.rootValue zero) := by
  intro us
  induction us with
  | nil => intro hist _ _ _ _; rfl
  | cons u us ih =>
    intro hist hp hlt hleaf hval
    have hu : u.1 < 2 ^ d := hlt u List.mem_cons_self
    obtain ⟨_, _, hold, hnew⟩ := update_proof_authenticates H zero d hist u.1 zero
    rw [Nat.mod_eq_of_lt hu, hleaf u List.mem_cons_self] at hold
    rw [Nat.mod_eq_of_lt hu] at hnew
    rw [List.map_cons, List.map_cons, List.map_cons]
    show deletionSpec H zero val d ((reach H zero d hist).rootValue zero) (ix u.1 :: _) (u.2 :: _)
        (((reach H zero d hist).update H zero u.1 zero).2 ::
          (runUpdates H zero ((reach H zero d hist).update H zero u.1 zero).1 _).2) =
      some ((runUpdates H zero ((reach H zero d hist).update H zero u.1 zero).1 _).1.rootValue zero)
    rw [deletionSpec, hval u List.mem_cons_self, deletionStep, if_pos hu, if_pos hold, hnew,
      ← reach_snoc]
    obtain ⟨hne, hp'⟩ := List.pairwise_cons.mp hp
    refine ih (hist ++ [(u.1, zero)]) hp' (fun x hx => hlt x (List.mem_cons_of_mem _ hx)) ?_
      (fun x hx => hval x (List.mem_cons_of_mem _ hx))
    intro x hx
    rw [leavesAfter_snoc, Nat.mod_eq_of_lt hu]
    simp only [setLeaf]
    rw [if_neg (fun h => hne x hx h.symm)]
    exact hleaf x (List.mem_cons_of_mem _ hx)

omit [DecidableEq F] in
/-- leaves after writing `w 0 … w (m-1)` to the leaves `0 … m-1` of a fresh tree -/
theorem leavesAfter_fill (d : ℕ) (w : ℕ → F) : ∀ m, m ≤ 2 ^ d → ∀ j,
    leavesAfter zero d ((List.range m).map fun i => (i, w i)) j = if j < m then w j else zero := by
  intro m
  induction m with
  | zero => intro _ j; simp [leavesAfter, leavesFrom]
  | succ m ih =>
    intro hm j
    rw [List.range_succ, List.map_append, List.map_singleton, leavesAfter_snoc,
      Nat.mod_eq_of_lt (by omega)]
    simp only [setLeaf]
    by_cases hj : j = m
    · subst hj; simp
    · rw [if_neg hj, ih (by omega) j]
      by_cases hlt : j < m
      · rw [if_pos hlt, if_pos (by omega)]
      · rw [if_neg hlt, if_neg (by omega)]

omit [Inhabited F] [DecidableEq F] in
theorem reach_nil' (d : ℕ) : newTree H zero d = (newTree H zero d).run H zero [] := rfl

/-- **`gen-test-params`, insertion mode, abstract hash.** -/
theorem genInsertionG_valid (ofNat : ℕ → F) (val : F → ℕ) (addi : F → ℕ → F) (start : F) (d b : ℕ)
    (hb : b ≤ 2 ^ d) (hval : ∀ j, j < b → val (addi start j) = j) :
    insertionSpec H zero val addi d start 0 (genInsertionG H zero ofNat d b).preRoot
      (genInsertionG H zero ofNat d b).idComms (genInsertionG H zero ofNat d b).merkleProofs =
      some (genInsertionG H zero ofNat d b).postRoot := by
  have h := ins_aux H zero val addi start d (fun i => ofNat (i + 1)) b 0 [] (by omega)
    (fun j _ _ => rfl) (fun j hj => hval j (by omega))
  rw [← List.range_eq_range'] at h
  exact h

omit [DecidableEq F] in
theorem genInsertionG_shape (ofNat : ℕ → F) (d b : ℕ) :
    (genInsertionG H zero ofNat d b).startIndex = 0 ∧
    (genInsertionG H zero ofNat d b).idComms = (List.range b).map (fun i => ofNat (i + 1)) ∧
    (genInsertionG H zero ofNat d b).merkleProofs.length = b ∧
    ∀ prf ∈ (genInsertionG H zero ofNat d b).merkleProofs, prf.length = d := by
  refine ⟨rfl, ?_, ?_, ?_⟩
  · simp [genInsertionG, insUpdates, List.map_map, Function.comp_def]
  · simp [genInsertionG, runUpdates_length, insUpdates]
  · exact runUpdates_proof_length H zero d _ []

/-- **`gen-test-params`, deletion mode, abstract hash.** -/
theorem genDeletionG_valid (ofNat : ℕ → F) (val : F → ℕ) (ix : ℕ → F) (d b : ℕ)
    (hb : 2 * b ≤ 2 ^ d) (hval : ∀ j, j < 2 ^ d → val (ix j) = j) :
    deletionSpec H zero val d (genDeletionG H zero ofNat d b).preRoot
      ((genDeletionG H zero ofNat d b).deletionIndices.map ix)
      (genDeletionG H zero ofNat d b).idComms (genDeletionG H zero ofNat d b).merkleProofs =
      some (genDeletionG H zero ofNat d b).postRoot := by
  have hfill : (runUpdates H zero (newTree H zero d) (fillUpdates ofNat b)).1 =
      reach H zero d (fillUpdates ofNat b) := runUpdates_fst H zero _ _
  have h := del_aux H zero val ix d ((List.range b).map fun i => (2 * i, ofNat (2 * i + 1)))
    (fillUpdates ofNat b)
    (by
      rw [List.pairwise_map]
      exact (List.pairwise_lt_range (n := b)).imp (fun {a c} h => by simp only [ne_eq]; omega))
    (by
      intro u hu
      obtain ⟨i, hi, rfl⟩ := List.mem_map.mp hu
      have := List.mem_range.mp hi
      simp only; omega)
    (by
      intro u hu
      obtain ⟨i, hi, rfl⟩ := List.mem_map.mp hu
      have := List.mem_range.mp hi
      simp only [fillUpdates]
      rw [leavesAfter_fill zero d (fun i => ofNat (i + 1)) (2 * b) hb, if_pos (by omega)])
    (by
      intro u hu
      obtain ⟨i, hi, rfl⟩ := List.mem_map.mp hu
      have := List.mem_range.mp hi
      exact hval _ (by simp only; omega))
  simp only [List.map_map, Function.comp_def] at h
  simp only [genDeletionG, delUpdates, hfill, List.map_map, Function.comp_def]
  exact h

omit [DecidableEq F] in
theorem genDeletionG_shape (ofNat : ℕ → F) (d b : ℕ) :
    (genDeletionG H zero ofNat d b).deletionIndices = (List.range b).map (fun i => 2 * i) ∧
    (genDeletionG H zero ofNat d b).idComms = (List.range b).map (fun i => ofNat (2 * i + 1)) ∧
    (genDeletionG H zero ofNat d b).merkleProofs.length = b ∧
    ∀ prf ∈ (genDeletionG H zero ofNat d b).merkleProofs, prf.length = d := by
  have hfill : (runUpdates H zero (newTree H zero d) (fillUpdates ofNat b)).1 =
      reach H zero d (fillUpdates ofNat b) := runUpdates_fst H zero _ _
  refine ⟨rfl, rfl, ?_, ?_⟩
  · simp [genDeletionG, runUpdates_length, delUpdates]
  · simp only [genDeletionG, hfill]
    exact runUpdates_proof_length H zero d _ _

/-! ### bounds on roots -/

omit [Inhabited F] [DecidableEq F] in
theorem rootOf_pred (P : F → Prop) (hH : ∀ a b, P (H a b)) (d : ℕ) (f : ℕ → F) (hf : ∀ j, P (f j)) :
    P (rootOf H d f) := by
  cases d with
  | zero => exact hf 0
  | succ d => exact hH _ _

omit [DecidableEq F] in
theorem leavesFrom_pred (P : F → Prop) (d : ℕ) : ∀ (hist : List (ℕ × F)) (f : ℕ → F),
    (∀ j, P (f j)) → (∀ u ∈ hist, P u.2) → ∀ j, P (leavesFrom d f hist j)
  | [], f, hf, _, j => hf j
  | u :: hist, f, hf, hh, j => by
    show P (leavesFrom d (setLeaf f (u.1 % 2 ^ d) u.2) hist j)
    refine leavesFrom_pred P d hist _ ?_ (fun x hx => hh x (List.mem_cons_of_mem _ hx)) j
    intro i
    simp only [setLeaf]
    split
    · exact hh u List.mem_cons_self
    · exact hf i

omit [DecidableEq F] in
/-- `Root()` of a reachable tree satisfies every predicate that holds of `zero`, of all written
values and of all hash outputs -/
theorem reach_root_pred (P : F → Prop) (hH : ∀ a b, P (H a b)) (hz : P zero) (d : ℕ)
    (hist : List (ℕ × F)) (hh : ∀ u ∈ hist, P u.2) : P ((reach H zero d hist).rootValue zero) := by
  rw [root_eq_dense]
  exact rootOf_pred H P hH d _ (leavesFrom_pred P d hist _ (fun _ => hz) hh)

end generic

/-! ## the BN254 instance -/

theorem foldl_mod_lt (p : ℕ) (hp : 0 < p) (g : ℕ → ℕ × ℕ → ℕ) :
    ∀ (l : List (ℕ × ℕ)) (acc : ℕ), acc < p → l.foldl (fun a x => g a x % p) acc < p
  | [], _, h => h
  | _ :: l, _, _ => foldl_mod_lt p hp g l _ (Nat.mod_lt _ hp)

theorem dot_lt (p : ℕ) (hp : 0 < p) (st row : List ℕ) : Poseidon.dot p st row < p :=
  foldl_mod_lt p hp (fun acc xc => acc + xc.1 * xc.2 % p) _ 0 hp

theorem fullRound_headD_lt (p : ℕ) (hp : 0 < p) (P : Poseidon.Params) (st row : List ℕ) :
    (Poseidon.fullRound p P st row).headD 0 < p := by
  unfold Poseidon.fullRound Poseidon.mix
  cases h : List.take ((Poseidon.addRow p st row).map (Poseidon.pow5 p)).length P.mds with
  | nil => simpa using hp
  | cons r rs => simpa using dot_lt p hp _ r

theorem lastRounds3 : ∃ l r, (Poseidon.params3.ark.drop (Poseidon.params3.RF / 2 + Poseidon.params3.RP)).take
    (Poseidon.params3.RF / 2) = l ++ [r] := by
  refine ⟨((Poseidon.params3.ark.drop (Poseidon.params3.RF / 2 + Poseidon.params3.RP)).take
    (Poseidon.params3.RF / 2)).dropLast, ((Poseidon.params3.ark.drop (Poseidon.params3.RF / 2 + Poseidon.params3.RP)).take
    (Poseidon.params3.RF / 2)).getLastD [], ?_⟩
  decide +kernel

theorem hash2_lt (p : ℕ) (hp : 0 < p) (a b : ℕ) : Poseidon.hash2 p a b < p := by
  unfold Poseidon.hash2 Poseidon.permute
  obtain ⟨l, r, h⟩ := lastRounds3
  simp only [h, List.foldl_append, List.foldl_cons, List.foldl_nil]
  exact fullRound_headD_lt p hp _ _ _

theorem bn254r_pos : 0 < Poseidon.bn254r := by decide +kernel
theorem bn254r_lt : Poseidon.bn254r < 2 ^ 256 := by decide +kernel

theorem H254_lt (a b : ℕ) : H254 a b < Poseidon.bn254r := hash2_lt _ bn254r_pos a b

end Smtb.Pack
