import Smtb.Model.File
/-! Proofs for C11 / C15 (core Lean only): header words, `io.ReadFull`, the reader on written and on
truncated files, the toy codec instance. -/
namespace Smtb.File

-- decidable equality of read results (for the `decide`d examples)
deriving instance DecidableEq for Except

/-! ### header words -/

theorem u32BE_length (n : Nat) : (u32BE n).length = 4 := rfl

theorem readU32BE_u32BE_mod (n : Nat) : readU32BE (u32BE n) = n % 2 ^ 32 := by
  simp only [u32BE, readU32BE, Nat.reducePow]
  have : n % 4294967296 < 4294967296 := Nat.mod_lt _ (by decide)
  generalize n % 4294967296 = m at *
  omega

theorem readU32BE_u32BE {n : Nat} (h : n < 2 ^ 32) : readU32BE (u32BE n) = n := by
  rw [readU32BE_u32BE_mod, Nat.mod_eq_of_lt h]

theorem u32BE_lt (n : Nat) : ∀ b ∈ u32BE n, b < 256 := by
  intro b hb
  simp only [u32BE, List.mem_cons, List.not_mem_nil, or_false, Nat.reducePow] at hb
  have : n % 4294967296 < 4294967296 := Nat.mod_lt _ (by decide)
  generalize n % 4294967296 = m at *
  -- restate over `Nat` (`Byte` is an abbreviation; `omega` wants the literal type)
  have hb' : @Eq Nat b (m / 16777216) ∨ @Eq Nat b (m / 65536 % 256) ∨
      @Eq Nat b (m / 256 % 256) ∨ @Eq Nat b (m % 256) := hb
  show @LT.lt Nat _ b 256
  omega

/-! ### io.ReadFull -/

theorem readFull_append {n : Nat} {pre : List Byte} (rest : List Byte) (hl : pre.length = n)
    (hn : 0 < n) : readFull n (pre ++ rest) = .ok (pre, rest) := by
  subst hl
  have h0 : pre.length ≠ 0 := Nat.pos_iff_ne_zero.1 hn
  simp [readFull, h0]

theorem readFull_u32BE (n : Nat) (rest : List Byte) :
    readFull 4 (u32BE n ++ rest) = .ok (u32BE n, rest) :=
  readFull_append rest (u32BE_length n) (by decide)

theorem readFull_short {n : Nat} {l : List Byte} (h : l.length < n) :
    readFull n l = .error (if l.length = 0 then .EOF else .unexpectedEOF) := by
  have hn : n ≠ 0 := by omega
  by_cases h0 : l.length = 0 <;> simp [readFull, hn, h0, h]

/-! ### taking a prefix of an append -/

theorem take_append_lt {l₁ : List Byte} (l₂ : List Byte) {k : Nat} (h : k < l₁.length) :
    (l₁ ++ l₂).take k = l₁.take k := by
  rw [List.take_append, show k - l₁.length = 0 by omega]; simp

theorem take_append_ge {l₁ : List Byte} (l₂ : List Byte) {k : Nat} (h : l₁.length ≤ k) :
    (l₁ ++ l₂).take k = l₁ ++ l₂.take (k - l₁.length) := by
  rw [List.take_append, List.take_of_length_le h]

theorem take_strict_prefix {l : List Byte} {k : Nat} (h : k < l.length) :
    l.take k <+: l ∧ l.take k ≠ l := by
  refine ⟨List.take_prefix k l, fun e => ?_⟩
  have := congrArg List.length e
  simp at this; omega

section
variable {PK VK CS : Type} (c : Codecs PK VK CS)

theorem Codecs.H1.encPK {c : Codecs PK VK CS} (h : c.H1) (fmt : Format) :
    RoundTrip (encPK c fmt) c.pk.dec := by
  cases fmt
  · exact h.pk
  · exact h.pkRaw
theorem Codecs.H1.encVK {c : Codecs PK VK CS} (h : c.H1) (fmt : Format) :
    RoundTrip (encVK c fmt) c.vk.dec := by
  cases fmt
  · exact h.vk
  · exact h.vkRaw
theorem Codecs.H2.encPK {c : Codecs PK VK CS} (h : c.H2) (fmt : Format) :
    RejectsTruncation (encPK c fmt) c.pk.dec := by
  cases fmt
  · exact h.pk
  · exact h.pkRaw
theorem Codecs.H2.encVK {c : Codecs PK VK CS} (h : c.H2) (fmt : Format) :
    RejectsTruncation (encVK c fmt) c.vk.dec := by
  cases fmt
  · exact h.vk
  · exact h.vkRaw

theorem write_assoc (fmt : Format) (ps : System PK VK CS) :
    write c fmt ps = u32BE ps.depth ++ (u32BE ps.batch ++ (encPK c fmt ps.pk ++
      (encVK c fmt ps.vk ++ c.cs.enc ps.cs))) := by
  simp [write, List.append_assoc]

theorem write_length (fmt : Format) (ps : System PK VK CS) :
    (write c fmt ps).length =
      8 + (encPK c fmt ps.pk).length + (encVK c fmt ps.vk).length + (c.cs.enc ps.cs).length := by
  simp [write, u32BE_length]; omega

/-- `read` and its stage-instrumented variant agree -/
theorem read_eq_readStaged (bytes : List Byte) :
    read c bytes = (readStaged c bytes).mapError (·.2) := by
  unfold read readStaged
  cases readFull 4 bytes with
  | error e => rfl
  | ok a =>
    obtain ⟨w1, r1⟩ := a
    cases h2 : readFull 4 r1 with
    | error e => simp [bind, Except.bind, Except.mapError, h2]
    | ok a =>
      obtain ⟨w2, r2⟩ := a
      cases h3 : c.pk.dec r2 with
      | error e => simp [bind, Except.bind, Except.mapError, h2, h3]
      | ok a =>
        obtain ⟨pk, r3⟩ := a
        cases h4 : c.vk.dec r3 with
        | error e => simp [bind, Except.bind, Except.mapError, h2, h3, h4]
        | ok a =>
          obtain ⟨vk, r4⟩ := a
          cases h5 : c.cs.dec r4 with
          | error e => simp [bind, Except.bind, Except.mapError, h2, h3, h4, h5]
          | ok a =>
            obtain ⟨cs, r5⟩ := a
            simp [bind, Except.bind, Except.mapError, h2, h3, h4, h5, pure, Except.pure]

/-- the reader on a written file followed by arbitrary bytes -/
theorem readStaged_write_append (h1 : c.H1) (fmt : Format) (ps : System PK VK CS)
    (hd : ps.depth < 2 ^ 32) (hb : ps.batch < 2 ^ 32) (junk : List Byte) :
    readStaged c (write c fmt ps ++ junk) = .ok ps := by
  rw [write_assoc]
  simp only [List.append_assoc]
  simp only [readStaged, readFull_u32BE, h1.encPK fmt _ _, h1.encVK fmt _ _, h1.cs _ _,
    Except.mapError, bind, Except.bind, pure, Except.pure, readU32BE_u32BE hd, readU32BE_u32BE hb]

/-- the reader on a truncated file fails, in the stage determined by the section lengths -/
theorem readStaged_take_write (h1 : c.H1) (h2 : c.H2) (fmt : Format) (ps : System PK VK CS)
    (k : Nat) (hk : k < (write c fmt ps).length) :
    ∃ e, readStaged c ((write c fmt ps).take k) =
      .error (cutStage (encPK c fmt ps.pk).length (encVK c fmt ps.vk).length
        (c.cs.enc ps.cs).length k, e) := by
  rw [write_length] at hk
  rw [write_assoc]
  by_cases k4 : k < 4
  · -- cut inside the first header word
    rw [take_append_lt _ (by simpa [u32BE_length] using k4)]
    have hs : ((u32BE ps.depth).take k).length < 4 := by simp [u32BE_length]; omega
    refine ⟨if ((u32BE ps.depth).take k).length = 0 then .EOF else .unexpectedEOF, ?_⟩
    simp only [readStaged, readFull_short hs, Except.mapError, bind, Except.bind, cutStage, k4,
      if_true]
  rw [take_append_ge _ (by simpa [u32BE_length] using Nat.le_of_not_lt k4), u32BE_length]
  by_cases k8 : k < 8
  · -- cut inside the second header word (k = 4: the second ReadFull sees EOF)
    rw [take_append_lt _ (by simp [u32BE_length]; omega)]
    have hs : ((u32BE ps.batch).take (k - 4)).length < 4 := by simp [u32BE_length]; omega
    refine ⟨if ((u32BE ps.batch).take (k - 4)).length = 0 then .EOF else .unexpectedEOF, ?_⟩
    simp only [readStaged, readFull_u32BE, readFull_short hs, Except.mapError, bind, Except.bind,
      cutStage, k4, k8, if_true, if_false]
  rw [take_append_ge _ (by simp [u32BE_length]; omega), u32BE_length,
    show k - 4 - 4 = k - 8 by omega]
  by_cases kP : k < 8 + (encPK c fmt ps.pk).length
  · -- cut inside the proving key
    rw [take_append_lt _ (by omega)]
    have ⟨p1, p2⟩ := take_strict_prefix (l := encPK c fmt ps.pk) (k := k - 8) (by omega)
    obtain ⟨e, he⟩ := h2.encPK fmt ps.pk _ p1 p2
    refine ⟨e, ?_⟩
    simp only [readStaged, readFull_u32BE, he, Except.mapError, bind, Except.bind,
      cutStage, k4, k8, kP, if_true, if_false]
  rw [take_append_ge _ (by omega)]
  by_cases kV : k < 8 + (encPK c fmt ps.pk).length + (encVK c fmt ps.vk).length
  · -- cut inside the verifying key (or exactly at its start)
    rw [take_append_lt _ (by omega)]
    have ⟨p1, p2⟩ := take_strict_prefix (l := encVK c fmt ps.vk)
      (k := k - 8 - (encPK c fmt ps.pk).length) (by omega)
    obtain ⟨e, he⟩ := h2.encVK fmt ps.vk _ p1 p2
    refine ⟨e, ?_⟩
    simp only [readStaged, readFull_u32BE, h1.encPK fmt _ _, he, Except.mapError, bind,
      Except.bind, cutStage, k4, k8, kP, kV, if_true, if_false]
  -- cut inside the constraint system (or exactly at its start)
  rw [take_append_ge _ (by omega)]
  have ⟨p1, p2⟩ := take_strict_prefix (l := c.cs.enc ps.cs)
    (k := k - 8 - (encPK c fmt ps.pk).length - (encVK c fmt ps.vk).length) (by omega)
  obtain ⟨e, he⟩ := h2.cs ps.cs _ p1 p2
  refine ⟨e, ?_⟩
  simp only [readStaged, readFull_u32BE, h1.encPK fmt _ _, h1.encVK fmt _ _, he, Except.mapError,
    bind, Except.bind, cutStage, k4, k8, kP, kV, if_false]

end

/-! ### the toy codecs satisfy H1 and H2 -/
namespace Toy

theorem roundTrip {tag : Nat} (ht : tag = 0 ∨ tag = 1) : RoundTrip (enc tag) dec := by
  intro x rest
  have : ¬ (tag ≠ 0 ∧ tag ≠ 1) := by omega
  simp [enc, dec, this]

theorem rejects {tag : Nat} (ht : tag = 0 ∨ tag = 1) : RejectsTruncation (enc tag) dec := by
  intro x pre hp hne
  match pre, hp, hne with
  | [], _, _ => exact ⟨_, rfl⟩
  | [_], _, _ => exact ⟨_, rfl⟩
  | a :: b :: p, hp, hne =>
    simp only [enc, List.cons_prefix_cons] at hp
    obtain ⟨rfl, rfl, hp⟩ := hp
    have hlen : p.length < x.length := by
      rcases Nat.lt_or_ge p.length x.length with h | h
      · exact h
      · have e : p = x := hp.eq_of_length_le h
        subst e
        exact absurd rfl hne
    have : ¬ (a ≠ 0 ∧ a ≠ 1) := by rcases ht with rfl | rfl <;> simp
    exact ⟨.unexpectedEOF, by simp [dec, this, hlen]⟩

theorem h1 : codecs.H1 :=
  ⟨roundTrip (.inl rfl), roundTrip (.inr rfl), roundTrip (.inl rfl), roundTrip (.inr rfl),
    roundTrip (.inl rfl)⟩

theorem h2 : codecs.H2 :=
  ⟨rejects (.inl rfl), rejects (.inr rfl), rejects (.inl rfl), rejects (.inr rfl),
    rejects (.inl rfl)⟩

end Toy

end Smtb.File
