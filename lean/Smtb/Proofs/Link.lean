import Smtb.Proofs.GenProvable
import Smtb.Proofs.Pack
import Smtb.Proofs.Prover
import Smtb.Properties.C03
/-!
# The cast `ℕ → ZMod r` commutes with the batch specifications, *in both directions*

`Smtb.Pack.insertionSpec_map` / `deletionSpec_map` (`Proofs/GenProvable.lean`) give one direction:
a valid batch over `ℕ` (reference Poseidon `H254 = hash2 r`) is mapped by the cast to a valid batch
over `ZMod r` (the circuit's `poseidonH r`).  Here the converse is added for *reduced* leaves and
roots, so that the executable acceptance predicates of `Smtb/Model/Prover.lean` are **equivalent**
to the right-hand sides of the circuit theorems `C03.insertionCircuit_sat_iff` /
`C03.deletionCircuit_sat_iff`.

The converse rests on two facts:

* `recover_lt` — a recomputed root is `< r` as soon as the *leaf* is (`H254` always returns a
  residue), whatever the sibling path;
* `cast_inj` — the cast is injective on residues.

No hypothesis on the entries of the sibling paths is needed: they only ever enter `hash2 r`, which
reduces its arguments (`hash2_mod`), and the cast forgets exactly that.
-/
namespace Smtb.Link
open Smtb Smtb.Merkle Smtb.Batch Smtb.Poseidon Smtb.Pack Smtb.Bits

/-- the field of the deployed circuits -/
abbrev r : ℕ := bn254r

/-- the cast of a natural number into the circuit's field -/
abbrev c (x : ℕ) : ZMod r := (x : ZMod r)

theorem prover_r : Prover.r = r := rfl

theorem cast_inj {x y : ℕ} (hx : x < r) (hy : y < r) : c x = c y ↔ x = y := by
  unfold c
  rw [ZMod.natCast_eq_natCast_iff', Nat.mod_eq_of_lt hx, Nat.mod_eq_of_lt hy]

theorem val_c {x : ℕ} (h : x < r) : (c x).val = x := by
  unfold c; rw [ZMod.val_natCast]; exact Nat.mod_eq_of_lt h

theorem map_val_c (l : List ℕ) (h : ∀ x ∈ l, x < r) : (l.map c).map ZMod.val = l := by
  rw [List.map_map]
  conv_rhs => rw [← List.map_id l]
  exact List.map_congr_left fun x hx => val_c (h x hx)

/-- `fr.Element.SetBigInt`: the cast of the canonical residue is the cast of the integer -/
theorem c_red (x : ℤ) : c (Prover.red x) = ((x : ℤ) : ZMod r) := by
  unfold c
  have h1 : (((Prover.red x : ℕ) : ℤ) : ZMod r) = ((x.emod (r : ℤ) : ℤ) : ZMod r) := by
    rw [Prover.red_cast]; rfl
  rw [Int.cast_natCast] at h1
  rw [h1]
  show ((x % (r : ℤ) : ℤ) : ZMod r) = _
  exact ZMod.intCast_mod x r

/-! ## recomputed roots -/

/-- a recomputed root is a residue as soon as the leaf is one -/
theorem recover_lt : ∀ (sibs : List ℕ) (bits : List Bool) (a : ℕ), a < r →
    recover H254 a sibs bits < r
  | [], _, _, h => by rw [recover]; exact h; intros; contradiction
  | _ :: _, [], _, h => by rw [recover]; exact h; intros; simp_all
  | s :: sibs, b :: bits, a, _ => by
    rw [recover]
    refine recover_lt sibs bits _ ?_
    cases b
    · exact H254_lt a s
    · exact H254_lt s a

theorem recover_c (sibs : List ℕ) (bits : List Bool) (a : ℕ) :
    c (recover H254 a sibs bits) = recover (Sat.poseidonH r) (c a) (sibs.map c) bits :=
  recover_map c H254 (Sat.poseidonH r) cast_H254 sibs bits a

/-- comparison of a recomputed root with a residue, before and after the cast -/
theorem recover_eq_iff (sibs : List ℕ) (bits : List Bool) {a x : ℕ} (ha : a < r) (hx : x < r) :
    recover (Sat.poseidonH r) (c a) (sibs.map c) bits = c x ↔ recover H254 a sibs bits = x := by
  rw [← recover_c, cast_inj (recover_lt sibs bits a ha) hx]

/-! ## the batch specifications -/

theorem val_add (s j : ℕ) : (c s + ((j : ℕ) : ZMod r)).val = (s + j) % r := by
  unfold c; rw [← Nat.cast_add, ZMod.val_natCast]

/-- **Insertion specification**: over `ℕ` with the reference hash ⇔ over `ZMod r` with the
circuit's hash, on the cast values.  `start`, `k` and the sibling paths are arbitrary. -/
theorem insertionSpec_iff (d start post : ℕ) (hpost : post < r) :
    ∀ (ids : List ℕ) (proofs : List (List ℕ)) (k prev : ℕ), prev < r → (∀ x ∈ ids, x < r) →
      (insertionSpec H254 0 id (fun s j => (s + j) % r) d start k prev ids proofs = some post ↔
        insertionSpec (Sat.poseidonH r) 0 ZMod.val (fun s j => s + (j : ZMod r)) d (c start) k
          (c prev) (ids.map c) (proofs.map (List.map c)) = some (c post))
  | [], _, _, _, hprev, _ => by
    rw [List.map_nil, insertionSpec, insertionSpec]
    · simp only [Option.some.injEq]; exact (cast_inj hprev hpost).symm
    all_goals (intros; contradiction)
  | _ :: _, [], _, _, hprev, _ => by
    rw [List.map_nil, insertionSpec, insertionSpec]
    · simp only [Option.some.injEq]; exact (cast_inj hprev hpost).symm
    all_goals (intros; simp_all)
  | x :: ids, prf :: proofs, k, prev, hprev, hids => by
    have hx : x < r := hids x List.mem_cons_self
    have h0 : (0 : ZMod r) = c 0 := by unfold c; rw [Nat.cast_zero]
    rw [List.map_cons, List.map_cons, insertionSpec, insertionSpec, val_add]
    unfold insertionStep
    simp only [id]
    rw [h0]
    simp only [recover_eq_iff prf _ (show (0 : ℕ) < r by decide) hprev]
    rw [← recover_c]
    by_cases hc : (start + k) % r < 2 ^ d ∧
        recover H254 0 prf (bitsLE d ((start + k) % r)) = prev
    · rw [if_pos hc, if_pos hc]
      exact insertionSpec_iff d start post hpost ids proofs (k + 1) _ (recover_lt _ _ _ hx)
        (fun y hy => hids y (List.mem_cons_of_mem _ hy))
    · rw [if_neg hc, if_neg hc]
      simp

/-- **Deletion specification**: over `ℕ` ⇔ over `ZMod r` on the cast values.  The indices must be
residues (they are compared as numbers: `ZMod.val`); the sibling paths are arbitrary. -/
theorem deletionSpec_iff (d post : ℕ) (hpost : post < r) :
    ∀ (idxs ids : List ℕ) (proofs : List (List ℕ)) (root : ℕ), root < r →
      (∀ i ∈ idxs, i < r) → (∀ x ∈ ids, x < r) →
      (deletionSpec H254 0 id d root idxs ids proofs = some post ↔
        deletionSpec (Sat.poseidonH r) 0 ZMod.val d (c root) (idxs.map c) (ids.map c)
          (proofs.map (List.map c)) = some (c post))
  | [], _, _, _, hroot, _, _ => by
    rw [List.map_nil, deletionSpec, deletionSpec]
    · simp only [Option.some.injEq]; exact (cast_inj hroot hpost).symm
    all_goals (intros; contradiction)
  | _ :: _, [], _, _, hroot, _, _ => by
    rw [List.map_nil (f := c), deletionSpec, deletionSpec]
    · simp only [Option.some.injEq]; exact (cast_inj hroot hpost).symm
    all_goals (intros; simp_all)
  | _ :: _, _ :: _, [], _, hroot, _, _ => by
    rw [List.map_nil, deletionSpec, deletionSpec]
    · simp only [Option.some.injEq]; exact (cast_inj hroot hpost).symm
    all_goals (intros; simp_all)
  | i :: idxs, x :: ids, prf :: proofs, root, hroot, hidx, hids => by
    have hx : x < r := hids x List.mem_cons_self
    have hi : i < r := hidx i List.mem_cons_self
    have h0 : (0 : ZMod r) = c 0 := by unfold c; rw [Nat.cast_zero]
    have ih := fun (root' : ℕ) (h : root' < r) =>
      deletionSpec_iff d post hpost idxs ids proofs root' h
        (fun y hy => hidx y (List.mem_cons_of_mem _ hy))
        (fun y hy => hids y (List.mem_cons_of_mem _ hy))
    rw [List.map_cons, List.map_cons, List.map_cons, deletionSpec, deletionSpec, val_c hi]
    unfold deletionStep
    simp only [id]
    simp only [recover_eq_iff prf _ hx hroot]
    rw [h0, ← recover_c]
    by_cases h1 : i < 2 ^ d
    · rw [if_pos h1, if_pos h1]
      by_cases h2 : recover H254 x prf (bitsLE d i) = root
      · rw [if_pos h2, if_pos h2]
        exact ih _ (recover_lt _ _ _ (by decide))
      · rw [if_neg h2, if_neg h2]; simp
    · rw [if_neg h1, if_neg h1]
      by_cases h3 : i < 2 ^ (d + 1)
      · rw [if_pos h3, if_pos h3]
        exact ih _ hroot
      · rw [if_neg h3, if_neg h3]; simp

/-! ## the public input -/

/-- the model's `Keccak-256(packing) mod r` is the public input `C03` proves the insertion circuit
to enforce (no range hypothesis: both sides write the low 32 resp. 256 bits) -/
theorem publicInput_insertion (start pre post : ℕ) (ids : List ℕ) :
    c (natOfBytesBE (KeccakRef.keccak256 (Prover.insertionPacking start pre post ids))) =
      Properties.C03.insertionPublicInput start pre post ids := by
  unfold Properties.C03.insertionPublicInput c
  rw [← natOfBytesBE_bitsToBytes _ (by rw [keccak256Bits_length]; decide), ← pack_bits_insertion,
    ← bytesToBits_eq]
  rfl

theorem publicInput_deletion (idxs : List ℕ) (pre post : ℕ) :
    c (natOfBytesBE (KeccakRef.keccak256 (Prover.deletionPacking idxs pre post))) =
      Properties.C03.deletionPublicInput idxs pre post := by
  unfold Properties.C03.deletionPublicInput c
  rw [← natOfBytesBE_bitsToBytes _ (by rw [keccak256Bits_length]; decide), ← pack_bits_deletion,
    ← bytesToBits_eq]
  rfl

/-- `ih % r = h % r` is equality of the casts -/
theorem mod_eq_iff_c (a b : ℕ) : a % r = b % r ↔ c a = c b := by
  unfold c; rw [ZMod.natCast_eq_natCast_iff']

end Smtb.Link
