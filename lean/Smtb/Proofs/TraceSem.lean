import Smtb.Circuit.Trace
import Smtb.Proofs.Sat
/-!
# A first-order semantics of recorded traces

`Smtb.Circuit.Trace` records one structured line (`TLine`) per `frontend.API` call.  This file
gives those lines a meaning that does not mention the program that produced them: an environment
assigns a field value to every wire id, and each line is a constraint on the environment, read off
the gate table of `Smtb.Proofs.Sat` literally.  A trace denotes the conjunction of its lines
(order-free).  Opaque gadget calls (`call1` / `callN`) are assumed functions `H`, `K`.

`Smtb.Proofs.TraceSound` proves, per gadget, that the satisfiability semantics of the polymorphic
program equals this semantics of its own recorded trace.
-/
namespace Smtb.TraceSem
open Smtb

/-- the value of every wire id -/
abbrev Env (p : ℕ) := ℕ → ZMod p

variable {p : ℕ}

/-- value of a trace-level operand: a constant is its cast, a wire is looked up -/
def evalTV (env : Env p) : TV → ZMod p
  | .c n => (n : ZMod p)
  | .v i => env i

@[simp] theorem evalTV_c (env : Env p) (n : ℕ) : evalTV env (.c n) = (n : ZMod p) := rfl
@[simp] theorem evalTV_v (env : Env p) (i : ℕ) : evalTV env (.v i) = env i := rfl

/-- the gate table of `Smtb.Proofs.Sat`, as a relation between the result wire's value `r` and the
operand values; unknown operation names (or wrong arities) denote `False` -/
def denoteOp (name : String) (r : ZMod p) (args : List (ZMod p)) : Prop :=
  match name, args with
  | "add", [a, b] => r = a + b
  | "sub", [a, b] => r = a - b
  | "mul", [a, b] => r = a * b
  | "select", [c, a, b] => isBool c ∧ r = b + c * (a - b)
  | "iszero", [a] => ∃ x : ZMod p, r = 1 - a * x ∧ a * r = 0
  | "or", [a, b] => isBool a ∧ isBool b ∧ r = a + b - a * b
  | "xor", [a, b] => isBool a ∧ isBool b ∧ r = a + b - 2 * a * b
  | "and", [a, b] => isBool a ∧ isBool b ∧ r = a * b
  | _, _ => False

/-- an opaque scalar gadget call: only `Poseidon2` with two arguments has a meaning (`H`) -/
def denoteCall1 (H : ZMod p → ZMod p → ZMod p) (name : String) (r : ZMod p)
    (args : List (ZMod p)) : Prop :=
  match name, args with
  | "Poseidon2", [a, b] => r = H a b
  | _, _ => False

/-- an opaque multi-result gadget call: only `KeccakGadget` has a meaning (`K`, a function of the
gadget's Go-level parameters and its argument values) -/
def denoteCallN (K : List ℕ → List (ZMod p) → List (ZMod p)) (name : String) (params : List ℕ)
    (rs : List (ZMod p)) (args : List (ZMod p)) : Prop :=
  name = "KeccakGadget" ∧ rs = K params args

/-- the constraint one recorded line puts on the environment -/
def denoteLine (p : ℕ) (H : ZMod p → ZMod p → ZMod p)
    (K : List ℕ → List (ZMod p) → List (ZMod p)) (env : Env p) : TLine → Prop
  | .op r name args => denoteOp name (env r) (args.map (evalTV env))
  | .toBinary first n a =>
      (∀ i < n, isBool (env (first + i))) ∧
        recompose ((List.range n).map fun i => env (first + i)) = evalTV env a
  | .fromBinary r bs =>
      (∀ b ∈ bs, isBool (evalTV env b)) ∧ env r = recompose (bs.map (evalTV env))
  | .assertBool a => isBool (evalTV env a)
  | .assertEq a b => evalTV env a = evalTV env b
  | .call1 r name _ args => denoteCall1 H name (env r) (args.map (evalTV env))
  | .callN first n name params args =>
      denoteCallN K name params ((List.range n).map fun i => env (first + i)) (args.map (evalTV env))
  | .text _ => True

/-- a trace denotes the conjunction of its lines -/
def denote (p : ℕ) (H : ZMod p → ZMod p → ZMod p) (K : List ℕ → List (ZMod p) → List (ZMod p))
    (env : Env p) (lines : List TLine) : Prop :=
  ∀ l ∈ lines, denoteLine p H K env l

section table
variable (H : ZMod p → ZMod p → ZMod p) (K : List ℕ → List (ZMod p) → List (ZMod p)) (env : Env p)

/-! The gate table, line by line (all by unfolding). -/

theorem denoteLine_add (r : ℕ) (a b : TV) :
    denoteLine p H K env (.op r "add" [a, b]) ↔ env r = evalTV env a + evalTV env b := Iff.rfl
theorem denoteLine_sub (r : ℕ) (a b : TV) :
    denoteLine p H K env (.op r "sub" [a, b]) ↔ env r = evalTV env a - evalTV env b := Iff.rfl
theorem denoteLine_mul (r : ℕ) (a b : TV) :
    denoteLine p H K env (.op r "mul" [a, b]) ↔ env r = evalTV env a * evalTV env b := Iff.rfl
theorem denoteLine_select (r : ℕ) (c a b : TV) :
    denoteLine p H K env (.op r "select" [c, a, b]) ↔
      isBool (evalTV env c) ∧ env r = evalTV env b + evalTV env c * (evalTV env a - evalTV env b) :=
  Iff.rfl
theorem denoteLine_iszero (r : ℕ) (a : TV) :
    denoteLine p H K env (.op r "iszero" [a]) ↔
      ∃ x : ZMod p, env r = 1 - evalTV env a * x ∧ evalTV env a * env r = 0 := Iff.rfl
theorem denoteLine_or (r : ℕ) (a b : TV) :
    denoteLine p H K env (.op r "or" [a, b]) ↔
      isBool (evalTV env a) ∧ isBool (evalTV env b) ∧
        env r = evalTV env a + evalTV env b - evalTV env a * evalTV env b := Iff.rfl
theorem denoteLine_xor (r : ℕ) (a b : TV) :
    denoteLine p H K env (.op r "xor" [a, b]) ↔
      isBool (evalTV env a) ∧ isBool (evalTV env b) ∧
        env r = evalTV env a + evalTV env b - 2 * evalTV env a * evalTV env b := Iff.rfl
theorem denoteLine_and (r : ℕ) (a b : TV) :
    denoteLine p H K env (.op r "and" [a, b]) ↔
      isBool (evalTV env a) ∧ isBool (evalTV env b) ∧ env r = evalTV env a * evalTV env b := Iff.rfl
theorem denoteLine_poseidon2 (r : ℕ) (ps : List ℕ) (a b : TV) :
    denoteLine p H K env (.call1 r "Poseidon2" ps [a, b]) ↔
      env r = H (evalTV env a) (evalTV env b) := Iff.rfl
theorem denoteLine_keccak (first n : ℕ) (ps : List ℕ) (args : List TV) :
    denoteLine p H K env (.callN first n "KeccakGadget" ps args) ↔
      (List.range n).map (fun i => env (first + i)) = K ps (args.map (evalTV env)) := by
  simp [denoteLine, denoteCallN]
theorem denoteLine_text (s : String) : denoteLine p H K env (.text s) ↔ True := Iff.rfl

theorem denote_nil : denote p H K env [] := by intro l hl; cases hl

theorem denote_append (l₁ l₂ : List TLine) :
    denote p H K env (l₁ ++ l₂) ↔ denote p H K env l₁ ∧ denote p H K env l₂ := by
  simp only [denote, List.mem_append]
  constructor
  · intro h; exact ⟨fun l hl => h l (Or.inl hl), fun l hl => h l (Or.inr hl)⟩
  · rintro ⟨h1, h2⟩ l (hl | hl); exact h1 l hl; exact h2 l hl

/-- the denotation is order-free -/
theorem denote_perm {l₁ l₂ : List TLine} (h : ∀ l, l ∈ l₁ ↔ l ∈ l₂) :
    denote p H K env l₁ ↔ denote p H K env l₂ := by
  simp only [denote]
  constructor
  · intro hd l hl; exact hd l ((h l).mpr hl)
  · intro hd l hl; exact hd l ((h l).mp hl)

theorem denote_reverse (l : List TLine) : denote p H K env l.reverse ↔ denote p H K env l :=
  denote_perm H K env (fun _ => List.mem_reverse)

end table

end Smtb.TraceSem
