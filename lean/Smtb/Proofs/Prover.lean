import Smtb.Model.Prover
/-!
# Lemmas about the prover / verifier glue model (`Smtb.Model.Prover`) — core only

* residues: `red` is `< r`, invariant under adding multiples of `r`, injective exactly on residues;
* `ValidateShape` characterised; the assembly loops never leave the slices after it succeeded;
* the positional witness round trip: for a system of the *same* mode the solver sees exactly the
  assembled values; for a system of the *other* mode the vector has the wrong length unless the
  batch size is 1, in which case it is re-read with the other circuit's layout.
-/
namespace Smtb.Prover
open Smtb.Codec

theorem r_pos : 0 < r := by decide

theorem r_int_pos : (0 : Int) < (r : Int) := Int.natCast_pos.mpr r_pos

/-! ## residues -/

theorem red_cast (x : Int) : ((red x : Nat) : Int) = x.emod (r : Int) := by
  unfold red
  exact Int.toNat_of_nonneg (Int.emod_nonneg x (Int.ne_of_gt r_int_pos))

theorem red_lt (x : Int) : red x < r := by
  have h := Int.emod_lt_of_pos x r_int_pos
  have := red_cast x
  have h2 : ((red x : Nat) : Int) < (r : Int) := by rw [this]; exact h
  exact Int.ofNat_lt.mp h2

theorem red_add_mul (x k : Int) : red (x + k * (r : Int)) = red x := by
  unfold red
  show ((x + k * (r : Int)) % (r : Int)).toNat = (x % (r : Int)).toNat
  rw [Int.add_mul_emod_self_right]

theorem red_eq_iff (a b : Int) : red a = red b ↔ a.emod (r : Int) = b.emod (r : Int) := by
  constructor
  · intro h
    rw [← red_cast a, ← red_cast b, h]
  · intro h
    unfold red; rw [h]

theorem red_ofNat (n : Nat) : red (n : Int) = n % r := by
  unfold red
  show (((n : Int) % (r : Int))).toNat = n % r
  omega

/-! ## `ValidateShape` -/

theorem firstBadProof_eq_none (d : Nat) :
    ∀ (qs : List (List Int)) (i : Nat), firstBadProof d i qs = none ↔ ∀ q ∈ qs, q.length = d := by
  intro qs
  induction qs with
  | nil => intro i; simp [firstBadProof]
  | cons q qs ih =>
    intro i
    simp only [firstBadProof, List.mem_cons, forall_eq_or_imp]
    by_cases h : q.length = d
    · simp [h, ih]
    · simp [h]

theorem validateShapeInsertion_iff (d b : Nat) (p : InsertionParams) :
    validateShapeInsertion d b p = true ↔
      p.idComms.length = b ∧ p.merkleProofs.length = b ∧ ∀ q ∈ p.merkleProofs, q.length = d := by
  unfold validateShapeInsertion shapeErrInsertion
  by_cases h1 : p.idComms.length = b
  · by_cases h2 : p.merkleProofs.length = b
    · simp only [h1, h2, ne_eq, not_true_eq_false, if_false, true_and, Option.isNone_iff_eq_none]
      exact firstBadProof_eq_none d _ 0
    · simp [h1, h2]
  · simp [h1]

theorem validateShapeDeletion_iff (d b : Nat) (p : DeletionParams) :
    validateShapeDeletion d b p = true ↔
      p.idComms.length = b ∧ p.merkleProofs.length = b ∧ (DeletionParams.indices p).length = b ∧
        ∀ q ∈ p.merkleProofs, q.length = d := by
  unfold validateShapeDeletion shapeErrDeletion
  by_cases h1 : p.idComms.length = b
  · by_cases h2 : p.merkleProofs.length = b
    · by_cases h3 : (DeletionParams.indices p).length = b
      · simp only [h1, h2, h3, ne_eq, not_true_eq_false, if_false, true_and,
          Option.isNone_iff_eq_none]
        exact firstBadProof_eq_none d _ 0
      · simp [h1, h2, h3]
    · simp [h1, h2]
  · simp [h1]

theorem shapeErrInsertion_none_iff (d b : Nat) (p : InsertionParams) :
    shapeErrInsertion d b p = none ↔ validateShapeInsertion d b p = true := by
  unfold validateShapeInsertion; simp

theorem shapeErrDeletion_none_iff (d b : Nat) (p : DeletionParams) :
    shapeErrDeletion d b p = none ↔ validateShapeDeletion d b p = true := by
  unfold validateShapeDeletion; simp

/-! ## the assembly loops stay inside the slices -/

theorem gather_eq_map {α β : Type} (g : α → β) :
    ∀ (l : List α) (k : Nat) (f : Nat → Option β),
      (∀ i (h : i < l.length), f (k + i) = some (g l[i])) → gather f k l.length = some (l.map g) := by
  intro l
  induction l with
  | nil => intro k f _; rfl
  | cons a t ih =>
    intro k f hf
    have h0 : f k = some (g a) := by
      have := hf 0 (by simp)
      simpa using this
    have ht : gather f (k + 1) t.length = some (t.map g) := by
      apply ih
      intro i hi
      have := hf (i + 1) (by simp; omega)
      simpa [Nat.add_assoc, Nat.add_comm 1 i] using this
    simp only [List.length_cons, gather, h0, ht, List.map_cons]

theorem assembleIds_eq (b : Nat) (ids : List Int) (h : ids.length = b) :
    assembleIds b ids = some (ids.map red) := by
  subst h
  unfold assembleIds
  apply gather_eq_map red
  intro i hi
  simp [List.getElem?_eq_getElem hi]

theorem assembleIdx_eq (b : Nat) (idxs : List Nat) (h : idxs.length = b) :
    assembleIdx b idxs = some idxs := by
  subst h
  unfold assembleIdx
  have := gather_eq_map (fun x : Nat => x) idxs 0 (fun i => idxs[i]?)
    (by intro i hi; simp [List.getElem?_eq_getElem hi])
  simpa using this

theorem assembleProofs_eq (d b : Nat) (mps : List (List Int)) (h : mps.length = b)
    (hd : ∀ q ∈ mps, q.length = d) : assembleProofs d b mps = some (redRows mps) := by
  subst h
  unfold assembleProofs redRows
  apply gather_eq_map (fun q : List Int => q.map red)
  intro i hi
  have hq : mps[i].length = d := hd _ (List.getElem_mem hi)
  simp only [Nat.zero_add, List.getElem?_eq_getElem hi, Option.bind_some]
  rw [← hq]
  apply gather_eq_map red
  intro j hj
  simp [List.getElem?_eq_getElem hj]

theorem assembleInsertion_eq (d b : Nat) (p : InsertionParams)
    (h : validateShapeInsertion d b p = true) :
    assembleInsertion d b p =
      some { pub := red p.inputHash,
             secret := layoutInsertion p.startIndex (red p.preRoot) (red p.postRoot)
               (p.idComms.map red) (redRows p.merkleProofs) } := by
  obtain ⟨h1, h2, h3⟩ := (validateShapeInsertion_iff d b p).mp h
  unfold assembleInsertion
  rw [assembleIds_eq b _ h1, assembleProofs_eq d b _ h2 h3]

theorem assembleDeletion_eq (d b : Nat) (p : DeletionParams)
    (h : validateShapeDeletion d b p = true) :
    assembleDeletion d b p =
      some { pub := red p.inputHash,
             secret := layoutDeletion (DeletionParams.indices p) (red p.preRoot) (red p.postRoot)
               (p.idComms.map red) (redRows p.merkleProofs) } := by
  obtain ⟨h1, h2, h3, h4⟩ := (validateShapeDeletion_iff d b p).mp h
  unfold assembleDeletion
  rw [assembleIdx_eq b _ h3, assembleIds_eq b _ h1, assembleProofs_eq d b _ h2 h4]

/-! ## the positional witness round trip -/

theorem length_flatten_uniform (d : Nat) :
    ∀ (prfs : List (List Nat)), (∀ q ∈ prfs, q.length = d) → prfs.flatten.length = prfs.length * d := by
  intro prfs
  induction prfs with
  | nil => intro _; simp
  | cons q qs ih =>
    intro h
    have hq : q.length = d := h q (by simp)
    have := ih (fun x hx => h x (by simp [hx]))
    simp only [List.flatten_cons, List.length_append, List.length_cons, this, hq]
    rw [Nat.add_mul, Nat.one_mul, Nat.add_comm]

theorem chunks_flatten (d : Nat) :
    ∀ (prfs : List (List Nat)), (∀ q ∈ prfs, q.length = d) →
      chunks d prfs.length prfs.flatten = prfs := by
  intro prfs
  induction prfs with
  | nil => intro _; rfl
  | cons q qs ih =>
    intro h
    have hq : q.length = d := h q (by simp)
    have := ih (fun x hx => h x (by simp [hx]))
    simp only [List.length_cons, chunks, List.flatten_cons, List.take_left' hq, List.drop_left' hq,
      this]

theorem redRows_length (mps : List (List Int)) : (redRows mps).length = mps.length := by
  simp [redRows]

theorem redRows_uniform (d : Nat) (mps : List (List Int)) (h : ∀ q ∈ mps, q.length = d) :
    ∀ q ∈ redRows mps, q.length = d := by
  intro q hq
  simp only [redRows, List.mem_map] at hq
  obtain ⟨q', hq', rfl⟩ := hq
  simpa using h q' hq'

theorem parseInsertion_layout (d b : Nat) (start pre post : Nat) (ids : List Nat)
    (prfs : List (List Nat)) (h1 : ids.length = b) (h2 : prfs.length = b)
    (h3 : ∀ q ∈ prfs, q.length = d) :
    parseInsertion d b (layoutInsertion start pre post ids prfs) =
      some (start, pre, post, ids, prfs) := by
  have hl := length_flatten_uniform d prfs h3
  unfold parseInsertion layoutInsertion
  have hlen : (start :: pre :: post :: (ids ++ prfs.flatten)).length = 3 + b + b * d := by
    simp only [List.length_cons, List.length_append, hl, h1, h2]; omega
  rw [if_neg (by rw [hlen]; exact fun h => h rfl)]
  simp only [List.take_left' h1, List.drop_left' h1]
  rw [← h2, chunks_flatten d prfs h3]

theorem parseDeletion_layout (d b : Nat) (idxs : List Nat) (pre post : Nat) (ids : List Nat)
    (prfs : List (List Nat)) (h0 : idxs.length = b) (h1 : ids.length = b) (h2 : prfs.length = b)
    (h3 : ∀ q ∈ prfs, q.length = d) :
    parseDeletion d b (layoutDeletion idxs pre post ids prfs) =
      some (idxs, pre, post, ids, prfs) := by
  have hl := length_flatten_uniform d prfs h3
  unfold parseDeletion layoutDeletion
  have hlen : (idxs ++ pre :: post :: (ids ++ prfs.flatten)).length = 2 + 2 * b + b * d := by
    simp only [List.length_cons, List.length_append, hl, h0, h1, h2]; omega
  rw [if_neg (by rw [hlen]; exact fun h => h rfl)]
  simp only [List.take_left' h0, List.drop_left' h0, List.take_left' h1, List.drop_left' h1]
  rw [← h2, chunks_flatten d prfs h3]

/-- an insertion vector against a deletion circuit: wrong size unless `b = 1` -/
theorem parseDeletion_layoutInsertion (d b : Nat) (start pre post : Nat) (ids : List Nat)
    (prfs : List (List Nat)) (h1 : ids.length = b) (h2 : prfs.length = b)
    (h3 : ∀ q ∈ prfs, q.length = d) :
    parseDeletion d b (layoutInsertion start pre post ids prfs) =
      if b = 1 then some ([start], pre, post, ids, prfs) else none := by
  have hl := length_flatten_uniform d prfs h3
  have hlen : (layoutInsertion start pre post ids prfs).length = 3 + b + b * d := by
    simp only [layoutInsertion, List.length_cons, List.length_append, hl, h1, h2]; omega
  by_cases hb : b = 1
  · subst hb
    have := parseDeletion_layout d 1 [start] pre post ids prfs rfl h1 h2 h3
    simpa [layoutDeletion, layoutInsertion] using this
  · rw [if_neg hb]
    unfold parseDeletion
    rw [if_pos (by rw [hlen]; omega)]

/-- a deletion vector against an insertion circuit: wrong size unless `b = 1` -/
theorem parseInsertion_layoutDeletion (d b : Nat) (idxs : List Nat) (pre post : Nat)
    (ids : List Nat) (prfs : List (List Nat)) (h0 : idxs.length = b) (h1 : ids.length = b)
    (h2 : prfs.length = b) (h3 : ∀ q ∈ prfs, q.length = d) :
    parseInsertion d b (layoutDeletion idxs pre post ids prfs) =
      if b = 1 then some (idxs.headD 0, pre, post, ids, prfs) else none := by
  have hl := length_flatten_uniform d prfs h3
  have hlen : (layoutDeletion idxs pre post ids prfs).length = 2 + 2 * b + b * d := by
    simp only [layoutDeletion, List.length_cons, List.length_append, hl, h0, h1, h2]; omega
  by_cases hb : b = 1
  · subst hb
    match idxs, h0 with
    | [i], _ =>
      have := parseInsertion_layout d 1 i pre post ids prfs h1 h2 h3
      simpa [layoutDeletion, layoutInsertion] using this
  · rw [if_neg hb]
    unfold parseInsertion
    rw [if_pos (by rw [hlen]; omega)]

/-! ## `Prove…` in closed form -/

/-- `ProveInsertion` on a system set up for insertion -/
theorem proveInsertion_matching (sys : System) (hm : sys.mode = .insertion) (p : InsertionParams) :
    proveInsertion sys p =
      match shapeErrInsertion sys.depth sys.batch p with
      | some e => .error (.shape e)
      | none =>
        if acceptsInsertion sys.depth p then .ok { sysId := sys.id, pub := red p.inputHash }
        else .error .backend := by
  unfold proveInsertion
  cases hs : shapeErrInsertion sys.depth sys.batch p with
  | some e => rfl
  | none =>
    have hv := (shapeErrInsertion_none_iff _ _ p).mp hs
    obtain ⟨h1, h2, h3⟩ := (validateShapeInsertion_iff _ _ p).mp hv
    simp only [assembleInsertion_eq _ _ p hv, idealProve, solve, hm]
    rw [parseInsertion_layout _ _ _ _ _ _ _ (by simpa using h1)
      (by rw [redRows_length]; exact h2) (redRows_uniform _ _ h3)]
    rfl

/-- `ProveDeletion` on a system set up for deletion -/
theorem proveDeletion_matching (sys : System) (hm : sys.mode = .deletion) (p : DeletionParams) :
    proveDeletion sys p =
      match shapeErrDeletion sys.depth sys.batch p with
      | some e => .error (.shape e)
      | none =>
        if acceptsDeletion sys.depth p then .ok { sysId := sys.id, pub := red p.inputHash }
        else .error .backend := by
  unfold proveDeletion
  cases hs : shapeErrDeletion sys.depth sys.batch p with
  | some e => rfl
  | none =>
    have hv := (shapeErrDeletion_none_iff _ _ p).mp hs
    obtain ⟨h1, h2, h0, h3⟩ := (validateShapeDeletion_iff _ _ p).mp hv
    simp only [assembleDeletion_eq _ _ p hv, idealProve, solve, hm]
    rw [parseDeletion_layout _ _ _ _ _ _ _ h0 (by simpa using h1)
      (by rw [redRows_length]; exact h2) (redRows_uniform _ _ h3)]
    rfl

/-- `ProveInsertion` on a system set up for **deletion** (the `--mode` flag and the keys file
disagree): an error unless the batch size is 1; for batch size 1 the *deletion* circuit runs with
`DeletionIndices[0] := StartIndex`. -/
theorem proveInsertion_cross (sys : System) (hm : sys.mode = .deletion) (p : InsertionParams) :
    proveInsertion sys p =
      match shapeErrInsertion sys.depth sys.batch p with
      | some e => .error (.shape e)
      | none =>
        if sys.batch = 1 ∧
            circuitAcceptsDeletion sys.depth (red p.inputHash) [p.startIndex] (red p.preRoot)
              (red p.postRoot) (p.idComms.map red) (redRows p.merkleProofs) = true
        then .ok { sysId := sys.id, pub := red p.inputHash }
        else .error .backend := by
  unfold proveInsertion
  cases hs : shapeErrInsertion sys.depth sys.batch p with
  | some e => rfl
  | none =>
    have hv := (shapeErrInsertion_none_iff _ _ p).mp hs
    obtain ⟨h1, h2, h3⟩ := (validateShapeInsertion_iff _ _ p).mp hv
    simp only [assembleInsertion_eq _ _ p hv, idealProve, solve, hm]
    rw [parseDeletion_layoutInsertion _ _ _ _ _ _ _ (by simpa using h1)
      (by rw [redRows_length]; exact h2) (redRows_uniform _ _ h3)]
    by_cases hb : sys.batch = 1
    · simp [hb]
    · simp [hb]

/-- `ProveDeletion` on a system set up for **insertion**: an error unless the batch size is 1; for
batch size 1 the *insertion* circuit runs with `StartIndex := DeletionIndices[0]`. -/
theorem proveDeletion_cross (sys : System) (hm : sys.mode = .insertion) (p : DeletionParams) :
    proveDeletion sys p =
      match shapeErrDeletion sys.depth sys.batch p with
      | some e => .error (.shape e)
      | none =>
        if sys.batch = 1 ∧
            circuitAcceptsInsertion sys.depth (red p.inputHash)
              ((DeletionParams.indices p).headD 0) (red p.preRoot) (red p.postRoot)
              (p.idComms.map red) (redRows p.merkleProofs) = true
        then .ok { sysId := sys.id, pub := red p.inputHash }
        else .error .backend := by
  unfold proveDeletion
  cases hs : shapeErrDeletion sys.depth sys.batch p with
  | some e => rfl
  | none =>
    have hv := (shapeErrDeletion_none_iff _ _ p).mp hs
    obtain ⟨h1, h2, h0, h3⟩ := (validateShapeDeletion_iff _ _ p).mp hv
    simp only [assembleDeletion_eq _ _ p hv, idealProve, solve, hm]
    rw [parseInsertion_layoutDeletion _ _ _ _ _ _ _ h0 (by simpa using h1)
      (by rw [redRows_length]; exact h2) (redRows_uniform _ _ h3)]
    by_cases hb : sys.batch = 1
    · simp [hb]
    · simp [hb]

/-- every token handed out by `Prove…` carries the system's id and the reduced input hash -/
theorem proveInsertion_token (sys : System) (p : InsertionParams) (t : Token)
    (h : proveInsertion sys p = .ok t) : t = { sysId := sys.id, pub := red p.inputHash } := by
  unfold proveInsertion at h
  cases hs : shapeErrInsertion sys.depth sys.batch p with
  | some e => simp [hs] at h
  | none =>
    have hv := (shapeErrInsertion_none_iff _ _ p).mp hs
    simp only [hs, assembleInsertion_eq _ _ p hv, idealProve] at h
    split at h
    · exact (Except.ok.inj h).symm
    · cases h

theorem proveDeletion_token (sys : System) (p : DeletionParams) (t : Token)
    (h : proveDeletion sys p = .ok t) : t = { sysId := sys.id, pub := red p.inputHash } := by
  unfold proveDeletion at h
  cases hs : shapeErrDeletion sys.depth sys.batch p with
  | some e => simp [hs] at h
  | none =>
    have hv := (shapeErrDeletion_none_iff _ _ p).mp hs
    simp only [hs, assembleDeletion_eq _ _ p hv, idealProve] at h
    split at h
    · exact (Except.ok.inj h).symm
    · cases h

end Smtb.Prover
