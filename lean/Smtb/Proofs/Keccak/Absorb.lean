import Smtb.Proofs.Keccak.Round
/-!
# Absorbing one block: `absorbBlock` of the gadget program is `S ⊕ (Pᵢ ‖ 0^c)` of FIPS 202
-/
namespace Smtb.Proofs.Keccak
open Smtb CircuitApi Smtb.Circuit.Keccak Smtb.KeccakSpec Smtb.KeccakRef

/-- `allZeroes` only holds of lanes all of whose bits are (literal) zeros -/
theorem bit_of_allZeroes (l : Lane Bool) (h : allZeroes l = true) (z : ℕ) : bit l z = false := by
  by_cases hz : z < l.length
  · rw [bit_eq_getElem _ _ hz]
    unfold allZeroes at h
    rw [List.all_eq_true] at h
    have h1 := h l[z] (List.getElem_mem hz)
    generalize l[z] = k at h1
    cases k with
    | lit b => cases b <;> simp_all [KV.isLitZero]
    | var v => simp [KV.isLitZero] at h1
  · exact bit_of_le _ _ (by omega)

/-- absorbing into one lane (keccak.go:202-218, including the literal-zero shortcuts) -/
def absorbG (P : List (KV Bool)) (blk : ℕ) (x y : ℕ) (l : Lane Bool) : Lane Bool :=
  if x + 5*y < blockSize / laneSize then
    if allZeroes l then (P.drop (blk*blockSize + (x+5*y)*laneSize)).take laneSize
    else if allZeroes ((P.drop (blk*blockSize + (x+5*y)*laneSize)).take laneSize) then l
    else Id.run (xorLane (m := Id) l ((P.drop (blk*blockSize + (x+5*y)*laneSize)).take laneSize))
  else l

/-- absorbing block `blk` of `P`, on lanes -/
def absorbL (P : List (KV Bool)) (blk : ℕ) (f : ℕ → ℕ → Lane Bool) (x y : ℕ) : Lane Bool :=
  absorbG P blk x y (f x y)

theorem absorbBlock_tab (P : List (KV Bool)) (blk : ℕ) (f : ℕ → ℕ → Lane Bool) :
    Id.run (absorbBlock (m := Id) P blk (tab f)) = tab (absorbL P blk f) := by
  unfold absorbBlock
  have h : (fun (S : St Bool) (x y : ℕ) => (do
      if x + 5*y < blockSize / laneSize then
        let Pi := (P.drop (blk*blockSize + (x+5*y)*laneSize)).take laneSize
        if allZeroes (S.get x y) then pure (S.set x y Pi)
        else if allZeroes Pi then pure S
        else do let l ← xorLane (m := Id) (S.get x y) Pi; pure (S.set x y l)
      else pure S : Id (St Bool)))
      = fun S x y => pure (S.set x y (absorbG P blk x y (S.get x y))) := by
    funext S x y
    unfold absorbG
    dsimp only
    split
    · split
      · rfl
      · split
        · rw [St_set_get_self]
        · rfl
    · rw [St_set_get_self]
  rw [h]
  exact forPairs_tab (absorbG P blk) f

theorem length_block_lane (P : List (KV Bool)) (blk k : ℕ) (hP : (blk + 1) * 1088 ≤ P.length) (hk : k < 17) :
    ((P.drop (blk*blockSize + k*laneSize)).take laneSize).length = 64 := by
  simp only [List.length_take, List.length_drop, blockSize, laneSize]
  omega

theorem lanes64_absorbL (P : List (KV Bool)) (blk : ℕ) (hP : (blk + 1) * 1088 ≤ P.length)
    {f} (hf : Lanes64 f) : Lanes64 (absorbL P blk f) := by
  intro x y
  unfold absorbL absorbG
  split
  · rename_i hk
    have hk' : x + 5 * y < 17 := hk
    split
    · exact length_block_lane P blk _ hP hk'
    · split
      · exact hf _ _
      · exact length_xorLane _ _ 64 (hf _ _) (length_block_lane P blk _ hP hk')
  · exact hf _ _

theorem bit_block_lane (P : List (KV Bool)) (blk k z : ℕ) (hz : z < 64) :
    bit ((P.drop (blk*blockSize + k*laneSize)).take laneSize) z
      = (P.map val).getD (blk * 1088 + (k * 64 + z)) false := by
  unfold bit
  simp only [blockSize, laneSize, List.getD_eq_getElem?_getD, List.getElem?_take, hz, if_true,
    List.getElem?_drop, List.getElem?_map]
  rw [show blk * 1088 + k * 64 + z = blk * 1088 + (k * 64 + z) by omega]
  cases P[blk * 1088 + (k * 64 + z)]? <;> rfl

/-- **Absorbing a block is `S ⊕ (Pᵢ ‖ 0^c)`.** -/
theorem toStateL_absorbL (P : List (KV Bool)) (blk : ℕ) (hP : (blk + 1) * 1088 ≤ P.length)
    {f} (hf : Lanes64 f) :
    toStateL (absorbL P blk f)
      = xorBits (toStateL f) ((((P.map val).drop (blk * rate)).take rate) ++ List.replicate capacity false) := by
  unfold xorBits toStateL State.mk
  dsimp only
  refine congrArg (Array.ofFn (n := 1600)) ?_
  funext i
  have hi := i.isLt
  have hS := State.getD_mk (fun x y z => bit (f x y) z) _ hi
  unfold State.mk at hS
  rw [hS]
  simp only [Array.getD_eq_getD_getElem?, List.getElem?_toArray, rate, capacity]
  have hx : i.val / 64 % 5 + 5 * (i.val / 320) = i.val / 64 := by omega
  have hz : i.val % 64 < 64 := Nat.mod_lt _ (by decide)
  unfold absorbL absorbG
  rw [hx]
  by_cases hk : i.val / 64 < blockSize / laneSize
  · have hk' : i.val / 64 < 17 := hk
    have hB : (((P.map val).drop (blk * 1088)).take 1088 ++ List.replicate 512 false)[i.val]?.getD false
        = (P.map val).getD (blk * 1088 + (i.val / 64 * 64 + i.val % 64)) false := by
      rw [List.getElem?_append_left (by simp only [List.length_take, List.length_drop, List.length_map]; omega),
        List.getElem?_take, if_pos (by omega), List.getElem?_drop, List.getD_eq_getElem?_getD,
        show i.val / 64 * 64 + i.val % 64 = i.val by omega]
    rw [if_pos hk, hB, ← bit_block_lane P blk _ _ hz]
    split
    · rename_i h0
      rw [bit_of_allZeroes _ h0, Bool.false_xor]
    · split
      · rename_i h0
        rw [bit_of_allZeroes _ h0, Bool.xor_false]
      · rw [bit_xorLane _ _ _ (by rw [hf, length_block_lane P blk _ hP hk'])]
  · have hk' : ¬ i.val / 64 < 17 := hk
    have hB : (((P.map val).drop (blk * 1088)).take 1088 ++ List.replicate 512 false)[i.val]?.getD false
        = false := by
      rw [List.getElem?_append_right (by simp only [List.length_take, List.length_drop, List.length_map]; omega)]
      simp only [List.getElem?_replicate]
      split <;> rfl
    rw [if_neg hk, hB, Bool.xor_false]

end Smtb.Proofs.Keccak
