import Smtb.Proofs.Keccak.RoundTab
/-!
# Bit-level meaning of the lane operations of the Keccak gadget program on `Bool`
-/
namespace Smtb.Proofs.Keccak
open Smtb CircuitApi Smtb.Circuit.Keccak Smtb.KeccakSpec

/-- the boolean held by a `frontend.Variable` slot -/
def val (k : KV Bool) : Bool := KV.toV (m := Id) k

@[simp] theorem val_lit (b : Bool) : val (.lit b) = b := by cases b <;> rfl
@[simp] theorem val_var (v : Bool) : val (.var v) = v := rfl

/-- bit `z` of a lane -/
def bit (l : Lane Bool) (z : ℕ) : Bool := val (l.getD z (.lit false))

theorem bit_eq_getElem (l : Lane Bool) (z : ℕ) (h : z < l.length) : bit l z = val l[z] := by
  unfold bit; rw [List.getD_eq_getElem _ _ h]

theorem bit_of_le (l : Lane Bool) (z : ℕ) (h : l.length ≤ z) : bit l z = false := by
  unfold bit; rw [List.getD_eq_default _ _ h]; rfl

/-! ## `Xor`, `And`, `Not`, `Rot`, `Xor5` -/

theorem xorLane_run (a b : Lane Bool) :
    Id.run (xorLane (m := Id) a b) = List.zipWith (fun x y => KV.var (val x ^^ val y)) a b := by
  unfold xorLane
  rw [zipWithM'_id]
  rfl

theorem andLane_run (a b : Lane Bool) :
    Id.run (andLane (m := Id) a b) = List.zipWith (fun x y => KV.var (val x && val y)) a b := by
  unfold andLane
  rw [zipWithM'_id]
  rfl

theorem notLane_run (a : Lane Bool) :
    Id.run (notLane (m := Id) a) = a.map (fun x => KV.var (!val x)) := by
  unfold notLane
  rw [mapM'_id]
  rfl

theorem length_xorLane (a b : Lane Bool) (n : ℕ) (ha : a.length = n) (hb : b.length = n) :
    (Id.run (xorLane (m := Id) a b)).length = n := by
  rw [xorLane_run, List.length_zipWith, ha, hb, Nat.min_self]

theorem length_andLane (a b : Lane Bool) (n : ℕ) (ha : a.length = n) (hb : b.length = n) :
    (Id.run (andLane (m := Id) a b)).length = n := by
  rw [andLane_run, List.length_zipWith, ha, hb, Nat.min_self]

theorem length_notLane (a : Lane Bool) : (Id.run (notLane (m := Id) a)).length = a.length := by
  rw [notLane_run, List.length_map]

theorem length_rotLane (a : Lane Bool) (r : ℕ) : (rotLane a r).length = a.length := by
  simp [rotLane]

theorem bit_xorLane (a b : Lane Bool) (z : ℕ) (h : a.length = b.length) :
    bit (Id.run (xorLane (m := Id) a b)) z = (bit a z ^^ bit b z) := by
  by_cases hz : z < a.length
  · have hz' : z < b.length := h ▸ hz
    rw [bit_eq_getElem _ _ (by rw [xorLane_run, List.length_zipWith]; omega), bit_eq_getElem _ _ hz,
      bit_eq_getElem _ _ hz']
    simp only [xorLane_run, List.getElem_zipWith, val_var]
  · rw [bit_of_le _ _ (by rw [xorLane_run, List.length_zipWith]; omega), bit_of_le a _ (by omega),
      bit_of_le b _ (by omega)]
    rfl

theorem bit_andLane (a b : Lane Bool) (z : ℕ) (h : a.length = b.length) :
    bit (Id.run (andLane (m := Id) a b)) z = (bit a z && bit b z) := by
  by_cases hz : z < a.length
  · have hz' : z < b.length := h ▸ hz
    rw [bit_eq_getElem _ _ (by rw [andLane_run, List.length_zipWith]; omega), bit_eq_getElem _ _ hz,
      bit_eq_getElem _ _ hz']
    simp only [andLane_run, List.getElem_zipWith, val_var]
  · rw [bit_of_le _ _ (by rw [andLane_run, List.length_zipWith]; omega), bit_of_le a _ (by omega),
      bit_of_le b _ (by omega)]
    rfl

theorem bit_notLane (a : Lane Bool) (z : ℕ) (hz : z < a.length) :
    bit (Id.run (notLane (m := Id) a)) z = !bit a z := by
  rw [bit_eq_getElem _ _ (by rw [notLane_run, List.length_map]; exact hz), bit_eq_getElem _ _ hz]
  simp only [notLane_run, List.getElem_map, val_var]

theorem bit_rotLane (a : Lane Bool) (r z : ℕ) (ha : a.length = 64) (hz : z < 64) :
    bit (rotLane a r) z = bit a ((z + (64 - r)) % 64) := by
  unfold bit rotLane
  rw [ha, getD_map_range _ _ _ _ hz]
  rfl

theorem xor5_run : ∀ (a b c d e : Lane Bool),
    Id.run (xor5 (m := Id) a b c d e)
      = List.zipWith (fun e x => KV.var (val e ^^ x)) e
          (List.zipWith (fun d x => val d ^^ x) d
            (List.zipWith (fun c x => val c ^^ x) c
              (List.zipWith (fun a b => val a ^^ val b) a b)))
  | a :: as, b :: bs, c :: cs, d :: ds, e :: es => by
    show Id.run (xor5Round (m := Id) a b c d e) :: Id.run (xor5 (m := Id) as bs cs ds es) = _
    rw [xor5_run as bs cs ds es]
    simp only [List.zipWith_cons_cons]
    rfl
  | [], _, _, _, _ => by simp [xor5]
  | _ :: _, [], _, _, _ => by simp [xor5]
  | _ :: _, _ :: _, [], _, _ => by simp [xor5]
  | _ :: _, _ :: _, _ :: _, [], _ => by simp [xor5]
  | _ :: _, _ :: _, _ :: _, _ :: _, [] => by simp [xor5]

theorem length_xor5 (a b c d e : Lane Bool) (n : ℕ) (ha : a.length = n) (hb : b.length = n)
    (hc : c.length = n) (hd : d.length = n) (he : e.length = n) :
    (Id.run (xor5 (m := Id) a b c d e)).length = n := by
  simp [xor5_run, ha, hb, hc, hd, he]

theorem bit_xor5 (a b c d e : Lane Bool) (n z : ℕ) (ha : a.length = n) (hb : b.length = n)
    (hc : c.length = n) (hd : d.length = n) (he : e.length = n) (hz : z < n) :
    bit (Id.run (xor5 (m := Id) a b c d e)) z
      = (bit e z ^^ (bit d z ^^ (bit c z ^^ (bit a z ^^ bit b z)))) := by
  rw [bit_eq_getElem _ _ (by rw [length_xor5 a b c d e n ha hb hc hd he]; exact hz),
    bit_eq_getElem a _ (by omega), bit_eq_getElem b _ (by omega), bit_eq_getElem c _ (by omega),
    bit_eq_getElem d _ (by omega), bit_eq_getElem e _ (by omega)]
  simp only [xor5_run, List.getElem_zipWith, val_var]

end Smtb.Proofs.Keccak
