import Smtb.Proofs.Keccak.RefLemmas
/-!
# A 64-bit-word implementation of `KECCAK-f[1600]`, proved equal to the bit-level reference

The bit-level reference of `Smtb/Model/Keccak.lean` cannot be evaluated inside the Lean kernel in
reasonable time; this word-level version (25 lanes as natural numbers, the kernel's GMP
arithmetic) can.  It is used only to evaluate concrete digests in `Properties/C04.lean`.
-/
namespace Smtb.Proofs.Keccak
open Smtb Smtb.KeccakRef

/-- lane `(x, y)` of a list of 25 words -/
def laneW (w : List ℕ) (x y : ℕ) : ℕ := w.getD (x + 5 * y) 0

/-- the state string of 25 words: bit `z` of lane `(x, y)` is `A[x, y, z]` -/
def ofWords (w : List ℕ) : State := State.mk fun x y z => (laneW w x y).testBit z

def mask64 : ℕ := 2 ^ 64 - 1

/-- rotate a 64-bit word left by `r < 64` -/
def rotl (w r : ℕ) : ℕ := (((w % 2 ^ 64) <<< r) ||| ((w % 2 ^ 64) >>> (64 - r))) % 2 ^ 64

theorem testBit_rotl (w r z : ℕ) (hr : r < 64) (hz : z < 64) :
    (rotl w r).testBit z = w.testBit ((z + (64 - r)) % 64) := by
  unfold rotl
  simp only [Nat.testBit_mod_two_pow, Nat.testBit_or, Nat.testBit_shiftLeft, Nat.testBit_shiftRight,
    hz, decide_true, Bool.true_and]
  by_cases h : r ≤ z
  · have e1 : (z + (64 - r)) % 64 = z - r := by omega
    have e2 : ¬ (64 - r + z < 64) := by omega
    have e3 : z - r < 64 := by omega
    simp [h, e1, e2, e3]
  · have e1 : (z + (64 - r)) % 64 = 64 - r + z := by omega
    have e2 : 64 - r + z < 64 := by omega
    simp [h, e1, e2]

def thetaW (w : List ℕ) : List ℕ :=
  let Cs := (List.range 5).map fun x => laneW w x 0 ^^^ laneW w x 1 ^^^ laneW w x 2 ^^^ laneW w x 3 ^^^ laneW w x 4
  let Ds := (List.range 5).map fun x => Cs.getD ((x + 4) % 5) 0 ^^^ rotl (Cs.getD ((x + 1) % 5) 0) 1
  (List.range 25).map fun i => w.getD i 0 ^^^ Ds.getD (i % 5) 0

def rhoPiW (w : List ℕ) : List ℕ :=
  (List.range 25).map fun i =>
    let x := i % 5
    let y := i / 5
    rotl (laneW w ((x + 3 * y) % 5) x) (rhoOffset ((x + 3 * y) % 5) x % 64)

def chiW (w : List ℕ) : List ℕ :=
  (List.range 25).map fun i =>
    let x := i % 5
    let y := i / 5
    laneW w x y ^^^ ((laneW w ((x + 1) % 5) y ^^^ mask64) &&& laneW w ((x + 2) % 5) y)

def iotaW (w : List ℕ) (ir : ℕ) : List ℕ :=
  (List.range 25).map fun i => if i = 0 then w.getD 0 0 ^^^ Circuit.Keccak.rcTable.getD ir 0 else w.getD i 0

def roundW (w : List ℕ) (ir : ℕ) : List ℕ := iotaW (chiW (rhoPiW (thetaW w))) ir

def keccakFW (w : List ℕ) : List ℕ := (List.range 24).foldl roundW w

theorem getD_map_range' {α : Type} (f : ℕ → α) (n x : ℕ) (d : α) (h : x < n) :
    ((List.range n).map f).getD x d = f x := by
  rw [List.getD_eq_getElem _ _ (by simpa using h)]
  simp

theorem laneW_map (g : ℕ → ℕ) (x y : ℕ) (hx : x < 5) (hy : y < 5) :
    laneW ((List.range 25).map g) x y = g (x + 5 * y) := by
  unfold laneW
  rw [getD_map_range' _ _ _ _ (by omega)]

theorem theta_ofWords (w : List ℕ) : theta (ofWords w) = ofWords (thetaW w) := by
  unfold theta ofWords
  apply State.mk_congr
  intro x hx y hy z hz
  have h4 : (x + 4) % 5 < 5 := Nat.mod_lt _ (by decide)
  have h1 : (x + 1) % 5 < 5 := Nat.mod_lt _ (by decide)
  have hz' : (z + 63) % 64 < 64 := Nat.mod_lt _ (by decide)
  simp only [State.get_mk _ _ _ _ hx hy hz, State.get_mk _ _ _ _ h4 (by decide : 0 < 5) hz,
    State.get_mk _ _ _ _ h4 (by decide : 1 < 5) hz, State.get_mk _ _ _ _ h4 (by decide : 2 < 5) hz,
    State.get_mk _ _ _ _ h4 (by decide : 3 < 5) hz, State.get_mk _ _ _ _ h4 (by decide : 4 < 5) hz,
    State.get_mk _ _ _ _ h1 (by decide : 0 < 5) hz', State.get_mk _ _ _ _ h1 (by decide : 1 < 5) hz',
    State.get_mk _ _ _ _ h1 (by decide : 2 < 5) hz', State.get_mk _ _ _ _ h1 (by decide : 3 < 5) hz',
    State.get_mk _ _ _ _ h1 (by decide : 4 < 5) hz']
  unfold thetaW
  simp only []
  rw [laneW_map _ _ _ hx hy, show (x + 5 * y) % 5 = x by omega, getD_map_range' _ _ _ _ hx,
    getD_map_range' _ _ _ _ h4, getD_map_range' _ _ _ _ h1]
  simp only [Nat.testBit_xor, testBit_rotl _ 1 z (by decide) hz]
  rfl

theorem rhoPi_ofWords (w : List ℕ) : KeccakRef.pi (rho (ofWords w)) = ofWords (rhoPiW w) := by
  unfold KeccakRef.pi rho ofWords
  apply State.mk_congr
  intro x hx y hy z hz
  have h1 : (x + 3 * y) % 5 < 5 := Nat.mod_lt _ (by decide)
  rw [State.get_mk _ _ _ _ h1 hx hz, State.get_mk _ _ _ _ h1 hx (Nat.mod_lt _ (by decide))]
  unfold rhoPiW
  rw [laneW_map _ _ _ hx hy]
  simp only [show (x + 5 * y) % 5 = x by omega, show (x + 5 * y) / 5 = y by omega]
  rw [testBit_rotl _ _ _ (Nat.mod_lt _ (by decide)) hz]

theorem chi_ofWords (w : List ℕ) : chi (ofWords w) = ofWords (chiW w) := by
  unfold chi ofWords
  apply State.mk_congr
  intro x hx y hy z hz
  rw [State.get_mk _ _ _ _ hx hy hz, State.get_mk _ _ _ _ (Nat.mod_lt _ (by decide)) hy hz,
    State.get_mk _ _ _ _ (Nat.mod_lt _ (by decide)) hy hz]
  unfold chiW
  rw [laneW_map _ _ _ hx hy]
  simp only [show (x + 5 * y) % 5 = x by omega, show (x + 5 * y) / 5 = y by omega,
    Nat.testBit_xor, Nat.testBit_and, mask64, Nat.testBit_two_pow_sub_one, hz, decide_true]

theorem iota_ofWords (w : List ℕ) (ir : ℕ) (hir : ir < 24) : iota (ofWords w) ir = ofWords (iotaW w ir) := by
  unfold iota ofWords
  apply State.mk_congr
  intro x hx y hy z hz
  unfold iotaW
  rw [laneW_map _ _ _ hx hy]
  by_cases h : x = 0 ∧ y = 0
  · obtain ⟨rfl, rfl⟩ := h
    rw [if_pos ⟨rfl, rfl⟩, if_pos rfl, State.get_mk _ _ _ _ (by decide) (by decide) hz,
      roundConstant_getD _ _ hz, rcBit_table _ _ hir hz, Nat.testBit_xor]
    rfl
  · rw [if_neg h, if_neg (by omega), State.get_mk _ _ _ _ hx hy hz]
    rfl

theorem Rnd_ofWords (w : List ℕ) (ir : ℕ) (hir : ir < 24) : Rnd (ofWords w) ir = ofWords (roundW w ir) := by
  unfold Rnd roundW
  rw [theta_ofWords, rhoPi_ofWords, chi_ofWords, iota_ofWords _ _ hir]

theorem keccakF_ofWords (w : List ℕ) : keccakF1600 (ofWords w) = ofWords (keccakFW w) := by
  unfold keccakF1600 keccakFW
  have h : ∀ (l : List ℕ), (∀ ir ∈ l, ir < 24) → ∀ w, l.foldl Rnd (ofWords w) = ofWords (l.foldl roundW w) := by
    intro l
    induction l with
    | nil => intro _ w; rw [List.foldl_nil, List.foldl_nil]
    | cons ir l ih =>
      intro hl w
      rw [List.foldl_cons, List.foldl_cons, Rnd_ofWords w ir (hl ir List.mem_cons_self)]
      exact ih (fun i hi => hl i (List.mem_cons_of_mem _ hi)) _
  exact h _ (fun _ h => List.mem_range.mp h) w

/-! ## the sponge on words -/

/-- little-endian value of a bit string -/
def wordOfBits : List Bool → ℕ
  | [] => 0
  | b :: bs => b.toNat + 2 * wordOfBits bs

theorem testBit_wordOfBits (bs : List Bool) (z : ℕ) : (wordOfBits bs).testBit z = bs.getD z false := by
  induction bs generalizing z with
  | nil => simp [wordOfBits]
  | cons b bs ih =>
    cases z with
    | zero => cases b <;> simp [wordOfBits, Nat.testBit_zero]
    | succ z =>
      rw [Nat.testBit_succ, List.getD_cons_succ, ← ih z]
      congr 1
      cases b <;> simp [wordOfBits]
      omega

theorem getD_drop_take (B : List Bool) (a z n : ℕ) (hz : z < n) :
    ((B.drop a).take n).getD z false = B.getD (a + z) false := by
  rw [List.getD_eq_getElem?_getD, List.getD_eq_getElem?_getD, List.getElem?_take, if_pos hz,
    List.getElem?_drop]

theorem size_ofWords (w : List ℕ) : (ofWords w).size = 1600 := State.size_mk _

theorem getElem_ofWords (w : List ℕ) (i : ℕ) (h : i < (ofWords w).size) :
    (ofWords w)[i] = (laneW w (i / 64 % 5) (i / 320)).testBit (i % 64) := by
  have h' : i < 1600 := by rw [size_ofWords] at h; exact h
  have h1 := State.getD_mk (fun x y z => (laneW w x y).testBit z) i h'
  rw [Array.getD_eq_getD_getElem?, Array.getElem?_eq_getElem (by rw [State.size_mk]; exact h')] at h1
  exact h1

/-- xor a 1600-bit string, lane by lane, into 25 words -/
def absorbW (w : List ℕ) (B : List Bool) : List ℕ :=
  (List.range 25).map fun j => w.getD j 0 ^^^ wordOfBits ((B.drop (64 * j)).take 64)

theorem xorBits_ofWords (w : List ℕ) (B : List Bool) : xorBits (ofWords w) B = ofWords (absorbW w B) := by
  unfold xorBits ofWords State.mk
  dsimp only
  refine congrArg (Array.ofFn (n := 1600)) ?_
  funext i
  have hi := i.isLt
  have hS := State.getD_mk (fun x y z => (laneW w x y).testBit z) _ hi
  unfold State.mk at hS
  rw [hS]
  unfold absorbW
  rw [laneW_map _ _ _ (Nat.mod_lt _ (by decide)) (by omega)]
  have hx : i.val / 64 % 5 + 5 * (i.val / 320) = i.val / 64 := by omega
  rw [Nat.testBit_xor, testBit_wordOfBits, hx]
  unfold laneW
  rw [hx]
  rw [getD_drop_take _ _ _ _ (Nat.mod_lt _ (by decide)), show 64 * (i.val / 64) + i.val % 64 = i.val by omega,
    Array.getD_eq_getD_getElem?, List.getElem?_toArray, List.getD_eq_getElem?_getD,
    List.getD_eq_getElem?_getD]

theorem zero_ofWords : Array.replicate 1600 false = ofWords (List.replicate 25 0) := by
  apply Array.ext
  · rw [Array.size_replicate, size_ofWords]
  · intro i h1 h2
    have h' : i < 1600 := by rw [Array.size_replicate] at h1; exact h1
    rw [Array.getElem_replicate, getElem_ofWords]
    have h0 : laneW (List.replicate 25 0) (i / 64 % 5) (i / 320) = 0 := by
      unfold laneW
      rw [List.getD_replicate _ (by omega)]
    rw [h0, Nat.zero_testBit]

/-- `SPONGE[KECCAK-f[1600], pad10*1, 1088] (N, 256)` on 64-bit words -/
def spongeW256 (N : List Bool) : List Bool :=
  let P := N ++ pad10star1 rate N.length
  let w := (List.range (P.length / rate)).foldl (fun w i =>
    keccakFW (absorbW w ((P.drop (i * rate)).take rate ++ List.replicate capacity false)))
    (List.replicate 25 0)
  (List.range 256).map fun i => (w.getD (i / 64) 0).testBit (i % 64)

theorem take256_ofWords (w : List ℕ) :
    (ofWords w).toList.take 256 = (List.range 256).map fun i => (w.getD (i / 64) 0).testBit (i % 64) := by
  apply List.ext_getElem
  · rw [List.length_take, Array.length_toList, List.length_map, List.length_range, size_ofWords]
    rfl
  · intro i h1 h2
    have hi : i < 256 := by simpa using h2
    rw [List.getElem_take, Array.getElem_toList, List.getElem_map, List.getElem_range, getElem_ofWords]
    unfold laneW
    rw [show i / 64 % 5 + 5 * (i / 320) = i / 64 by omega]

/-- **The word-level sponge is the reference sponge** (output length 256). -/
theorem sponge_eq_spongeW256 (N : List Bool) : sponge N 256 = spongeW256 N := by
  unfold sponge spongeW256
  simp only []
  have e : (256 + rate - 1) / rate - 1 = 0 := by decide
  rw [e]
  unfold squeezeMore truncRate
  rw [List.append_nil, List.take_take, show min 256 rate = 256 from rfl, zero_ofWords]
  generalize List.replicate 25 0 = w
  generalize List.range ((N ++ pad10star1 rate N.length).length / rate) = l
  induction l generalizing w with
  | nil => rw [List.foldl_nil, List.foldl_nil]; exact take256_ofWords w
  | cons i l ih => rw [List.foldl_cons, List.foldl_cons, xorBits_ofWords, keccakF_ofWords]; exact ih _

/-- Keccak-256 / SHA3-256 of a byte string, computed on words -/
def keccak256W (bytes : List ℕ) : List ℕ := bitsToBytes (spongeW256 (bytesToBits bytes))
def sha3_256W (bytes : List ℕ) : List ℕ := bitsToBytes (spongeW256 (bytesToBits bytes ++ [false, true]))

theorem keccak256_eq_W (bytes : List ℕ) : keccak256 bytes = keccak256W bytes := by
  unfold keccak256 keccak256W keccak256Bits
  rw [sponge_eq_spongeW256]

theorem sha3_256_eq_W (bytes : List ℕ) : sha3_256 bytes = sha3_256W bytes := by
  unfold sha3_256 sha3_256W sha3_256Bits
  rw [sponge_eq_spongeW256]

end Smtb.Proofs.Keccak
