import Smtb.Proofs.Sat
import Smtb.Circuit.Keccak
import Smtb.Model.KeccakSpec
/-!
# Logical relation between the satisfiability run and the `Bool` run of a hint-free program

For programs built from `Xor`, `And`, `Sub(1, ·)` on boolean inputs the satisfiability semantics is
deterministic: `x k ↔ k (emb y)` where `y` is the result of the same program on `Bool`.
-/
namespace Smtb.Proofs.Keccak
open Smtb CircuitApi Smtb.Circuit.Keccak Smtb.KeccakSpec

variable {p : ℕ}

/-- embeddings of `Bool`-level data into field-level data; `p` is explicit on purpose -/
class Emb (p : ℕ) (β : Type) (α : outParam Type) where
  emb : β → α

def emb {β α} [Emb p β α] (b : β) : α := Emb.emb p b

instance : Emb p Bool (ZMod p) := ⟨Sat.embed⟩
instance : Emb p Unit Unit := ⟨id⟩

def embKV : KV Bool → KV (ZMod p)
  | .lit b => .lit b
  | .var b => .var (Sat.embed b)

instance : Emb p (KV Bool) (KV (ZMod p)) := ⟨embKV⟩
instance {β α} [Emb p β α] : Emb p (List β) (List α) := ⟨List.map (emb (p := p))⟩

theorem emb_list {β α} [Emb p β α] (l : List β) : emb (p := p) l = l.map (emb (p := p)) := rfl
theorem emb_bool (b : Bool) : emb (p := p) b = Sat.embed b := rfl
theorem emb_kv (k : KV Bool) : emb (p := p) k = embKV k := rfl

/-- the Sat run is deterministic and equals the embedded `Bool` run -/
def Rel {β α} [Emb p β α] (x : SatM p α) (y : Id β) : Prop :=
  ∀ k, x k ↔ k (emb (p := p) (Id.run y))

theorem Rel_pure {β α} [Emb p β α] (y : β) :
    Rel (p := p) (pure (emb (p := p) y)) (pure y : Id β) := fun _ => Iff.rfl

theorem Rel_pure' {β α} [Emb p β α] {a : α} {y : β} (h : a = emb (p := p) y) :
    Rel (p := p) (pure a) (pure y : Id β) := by subst h; exact Rel_pure y

theorem Rel_bind {β α γ δ} [Emb p β α] [Emb p δ γ] {x : SatM p α} {y : Id β}
    {f : α → SatM p γ} {g : β → Id δ}
    (hx : Rel x y) (hf : ∀ b, Rel (f (emb (p := p) b)) (g b)) : Rel (x >>= f) (y >>= g) := by
  intro k
  rw [SatM.bind_apply, hx]
  exact hf _ k

/-! ## gates -/

theorem toV_emb (k : KV Bool) :
    KV.toV (m := SatM p) (embKV k) = Sat.embed (KV.toV (m := Id) k) := by
  cases k with
  | lit b => cases b <;> simp [KV.toV, embKV, Sat.embed, CircuitApi.const]
  | var b => rfl

theorem Rel_xor (a b : Bool) :
    Rel (p := p) (xor_ (Sat.embed a) (Sat.embed b)) (xor_ (m := Id) a b) := by
  intro k
  rw [Sat.xor_iff]
  simp only [Sat.isBool_embed, true_and]
  cases a <;> cases b <;> simp [Sat.embed, emb, Emb.emb, CircuitApi.xor_]
  norm_num

theorem Rel_and (a b : Bool) :
    Rel (p := p) (and_ (Sat.embed a) (Sat.embed b)) (and_ (m := Id) a b) := by
  intro k
  rw [Sat.and_iff]
  simp only [Sat.isBool_embed, true_and]
  cases a <;> cases b <;> simp [Sat.embed, emb, Emb.emb, CircuitApi.and_]

theorem Rel_not (a : Bool) :
    Rel (p := p) (sub (const (m := SatM p) 1) (Sat.embed a)) (sub (m := Id) (const (m := Id) 1) a) := by
  intro k
  rw [Sat.sub_iff]
  cases a <;> simp [Sat.embed, emb, Emb.emb, CircuitApi.sub, CircuitApi.const]

/-! ## combinators -/

theorem Rel_zipWithM' {β₁ α₁ β₂ α₂ β₃ α₃} [Emb p β₁ α₁] [Emb p β₂ α₂] [Emb p β₃ α₃]
    (f : α₁ → α₂ → SatM p α₃) (g : β₁ → β₂ → Id β₃)
    (h : ∀ a b, Rel (f (emb (p := p) a) (emb (p := p) b)) (g a b)) :
    ∀ (as : List β₁) (bs : List β₂),
      Rel (zipWithM' f (emb (p := p) as) (emb (p := p) bs)) (zipWithM' g as bs)
  | [], _ => by intro k; simp [zipWithM', emb, Emb.emb]
  | _ :: _, [] => by intro k; simp [zipWithM', emb, Emb.emb]
  | a :: as, b :: bs => by
    simp only [zipWithM', emb, Emb.emb, List.map_cons]
    apply Rel_bind (h a b)
    intro c
    apply Rel_bind (Rel_zipWithM' f g h as bs)
    intro cs
    exact Rel_pure (c :: cs)

theorem Rel_mapM' {β₁ α₁ β₃ α₃} [Emb p β₁ α₁] [Emb p β₃ α₃]
    (f : α₁ → SatM p α₃) (g : β₁ → Id β₃) (h : ∀ a, Rel (f (emb (p := p) a)) (g a)) :
    ∀ (as : List β₁), Rel (mapM' f (emb (p := p) as)) (mapM' g as)
  | [] => by intro k; simp [mapM', emb, Emb.emb]
  | a :: as => by
    simp only [mapM', emb, Emb.emb, List.map_cons]
    apply Rel_bind (h a)
    intro c
    apply Rel_bind (Rel_mapM' f g h as)
    intro cs
    exact Rel_pure (c :: cs)

/-- `mapM'` over plain index data (not embedded) -/
theorem Rel_mapM'_idx {ι β α} [Emb p β α]
    (f : ι → SatM p α) (g : ι → Id β) (h : ∀ i, Rel (f i) (g i)) :
    ∀ (is : List ι), Rel (mapM' f is) (mapM' g is)
  | [] => Rel_pure (p := p) ([] : List β)
  | i :: is => by
    simp only [mapM']
    apply Rel_bind (h i)
    intro c
    apply Rel_bind (Rel_mapM'_idx f g h is)
    intro cs
    exact Rel_pure (c :: cs)

/-- `foldlM'` over plain index data with an embedded accumulator -/
theorem Rel_foldlM'_idx {ι β α} [Emb p β α]
    (f : α → ι → SatM p α) (g : β → ι → Id β) (h : ∀ b i, Rel (f (emb (p := p) b) i) (g b i)) :
    ∀ (is : List ι) (b : β), Rel (foldlM' f (emb (p := p) b) is) (foldlM' g b is)
  | [], b => Rel_pure b
  | i :: is, b => by
    simp only [foldlM']
    apply Rel_bind (h b i)
    intro b'
    exact Rel_foldlM'_idx f g h is b'

/-! ## lanes -/

theorem Rel_xorLane (a b : Lane Bool) :
    Rel (p := p) (xorLane (emb (p := p) a) (emb (p := p) b)) (xorLane (m := Id) a b) := by
  unfold xorLane
  apply Rel_zipWithM'
  intro x y
  show Rel (do let r ← xor_ (KV.toV (m := SatM p) (embKV x)) (KV.toV (m := SatM p) (embKV y)); pure (KV.var r)) _
  rw [toV_emb, toV_emb]
  apply Rel_bind (Rel_xor _ _)
  intro r
  exact Rel_pure (KV.var r)

theorem Rel_andLane (a b : Lane Bool) :
    Rel (p := p) (andLane (emb (p := p) a) (emb (p := p) b)) (andLane (m := Id) a b) := by
  unfold andLane
  apply Rel_zipWithM'
  intro x y
  show Rel (do let r ← and_ (KV.toV (m := SatM p) (embKV x)) (KV.toV (m := SatM p) (embKV y)); pure (KV.var r)) _
  rw [toV_emb, toV_emb]
  apply Rel_bind (Rel_and _ _)
  intro r
  exact Rel_pure (KV.var r)

theorem Rel_notLane (a : Lane Bool) :
    Rel (p := p) (notLane (emb (p := p) a)) (notLane (m := Id) a) := by
  unfold notLane
  apply Rel_mapM'
  intro x
  show Rel (do let r ← sub (const (m := SatM p) 1) (KV.toV (m := SatM p) (embKV x)); pure (KV.var r)) _
  rw [toV_emb]
  apply Rel_bind (Rel_not _)
  intro r
  exact Rel_pure (KV.var r)

theorem Rel_xor5Round (a b c d e : KV Bool) :
    Rel (p := p) (xor5Round (embKV a) (embKV b) (embKV c) (embKV d) (embKV e))
      (xor5Round (m := Id) a b c d e) := by
  unfold xor5Round
  simp only [toV_emb]
  apply Rel_bind (Rel_xor _ _); intro ab
  apply Rel_bind (Rel_xor _ _); intro abc
  apply Rel_bind (Rel_xor _ _); intro abcd
  apply Rel_bind (Rel_xor _ _); intro r
  exact Rel_pure (KV.var r)

theorem Rel_xor5 : ∀ (a b c d e : Lane Bool),
    Rel (p := p) (xor5 (emb (p := p) a) (emb (p := p) b) (emb (p := p) c) (emb (p := p) d) (emb (p := p) e))
      (xor5 (m := Id) a b c d e)
  | a :: as, b :: bs, c :: cs, d :: ds, e :: es => by
    simp only [xor5, emb, Emb.emb, List.map_cons]
    apply Rel_bind (Rel_xor5Round a b c d e); intro r
    apply Rel_bind (Rel_xor5 as bs cs ds es); intro rs
    exact Rel_pure (r :: rs)
  | [], _, _, _, _ => by intro k; simp [xor5, emb, Emb.emb]
  | _ :: _, [], _, _, _ => by intro k; simp [xor5, emb, Emb.emb]
  | _ :: _, _ :: _, [], _, _ => by intro k; simp [xor5, emb, Emb.emb]
  | _ :: _, _ :: _, _ :: _, [], _ => by intro k; simp [xor5, emb, Emb.emb]
  | _ :: _, _ :: _, _ :: _, _ :: _, [] => by intro k; simp [xor5, emb, Emb.emb]

end Smtb.Proofs.Keccak
