import Smtb.Proofs.Keccak.Absorb
/-!
# The gadget program on `Bool` is the sponge of FIPS 202
-/
namespace Smtb.Proofs.Keccak
open Smtb CircuitApi Smtb.Circuit.Keccak Smtb.KeccakSpec Smtb.KeccakRef

/-- the padded message of the gadget, as slots (keccak.go:155-181) -/
def specP (dom : ℕ) (data : List Bool) : List (KV Bool) :=
  (paddedMsg dom data).set (paddedSize data.length - 1)
    (.var (val ((paddedMsg dom data).getD (paddedSize data.length - 1) (.lit false)) ^^ true))

/-- the squeeze of the gadget: lanes (0,0), (1,0), (2,0), (3,0) -/
def squeezeSt (S : St Bool) : List Bool := (S.get 0 0 ++ S.get 1 0 ++ S.get 2 0 ++ S.get 3 0).map val

theorem keccakBody_run (dom : ℕ) (data : List Bool) :
    Id.run (keccakBody (m := Id) dom data) =
      squeezeSt ((List.range (paddedSize data.length / blockSize)).foldl
        (fun S blk => Id.run (keccakF (m := Id) (Id.run (absorbBlock (m := Id) (specP dom data) blk S))))
        zeroState) := by
  unfold keccakBody
  rw [Id.run_bind]
  dsimp only
  rw [Id.run_bind, foldlM'_id]
  rfl

/-! ## absorbing all blocks -/

theorem zeroState_tab : (zeroState : St Bool) = tab (fun _ _ => List.replicate 64 (KV.lit false)) := rfl

theorem absorb_fold (P : List (KV Bool)) (l : List ℕ) (hl : ∀ blk ∈ l, (blk + 1) * 1088 ≤ P.length)
    (f : ℕ → ℕ → Lane Bool) (hf : Lanes64 f) :
    ∃ g, Lanes64 g ∧
      l.foldl (fun S blk => Id.run (keccakF (m := Id) (Id.run (absorbBlock (m := Id) P blk S)))) (tab f) = tab g ∧
      toStateL g = l.foldl (fun S blk => keccakF1600 (xorBits S
        ((((P.map val).drop (blk * rate)).take rate) ++ List.replicate capacity false))) (toStateL f) := by
  induction l generalizing f with
  | nil => exact ⟨f, hf, by rw [List.foldl_nil], by rw [List.foldl_nil]⟩
  | cons blk l ih =>
    have hP := hl blk List.mem_cons_self
    obtain ⟨g, hg, h1, h2⟩ := ih (fun b hb => hl b (List.mem_cons_of_mem _ hb))
      (permL (absorbL P blk f)) (lanes64_permL (lanes64_absorbL P blk hP hf))
    refine ⟨g, hg, ?_, ?_⟩
    · rw [List.foldl_cons, absorbBlock_tab, keccakF_tab]
      exact h1
    · rw [List.foldl_cons, ← toStateL_absorbL P blk hP hf, ← keccakF_spec (lanes64_absorbL P blk hP hf)]
      exact h2

/-! ## squeezing -/

theorem bit_append (a b : Lane Bool) (i : ℕ) :
    bit (a ++ b) i = if i < a.length then bit a i else bit b (i - a.length) := by
  unfold bit
  split
  · rw [List.getD_append _ _ _ _ (by assumption)]
  · rw [List.getD_append_right _ _ _ _ (by omega)]

theorem size_toStateL (f : ℕ → ℕ → Lane Bool) : (toStateL f).size = 1600 := State.size_mk _

theorem getElem_toStateL (f : ℕ → ℕ → Lane Bool) (i : ℕ) (h : i < (toStateL f).size) :
    (toStateL f)[i] = bit (f (i / 64 % 5) (i / 320)) (i % 64) := by
  have h' : i < 1600 := by rw [size_toStateL] at h; exact h
  have h1 := State.getD_mk (fun x y z => bit (f x y) z) i h'
  rw [Array.getD_eq_getD_getElem?, Array.getElem?_eq_getElem (by rw [State.size_mk]; exact h')] at h1
  exact h1

theorem squeeze_tab {f} (hf : Lanes64 f) :
    squeezeSt (tab f) = ((toStateL f).toList.take 256) := by
  unfold squeezeSt
  rw [get_tab f 0 0 (by decide) (by decide), get_tab f 1 0 (by decide) (by decide),
    get_tab f 2 0 (by decide) (by decide), get_tab f 3 0 (by decide) (by decide)]
  have hlen : (f 0 0 ++ f 1 0 ++ f 2 0 ++ f 3 0).length = 256 := by
    simp only [List.length_append, hf 0 0, hf 1 0, hf 2 0, hf 3 0]
  apply List.ext_getElem
  · rw [List.length_map, hlen, List.length_take, Array.length_toList, size_toStateL]; rfl
  · intro i h1 h2
    rw [List.length_map, hlen] at h1
    rw [List.getElem_map, ← bit_eq_getElem _ _ (by rw [hlen]; exact h1), List.getElem_take,
      Array.getElem_toList, getElem_toStateL]
    simp only [bit_append, List.length_append, hf 0 0, hf 1 0, hf 2 0]
    have h320 : i / 320 = 0 := by omega
    rw [h320]
    by_cases c1 : i < 64
    · rw [if_pos (by omega), if_pos (by omega), if_pos c1, show i / 64 % 5 = 0 by omega,
        show i % 64 = i by omega]
    · by_cases c2 : i < 128
      · rw [if_pos (by omega), if_pos (by omega), if_neg c1, show i / 64 % 5 = 1 by omega,
          show i % 64 = i - 64 by omega]
      · by_cases c3 : i < 192
        · rw [if_pos (by omega), if_neg (by omega), show i / 64 % 5 = 2 by omega,
            show i % 64 = i - (64 + 64) by omega]
        · rw [if_neg (by omega), show i / 64 % 5 = 3 by omega,
            show i % 64 = i - (64 + 64 + 64) by omega]

end Smtb.Proofs.Keccak
