import Smtb.Proofs.Keccak.LaneBits
import Smtb.Proofs.Keccak.RefLemmas
/-!
# The round function and the permutation of the gadget program are those of FIPS 202
-/
namespace Smtb.Proofs.Keccak
open Smtb CircuitApi Smtb.Circuit.Keccak Smtb.KeccakSpec Smtb.KeccakRef

/-- every lane has 64 slots -/
def Lanes64 (f : ℕ → ℕ → Lane Bool) : Prop := ∀ x y, (f x y).length = 64

/-- the FIPS 202 state string of a tabulated gadget state: `A[x, y, z]` is bit `z` of lane `(x, y)` -/
def toStateL (f : ℕ → ℕ → Lane Bool) : State := State.mk fun x y z => bit (f x y) z

theorem get_toStateL (f : ℕ → ℕ → Lane Bool) (x y z : ℕ) (hx : x < 5) (hy : y < 5) (hz : z < 64) :
    (toStateL f).get x y z = bit (f x y) z := State.get_mk _ _ _ _ hx hy hz

/-! ## lengths -/

theorem length_thetaC {f} (hf : Lanes64 f) (x : ℕ) : (thetaC f x).length = 64 :=
  length_xor5 _ _ _ _ _ 64 (hf _ _) (hf _ _) (hf _ _) (hf _ _) (hf _ _)

theorem length_thetaD {f} (hf : Lanes64 f) (x : ℕ) : (thetaD f x).length = 64 :=
  length_xorLane _ _ 64 (length_thetaC hf _) (by rw [length_rotLane]; exact length_thetaC hf _)

theorem lanes64_thetaL {f} (hf : Lanes64 f) : Lanes64 (thetaL f) :=
  fun _ _ => length_xorLane _ _ 64 (hf _ _) (length_thetaD hf _)

theorem lanes64_rhoPiL {f} (hf : Lanes64 f) : Lanes64 (rhoPiL f) :=
  fun _ _ => by unfold rhoPiL; rw [length_rotLane]; exact hf _ _

theorem chiL_eq (f : ℕ → ℕ → Lane Bool) (x y : ℕ) :
    chiL f x y = Id.run (xorLane (m := Id) (f x y) (Id.run (andLane (m := Id)
      (Id.run (notLane (m := Id) (f ((x+1)%5) y))) (f ((x+2)%5) y)))) := rfl

theorem lanes64_chiL {f} (hf : Lanes64 f) : Lanes64 (chiL f) := by
  intro x y
  rw [chiL_eq]
  exact length_xorLane _ _ 64 (hf _ _)
    (length_andLane _ _ 64 (by rw [length_notLane]; exact hf _ _) (hf _ _))

theorem lanes64_iotaL {f} (hf : Lanes64 f) (rc : Lane Bool) (hrc : rc.length = 64) :
    Lanes64 (iotaL rc f) := by
  intro x y
  unfold iotaL
  split
  · exact length_xorLane _ _ 64 (hf _ _) hrc
  · exact hf _ _

theorem lanes64_roundL {f} (hf : Lanes64 f) (rc : Lane Bool) (hrc : rc.length = 64) :
    Lanes64 (roundL rc f) :=
  lanes64_iotaL (lanes64_chiL (lanes64_rhoPiL (lanes64_thetaL hf))) rc hrc

/-! ## the step mappings -/

theorem bit_thetaC {f} (hf : Lanes64 f) (x z : ℕ) (hz : z < 64) :
    bit (thetaC f x) z
      = (bit (f x 4) z ^^ (bit (f x 3) z ^^ (bit (f x 2) z ^^ (bit (f x 0) z ^^ bit (f x 1) z)))) :=
  bit_xor5 _ _ _ _ _ 64 z (hf _ _) (hf _ _) (hf _ _) (hf _ _) (hf _ _) hz

theorem toStateL_thetaL {f} (hf : Lanes64 f) : toStateL (thetaL f) = theta (toStateL f) := by
  unfold theta toStateL
  apply State.mk_congr
  intro x hx y hy z hz
  have h4 : (x + 4) % 5 < 5 := Nat.mod_lt _ (by decide)
  have h1 : (x + 1) % 5 < 5 := Nat.mod_lt _ (by decide)
  have hz' : (z + 63) % 64 < 64 := Nat.mod_lt _ (by decide)
  simp only [State.get_mk _ _ _ _ hx hy hz, State.get_mk _ _ _ _ h4 (by decide : 0 < 5) hz,
    State.get_mk _ _ _ _ h4 (by decide : 1 < 5) hz, State.get_mk _ _ _ _ h4 (by decide : 2 < 5) hz,
    State.get_mk _ _ _ _ h4 (by decide : 3 < 5) hz, State.get_mk _ _ _ _ h4 (by decide : 4 < 5) hz,
    State.get_mk _ _ _ _ h1 (by decide : 0 < 5) hz', State.get_mk _ _ _ _ h1 (by decide : 1 < 5) hz',
    State.get_mk _ _ _ _ h1 (by decide : 2 < 5) hz', State.get_mk _ _ _ _ h1 (by decide : 3 < 5) hz',
    State.get_mk _ _ _ _ h1 (by decide : 4 < 5) hz']
  unfold thetaL
  rw [bit_xorLane _ _ _ (by rw [hf, length_thetaD hf])]
  unfold thetaD
  rw [bit_xorLane _ _ _ (by rw [length_thetaC hf, length_rotLane, length_thetaC hf]),
    bit_rotLane _ _ _ (length_thetaC hf _) hz, bit_thetaC hf _ _ hz, bit_thetaC hf _ _ hz']
  generalize bit (f x y) z = a
  generalize bit (f ((x + 4) % 5) 0) z = b0
  generalize bit (f ((x + 4) % 5) 1) z = b1
  generalize bit (f ((x + 4) % 5) 2) z = b2
  generalize bit (f ((x + 4) % 5) 3) z = b3
  generalize bit (f ((x + 4) % 5) 4) z = b4
  generalize bit (f ((x + 1) % 5) 0) ((z + 63) % 64) = c0
  generalize bit (f ((x + 1) % 5) 1) ((z + 63) % 64) = c1
  generalize bit (f ((x + 1) % 5) 2) ((z + 63) % 64) = c2
  generalize bit (f ((x + 1) % 5) 3) ((z + 63) % 64) = c3
  generalize bit (f ((x + 1) % 5) 4) ((z + 63) % 64) = c4
  simp only [Bool.xor_comm, Bool.xor_left_comm]

/-- the rotation table `R` of `constants.go` is FIPS 202 Table 2 reduced modulo 64 -/
theorem rotOffsets_eq : ∀ x, x < 5 → ∀ y, y < 5 →
    (rotOffsets.getD x []).getD y 0 = rhoOffset x y % 64 := by decide

theorem toStateL_rhoPiL {f} (hf : Lanes64 f) : toStateL (rhoPiL f) = KeccakRef.pi (rho (toStateL f)) := by
  unfold KeccakRef.pi rho toStateL
  apply State.mk_congr
  intro x hx y hy z hz
  have h1 : (x + 3 * y) % 5 < 5 := Nat.mod_lt _ (by decide)
  rw [State.get_mk _ _ _ _ h1 hx hz, State.get_mk _ _ _ _ h1 hx (Nat.mod_lt _ (by decide))]
  unfold rhoPiL
  rw [bit_rotLane _ _ _ (hf _ _) hz, rotOffsets_eq _ h1 _ hx]

theorem toStateL_chiL {f} (hf : Lanes64 f) : toStateL (chiL f) = chi (toStateL f) := by
  unfold chi toStateL
  apply State.mk_congr
  intro x hx y hy z hz
  rw [State.get_mk _ _ _ _ hx hy hz, State.get_mk _ _ _ _ (Nat.mod_lt _ (by decide)) hy hz,
    State.get_mk _ _ _ _ (Nat.mod_lt _ (by decide)) hy hz, chiL_eq,
    bit_xorLane _ _ _ (by rw [hf, length_andLane _ _ 64 (by rw [length_notLane]; exact hf _ _) (hf _ _)]),
    bit_andLane _ _ _ (by rw [length_notLane, hf, hf]), bit_notLane _ _ (by rw [hf]; exact hz)]
  cases bit (f ((x + 1) % 5) y) z <;> rfl

/-- `toBits` of `constants.go`: the lane of literal bits of a round constant -/
theorem length_rcBits (c : ℕ) : (rcBits c : Lane Bool).length = 64 := by simp [rcBits]

theorem bit_rcBits (c z : ℕ) (hz : z < 64) : bit (rcBits c) z = c.testBit z := by
  unfold bit rcBits
  rw [getD_map_range _ _ _ _ hz, val_lit]

theorem toStateL_iotaL {f} (hf : Lanes64 f) (ir : ℕ) (hir : ir < 24) :
    toStateL (iotaL (rcBits (rcTable.getD ir 0)) f) = iota (toStateL f) ir := by
  unfold iota toStateL
  apply State.mk_congr
  intro x hx y hy z hz
  unfold iotaL
  split
  · rw [State.get_mk _ _ _ _ (by decide) (by decide) hz, roundConstant_getD _ _ hz, rcBit_table _ _ hir hz,
      bit_xorLane _ _ _ (by rw [hf, length_rcBits]), bit_rcBits _ _ hz]
  · rw [State.get_mk _ _ _ _ hx hy hz]

/-- **One round of the gadget is `Rnd` of FIPS 202.** -/
theorem keccakRound_spec {f} (hf : Lanes64 f) (ir : ℕ) (hir : ir < 24) :
    toStateL (roundL (rcBits (rcTable.getD ir 0)) f) = Rnd (toStateL f) ir := by
  unfold roundL Rnd
  rw [toStateL_iotaL (lanes64_chiL (lanes64_rhoPiL (lanes64_thetaL hf))) ir hir,
    toStateL_chiL (lanes64_rhoPiL (lanes64_thetaL hf)), toStateL_rhoPiL (lanes64_thetaL hf),
    toStateL_thetaL hf]

/-! ## the permutation -/

/-- 24 rounds on lanes -/
def permL (f : ℕ → ℕ → Lane Bool) : ℕ → ℕ → Lane Bool :=
  rcTable.foldl (fun f c => roundL (rcBits c) f) f

theorem keccakF_tab (f : ℕ → ℕ → Lane Bool) : Id.run (keccakF (m := Id) (tab f)) = tab (permL f) := by
  unfold keccakF permL
  rw [foldlM'_id]
  generalize rcTable = l
  induction l generalizing f with
  | nil => rfl
  | cons c cs ih => simp only [List.foldl_cons, keccakRound_tab]; exact ih _

theorem rcTable_eq : rcTable = (List.range 24).map fun ir => rcTable.getD ir 0 := by rfl

theorem foldl_rcTable {α : Type} (g : α → ℕ → α) (a : α) :
    rcTable.foldl g a = (List.range 24).foldl (fun a ir => g a (rcTable.getD ir 0)) a := by
  have h : rcTable.foldl g a = ((List.range 24).map fun ir => rcTable.getD ir 0).foldl g a :=
    congrArg (fun l => List.foldl g a l) rcTable_eq
  rw [h, List.foldl_map]

theorem permL_aux (l : List ℕ) (hl : ∀ ir ∈ l, ir < 24) (f : ℕ → ℕ → Lane Bool) (hf : Lanes64 f) :
    Lanes64 (l.foldl (fun f ir => roundL (rcBits (rcTable.getD ir 0)) f) f) ∧
    toStateL (l.foldl (fun f ir => roundL (rcBits (rcTable.getD ir 0)) f) f)
      = l.foldl Rnd (toStateL f) := by
  induction l generalizing f with
  | nil => rw [List.foldl_nil, List.foldl_nil]; exact ⟨hf, Eq.refl _⟩
  | cons ir l ih =>
    rw [List.foldl_cons, List.foldl_cons]
    have h := ih (fun i hi => hl i (List.mem_cons_of_mem _ hi)) (roundL (rcBits (rcTable.getD ir 0)) f)
      (lanes64_roundL hf _ (length_rcBits _))
    rw [keccakRound_spec hf ir (hl ir List.mem_cons_self)] at h
    exact h

theorem lanes64_permL {f} (hf : Lanes64 f) : Lanes64 (permL f) := by
  unfold permL
  rw [foldl_rcTable]
  exact (permL_aux _ (fun _ h => List.mem_range.mp h) f hf).1

/-- **The 24-round permutation of the gadget is `KECCAK-f[1600]`.** -/
theorem keccakF_spec {f} (hf : Lanes64 f) : toStateL (permL f) = keccakF1600 (toStateL f) := by
  unfold permL keccakF1600
  rw [foldl_rcTable]
  exact (permL_aux _ (fun _ h => List.mem_range.mp h) f hf).2

end Smtb.Proofs.Keccak
