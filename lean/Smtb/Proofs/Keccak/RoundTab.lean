import Smtb.Proofs.Keccak.Lanes
/-!
# `keccakRound`, `keccakF`, `absorbBlock` on tabulated states
-/
namespace Smtb.Proofs.Keccak
open Smtb CircuitApi Smtb.Circuit.Keccak Smtb.KeccakSpec

/-- θ on lanes -/
def thetaC (f : ℕ → ℕ → Lane Bool) (x : ℕ) : Lane Bool :=
  Id.run (xor5 (m := Id) (f x 0) (f x 1) (f x 2) (f x 3) (f x 4))
def thetaD (f : ℕ → ℕ → Lane Bool) (x : ℕ) : Lane Bool :=
  Id.run (xorLane (m := Id) (thetaC f ((x+4)%5)) (rotLane (thetaC f ((x+1)%5)) 1))
def thetaL (f : ℕ → ℕ → Lane Bool) (x y : ℕ) : Lane Bool :=
  Id.run (xorLane (m := Id) (f x y) (thetaD f x))
/-- ρ and π on lanes -/
def rhoPiL (f : ℕ → ℕ → Lane Bool) (x y : ℕ) : Lane Bool :=
  rotLane (f ((x + 3*y) % 5) x) ((rotOffsets.getD ((x + 3*y) % 5) []).getD x 0)
/-- χ on lanes -/
def chiL (f : ℕ → ℕ → Lane Bool) (x y : ℕ) : Lane Bool :=
  Id.run (do
    let left ← notLane (m := Id) (f ((x+1)%5) y)
    let tmp ← andLane (m := Id) left (f ((x+2)%5) y)
    xorLane (m := Id) (f x y) tmp)
/-- ι on lanes -/
def iotaL (rc : Lane Bool) (f : ℕ → ℕ → Lane Bool) (x y : ℕ) : Lane Bool :=
  if x = 0 ∧ y = 0 then Id.run (xorLane (m := Id) (f 0 0) rc) else f x y

def roundL (rc : Lane Bool) (f : ℕ → ℕ → Lane Bool) : ℕ → ℕ → Lane Bool :=
  iotaL rc (chiL (rhoPiL (thetaL f)))

/-- the ρ/π wiring of `keccakRound` -/
def rhoPiB' (A : St Bool) : St Bool :=
  let B0 : St Bool := (List.range 5).map fun _ => (List.range 5).map fun _ => []
  (List.range 5).foldl (fun B x => (List.range 5).foldl (fun B y =>
      B.set y ((2*x+3*y)%5) (rotLane (A.get x y) ((rotOffsets.getD x []).getD y 0))) B) B0

theorem rhoPiB'_tab (g : ℕ → ℕ → Lane Bool) : rhoPiB' (tab g) = tab (rhoPiL g) := by
  simp [tab, range5, St.set, St.get, rhoPiL, rhoPiB', rotOffsets]

theorem iota_tab (h : ℕ → ℕ → Lane Bool) (rc : Lane Bool) :
    St.set (tab h) 0 0 (Id.run (xorLane (m := Id) (St.get (tab h) 0 0) rc)) = tab (iotaL rc h) := by
  simp [tab, range5, St.set, St.get, iotaL]

theorem stage_theta (f : ℕ → ℕ → Lane Bool) (D : List (Lane Bool))
    (hD : ∀ x, x < 5 → D.getD x [] = thetaD f x) :
    Id.run (forPairs (m := Id) (fun A x y => do
      let l ← xorLane (m := Id) (A.get x y) (D.getD x []); pure (A.set x y l)) (tab f)) = tab (thetaL f) := by
  have h := forPairs_tab (fun x _ l => Id.run (xorLane (m := Id) l (D.getD x []))) f
  refine Eq.trans h ?_
  apply tab_congr
  intro x hx y _
  rw [hD x hx]
  rfl

theorem stage_chi (h f : ℕ → ℕ → Lane Bool) :
    Id.run (forPairs (m := Id) (fun A x y => do
      let left ← notLane (m := Id) (St.get (tab h) ((x+1)%5) y)
      let tmp ← andLane (m := Id) left (St.get (tab h) ((x+2)%5) y)
      let l ← xorLane (m := Id) (St.get (tab h) x y) tmp
      pure (A.set x y l)) (tab f)) = tab (chiL h) := by
  have h1 := forPairs_tab (fun x y _ => Id.run (do
      let left ← notLane (m := Id) (St.get (tab h) ((x+1)%5) y)
      let tmp ← andLane (m := Id) left (St.get (tab h) ((x+2)%5) y)
      xorLane (m := Id) (St.get (tab h) x y) tmp)) f
  refine Eq.trans h1 ?_
  apply tab_congr
  intro x hx y hy
  rw [get_tab _ _ _ (Nat.mod_lt _ (by decide)) hy, get_tab _ _ _ (Nat.mod_lt _ (by decide)) hy,
    get_tab _ _ _ hx hy]
  rfl

theorem keccakRound_tab (f : ℕ → ℕ → Lane Bool) (rc : Lane Bool) :
    Id.run (keccakRound (m := Id) (tab f) rc) = tab (roundL rc f) := by
  unfold keccakRound
  rw [Id.run_bind]
  generalize hC : Id.run (mapM' (m := Id) _ (List.range 5)) = C
  have hC' : ∀ x, x < 5 → C.getD x [] = thetaC f x := by
    intro x hx
    rw [← hC, mapM'_id, getD_map_range _ _ _ _ hx]
    simp only [get_tab f x _ hx (by decide : 0 < 5), get_tab f x _ hx (by decide : 1 < 5),
      get_tab f x _ hx (by decide : 2 < 5), get_tab f x _ hx (by decide : 3 < 5),
      get_tab f x _ hx (by decide : 4 < 5)]
    rfl
  clear hC
  rw [Id.run_bind]
  generalize hD : Id.run (mapM' (m := Id) _ (List.range 5)) = D
  have hD' : ∀ x, x < 5 → D.getD x [] = thetaD f x := by
    intro x hx
    rw [← hD, mapM'_id, getD_map_range _ _ _ _ hx, hC' _ (Nat.mod_lt _ (by decide)),
      hC' _ (Nat.mod_lt _ (by decide))]
    rfl
  clear hD
  rw [Id.run_bind, stage_theta f D hD']
  have hB := rhoPiB'_tab (thetaL f)
  unfold rhoPiB' at hB
  dsimp only at hB ⊢
  rw [hB, Id.run_bind, stage_chi]
  exact iota_tab _ rc

end Smtb.Proofs.Keccak
