import Smtb.Model.Keccak
import Smtb.Circuit.Keccak
import Mathlib.Tactic.IntervalCases
import Mathlib.Data.List.GetD
/-!
# Lemmas about the FIPS 202 reference (`Smtb/Model/Keccak.lean`)
-/
namespace Smtb.Proofs.Keccak
open Smtb Smtb.KeccakRef

theorem State.get_mk (f : ℕ → ℕ → ℕ → Bool) (x y z : ℕ) (hx : x < 5) (hy : y < 5) (hz : z < 64) :
    (State.mk f).get x y z = f x y z := by
  unfold State.get State.mk
  have h : 64 * (5 * y + x) + z < 1600 := by omega
  simp only [Array.getD_eq_getD_getElem?, Array.getElem?_ofFn, h, dite_true, Option.getD_some]
  congr 1 <;> omega

theorem State.mk_congr {f g : ℕ → ℕ → ℕ → Bool}
    (h : ∀ x, x < 5 → ∀ y, y < 5 → ∀ z, z < 64 → f x y z = g x y z) : State.mk f = State.mk g := by
  unfold State.mk
  congr 1
  funext i
  have := i.isLt
  exact h _ (Nat.mod_lt _ (by decide)) _ (by omega) _ (Nat.mod_lt _ (by decide))

theorem State.size_mk (f : ℕ → ℕ → ℕ → Bool) : (State.mk f).size = 1600 := by
  simp [State.mk]

/-- bit `i` of a state string in coordinates -/
theorem State.getD_mk (f : ℕ → ℕ → ℕ → Bool) (i : ℕ) (h : i < 1600) :
    (State.mk f).getD i false = f (i / 64 % 5) (i / 320) (i % 64) := by
  unfold State.mk
  simp only [Array.getD_eq_getD_getElem?, Array.getElem?_ofFn, h, dite_true, Option.getD_some]

/-! ## sanity of the committed tables -/

/-- Algorithm 2 of FIPS 202: the offsets of ρ computed by the loop
`(x, y) = (1, 0); for t in 0…23 { offset[x, y] = (t+1)(t+2)/2; (x, y) = (y, (2x+3y) mod 5) }` -/
def rhoLoop : List (ℕ × ℕ × ℕ) :=
  ((List.range 24).foldl (fun (acc : List (ℕ × ℕ × ℕ) × ℕ × ℕ) t =>
    let (l, x, y) := acc
    ((x, y, (t + 1) * (t + 2) / 2) :: l, y, (2 * x + 3 * y) % 5)) ([], 1, 0)).1

/-- the committed table of ρ offsets is FIPS 202 Table 2 / Algorithm 2 -/
theorem rhoOffsets_eq_loop :
    ∀ e ∈ rhoLoop, rhoOffset e.1 e.2.1 = e.2.2 := by decide

theorem rhoOffset_zero : rhoOffset 0 0 = 0 := by decide

/-- bit `z` of the round constant of round `ir`, by the LFSR of FIPS 202 Algorithm 5 -/
def rcBit (ir z : ℕ) : Bool := (List.range 7).any fun j => z == 2 ^ j - 1 && rc (j + 7 * ir)

theorem roundConstant_getD (ir z : ℕ) (hz : z < 64) : (roundConstant ir).getD z false = rcBit ir z := by
  unfold roundConstant rcBit
  simp only [Array.getD_eq_getD_getElem?, Array.getElem?_ofFn, hz, dite_true, Option.getD_some]

theorem rcBit_table_aux : ((List.range 24).all fun ir => (List.range 64).all fun z =>
    rcBit ir z == (Circuit.Keccak.rcTable.getD ir 0).testBit z) = true := by decide +kernel

/-- the `RC` table of `constants.go` is the LFSR output of FIPS 202 Algorithms 5 and 6 -/
theorem rcBit_table (ir z : ℕ) (hir : ir < 24) (hz : z < 64) :
    rcBit ir z = (Circuit.Keccak.rcTable.getD ir 0).testBit z := by
  have h := rcBit_table_aux
  rw [List.all_eq_true] at h
  have h1 := h ir (List.mem_range.mpr hir)
  rw [List.all_eq_true] at h1
  exact beq_iff_eq.mp (h1 z (List.mem_range.mpr hz))

end Smtb.Proofs.Keccak
