import Smtb.Circuit.Keccak
import Smtb.Model.KeccakSpec
import Mathlib.Tactic.IntervalCases
import Mathlib.Data.List.GetD
/-!
# The Keccak gadget program on `Bool`: closed forms of the state loops

In the identity monad the loops of `keccak.go` over the 5×5 state are tabulations: `tab f` is the
state whose lane `(x, y)` is `f x y`.
-/
namespace Smtb.Proofs.Keccak
open Smtb CircuitApi Smtb.Circuit.Keccak Smtb.KeccakSpec

/-! ## the combinators in `Id` -/

theorem foldlM'_id {α β : Type} (f : β → α → Id β) (l : List α) (b : β) :
    Id.run (foldlM' f b l) = l.foldl (fun b a => Id.run (f b a)) b := by
  induction l generalizing b with
  | nil => rfl
  | cons a as ih => exact ih (Id.run (f b a))

theorem mapM'_id {α β : Type} (f : α → Id β) (l : List α) :
    Id.run (mapM' f l) = l.map (fun a => Id.run (f a)) := by
  induction l with
  | nil => rfl
  | cons a as ih =>
    show Id.run (f a) :: Id.run (mapM' f as) = _
    rw [ih]; rfl

theorem zipWithM'_id {α β γ : Type} (f : α → β → Id γ) (l : List α) (l' : List β) :
    Id.run (zipWithM' f l l') = List.zipWith (fun a b => Id.run (f a b)) l l' := by
  induction l generalizing l' with
  | nil => rfl
  | cons a as ih =>
    cases l' with
    | nil => rfl
    | cons b bs =>
      show Id.run (f a b) :: Id.run (zipWithM' f as bs) = _
      rw [ih]; rfl

/-! ## 5×5 tables -/

theorem range5 : List.range 5 = [0, 1, 2, 3, 4] := by decide

/-- a 5×5 table -/
def tab {α : Type} (f : ℕ → ℕ → α) : List (List α) :=
  (List.range 5).map fun x => (List.range 5).map fun y => f x y

theorem tab_congr {α : Type} {f g : ℕ → ℕ → α} (h : ∀ x, x < 5 → ∀ y, y < 5 → f x y = g x y) :
    tab f = tab g := by
  unfold tab
  apply List.map_congr_left
  intro x hx
  apply List.map_congr_left
  intro y hy
  exact h x (List.mem_range.mp hx) y (List.mem_range.mp hy)

theorem getD_map_range {α : Type} (f : ℕ → α) (n x : ℕ) (d : α) (h : x < n) :
    ((List.range n).map f).getD x d = f x := by
  rw [List.getD_eq_getElem _ _ (by simpa using h)]
  simp

theorem get_tab (f : ℕ → ℕ → Lane Bool) (x y : ℕ) (hx : x < 5) (hy : y < 5) :
    St.get (tab f) x y = f x y := by
  unfold St.get tab
  rw [getD_map_range _ _ _ _ hx, getD_map_range _ _ _ _ hy]

/-- a loop `for i in 0…4 { r[i] = h(i, r[i]) }` over a list of length 5 -/
theorem foldl_set_range5 {α : Type} (d : α) (h : ℕ → α → α) (r : List α) (hr : r.length = 5) :
    (List.range 5).foldl (fun r y => r.set y (h y (r.getD y d))) r
      = (List.range 5).map (fun y => h y (r.getD y d)) := by
  match r, hr with
  | [a, b, c, d, e], _ => rfl

theorem St_set_get_self {V : Type} (S : St V) (x y : ℕ) : St.set S x y (St.get S x y) = S := by
  unfold St.set St.get
  apply List.ext_getElem
  · simp
  · intro i h1 h2
    rw [List.getElem_set]
    split
    · subst i
      have hx : x < S.length := by simpa using h1
      rw [List.getD_eq_getElem _ _ hx]
      apply List.ext_getElem
      · simp
      · intro j h3 h4
        rw [List.getElem_set]
        split
        · subst j
          rw [List.getD_eq_getElem _ _ (by simpa using h3)]
        · rfl
    · rfl

/-- the inner loop over `y` only touches row `x` -/
theorem foldl_row {V : Type} (h : ℕ → Lane V → Lane V) (x : ℕ) (ys : List ℕ) (S : St V) :
    ys.foldl (fun S y => St.set S x y (h y (St.get S x y))) S
      = List.set S x (ys.foldl (fun r y => r.set y (h y (r.getD y []))) (S.getD x [])) := by
  by_cases hx : x < S.length
  · induction ys generalizing S with
    | nil =>
      simp only [List.foldl_nil]
      apply List.ext_getElem
      · simp
      · intro i h1 h2
        rw [List.getElem_set]
        split
        · subst i; rw [List.getD_eq_getElem _ _ hx]
        · rfl
    | cons y ys ih =>
      simp only [List.foldl_cons]
      rw [ih _ (by simpa [St.set] using hx)]
      simp only [St.set, St.get, List.set_set]
      congr 2
      rw [List.getD_eq_getElem _ _ (by simpa using hx), List.getElem_set_self]
  · have hS : ∀ (y : ℕ) (l : Lane V), St.set S x y l = S := by
      intro y l
      unfold St.set
      exact List.set_eq_of_length_le (by omega)
    have h1 : ys.foldl (fun S y => St.set S x y (h y (St.get S x y))) S = S := by
      induction ys with
      | nil => rfl
      | cons y ys ih => simp only [List.foldl_cons, hS]; exact ih
    rw [h1, List.set_eq_of_length_le (by omega)]

/-- **`for x { for y { S[x][y] = g(x, y, S[x][y]) } }` tabulates.** -/
theorem forPairs_tab (g : ℕ → ℕ → Lane Bool → Lane Bool) (f : ℕ → ℕ → Lane Bool) :
    Id.run (forPairs (m := Id) (fun S x y => pure (S.set x y (g x y (S.get x y)))) (tab f))
      = tab (fun x y => g x y (f x y)) := by
  unfold forPairs
  rw [foldlM'_id]
  simp only [foldlM'_id]
  show (List.range 5).foldl (fun S x => (List.range 5).foldl
    (fun S y => St.set S x y (g x y (St.get S x y))) S) (tab f) = _
  simp only [foldl_row]
  rw [foldl_set_range5 (α := List (Lane Bool)) [] (fun x r => (List.range 5).foldl
    (fun r y => r.set y (g x y (r.getD y []))) r) (tab f) (by simp [tab])]
  unfold tab
  apply List.map_congr_left
  intro x hx
  rw [getD_map_range _ _ _ _ (List.mem_range.mp hx)]
  rw [foldl_set_range5 (α := Lane Bool) [] (g x) _ (by simp)]
  apply List.map_congr_left
  intro y hy
  rw [getD_map_range _ _ _ _ (List.mem_range.mp hy)]

end Smtb.Proofs.Keccak
