import Smtb.Proofs.Keccak.RelGadget
import Smtb.Proofs.Keccak.Lanes
import Smtb.Proofs.Keccak.Padding
/-!
# The Keccak gadget constrains every input to be boolean

`Tr x Q`: if the constraints of `x` (with continuation `k`) are satisfiable then `k` holds of a
result satisfying `Q` — a strongest-postcondition logic in which `Q` carries both the shape of
the result and the facts asserted on the way (`Xor`/`And` assert their arguments boolean).
-/
namespace Smtb.Proofs.Keccak
open Smtb CircuitApi Smtb.Circuit.Keccak

variable {p : ℕ}

def Tr {α : Type} (x : SatM p α) (Q : α → Prop) : Prop := ∀ k, x k → ∃ a, Q a ∧ k a

theorem Tr_pure {α : Type} (a : α) (Q : α → Prop) (h : Q a) : Tr (p := p) (pure a) Q :=
  fun _ hk => ⟨a, h, hk⟩

theorem Tr_bind {α β : Type} {x : SatM p α} {f : α → SatM p β} {Q : α → Prop} {R : β → Prop}
    (hx : Tr x Q) (hf : ∀ a, Q a → Tr (f a) R) : Tr (x >>= f) R := by
  intro k hk
  obtain ⟨a, ha, h1⟩ := hx _ hk
  exact hf a ha k h1

theorem Tr_weaken {α : Type} {x : SatM p α} {Q Q' : α → Prop} (hx : Tr x Q) (h : ∀ a, Q a → Q' a) :
    Tr x Q' := by
  intro k hk
  obtain ⟨a, ha, h1⟩ := hx k hk
  exact ⟨a, h a ha, h1⟩

theorem Tr_xor (a b : ZMod p) : Tr (xor_ (m := SatM p) a b) (fun _ => isBool a ∧ isBool b) := by
  intro k hk
  rw [Sat.xor_iff] at hk
  exact ⟨_, ⟨hk.1, hk.2.1⟩, hk.2.2⟩

theorem Tr_and (a b : ZMod p) : Tr (and_ (m := SatM p) a b) (fun _ => True) := by
  intro k hk
  rw [Sat.and_iff] at hk
  exact ⟨_, trivial, hk.2.2⟩

theorem Tr_sub (a b : ZMod p) : Tr (sub (m := SatM p) a b) (fun _ => True) := by
  intro k hk
  rw [Sat.sub_iff] at hk
  exact ⟨_, trivial, hk⟩

/-- an index-dependent invariant along `foldlM'` -/
theorem Tr_foldlM' {ι β : Type} (f : β → ι → SatM p β) (l : List ι) (Inv : ℕ → β → Prop)
    (h : ∀ n i b, l[n]? = some i → Inv n b → Tr (f b i) (Inv (n + 1))) (b : β) (hb : Inv 0 b) :
    Tr (foldlM' f b l) (Inv l.length) := by
  induction l generalizing Inv b with
  | nil => exact Tr_pure b _ hb
  | cons i l ih =>
    simp only [foldlM']
    apply Tr_bind (h 0 i b (by simp) hb)
    intro b' hb'
    have := ih (fun n => Inv (n + 1)) (fun n j b hj hI => h (n + 1) j b (by simpa using hj) hI) b' hb'
    simpa using this

/-- `mapM'` over index data -/
theorem Tr_mapM' {ι β : Type} (f : ι → SatM p β) (Q : ι → β → Prop) (d : β) (l : List ι)
    (h : ∀ i ∈ l, Tr (f i) (Q i)) :
    Tr (mapM' f l) (fun r => r.length = l.length ∧ ∀ n (hn : n < l.length), Q l[n] (r.getD n d)) := by
  induction l with
  | nil => exact Tr_pure _ _ ⟨rfl, fun n hn => absurd hn (by simp)⟩
  | cons i l ih =>
    simp only [mapM']
    apply Tr_bind (h i List.mem_cons_self)
    intro c hc
    apply Tr_bind (ih (fun j hj => h j (List.mem_cons_of_mem _ hj)))
    intro cs hcs
    apply Tr_pure
    refine ⟨by simp [hcs.1], ?_⟩
    intro n hn
    cases n with
    | zero => simpa using hc
    | succ n => simpa using hcs.2 n (by simpa using hn)

/-! ## lanes -/

/-- every slot of the lane holds a boolean field element -/
def BoolLane (l : Lane (ZMod p)) : Prop := ∀ e ∈ l, isBool (KV.toV (m := SatM p) e)

/-- every slot of the lane is a circuit variable (not a Go literal) -/
def VarLane (l : Lane (ZMod p)) : Prop := ∀ e ∈ l, ∃ v, e = KV.var v

/-- the slots that meet in a lane-wise binary operation are boolean -/
def ZipBool (a b : Lane (ZMod p)) : Prop :=
  ∀ pr ∈ a.zip b, isBool (KV.toV (m := SatM p) pr.1) ∧ isBool (KV.toV (m := SatM p) pr.2)

theorem boolLane_of_zip_left {a b : Lane (ZMod p)} (h : ZipBool a b) (hl : a.length ≤ b.length) :
    BoolLane a := by
  intro e he
  rw [← List.map_fst_zip (l₁ := a) (l₂ := b) hl] at he
  obtain ⟨pr, hpr, rfl⟩ := List.mem_map.mp he
  exact (h pr hpr).1

theorem boolLane_of_zip_right {a b : Lane (ZMod p)} (h : ZipBool a b) (hl : b.length ≤ a.length) :
    BoolLane b := by
  intro e he
  rw [← List.map_snd_zip (l₁ := a) (l₂ := b) hl] at he
  obtain ⟨pr, hpr, rfl⟩ := List.mem_map.mp he
  exact (h pr hpr).2

theorem Tr_xorLane : ∀ (a b : Lane (ZMod p)),
    Tr (xorLane (m := SatM p) a b) (fun r => r.length = min a.length b.length ∧ VarLane r ∧ ZipBool a b)
  | [], _ => Tr_pure _ _ ⟨by simp, by simp [VarLane], by simp [ZipBool]⟩
  | _ :: _, [] => Tr_pure _ _ ⟨by simp, by simp [VarLane], by simp [ZipBool]⟩
  | x :: as, y :: bs => by
    unfold xorLane
    simp only [zipWithM']
    apply Tr_bind (Tr_bind (Tr_xor _ _) (fun r hr => Tr_pure (KV.var r) (fun c => (∃ v, c = KV.var v) ∧
      isBool (KV.toV (m := SatM p) x) ∧ isBool (KV.toV (m := SatM p) y)) ⟨⟨r, rfl⟩, hr⟩))
    intro c hc
    apply Tr_bind (Tr_xorLane as bs)
    intro cs hcs
    apply Tr_pure
    refine ⟨by simp [hcs.1, Nat.succ_min_succ], ?_, ?_⟩
    · intro e he
      rcases List.mem_cons.mp he with rfl | he
      · exact hc.1
      · exact hcs.2.1 e he
    · intro pr hpr
      rw [List.zip_cons_cons] at hpr
      rcases List.mem_cons.mp hpr with rfl | hpr
      · exact hc.2
      · exact hcs.2.2 pr hpr

theorem Tr_andLane : ∀ (a b : Lane (ZMod p)),
    Tr (andLane (m := SatM p) a b) (fun r => r.length = min a.length b.length ∧ VarLane r)
  | [], _ => Tr_pure _ _ ⟨by simp, by simp [VarLane]⟩
  | _ :: _, [] => Tr_pure _ _ ⟨by simp, by simp [VarLane]⟩
  | x :: as, y :: bs => by
    unfold andLane
    simp only [zipWithM']
    apply Tr_bind (Tr_bind (Tr_and _ _) (fun r _ => Tr_pure (KV.var r) (fun c => ∃ v, c = KV.var v) ⟨r, rfl⟩))
    intro c hc
    apply Tr_bind (Tr_andLane as bs)
    intro cs hcs
    apply Tr_pure
    refine ⟨by simp [hcs.1, Nat.succ_min_succ], ?_⟩
    intro e he
    rcases List.mem_cons.mp he with rfl | he
    · exact hc
    · exact hcs.2 e he

theorem Tr_notLane : ∀ (a : Lane (ZMod p)),
    Tr (notLane (m := SatM p) a) (fun r => r.length = a.length ∧ VarLane r)
  | [] => Tr_pure _ _ ⟨rfl, by simp [VarLane]⟩
  | x :: as => by
    unfold notLane
    simp only [mapM']
    apply Tr_bind (Tr_bind (Tr_sub _ _) (fun r _ => Tr_pure (KV.var r) (fun c => ∃ v, c = KV.var v) ⟨r, rfl⟩))
    intro c hc
    apply Tr_bind (Tr_notLane as)
    intro cs hcs
    apply Tr_pure
    refine ⟨by simp [hcs.1], ?_⟩
    intro e he
    rcases List.mem_cons.mp he with rfl | he
    · exact hc
    · exact hcs.2 e he

theorem Tr_xor5Round (a b c d e : KV (ZMod p)) :
    Tr (xor5Round (m := SatM p) a b c d e) (fun r => (∃ v, r = KV.var v) ∧
      isBool (KV.toV (m := SatM p) a) ∧ isBool (KV.toV (m := SatM p) b) ∧ isBool (KV.toV (m := SatM p) c) ∧
      isBool (KV.toV (m := SatM p) d) ∧ isBool (KV.toV (m := SatM p) e)) := by
  unfold xor5Round
  apply Tr_bind (Tr_xor _ _); intro ab hab
  apply Tr_bind (Tr_xor _ _); intro abc habc
  apply Tr_bind (Tr_xor _ _); intro abcd habcd
  apply Tr_bind (Tr_xor _ _); intro r hr
  exact Tr_pure _ _ ⟨⟨r, rfl⟩, hab.1, hab.2, habc.1, habcd.1, hr.1⟩

theorem Tr_xor5 : ∀ (a b c d e : Lane (ZMod p)), a.length = b.length → a.length = c.length →
    a.length = d.length → a.length = e.length →
    Tr (xor5 (m := SatM p) a b c d e) (fun r => r.length = a.length ∧ VarLane r ∧
      BoolLane a ∧ BoolLane b ∧ BoolLane c ∧ BoolLane d ∧ BoolLane e)
  | [], [], [], [], [], _, _, _, _ => Tr_pure _ _ ⟨rfl, by simp [VarLane], by simp [BoolLane],
      by simp [BoolLane], by simp [BoolLane], by simp [BoolLane], by simp [BoolLane]⟩
  | a :: as, b :: bs, c :: cs, d :: ds, e :: es, hb, hc, hd, he => by
    simp only [xor5]
    apply Tr_bind (Tr_xor5Round a b c d e)
    intro r hr
    apply Tr_bind (Tr_xor5 as bs cs ds es (by simpa using hb) (by simpa using hc) (by simpa using hd)
      (by simpa using he))
    intro rs hrs
    apply Tr_pure
    obtain ⟨hl, hv, h1, h2, h3, h4, h5⟩ := hrs
    obtain ⟨gv, g1, g2, g3, g4, g5⟩ := hr
    refine ⟨by simp [hl], ?_, ?_, ?_, ?_, ?_, ?_⟩ <;>
    · intro x hx
      rcases List.mem_cons.mp hx with rfl | hx
      · assumption
      · first | exact hv x hx | exact h1 x hx | exact h2 x hx | exact h3 x hx | exact h4 x hx | exact h5 x hx
  | [], _ :: _, _, _, _, h, _, _, _ => by simp at h
  | [], [], _ :: _, _, _, _, h, _, _ => by simp at h
  | [], [], [], _ :: _, _, _, _, h, _ => by simp at h
  | [], [], [], [], _ :: _, _, _, _, h => by simp at h
  | _ :: _, [], _, _, _, h, _, _, _ => by simp at h
  | _ :: _, _ :: _, [], _, _, _, h, _, _ => by simp at h
  | _ :: _, _ :: _, _ :: _, [], _, _, _, h, _ => by simp at h
  | _ :: _, _ :: _, _ :: _, _ :: _, [], _, _, _, h => by simp at h

/-! ## tabulated states over any variable type -/

theorem get_tab' {V : Type} (f : ℕ → ℕ → Lane V) (x y : ℕ) (hx : x < 5) (hy : y < 5) :
    St.get (tab f) x y = f x y := by
  unfold St.get tab
  rw [getD_map_range _ _ _ _ hx, getD_map_range _ _ _ _ hy]

/-- overwrite entry `(x, y)` of a table -/
def upd {α : Type} (f : ℕ → ℕ → α) (x y : ℕ) (a : α) : ℕ → ℕ → α :=
  fun x' y' => if x' = x ∧ y' = y then a else f x' y'

theorem set_tab' {V : Type} (f : ℕ → ℕ → Lane V) (x y : ℕ) (hx : x < 5) (hy : y < 5) (l : Lane V) :
    St.set (tab f) x y l = tab (upd f x y l) := by
  have hx' : x = 0 ∨ x = 1 ∨ x = 2 ∨ x = 3 ∨ x = 4 := by omega
  have hy' : y = 0 ∨ y = 1 ∨ y = 2 ∨ y = 3 ∨ y = 4 := by omega
  rcases hx' with rfl | rfl | rfl | rfl | rfl <;> rcases hy' with rfl | rfl | rfl | rfl | rfl <;>
    simp [St.set, tab, range5, upd]

/-- the 25 index pairs in the order of `for x { for y { … } }` -/
def pairs25 : List (ℕ × ℕ) := (List.range 25).map fun n => (n / 5, n % 5)

theorem forPairs_flat (f : St (ZMod p) → ℕ → ℕ → SatM p (St (ZMod p))) (S : St (ZMod p)) :
    forPairs f S = foldlM' (fun S (xy : ℕ × ℕ) => f S xy.1 xy.2) S pairs25 := rfl

/-- **`for x { for y { S[x][y] = step(x, y, S[x][y]) } }`** in the postcondition logic -/
theorem Tr_forPairs (step : ℕ → ℕ → Lane (ZMod p) → SatM p (Lane (ZMod p)))
    (Q : ℕ → ℕ → Lane (ZMod p) → Lane (ZMod p) → Prop)
    (h : ∀ x y l, x < 5 → y < 5 → Tr (step x y l) (Q x y l)) (g : ℕ → ℕ → Lane (ZMod p)) :
    Tr (forPairs (fun S x y => do let l ← step x y (S.get x y); pure (S.set x y l)) (tab g))
      (fun S' => ∃ g', S' = tab g' ∧ ∀ x y, x < 5 → y < 5 → Q x y (g x y) (g' x y)) := by
  rw [forPairs_flat]
  have key := Tr_foldlM' (p := p)
    (fun S (xy : ℕ × ℕ) => do let l ← step xy.1 xy.2 (St.get S xy.1 xy.2); pure (St.set S xy.1 xy.2 l))
    pairs25
    (fun n S => ∃ g', S = tab g' ∧ (∀ x y, x < 5 → y < 5 → 5 * x + y < n → Q x y (g x y) (g' x y)) ∧
      (∀ x y, x < 5 → y < 5 → n ≤ 5 * x + y → g' x y = g x y))
    (by
      intro n xy S hn hS
      have hn' : n < 25 ∧ (n / 5, n % 5) = xy := by
        unfold pairs25 at hn
        rw [List.getElem?_map] at hn
        by_cases c : n < 25
        · rw [List.getElem?_range c] at hn
          exact ⟨c, by simpa using hn⟩
        · rw [List.getElem?_eq_none (by simpa using c)] at hn
          simp at hn
      obtain ⟨hn', rfl⟩ := hn'
      obtain ⟨g', rfl, h1, h2⟩ := hS
      dsimp only
      have hx : n / 5 < 5 := by omega
      have hy : n % 5 < 5 := Nat.mod_lt _ (by decide)
      rw [get_tab' _ _ _ hx hy, h2 _ _ hx hy (by omega)]
      apply Tr_bind (h _ _ _ hx hy)
      intro l hl
      apply Tr_pure
      refine ⟨upd g' (n / 5) (n % 5) l, set_tab' _ _ _ hx hy l, ?_, ?_⟩
      · intro x y hx' hy' hlt
        unfold upd
        by_cases c : x = n / 5 ∧ y = n % 5
        · rw [if_pos c]; obtain ⟨rfl, rfl⟩ := c; exact hl
        · rw [if_neg c]; exact h1 x y hx' hy' (by omega)
      · intro x y hx' hy' hle
        unfold upd
        rw [if_neg (by omega)]
        exact h2 x y hx' hy' (by omega))
    (tab g) ⟨g, rfl, fun _ _ _ _ hlt => absurd hlt (by omega), fun _ _ _ _ _ => rfl⟩
  apply Tr_weaken key
  intro S' hS'
  obtain ⟨g', rfl, h1, _⟩ := hS'
  refine ⟨g', rfl, fun x y hx hy => h1 x y hx hy ?_⟩
  simp only [pairs25, List.length_map, List.length_range]
  omega

/-! ## one round -/

/-- every lane of the 5×5 table has 64 slots -/
def L64 (f : ℕ → ℕ → Lane (ZMod p)) : Prop := ∀ x y, x < 5 → y < 5 → (f x y).length = 64
/-- every lane of the 5×5 table consists of circuit variables -/
def LVar (f : ℕ → ℕ → Lane (ZMod p)) : Prop := ∀ x y, x < 5 → y < 5 → VarLane (f x y)

theorem length_rotLane' {V : Type} (a : Lane V) (r : ℕ) : (rotLane a r).length = a.length := by
  simp [rotLane]

theorem varLane_rotLane {a : Lane (ZMod p)} (h : VarLane a) (r : ℕ) : VarLane (rotLane a r) := by
  intro e he
  unfold rotLane at he
  obtain ⟨i, hi, rfl⟩ := List.mem_map.mp he
  have hi' := List.mem_range.mp hi
  rw [List.getD_eq_getElem _ _ (Nat.mod_lt _ (by omega))]
  exact h _ (List.getElem_mem _)

def rhoPiLV {V : Type} (f : ℕ → ℕ → Lane V) (x y : ℕ) : Lane V :=
  rotLane (f ((x + 3*y) % 5) x) ((rotOffsets.getD ((x + 3*y) % 5) []).getD x 0)

theorem rhoPiB_tab {V : Type} (g : ℕ → ℕ → Lane V) : rhoPiB (tab g) = tab (rhoPiLV g) := by
  simp [tab, range5, St.set, St.get, rhoPiLV, rhoPiB, rotOffsets]

theorem Tr_keccakRound (f : ℕ → ℕ → Lane (ZMod p)) (hf : L64 f) (rc : Lane (ZMod p)) (hrc : rc.length = 64) :
    Tr (keccakRound (m := SatM p) (tab f) rc) (fun A' => (∃ f', A' = tab f' ∧ L64 f' ∧ LVar f') ∧
      ∀ x y, x < 5 → y < 5 → BoolLane (f x y)) := by
  unfold keccakRound
  -- C
  apply Tr_bind (Tr_mapM' _ (fun x r => r.length = 64 ∧ ∀ y, y < 5 → BoolLane (f x y)) [] (List.range 5) ?_)
  swap
  · intro x hx
    have hx := List.mem_range.mp hx
    simp only [get_tab' f x _ hx (by decide : 0 < 5), get_tab' f x _ hx (by decide : 1 < 5),
      get_tab' f x _ hx (by decide : 2 < 5), get_tab' f x _ hx (by decide : 3 < 5),
      get_tab' f x _ hx (by decide : 4 < 5)]
    have h0 := hf x 0 hx (by decide); have h1 := hf x 1 hx (by decide); have h2 := hf x 2 hx (by decide)
    have h3 := hf x 3 hx (by decide); have h4 := hf x 4 hx (by decide)
    apply Tr_weaken (Tr_xor5 _ _ _ _ _ (by omega) (by omega) (by omega) (by omega))
    intro r hr
    obtain ⟨hl, _, b0, b1, b2, b3, b4⟩ := hr
    refine ⟨by omega, ?_⟩
    intro y hy
    have hy' : y = 0 ∨ y = 1 ∨ y = 2 ∨ y = 3 ∨ y = 4 := by omega
    rcases hy' with rfl | rfl | rfl | rfl | rfl <;> assumption
  intro C hC
  have hC' : ∀ x, x < 5 → (C.getD x []).length = 64 ∧ ∀ y, y < 5 → BoolLane (f x y) := by
    intro x hx
    have := hC.2 x (by simpa using hx)
    simpa using this
  -- D
  apply Tr_bind (Tr_mapM' _ (fun _ r => r.length = 64) [] (List.range 5) ?_)
  swap
  · intro x _
    apply Tr_weaken (Tr_xorLane _ _)
    intro r hr
    rw [hr.1, length_rotLane', (hC' _ (Nat.mod_lt _ (by decide))).1, (hC' _ (Nat.mod_lt _ (by decide))).1]
    rfl
  intro D hD
  have hD' : ∀ x, x < 5 → (D.getD x []).length = 64 := by
    intro x hx
    have := hD.2 x (by simpa using hx)
    simpa using this
  -- θ
  apply Tr_bind (Tr_forPairs (fun x _ l => xorLane (m := SatM p) l (D.getD x []))
    (fun _ _ l l' => l'.length = min l.length 64 ∧ VarLane l') ?_ f)
  swap
  · intro x y l hx _
    apply Tr_weaken (Tr_xorLane _ _)
    intro r hr
    exact ⟨by rw [hr.1, hD' x hx], hr.2.1⟩
  intro A1 hA1
  obtain ⟨g1, rfl, hg1⟩ := hA1
  have hg1L : ∀ x y, x < 5 → y < 5 → (g1 x y).length = 64 := by
    intro x y hx hy
    rw [(hg1 x y hx hy).1, hf x y hx hy]
    rfl
  -- ρ, π
  have hB := rhoPiB_tab g1
  unfold rhoPiB at hB
  dsimp only at hB ⊢
  rw [hB]
  have hBL : ∀ x y, x < 5 → y < 5 → (rhoPiLV g1 x y).length = 64 ∧ VarLane (rhoPiLV g1 x y) := by
    intro x y hx hy
    unfold rhoPiLV
    exact ⟨by rw [length_rotLane', hg1L _ _ (Nat.mod_lt _ (by decide)) hx],
      varLane_rotLane (hg1 _ _ (Nat.mod_lt _ (by decide)) hx).2 _⟩
  -- χ
  apply Tr_bind (Tr_forPairs (fun x y _ => do
      let left ← notLane (m := SatM p) (St.get (tab (rhoPiLV g1)) ((x+1)%5) y)
      let tmp ← andLane (m := SatM p) left (St.get (tab (rhoPiLV g1)) ((x+2)%5) y)
      xorLane (m := SatM p) (St.get (tab (rhoPiLV g1)) x y) tmp)
    (fun _ _ _ l' => l'.length = 64 ∧ VarLane l') ?_ g1)
  swap
  · intro x y _ hx hy
    rw [get_tab' _ _ _ (Nat.mod_lt _ (by decide)) hy, get_tab' _ _ _ (Nat.mod_lt _ (by decide)) hy,
      get_tab' _ _ _ hx hy]
    apply Tr_bind (Tr_notLane _); intro left hleft
    apply Tr_bind (Tr_andLane _ _); intro tmp htmp
    apply Tr_weaken (Tr_xorLane _ _)
    intro r hr
    refine ⟨?_, hr.2.1⟩
    rw [hr.1, htmp.1, hleft.1, (hBL _ _ hx hy).1, (hBL _ _ (Nat.mod_lt _ (by decide)) hy).1,
      (hBL _ _ (Nat.mod_lt _ (by decide)) hy).1]
    rfl
  intro A2 hA2
  obtain ⟨g2, rfl, hg2⟩ := hA2
  -- ι
  rw [get_tab' _ _ _ (by decide) (by decide)]
  apply Tr_bind (Tr_xorLane _ _)
  intro l hl
  apply Tr_pure
  refine ⟨⟨upd g2 0 0 l, set_tab' _ _ _ (by decide) (by decide) l, ?_, ?_⟩, ?_⟩
  · intro x y hx hy
    unfold upd
    split
    · rw [hl.1, (hg2 0 0 (by decide) (by decide)).1, hrc]; rfl
    · exact (hg2 x y hx hy).1
  · intro x y hx hy
    unfold upd
    split
    · exact hl.2.1
    · exact (hg2 x y hx hy).2
  · intro x y hx hy
    exact (hC' x hx).2 y hy

/-! ## the permutation -/

theorem length_rcBits' (c : ℕ) : (rcBits c : Lane (ZMod p)).length = 64 := by simp [rcBits]

theorem Tr_keccakF (f : ℕ → ℕ → Lane (ZMod p)) (hf : L64 f) :
    Tr (keccakF (m := SatM p) (tab f)) (fun A' => (∃ f', A' = tab f' ∧ L64 f' ∧ LVar f') ∧
      ∀ x y, x < 5 → y < 5 → BoolLane (f x y)) := by
  unfold keccakF
  have key := Tr_foldlM' (p := p) (fun A c => keccakRound (m := SatM p) A (rcBits c)) rcTable
    (fun n S => (n = 0 ∧ S = tab f) ∨ (n ≠ 0 ∧
      ((∃ f', S = tab f' ∧ L64 f' ∧ LVar f') ∧ ∀ x y, x < 5 → y < 5 → BoolLane (f x y))))
    (by
      intro n c S _ hS
      rcases hS with ⟨_, rfl⟩ | ⟨_, ⟨f', rfl, hf', _⟩, hb⟩
      · apply Tr_weaken (Tr_keccakRound f hf _ (length_rcBits' c))
        intro A' hA'
        exact Or.inr ⟨by omega, hA'⟩
      · apply Tr_weaken (Tr_keccakRound f' hf' _ (length_rcBits' c))
        intro A' hA'
        exact Or.inr ⟨by omega, hA'.1, hb⟩)
    (tab f) (Or.inl ⟨rfl, rfl⟩)
  apply Tr_weaken key
  intro A' hA'
  have h24 : rcTable.length = 24 := rfl
  rw [h24] at hA'
  rcases hA' with ⟨h0, _⟩ | ⟨_, h⟩
  · exact absurd h0 (by decide)
  · exact h

/-! ## absorbing -/

theorem length_block_lane' (P : List (KV (ZMod p))) (blk k : ℕ) (hP : (blk + 1) * 1088 ≤ P.length) (hk : k < 17) :
    ((P.drop (blk*blockSize + k*laneSize)).take laneSize).length = 64 := by
  simp only [List.length_take, List.length_drop, blockSize, laneSize]
  omega

theorem boolLane_of_allZeroes (l : Lane (ZMod p)) (h : allZeroes l = true) : BoolLane l := by
  intro e he
  unfold allZeroes at h
  rw [List.all_eq_true] at h
  have h1 := h e he
  cases e with
  | lit b =>
    cases b
    · simp [KV.toV, isBool]
    · simp [KV.isLitZero] at h1
  | var v => simp [KV.isLitZero] at h1

/-- absorbing into one lane -/
def absorbStep (P : List (KV (ZMod p))) (blk x y : ℕ) (l : Lane (ZMod p)) : SatM p (Lane (ZMod p)) :=
  if x + 5*y < blockSize / laneSize then
    if allZeroes l then pure ((P.drop (blk*blockSize + (x+5*y)*laneSize)).take laneSize)
    else if allZeroes ((P.drop (blk*blockSize + (x+5*y)*laneSize)).take laneSize) then pure l
    else xorLane (m := SatM p) l ((P.drop (blk*blockSize + (x+5*y)*laneSize)).take laneSize)
  else pure l

theorem Tr_absorbBlock (P : List (KV (ZMod p))) (blk : ℕ) (hP : (blk + 1) * 1088 ≤ P.length)
    (f : ℕ → ℕ → Lane (ZMod p)) (hf : L64 f) :
    Tr (absorbBlock (m := SatM p) P blk (tab f)) (fun S' => ∃ f', S' = tab f' ∧ L64 f' ∧
      ∀ x y, x < 5 → y < 5 → x + 5 * y < 17 →
        (f' x y = (P.drop (blk*blockSize + (x+5*y)*laneSize)).take laneSize ∨
          BoolLane ((P.drop (blk*blockSize + (x+5*y)*laneSize)).take laneSize))) := by
  unfold absorbBlock
  have h : (fun (S : St (ZMod p)) (x y : ℕ) => (do
      if x + 5*y < blockSize / laneSize then
        let Pi := (P.drop (blk*blockSize + (x+5*y)*laneSize)).take laneSize
        if allZeroes (S.get x y) then pure (S.set x y Pi)
        else if allZeroes Pi then pure S
        else do let l ← xorLane (m := SatM p) (S.get x y) Pi; pure (S.set x y l)
      else pure S : SatM p (St (ZMod p))))
      = fun S x y => (absorbStep P blk x y (S.get x y) >>= fun l => pure (S.set x y l)) := by
    funext S x y
    unfold absorbStep
    dsimp only
    split
    · split
      · rfl
      · split
        · show pure S = pure (St.set S x y (St.get S x y))
          rw [St_set_get_self]
        · rfl
    · show pure S = pure (St.set S x y (St.get S x y))
      rw [St_set_get_self]
  rw [h]
  apply Tr_weaken (Tr_forPairs (absorbStep P blk) (fun x y l l' => l.length = 64 → (l'.length = 64 ∧ (x + 5 * y < 17 →
      (l' = (P.drop (blk*blockSize + (x+5*y)*laneSize)).take laneSize ∨
        BoolLane ((P.drop (blk*blockSize + (x+5*y)*laneSize)).take laneSize))))) ?_ f)
  · intro S' hS'
    obtain ⟨f', rfl, hf'⟩ := hS'
    exact ⟨f', rfl, fun x y hx hy => (hf' x y hx hy (hf x y hx hy)).1,
      fun x y hx hy hk => (hf' x y hx hy (hf x y hx hy)).2 hk⟩
  · intro x y l _ _
    unfold absorbStep
    split
    · rename_i hk
      have hk' : x + 5 * y < 17 := hk
      have hlen := length_block_lane' P blk _ hP hk'
      split
      · exact Tr_pure _ _ (fun _ => ⟨hlen, fun _ => Or.inl rfl⟩)
      · split
        · rename_i h0
          exact Tr_pure _ _ (fun hl => ⟨hl, fun _ => Or.inr (boolLane_of_allZeroes _ h0)⟩)
        · apply Tr_weaken (Tr_xorLane _ _)
          intro r hr hl
          refine ⟨by rw [hr.1, hl, hlen]; rfl, fun _ => Or.inr (boolLane_of_zip_right hr.2.2 (by rw [hl, hlen]))⟩
    · rename_i hk
      have hk' : ¬ x + 5 * y < 17 := hk
      exact Tr_pure _ _ (fun hl => ⟨hl, fun h => absurd h hk'⟩)

/-! ## the gadget -/

theorem length_paddedMsg' (dom : ℕ) (data : List (ZMod p)) :
    (paddedMsg dom data).length = paddedSize data.length := by
  unfold paddedMsg
  simp only [List.length_append, List.length_map, List.length_range, List.length_replicate]
  have := paddedSize_ge data.length
  omega

theorem paddedMsg_getD_input (dom : ℕ) (data : List (ZMod p)) (i : ℕ) (hi : i < data.length) :
    (paddedMsg dom data).getD i (KV.lit false) = KV.var data[i] := by
  unfold paddedMsg
  dsimp only
  rw [List.getD_append _ _ _ _ (by simp; omega), List.getD_append _ _ _ _ (by simpa using hi),
    List.getD_eq_getElem _ _ (by simpa using hi), List.getElem_map]

theorem mem_block_lane (P : List (KV (ZMod p))) (a z : ℕ) (hz : z < 64) (h : a + z < P.length) :
    P.getD (a + z) (KV.lit false) ∈ (P.drop a).take 64 := by
  rw [List.getD_eq_getElem _ _ h]
  refine List.mem_iff_getElem.mpr ⟨z, by simp only [List.length_take, List.length_drop]; omega, ?_⟩
  rw [List.getElem_take, List.getElem_drop]

theorem zeroState_tab' : (zeroState : St (ZMod p)) = tab (fun _ _ => List.replicate 64 (KV.lit false)) := rfl

/-- **Every input of the Keccak gadget is constrained to be boolean.** -/
theorem Tr_keccakBody (dom : ℕ) (data : List (ZMod p)) :
    Tr (keccakBody (m := SatM p) dom data) (fun _ => ∀ v ∈ data, isBool v) := by
  unfold keccakBody
  apply Tr_bind (Tr_xor _ _)
  intro lastV _
  dsimp only
  generalize hPdef : (paddedMsg dom data).set (paddedSize data.length - 1) (KV.var lastV) = P
  have hge := paddedSize_ge data.length
  have hmod := paddedSize_mod data.length
  have hPlen : P.length = paddedSize data.length := by rw [← hPdef, List.length_set, length_paddedMsg']
  have hnb : paddedSize data.length / blockSize * 1088 = paddedSize data.length := by
    unfold blockSize; omega
  have key := Tr_foldlM' (p := p)
    (fun S blk => do let S ← absorbBlock (m := SatM p) P blk S; keccakF (m := SatM p) S)
    (List.range (paddedSize data.length / blockSize))
    (fun n S => (∃ f, S = tab f ∧ L64 f) ∧
      ∀ j, j < n * 1088 → isBool (KV.toV (m := SatM p) (P.getD j (KV.lit false))))
    (by
      intro n blk S hget hS
      have hn : n < paddedSize data.length / blockSize ∧ n = blk := by
        by_cases c : n < paddedSize data.length / blockSize
        · rw [List.getElem?_range c] at hget
          exact ⟨c, by simpa using hget⟩
        · rw [List.getElem?_eq_none (by simpa using c)] at hget
          simp at hget
      obtain ⟨hn, rfl⟩ := hn
      obtain ⟨⟨f, rfl, hf⟩, hprev⟩ := hS
      have hP : (n + 1) * 1088 ≤ P.length := by
        rw [hPlen, ← hnb]
        exact Nat.mul_le_mul_right _ hn
      apply Tr_bind (Tr_absorbBlock P n hP f hf)
      intro S1 hS1
      obtain ⟨f1, rfl, hf1, hcase⟩ := hS1
      apply Tr_weaken (Tr_keccakF f1 hf1)
      intro S2 hS2
      obtain ⟨⟨f2, rfl, hf2, _⟩, hbool⟩ := hS2
      refine ⟨⟨f2, rfl, hf2⟩, ?_⟩
      intro j hj
      by_cases c : j < n * 1088
      · exact hprev j c
      · have hx : (j - n * 1088) / 64 % 5 < 5 := Nat.mod_lt _ (by decide)
        have hy : (j - n * 1088) / 64 / 5 < 5 := by omega
        have hk : (j - n * 1088) / 64 % 5 + 5 * ((j - n * 1088) / 64 / 5) < 17 := by omega
        have hlane : BoolLane ((P.drop (n*blockSize + ((j - n * 1088) / 64 % 5 + 5 * ((j - n * 1088) / 64 / 5))*laneSize)).take laneSize) := by
          rcases hcase _ _ hx hy hk with h | h
          · rw [← h]; exact hbool _ _ hx hy
          · exact h
        have hj' : j = (n*blockSize + ((j - n * 1088) / 64 % 5 + 5 * ((j - n * 1088) / 64 / 5))*laneSize)
            + (j - n * 1088) % 64 := by
          unfold blockSize laneSize; omega
        have hmem := mem_block_lane P _ ((j - n * 1088) % 64) (Nat.mod_lt _ (by decide))
          (by rw [← hj']; omega)
        rw [← hj'] at hmem
        exact hlane _ hmem)
    zeroState ⟨⟨_, zeroState_tab', fun _ _ _ _ => by simp⟩, fun j hj => absurd hj (by omega)⟩
  apply Tr_bind key
  intro S hS
  apply Tr_pure
  intro v hv
  obtain ⟨i, hi, rfl⟩ := List.mem_iff_getElem.mp hv
  have h1 := hS.2 i (by rw [List.length_range, hnb]; omega)
  rw [← hPdef, List.getD_eq_getElem?_getD, List.getElem?_set_ne (by omega), ← List.getD_eq_getElem?_getD,
    paddedMsg_getD_input dom data i hi] at h1
  exact h1

theorem keccakGadget_inputs_bool (dom : ℕ) (data : List (ZMod p)) (k : List (ZMod p) → Prop)
    (h : (keccakGadget (m := SatM p) dom data) k) : ∀ v ∈ data, isBool v := by
  unfold keccakGadget at h
  rw [Sat.opaqueN_iff] at h
  obtain ⟨_, ha, _⟩ := Tr_keccakBody dom data k h
  exact ha

end Smtb.Proofs.Keccak
