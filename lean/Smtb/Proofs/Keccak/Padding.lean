import Smtb.Proofs.Keccak.Sponge
/-!
# The padding of the gadget is `pad10*1` after the domain suffix, for byte-aligned messages
-/
namespace Smtb.Proofs.Keccak
open Smtb CircuitApi Smtb.Circuit.Keccak Smtb.KeccakSpec Smtb.KeccakRef

theorem paddedSize_ge (n : ℕ) : n + 8 ≤ paddedSize n := by
  unfold paddedSize blockSize
  split <;> omega

theorem paddedSize_lt (n : ℕ) : paddedSize n < n + 8 + 1088 := by
  unfold paddedSize blockSize
  split <;> omega

theorem paddedSize_mod (n : ℕ) : paddedSize n % 1088 = 0 := by
  unfold paddedSize blockSize
  split <;> omega

theorem map_val_paddedMsg (dom : ℕ) (data : List Bool) :
    (paddedMsg dom data).map val = data ++ (List.range 8).map (fun i => dom.testBit i)
      ++ List.replicate (paddedSize data.length - (data.length + 8)) false := by
  unfold paddedMsg
  simp only [List.map_append, List.map_map, List.length_append, List.length_map, List.length_range,
    List.map_replicate, val_lit]
  congr 2
  · rw [show val ∘ KV.var = id from rfl, List.map_id]
  · apply List.map_congr_left
    intro i _
    simp only [Function.comp, val_lit]

theorem length_paddedMsg (dom : ℕ) (data : List Bool) :
    (paddedMsg dom data).length = paddedSize data.length := by
  have h := congrArg List.length (map_val_paddedMsg dom data)
  have h2 := paddedSize_ge data.length
  simp only [List.length_map, List.length_append, List.length_range, List.length_replicate] at h
  omega

theorem length_specP (dom : ℕ) (data : List Bool) :
    (specP dom data).length = paddedSize data.length := by
  unfold specP
  rw [List.length_set, length_paddedMsg]

theorem map_val_specP (dom : ℕ) (data : List Bool) :
    (specP dom data).map val = ((paddedMsg dom data).map val).set (paddedSize data.length - 1)
      (!((paddedMsg dom data).map val).getD (paddedSize data.length - 1) false) := by
  unfold specP
  rw [List.map_set, val_var, Bool.xor_true]
  congr 2
  exact (List.getD_map (f := val) (d := KV.lit false) ..).symm

/-- flipping the last bit of a string that ends in `m + 1` zeros -/
theorem set_last_replicate (l : List Bool) (m : ℕ) :
    (l ++ List.replicate (m + 1) false).set (l.length + m)
      (!(l ++ List.replicate (m + 1) false).getD (l.length + m) false)
      = l ++ List.replicate m false ++ [true] := by
  rw [List.getD_append_right _ _ _ _ (by omega), Nat.add_sub_cancel_left,
    List.getD_replicate _ (by omega : m < m + 1), Bool.not_false, List.replicate_succ',
    ← List.append_assoc]
  have h : l.length + m = (l ++ List.replicate m false).length := by simp
  rw [h, List.set_append_right _ _ (Nat.le_refl _), Nat.sub_self]
  rfl

theorem domBits_keccak : (List.range 8).map (fun i => (0x01).testBit i)
    = [true] ++ List.replicate 7 false := by decide

theorem domBits_sha3 : (List.range 8).map (fun i => (0x06).testBit i)
    = [false, true] ++ [true] ++ List.replicate 5 false := by decide

/-- **Padding, Keccak-256**: domain byte `0x01`, zero fill and the final `⊕ 0x80` are `pad10*1`. -/
theorem specP_keccak (data : List Bool) (h : 8 ∣ data.length) :
    (specP 0x01 data).map val = data ++ pad10star1 rate data.length := by
  rw [map_val_specP, map_val_paddedMsg, domBits_keccak]
  have hge := paddedSize_ge data.length
  have hmod := paddedSize_mod data.length
  have hlt := paddedSize_lt data.length
  obtain ⟨q, hq⟩ := h
  generalize hk : paddedSize data.length - (data.length + 8) = k
  have e1 : data ++ ([true] ++ List.replicate 7 false) ++ List.replicate k false
      = (data ++ [true]) ++ List.replicate ((6 + k) + 1) false := by
    rw [show 6 + k + 1 = 7 + k by omega, ← List.replicate_append_replicate]
    simp only [List.append_assoc]
  have e2 : paddedSize data.length - 1 = (data ++ [true]).length + (6 + k) := by
    simp only [List.length_append, List.length_singleton]; omega
  rw [e1, e2, set_last_replicate]
  unfold pad10star1 rate
  have e3 : (1088 - (data.length + 2) % 1088) % 1088 = 6 + k := by omega
  rw [e3]
  simp only [List.append_assoc]

/-- **Padding, SHA3-256**: domain byte `0x06` is the suffix `01` followed by `pad10*1`. -/
theorem specP_sha3 (data : List Bool) (h : 8 ∣ data.length) :
    (specP 0x06 data).map val
      = (data ++ [false, true]) ++ pad10star1 rate (data ++ [false, true]).length := by
  rw [map_val_specP, map_val_paddedMsg, domBits_sha3]
  have hge := paddedSize_ge data.length
  have hmod := paddedSize_mod data.length
  have hlt := paddedSize_lt data.length
  obtain ⟨q, hq⟩ := h
  generalize hk : paddedSize data.length - (data.length + 8) = k
  have e1 : data ++ ([false, true] ++ [true] ++ List.replicate 5 false) ++ List.replicate k false
      = (data ++ [false, true] ++ [true]) ++ List.replicate ((4 + k) + 1) false := by
    rw [show 4 + k + 1 = 5 + k by omega, ← List.replicate_append_replicate]
    simp only [List.append_assoc]
  have e2 : paddedSize data.length - 1 = (data ++ [false, true] ++ [true]).length + (4 + k) := by
    simp only [List.length_append, List.length_cons, List.length_nil]; omega
  rw [e1, e2, set_last_replicate]
  unfold pad10star1 rate
  have e3 : (1088 - ((data ++ [false, true]).length + 2) % 1088) % 1088 = 4 + k := by
    simp only [List.length_append, List.length_cons, List.length_nil]; omega
  rw [e3]
  simp only [List.append_assoc]

end Smtb.Proofs.Keccak
