import Smtb.Proofs.Keccak.Padding
/-!
# `gadgetSpecBits` is Keccak-256 (domain `0x01`) and SHA3-256 (domain `0x06`)
-/
namespace Smtb.Proofs.Keccak
open Smtb CircuitApi Smtb.Circuit.Keccak Smtb.KeccakSpec Smtb.KeccakRef

theorem gadgetSpecBits_eq (dom : ℕ) (data : List Bool) :
    gadgetSpecBits dom data = Id.run (keccakBody (m := Id) dom data) := rfl

theorem lanes64_zero : Lanes64 (fun _ _ => List.replicate 64 (KV.lit false)) := fun _ _ => by simp

theorem toStateL_zero :
    toStateL (fun _ _ => List.replicate 64 (KV.lit false)) = Array.replicate 1600 false := by
  apply Array.ext
  · rw [size_toStateL, Array.size_replicate]
  · intro i h1 h2
    rw [getElem_toStateL, Array.getElem_replicate, bit_of_allZeroes]
    simp [allZeroes, KV.isLitZero]

/-- **The gadget program on `Bool` is the sponge**, given that its padded message is `N ‖ pad10*1`. -/
theorem gadgetSpec_eq_sponge (dom : ℕ) (data N : List Bool)
    (hP : (specP dom data).map val = N ++ pad10star1 rate N.length) :
    gadgetSpecBits dom data = sponge N 256 := by
  rw [gadgetSpecBits_eq, keccakBody_run, zeroState_tab]
  have hlen : (specP dom data).length = paddedSize data.length := length_specP dom data
  obtain ⟨g, hg, h1, h2⟩ := absorb_fold (specP dom data) (List.range (paddedSize data.length / blockSize))
    (by
      intro blk hblk
      have := List.mem_range.mp hblk
      rw [hlen]
      unfold blockSize at this
      omega)
    _ lanes64_zero
  rw [h1, squeeze_tab hg, h2, toStateL_zero]
  unfold sponge
  simp only []
  rw [← hP, List.length_map, hlen]
  have e : (256 + rate - 1) / rate - 1 = 0 := by decide
  rw [e]
  unfold squeezeMore truncRate
  rw [List.append_nil, List.take_take]
  rfl

/-- **`gadgetSpecBits 0x01` is Keccak-256** on byte-aligned messages of every length. -/
theorem gadgetSpec_eq_keccak256 (msg : List Bool) (h : 8 ∣ msg.length) :
    gadgetSpecBits 0x01 msg = keccak256Bits msg :=
  gadgetSpec_eq_sponge 0x01 msg msg (specP_keccak msg h)

/-- **`gadgetSpecBits 0x06` is SHA3-256** on byte-aligned messages of every length. -/
theorem gadgetSpec_eq_sha3_256 (msg : List Bool) (h : 8 ∣ msg.length) :
    gadgetSpecBits 0x06 msg = sha3_256Bits msg :=
  gadgetSpec_eq_sponge 0x06 msg (msg ++ [false, true]) (specP_sha3 msg h)

end Smtb.Proofs.Keccak
