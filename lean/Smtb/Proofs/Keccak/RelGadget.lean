import Smtb.Proofs.Keccak.Rel
/-!
# The logical relation for the Keccak gadget: `keccakGadget_sat`
-/
namespace Smtb.Proofs.Keccak
open Smtb CircuitApi Smtb.Circuit.Keccak Smtb.KeccakSpec

variable {p : ℕ}

/-! ## naturality of the pure wiring -/

theorem embKV_lit (b : Bool) : embKV (p := p) (.lit b) = .lit b := rfl

theorem emb_lane (l : Lane Bool) : emb (p := p) l = l.map embKV := rfl
theorem emb_st (A : St Bool) : emb (p := p) A = A.map (List.map (List.map embKV)) := rfl
theorem emb_lanes (C : List (Lane Bool)) : emb (p := p) C = C.map (List.map embKV) := rfl

theorem lanes_getD_emb (C : List (Lane Bool)) (i : ℕ) :
    (emb (p := p) C).getD i [] = emb (p := p) (C.getD i []) := by
  simp only [emb_lanes, emb_lane, List.getD_eq_getElem?_getD, List.getElem?_map]
  cases C[i]? <;> rfl

theorem St_get_emb (A : St Bool) (x y : ℕ) :
    St.get (emb (p := p) A) x y = emb (p := p) (St.get A x y) := by
  simp only [St.get, emb_st, emb_lane, List.getD_eq_getElem?_getD, List.getElem?_map]
  cases A[x]? with
  | none => rfl
  | some r => simp only [Option.map_some, Option.getD_some, List.getElem?_map]; cases r[y]? <;> rfl

theorem St_set_emb (A : St Bool) (x y : ℕ) (l : Lane Bool) :
    St.set (emb (p := p) A) x y (emb (p := p) l) = emb (p := p) (St.set A x y l) := by
  simp only [St.set, emb_st, emb_lane, List.map_set, List.getD_eq_getElem?_getD, List.getElem?_map]
  cases A[x]? <;> rfl

theorem rotLane_emb (a : Lane Bool) (r : ℕ) :
    rotLane (emb (p := p) a) r = emb (p := p) (rotLane a r) := by
  simp only [rotLane, emb_lane, List.length_map, List.map_map]
  apply List.map_congr_left
  intro i _
  simp only [Function.comp, List.getD_eq_getElem?_getD, List.getElem?_map]
  cases a[(i + (laneSize - r)) % a.length]? <;> rfl

theorem isLitZero_emb (k : KV Bool) : KV.isLitZero (embKV (p := p) k) = KV.isLitZero k := by
  cases k with
  | lit b => cases b <;> rfl
  | var v => rfl

theorem allZeroes_emb (l : Lane Bool) : allZeroes (emb (p := p) l) = allZeroes l := by
  simp only [allZeroes, emb_lane, List.all_map]
  congr 1
  funext k
  exact isLitZero_emb k

theorem rcBits_emb (c : ℕ) : (rcBits c : Lane (ZMod p)) = emb (p := p) (rcBits c : Lane Bool) := by
  simp only [rcBits, emb_lane, List.map_map]
  rfl

theorem zeroState_emb : (zeroState : St (ZMod p)) = emb (p := p) (zeroState : St Bool) := by
  simp only [zeroState, emb_st, List.map_map, Function.comp_def, List.map_replicate, embKV_lit]

theorem drop_take_emb (P : List (KV Bool)) (i n : ℕ) :
    ((emb (p := p) P).drop i).take n = emb (p := p) ((P.drop i).take n) := by
  simp only [emb_lane, List.map_take, List.map_drop]

theorem paddedMsg_emb (dom : ℕ) (data : List Bool) :
    paddedMsg dom (data.map (Sat.embed (p := p))) = emb (p := p) (paddedMsg dom data) := by
  simp only [paddedMsg, emb_lane, List.map_append, List.map_map, List.length_map, List.length_append,
    List.map_replicate, embKV_lit]
  rfl

/-! ## the state loops -/

theorem Rel_forPairs (f : St (ZMod p) → ℕ → ℕ → SatM p (St (ZMod p))) (g : St Bool → ℕ → ℕ → Id (St Bool))
    (h : ∀ A x y, Rel (f (emb (p := p) A) x y) (g A x y)) (A : St Bool) :
    Rel (forPairs f (emb (p := p) A)) (forPairs g A) := by
  unfold forPairs
  apply Rel_foldlM'_idx
  intro A x
  apply Rel_foldlM'_idx
  intro A y
  exact h A x y

/-- the ρ/π wiring of `keccakRound` -/
def rhoPiB {V : Type} (A : St V) : St V :=
  let B0 : St V := (List.range 5).map fun _ => (List.range 5).map fun _ => []
  (List.range 5).foldl (fun B x => (List.range 5).foldl (fun B y =>
      B.set y ((2*x+3*y)%5) (rotLane (A.get x y) ((rotOffsets.getD x []).getD y 0))) B) B0

theorem foldl_emb {ι : Type} (f : St (ZMod p) → ι → St (ZMod p)) (g : St Bool → ι → St Bool)
    (h : ∀ B i, f (emb (p := p) B) i = emb (p := p) (g B i)) :
    ∀ (is : List ι) (B : St Bool), is.foldl f (emb (p := p) B) = emb (p := p) (is.foldl g B)
  | [], _ => rfl
  | i :: is, B => by simp only [List.foldl_cons, h, foldl_emb f g h is]

theorem rhoPiB_emb (A : St Bool) : rhoPiB (emb (p := p) A) = emb (p := p) (rhoPiB A) := by
  unfold rhoPiB
  have h0 : ((List.range 5).map fun _ => (List.range 5).map fun _ => ([] : Lane (ZMod p)))
      = emb (p := p) ((List.range 5).map fun _ => (List.range 5).map fun _ => ([] : Lane Bool)) := by
    simp only [emb_st, List.map_map, Function.comp_def, List.map_nil]
  simp only [h0]
  apply foldl_emb
  intro B x
  apply foldl_emb
  intro B y
  rw [St_get_emb, rotLane_emb, St_set_emb]

theorem Rel_keccakRound (A : St Bool) (rc : Lane Bool) :
    Rel (p := p) (keccakRound (emb (p := p) A) (emb (p := p) rc)) (keccakRound (m := Id) A rc) := by
  unfold keccakRound
  apply Rel_bind
  · apply Rel_mapM'_idx
    intro x
    simp only [St_get_emb]
    exact Rel_xor5 _ _ _ _ _
  intro C
  apply Rel_bind
  · apply Rel_mapM'_idx
    intro x
    simp only [lanes_getD_emb, rotLane_emb]
    exact Rel_xorLane _ _
  intro D
  apply Rel_bind
  · apply Rel_forPairs
    intro A x y
    simp only [St_get_emb, lanes_getD_emb]
    apply Rel_bind (Rel_xorLane _ _)
    intro l
    exact Rel_pure' (St_set_emb _ _ _ _)
  intro A1
  show Rel (forPairs _ (emb (p := p) A1) >>= _) (forPairs _ A1 >>= _)
  apply Rel_bind
  · apply Rel_forPairs
    intro A x y
    show Rel (do
        let left ← notLane (St.get (rhoPiB (emb (p := p) A1)) ((x+1)%5) y)
        let tmp ← andLane left (St.get (rhoPiB (emb (p := p) A1)) ((x+2)%5) y)
        let l ← xorLane (St.get (rhoPiB (emb (p := p) A1)) x y) tmp
        pure (St.set (emb (p := p) A) x y l)) (do
        let left ← notLane (St.get (rhoPiB A1) ((x+1)%5) y)
        let tmp ← andLane left (St.get (rhoPiB A1) ((x+2)%5) y)
        let l ← xorLane (St.get (rhoPiB A1) x y) tmp
        pure (St.set A x y l))
    simp only [rhoPiB_emb, St_get_emb]
    apply Rel_bind (Rel_notLane _); intro left
    apply Rel_bind (Rel_andLane _ _); intro tmp
    apply Rel_bind (Rel_xorLane _ _); intro l
    exact Rel_pure' (St_set_emb _ _ _ _)
  intro A2
  simp only [St_get_emb]
  apply Rel_bind (Rel_xorLane _ _); intro l
  exact Rel_pure' (St_set_emb _ _ _ _)

theorem Rel_keccakF (A : St Bool) :
    Rel (p := p) (keccakF (emb (p := p) A)) (keccakF (m := Id) A) := by
  unfold keccakF
  apply Rel_foldlM'_idx
  intro A c
  rw [rcBits_emb]
  exact Rel_keccakRound A _

theorem Rel_absorbBlock (P : List (KV Bool)) (blk : ℕ) (S : St Bool) :
    Rel (p := p) (absorbBlock (emb (p := p) P) blk (emb (p := p) S)) (absorbBlock (m := Id) P blk S) := by
  unfold absorbBlock
  apply Rel_forPairs
  intro S x y
  simp only [drop_take_emb, St_get_emb, allZeroes_emb]
  split
  · split
    · exact Rel_pure' (St_set_emb _ _ _ _)
    · split
      · exact Rel_pure S
      · apply Rel_bind (Rel_xorLane _ _); intro l
        exact Rel_pure' (St_set_emb _ _ _ _)
  · exact Rel_pure S

theorem kv_getD_emb (P : List (KV Bool)) (i : ℕ) :
    (emb (p := p) P).getD i (.lit false) = embKV (P.getD i (.lit false)) := by
  simp only [emb_lane, List.getD_eq_getElem?_getD, List.getElem?_map]
  cases P[i]? <;> rfl

theorem const_one_emb : (const (m := SatM p) 1 : ZMod p) = Sat.embed (const (m := Id) 1 : Bool) := by
  simp [Sat.embed, CircuitApi.const]

theorem kv_set_emb (P : List (KV Bool)) (i : ℕ) (b : Bool) :
    (emb (p := p) P).set i (.var (Sat.embed b)) = emb (p := p) (P.set i (.var b)) := by
  simp only [emb_lane, List.map_set]
  rfl

theorem map_toV_emb (l : Lane Bool) :
    (emb (p := p) l).map (KV.toV (m := SatM p)) = emb (p := p) (l.map (KV.toV (m := Id))) := by
  simp only [emb_list, List.map_map]
  apply List.map_congr_left
  intro k _
  exact toV_emb k

theorem append_emb (a b : Lane Bool) : emb (p := p) a ++ emb (p := p) b = emb (p := p) (a ++ b) := by
  simp only [emb_lane, List.map_append]

theorem Rel_keccakBody (dom : ℕ) (data : List Bool) :
    Rel (p := p) (keccakBody dom (data.map (Sat.embed (p := p)))) (keccakBody (m := Id) dom data) := by
  unfold keccakBody
  simp only [List.length_map, paddedMsg_emb, kv_getD_emb, toV_emb, const_one_emb]
  apply Rel_bind (Rel_xor _ _)
  intro lastV
  simp only [emb_bool, kv_set_emb]
  rw [zeroState_emb]
  apply Rel_bind
  · apply Rel_foldlM'_idx
    intro S blk
    apply Rel_bind (Rel_absorbBlock _ _ _)
    intro S'
    exact Rel_keccakF S'
  intro S
  apply Rel_pure'
  simp only [St_get_emb, append_emb, map_toV_emb]

theorem Rel_keccakGadget (dom : ℕ) (data : List Bool) :
    Rel (p := p) (keccakGadget dom (data.map (Sat.embed (p := p)))) (keccakGadget (m := Id) dom data) := by
  intro k
  unfold keccakGadget
  rw [Sat.opaqueN_iff]
  exact Rel_keccakBody dom data k

/-- **The Keccak gadget is deterministic on boolean inputs**: its satisfiability semantics is the
`Bool` run of the same program, for every input length and every domain byte. -/
theorem keccakGadget_sat (dom : ℕ) (msg : List Bool) (k : List (ZMod p) → Prop) :
    (keccakGadget dom (msg.map Sat.embed) : SatM p _) k ↔ k ((gadgetSpecBits dom msg).map Sat.embed) :=
  Rel_keccakGadget dom msg k

end Smtb.Proofs.Keccak
