import Smtb.Proofs.Sat
import Smtb.Circuit.Merkle
import Smtb.Model.Batch
import Mathlib.Data.List.GetD
/-!
# Satisfiability of the Merkle gadgets = the batch specification

`hash2` is any gadget that deterministically computes `H` (`hH`); instantiated with Poseidon2 in
`Properties/C03.lean`.
-/
namespace Smtb.Sat
open Smtb Smtb.Circuit Smtb.Merkle Smtb.Batch CircuitApi

variable {p : ℕ}

/-! ### little-endian bits -/

theorem natOfBits_bitsLE (n m : ℕ) : natOfBits (bitsLE n m) = m % 2 ^ n := by
  induction n generalizing m with
  | zero => simp [bitsLE, natOfBits, Nat.mod_one]
  | succ n ih =>
    simp only [bitsLE, natOfBits, ih, beq_iff_eq]
    rw [pow_succ]
    have h2 : m % (2 ^ n * 2) = m % 2 + 2 * ((m / 2) % 2 ^ n) := by
      rw [mul_comm, Nat.mod_mul]
    rw [h2]
    rcases Nat.mod_two_eq_zero_or_one m with h | h <;> simp [h]

theorem bitsLE_length (n m : ℕ) : (bitsLE n m).length = n := by
  induction n generalizing m with
  | zero => rfl
  | succ n ih => simp [bitsLE, ih]

theorem bitsLE_natOfBits (bs : List Bool) : bitsLE bs.length (natOfBits bs) = bs := by
  induction bs with
  | nil => rfl
  | cons b bs ih =>
    simp only [List.length_cons, bitsLE, natOfBits]
    cases b
    · simp only [Bool.false_eq_true, if_false, zero_add]
      rw [Nat.mul_mod_right, Nat.mul_div_cancel_left _ (by norm_num : 0 < 2), ih]; simp
    · simp only [if_true]
      rw [Nat.add_mul_mod_self_left, show (1 + 2 * natOfBits bs) / 2 = natOfBits bs by omega, ih]; simp

/-- a bit list of length `n` has value `m` iff it is *the* `n`-bit expansion of `m` and `m` fits -/
theorem natOfBits_eq_iff (bs : List Bool) (n m : ℕ) (hl : bs.length = n) :
    natOfBits bs = m ↔ m < 2 ^ n ∧ bs = bitsLE n m := by
  constructor
  · intro h
    subst h; subst hl
    exact ⟨natOfBits_lt bs, (bitsLE_natOfBits bs).symm⟩
  · rintro ⟨hm, rfl⟩
    rw [natOfBits_bitsLE, Nat.mod_eq_of_lt hm]

theorem bitsLE_take (n k m : ℕ) (h : k ≤ n) : (bitsLE n m).take k = bitsLE k m := by
  induction k generalizing n m with
  | zero => simp [bitsLE]
  | succ k ih =>
    cases n with
    | zero => omega
    | succ n => simp [bitsLE, ih n (m / 2) (by omega)]

theorem bitsLE_getD (n k m : ℕ) (h : k < n) : (bitsLE n m).getD k false = (m / 2 ^ k % 2 == 1) := by
  induction k generalizing n m with
  | zero =>
    cases n with
    | zero => omega
    | succ n => simp [bitsLE]
  | succ k ih =>
    cases n with
    | zero => omega
    | succ n =>
      simp only [bitsLE, List.getD_cons_succ]
      rw [ih n (m / 2) (by omega), Nat.div_div_eq_div_mul, pow_succ, mul_comm]

/-- `ToBinary` with a width that cannot wrap: the only accepted bits are those of `v.val` -/
theorem toBinary_iff [Fact p.Prime] (v : ZMod p) (n : ℕ) (hn : 2 ^ n ≤ p) (k : List (ZMod p) → Prop) :
    (toBinary v n : SatM p _) k ↔ v.val < 2 ^ n ∧ k ((bitsLE n v.val).map embed) := by
  have : NeZero p := ⟨(Fact.out : p.Prime).ne_zero⟩
  rw [toBinary_def]
  constructor
  · rintro ⟨bits, hl, hb, hr, hk⟩
    obtain ⟨bs, rfl⟩ := (all_isBool_iff bits).mp hb
    rw [List.length_map] at hl
    rw [recompose_embed] at hr
    have hlt : natOfBits bs < p := lt_of_lt_of_le (hl ▸ natOfBits_lt bs) hn
    have hv : natOfBits bs = v.val := by
      rw [← hr, ZMod.val_natCast, Nat.mod_eq_of_lt hlt]
    obtain ⟨h1, h2⟩ := (natOfBits_eq_iff bs n v.val hl).mp hv
    exact ⟨h1, h2 ▸ hk⟩
  · rintro ⟨hv, hk⟩
    refine ⟨(bitsLE n v.val).map embed, by simp [bitsLE_length], ?_, ?_, hk⟩
    · intro b hb
      obtain ⟨c, _, rfl⟩ := List.mem_map.mp hb
      exact isBool_embed c
    · rw [recompose_embed, natOfBits_bitsLE, Nat.mod_eq_of_lt hv, ZMod.natCast_zmod_val]

/-! ### ProofRound / VerifyProof -/

section gadgets
variable [Fact p.Prime]
variable (hash2 : ZMod p → ZMod p → SatM p (ZMod p)) (H : ZMod p → ZMod p → ZMod p)
variable (hH : ∀ a b k, hash2 a b k ↔ k (H a b))
include hH

theorem proofRound_iff (d h s : ZMod p) (k : ZMod p → Prop) :
    (proofRound hash2 d h s) k ↔ ∃ b : Bool, d = embed b ∧ k (if b then H h s else H s h) := by
  simp only [proofRound, SatM.bind_apply, assertBool_iff, select_iff, hH]
  constructor
  · rintro ⟨hd, -, -, hk⟩
    obtain ⟨b, rfl⟩ := (isBool_iff_embed d).mp hd
    refine ⟨b, rfl, ?_⟩
    cases b <;> simpa [embed] using hk
  · rintro ⟨b, rfl, hk⟩
    refine ⟨isBool_embed b, isBool_embed b, isBool_embed b, ?_⟩
    cases b <;> simpa [embed] using hk

theorem verifyProofLoop_embed (acc : ZMod p) (sibs : List (ZMod p)) (bs : List Bool) (k : ZMod p → Prop) :
    (verifyProofLoop hash2 acc sibs (bs.map embed)) k ↔ k (recover H acc sibs bs) := by
  induction sibs generalizing acc bs with
  | nil => cases bs <;> simp [verifyProofLoop, recover]
  | cons s sibs ih =>
    cases bs with
    | nil => simp [verifyProofLoop, recover]
    | cons b bs =>
      simp only [List.map_cons, verifyProofLoop, SatM.bind_apply, proofRound_iff hash2 H hH, recover]
      constructor
      · rintro ⟨b', hb, hk⟩
        have := embed_injective hb; subst this
        exact (ih _ _).mp hk
      · intro hk
        exact ⟨b, rfl, (ih _ _).mpr hk⟩

theorem verifyProof_embed (leaf : ZMod p) (sibs : List (ZMod p)) (bs : List Bool) (k : ZMod p → Prop) :
    (verifyProof hash2 leaf sibs (bs.map embed)) k ↔ k (recover H leaf sibs bs) :=
  verifyProofLoop_embed hash2 H hH leaf sibs bs k

/-! ### InsertionRound / InsertionProof -/

theorem insertionRound_iff (d : ℕ) (hd : 2 ^ d ≤ p) (idx item prev : ZMod p) (proof : List (ZMod p))
    (k : ZMod p → Prop) :
    (insertionRound hash2 d idx item prev proof) k ↔
      idx.val < 2 ^ d ∧ recover H 0 proof (bitsLE d idx.val) = prev ∧
        k (recover H item proof (bitsLE d idx.val)) := by
  simp only [insertionRound, SatM.bind_apply, toBinary_iff idx d hd,
    verifyProof_embed hash2 H hH, assertEq_iff, emptyLeaf, const_eq, Nat.cast_zero]

theorem insertionRound_iff_step (d : ℕ) (hd : 2 ^ d ≤ p) (idx item prev : ZMod p) (proof : List (ZMod p))
    (k : ZMod p → Prop) :
    (insertionRound hash2 d idx item prev proof) k ↔
      ∃ r, insertionStep H 0 d idx.val item prev proof = some r ∧ k r := by
  rw [insertionRound_iff hash2 H hH d hd]
  unfold insertionStep
  constructor
  · rintro ⟨h1, h2, h3⟩
    exact ⟨_, by rw [if_pos ⟨h1, h2⟩], h3⟩
  · rintro ⟨r, hr, hk⟩
    split at hr
    · next h => cases hr; exact ⟨h.1, h.2, hk⟩
    · cases hr

theorem insertionProofLoop_iff (d : ℕ) (hd : 2 ^ d ≤ p) (start : ZMod p) (i : ℕ) (prev : ZMod p)
    (ids : List (ZMod p)) (proofs : List (List (ZMod p))) (k : ZMod p → Prop) :
    (insertionProofLoop hash2 d start i prev ids proofs) k ↔
      ∃ r, insertionSpec H 0 ZMod.val (fun s j => s + (j : ZMod p)) d start i prev ids proofs = some r ∧ k r := by
  induction ids generalizing i prev proofs with
  | nil => simp [insertionProofLoop, insertionSpec]
  | cons id ids ih =>
    cases proofs with
    | nil => simp [insertionProofLoop, insertionSpec]
    | cons prf proofs =>
      simp only [insertionProofLoop, SatM.bind_apply, add_iff, const_eq,
        insertionRound_iff_step hash2 H hH d hd, insertionSpec]
      constructor
      · rintro ⟨r, hr, hk⟩
        rw [hr]
        exact (ih _ _ _).mp hk
      · rintro ⟨r, hr, hk⟩
        split at hr
        · next root hroot => exact ⟨root, hroot, (ih _ _ _).mpr ⟨r, hr, hk⟩⟩
        · cases hr

theorem insertionProof_iff (d : ℕ) (hd : 2 ^ d ≤ p) (start pre : ZMod p)
    (ids : List (ZMod p)) (proofs : List (List (ZMod p))) (k : ZMod p → Prop) :
    (insertionProof hash2 d start pre ids proofs) k ↔
      ∃ r, insertionSpec H 0 ZMod.val (fun s j => s + (j : ZMod p)) d start 0 pre ids proofs = some r ∧ k r :=
  insertionProofLoop_iff hash2 H hH d hd start 0 pre ids proofs k

/-! ### DeletionRound / DeletionProof -/

theorem deletionRound_iff (d : ℕ) (hd : 2 ^ (d + 1) ≤ p) (root idx item : ZMod p) (proof : List (ZMod p))
    (k : ZMod p → Prop) :
    (deletionRound hash2 d root idx item proof) k ↔
      (idx.val < 2 ^ d ∧ recover H item proof (bitsLE d idx.val) = root ∧
          k (recover H 0 proof (bitsLE d idx.val)))
      ∨ (2 ^ d ≤ idx.val ∧ idx.val < 2 ^ (d + 1) ∧ k root) := by
  simp only [deletionRound, SatM.bind_apply, toBinary_iff idx (d + 1) hd, sub_iff, isZero_iff,
    or_iff, assertEq_iff, select_iff, emptyLeaf, const_eq, Nat.cast_zero, Nat.cast_one]
  rw [← List.map_take, bitsLE_take (d + 1) d idx.val (by omega)]
  simp only [verifyProof_embed hash2 H hH]
  have hget : (List.map embed (bitsLE (d + 1) idx.val)).getD d (0 : ZMod p)
      = embed (idx.val / 2 ^ d % 2 == 1) := by
    rw [show (0 : ZMod p) = embed false from rfl, List.getD_map, bitsLE_getD (d + 1) d idx.val (by omega)]
  rw [hget]
  constructor
  · rintro ⟨hlt, -, -, h1, -, hk⟩
    by_cases hs : idx.val < 2 ^ d
    · left
      have hb : (idx.val / 2 ^ d % 2 == 1) = false := by
        rw [Nat.div_eq_of_lt hs]; rfl
      rw [hb] at h1 hk
      simp only [embed_false, add_zero, mul_zero, sub_zero, zero_mul] at h1 hk
      refine ⟨hs, ?_, hk⟩
      by_contra hne
      rw [if_neg (sub_ne_zero.mpr hne)] at h1
      exact zero_ne_one h1
    · right
      have hge : 2 ^ d ≤ idx.val := Nat.le_of_not_lt hs
      have hb : (idx.val / 2 ^ d % 2 == 1) = true := by
        have : idx.val / 2 ^ d = 1 := by
          apply Nat.div_eq_of_lt_le
          · simpa using hge
          · rw [pow_succ] at hlt; omega
        rw [this]; rfl
      rw [hb] at hk
      simp only [embed_true, one_mul] at hk
      exact ⟨hge, hlt, by simpa using hk⟩
  · rintro (⟨hs, hroot, hk⟩ | ⟨hge, hlt, hk⟩)
    · have hb : (idx.val / 2 ^ d % 2 == 1) = false := by
        rw [Nat.div_eq_of_lt hs]; rfl
      rw [hb]
      refine ⟨by rw [pow_succ]; omega, ?_, isBool_embed _, ?_, isBool_embed _, ?_⟩
      · split <;> simp [isBool]
      · simp [hroot]
      · simpa using hk
    · have hb : (idx.val / 2 ^ d % 2 == 1) = true := by
        have : idx.val / 2 ^ d = 1 := by
          apply Nat.div_eq_of_lt_le
          · simpa using hge
          · rw [pow_succ] at hlt; omega
        rw [this]; rfl
      rw [hb]
      refine ⟨hlt, ?_, isBool_embed _, ?_, isBool_embed _, ?_⟩
      · split <;> simp [isBool]
      · simp only [embed_true]; ring
      · simpa using hk

theorem deletionRound_iff_step (d : ℕ) (hd : 2 ^ (d + 1) ≤ p) (root idx item : ZMod p) (proof : List (ZMod p))
    (k : ZMod p → Prop) :
    (deletionRound hash2 d root idx item proof) k ↔
      ∃ r, deletionStep H 0 d root idx.val item proof = some r ∧ k r := by
  rw [deletionRound_iff hash2 H hH d hd]
  unfold deletionStep
  constructor
  · rintro (⟨h1, h2, h3⟩ | ⟨h1, h2, h3⟩)
    · exact ⟨_, by rw [if_pos h1, if_pos h2], h3⟩
    · exact ⟨_, by rw [if_neg (by omega), if_pos h2], h3⟩
  · rintro ⟨r, hr, hk⟩
    split at hr
    · next h1 =>
      split at hr
      · next h2 => cases hr; exact Or.inl ⟨h1, h2, hk⟩
      · cases hr
    · next h1 =>
      split at hr
      · next h2 => cases hr; exact Or.inr ⟨by omega, h2, hk⟩
      · cases hr

theorem deletionProofLoop_iff (d : ℕ) (hd : 2 ^ (d + 1) ≤ p) (root : ZMod p)
    (idxs ids : List (ZMod p)) (proofs : List (List (ZMod p))) (k : ZMod p → Prop) :
    (deletionProofLoop hash2 d root idxs ids proofs) k ↔
      ∃ r, deletionSpec H 0 ZMod.val d root idxs ids proofs = some r ∧ k r := by
  induction idxs generalizing root ids proofs with
  | nil => simp [deletionProofLoop, deletionSpec]
  | cons idx idxs ih =>
    cases ids with
    | nil => simp [deletionProofLoop, deletionSpec]
    | cons id ids =>
      cases proofs with
      | nil => simp [deletionProofLoop, deletionSpec]
      | cons prf proofs =>
        simp only [deletionProofLoop, SatM.bind_apply, deletionRound_iff_step hash2 H hH d hd, deletionSpec]
        constructor
        · rintro ⟨r, hr, hk⟩
          rw [hr]
          exact (ih _ _ _).mp hk
        · rintro ⟨r, hr, hk⟩
          split at hr
          · next root' hroot => exact ⟨root', hroot, (ih _ _ _).mpr ⟨r, hr, hk⟩⟩
          · cases hr

theorem deletionProof_iff (d : ℕ) (hd : 2 ^ (d + 1) ≤ p) (idxs : List (ZMod p)) (pre : ZMod p)
    (ids : List (ZMod p)) (proofs : List (List (ZMod p))) (k : ZMod p → Prop) :
    (deletionProof hash2 d idxs pre ids proofs) k ↔
      ∃ r, deletionSpec H 0 ZMod.val d pre idxs ids proofs = some r ∧ k r :=
  deletionProofLoop_iff hash2 H hH d hd pre idxs ids proofs k

end gadgets
end Smtb.Sat
